(* Executable model of the gonuts wallet (properties C08, C17, C19).

   What is modelled (the parts that carry the three properties), following
   /repo/wallet/{wallet,restore,keyset}.go call by call:
     - the wallet store: proofs, pending proofs (with optional melt quote id), keysets with
       their NUT-13 counters, mint and melt quotes; the in-memory view of each trusted mint
       (walletMint: active keyset, inactive keysets with fees);
     - every flow that creates deterministic outputs, the counter it reads, the positions it
       uses and its IncrementKeysetCounter call: MintTokens, swapToSend (with / without a
       spending condition), Receive, ReceiveHTLC, swapToTrusted / swapProofs, Melt (NUT-08
       blank outputs), ReclaimUnspentProofs, and Restore (batches of 100, three empty batches);
     - every request with a body that the wallet emits, as a symbolic request (inputs are
       proofs with or without their DLEQ object, outputs are blinded messages, Ys);
     - every *effect* (store write or POST) in program order: an operation can be cut right
       before its k-th effect (a crash of the wallet process) - reads and GETs are not
       effects, so cutting "between any two storage or HTTP calls" is cutting before one of
       the effects.
   Style: a direct state-transformer model (a state-and-cut monad over [world]), not a free
   monad; the proof selection arithmetic is Select.v (property C18), reused as it is.
   The mints are an honest-mint oracle over a small mint state (signed outputs, spent and
   pending proofs, quotes, issued/redeemed totals); the Lightning network between the mints is
   a table of payment outcomes.

   Identifiers: a blinded message / proof is identified by its origin
   (seed, keyset, counter) at a mint - the NUT-13 derivation is injective - or, for the
   random secrets of P2PK/HTLC-locked outputs, by (-1, keyset, nonce).

   The model is parametrised by [variant]: which of the four small repairs proposed in
   /verif/proposed-fixes are in the code. [repaired] is what the correspondence runs;
   the other variants are used by the refutation theorems. *)
From Coq Require Import ZArith List Bool Lia.
From Verif Require Import Select.
Import ListNotations.
Open Scope Z_scope.

(* ------------------------------------------------------------------ variants *)

Record variant := mkVariant {
  v_strip : bool;          (* DLEQ stripped from request inputs *)
  v_restore_delta : bool;  (* Restore increments by the batch delta *)
  v_sigall_inc : bool;     (* the SIG_ALL branch of swapToTrusted advances its counter *)
  v_keyset_ctr : bool      (* getActiveKeyset saves a keyset with its stored counter, not the one in memory *)
}.
Definition repaired : variant := mkVariant true true true true.
Definition unrepaired : variant := mkVariant false false false false.

(* ------------------------------------------------------------------ data *)

Record wproof := mkWP {
  wp_amt : Z;
  wp_mint : Z;
  wp_ks : Z;       (* keyset index at the mint *)
  wp_seed : Z;     (* wallet seed that derived the secret; -1: random secret *)
  wp_ctr : Z;      (* NUT-13 counter (or nonce number) *)
  wp_dleq : bool;  (* the stored/received proof carries DLEQ{e,s,r} *)
  wp_lock : Z;     (* 0 none, 1 P2PK, 2 HTLC *)
  wp_to : Z;       (* wallet whose key signs for the lock; -1 none *)
  wp_sigall : bool;
  wp_needsig : bool
}.

Definition same_proof (a b : wproof) : bool :=
  (wp_mint a =? wp_mint b) && (wp_ks a =? wp_ks b) && (wp_seed a =? wp_seed b) && (wp_ctr a =? wp_ctr b).

Definition mem_proof (p : wproof) (l : list wproof) : bool := existsb (same_proof p) l.
Definition remove_proofs (del l : list wproof) : list wproof := filter (fun p => negb (mem_proof p del)) l.
Definition sum_amt (l : list wproof) : Z := fold_right (fun p a => wp_amt p + a) 0 l.
Definition strip_dleq (p : wproof) : wproof :=
  mkWP (wp_amt p) (wp_mint p) (wp_ks p) (wp_seed p) (wp_ctr p) false (wp_lock p) (wp_to p) (wp_sigall p) (wp_needsig p).
Definition set_dleq (b : bool) (p : wproof) : wproof :=
  mkWP (wp_amt p) (wp_mint p) (wp_ks p) (wp_seed p) (wp_ctr p) (b && wp_dleq p) (wp_lock p) (wp_to p) (wp_sigall p) (wp_needsig p).

(* --- requests, symbolically *)
Record rin := mkIn { in_p : wproof; in_dleq : bool; in_r : bool }.
Record request := mkReq {
  rq_label : Z;            (* 20 mint quote, 21 mint, 22 swap, 23 melt quote, 24 melt, 25 checkstate, 26 restore *)
  rq_mint : Z;
  rq_in : list rin;
  rq_out : list wproof;    (* blinded messages: only B_ (origin), amount, keyset id *)
  rq_ys : list wproof;     (* Y = hash_to_curve(secret) of these proofs *)
  rq_stored : Z            (* ghost: the stored counter of the keyset of the outputs, read from the
                              wallet store when the request left (restore: start of the batch) *)
}.

Definition mk_input (v : variant) (p : wproof) : rin :=
  if v_strip v then mkIn p false false else mkIn p (wp_dleq p) (wp_dleq p).

(* atoms occurring in a request *)
Inductive atom :=
| ASecret (p : wproof)   (* the secret in the clear *)
| AC (p : wproof)        (* the unblinded signature *)
| ADleqES (p : wproof)   (* e, s of the DLEQ proof *)
| AR (p : wproof)        (* the blinding factor in the clear *)
| ABlind (p : wproof)    (* B_ = hash_to_curve(secret) + r G *)
| AY (p : wproof).       (* hash_to_curve(secret) *)

Definition atoms_in (i : rin) : list atom :=
  [ASecret (in_p i); AC (in_p i)] ++ (if in_dleq i then [ADleqES (in_p i)] else []) ++ (if in_r i then [AR (in_p i)] else []).
Definition atoms (r : request) : list atom :=
  flat_map atoms_in (rq_in r) ++ map ABlind (rq_out r) ++ map AY (rq_ys r).

(* --- mint side *)
Record mquote := mkMQ { mq_id : Z; mq_amt : Z; mq_paid : bool; mq_issued : bool }.
Record lquote := mkLQ { lq_id : Z; lq_amt : Z; lq_res : Z; lq_state : Z; (* 0 UNPAID 1 PENDING 2 PAID *)
                        lq_inv : Z * Z;  (* invoice: (mint, mint quote id) or (-1, n) for an outside payee *)
                        lq_inputs : list wproof }.
Record mintst := mkMint {
  mn_fees : list Z;      (* input_fee_ppk of keysets 0,1,..; the last one is the active keyset *)
  mn_pct : Z;            (* Lightning fee reserve, percent *)
  mn_signed : list wproof;
  mn_spent : list wproof;
  mn_pend : list wproof;
  mn_mq : list mquote;
  mn_lq : list lquote;
  mn_issued : Z;
  mn_redeemed : Z
}.

Definition active_ks (m : mintst) : Z := Z.of_nat (length (mn_fees m)) - 1.
Definition fee_of (m : mintst) (ks : Z) : Z := nth (Z.to_nat ks) (mn_fees m) 0.
Definition tx_fees (m : mintst) (ins : list wproof) : Z :=
  (fold_right (fun p a => fee_of m (wp_ks p) + a) 0 ins + 999) / 1000.

(* --- wallet side *)
Record ksrec := mkKs { k_mint : Z; k_ks : Z; k_active : bool; k_fee : Z; k_ctr : Z }.
Record view := mkView { vw_mint : Z; vw_act : Z; vw_fee : Z; vw_inact : list (Z * Z); vw_memctr : Z }.
Record wmq := mkWMQ { wq_mint : Z; wq_id : Z; wq_amt : Z; wq_state : Z (* 0 UNPAID 1 PAID 3 ISSUED *) }.
Record wlq := mkWLQ { wl_mint : Z; wl_id : Z; wl_amt : Z; wl_res : Z; wl_state : Z }.
Record wallet := mkW {
  w_home : Z;
  w_ks : list ksrec;
  w_views : list view;
  w_proofs : list wproof;
  w_pend : list (wproof * Z);     (* quote id, -1 none *)
  w_mq : list wmq;
  w_lq : list wlq
}.

Record token := mkTok { t_mint : Z; t_proofs : list wproof }.
Record meltref := mkMR { mr_wallet : Z; mr_mint : Z; mr_q : Z; mr_inv : Z * Z; mr_gen : Z }.

Record world := mkWorld {
  mints : list mintst;
  wallets : list wallet;
  gens : list Z;                  (* number of restores of each wallet slot *)
  tokens : list token;
  melts : list meltref;
  pays : list ((Z * Z) * Z);      (* Lightning payments: invoice -> 1 succeeded 2 failed 3 pending *)
  nonce : Z;                      (* next random-secret number / outside invoice number *)
  outcome : Z;                    (* answer of the Lightning network to the next payment: 0 ok 1 fails 2 pending *)
  budget : Z;                     (* effects left before the cut; negative: no cut *)
  effs : list Z;                  (* effects of the running operation, newest first *)
  reqs : list request;            (* requests of the running operation, newest first *)
  trace : list request            (* every request ever sent, newest first *)
}.

(* ------------------------------------------------------------------ the monad *)

Inductive R (X : Type) : Type := ROk (x : X) | RFail | RCut.
Arguments ROk {X} x. Arguments RFail {X}. Arguments RCut {X}.
Definition M (X : Type) : Type := world -> R X * world.
Definition ret {X} (x : X) : M X := fun w => (ROk x, w).
Definition fail {X} : M X := fun w => (RFail, w).
Definition bind {X Y} (m : M X) (k : X -> M Y) : M Y :=
  fun w => match m w with
           | (ROk x, w1) => k x w1
           | (RFail, w1) => (RFail, w1)
           | (RCut, w1) => (RCut, w1)
           end.
Notation "'doM' x <- e ; k" := (bind e (fun x => k)) (at level 200, x pattern, e at level 100, k at level 200, right associativity).
Notation "'doM_' e ; k" := (bind e (fun _ => k)) (at level 200, e at level 100, k at level 200, right associativity).
Definition get : M world := fun w => (ROk w, w).
Definition modify (f : world -> world) : M unit := fun w => (ROk tt, f w).
Definition guard (b : bool) : M unit := if b then ret tt else fail.

Definition set_mints (w : world) (x : list mintst) : world :=
  mkWorld x (wallets w) (gens w) (tokens w) (melts w) (pays w) (nonce w) (outcome w) (budget w) (effs w) (reqs w) (trace w).
Definition set_wallets (w : world) (x : list wallet) : world :=
  mkWorld (mints w) x (gens w) (tokens w) (melts w) (pays w) (nonce w) (outcome w) (budget w) (effs w) (reqs w) (trace w).
Definition set_gens (w : world) (x : list Z) : world :=
  mkWorld (mints w) (wallets w) x (tokens w) (melts w) (pays w) (nonce w) (outcome w) (budget w) (effs w) (reqs w) (trace w).
Definition set_tokens (w : world) (x : list token) : world :=
  mkWorld (mints w) (wallets w) (gens w) x (melts w) (pays w) (nonce w) (outcome w) (budget w) (effs w) (reqs w) (trace w).
Definition set_melts (w : world) (x : list meltref) : world :=
  mkWorld (mints w) (wallets w) (gens w) (tokens w) x (pays w) (nonce w) (outcome w) (budget w) (effs w) (reqs w) (trace w).
Definition set_pays (w : world) (x : list ((Z * Z) * Z)) : world :=
  mkWorld (mints w) (wallets w) (gens w) (tokens w) (melts w) x (nonce w) (outcome w) (budget w) (effs w) (reqs w) (trace w).
Definition set_nonce (w : world) (x : Z) : world :=
  mkWorld (mints w) (wallets w) (gens w) (tokens w) (melts w) (pays w) x (outcome w) (budget w) (effs w) (reqs w) (trace w).
Definition set_outcome (w : world) (x : Z) : world :=
  mkWorld (mints w) (wallets w) (gens w) (tokens w) (melts w) (pays w) (nonce w) x (budget w) (effs w) (reqs w) (trace w).
Definition set_run (w : world) (b : Z) (e : list Z) (r : list request) (t : list request) : world :=
  mkWorld (mints w) (wallets w) (gens w) (tokens w) (melts w) (pays w) (nonce w) (outcome w) b e r t.

(* one effect: a store write or a POST. Cut right before it when the budget is used up. *)
Definition eff (label : Z) : M unit :=
  fun w => if budget w =? 0 then (RCut, w)
           else (ROk tt, set_run w (if budget w <? 0 then budget w else budget w - 1) (label :: effs w) (reqs w) (trace w)).

Definition post (r : request) : M unit :=
  doM_ eff (rq_label r) ;
  modify (fun w => set_run w (budget w) (effs w) (r :: reqs w) (r :: trace w)).

(* runs a part whose effects are not those of the operation (LoadWallet after a restore / a cut) *)
Definition silent {X} (m : M X) : M X :=
  fun w => match m (set_run w (-1) (effs w) (reqs w) (trace w)) with
           | (r, w1) => (r, set_run w1 (budget w) (effs w) (reqs w) (trace w1))
           end.

(* a request whose outputs are derived from the stored counter of keyset (m, ks) of wallet i:
   counterForKeyset, createBlindedMessages and the POST follow each other with no store write in
   between, so the request is built from the counter that is stored when it leaves *)
Definition counter_in (w : world) (i m ks : Z) : Z :=
  match find (fun k => (k_mint k =? m) && (k_ks k =? ks)) (w_ks (nth (Z.to_nat i) (wallets w) (mkW 0 [] [] [] [] [] []))) with
  | Some k => k_ctr k
  | None => 0
  end.
Definition post_at (i m ks : Z) (mk : Z -> request) : M request :=
  fun w => let r := mk (counter_in w i m ks) in
           match post r w with
           | (ROk _, w1) => (ROk r, w1)
           | (RFail, w1) => (RFail, w1)
           | (RCut, w1) => (RCut, w1)
           end.

(* labels *)
Definition eSaveProofs := 1. Definition eDeleteProof := 2. Definition eAddPending := 3.
Definition eAddPendingQuote := 4. Definition eDelPending := 5. Definition eDelPendingQuote := 6.
Definition eSaveKeyset := 7. Definition eIncCounter := 8. Definition eSaveMintQuote := 9.
Definition eSaveMeltQuote := 10.
Definition lMintQuote := 20. Definition lMint := 21. Definition lSwap := 22. Definition lMeltQuote := 23.
Definition lMelt := 24. Definition lCheck := 25. Definition lRestore := 26.

(* ------------------------------------------------------------------ list helpers *)

Fixpoint upd_nth {X} (n : nat) (f : X -> X) (l : list X) : list X :=
  match l, n with
  | [], _ => []
  | x :: r, O => f x :: r
  | x :: r, S k => x :: upd_nth k f r
  end.

Definition nthZ {X} (i : Z) (l : list X) (d : X) : X := nth (Z.to_nat i) l d.

Definition mint0 : mintst := mkMint [] 0 [] [] [] [] [] 0 0.
Definition wallet0 : wallet := mkW 0 [] [] [] [] [] [].

Definition get_mint (m : Z) : M mintst := fun w => (ROk (nthZ m (mints w) mint0), w).
Definition put_mint (m : Z) (x : mintst) : M unit :=
  modify (fun w => set_mints w (upd_nth (Z.to_nat m) (fun _ => x) (mints w))).
Definition get_gen (i : Z) : M Z := fun w => (ROk (nthZ i (gens w) 0), w).
Definition get_wallet (i : Z) : M wallet := fun w => (ROk (nthZ i (wallets w) wallet0), w).
Definition put_wallet (i : Z) (x : wallet) : M unit :=
  modify (fun w => set_wallets w (upd_nth (Z.to_nat i) (fun _ => x) (wallets w))).
Definition upd_wallet (i : Z) (f : wallet -> wallet) : M unit :=
  modify (fun w => set_wallets w (upd_nth (Z.to_nat i) f (wallets w))).

Definition w_set_ks (x : wallet) (v : list ksrec) := mkW (w_home x) v (w_views x) (w_proofs x) (w_pend x) (w_mq x) (w_lq x).
Definition w_set_views (x : wallet) (v : list view) := mkW (w_home x) (w_ks x) v (w_proofs x) (w_pend x) (w_mq x) (w_lq x).
Definition w_set_proofs (x : wallet) (v : list wproof) := mkW (w_home x) (w_ks x) (w_views x) v (w_pend x) (w_mq x) (w_lq x).
Definition w_set_pend (x : wallet) (v : list (wproof * Z)) := mkW (w_home x) (w_ks x) (w_views x) (w_proofs x) v (w_mq x) (w_lq x).
Definition w_set_mq (x : wallet) (v : list wmq) := mkW (w_home x) (w_ks x) (w_views x) (w_proofs x) (w_pend x) v (w_lq x).
Definition w_set_lq (x : wallet) (v : list wlq) := mkW (w_home x) (w_ks x) (w_views x) (w_proofs x) (w_pend x) (w_mq x) v.

(* ------------------------------------------------------------------ honest mint oracle *)

Definition m_set (m : mintst) signed spent pend mq lq issued redeemed : mintst :=
  mkMint (mn_fees m) (mn_pct m) signed spent pend mq lq issued redeemed.

Definition mint_new_quote (m : mintst) (amount : Z) : Z * mintst :=
  let id := Z.of_nat (length (mn_mq m)) in
  (id, m_set m (mn_signed m) (mn_spent m) (mn_pend m) (mn_mq m ++ [mkMQ id amount false false]) (mn_lq m) (mn_issued m) (mn_redeemed m)).

Definition find_mq (m : mintst) (id : Z) : option mquote := find (fun q => mq_id q =? id) (mn_mq m).
Definition find_lq (m : mintst) (id : Z) : option lquote := find (fun q => lq_id q =? id) (mn_lq m).
Definition upd_mq (m : mintst) (id : Z) (f : mquote -> mquote) : mintst :=
  m_set m (mn_signed m) (mn_spent m) (mn_pend m) (map (fun q => if mq_id q =? id then f q else q) (mn_mq m)) (mn_lq m) (mn_issued m) (mn_redeemed m).
Definition upd_lq (m : mintst) (id : Z) (f : lquote -> lquote) : mintst :=
  m_set m (mn_signed m) (mn_spent m) (mn_pend m) (mn_mq m) (map (fun q => if lq_id q =? id then f q else q) (mn_lq m)) (mn_issued m) (mn_redeemed m).

Definition settle_quote (m : mintst) (id : Z) : mintst :=
  upd_mq m id (fun q => mkMQ (mq_id q) (mq_amt q) true (mq_issued q)).

(* signBlindedMessages refuses outputs of an inactive keyset; the same B_ is never signed twice *)
Definition outputs_ok (m : mintst) (outs : list wproof) : bool :=
  forallb (fun o => (wp_ks o =? active_ks m) && negb (mem_proof o (mn_signed m))) outs.

Fixpoint nodup_proofs (l : list wproof) : bool :=
  match l with
  | [] => true
  | p :: r => negb (mem_proof p r) && nodup_proofs r
  end.

(* MintTokens *)
Definition mint_mint (m : mintst) (qid : Z) (outs : list wproof) : option mintst :=
  match find_mq m qid with
  | None => None
  | Some q =>
      if mq_paid q && negb (mq_issued q) && (sum_amt outs <=? mq_amt q) && outputs_ok m outs && nodup_proofs outs then
        let m1 := upd_mq m qid (fun q => mkMQ (mq_id q) (mq_amt q) (mq_paid q) true) in
        Some (m_set m1 (mn_signed m1 ++ outs) (mn_spent m1) (mn_pend m1) (mn_mq m1) (mn_lq m1) (mn_issued m1 + sum_amt outs) (mn_redeemed m1))
      else None
  end.

Definition inputs_free (m : mintst) (ins : list wproof) : bool :=
  forallb (fun p => negb (mem_proof p (mn_spent m)) && negb (mem_proof p (mn_pend m)) && mem_proof p (mn_signed m)) ins
  && nodup_proofs ins.

(* Swap *)
Definition mint_swap (m : mintst) (ins outs : list wproof) : option mintst :=
  let fees := tx_fees m ins in
  if (fees <=? sum_amt ins) && (sum_amt outs <=? sum_amt ins - fees) && inputs_free m ins && outputs_ok m outs && nodup_proofs outs then
    Some (m_set m (mn_signed m ++ outs) (mn_spent m ++ ins) (mn_pend m) (mn_mq m) (mn_lq m)
                (mn_issued m + sum_amt outs) (mn_redeemed m + sum_amt ins))
  else None.

(* RequestMeltQuote: own invoice -> no fee reserve *)
Definition mint_melt_quote (mi : Z) (m : mintst) (inv : Z * Z) (amount : Z) : option (Z * Z * mintst) :=
  if (amount <=? 0) || existsb (fun q => (fst (lq_inv q) =? fst inv) && (snd (lq_inv q) =? snd inv)) (mn_lq m) then None
  else
    let res := if fst inv =? mi then 0 else (amount * mn_pct m + 99) / 100 in
    let id := Z.of_nat (length (mn_lq m)) in
    Some (id, res, m_set m (mn_signed m) (mn_spent m) (mn_pend m) (mn_mq m) (mn_lq m ++ [mkLQ id amount res 0 inv []]) (mn_issued m) (mn_redeemed m)).

Definition spend_inputs (m : mintst) (ins : list wproof) : mintst :=
  m_set m (mn_signed m) (mn_spent m ++ ins) (remove_proofs ins (mn_pend m)) (mn_mq m) (mn_lq m) (mn_issued m) (mn_redeemed m + sum_amt ins).
Definition release_inputs (m : mintst) (ins : list wproof) : mintst :=
  m_set m (mn_signed m) (mn_spent m) (remove_proofs ins (mn_pend m)) (mn_mq m) (mn_lq m) (mn_issued m) (mn_redeemed m).
Definition set_lq_state (m : mintst) (id st : Z) (ins : list wproof) : mintst :=
  upd_lq m id (fun q => mkLQ (lq_id q) (lq_amt q) (lq_res q) st (lq_inv q) ins).

Definition pay_status (w : world) (inv : Z * Z) : Z :=
  match find (fun x => (fst (fst x) =? fst inv) && (snd (fst x) =? snd inv)) (pays w) with
  | Some x => snd x
  | None => 0
  end.
Definition set_pay (inv : Z * Z) (st : Z) : M unit :=
  modify (fun w => set_pays w ((inv, st) :: filter (fun x => negb ((fst (fst x) =? fst inv) && (snd (fst x) =? snd inv))) (pays w))).

(* a successful payment settles the invoice at the mint that created it *)
Definition deliver (inv : Z * Z) : M unit :=
  if fst inv <? 0 then ret tt
  else doM m <- get_mint (fst inv) ; put_mint (fst inv) (settle_quote m (snd inv)).

(* MeltTokens. Result: the state of the quote in the response. *)
Definition mint_melt (mi qid : Z) (ins : list wproof) : M Z :=
  doM m <- get_mint mi ;
  match find_lq m qid with
  | None => fail
  | Some q =>
      doM_ guard ((lq_state q =? 0) && inputs_free m ins && (lq_amt q + lq_res q + tx_fees m ins <=? sum_amt ins)
             && negb (existsb wp_sigall ins)) ;
      let mp := m_set m (mn_signed m) (mn_spent m) (mn_pend m ++ ins) (mn_mq m) (mn_lq m) (mn_issued m) (mn_redeemed m) in
      if fst (lq_inv q) =? mi then
        (* settled internally *)
        doM_ put_mint mi (settle_quote (set_lq_state (spend_inputs mp ins) qid 2 ins) (snd (lq_inv q))) ; ret 2
      else
        doM w <- get ;
        match outcome w with
        | 0 => doM_ put_mint mi (set_lq_state (spend_inputs mp ins) qid 2 ins) ; doM_ set_pay (lq_inv q) 1 ; doM_ deliver (lq_inv q) ; ret 2
        | 1 => doM_ put_mint mi (set_lq_state (release_inputs mp ins) qid 0 []) ; doM_ set_pay (lq_inv q) 2 ; ret 0
        | _ => doM_ put_mint mi (set_lq_state mp qid 1 ins) ; doM_ set_pay (lq_inv q) 3 ; ret 1
        end
  end.

(* GetMeltQuoteState: a pending quote follows the payment *)
Definition mint_poll (mi qid : Z) : M Z :=
  doM m <- get_mint mi ;
  match find_lq m qid with
  | None => fail
  | Some q =>
      if lq_state q =? 1 then
        doM w <- get ;
        match pay_status w (lq_inv q) with
        | 1 => doM_ put_mint mi (set_lq_state (spend_inputs m (lq_inputs q)) qid 2 (lq_inputs q)) ; ret 2
        | 2 => doM_ put_mint mi (set_lq_state (release_inputs m (lq_inputs q)) qid 0 []) ; ret 0
        | _ => ret 1
        end
      else ret (lq_state q)
  end.

(* ProofsStateCheck first polls the quotes of the pending proofs it is asked about *)
Fixpoint poll_all (mi : Z) (qs : list Z) : M unit :=
  match qs with
  | [] => ret tt
  | q :: r => doM_ mint_poll mi q ; poll_all mi r
  end.
Definition quotes_touching (m : mintst) (ps : list wproof) : list Z :=
  map lq_id (filter (fun q => (lq_state q =? 1) && existsb (fun p => mem_proof p ps) (lq_inputs q)) (mn_lq m)).
(* state: 0 UNSPENT 1 PENDING 2 SPENT *)
Definition proof_state (m : mintst) (p : wproof) : Z :=
  if mem_proof p (mn_spent m) then 2 else if mem_proof p (mn_pend m) then 1 else 0.
Definition mint_check (mi : Z) (ps : list wproof) : M (list Z) :=
  doM m <- get_mint mi ;
  doM_ poll_all mi (quotes_touching m ps) ;
  doM m1 <- get_mint mi ;
  ret (map (proof_state m1) ps).

(* ------------------------------------------------------------------ wallet: keysets and views *)

Definition find_view (x : wallet) (m : Z) : option view := find (fun v => vw_mint v =? m) (w_views x).
Definition put_view (x : wallet) (v : view) : wallet :=
  if existsb (fun u => vw_mint u =? vw_mint v) (w_views x)
  then w_set_views x (map (fun u => if vw_mint u =? vw_mint v then v else u) (w_views x))
  else w_set_views x (w_views x ++ [v]).
Definition find_ks (x : wallet) (m ks : Z) : option ksrec := find (fun k => (k_mint k =? m) && (k_ks k =? ks)) (w_ks x).
Definition put_ks (x : wallet) (k : ksrec) : wallet :=
  if existsb (fun u => (k_mint u =? k_mint k) && (k_ks u =? k_ks k)) (w_ks x)
  then w_set_ks x (map (fun u => if (k_mint u =? k_mint k) && (k_ks u =? k_ks k) then k else u) (w_ks x))
  else w_set_ks x (w_ks x ++ [k]).
(* GetKeysetCounter: 0 for a keyset that is not stored *)
Definition counter_of (x : wallet) (m ks : Z) : Z :=
  match find_ks x m ks with Some k => k_ctr k | None => 0 end.
(* IncrementKeysetCounter: an error for a keyset that is not stored *)
Definition inc_counter (i m ks n : Z) : M unit :=
  doM_ eff eIncCounter ;
  doM x <- get_wallet i ;
  match find_ks x m ks with
  | None => fail
  | Some k => put_wallet i (put_ks x (mkKs m ks (k_active k) (k_fee k) (k_ctr k + n)))
  end.

(* AddMint: the active keyset and the inactive ones are saved (counter 0) and become the view *)
Fixpoint save_inactive (i m : Z) (fees : list Z) (ks : Z) (n : nat) : M unit :=
  match n with
  | O => ret tt
  | S k =>
      doM_ eff eSaveKeyset ;
      doM_ upd_wallet i (fun x => put_ks x (mkKs m ks false (nth (Z.to_nat ks) fees 0) 0)) ;
      save_inactive i m fees (ks + 1) k
  end.
Definition inactive_list (fees : list Z) : list (Z * Z) :=
  map (fun n => (Z.of_nat n, nth n fees 0)) (seq 0 (length fees - 1)).
Definition add_mint (i m : Z) : M unit :=
  doM mt <- get_mint m ;
  let a := active_ks mt in
  doM_ eff eSaveKeyset ;
  doM_ upd_wallet i (fun x => put_ks x (mkKs m a true (fee_of mt a) 0)) ;
  doM_ save_inactive i m (mn_fees mt) 0 (length (mn_fees mt) - 1) ;
  upd_wallet i (fun x => put_view x (mkView m a (fee_of mt a) (inactive_list (mn_fees mt)) 0)).

(* getActiveKeyset: (keyset, fee). For a known mint the view follows a rotation / a changed fee. *)
Definition get_active_keyset (vr : variant) (i m : Z) : M (Z * Z) :=
  doM x <- get_wallet i ;
  doM mt <- get_mint m ;
  let a := active_ks mt in
  match find_view x m with
  | None => ret (a, fee_of mt a)
  | Some v =>
      if vw_act v =? a then
        if vw_fee v =? fee_of mt a then ret (a, vw_fee v)
        else
          doM_ eff eSaveKeyset ;
          let c := if v_keyset_ctr vr then counter_of x m a else vw_memctr v in
          doM_ upd_wallet i (fun x => put_view (put_ks x (mkKs m a true (fee_of mt a) c))
                                          (mkView m a (fee_of mt a) (vw_inact v) c)) ;
          ret (a, fee_of mt a)
      else
        (* the previous active keyset is saved from memory (with the counter it had when it was loaded) *)
        doM_ eff eSaveKeyset ;
        doM_ upd_wallet i (fun x => put_ks x (mkKs m (vw_act v) false (vw_fee v)
                                                   (if v_keyset_ctr vr then counter_of x m (vw_act v) else vw_memctr v))) ;
        doM x1 <- get_wallet i ;
        match find_ks x1 m a with
        | Some k =>
            doM_ eff eSaveKeyset ;
            doM_ upd_wallet i (fun x => put_view (put_ks x (mkKs m a true (fee_of mt a) (k_ctr k)))
                                            (mkView m a (fee_of mt a)
                                                    (filter (fun e => negb (fst e =? a)) (vw_inact v ++ [(vw_act v, vw_fee v)])) (k_ctr k))) ;
            ret (a, fee_of mt a)
        | None =>
            doM_ eff eSaveKeyset ;
            doM_ upd_wallet i (fun x => put_view (put_ks x (mkKs m a true (fee_of mt a) 0))
                                            (mkView m a (fee_of mt a) (vw_inact v ++ [(vw_act v, vw_fee v)]) 0)) ;
            ret (a, fee_of mt a)
        end
  end.

(* ------------------------------------------------------------------ wallet: selection (Select.v) *)

(* Select.proof: keyset 0 is the active one of the view, k+1 is the inactive keyset k *)
Definition to_sel (v : view) (uid : Z) (p : wproof) : Select.proof :=
  Select.mkProof (wp_amt p) (if wp_ks p =? vw_act v then 0 else wp_ks p + 1) uid.
Definition sel_mint (v : view) : Select.mint :=
  Select.mkMint (vw_fee v) (map (fun e => (fst e + 1, snd e)) (vw_inact v)).

Fixpoint number_from {X} (n : Z) (l : list X) : list (Z * X) :=
  match l with [] => [] | x :: r => (n, x) :: number_from (n + 1) r end.

Definition of_view (v : view) (p : wproof) : bool :=
  (wp_mint p =? vw_mint v) && ((wp_ks p =? vw_act v) || existsb (fun e => fst e =? wp_ks p) (vw_inact v)).
Definition mint_proofs (x : wallet) (v : view) : list wproof := filter (of_view v) (w_proofs x).
Definition is_active_p (v : view) (p : wproof) : bool := wp_ks p =? vw_act v.

(* getInactiveProofsByMint / getActiveProofsByMint read w.mints[url] - the CURRENT view - while
   feesForProofs is given the copy of the view the caller took before ([v]) *)
Definition cur_view (x : wallet) (v : view) : view :=
  match find (fun u => vw_mint u =? vw_mint v) (w_views x) with Some u => u | None => v end.
Definition sel_inactive (x : wallet) (v : view) : list Select.proof :=
  let c := cur_view x v in
  map (fun e => to_sel v (fst e) (snd e)) (filter (fun e => negb (is_active_p c (snd e))) (number_from 0 (mint_proofs x c))).
Definition sel_active (x : wallet) (v : view) : list Select.proof :=
  let c := cur_view x v in
  map (fun e => to_sel v (fst e) (snd e)) (filter (fun e => is_active_p c (snd e)) (number_from 0 (mint_proofs x c))).
Definition back (x : wallet) (v : view) (sel : list Select.proof) : list wproof :=
  flat_map (fun s => match nth_error (mint_proofs x (cur_view x v)) (Z.to_nat (Select.p_uid s)) with Some p => [p] | None => [] end) sel.

Definition view_fees (v : view) (ps : list wproof) : Z :=
  Select.fees_for_proofs (sel_mint v) (map (to_sel v 0) ps).
(* splitWalletTarget reads the proofs of the mint's keysets in the CURRENT view *)
Definition wallet_split (x : wallet) (m : Z) (amount : Z) : list Z :=
  match find_view x m with
  | Some v => Select.split_wallet_target amount (map wp_amt (mint_proofs x v))
  | None => Select.split_wallet_target amount []
  end.

(* createBlindedMessages(split, keyset, &counter): outputs at consecutive counters *)
Fixpoint derive (seed m ks ctr : Z) (split : list Z) : list wproof :=
  match split with
  | [] => []
  | a :: r => mkWP a m ks seed ctr true 0 (-1) false false :: derive seed m ks (ctr + 1) r
  end.
(* blindedMessagesFromSpendingCondition: random secrets *)
Fixpoint derive_locked (m ks n lock to : Z) (sigall needsig : bool) (split : list Z) : list wproof :=
  match split with
  | [] => []
  | a :: r => mkWP a m ks (-1) n true lock to sigall needsig :: derive_locked m ks (n + 1) lock to sigall needsig r
  end.

Definition del_proofs (i : Z) (ps : list wproof) : M unit :=
  (fix go (l : list wproof) : M unit :=
     match l with
     | [] => ret tt
     | p :: r => doM_ eff eDeleteProof ; doM_ upd_wallet i (fun x => w_set_proofs x (remove_proofs [p] (w_proofs x))) ; go r
     end) ps.
Definition save_proofs (i : Z) (ps : list wproof) : M unit :=
  doM_ eff eSaveProofs ;
  upd_wallet i (fun x => w_set_proofs x (remove_proofs ps (w_proofs x) ++ ps)).

(* sortZ-stable assignment of the signed outputs to the send amounts (swapToSend):
   for each send amount the first remaining proof of that amount *)
Fixpoint take_amount (a : Z) (l : list wproof) : option (wproof * list wproof) :=
  match l with
  | [] => None
  | p :: r => if wp_amt p =? a then Some (p, r)
              else match take_amount a r with
                   | Some (q, r') => Some (q, p :: r')
                   | None => None
                   end
  end.
Fixpoint pick_send (send : list Z) (l : list wproof) : list wproof * list wproof :=
  match send with
  | [] => ([], l)
  | a :: r => match take_amount a l with
              | Some (p, l') => let '(s, rest) := pick_send r l' in (p :: s, rest)
              | None => pick_send r l
              end
  end.

(* cashu.SortBlindedMessages: for i { for j > i { if a[i].Amount > a[j].Amount { swap } } } *)
Fixpoint xpass (cur : wproof) (l : list wproof) : wproof * list wproof :=
  match l with
  | [] => (cur, [])
  | e :: r => if wp_amt e <? wp_amt cur
              then let '(c, r') := xpass e r in (c, cur :: r')
              else let '(c, r') := xpass cur r in (c, e :: r')
  end.
Fixpoint xsort (fuel : nat) (l : list wproof) : list wproof :=
  match fuel, l with
  | S f, x :: r => let '(c, r') := xpass x r in c :: xsort f r'
  | _, _ => []
  end.
Definition sort_outputs (l : list wproof) : list wproof := xsort (length l) l.

(* the outputs of swapToSend: the send part (from the counter, or random secrets for a spending
   condition), then the change part from the counter, sorted by cashu.SortBlindedMessages *)
Definition send_outputs (i m aks lock to : Z) (sigall needsig : bool) (nonce0 : Z) (split change_split : list Z) (ctr : Z)
  : list wproof :=
  let send := if lock =? 0 then derive i m aks ctr split else derive_locked m aks nonce0 lock to sigall needsig split in
  let ctr1 := if lock =? 0 then ctr + Z.of_nat (length split) else ctr in
  sort_outputs (send ++ derive i m aks ctr1 change_split).

(* the tail of swapToSend: outputs from the stored counter, POST, delete the inputs, store the change,
   advance the counter by the number of outputs that were derived from it *)
Definition send_submit (vr : variant) (i m aks lock to : Z) (sigall needsig : bool) (nonce0 : Z)
           (inputs : list wproof) (split change_split : list Z) : M (list wproof) :=
  doM r <- post_at i m aks (fun ctr =>
             mkReq lSwap m (map (mk_input vr) inputs)
                   (send_outputs i m aks lock to sigall needsig nonce0 split change_split ctr) [] ctr) ;
  let outs := rq_out r in
  doM mt <- get_mint m ;
  match mint_swap mt inputs outs with
  | None => fail
  | Some mt1 =>
      doM_ put_mint m mt1 ;
      doM_ del_proofs i inputs ;
      let '(to_send, rest) := pick_send split outs in
      doM_ save_proofs i rest ;
      doM_ inc_counter i m aks ((if lock =? 0 then Z.of_nat (length split) else 0) + Z.of_nat (length change_split)) ;
      ret to_send
  end.

(* swapToSend(amount, mint view copy, spending condition, includeFees) -> proofs to send.
   lock: 0 none; (lock, to, sigall, needsig) describe the spending condition. *)
Definition swap_to_send (vr : variant) (i : Z) (v : view) (amount : Z) (include_fees : bool)
           (lock to : Z) (sigall needsig : bool) : M (list wproof) :=
  let m := vw_mint v in
  doM af <- get_active_keyset vr i m ;
  doM x <- get_wallet i ;
  let '(aks, afee) := af in
  let split_for_send := Select.amount_split amount in
  let fees_to_receive := if include_fees then Select.fees_for_count (Z.of_nat (length split_for_send) + 1) afee else 0 in
  let amount1 := Select.add64 amount fees_to_receive in
  match Select.select_proofs_for_amount (sel_mint v) (sel_inactive x v) (sel_active x v) amount1 true with
  | Select.Ok sel =>
      let inputs := back x v sel in
      let split := Select.sortZ (split_for_send ++ Select.amount_split fees_to_receive) in
      doM w <- get ;
      doM_ (if lock =? 0 then ret tt else modify (fun w => set_nonce w (nonce w + Z.of_nat (length split)))) ;
      let fees := view_fees v inputs in
      let change_amt := Select.sub64 (Select.sub64 (sum_amt inputs) amount1) fees in
      let change_split := if 0 <? change_amt then wallet_split x m change_amt else [] in
      send_submit vr i m aks lock to sigall needsig (nonce w) inputs split change_split
  | _ => fail
  end.

(* getProofsForAmount *)
Definition get_proofs_for_amount (vr : variant) (i : Z) (v : view) (amount : Z) (include_fees : bool) : M (list wproof) :=
  doM x <- get_wallet i ;
  match Select.get_proofs_decision (sel_mint v) (sel_inactive x v) (sel_active x v) amount include_fees with
  | Select.DOffline sel => let ps := back x v sel in doM_ del_proofs i ps ; ret ps
  | Select.DSwap => swap_to_send vr i v amount include_fees 0 (-1) false false
  | _ => fail
  end.

Definition add_pending (i : Z) (label : Z) (ps : list wproof) (q : Z) : M unit :=
  doM_ eff label ;
  upd_wallet i (fun x => w_set_pend x (filter (fun e => negb (mem_proof (fst e) ps)) (w_pend x) ++ map (fun p => (p, q)) ps)).

(* ------------------------------------------------------------------ operations *)

Definition the_view (i m : Z) : M view :=
  doM x <- get_wallet i ;
  match find_view x m with Some v => ret v | None => fail end.

(* RequestMint *)
(* the Lightning backend of the harness cannot make an invoice for an amount whose msat value
   does not fit (a uint64 that wrapped around in swapProofs) *)
Definition invoice_limit : Z := 2 ^ 50.
Definition request_mint (i m amount : Z) : M Z :=
  doM _v <- the_view i m ;
  doM_ post (mkReq lMintQuote m [] [] [] 0) ;
  doM_ guard (amount <? invoice_limit) ;
  doM mt <- get_mint m ;
  let '(id, mt1) := mint_new_quote mt amount in
  doM_ put_mint m mt1 ;
  doM_ eff eSaveMintQuote ;
  doM_ upd_wallet i (fun x => w_set_mq x (w_mq x ++ [mkWMQ m id amount 0])) ;
  ret id.

Definition set_wq_state (i m id st : Z) : M unit :=
  upd_wallet i (fun x => w_set_mq x (map (fun q => if (wq_mint q =? m) && (wq_id q =? id) then mkWMQ m id (wq_amt q) st else q) (w_mq x))).

(* the tail of MintTokens: outputs from the stored counter, POST, store the proofs, advance the counter *)
Definition mint_submit (i m id aks : Z) (split : list Z) : M Z :=
  doM r <- post_at i m aks (fun ctr => mkReq lMint m [] (derive i m aks ctr split) [] ctr) ;
  let outs := rq_out r in
  doM mt <- get_mint m ;
  match mint_mint mt id outs with
  | None => fail
  | Some mt1 =>
      doM_ put_mint m mt1 ;
      doM_ save_proofs i outs ;
      doM_ inc_counter i m aks (Z.of_nat (length outs)) ;
      doM_ eff eSaveMintQuote ; doM_ set_wq_state i m id 3 ;
      ret (sum_amt outs)
  end.

(* MintTokens *)
Definition mint_tokens (vr : variant) (i m id : Z) : M Z :=
  doM x <- get_wallet i ;
  match find (fun q => (wq_mint q =? m) && (wq_id q =? id)) (w_mq x) with
  | None => fail
  | Some q =>
      (* MintQuoteState *)
      doM st <- (if wq_state q =? 3 then ret 3
              else doM mt <- get_mint m ;
                   match find_mq mt id with
                   | None => fail
                   | Some mq =>
                       let st := if mq_issued mq then 3 else if mq_paid mq then 1 else 0 in
                       doM_ eff eSaveMintQuote ; doM_ set_wq_state i m id st ; ret st
                   end) ;
      doM_ guard (st =? 1) ;
      doM af <- get_active_keyset vr i m ;
      let '(aks, _) := af in
      doM x1 <- get_wallet i ;
      mint_submit i m id aks (wallet_split x1 m (wq_amt q))
  end.

Definition settle_at (m id : Z) : M unit := doM mt <- get_mint m ; put_mint m (settle_quote mt id).

(* the harness operation: RequestMint, the invoice is paid from outside (or not), MintTokens *)
Definition op_mint (vr : variant) (i m amount : Z) (paid : bool) : M Z :=
  doM id <- request_mint i m amount ;
  doM_ (if paid then settle_at m id else ret tt) ;
  mint_tokens vr i m id.

Definition push_token (m : Z) (dleq : bool) (ps : list wproof) : M unit :=
  modify (fun w => set_tokens w (tokens w ++ [mkTok m (map (set_dleq dleq) ps)])).

(* Send *)
Definition op_send (vr : variant) (i m amount : Z) (include_fees dleq : bool) : M Z :=
  doM v <- the_view i m ;
  doM ps <- get_proofs_for_amount vr i v amount include_fees ;
  doM_ add_pending i eAddPending ps (-1) ;
  doM_ push_token m dleq ps ;
  ret (sum_amt ps).

(* SendToPubkey / HTLCLockedProofs *)
Definition op_send_locked (vr : variant) (i m amount : Z) (include_fees : bool) (lock to : Z) (sigall needsig : bool) : M Z :=
  doM v <- the_view i m ;
  doM ps <- swap_to_send vr i v amount include_fees lock to sigall needsig ;
  doM_ push_token m true ps ;
  ret (sum_amt ps).

(* createSwapRequest(proofs, mint view) + swap: outputs from the stored counter of the view's active keyset *)
Definition swap_in (vr : variant) (i : Z) (v : view) (ins : list wproof) : M (list wproof) :=
  doM x <- get_wallet i ;
  let m := vw_mint v in
  let fees := view_fees v ins in
  let split := wallet_split x m (Select.sub64 (sum_amt ins) fees) in
  doM r <- post_at i m (vw_act v) (fun ctr => mkReq lSwap m (map (mk_input vr) ins) (derive i m (vw_act v) ctr split) [] ctr) ;
  let outs := rq_out r in
  doM mt <- get_mint m ;
  match mint_swap mt ins outs with
  | None => fail
  | Some mt1 => doM_ put_mint m mt1 ; ret outs
  end.

(* the tail of Receive / ReceiveHTLC / ReclaimUnspentProofs: swap, advance the counter, store the proofs *)
Definition swap_store (vr : variant) (i : Z) (v : view) (ins : list wproof) : M Z :=
  doM outs <- swap_in vr i v ins ;
  doM_ inc_counter i (vw_mint v) (vw_act v) (Z.of_nat (length outs)) ;
  doM_ save_proofs i outs ;
  ret (sum_amt outs).

(* the float64 arithmetic of swapProofs, in rationals: amount_k = proofsAmount * 0.99 * 0.98 * ... *)
Fixpoint swap_proofs_quotes (fuel : nat) (i from to : Z) (num den pct fees total : Z) : M (Z * Z * Z) :=
  match fuel with
  | O => fail
  | S f =>
      let req := Select.sub64 (num / den) fees in
      doM id <- request_mint i to req ;
      doM_ post (mkReq lMeltQuote from [] [] [] 0) ;
      doM mf <- get_mint from ;
      match mint_melt_quote from mf (to, id) req with
      | None => fail
      | Some (lid, res, mf1) =>
          doM_ put_mint from mf1 ;
          if total <? req + res + fees
          then swap_proofs_quotes f i from to (num * (pct - 1)) (den * 100) (pct - 1) fees total
          else ret (id, lid, req)
      end
  end.

(* swapProofs(proofs, from view, to) *)
Definition swap_proofs (vr : variant) (i : Z) (vfrom : view) (to : Z) (ps : list wproof) : M Z :=
  let from := vw_mint vfrom in
  let fees := view_fees vfrom ps in
  doM q <- swap_proofs_quotes 40 i from to (sum_amt ps * 99) 100 99 fees (sum_amt ps) ;
  let '(id, lid, _) := q in
  doM_ post (mkReq lMelt from (map (mk_input vr) ps) [] [] 0) ;
  doM st <- mint_melt from lid ps ;
  if st =? 2 then mint_tokens vr i to id else fail.

(* the view Receive builds for a token mint the wallet does not know *)
Definition foreign_view (m : Z) : M view :=
  doM mt <- get_mint m ;
  ret (mkView m (active_ks mt) (fee_of mt (active_ks mt)) (inactive_list (mn_fees mt)) 0).

Definition token_of (t : Z) : M token :=
  doM w <- get ;
  match nth_error (tokens w) (Z.to_nat t) with Some tk => ret tk | None => fail end.

(* VerifyProofsDLEQ uses the key of the ACTIVE keyset for every proof that carries a DLEQ proof *)
Definition dleq_ok (aks : Z) (ps : list wproof) : bool := forallb (fun p => negb (wp_dleq p) || (wp_ks p =? aks)) ps.

(* Receive *)
Definition op_receive (vr : variant) (i t : Z) (to_trusted : bool) : M Z :=
  doM tk <- token_of t ;
  let ps := t_proofs tk in
  let m := t_mint tk in
  doM af <- get_active_keyset vr i m ;
  doM_ guard (dleq_ok (fst af) ps) ;
  let first := hd (mkWP 0 0 0 0 0 false 0 (-1) false false) ps in
  doM_ guard (negb (wp_lock first =? 1) || (wp_to first =? i)) ;
  doM x <- get_wallet i ;
  let known := match find_view x m with Some _ => true | None => false end in
  let to_trusted := if known && (m =? w_home x) then false else to_trusted in
  if to_trusted then
    doM fv <- foreign_view m ;
    doM ps1 <- (if (wp_lock first =? 1) && wp_sigall first then
               doM outs <- swap_in vr i fv ps ;
               doM_ (if v_sigall_inc vr && known then inc_counter i m (vw_act fv) (Z.of_nat (length outs)) else ret tt) ;
               ret outs
             else ret ps) ;
    swap_proofs vr i fv (w_home x) ps1
  else
    doM_ (if known then ret tt else add_mint i m) ;
    doM v <- the_view i m ;
    swap_store vr i v ps.

(* ReceiveHTLC *)
Definition op_receive_htlc (vr : variant) (i t : Z) : M Z :=
  doM tk <- token_of t ;
  let ps := t_proofs tk in
  let m := t_mint tk in
  doM af <- get_active_keyset vr i m ;
  doM_ guard (dleq_ok (fst af) ps) ;
  let first := hd (mkWP 0 0 0 0 0 false 0 (-1) false false) ps in
  doM_ guard (wp_lock first =? 2) ;
  doM_ guard (negb (wp_needsig first) || (wp_to first =? i)) ;
  doM x <- get_wallet i ;
  doM_ (match find_view x m with Some _ => ret tt | None => add_mint i m end) ;
  doM v <- the_view i m ;
  swap_store vr i v ps.

(* calculateBlankOutputs: max(ceil(log2 feeReserve), 1), 0 for no reserve *)
Fixpoint log2_up_nat (fuel : nat) (n acc pow : Z) : Z :=
  match fuel with
  | O => acc
  | S f => if n <=? pow then acc else log2_up_nat f n (acc + 1) (pow * 2)
  end.
Definition blank_outputs (reserve : Z) : Z :=
  if reserve <=? 0 then 0 else Z.max (log2_up_nat 64 reserve 0 1) 1.

Definition set_wl_state (i m id st : Z) : M unit :=
  upd_wallet i (fun x => w_set_lq x (map (fun q => if (wl_mint q =? m) && (wl_id q =? id) then mkWLQ m id (wl_amt q) (wl_res q) st else q) (w_lq x))).
Definition pending_of_quote (x : wallet) (q : Z) : list wproof := map fst (filter (fun e => snd e =? q) (w_pend x)).
Definition del_pending_quote (i q : Z) : M unit :=
  doM_ eff eDelPendingQuote ;
  upd_wallet i (fun x => w_set_pend x (filter (fun e => negb (snd e =? q)) (w_pend x))).

(* quote ids are per mint; the pending bucket stores the id string: (mint, id) coded as one number *)
Definition qcode (m id : Z) : Z := id * 8 + m.

(* CheckMeltQuoteState *)
Definition check_melt_quote (i m id : Z) : M Z :=
  doM x <- get_wallet i ;
  match find (fun q => (wl_mint q =? m) && (wl_id q =? id)) (w_lq x) with
  | None => fail
  | Some q =>
      doM st <- mint_poll m id ;
      doM_ (if negb (wl_state q =? 2) then
         if st =? 2 then
           doM_ eff eSaveMeltQuote ;
           del_pending_quote i (qcode m id)
         else if st =? 0 then
           doM x1 <- get_wallet i ;
           let pp := pending_of_quote x1 (qcode m id) in
           doM_ (if (0 <? Z.of_nat (length pp)) then doM_ del_pending_quote i (qcode m id) ; save_proofs i pp else ret tt) ;
           doM_ eff eSaveMeltQuote ; set_wl_state i m id 0
         else ret tt
       else ret tt) ;
      ret st
  end.

(* Melt *)
Definition melt (vr : variant) (i m id : Z) : M Z :=
  doM x <- get_wallet i ;
  match find (fun q => (wl_mint q =? m) && (wl_id q =? id)) (w_lq x) with
  | None => fail
  | Some q =>
      doM_ guard (negb (wl_state q =? 2)) ;
      doM_ (if wl_state q =? 1 then doM st <- check_melt_quote i m id ; guard (st =? 0) else ret tt) ;
      doM v <- the_view i m ;
      doM ps <- get_proofs_for_amount vr i v (wl_amt q + wl_res q) true ;
      doM_ add_pending i eAddPendingQuote ps (qcode m id) ;
      doM af <- get_active_keyset vr i m ;
      doM _r <- post_at i m (fst af) (fun ctr =>
                  mkReq lMelt m (map (mk_input vr) ps)
                        (derive i m (fst af) ctr (repeat 0 (Z.to_nat (blank_outputs (wl_res q))))) [] ctr) ;
      doM st <- mint_melt m id ps ;
      doM_ (if st =? 0 then doM_ save_proofs i ps ; del_pending_quote i (qcode m id)
       else if st =? 1 then doM_ eff eSaveMeltQuote ; set_wl_state i m id 1
       else doM_ del_pending_quote i (qcode m id) ; doM_ eff eSaveMeltQuote ; set_wl_state i m id 2) ;
      ret st
  end.

(* the harness operation: an outside invoice, RequestMeltQuote, Melt *)
Definition op_melt (vr : variant) (i m sat out : Z) : M Z :=
  doM _v <- the_view i m ;
  doM w <- get ;
  let inv := (-1, nonce w) in
  doM_ modify (fun w => set_nonce w (nonce w + 1)) ;
  doM_ post (mkReq lMeltQuote m [] [] [] 0) ;
  doM mt <- get_mint m ;
  match mint_melt_quote m mt inv sat with
  | None => fail
  | Some (id, res, mt1) =>
      doM_ put_mint m mt1 ;
      doM_ eff eSaveMeltQuote ;
      doM_ upd_wallet i (fun x => w_set_lq x (w_lq x ++ [mkWLQ m id sat res 0])) ;
      doM g <- get_gen i ;
      doM_ modify (fun w => set_melts w (melts w ++ [mkMR i m id inv g])) ;
      doM_ modify (fun w => set_outcome w out) ;
      melt vr i m id
  end.

(* RemoveSpentProofs / ReclaimUnspentProofs: per trusted mint that has pending proofs *)
Definition pending_at (x : wallet) (v : view) : list wproof := filter (of_view v) (map fst (w_pend x)).

Definition remove_spent_at (i : Z) (v : view) : M unit :=
  doM x <- get_wallet i ;
  let pp := pending_at x v in
  if (Z.of_nat (length pp) =? 0) then ret tt
  else
    doM_ post (mkReq lCheck (vw_mint v) [] [] pp 0) ;
    doM sts <- mint_check (vw_mint v) pp ;
    let spent := map fst (filter (fun e => snd e =? 2) (combine pp sts)) in
    doM_ eff eDelPending ;
    upd_wallet i (fun x => w_set_pend x (filter (fun e => negb (mem_proof (fst e) spent)) (w_pend x))).

Fixpoint for_views (vs : list view) (f : view -> M unit) : M unit :=
  match vs with [] => ret tt | v :: r => doM_ f v ; for_views r f end.

Definition op_remove_spent (i : Z) : M Z :=
  doM x <- get_wallet i ; doM_ for_views (w_views x) (remove_spent_at i) ; ret 0.

Definition reclaim_at (vr : variant) (i : Z) (v0 : view) : M unit :=
  doM x <- get_wallet i ;
  let pp := pending_at x v0 in
  if (Z.of_nat (length pp) =? 0) then ret tt
  else
    doM_ post (mkReq lCheck (vw_mint v0) [] [] pp 0) ;
    doM sts <- mint_check (vw_mint v0) pp ;
    let unspent := map (fun e => strip_dleq (fst e)) (filter (fun e => snd e =? 0) (combine pp sts)) in
    if (Z.of_nat (length unspent) =? 0) then ret tt
    else
      doM v <- the_view i (vw_mint v0) ;
      doM_ swap_store vr i v unspent ;
      doM_ eff eDelPending ;
      upd_wallet i (fun x => w_set_pend x (filter (fun e => negb (mem_proof (fst e) unspent)) (w_pend x))).

Definition op_reclaim (vr : variant) (i : Z) : M Z :=
  doM x <- get_wallet i ; doM_ for_views (w_views x) (reclaim_at vr i) ; ret 0.

(* MintSwap *)
Definition balance_at (x : wallet) (v : view) : Z := sum_amt (mint_proofs x v).
Definition op_mint_swap (vr : variant) (i from to amount out : Z) : M Z :=
  doM vf <- the_view i from ;
  doM _vt <- the_view i to ;
  doM x <- get_wallet i ;
  doM_ guard (amount <=? balance_at x vf) ;
  doM_ modify (fun w => set_outcome w out) ;
  doM ps <- get_proofs_for_amount vr i vf amount true ;
  swap_proofs vr i vf to ps.

(* resolve a pending payment, then CheckMeltQuoteState *)
Definition melt_ref (q : Z) : M meltref :=
  doM w <- get ;
  match nth_error (melts w) (Z.to_nat q) with Some r => ret r | None => fail end.
Definition op_resolve (q how : Z) : M Z :=
  doM r <- melt_ref q ;
  doM w <- get ;
  doM_ (if pay_status w (mr_inv r) =? 3 then set_pay (mr_inv r) (if (how =? 1) || (how =? 4) then 1 else 2) else ret tt) ;
  (* how 1 / 2: the payment succeeds / fails and the wallet polls the quote; 4 / 3: the same at the backend only - the wallet
     learns of it later (by a poll, or by Melt on the same quote) *)
  if how <=? 2 then check_melt_quote (mr_wallet r) (mr_mint r) (mr_q r)
  else (* the mint itself notices at its next poll of the payment (the harness's state queries after the step trigger one) *)
       doM _st <- mint_poll (mr_mint r) (mr_q r) ; ret 0.
Definition op_melt_again (vr : variant) (q : Z) : M Z :=
  doM r <- melt_ref q ;
  doM_ modify (fun w => set_outcome w 0) ;
  melt vr (mr_wallet r) (mr_mint r) (mr_q r).

(* keyset rotation at the mint *)
Definition op_rotate (m fee : Z) : M Z :=
  doM mt <- get_mint m ;
  doM_ put_mint m (mkMint (mn_fees mt ++ [fee]) (mn_pct mt) (mn_signed mt) (mn_spent mt) (mn_pend mt) (mn_mq mt) (mn_lq mt) (mn_issued mt) (mn_redeemed mt)) ;
  ret 0.

(* ------------------------------------------------------------------ Restore *)

(* one keyset: batches of 100 from counter 0, stop after 3 consecutive empty batches.
   Result: (restored spendable, restored pending, stored counter). *)
Definition batch (seed m ks from : Z) : list wproof :=
  map (fun n => mkWP 0 m ks seed (from + Z.of_nat n) false 0 (-1) false false) (seq 0 100).

Definition signed_amount (mt : mintst) (p : wproof) : option wproof :=
  match find (same_proof p) (mn_signed mt) with
  | Some s => Some (mkWP (wp_amt s) (wp_mint p) (wp_ks p) (wp_seed p) (wp_ctr p) false 0 (-1) false false)
  | None => None
  end.

Fixpoint restore_keyset (vr : variant) (fuel : nat) (seed m ks counter empty stored : Z) (acc accp : list wproof)
  : M (list wproof * list wproof * Z) :=
  match fuel with
  | O => ret (acc, accp, stored)
  | S f =>
      if 3 <=? empty then ret (acc, accp, stored)
      else
        let b := batch seed m ks counter in
        let counter1 := counter + 100 in
        doM_ post (mkReq lRestore m [] b [] counter) ;
        doM mt <- get_mint m ;
        let found := flat_map (fun p => match signed_amount mt p with Some q => [q] | None => [] end) b in
        if (Z.of_nat (length found) =? 0) then restore_keyset vr f seed m ks counter1 (empty + 1) stored acc accp
        else
          doM_ post (mkReq lCheck m [] [] found 0) ;
          doM sts <- mint_check m found ;
          let unspent := map fst (filter (fun e => snd e =? 0) (combine found sts)) in
          let pend := map fst (filter (fun e => snd e =? 1) (combine found sts)) in
          let stored1 := if v_restore_delta vr then counter1 else stored + counter1 in
          restore_keyset vr f seed m ks counter1 0 stored1 (acc ++ unspent) (accp ++ pend)
  end.

(* all keysets of one mint; the restored wallet is built in [x] *)
Fixpoint restore_keysets (vr : variant) (seed m : Z) (kss : list Z) (x : wallet) : M wallet :=
  match kss with
  | [] => ret x
  | ks :: r =>
      doM mt <- get_mint m ;
      doM res <- restore_keyset vr 400 seed m ks 0 0 0 [] [] ;
      let '(unspent, pend, stored) := res in
      (* the keyset is saved with the input fee the mint lists for it (fix 9832df1; before, with the zero value) *)
      let x1 := put_ks x (mkKs m ks (ks =? active_ks mt) (nth (Z.to_nat ks) (mn_fees mt) 0) stored) in
      let x2 := w_set_proofs x1 (w_proofs x1 ++ unspent) in
      let x3 := w_set_pend x2 (w_pend x2 ++ map (fun p => (p, -1)) pend) in
      restore_keysets vr seed m r x3
  end.

Fixpoint restore_mints (vr : variant) (seed : Z) (ms : list Z) (x : wallet) : M wallet :=
  match ms with
  | [] => ret x
  | m :: r =>
      doM mt <- get_mint m ;
      doM x1 <- restore_keysets vr seed m (map Z.of_nat (seq 0 (length (mn_fees mt)))) x ;
      restore_mints vr seed r x1
  end.

(* loadWalletMints: the views are rebuilt from the stored keysets *)
Definition view_of_store (x : wallet) (m : Z) : view :=
  let rows := filter (fun k => k_mint k =? m) (w_ks x) in
  let act := find k_active rows in
  let inact := map (fun k => (k_ks k, k_fee k)) (filter (fun k => negb (k_active k)) rows) in
  match act with
  | Some k => mkView m (k_ks k) (k_fee k) inact (k_ctr k)
  | None => mkView m (-1) 0 inact 0
  end.
Definition mints_of_store (x : wallet) : list Z :=
  fold_right (fun k acc => if existsb (Z.eqb (k_mint k)) acc then acc else k_mint k :: acc) [] (w_ks x).
(* LoadWallet on an existing directory: views from the store, then getActiveKeyset(home) *)
Definition load_wallet (vr : variant) (i : Z) : M unit :=
  doM_ upd_wallet i (fun x => w_set_views x (map (view_of_store x) (Select.sortZ (mints_of_store x)))) ;
  doM x <- get_wallet i ;
  match find_view x (w_home x) with
  | Some v =>
      if vw_act v <? 0 then
        (* no keyset of the home mint is stored as active (a cut between the two SaveKeyset calls of a
           noticed rotation): getActiveKeyset saves the zero-value keyset of loadWalletMints, the store
           refuses it ("bucket name required") and LoadWallet fails - the wallet cannot be opened *)
        doM_ upd_wallet i (fun x => mkW (-1 - w_home x) (w_ks x) (w_views x) (w_proofs x) (w_pend x) (w_mq x) (w_lq x)) ;
        fail
      else doM_ get_active_keyset vr i (w_home x) ; ret tt
  | None => add_mint i (w_home x)
  end.

Definition restored_wallet (vr : variant) (i : Z) : M wallet :=
  doM x <- get_wallet i ;
  restore_mints vr i (Select.sortZ (map vw_mint (w_views x))) (mkW (w_home x) [] [] [] [] [] []).

(* Restore into an empty directory and go on with the restored wallet *)
Definition op_restore (vr : variant) (i : Z) : M Z :=
  doM x <- restored_wallet vr i ;
  doM_ put_wallet i x ;
  doM_ modify (fun w => set_gens w (upd_nth (Z.to_nat i) (fun g => g + 1) (gens w))) ;
  doM_ silent (load_wallet vr i) ;
  ret (sum_amt (w_proofs x)).

(* Restore into an empty directory, look at it, throw it away: spendable + pending *)
Definition op_check (vr : variant) (i : Z) : M Z :=
  doM x <- restored_wallet vr i ;
  ret (sum_amt (w_proofs x) + sum_amt (map fst (w_pend x))).

Definition op_add_mint (i m : Z) : M Z := doM_ add_mint i m ; ret 0.

(* ------------------------------------------------------------------ histories *)

Inductive wop :=
| OMint (i m a : Z) (paid : bool)
| OSend (i m a : Z) (fees dleq : bool)
| OReceive (i t : Z) (trusted : bool)
| OSendP2PK (i m a : Z) (fees : bool) (to : Z) (sigall : bool)
| OSendHTLC (i m a : Z) (fees : bool) (to : Z) (withsig sigall : bool)
| ORecvHTLC (i t : Z)
| OMelt (i m sat out : Z)
| OResolve (q how : Z)
| ORemove (i : Z)
| OReclaim (i : Z)
| OMintSwap (i from to a out : Z)
| ORotate (m fee : Z)
| ORestore (i : Z)
| OCheck (i : Z)
| OAddMint (i m : Z)
| OMeltAgain (q : Z).

Definition run_wop (vr : variant) (o : wop) : M Z :=
  match o with
  | OMint i m a p => op_mint vr i m a p
  | OSend i m a f d => op_send vr i m a f d
  | OReceive i t tr => op_receive vr i t tr
  | OSendP2PK i m a f to sa => op_send_locked vr i m a f 1 to sa false
  | OSendHTLC i m a f to ws sa => op_send_locked vr i m a f 2 (if ws || sa then to else (-1)) sa (ws || sa)
  | ORecvHTLC i t => op_receive_htlc vr i t
  | OMelt i m sat out => op_melt vr i m sat out
  | OResolve q how => op_resolve q how
  | ORemove i => op_remove_spent i
  | OReclaim i => op_reclaim vr i
  | OMintSwap i f t a out => op_mint_swap vr i f t a out
  | ORotate m fee => op_rotate m fee
  | ORestore i => op_restore vr i
  | OCheck i => op_check vr i
  | OAddMint i m => op_add_mint i m
  | OMeltAgain q => op_melt_again vr q
  end.

(* the wallet an operation belongs to (reopened after a cut) *)
Definition wallet_of (w : world) (o : wop) : Z :=
  match o with
  | OMint i _ _ _ | OSend i _ _ _ _ | OReceive i _ _ | OSendP2PK i _ _ _ _ _ | OSendHTLC i _ _ _ _ _ _
  | ORecvHTLC i _ | OMelt i _ _ _ | ORemove i | OReclaim i | OMintSwap i _ _ _ _ | ORestore i | OCheck i | OAddMint i _ => i
  | OResolve q _ | OMeltAgain q => match nth_error (melts w) (Z.to_nat q) with Some r => mr_wallet r | None => 0 end
  | ORotate _ _ => 0
  end.

(* one history item (k, o): operation o, cut right before its k-th effect when k > 0;
   after a cut the wallet process is started again on its directory *)
Definition exec_item (vr : variant) (it : Z * wop) (w : world) : R Z * world :=
  let '(k, o) := it in
  let w0 := set_outcome (set_run w (if 0 <? k then k - 1 else (-1)) [] [] (trace w)) 0 in
  match run_wop vr o w0 with
  | (RCut, w1) => (RCut, snd (silent (load_wallet vr (wallet_of w1 o)) w1))
  | x => x
  end.

Fixpoint exec_all (vr : variant) (its : list (Z * wop)) (w : world) : world :=
  match its with
  | [] => w
  | it :: r => exec_all vr r (snd (exec_item vr it w))
  end.

(* the initial world: mints with one keyset each, wallets freshly created on their home mint *)
Definition world_of (ms : list mintst) (homes : list Z) : world :=
  mkWorld ms (map (fun h => mkW h [] [] [] [] [] []) homes) (map (fun _ => 0) homes) [] [] [] 0 0 (-1) [] [] [].
(* LoadWallet on an empty directory: AddMint(home) *)
Definition create_wallet (i : Z) : M unit := doM x <- get_wallet i ; add_mint i (w_home x).
Fixpoint init_wallets (n : nat) (i : Z) (w : world) : world :=
  match n with
  | O => w
  | S k => init_wallets k (i + 1) (snd (silent (create_wallet i) w))
  end.
Definition fresh_mint (fee pct : Z) : mintst := mkMint [fee] pct [] [] [] [] [] 0 0.
Definition init_world (ms : list (Z * Z)) (homes : list Z) : world :=
  init_wallets (length homes) 0 (world_of (map (fun e => fresh_mint (fst e) (snd e)) ms) homes).
