(* C19, counter discipline.
   (1) For every history: every deterministic output in every request was derived at a counter that
       is at least the counter stored for its keyset when the request left the wallet
       (trace invariant, WProofsTrace.v).
   (2) Per flow: the deterministic outputs of a request occupy exactly the block
       [stored, stored + n) where n is the amount the flow passes to IncrementKeysetCounter
       after the mint has answered. *)
From Coq Require Import ZArith List Bool Lia.
From Verif Require Import Select WModel WProofsTrace.
Import ListNotations.
Open Scope Z_scope.

Definition from_stored (r : request) : Prop :=
  forall o, In o (rq_out r) -> 0 <= wp_seed o -> rq_stored r <= wp_ctr o.

Lemma derive_block : forall seed m ks split c o,
  In o (derive seed m ks c split) ->
  c <= wp_ctr o < c + Z.of_nat (length split) /\ wp_seed o = seed /\ wp_ks o = ks /\ wp_mint o = m.
Proof.
  induction split as [|a r IH]; intros c o H; cbn [derive] in H; [contradiction|].
  destruct H as [H|H].
  - subst o. cbn [wp_ctr wp_seed wp_ks wp_mint length]. lia.
  - destruct (IH (c + 1) o H) as [Hc Hr]. cbn [length]. split; [lia|exact Hr].
Qed.

Lemma derive_locked_random : forall m ks lock to sa ns split n o,
  In o (derive_locked m ks n lock to sa ns split) -> wp_seed o = -1.
Proof.
  induction split as [|a r IH]; intros n o H; cbn [derive_locked] in H; [contradiction|].
  destruct H as [H|H]; [subst o; reflexivity|exact (IH (n + 1) o H)].
Qed.

Lemma derive_length : forall seed m ks split c, length (derive seed m ks c split) = length split.
Proof. induction split as [|a r IH]; intros c; cbn [derive length]; [reflexivity|]. rewrite IH. reflexivity. Qed.

(* cashu.SortBlindedMessages only permutes *)
Lemma xpass_in : forall l cur c r o, xpass cur l = (c, r) -> (o = c \/ In o r) -> (o = cur \/ In o l).
Proof.
  induction l as [|e l IH]; intros cur c r o H Ho; cbn [xpass] in H.
  - inversion H; subst. destruct Ho as [Ho|Ho]; [left; exact Ho|contradiction].
  - destruct (wp_amt e <? wp_amt cur).
    + destruct (xpass e l) as [c' r'] eqn:E. inversion H; subst.
      destruct Ho as [Ho|[Ho|Ho]].
      * destruct (IH e c r' o E (or_introl Ho)) as [H1|H1]; [right; left; symmetry; exact H1|right; right; exact H1].
      * left. symmetry. exact Ho.
      * destruct (IH e c r' o E (or_intror Ho)) as [H1|H1]; [right; left; symmetry; exact H1|right; right; exact H1].
    + destruct (xpass cur l) as [c' r'] eqn:E. inversion H; subst.
      destruct Ho as [Ho|[Ho|Ho]].
      * destruct (IH cur c r' o E (or_introl Ho)) as [H1|H1]; [left; exact H1|right; right; exact H1].
      * right. left. exact Ho.
      * destruct (IH cur c r' o E (or_intror Ho)) as [H1|H1]; [left; exact H1|right; right; exact H1].
Qed.

Lemma xsort_in : forall fuel l o, In o (xsort fuel l) -> In o l.
Proof.
  induction fuel as [|f IH]; intros l o H; cbn [xsort] in H; [contradiction|].
  destruct l as [|x r]; [contradiction|].
  destruct (xpass x r) as [c r'] eqn:E. destruct H as [H|H].
  - destruct (xpass_in r x c r' o E (or_introl (eq_sym H))) as [H1|H1]; [left; symmetry; exact H1|right; exact H1].
  - pose proof (IH r' o H) as Hr.
    destruct (xpass_in r x c r' o E (or_intror Hr)) as [H1|H1]; [left; symmetry; exact H1|right; exact H1].
Qed.

Lemma sort_outputs_in : forall l o, In o (sort_outputs l) -> In o l.
Proof. intros l o. unfold sort_outputs. apply xsort_in. Qed.

(* swapToSend: the deterministic outputs occupy exactly the block the flow advances the counter by *)
Lemma send_outputs_block : forall i m aks lock to sa ns n0 split cs c o,
  In o (send_outputs i m aks lock to sa ns n0 split cs c) -> 0 <= wp_seed o ->
  c <= wp_ctr o < c + ((if lock =? 0 then Z.of_nat (length split) else 0) + Z.of_nat (length cs))
  /\ wp_seed o = i /\ wp_ks o = aks /\ wp_mint o = m.
Proof.
  intros i m aks lock to sa ns n0 split cs c o H Hs. unfold send_outputs in H.
  apply sort_outputs_in in H. apply in_app_or in H. destruct H as [H|H].
  - destruct (lock =? 0).
    + destruct (derive_block _ _ _ _ _ _ H) as [Hc Hr]. split; [lia|exact Hr].
    + apply derive_locked_random in H. lia.
  - destruct (derive_block _ _ _ _ _ _ H) as [Hc Hr]. split; [|exact Hr].
    destruct (lock =? 0); lia.
Qed.

Lemma batch_block : forall seed m ks c o, In o (batch seed m ks c) -> c <= wp_ctr o < c + 100.
Proof.
  intros seed m ks c o H. unfold batch in H. apply in_map_iff in H. destruct H as [n [Ho Hn]].
  subst o. cbn [wp_ctr]. apply in_seq in Hn. lia.
Qed.

(* every request of every history (any variant of the three repairs, any cut) *)
Theorem submitted_from_stored_counter : forall vr ms homes its r,
  In r (trace (exec_all vr its (init_world ms homes))) -> from_stored r.
Proof.
  intros vr ms homes its r Hin.
  assert (H : Forall from_stored (trace (exec_all vr its (init_world ms homes)))).
  { apply trace_invariant.
    - intros l m ins ys st o Ho. contradiction.
    - intros l m ins i ks split c o Ho _. cbn [rq_out rq_stored] in *. apply derive_block in Ho. lia.
    - intros m ins i aks lock to sa ns n0 split cs c o Ho Hs. cbn [rq_out rq_stored] in *.
      destruct (send_outputs_block _ _ _ _ _ _ _ _ _ _ _ _ Ho Hs) as [Hc _]. lia.
    - intros m seed ks c o Ho _. cbn [rq_out rq_stored] in *. apply batch_block in Ho. lia. }
  rewrite Forall_forall in H. exact (H r Hin).
Qed.

(* the ghost field is what the store holds: post_at builds the request from the stored counter *)
Lemma post_at_reads_store : forall i m ks mk w r w',
  post_at i m ks mk w = (ROk r, w') -> r = mk (counter_of (nthZ i (wallets w) wallet0) m ks).
Proof.
  intros i m ks mk w r w' H. unfold post_at in H.
  destruct (post (mk (counter_in w i m ks)) w) as [r1 w1]. destruct r1; inversion H; subst. reflexivity.
Qed.

(* ---------------- the counter arithmetic of each flow *)

(* MintTokens / createSwapRequest (Receive, ReceiveHTLC, Reclaim, the SIG_ALL swap of swapToTrusted):
   outputs derive ... stored split, IncrementKeysetCounter(len(outputs)) *)
Lemma plain_flow_block : forall seed m ks split c o,
  In o (derive seed m ks c split) ->
  c <= wp_ctr o < c + Z.of_nat (length (derive seed m ks c split)).
Proof. intros. rewrite derive_length. apply derive_block in H. lia. Qed.

(* distinct positions: a request never contains the same deterministic output twice *)
Lemma derive_nodup : forall seed m ks split c, nodup_proofs (derive seed m ks c split) = true.
Proof.
  induction split as [|a r IH]; intros c; cbn [derive nodup_proofs]; [reflexivity|].
  rewrite IH, andb_true_r. apply negb_true_iff. unfold mem_proof.
  destruct (existsb _ _) eqn:E; [|reflexivity]. exfalso.
  apply existsb_exists in E. destruct E as [o [Ho He]].
  apply derive_block in Ho. unfold same_proof in He. cbn [wp_ctr wp_mint wp_ks wp_seed] in He.
  apply andb_true_iff in He. destruct He as [_ He]. apply Z.eqb_eq in He. lia.
Qed.

(* the honest mint never signs an output it has signed before: a resubmitted (keyset, counter) is refused *)
Lemma mint_swap_fresh : forall mt ins outs mt', mint_swap mt ins outs = Some mt' ->
  forall o, In o outs -> mem_proof o (mn_signed mt) = false.
Proof.
  intros mt ins outs mt' H o Ho. unfold mint_swap in H.
  destruct ((tx_fees mt ins <=? sum_amt ins) && (sum_amt outs <=? sum_amt ins - tx_fees mt ins)
            && inputs_free mt ins && outputs_ok mt outs && nodup_proofs outs) eqn:E; [|discriminate].
  apply andb_true_iff in E. destruct E as [E _]. apply andb_true_iff in E. destruct E as [_ E].
  unfold outputs_ok in E. rewrite forallb_forall in E. specialize (E o Ho).
  apply andb_true_iff in E. destruct E as [_ E]. apply negb_true_iff in E. exact E.
Qed.
Lemma mint_mint_fresh : forall mt q outs mt', mint_mint mt q outs = Some mt' ->
  forall o, In o outs -> mem_proof o (mn_signed mt) = false.
Proof.
  intros mt q outs mt' H o Ho. unfold mint_mint in H. destruct (find_mq mt q) as [mq|]; [|discriminate].
  destruct (mq_paid mq && negb (mq_issued mq) && (sum_amt outs <=? mq_amt mq) && outputs_ok mt outs && nodup_proofs outs) eqn:E; [|discriminate].
  apply andb_true_iff in E. destruct E as [E _]. apply andb_true_iff in E. destruct E as [_ E].
  unfold outputs_ok in E. rewrite forallb_forall in E. specialize (E o Ho).
  apply andb_true_iff in E. destruct E as [_ E]. apply negb_true_iff in E. exact E.
Qed.

(* ---------------- a counter the wallet does not store *)

(* two SIG_ALL tokens of a mint the receiver does not trust, both swapped to its trusted mint: the
   intermediate swap at the untrusted mint derives its outputs from counter 0 both times (the keyset
   is not in the store: GetKeysetCounter answers 0 and nothing can be incremented) *)
Definition untrusted_sigall : list (Z * wop) :=
  [(0, OMint 0 0 1000 true); (0, OSendP2PK 0 0 200 false 1 true); (0, OSendP2PK 0 0 100 false 1 true);
   (0, OReceive 1 0 true); (0, OReceive 1 1 true)].

Definition det_outputs_at (r : request) (seed ctr : Z) : bool :=
  (rq_label r =? lSwap) && existsb (fun o => (wp_seed o =? seed) && (wp_ctr o =? ctr)) (rq_out r).

Lemma untrusted_sigall_reuses_counter :
  let w := exec_all repaired untrusted_sigall (init_world [(0, 1); (0, 1)] [0; 1]) in
  Z.of_nat (length (filter (fun r => det_outputs_at r 1 0) (trace w))) = 2 /\
  fst (exec_item repaired (0, OReceive 1 1 true)
         (exec_all repaired (firstn 4 untrusted_sigall) (init_world [(0, 1); (0, 1)] [0; 1]))) = RFail.
Proof. vm_compute. split; reflexivity. Qed.
