(* Proofs about the HTTP surface model (Http/Server.v).  Statements are repeated in Props/C20.v. *)
From Coq Require Import ZArith List Bool String Lia.
From Verif Require Import Extracted ExtractedChecks Model Sem Server.
Import ListNotations.
Open Scope list_scope.
Open Scope Z_scope.

(* ------------------------------------------------------------------ the code table *)

Definition all_errs : list err :=
  [EDb; ELn; EUnit; EBadPubkey; EMintLimit; EMintDisabled; EMeltLimit;
   EQuoteNotExist; ENotPaid; EIssued; EQuotePending; EMeltPaid;
   EOutAmount; EDupOutputs; EOverQuote; EAlreadySigned; EQuoteSig;
   EUnknownKeyset; EInactiveKeyset; EBadB;
   ENoProofs; EProofPending; EProofUsed; EDupProofs; ESecretLong; EInvalidProof; EBadC; ECond;
   EProofAmount; EInsufficient; ESigAllMelt; ESigAllOutputs;
   EInvoice; EMeltExists; EMpp].

Lemma all_errs_complete : forall e, In e all_errs.
Proof. intro e; destruct e; unfold all_errs; simpl; tauto. Qed.

(* today's table (cause, code); a changed code in cashu/cashu.go changes Gen/Extracted.v and breaks this lemma *)
Lemma code_of_cause_pinned :
  map (fun e => (e, code_of_err e)) all_errs =
  [ (EDb, 10000); (ELn, 10000); (EUnit, 11005); (EBadPubkey, 10000); (EMintLimit, 11006); (EMintDisabled, 20003);
    (EMeltLimit, 11006); (EQuoteNotExist, 20009); (ENotPaid, 20001); (EIssued, 20002); (EQuotePending, 20005);
    (EMeltPaid, 20006); (EOutAmount, 10000); (EDupOutputs, 11008); (EOverQuote, 10000); (EAlreadySigned, 10002);
    (EQuoteSig, 20008); (EUnknownKeyset, 12001); (EInactiveKeyset, 12002); (EBadB, 10000);
    (ENoProofs, 10003); (EProofPending, 11001); (EProofUsed, 11001); (EDupProofs, 11007); (ESecretLong, 10004);
    (EInvalidProof, 10003); (EBadC, 10000); (ECond, 30001); (EProofAmount, 10000); (EInsufficient, 11002);
    (ESigAllMelt, 30001); (ESigAllOutputs, 30001); (EInvoice, 20009); (EMeltExists, 20009); (EMpp, 20009) ].
Proof. vm_compute. reflexivity. Qed.

Definition internal_code (c : Z) : Prop := c = errcode_DBErrCode \/ c = errcode_LightningBackendErrCode.

Lemma code_of_err_not_internal : forall e, ~ internal_code (code_of_err e).
Proof. intro e; destruct e; vm_compute; intros [H | H]; discriminate H. Qed.

(* ------------------------------------------------------------------ what a program can return *)

Inductive allret {R : Type} (Q : R -> Prop) : prog R -> Prop :=
| ARet : forall r, Q r -> allret Q (Ret r)
| ADo : forall c k, (forall r, allret Q (k r)) -> allret Q (Do c k)
| APanic : allret Q Panic.

Lemma allret_run : forall R (Q : R -> Prop) (p : prog R), allret Q p ->
  forall f w w' r, run p f w = (w', Done r) -> Q r.
Proof.
  intros R Q p H; induction H as [r Hq | c k Hk IH | ]; intros f w w' r0 Hr.
  - cbn [run] in Hr. inversion Hr; subst; exact Hq.
  - cbn [run] in Hr. destruct (exec c (f (w_calls w) && is_call c) w) as [w1 x] eqn:E.
    eapply IH; exact Hr.
  - cbn [run] in Hr. discriminate Hr.
Qed.

Lemma allret_bind : forall X Y (Q : X -> Prop) (Q' : Y -> Prop) (p : prog X) (g : X -> prog Y),
  allret Q p -> (forall x, Q x -> allret Q' (g x)) -> allret Q' (bind p g).
Proof.
  intros X Y Q Q' p g H Hg; induction H as [r Hq | c k Hk IH | ].
  - cbn [bind]. apply Hg; exact Hq.
  - cbn [bind]. apply ADo; intro r; apply IH.
  - cbn [bind]. apply APanic.
Qed.

Lemma allret_weaken : forall R (Q Q' : R -> Prop) (p : prog R),
  allret Q p -> (forall r, Q r -> Q' r) -> allret Q' p.
Proof.
  intros R Q Q' p H HQ; induction H as [r Hq | c k Hk IH | ].
  - apply ARet; auto.
  - apply ADo; intro r; apply IH.
  - apply APanic.
Qed.

(* the error of a failing result satisfies P *)
Definition errs {X} (P : err -> Prop) (r : result X) : Prop :=
  match r with Ok _ => True | Err e => P e end.

Definition not_ln (e : err) : Prop := e <> ELn.
Definition only_db (e : err) : Prop := e = EDb.

Lemma check_proofs_not_ln : forall ks ps e, check_proofs ks ps = Some e -> e <> ELn.
Proof.
  intros ks ps; induction ps as [| p r IH]; intros e H; cbn [check_proofs] in H.
  - discriminate H.
  - destruct (check_proof ks p) as [e1 |] eqn:E.
    + inversion H; subst e1. unfold check_proof in E.
      destruct (p_long p); [inversion E; discriminate |].
      destruct (find_ks (p_ks p) ks); [| inversion E; discriminate].
      destruct (negb (is_key_amount (p_amount p))); [inversion E; discriminate |].
      destruct (negb (p_cond p)); [inversion E; discriminate |].
      destruct (p_C p) as [a b c | n |];
        try (destruct (cterm_eqb _ _); [discriminate E | inversion E; discriminate]).
      inversion E; discriminate.
    + apply IH; exact H.
Qed.

Lemma check_outputs_not_ln : forall ks act outs e, check_outputs ks act outs = Some e -> e <> ELn.
Proof.
  intros ks act outs; induction outs as [| o r IH]; intros e H; cbn [check_outputs] in H.
  - discriminate H.
  - destruct (find_ks (b_ks o) ks); [| inversion H; discriminate].
    destruct (negb (b_ks o =? act)); [inversion H; discriminate |].
    destruct (negb (is_key_amount (b_amount o))); [inversion H; discriminate |].
    destruct (negb (b_point o)); [inversion H; discriminate |].
    apply IH; exact H.
Qed.

Ltac ret_ok := apply ARet; first [ exact I | unfold not_ln, only_db; first [ discriminate | reflexivity ] ].

Lemma verify_proofs_not_ln : forall ks ins, allret (errs not_ln) (verify_proofs ks ins).
Proof.
  intros ks ins. unfold verify_proofs, fail. destruct ins as [| p r]; [ret_ok |].
  apply ADo; intro r1. destruct r1 as [[| x l] |]; try ret_ok.
  apply ADo; intro r2. destruct r2 as [[| y l2] |]; try ret_ok.
  destruct (negb (nodupb (map p_secret (p :: r)))); [ret_ok |].
  destruct (check_proofs ks (p :: r)) as [e |] eqn:E; [| ret_ok].
  apply ARet. cbn [errs]. eapply check_proofs_not_ln; exact E.
Qed.

Lemma swap_not_ln : forall ks act ins outs sg, allret (errs not_ln) (swap ks act ins outs sg).
Proof.
  intros ks act ins outs sg. unfold swap, fail.
  destruct (amount_checked (map b_amount outs) 0); [| ret_ok].
  destruct (negb (nodupb (map b_B outs))); [ret_ok |].
  destruct (sum64 (map p_amount ins) <? tx_fees ks ins); [ret_ok |].
  destruct (sum64 (map p_amount ins) - tx_fees ks ins <? z); [ret_ok |].
  eapply allret_bind; [apply verify_proofs_not_ln |].
  intros v Hv. destruct v as [u | e]; [| apply ARet; exact Hv].
  apply ADo; intro r. destruct r as [[| x l] |]; try ret_ok.
  destruct (existsb p_sigall ins && negb sg); [ret_ok |].
  destruct (check_outputs ks act outs) as [e |] eqn:E.
  { apply ARet. cbn [errs]. eapply check_outputs_not_ln; exact E. }
  apply ADo; intro r1. destruct r1; [| ret_ok].
  apply ADo; intro r2. destruct r2; ret_ok.
Qed.

Lemma request_melt_quote_not_ln : forall cfg u d req h msat mpp id,
  allret (errs not_ln) (request_melt_quote cfg u d req h msat mpp id).
Proof.
  intros cfg u d req h msat mpp id. unfold request_melt_quote, fail.
  destruct (negb u); [ret_ok |]. destruct (negb d); [ret_ok |]. destruct ((msat <=? 0) || (two63 <=? msat)); [ret_ok |].
  apply ADo; intro mq. destruct mq as [mq0|]; [|ret_ok]. set (mq := ROk mq0 : resp (GetMintQuoteByHash h)).
  set (internal := match same_invoice mq req with Some _ => true | None => false end).
  assert (Hplan : forall (X : Type) (k : result (bool * Z * Z) -> prog (result X)),
             (forall e, e <> ELn -> allret (errs not_ln) (k (Err e))) ->
             (forall t, allret (errs not_ln) (k (Ok t))) ->
             allret (errs not_ln)
               (k match mpp with
                  | None => Ok (false, 0, (msat + 999) / 1000)
                  | Some part =>
                      if c_mpp cfg then
                        if internal then Err EMpp
                        else if msat <=? part then Err EMpp else Ok (true, part, (part + 999) / 1000)
                      else Err EMpp
                  end)).
  { intros X k He Ho. destruct mpp as [part |]; [| apply Ho].
    destruct (c_mpp cfg); [| apply He; discriminate].
    destruct internal; [apply He; discriminate |].
    destruct (msat <=? part); [apply He; discriminate | apply Ho]. }
  apply (Hplan _ (fun plan => match plan with
                             | Err e => Ret (Err e)
                             | Ok (is_mpp, amount_msat, quote_amount) => _
                             end)).
  - intros e He. apply ARet. exact He.
  - intros [[is_mpp amount_msat] quote_amount].
    destruct ((0 <? c_max_melt cfg) && (c_max_melt cfg <? quote_amount)); [ret_ok |].
    apply ADo; intro ex. destruct ex as [[q |] |]; try ret_ok.
    + apply ADo; intro r; destruct r; ret_ok.
    + apply ADo; intro r; destruct r; ret_ok.
Qed.

Lemma restore_sigs_only_db : forall bs acc, allret (errs only_db) (restore_sigs bs acc).
Proof.
  intros bs; induction bs as [| b r IH]; intro acc; cbn [restore_sigs].
  - ret_ok.
  - apply ADo; intro s. unfold fail. destruct s as [[row |] |]; [apply IH | apply IH | ret_ok].
Qed.

Lemma total_balance_only_db : allret (errs only_db) total_balance.
Proof.
  unfold total_balance, fail. apply ADo; intro r1. destruct r1; [| ret_ok].
  apply ADo; intro r2. destruct r2; ret_ok.
Qed.

Lemma info_disabled_only_db : forall cfg, allret (errs only_db) (info_disabled cfg).
Proof.
  intro cfg. unfold info_disabled, fail. apply ADo; intro sd. destruct sd; [| ret_ok].
  eapply allret_bind; [apply total_balance_only_db |].
  intros b Hb. destruct b as [z | e]; [ret_ok | apply ARet; exact Hb].
Qed.

Lemma lift_errs : forall X (P : err -> Prop) (g : X -> opres) (p : prog (result X)),
  (forall x e, g x <> RFail e) ->
  allret (errs P) p -> allret (fun o => forall e, o = RFail e -> P e) (lift g p).
Proof.
  intros X P g p Hg H. unfold lift. eapply allret_bind; [exact H |].
  intros r Hr. apply ARet. intros e He. destruct r as [x | e0].
  - exfalso. exact (Hg x e He).
  - inversion He; subst. exact Hr.
Qed.

(* which causes the operation behind each route can fail with, as far as the handlers depend on it *)
Definition err_ok (rt : route) (e : err) : Prop :=
  match rt with
  | RtSwap | RtMeltQuote => e <> ELn
  | RtRestore | RtInfo => e = EDb
  | _ => True
  end.

Lemma step_err_ok : forall cfg f w rt o w' e,
  step cfg f w (coerce rt o) = (w', RFail e) -> err_ok rt e.
Proof.
  intros cfg f w rt o w' e H.
  assert (Hgen : forall (P : err -> Prop) (oo : op) (p : prog opres),
            is_env oo = false ->
            op_prog cfg (w_mem (prepare oo w)) (w_active (prepare oo w)) oo = p ->
            allret (fun x => forall e0, x = RFail e0 -> P e0) p ->
            step cfg f w oo = (w', RFail e) -> P e).
  { intros P oo p Henv Hp Hall Hs. unfold step in Hs. rewrite Henv in Hs.
    rewrite Hp in Hs. destruct (run p f (prepare oo w)) as [w1 r] eqn:E.
    inversion Hs; subst w1. destruct r as [x | |]; cbn [of_outcome] in *; try discriminate.
    eapply (allret_run _ _ _ Hall) in E. apply E. assumption. }
  destruct rt; try exact I; cbn [err_ok].
  - (* swap *)
    destruct o; cbn [coerce] in H;
      (match type of H with step _ _ _ ?oo = _ => eapply (Hgen not_ln oo); [reflexivity | reflexivity | | exact H] end);
      cbn [op_prog]; apply lift_errs; try (intros; discriminate); apply swap_not_ln.
  - (* melt quote *)
    destruct o; cbn [coerce] in H;
      (match type of H with step _ _ _ ?oo = _ => eapply (Hgen not_ln oo); [reflexivity | reflexivity | | exact H] end);
      cbn [op_prog]; apply lift_errs; try (intros; discriminate); apply request_melt_quote_not_ln.
  - (* restore *)
    destruct o; cbn [coerce] in H;
      (match type of H with step _ _ _ ?oo = _ => eapply (Hgen only_db oo); [reflexivity | reflexivity | | exact H] end);
      cbn [op_prog]; apply lift_errs; try (intros; discriminate); apply restore_sigs_only_db.
  - (* info *)
    destruct o; cbn [coerce] in H;
      (match type of H with step _ _ _ ?oo = _ => eapply (Hgen only_db oo); [reflexivity | reflexivity | | exact H] end);
      cbn [op_prog]; apply lift_errs; try (intros x e0; destruct x; discriminate); apply info_disabled_only_db.
Qed.

Definition is_op_route (rt : route) : bool :=
  match rt with
  | RtMintQuote | RtMintQuoteState | RtMint | RtSwap | RtMeltQuote | RtMeltQuoteState | RtMelt
  | RtCheck | RtRestore | RtInfo => true
  | _ => false
  end.

Lemma write_err_code : forall rt e, is_op_route rt = true -> err_ok rt e -> fst (write_err rt e) = code_of_err e.
Proof.
  intros rt e Hop H; destruct rt; try discriminate Hop; destruct e; cbn [err_ok] in H;
    try (vm_compute; reflexivity);
    try (exfalso; apply H; reflexivity);
    try discriminate H.
Qed.

Lemma write_err_generic : forall rt e, is_op_route rt = true -> err_ok rt e -> is_internal e = true ->
  snd (write_err rt e) = dc_generic \/ snd (write_err rt e) = dc_payfail.
Proof.
  intros rt e Hop H Hi; destruct e; try discriminate Hi; destruct rt; try discriminate Hop; cbn [err_ok] in H;
    try (left; vm_compute; reflexivity); try (right; vm_compute; reflexivity);
    try (exfalso; apply H; reflexivity); try discriminate H.
Qed.

(* ------------------------------------------------------------------ byte lists, the cache *)

Lemma bytes_eqb_refl : forall a, bytes_eqb a a = true.
Proof. induction a as [| x r IH]; cbn [bytes_eqb]; [reflexivity | rewrite Z.eqb_refl; exact IH]. Qed.

Lemma bytes_eqb_eq : forall a b, bytes_eqb a b = true -> a = b.
Proof.
  induction a as [| x r IH]; intros [| y s] H; cbn [bytes_eqb] in H; try discriminate H; [reflexivity |].
  destruct (x =? y) eqn:E; [| discriminate H]. apply Z.eqb_eq in E. rewrite E, (IH s H). reflexivity.
Qed.

Lemma cache_get_In : forall k c r, cache_get k c = Some r -> In (k, r) c.
Proof.
  intros k c; induction c as [| [k' r'] t IH]; intros r H; cbn [cache_get] in H; [discriminate H |].
  destruct (bytes_eqb k k') eqn:E.
  - inversion H; subst. apply bytes_eqb_eq in E; subst. left; reflexivity.
  - right; apply IH; exact H.
Qed.

Lemma cache_get_app_some : forall k c l r, cache_get k c = Some r -> cache_get k (c ++ l) = Some r.
Proof.
  intros k c l; induction c as [| [k' r'] t IH]; intros r H; cbn [cache_get app] in *; [discriminate H |].
  destruct (bytes_eqb k k'); [exact H | apply IH; exact H].
Qed.

Lemma cache_get_app_none : forall k c r, cache_get k c = None -> cache_get k (c ++ [(k, r)]) = Some r.
Proof.
  intros k c r; induction c as [| [k' r'] t IH]; intro H; cbn [cache_get app] in *.
  - rewrite bytes_eqb_refl. reflexivity.
  - destruct (bytes_eqb k k'); [discriminate H | apply IH; exact H].
Qed.

(* the separated key is injective on methods and URLs without a NUL byte (Go's HTTP parser admits no others) *)
Definition nonul (l : list Z) : Prop := ~ In 0 l.

Lemma split_at_nul : forall a a' r r', nonul a -> nonul a' -> a ++ 0 :: r = a' ++ 0 :: r' -> a = a' /\ r = r'.
Proof.
  induction a as [| x t IH]; intros [| y s] r r' Ha Ha' H; cbn [app] in H.
  - inversion H; auto.
  - inversion H; subst y. exfalso; apply Ha'; left; reflexivity.
  - inversion H; subst x. exfalso; apply Ha; left; reflexivity.
  - inversion H; subst y.
    destruct (IH s r r') as [E1 E2]; [intro Hx; apply Ha; right; exact Hx | intro Hx; apply Ha'; right; exact Hx | assumption |].
    subst; auto.
Qed.

Lemma cache_key_injective : forall m u b m' u' b',
  nonul m -> nonul u -> nonul m' -> nonul u' ->
  cache_key m u b = cache_key m' u' b' -> m = m' /\ u = u' /\ b = b'.
Proof.
  intros m u b m' u' b' Hm Hu Hm' Hu' H. unfold cache_key in H.
  apply split_at_nul in H; try assumption. destruct H as [E1 H].
  apply split_at_nul in H; try assumption. destruct H as [E2 E3]. auto.
Qed.

(* the key used before the repair is not: POST /v1/swap? with body AB, and POST /v1/swap?A with body B *)
Lemma cache_key_unseparated_not_injective :
  exists m u b m' u' b',
    nonul m /\ nonul u /\ nonul m' /\ nonul u' /\
    cache_key_unseparated m u b = cache_key_unseparated m' u' b' /\ (u <> u' /\ b <> b').
Proof.
  exists [80], [47; 63], [65; 66], [80], [47; 63; 65], [66].
  unfold nonul; cbn [In]; repeat split; try (intro H; intuition discriminate); try reflexivity; discriminate.
Qed.

(* ------------------------------------------------------------------ the handlers *)

Lemma cached_is_mint_or_swap : forall rt, is_cached rt = true -> rt = RtMint \/ rt = RtSwap.
Proof. intros rt H; destruct rt; try (vm_compute in H; discriminate H); auto. Qed.

Lemma hw_mint_cache_put : forall k r hw, hw_mint (cache_put k r hw) = hw_mint hw.
Proof. intros; unfold cache_put; destruct (cache_room hw); reflexivity. Qed.

Section Key.

Variable key : list Z -> list Z -> list Z -> list Z.

Definition rq_key (rq : hreq) : list Z := key (rq_mb rq) (rq_ub rq) (rq_bb rq).

Definition decodes (rq : hreq) : bool :=
  match (if has_body (rq_route rq) then decode_err (rq_ct_ok rq) (rq_body rq) else None) with
  | None => true | Some _ => false
  end.

Definition passes_guard (rq : hreq) : bool :=
  match guard (rq_route rq) (rq_meth rq) with GRun => true | _ => false end.

(* the request gets as far as the cache lookup of a cached handler *)
Definition to_cache (rq : hreq) : bool :=
  passes_guard rq && is_cached (rq_route rq) && negb (has_pm (rq_route rq) && negb (rq_pm_ok rq)) && decodes rq.

(* the request gets as far as the Mint method *)
Definition runs_op (hw : hworld) (rq : hreq) : bool :=
  passes_guard rq && is_op_route (rq_route rq) && negb (has_pm (rq_route rq) && negb (rq_pm_ok rq)) && decodes rq
  && negb (is_cached (rq_route rq) && match cache_get (rq_key rq) (hw_cache hw) with Some _ => true | None => false end).

Lemma step_is_op_handler : forall cfg hw rq,
  passes_guard rq = true -> is_op_route (rq_route rq) = true ->
  http_step_k key cfg hw rq = op_handler key cfg hw rq.
Proof.
  intros cfg hw rq Hg Ho. unfold http_step_k. unfold passes_guard in Hg.
  destruct (guard (rq_route rq) (rq_meth rq)); try discriminate Hg.
  destruct (rq_route rq); try discriminate Ho; reflexivity.
Qed.

Lemma op_handler_decoded : forall cfg hw rq,
  negb (has_pm (rq_route rq) && negb (rq_pm_ok rq)) = true -> decodes rq = true ->
  op_handler key cfg hw rq =
  if is_cached (rq_route rq) then cached_op key cfg hw rq (coerce (rq_route rq) (rq_op rq))
  else run_op cfg hw rq (coerce (rq_route rq) (rq_op rq)).
Proof.
  intros cfg hw rq Hp Hd. unfold op_handler. apply negb_true_iff in Hp. rewrite Hp.
  unfold decodes in Hd.
  destruct (if has_body (rq_route rq) then decode_err (rq_ct_ok rq) (rq_body rq) else None); [discriminate Hd | reflexivity].
Qed.

(* --- C20_status_shape --- *)

Theorem status_shape : forall cfg hw rq hw' rsp w' r,
  runs_op hw rq = true ->
  http_step_k key cfg hw rq = (hw', rsp) ->
  step cfg (faults_oracle (rq_faults rq)) (hw_mint hw) (coerce (rq_route rq) (rq_op rq)) = (w', r) ->
  hw_mint hw' = w' /\
  match r with
  | RFail e => rs_status rsp = 400 /\ rs_code rsp = code_of_err e /\ rs_shape rsp = ShErr /\
               (is_internal e = true -> rs_detail rsp = dc_generic \/ rs_detail rsp = dc_payfail)
  | RPanic | RCrash => rsp = panic_resp
  | _ => rsp = ok_resp (shape_of (rq_route rq) r) (COp r)
  end.
Proof.
  intros cfg hw rq hw' rsp w' r Hr Hs Hst. unfold runs_op in Hr.
  apply andb_true_iff in Hr; destruct Hr as [Hr Hmiss].
  apply andb_true_iff in Hr; destruct Hr as [Hr Hdec].
  apply andb_true_iff in Hr; destruct Hr as [Hr Hpm].
  apply andb_true_iff in Hr; destruct Hr as [Hg Hop].
  rewrite (step_is_op_handler _ _ _ Hg Hop), (op_handler_decoded _ _ _ Hpm Hdec) in Hs.
  assert (Hrun : run_op cfg hw rq (coerce (rq_route rq) (rq_op rq)) = (set_mint hw w', resp_of (rq_route rq) r)).
  { unfold run_op. rewrite Hst. reflexivity. }
  assert (Hboth : hw_mint hw' = w' /\ rsp = resp_of (rq_route rq) r).
  { destruct (is_cached (rq_route rq)) eqn:Ec.
    - unfold cached_op in Hs. cbn [andb] in Hmiss. fold (rq_key rq) in Hs.
      destruct (cache_get (rq_key rq) (hw_cache hw)); [discriminate Hmiss |].
      rewrite Hrun in Hs.
      destruct ((rs_status (resp_of (rq_route rq) r) =? 200) && (rq_blen rq <? REQUEST_BODY_SIZE_LIMIT));
        inversion Hs; subst; [rewrite hw_mint_cache_put |]; split; reflexivity.
    - rewrite Hrun in Hs. inversion Hs; subst. split; reflexivity. }
  destruct Hboth as [Hm Hrsp]. split; [exact Hm |]. subst rsp.
  destruct r as [l | q | q | l | | z | b | e | |]; cbn [resp_of]; try reflexivity.
  pose proof (step_err_ok _ _ _ _ _ _ _ Hst) as Hok.
  pose proof (write_err_code _ _ Hop Hok) as Hc.
  pose proof (write_err_generic _ _ Hop Hok) as Hd.
  destruct (write_err (rq_route rq) e) as [c d]. cbn [fst snd] in Hc, Hd. cbn [err_resp rs_status rs_code rs_shape rs_detail].
  repeat split; try reflexivity; assumption.
Qed.

(* --- C20_no_internal --- *)

Definition cache_clean (hw : hworld) : Prop :=
  forall k r, In (k, r) (hw_cache hw) -> rs_status r = 200 /\ rs_code r = 0.

Lemma resp_of_code : forall cfg f w rt o w' r,
  is_op_route rt = true -> step cfg f w (coerce rt o) = (w', r) ->
  ~ internal_code (rs_code (resp_of rt r)) /\ (rs_status (resp_of rt r) = 200 -> rs_code (resp_of rt r) = 0).
Proof.
  intros cfg f w rt o w' r Hop Hst.
  destruct r as [l | q | q | l | | z | b | e | |]; cbn [resp_of];
    try (split; [vm_compute; intros [H | H]; discriminate H | reflexivity]).
  pose proof (write_err_code _ _ Hop (step_err_ok _ _ _ _ _ _ _ Hst)) as Hc.
  destruct (write_err rt e) as [c d]. cbn [fst] in Hc. cbn [err_resp rs_code rs_status]. subst c.
  split; [apply code_of_err_not_internal | intro H; discriminate H].
Qed.

Lemma not_internal_const : forall c, (c =? errcode_DBErrCode) || (c =? errcode_LightningBackendErrCode) = false -> ~ internal_code c.
Proof.
  intros c H [E | E]; rewrite E in H; vm_compute in H; discriminate H.
Qed.

Lemma cache_clean_put : forall k r hw, cache_clean hw -> rs_status r = 200 -> rs_code r = 0 -> cache_clean (cache_put k r hw).
Proof.
  intros k r hw Hc Hs Hz. unfold cache_put. destruct (cache_room hw); [| exact Hc].
  intros k' r' Hin. cbn [hw_cache] in Hin. apply in_app_or in Hin. destruct Hin as [Hin | [Hin | []]].
  - apply (Hc _ _ Hin).
  - inversion Hin; subst. auto.
Qed.

Lemma op_handler_clean : forall cfg hw rq hw' rsp,
  cache_clean hw -> is_op_route (rq_route rq) = true ->
  op_handler key cfg hw rq = (hw', rsp) ->
  ~ internal_code (rs_code rsp) /\ cache_clean hw'.
Proof.
  intros cfg hw rq hw' rsp Hc Hop Hs. unfold op_handler in Hs.
  destruct (has_pm (rq_route rq) && negb (rq_pm_ok rq)).
  { inversion Hs; subst. split; [apply not_internal_const; vm_compute; reflexivity | exact Hc]. }
  destruct (if has_body (rq_route rq) then decode_err (rq_ct_ok rq) (rq_body rq) else None) as [[c d] |] eqn:Ed.
  { inversion Hs; subst. split; [| exact Hc]. cbn [err_resp rs_code].
    destruct (has_body (rq_route rq)); [| discriminate Ed]. unfold decode_err in Ed.
    destruct (negb (rq_ct_ok rq)); [inversion Ed; subst; apply not_internal_const; vm_compute; reflexivity |].
    destruct (rq_body rq); inversion Ed; subst; apply not_internal_const; vm_compute; reflexivity. }
  assert (Hrun : forall hw1 r1, run_op cfg hw rq (coerce (rq_route rq) (rq_op rq)) = (hw1, r1) ->
                 hw_cache hw1 = hw_cache hw /\ ~ internal_code (rs_code r1) /\ (rs_status r1 = 200 -> rs_code r1 = 0)).
  { intros hw1 r1 Hr. unfold run_op in Hr.
    destruct (step cfg (faults_oracle (rq_faults rq)) (hw_mint hw) (coerce (rq_route rq) (rq_op rq))) as [w1 r] eqn:Est.
    inversion Hr; subst. split; [reflexivity |]. eapply resp_of_code; [exact Hop | exact Est]. }
  destruct (is_cached (rq_route rq)).
  - unfold cached_op in Hs.
    destruct (cache_get (key (rq_mb rq) (rq_ub rq) (rq_bb rq)) (hw_cache hw)) as [r0 |] eqn:Eg.
    + inversion Hs; subst. split; [| exact Hc]. apply cache_get_In in Eg. destruct (Hc _ _ Eg) as [_ Hz].
      rewrite Hz. apply not_internal_const; vm_compute; reflexivity.
    + destruct (run_op cfg hw rq (coerce (rq_route rq) (rq_op rq))) as [hw1 r1] eqn:Er.
      destruct (Hrun _ _ eq_refl) as [Hcache [Hni Hz]].
      assert (Hc1 : cache_clean hw1). { intros k r Hin. rewrite Hcache in Hin. apply (Hc _ _ Hin). }
      destruct (rs_status r1 =? 200) eqn:E200; cbn [andb] in Hs.
      * destruct (rq_blen rq <? REQUEST_BODY_SIZE_LIMIT); inversion Hs; subst; (split; [exact Hni |]); [| exact Hc1].
        apply Z.eqb_eq in E200. apply cache_clean_put; auto.
      * inversion Hs; subst. split; [exact Hni | exact Hc1].
  - destruct (run_op cfg hw rq (coerce (rq_route rq) (rq_op rq))) as [hw1 r1] eqn:Er.
    destruct (Hrun _ _ eq_refl) as [Hcache [Hni Hz]]. inversion Hs; subst.
    split; [exact Hni |]. intros k r Hin. rewrite Hcache in Hin. apply (Hc _ _ Hin).
Qed.

Lemma http_step_clean : forall cfg hw rq hw' rsp,
  cache_clean hw -> http_step_k key cfg hw rq = (hw', rsp) ->
  ~ internal_code (rs_code rsp) /\ cache_clean hw'.
Proof.
  intros cfg hw rq hw' rsp Hc Hs. unfold http_step_k in Hs.
  assert (Hzero : forall s c, ~ internal_code (rs_code (mkResp s 0 dc_none ShNone c))).
  { intros; apply not_internal_const; vm_compute; reflexivity. }
  destruct (guard (rq_route rq) (rq_meth rq));
    try (inversion Hs; subst; split; [apply not_internal_const; vm_compute; reflexivity | exact Hc]).
  destruct (rq_route rq) eqn:Ert;
    try (apply (op_handler_clean cfg hw rq hw' rsp Hc); [rewrite Ert; reflexivity | exact Hs]);
    try (inversion Hs; subst; split; [apply not_internal_const; vm_compute; reflexivity | exact Hc]).
  - (* keys *)
    unfold keys_handler in Hs. destruct (hw_akey hw).
    + inversion Hs; subst; split; [apply not_internal_const; vm_compute; reflexivity | exact Hc].
    + destruct (w_active (hw_mint hw) <? 0).
      * inversion Hs; subst; split; [apply not_internal_const; vm_compute; reflexivity | exact Hc].
      * inversion Hs; subst; split; [apply not_internal_const; vm_compute; reflexivity |].
        destruct (cache_room hw); exact Hc.
  - (* keys/{id} *)
    unfold keys_id_handler in Hs.
    destruct (rq_arg rq =? -2).
    + destruct (hw_akey hw); inversion Hs; subst; (split; [apply not_internal_const; vm_compute; reflexivity | exact Hc]).
    + destruct (mem (rq_arg rq) (hw_kids hw)).
      * inversion Hs; subst; split; [apply not_internal_const; vm_compute; reflexivity | exact Hc].
      * destruct (find_ks (rq_arg rq) (w_mem (hw_mint hw))); inversion Hs; subst;
          (split; [apply not_internal_const; vm_compute; reflexivity |]); [| exact Hc].
        destruct (cache_room hw); exact Hc.
Qed.

Lemma item_step_clean : forall cfg hw it, cache_clean hw -> cache_clean (fst (item_step_k key cfg hw it)).
Proof.
  intros cfg hw it Hc. destruct it as [rq | o fs]; cbn [item_step_k].
  - destruct (http_step_k key cfg hw rq) as [hw' r] eqn:E. cbn [fst]. eapply http_step_clean; eassumption.
  - destruct (step cfg (faults_oracle fs) (hw_mint hw) o) as [w' r]. cbn [fst].
    destruct (is_restart o); [intros k r0 Hin; destruct Hin | exact Hc].
Qed.

Lemma http_items_app : forall cfg l1 l2 hw,
  http_items_k key cfg hw (l1 ++ l2) =
  let '(hw1, o1) := http_items_k key cfg hw l1 in
  let '(hw2, o2) := http_items_k key cfg hw1 l2 in (hw2, o1 ++ o2).
Proof.
  intros cfg l1; induction l1 as [| it r IH]; intros l2 hw; cbn [http_items_k app].
  - destruct (http_items_k key cfg hw l2); reflexivity.
  - destruct (item_step_k key cfg hw it) as [hw1 x]. rewrite IH.
    destruct (http_items_k key cfg hw1 r) as [hw2 xs]. destruct (http_items_k key cfg hw2 l2). reflexivity.
Qed.

Lemma http_items_snoc : forall cfg l it hw,
  fst (http_items_k key cfg hw (l ++ [it])) = fst (item_step_k key cfg (fst (http_items_k key cfg hw l)) it).
Proof.
  intros cfg l it hw. rewrite http_items_app. destruct (http_items_k key cfg hw l) as [hw1 o1]. cbn [fst http_items_k].
  destruct (item_step_k key cfg hw1 it) as [hw2 x]. reflexivity.
Qed.

Lemma reachable_clean : forall cfg items, cache_clean (fst (http_items_k key cfg hworld0 items)).
Proof.
  intros cfg items; induction items as [| it l IH] using rev_ind.
  - intros k r Hin; destruct Hin.
  - rewrite http_items_snoc. apply item_step_clean; exact IH.
Qed.

Theorem no_internal : forall cfg items rq,
  ~ internal_code (rs_code (snd (http_step_k key cfg (fst (http_items_k key cfg hworld0 items)) rq))).
Proof.
  intros cfg items rq.
  destruct (http_step_k key cfg (fst (http_items_k key cfg hworld0 items)) rq) as [hw' rsp] eqn:E. cbn [snd].
  eapply http_step_clean; [apply reachable_clean | exact E].
Qed.

(* --- C20_cache_replay --- *)

Lemma step_to_cache : forall cfg hw rq, to_cache rq = true ->
  http_step_k key cfg hw rq = cached_op key cfg hw rq (coerce (rq_route rq) (rq_op rq)).
Proof.
  intros cfg hw rq H. unfold to_cache in H.
  apply andb_true_iff in H; destruct H as [H Hdec].
  apply andb_true_iff in H; destruct H as [H Hpm].
  apply andb_true_iff in H; destruct H as [Hg Hc].
  assert (Hop : is_op_route (rq_route rq) = true).
  { destruct (cached_is_mint_or_swap _ Hc) as [E | E]; rewrite E; reflexivity. }
  rewrite (step_is_op_handler _ _ _ Hg Hop), (op_handler_decoded _ _ _ Hpm Hdec), Hc. reflexivity.
Qed.

Lemma cache_hit : forall cfg hw rq r, to_cache rq = true ->
  cache_get (rq_key rq) (hw_cache hw) = Some r -> http_step_k key cfg hw rq = (hw, r).
Proof.
  intros cfg hw rq r H Hg. rewrite (step_to_cache _ _ _ H). unfold cached_op. fold (rq_key rq). rewrite Hg. reflexivity.
Qed.

(* a successful request on a cached route leaves its response in the cache *)
Lemma cache_stored : forall cfg hw rq hw' r, to_cache rq = true ->
  http_step_k key cfg hw rq = (hw', r) -> rs_status r = 200 ->
  rq_blen rq < REQUEST_BODY_SIZE_LIMIT -> cache_room hw = true ->
  cache_get (rq_key rq) (hw_cache hw') = Some r.
Proof.
  intros cfg hw rq hw' r H Hs H200 Hlen Hroom. rewrite (step_to_cache _ _ _ H) in Hs. unfold cached_op in Hs.
  fold (rq_key rq) in Hs.
  destruct (cache_get (rq_key rq) (hw_cache hw)) as [r0 |] eqn:Eg.
  - inversion Hs; subst. exact Eg.
  - unfold run_op in Hs.
    destruct (step cfg (faults_oracle (rq_faults rq)) (hw_mint hw) (coerce (rq_route rq) (rq_op rq))) as [w1 r1].
    assert (E1 : (rq_blen rq <? REQUEST_BODY_SIZE_LIMIT) = true) by (apply Z.ltb_lt; exact Hlen).
    rewrite E1, andb_true_r in Hs.
    destruct (rs_status (resp_of (rq_route rq) r1) =? 200) eqn:E2.
    + inversion Hs; subst. unfold cache_put.
      assert (Er : cache_room (set_mint hw w1) = true) by exact Hroom.
      rewrite Er. cbn [hw_cache set_mint]. apply cache_get_app_none; exact Eg.
    + inversion Hs; subst. rewrite H200 in E2. discriminate E2.
Qed.

(* entries stay: nothing but a restart removes or replaces an entry *)
Definition no_restart (it : hitem) : bool := match it with HDirect o _ => negb (is_restart o) | HReq _ => true end.

Lemma step_cache_grows : forall cfg hw rq, exists l, hw_cache (fst (http_step_k key cfg hw rq)) = hw_cache hw ++ l.
Proof.
  intros cfg hw rq. unfold http_step_k.
  assert (Hid : exists l, hw_cache hw = hw_cache hw ++ l) by (exists []; rewrite app_nil_r; reflexivity).
  assert (Hop : exists l, hw_cache (fst (op_handler key cfg hw rq)) = hw_cache hw ++ l).
  { unfold op_handler. destruct (has_pm (rq_route rq) && negb (rq_pm_ok rq)); [exact Hid |].
    destruct (if has_body (rq_route rq) then decode_err (rq_ct_ok rq) (rq_body rq) else None) as [[c d] |]; [exact Hid |].
    assert (Hrun : hw_cache (fst (run_op cfg hw rq (coerce (rq_route rq) (rq_op rq)))) = hw_cache hw).
    { unfold run_op. destruct (step cfg (faults_oracle (rq_faults rq)) (hw_mint hw) (coerce (rq_route rq) (rq_op rq))); reflexivity. }
    destruct (is_cached (rq_route rq)).
    - unfold cached_op. destruct (cache_get (key (rq_mb rq) (rq_ub rq) (rq_bb rq)) (hw_cache hw)); [exact Hid |].
      destruct (run_op cfg hw rq (coerce (rq_route rq) (rq_op rq))) as [hw1 r1]. cbn [fst] in Hrun.
      destruct ((rs_status r1 =? 200) && (rq_blen rq <? REQUEST_BODY_SIZE_LIMIT)); cbn [fst].
      + unfold cache_put. destruct (cache_room hw1); cbn [hw_cache]; rewrite Hrun; [eexists; reflexivity | exact Hid].
      + rewrite Hrun; exact Hid.
    - rewrite Hrun; exact Hid. }
  destruct (guard (rq_route rq) (rq_meth rq)); try exact Hid.
  destruct (rq_route rq); try exact Hop; try exact Hid.
  - unfold keys_handler. destruct (hw_akey hw); [exact Hid |].
    destruct (w_active (hw_mint hw) <? 0); [exact Hid |]. cbn [fst]. destruct (cache_room hw); exact Hid.
  - unfold keys_id_handler. destruct (rq_arg rq =? -2); [destruct (hw_akey hw); exact Hid |].
    destruct (mem (rq_arg rq) (hw_kids hw)); [exact Hid |].
    destruct (find_ks (rq_arg rq) (w_mem (hw_mint hw))); [| exact Hid]. cbn [fst]. destruct (cache_room hw); exact Hid.
Qed.

Lemma item_keeps_entry : forall cfg hw it k r, no_restart it = true ->
  cache_get k (hw_cache hw) = Some r -> cache_get k (hw_cache (fst (item_step_k key cfg hw it))) = Some r.
Proof.
  intros cfg hw it k r Hn Hg. destruct it as [rq | o fs]; cbn [item_step_k].
  - destruct (step_cache_grows cfg hw rq) as [l Hl].
    destruct (http_step_k key cfg hw rq) as [hw' x]. cbn [fst] in *. rewrite Hl. apply cache_get_app_some; exact Hg.
  - cbn [no_restart] in Hn. apply negb_true_iff in Hn.
    destruct (step cfg (faults_oracle fs) (hw_mint hw) o) as [w' x]. rewrite Hn. exact Hg.
Qed.

Lemma items_keep_entry : forall cfg mid hw k r, forallb no_restart mid = true ->
  cache_get k (hw_cache hw) = Some r -> cache_get k (hw_cache (fst (http_items_k key cfg hw mid))) = Some r.
Proof.
  intros cfg mid; induction mid as [| it l IH]; intros hw k r Hn Hg; cbn [http_items_k].
  - exact Hg.
  - cbn [forallb] in Hn. apply andb_true_iff in Hn; destruct Hn as [Hn1 Hn2].
    pose proof (item_keeps_entry cfg hw it k r Hn1 Hg) as H1.
    destruct (item_step_k key cfg hw it) as [hw1 x]. cbn [fst] in H1.
    pose proof (IH hw1 k r Hn2 H1) as H2.
    destruct (http_items_k key cfg hw1 l) as [hw2 xs]. exact H2.
Qed.

(* a request that gets to the cached handler with the same method, URL and body bytes as an earlier
   request on that route that was answered 200 gets that answer, verbatim, and nothing else happens *)
Theorem cache_replay : forall cfg hw rq hw1 r1 mid rq',
  to_cache rq = true ->
  http_step_k key cfg hw rq = (hw1, r1) -> rs_status r1 = 200 ->
  rq_blen rq < REQUEST_BODY_SIZE_LIMIT -> cache_room hw = true ->
  forallb no_restart mid = true ->
  to_cache rq' = true ->
  rq_mb rq' = rq_mb rq -> rq_ub rq' = rq_ub rq -> rq_bb rq' = rq_bb rq ->
  let hw2 := fst (http_items_k key cfg hw1 mid) in
  http_step_k key cfg hw2 rq' = (hw2, r1).
Proof.
  intros cfg hw rq hw1 r1 mid rq' Hc Hs H200 Hlen Hroom Hmid Hc' Em Eu Eb hw2.
  apply cache_hit; [exact Hc' |]. unfold rq_key. rewrite Em, Eu, Eb.
  apply items_keep_entry; [exact Hmid |]. eapply cache_stored; eassumption.
Qed.

(* --- C20_cache_only_replay --- *)

Lemma step_cache_cases : forall cfg hw rq,
  let hw' := fst (http_step_k key cfg hw rq) in
  let r := snd (http_step_k key cfg hw rq) in
  hw_cache hw' = hw_cache hw \/
  (hw_cache hw' = hw_cache hw ++ [(rq_key rq, r)] /\ to_cache rq = true /\ rs_status r = 200).
Proof.
  intros cfg hw rq. cbv zeta.
  destruct (to_cache rq) eqn:Etc.
  - rewrite (step_to_cache _ _ _ Etc). unfold cached_op. fold (rq_key rq).
    destruct (cache_get (rq_key rq) (hw_cache hw)); [left; reflexivity |].
    assert (Hrun : hw_cache (fst (run_op cfg hw rq (coerce (rq_route rq) (rq_op rq)))) = hw_cache hw).
    { unfold run_op. destruct (step cfg (faults_oracle (rq_faults rq)) (hw_mint hw) (coerce (rq_route rq) (rq_op rq))); reflexivity. }
    destruct (run_op cfg hw rq (coerce (rq_route rq) (rq_op rq))) as [hw1 r1]. cbn [fst] in Hrun.
    destruct (rs_status r1 =? 200) eqn:E200; cbn [andb].
    + destruct (rq_blen rq <? REQUEST_BODY_SIZE_LIMIT); cbn [fst snd]; [| left; exact Hrun].
      unfold cache_put. destruct (cache_room hw1); cbn [hw_cache]; [| left; exact Hrun].
      right. rewrite Hrun. apply Z.eqb_eq in E200. auto.
    + cbn [fst]. left; exact Hrun.
  - left. unfold to_cache in Etc. unfold http_step_k.
    destruct (passes_guard rq) eqn:Eg.
    2:{ unfold passes_guard in Eg. destruct (guard (rq_route rq) (rq_meth rq)); try reflexivity; discriminate Eg. }
    unfold passes_guard in Eg. destruct (guard (rq_route rq) (rq_meth rq)); try discriminate Eg. clear Eg.
    cbn [andb] in Etc.
    assert (Hop : hw_cache (fst (op_handler key cfg hw rq)) = hw_cache hw).
    { unfold op_handler. destruct (has_pm (rq_route rq) && negb (rq_pm_ok rq)) eqn:Epm; [reflexivity |].
      unfold decodes in Etc.
      destruct (if has_body (rq_route rq) then decode_err (rq_ct_ok rq) (rq_body rq) else None) as [[c d] |]; [reflexivity |].
      cbn [negb] in Etc. rewrite andb_true_r, andb_true_r in Etc. rewrite Etc.
      unfold run_op. destruct (step cfg (faults_oracle (rq_faults rq)) (hw_mint hw) (coerce (rq_route rq) (rq_op rq))); reflexivity. }
    destruct (rq_route rq); try exact Hop; try reflexivity.
    + unfold keys_handler. destruct (hw_akey hw); [reflexivity |].
      destruct (w_active (hw_mint hw) <? 0); [reflexivity |]. cbn [fst]. destruct (cache_room hw); reflexivity.
    + unfold keys_id_handler. destruct (rq_arg rq =? -2); [destruct (hw_akey hw); reflexivity |].
      destruct (mem (rq_arg rq) (hw_kids hw)); [reflexivity |].
      destruct (find_ks (rq_arg rq) (w_mem (hw_mint hw))); [| reflexivity]. cbn [fst]. destruct (cache_room hw); reflexivity.
Qed.

(* where every cache entry comes from *)
Definition entry_origin (cfg : config) (items : list hitem) (k : list Z) (r : hresp) : Prop :=
  exists pre rq0 post,
    items = pre ++ HReq rq0 :: post /\ k = rq_key rq0 /\ to_cache rq0 = true /\ rs_status r = 200 /\
    snd (http_step_k key cfg (fst (http_items_k key cfg hworld0 pre)) rq0) = r.

Lemma entries_have_origin : forall cfg items k r,
  In (k, r) (hw_cache (fst (http_items_k key cfg hworld0 items))) -> entry_origin cfg items k r.
Proof.
  intros cfg items; induction items as [| it l IH] using rev_ind; intros k r Hin.
  - destruct Hin.
  - rewrite http_items_snoc in Hin.
    assert (Hext : forall k0 r0, entry_origin cfg l k0 r0 -> entry_origin cfg (l ++ [it]) k0 r0).
    { intros k0 r0 (pre & rq0 & post & E & Hk & Hc & H200 & Hr).
      exists pre, rq0, (post ++ [it]). rewrite E, <- app_assoc. cbn [app]. auto. }
    destruct it as [rq | o fs]; cbn [item_step_k] in Hin.
    + pose proof (step_cache_cases cfg (fst (http_items_k key cfg hworld0 l)) rq) as Hcases. cbv zeta in Hcases.
      destruct (http_step_k key cfg (fst (http_items_k key cfg hworld0 l)) rq) as [hw' x] eqn:Es. cbn [fst snd] in *.
      destruct Hcases as [E | (E & Hc & H200)]; rewrite E in Hin.
      * apply Hext, IH; exact Hin.
      * apply in_app_or in Hin. destruct Hin as [Hin | [Hin | []]]; [apply Hext, IH; exact Hin |].
        inversion Hin; subst. exists l, rq, []. rewrite Es. cbn [snd]. auto.
    + destruct (step cfg (faults_oracle fs) (hw_mint (fst (http_items_k key cfg hworld0 l))) o) as [w' x].
      cbn [fst] in Hin. destruct (is_restart o); [destruct Hin | apply Hext, IH; exact Hin].
Qed.

Definition item_wf (it : hitem) : Prop :=
  match it with HReq rq => nonul (rq_mb rq) /\ nonul (rq_ub rq) | HDirect _ _ => True end.

Hypothesis key_injective : forall m u b m' u' b',
  nonul m -> nonul u -> nonul m' -> nonul u' -> key m u b = key m' u' b' -> m = m' /\ u = u' /\ b = b'.

(* a response is served from the NUT-19 cache only if an earlier request of the history on a cached
   route had the same method, URL and body bytes, was answered 200, and this is its answer *)
Theorem cache_only_replay : forall cfg items rq r,
  Forall item_wf items -> nonul (rq_mb rq) -> nonul (rq_ub rq) ->
  cache_get (rq_key rq) (hw_cache (fst (http_items_k key cfg hworld0 items))) = Some r ->
  exists pre rq0 post,
    items = pre ++ HReq rq0 :: post /\
    rq_mb rq0 = rq_mb rq /\ rq_ub rq0 = rq_ub rq /\ rq_bb rq0 = rq_bb rq /\
    to_cache rq0 = true /\ rs_status r = 200 /\
    snd (http_step_k key cfg (fst (http_items_k key cfg hworld0 pre)) rq0) = r.
Proof.
  intros cfg items rq r Hwf Hm Hu Hg. apply cache_get_In in Hg.
  destruct (entries_have_origin _ _ _ _ Hg) as (pre & rq0 & post & E & Hk & Hc & H200 & Hr).
  exists pre, rq0, post. split; [exact E |].
  assert (Hwf0 : item_wf (HReq rq0)).
  { rewrite Forall_forall in Hwf. apply Hwf. rewrite E. apply in_or_app. right; left; reflexivity. }
  destruct Hwf0 as [Hm0 Hu0]. unfold rq_key in Hk. symmetry in Hk.
  destruct (key_injective _ _ _ _ _ _ Hm0 Hu0 Hm Hu Hk) as (E1 & E2 & E3).
  repeat split; assumption.
Qed.

End Key.

(* ------------------------------------------------------------------ the server of today *)

Theorem cache_only_replay_today : forall cfg items rq r,
  Forall item_wf items -> nonul (rq_mb rq) -> nonul (rq_ub rq) ->
  cache_get (cache_key (rq_mb rq) (rq_ub rq) (rq_bb rq)) (hw_cache (fst (http_items cfg hworld0 items))) = Some r ->
  exists pre rq0 post,
    items = pre ++ HReq rq0 :: post /\
    rq_mb rq0 = rq_mb rq /\ rq_ub rq0 = rq_ub rq /\ rq_bb rq0 = rq_bb rq /\
    to_cache rq0 = true /\ rs_status r = 200 /\
    snd (http_step cfg (fst (http_items cfg hworld0 pre)) rq0) = r.
Proof. exact (cache_only_replay cache_key cache_key_injective). Qed.

(* With the key construction used before the repair the statement is false.  History: start, mint
   quote 101 of 8 sat, its invoice is settled, POST /v1/mint/bolt11? with body bytes "AB" mints
   output 103; then POST /v1/mint/bolt11?A with body "B" -- another URL, another body, another
   request (output 105) -- is answered from the cache with the signature on 103. *)
Definition refute_cfg : config := mkCfg 0 0 0 false 1.
Definition refute_items : list hitem :=
  [ HDirect (ORestart 0 false) [];
    HReq (mkReq MPost RtMintQuote true true BOk (OMintQuote true 8 0 101 102) 0 [] [] [] 0 []);
    HDirect (ESettle 102) [];
    HReq (mkReq MPost RtMint true true BOk (OMint 101 [mkBmsg 103 8 0 0 true 104] 0) 0 [80] [47; 63] [65; 66] 2 []) ].
Definition refute_rq : hreq :=
  mkReq MPost RtMint true true BOk (OMint 101 [mkBmsg 105 8 0 0 true 106] 0) 0 [80] [47; 63; 65] [66] 1 [].

Lemma in_split_forall : forall (X : Type) (P : X -> Prop) (l pre post : list X) (x : X),
  Forall P l -> l = pre ++ x :: post -> P x.
Proof.
  intros X P l pre post x H E. rewrite Forall_forall in H. apply H. rewrite E. apply in_or_app. right; left; reflexivity.
Qed.

Theorem cache_only_replay_refuted_unseparated :
  exists cfg items rq r,
    Forall item_wf items /\ nonul (rq_mb rq) /\ nonul (rq_ub rq) /\ to_cache rq = true /\
    cache_get (cache_key_unseparated (rq_mb rq) (rq_ub rq) (rq_bb rq))
              (hw_cache (fst (http_items_k cache_key_unseparated cfg hworld0 items))) = Some r /\
    snd (http_step_k cache_key_unseparated cfg (fst (http_items_k cache_key_unseparated cfg hworld0 items)) rq) = r /\
    ~ (exists pre rq0 post, items = pre ++ HReq rq0 :: post /\ rq_ub rq0 = rq_ub rq /\ rq_bb rq0 = rq_bb rq).
Proof.
  exists refute_cfg, refute_items, refute_rq. eexists.
  split; [| split; [| split; [| split; [| split; [| split]]]]].
  - unfold refute_items. repeat constructor; unfold nonul; cbn [In rq_mb rq_ub]; intro H; intuition discriminate.
  - unfold nonul; cbn; intro H; intuition discriminate.
  - unfold nonul; cbn; intro H; intuition discriminate.
  - vm_compute. reflexivity.
  - vm_compute. reflexivity.
  - vm_compute. reflexivity.
  - intros (pre & rq0 & post & E & Eu & Eb).
    assert (HF : Forall (fun it => match it with HReq q => rq_ub q <> rq_ub refute_rq | HDirect _ _ => True end) refute_items).
    { unfold refute_items. repeat constructor; cbn [rq_ub refute_rq]; discriminate. }
    exact (in_split_forall _ _ _ _ _ _ HF E Eu).
Qed.

(* the same history against today's server: the second request is executed and refused (the quote is ISSUED) *)
Lemma refute_history_today :
  let hw := fst (http_items refute_cfg hworld0 refute_items) in
  cache_get (cache_key (rq_mb refute_rq) (rq_ub refute_rq) (rq_bb refute_rq)) (hw_cache hw) = None /\
  rs_status (snd (http_step refute_cfg hw refute_rq)) = 400 /\
  rs_code (snd (http_step refute_cfg hw refute_rq)) = code_MintQuoteAlreadyIssued.
Proof. vm_compute. repeat split. Qed.

(* ------------------------------------------------------------------ state strings *)

Theorem state_strings_roundtrip :
  (roundtrip_values nut04_consts nut04_to_string_cases nut04_to_string_default nut04_from_string nut04_from_string_default = true /\
   roundtrip_strings nut04_to_string_cases nut04_to_string_default nut04_from_string nut04_from_string_default = true) /\
  (roundtrip_values nut05_consts nut05_to_string_cases nut05_to_string_default nut05_from_string nut05_from_string_default = true /\
   roundtrip_strings nut05_to_string_cases nut05_to_string_default nut05_from_string nut05_from_string_default = true) /\
  (roundtrip_values nut07_consts nut07_to_string_cases nut07_to_string_default nut07_from_string nut07_from_string_default = true /\
   roundtrip_strings nut07_to_string_cases nut07_to_string_default nut07_from_string nut07_from_string_default = true) /\
  (* the texts the responses carry for the model's states, and they parse back to the same Go constant *)
  map mint_state_text [0; 1; 2; 3] = ["UNPAID"; "PAID"; "PENDING"; "ISSUED"]%string /\
  map melt_state_text [0; 1; 2] = ["UNPAID"; "PENDING"; "PAID"]%string /\
  map proof_state_text [0; 1; 2] = ["UNSPENT"; "PENDING"; "SPENT"]%string /\
  (forall st, 0 <= st <= 3 ->
     from_string nut04_from_string nut04_from_string_default (mint_state_text st) = mint_state_go st) /\
  (forall st, 0 <= st <= 2 ->
     from_string nut05_from_string nut05_from_string_default (melt_state_text st) = melt_state_go st) /\
  (forall st, 0 <= st <= 2 ->
     from_string nut07_from_string nut07_from_string_default (proof_state_text st) = proof_state_go st).
Proof.
  split; [split; [exact nut04_from_string_inverts_to_string | exact nut04_to_string_inverts_from_string] |].
  split; [split; [exact nut05_from_string_inverts_to_string | exact nut05_to_string_inverts_from_string] |].
  split; [split; [exact nut07_from_string_inverts_to_string | exact nut07_to_string_inverts_from_string] |].
  split; [vm_compute; reflexivity |]. split; [vm_compute; reflexivity |]. split; [vm_compute; reflexivity |].
  split; [| split]; intros st H.
  - assert (E : st = 0 \/ st = 1 \/ st = 2 \/ st = 3) by lia.
    destruct E as [E | [E | [E | E]]]; subst st; vm_compute; reflexivity.
  - assert (E : st = 0 \/ st = 1 \/ st = 2) by lia.
    destruct E as [E | [E | E]]; subst st; vm_compute; reflexivity.
  - assert (E : st = 0 \/ st = 1 \/ st = 2) by lia.
    destruct E as [E | [E | E]]; subst st; vm_compute; reflexivity.
Qed.

(* the executable tables are the extracted route table, code tests and cached-handler list *)
Theorem tables_are_the_extracted_ones :
  (forall rt m, guard rt m = guard_spec rt m) /\
  (forall rt, route_tests rt = tests_of (handler_name rt)) /\
  (forall rt, is_cached rt = is_cached_spec rt).
Proof. exact (conj guard_is_spec (conj route_tests_is_spec is_cached_is_spec)). Qed.

(* the key sets by index, as the harness has them *)
Lemma shape_keys_pinned :
  map (fun s => (shape_code s, shape_keys s)) all_shapes =
  [ (0, ""); (1, "#text"); (2, "code,detail"); (3, "signatures");
    (4, "amount,expiry,quote,request,state,unit"); (5, "amount,expiry,pubkey,quote,request,state,unit");
    (6, "amount,expiry,fee_reserve,quote,request,state,unit");
    (7, "amount,expiry,fee_reserve,payment_preimage,quote,request,state,unit");
    (8, "states"); (9, "outputs,signatures"); (10, "keysets:id,keys,unit");
    (11, "keysets:active,id,input_fee_ppk,unit"); (12, "description,name,nuts,pubkey,time,version"); (13, "#panic") ]%string.
Proof. vm_compute. reflexivity. Qed.
