(* The HTTP/JSON surface of the mint (mint/server.go) as a function from an abstract request to
   an abstract response, layered on the mint state machine (Mint/Model.v, Mint/Sem.v).

   What is abstract:
   - a request carries its HTTP method, which entry of the route table its path selects, whether
     the {method} path variable is "bolt11", whether the Content-Type is acceptable, what
     encoding/json makes of the body (empty / syntax error / truncated / a value of the wrong JSON
     type / decodes), and -- when it decodes -- the request it decodes to, as an [op] of Sem.v;
   - for the NUT-19 response cache it carries in addition the exact bytes of the method, of
     req.URL.String() and of the body: the model builds the cache key from these bytes with the
     same construction as [cacheKey] in server.go;
   - a response is its status, the [code] of an error body, a class for the error [detail]
     (generic text or not), the set of top-level JSON keys, and the transported result.

   What is read from the CURRENT Go sources through Gen/Extracted.v (regenerated on every run):
   the route table and its methods, which middleware answers OPTIONS, which handlers use the
   NUT-19 cache, which internal codes each handler replaces by the generic error, every error
   code, the state strings, the body-size and cache limits. *)
From Coq Require Import ZArith List Bool String Ascii Lia.
From Verif Require Import Extracted ExtractedChecks Model Sem.
Import ListNotations.
Open Scope Z_scope.

(* ------------------------------------------------------------------ requests *)

Inductive meth := MGet | MPost | MOptions | MOther.   (* MOther: any other method token (PUT, HEAD, ...) *)

Definition meth_name (m : meth) : string :=
  match m with MGet => "GET" | MPost => "POST" | MOptions => "OPTIONS" | MOther => "" end%string.

(* the entry of the route table selected by the request path (gorilla mux templates; a path
   variable matches one non-empty segment); RtOther: no template matches *)
Inductive route :=
| RtKeys | RtKeysets | RtKeysId | RtMintQuote | RtMintQuoteState | RtMint | RtSwap
| RtMeltQuote | RtMeltQuoteState | RtMelt | RtCheck | RtRestore | RtInfo | RtWs | RtOther.

Definition handler_name (r : route) : string :=
  match r with
  | RtKeys => "getActiveKeysets" | RtKeysets => "getKeysetsList" | RtKeysId => "getKeysetById"
  | RtMintQuote => "mintRequest" | RtMintQuoteState => "mintQuoteState" | RtMint => "mintTokensRequest"
  | RtSwap => "swapRequest" | RtMeltQuote => "meltQuoteRequest" | RtMeltQuoteState => "meltQuoteState"
  | RtMelt => "meltTokens" | RtCheck => "tokenStateCheck" | RtRestore => "restoreSignatures"
  | RtInfo => "mintInfo" | RtWs => "serveWS" | RtOther => ""
  end%string.

Definition route_entry (r : route) : option (string * list string * string) :=
  find (fun x => String.eqb (route_handler x) (handler_name r)) routes.

Definition all_routes : list route :=
  [RtKeys; RtKeysets; RtKeysId; RtMintQuote; RtMintQuoteState; RtMint; RtSwap;
   RtMeltQuote; RtMeltQuoteState; RtMelt; RtCheck; RtRestore; RtInfo; RtWs; RtOther].
Definition all_meths : list meth := [MGet; MPost; MOptions; MOther].

Definition route_idx (r : route) : nat :=
  match r with
  | RtKeys => 0 | RtKeysets => 1 | RtKeysId => 2 | RtMintQuote => 3 | RtMintQuoteState => 4 | RtMint => 5
  | RtSwap => 6 | RtMeltQuote => 7 | RtMeltQuoteState => 8 | RtMelt => 9 | RtCheck => 10 | RtRestore => 11
  | RtInfo => 12 | RtWs => 13 | RtOther => 14
  end%nat.
Definition meth_idx (m : meth) : nat :=
  match m with MGet => 0 | MPost => 1 | MOptions => 2 | MOther => 3 end%nat.

(* what json.Decoder makes of the body *)
Inductive bclass :=
| BEmpty      (* no bytes, or white space only: io.EOF *)
| BSyntax     (* *json.SyntaxError *)
| BTrunc      (* a proper prefix of a JSON value: io.ErrUnexpectedEOF (the default arm) *)
| BType       (* well-formed JSON with a value of the wrong type for a field: *json.UnmarshalTypeError *)
| BOk.        (* decodes; missing and null fields are zero values, unknown fields are ignored *)

Record hreq := mkReq {
  rq_meth : meth;
  rq_route : route;
  rq_pm_ok : bool;        (* the {method} path variable is BOLT11_METHOD (routes that have one) *)
  rq_ct_ok : bool;        (* no Content-Type header, or media type application/json *)
  rq_body : bclass;
  rq_op : op;             (* what the body (or, for the quote-state routes, the path) decodes to *)
  rq_arg : Z;             (* /v1/keys/{id}: keyset handle; -1 an unknown id; -2 the literal ACTIVE_KEYSET *)
  rq_mb : list Z;         (* bytes of req.Method *)
  rq_ub : list Z;         (* bytes of req.URL.String() *)
  rq_bb : list Z;         (* bytes of the body *)
  rq_blen : Z;            (* len(body) *)
  rq_faults : list Z      (* positions of storage calls that fail (injected storage errors) *)
}.

(* ------------------------------------------------------------------ responses *)

(* set of top-level keys of the JSON body *)
Inductive shape :=
| ShNone                    (* empty body: OPTIONS, 405 *)
| ShText                    (* a body that is not JSON: 404 page, failed websocket upgrade *)
| ShErr                     (* {detail, code} *)
| ShSigs                    (* {signatures} *)
| ShMintQuote (pk : bool)   (* {quote, request, amount, unit, state, expiry} + pubkey iff the quote has one *)
| ShMeltQuote (pre : bool)  (* {quote, request, amount, unit, fee_reserve, state, expiry} + payment_preimage iff non-empty *)
| ShStates                  (* {states} *)
| ShRestore                 (* {outputs, signatures} *)
| ShKeys                    (* {keysets}, entries {id, unit, keys} *)
| ShKeysets                 (* {keysets}, entries {id, unit, active, input_fee_ppk} *)
| ShInfo                    (* NUT-06 *)
| ShPanic.                  (* the handler panicked: no response written *)

(* the keys, sorted and comma-separated; ShKeys/ShKeysets: "top-level:entry keys" *)
Definition shape_keys (s : shape) : string :=
  match s with
  | ShNone => "" | ShText => "#text" | ShPanic => "#panic"
  | ShErr => "code,detail"
  | ShSigs => "signatures"
  | ShMintQuote false => "amount,expiry,quote,request,state,unit"
  | ShMintQuote true => "amount,expiry,pubkey,quote,request,state,unit"
  | ShMeltQuote false => "amount,expiry,fee_reserve,quote,request,state,unit"
  | ShMeltQuote true => "amount,expiry,fee_reserve,payment_preimage,quote,request,state,unit"
  | ShStates => "states"
  | ShRestore => "outputs,signatures"
  | ShKeys => "keysets:id,keys,unit"
  | ShKeysets => "keysets:active,id,input_fee_ppk,unit"
  | ShInfo => "description,name,nuts,pubkey,time,version"
  end%string.

Definition all_shapes : list shape :=
  [ShNone; ShText; ShErr; ShSigs; ShMintQuote false; ShMintQuote true; ShMeltQuote false; ShMeltQuote true;
   ShStates; ShRestore; ShKeys; ShKeysets; ShInfo; ShPanic].
Definition shape_idx (s : shape) : nat :=
  match s with
  | ShNone => 0 | ShText => 1 | ShErr => 2 | ShSigs => 3 | ShMintQuote false => 4 | ShMintQuote true => 5
  | ShMeltQuote false => 6 | ShMeltQuote true => 7 | ShStates => 8 | ShRestore => 9 | ShKeys => 10
  | ShKeysets => 11 | ShInfo => 12 | ShPanic => 13
  end%nat.

(* the extracted model prints the index of the key set (the table of the texts would make the
   extracted program needlessly large); the harness holds the same list of key sets *)
Definition shape_code (s : shape) : Z := Z.of_nat (shape_idx s).

Inductive content :=
| CNone
| COp (r : opres)              (* the operation's result *)
| CKeys (ids : list Z)         (* nut01.GetKeysResponse for these keysets *)
| CKeysets (l : list ksrow).   (* nut02.GetKeysetsResponse *)

(* class of the [detail] text of an error body *)
Definition dc_none : Z := 0.
Definition dc_generic : Z := 1.   (* exactly StandardErr's text: "mint is currently unable to process request" *)
Definition dc_payfail : Z := 2.   (* exactly "unable to send payment" *)
Definition dc_other : Z := 3.     (* the text of the specific error *)

Record hresp := mkResp {
  rs_status : Z;     (* 0: no response (panic) *)
  rs_code : Z;       (* code of the error body; 0 when there is none *)
  rs_detail : Z;
  rs_shape : shape;
  rs_content : content
}.

Definition ok_resp (s : shape) (c : content) : hresp := mkResp 200 0 dc_none s c.
Definition err_resp (code dc : Z) : hresp := mkResp 400 code dc ShErr CNone.
Definition panic_resp : hresp := mkResp 0 0 dc_none ShPanic CNone.
Definition resp_404 : hresp := mkResp 404 0 dc_none ShText CNone.
Definition resp_405 : hresp := mkResp 405 0 dc_none ShNone CNone.
Definition resp_options : hresp := mkResp 200 0 dc_none ShNone CNone.
Definition resp_ws : hresp := mkResp 400 0 dc_none ShText CNone.   (* websocket.Upgrader on a plain request *)

(* ------------------------------------------------------------------ error codes *)

(* the Code of the cashu.Error a Mint method returns for each rejection cause (mint/mint.go) *)
Definition raw_code (e : err) : Z :=
  match e with
  | EDb => errcode_DBErrCode
  | ELn => errcode_LightningBackendErrCode
  | EUnit => errcode_UnitErrCode
  | EBadPubkey => errcode_StandardErrCode
  | EMintLimit => code_MintAmountExceededErr
  | EMintDisabled => code_MintingDisabled
  | EMeltLimit => code_MeltAmountExceededErr
  | EQuoteNotExist => code_QuoteNotExistErr
  | ENotPaid => code_MintQuoteRequestNotPaid
  | EIssued => code_MintQuoteAlreadyIssued
  | EQuotePending => code_QuotePending
  | EMeltPaid => code_MeltQuoteAlreadyPaid
  | EOutAmount => code_InvalidBlindedMessageAmount
  | EDupOutputs => code_DuplicateOutputs
  | EOverQuote => code_OutputsOverQuoteAmountErr
  | EAlreadySigned => code_BlindedMessageAlreadySigned
  | EQuoteSig => code_MintQuoteInvalidSigErr
  | EUnknownKeyset => code_UnknownKeysetErr
  | EInactiveKeyset => code_InactiveKeysetSignatureRequest
  | EBadB => errcode_StandardErrCode
  | ENoProofs => code_NoProofsProvided
  | EProofPending => code_ProofPendingErr
  | EProofUsed => code_ProofAlreadyUsedErr
  | EDupProofs => code_DuplicateProofs
  | ESecretLong => code_SecretTooLongErr
  | EInvalidProof => code_InvalidProofErr
  | EBadC => errcode_StandardErrCode
  | ECond => errcode_NUT11ErrCode            (* NUT-11 evaluation failed (an HTLC failure carries NUT14ErrCode) *)
  | EProofAmount => code_InvalidProofAmount
  | EInsufficient => code_InsufficientProofsAmount
  | ESigAllMelt => nut11_code_SigAllOnlySwap
  | ESigAllOutputs => errcode_NUT11ErrCode
  | EInvoice => errcode_MeltQuoteErrCode
  | EMeltExists => code_MeltQuoteForRequestExists
  | EMpp => errcode_MeltQuoteErrCode
  end.

Definition is_internal (e : err) : bool := match e with EDb | ELn => true | _ => false end.

(* the code the client is to see for each rejection cause: the NUT error code of the cause,
   the generic StandardErr for storage and Lightning failures *)
Definition code_of_err (e : err) : Z := if is_internal e then code_StandardErr else raw_code e.

(* the internal codes handler [h] recognises and replaces (the `cashuErr.Code == ...` tests) *)
Definition tests_of (h : string) : list Z :=
  match lookupS h handler_code_tests with Some l => map snd l | None => [] end.

Definition tests_tbl : list (list Z) :=
  Eval vm_compute in map (fun rt => tests_of (handler_name rt)) all_routes.
Definition route_tests (rt : route) : list Z := nth (route_idx rt) tests_tbl [].
Lemma route_tests_is_spec : forall rt, route_tests rt = tests_of (handler_name rt).
Proof. intro rt; destruct rt; vm_compute; reflexivity. Qed.

(* writeErr as each handler calls it: (code, class of detail) *)
Definition write_err (rt : route) (e : err) : Z * Z :=
  match rt with
  | RtRestore | RtInfo => (code_StandardErr, dc_generic)      (* any error: ms.writeErr(rw, req, cashu.StandardErr, ...) *)
  | _ =>
    let c := raw_code e in
    if memZ c (route_tests rt) then
      match rt with
      | RtMelt => if c =? errcode_LightningBackendErrCode
                  then (errcode_StandardErrCode, dc_payfail)   (* BuildCashuError("unable to send payment", StandardErrCode) *)
                  else (code_StandardErr, dc_generic)
      | _ => (code_StandardErr, dc_generic)
      end
    else (c, dc_other)                                         (* the error is marshalled as it is *)
  end.

(* ------------------------------------------------------------------ state strings *)

(* model numbering (Model.v) -> Go constant *)
Definition mint_state_go (st : Z) : Z :=
  if st =? 0 then nut04_Unpaid else if st =? 1 then nut04_Paid else if st =? 2 then nut04_Pending
  else if st =? 3 then nut04_Issued else nut04_Unknown.
Definition melt_state_go (st : Z) : Z :=
  if st =? 0 then nut05_Unpaid else if st =? 1 then nut05_Pending else if st =? 2 then nut05_Paid else nut05_Unknown.
Definition proof_state_go (st : Z) : Z :=
  if st =? 0 then nut07_Unspent else if st =? 1 then nut07_Pending else if st =? 2 then nut07_Spent else nut07_Unknown.

(* the text the custom marshalers write *)
Definition mint_state_text (st : Z) : string := to_string nut04_to_string_cases nut04_to_string_default (mint_state_go st).
Definition melt_state_text (st : Z) : string := to_string nut05_to_string_cases nut05_to_string_default (melt_state_go st).
Definition proof_state_text (st : Z) : string := to_string nut07_to_string_cases nut07_to_string_default (proof_state_go st).

(* ------------------------------------------------------------------ server state *)

Record hworld := mkHW {
  hw_mint : world;
  hw_cache : list (list Z * hresp);   (* NUT-19 entries of ms.cache, oldest first *)
  hw_akey : option Z;                 (* keyset whose response is stored under ACTIVE_KEYSET *)
  hw_kids : list Z                    (* keyset ids whose response is stored under their id *)
}.

Definition hw_of (w : world) : hworld := mkHW w [] None [].
Definition hworld0 : hworld := hw_of world0.
Definition set_mint (hw : hworld) (w : world) : hworld := mkHW w (hw_cache hw) (hw_akey hw) (hw_kids hw).

Fixpoint bytes_eqb (a b : list Z) : bool :=
  match a, b with
  | [], [] => true
  | x :: r, y :: s => if x =? y then bytes_eqb r s else false
  | _, _ => false
  end.

Fixpoint cache_get (k : list Z) (c : list (list Z * hresp)) : option hresp :=
  match c with
  | [] => None
  | (k', r) :: t => if bytes_eqb k k' then Some r else cache_get k t
  end.

(* number of items in ms.cache *)
Definition cache_count (hw : hworld) : Z :=
  Z.of_nat (List.length (hw_cache hw)) + (match hw_akey hw with Some _ => 1 | None => 0 end) + Z.of_nat (List.length (hw_kids hw)).

(* Cache.Set: `if len(c.items) <= c.limit` *)
Definition cache_room (hw : hworld) : bool := cache_count hw <=? CACHE_ITEMS_LIMIT.

Definition cache_put (k : list Z) (r : hresp) (hw : hworld) : hworld :=
  if cache_room hw then mkHW (hw_mint hw) (hw_cache hw ++ [(k, r)]) (hw_akey hw) (hw_kids hw) else hw.

(* cacheKey (today): req.Method + "\x00" + req.URL.String() + "\x00" + string(body) *)
Definition cache_key (m u b : list Z) : list Z := m ++ 0 :: u ++ 0 :: b.
(* cacheKey before the repair: the three parts concatenated *)
Definition cache_key_unseparated (m u b : list Z) : list Z := m ++ u ++ b.

(* ------------------------------------------------------------------ guard (gorilla mux + middleware) *)

Inductive guard_res := G404 | G405 | GOptions | GRun.

(* read off the extracted route table: no template -> 404; template but method not registered ->
   405; registered and answered by the middleware (OPTIONS) -> empty 200; else the handler runs *)
Definition guard_spec (rt : route) (m : meth) : guard_res :=
  match route_entry rt with
  | None => G404
  | Some x =>
    if memS (meth_name m) (route_methods x) then
      if memS (meth_name m) (map snd middleware_short_circuits) then GOptions else GRun
    else G405
  end.

(* The functions that are run by the extracted model must not mention Coq strings (the extracted
   runner has no string type); each table below is the spec function evaluated, at compile time,
   on the tables of the CURRENT Go sources, so it changes when they change. *)
Definition guard_tbl : list (list guard_res) :=
  Eval vm_compute in map (fun rt => map (guard_spec rt) all_meths) all_routes.

Definition guard (rt : route) (m : meth) : guard_res :=
  nth (meth_idx m) (nth (route_idx rt) guard_tbl []) G404.

Lemma guard_is_spec : forall rt m, guard rt m = guard_spec rt m.
Proof. intros rt m; destruct rt, m; vm_compute; reflexivity. Qed.

(* ------------------------------------------------------------------ decodeJsonReqBody *)

Definition has_pm (rt : route) : bool :=
  match rt with
  | RtMintQuote | RtMintQuoteState | RtMint | RtMeltQuote | RtMeltQuoteState | RtMelt => true
  | _ => false
  end.

Definition has_body (rt : route) : bool :=
  match rt with
  | RtMintQuote | RtMint | RtSwap | RtMeltQuote | RtMelt | RtCheck | RtRestore => true
  | _ => false
  end.

Definition is_cached_spec (rt : route) : bool := memS (handler_name rt) cached_handlers.
Definition cached_tbl : list bool := Eval vm_compute in map is_cached_spec all_routes.
Definition is_cached (rt : route) : bool := nth (route_idx rt) cached_tbl false.
Lemma is_cached_is_spec : forall rt, is_cached rt = is_cached_spec rt.
Proof. intro rt; destruct rt; vm_compute; reflexivity. Qed.

(* Some (code, detail class) when decodeJsonReqBody returns an error *)
Definition decode_err (ct_ok : bool) (b : bclass) : option (Z * Z) :=
  if negb ct_ok then Some (errcode_StandardErrCode, dc_other) else
  match b with
  | BEmpty => Some (code_EmptyBodyErr, dc_other)
  | BSyntax | BTrunc | BType => Some (errcode_StandardErrCode, dc_other)
  | BOk => None
  end.

(* the request struct the handler decodes into; anything else is the zero value *)
Definition coerce (rt : route) (o : op) : op :=
  match rt, o with
  | RtMintQuote, OMintQuote _ _ _ _ _ => o
  | RtMintQuote, _ => OMintQuote false 0 0 (-1) (-1)
  | RtMintQuoteState, OMintState _ => o
  | RtMintQuoteState, _ => OMintState (-1)
  | RtMint, OMint _ _ _ => o
  | RtMint, _ => OMint (-1) [] 0
  | RtSwap, OSwap _ _ _ => o
  | RtSwap, _ => OSwap [] [] true
  | RtMeltQuote, OMeltQuote _ _ _ _ _ _ _ => o
  | RtMeltQuote, _ => OMeltQuote false false (-1) (-1) 0 None (-1)
  | RtMeltQuoteState, OMeltState _ => o
  | RtMeltQuoteState, _ => OMeltState (-1)
  | RtMelt, OMelt _ _ => o
  | RtMelt, _ => OMelt (-1) []
  | RtCheck, OCheck _ => o
  | RtCheck, _ => OCheck []
  | RtRestore, ORestore _ => o
  | RtRestore, _ => ORestore []
  | _, _ => OInfo
  end.

Definition faults_oracle (positions : list Z) : oracle := fun i => mem i positions.

(* ------------------------------------------------------------------ from the operation's result to the response *)

Definition shape_of (rt : route) (r : opres) : shape :=
  match r with
  | RSigs _ => match rt with RtRestore => ShRestore | _ => ShSigs end
  | RMq q => ShMintQuote (negb (mq_pubkey q =? 0))
  | RLq q => ShMeltQuote (negb (lq_preimage q =? 0))
  | RStates _ => ShStates
  | RBool _ => ShInfo
  | _ => ShNone
  end.

Definition resp_of (rt : route) (r : opres) : hresp :=
  match r with
  | RFail e => let '(c, d) := write_err rt e in err_resp c d
  | RPanic | RCrash => panic_resp
  | _ => ok_resp (shape_of rt r) (COp r)
  end.

(* ------------------------------------------------------------------ handlers *)

Section WithKey.

(* the cache-key construction is a parameter so that the construction used before the repair can
   be put in its place (HttpProofs.v, cache_only_replay_refuted_unseparated) *)
Variable key : list Z -> list Z -> list Z -> list Z.

Definition run_op (cfg : config) (hw : hworld) (rq : hreq) (o : op) : hworld * hresp :=
  let '(w', r) := step cfg (faults_oracle (rq_faults rq)) (hw_mint hw) o in
  (set_mint hw w', resp_of (rq_route rq) r).

(* mintTokensRequest / swapRequest after the body has been decoded *)
Definition cached_op (cfg : config) (hw : hworld) (rq : hreq) (o : op) : hworld * hresp :=
  let k := key (rq_mb rq) (rq_ub rq) (rq_bb rq) in
  match cache_get k (hw_cache hw) with
  | Some r => (hw, r)                                   (* rw.Write(response): verbatim, the operation is not run *)
  | None =>
    let '(hw', r) := run_op cfg hw rq o in
    if (rs_status r =? 200) && (rq_blen rq <? REQUEST_BODY_SIZE_LIMIT) then (cache_put k r hw', r) else (hw', r)
  end.

(* the handlers that run a Mint method *)
Definition op_handler (cfg : config) (hw : hworld) (rq : hreq) : hworld * hresp :=
  let rt := rq_route rq in
  if has_pm rt && negb (rq_pm_ok rq) then (hw, err_resp code_PaymentMethodNotSupportedErr dc_other) else
  match (if has_body rt then decode_err (rq_ct_ok rq) (rq_body rq) else None) with
  | Some (c, d) => (hw, err_resp c d)
  | None =>
    let o := coerce rt (rq_op rq) in
    if is_cached rt then cached_op cfg hw rq o else run_op cfg hw rq o
  end.

Definition keys_handler (hw : hworld) : hworld * hresp :=
  match hw_akey hw with
  | Some k => (hw, ok_resp ShKeys (CKeys [k]))
  | None =>
    let a := w_active (hw_mint hw) in
    if a <? 0 then (hw, panic_resp)       (* nil activeKeyset dereferenced *)
    else
      let hw' := if cache_room hw then mkHW (hw_mint hw) (hw_cache hw) (Some a) (hw_kids hw) else hw in
      (hw', ok_resp ShKeys (CKeys [a]))
  end.

Definition keys_id_handler (hw : hworld) (arg : Z) : hworld * hresp :=
  if arg =? -2 then
    (* the path segment is the literal ACTIVE_KEYSET: ms.cache.Get(id) finds the entry of /v1/keys *)
    match hw_akey hw with
    | Some k => (hw, ok_resp ShKeys (CKeys [k]))
    | None => (hw, err_resp code_UnknownKeysetErr dc_other)
    end
  else if mem arg (hw_kids hw) then (hw, ok_resp ShKeys (CKeys [arg]))
  else
    match find_ks arg (w_mem (hw_mint hw)) with
    | None => (hw, err_resp code_UnknownKeysetErr dc_other)
    | Some _ =>
      let hw' := if cache_room hw then mkHW (hw_mint hw) (hw_cache hw) (hw_akey hw) (hw_kids hw ++ [arg]) else hw in
      (hw', ok_resp ShKeys (CKeys [arg]))
    end.

Definition http_step_k (cfg : config) (hw : hworld) (rq : hreq) : hworld * hresp :=
  match guard (rq_route rq) (rq_meth rq) with
  | G404 => (hw, resp_404)
  | G405 => (hw, resp_405)
  | GOptions => (hw, resp_options)
  | GRun =>
    match rq_route rq with
    | RtKeys => keys_handler hw
    | RtKeysets => (hw, ok_resp ShKeysets (CKeysets (w_mem (hw_mint hw))))
    | RtKeysId => keys_id_handler hw (rq_arg rq)
    | RtWs => (hw, resp_ws)
    | RtOther => (hw, resp_404)
    | _ => op_handler cfg hw rq
    end
  end.

(* a history: requests through the handler, and steps outside HTTP (environment, restart, rotation) *)
Inductive hitem :=
| HReq (rq : hreq)
| HDirect (o : op) (faults : list Z).

Inductive hout :=
| OutResp (r : hresp)
| OutDirect (r : opres).

Definition is_restart (o : op) : bool := match o with ORestart _ _ => true | _ => false end.

Definition item_step_k (cfg : config) (hw : hworld) (it : hitem) : hworld * hout :=
  match it with
  | HReq rq => let '(hw', r) := http_step_k cfg hw rq in (hw', OutResp r)
  | HDirect o fs =>
    let '(w', r) := step cfg (faults_oracle fs) (hw_mint hw) o in
    (* a restart is a new process: SetupMintServer builds a new, empty cache *)
    ((if is_restart o then hw_of w' else set_mint hw w'), OutDirect r)
  end.

Fixpoint http_items_k (cfg : config) (hw : hworld) (l : list hitem) : hworld * list hout :=
  match l with
  | [] => (hw, [])
  | it :: r => let '(hw1, x) := item_step_k cfg hw it in
               let '(hw2, xs) := http_items_k cfg hw1 r in (hw2, x :: xs)
  end.

Fixpoint http_run_k (cfg : config) (hw : hworld) (l : list hreq) : hworld * list hresp :=
  match l with
  | [] => (hw, [])
  | rq :: r => let '(hw1, x) := http_step_k cfg hw rq in
               let '(hw2, xs) := http_run_k cfg hw1 r in (hw2, x :: xs)
  end.

End WithKey.

(* the server as it is today *)
Definition http_step : config -> hworld -> hreq -> hworld * hresp := http_step_k cache_key.
Definition item_step : config -> hworld -> hitem -> hworld * hout := item_step_k cache_key.
Definition http_items : config -> hworld -> list hitem -> hworld * list hout := http_items_k cache_key.
Definition http_run : config -> hworld -> list hreq -> hworld * list hresp := http_run_k cache_key.
