(* Wire format of the HTTP streams (family tag 6): decoding of a history of requests sent by the
   harness, encoding of the responses the model predicts, each followed by the mint snapshot. *)
From Coq Require Import ZArith List Bool.
From Verif Require Import Sexp Model Sem MintCodec Server.
Import ListNotations.
Open Scope Z_scope.

Definition d_meth (z : Z) : meth :=
  if z =? 0 then MGet else if z =? 1 then MPost else if z =? 2 then MOptions else MOther.

Definition d_route (z : Z) : route :=
  if (z <? 0) then RtOther else nth (Z.to_nat z) all_routes RtOther.

Definition d_bclass (z : Z) : bclass :=
  if z =? 0 then BEmpty else if z =? 1 then BSyntax else if z =? 2 then BTrunc else if z =? 3 then BType else BOk.

Definition d_hitem (s : sexp) : option hitem :=
  match s with
  | L [A 0; A m; A rt; A pm; A ct; A bc; o; A arg; L mb; L ub; L bb; A blen; L fs] =>
      do o' <- sOpt d_op o;
      do mb' <- opt_map sZ mb; do ub' <- opt_map sZ ub; do bb' <- opt_map sZ bb; do fs' <- opt_map sZ fs;
      Some (HReq (mkReq (d_meth m) (d_route rt) (zb pm) (zb ct) (d_bclass bc)
                        (match o' with Some x => x | None => OInfo end) arg mb' ub' bb' blen fs'))
  | L [A 1; o; L fs] => do o' <- d_op o; do fs' <- opt_map sZ fs; Some (HDirect o' fs')
  | _ => None
  end.

(* ---------------- encoding ---------------- *)

(* the transported result: as in MintCodec.e_res (states by number; Props/C20.v, C20_state_strings_roundtrip,
   pins the texts these numbers are written as: the harness reads the texts and maps them back) *)
Definition e_opres (r : opres) : sexp := e_res 0 r.

Definition e_content (c : content) : sexp :=
  match c with
  | CNone => L []
  | COp r => e_opres r
  | CKeys ids => L [A 10; L (map A ids)]
  | CKeysets l => L [A 11; L (map (fun k => L [A (k_id k); A (k_fee k); eBool (k_active k)]) (sort_by k_id l))]
  end.

(* proj = 0: everything; otherwise only the status class (2xx / 4xx / ... / 0: no response) *)
Definition e_resp (proj : Z) (r : hresp) : list sexp :=
  if proj =? 0 then [A (rs_status r); A (rs_code r); A (rs_detail r); A (shape_code (rs_shape r)); e_content (rs_content r)]
  else [A (rs_status r / 100)].

Definition e_out (proj : Z) (it : hitem) (o : hout) (w : world) : sexp :=
  match o with
  | OutResp r => L [L (e_resp proj r); snapshot w]
  | OutDirect r =>
      (* as MintCodec.run_items: a LoadMint that does not come up leaves no mint to take a snapshot of *)
      let failed := match it with HDirect op _ => failed_restart op r | HReq _ => false end in
      L [e_res proj r; if failed then empty_snapshot else snapshot w]
  end.

Fixpoint run_hitems (cfg : config) (proj : Z) (hw : hworld) (its : list hitem) : list sexp :=
  match its with
  | [] => []
  | it :: rest =>
      let '(hw', o) := item_step cfg hw it in
      e_out proj it o (hw_mint hw') :: run_hitems cfg proj hw' rest
  end.

(* case: (cfg proj (items...)) *)
Definition run_http (c : sexp) : sexp :=
  match c with
  | L [cf; A proj; L its] =>
      match d_cfg cf, opt_map d_hitem its with
      | Some cfg, Some items => L (run_hitems cfg proj hworld0 items)
      | _, _ => bad_case
      end
  | _ => bad_case
  end.
