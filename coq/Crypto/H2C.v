(* hash_to_curve (NUT-00), twice:
   - [h2c_impl]: the loop of /repo/crypto/bdhke.go HashToCurve, statement by statement;
   - [h2c_spec]: NUT-00 - the point parsed from 02 || SHA256(msg_hash || counter) for the LEAST
     counter (uint32, little endian, below 2^16) for which those 33 bytes are a point.
   [h2c_impl_eq_spec] holds for every hash function and every parser (Section variables);
   the executable instance [hash_to_curve] uses SHA-256 and secp256k1 decompression. *)
From Coq Require Import Ascii String ZArith List Bool Lia.
From Verif Require Import Bytes SHA256 Secp256k1.
Import ListNotations.
Open Scope Z_scope.

Definition domain_separator : list Z := Eval vm_compute in str "Secp256k1_HashToCurve_Cashu_".

Example domain_separator_hex :
  domain_separator = hexs "536563703235366b315f48617368546f43757276655f43617368755f".
Proof. vm_check. Qed.

Definition h2c_max : Z := 65536.              (* uint32(math.Exp2(16)) = 2**16 *)
Definition h2c_fuel : nat := Z.to_nat 65537.  (* one test of the loop condition more than iterations *)

(* binary.LittleEndian.PutUint32(c, v): c[0]=byte(v), c[1]=byte(v>>8), c[2]=byte(v>>16), c[3]=byte(v>>24) *)
Definition put_uint32_le (v : Z) : list Z :=
  [Z.land v 255; Z.land (Z.shiftr v 8) 255; Z.land (Z.shiftr v 16) 255; Z.land (Z.shiftr v 24) 255].

Lemma put_uint32_le_spec : forall v, 0 <= v -> put_uint32_le v = le_bytes 4 v.
Proof.
  intros v Hv. unfold put_uint32_le. cbn [le_bytes].
  assert (H8 : Z.shiftr v 8 = v / 256) by (rewrite shiftr_div by lia; reflexivity).
  assert (H16 : Z.shiftr v 16 = v / 256 / 256)
    by (rewrite shiftr_div by lia; rewrite Z.div_div by lia; reflexivity).
  assert (H24 : Z.shiftr v 24 = v / 256 / 256 / 256)
    by (rewrite shiftr_div by lia; rewrite !Z.div_div by lia; reflexivity).
  rewrite H8, H16, H24.
  assert (P1 : 0 <= v / 256) by (apply Z.div_pos; lia).
  assert (P2 : 0 <= v / 256 / 256) by (apply Z.div_pos; lia).
  assert (P3 : 0 <= v / 256 / 256 / 256) by (apply Z.div_pos; lia).
  rewrite !land_255 by assumption. reflexivity.
Qed.

Section Generic.
  Context {P : Type}.
  Variable H : list Z -> list Z.            (* sha256.Sum256 *)
  Variable parse : list Z -> option P.      (* secp256k1.ParsePubKey; None = error *)

  (* ---------- the Go loop ---------- *)

  (*  for counter < uint32(math.Exp2(16)) {
        c := make([]byte, 4); binary.LittleEndian.PutUint32(c, counter)
        hash := sha256.Sum256(append(msgToHash[:], c...))
        pkHash := append([]byte{0x02}, hash[:]...)
        point, err := secp256k1.ParsePubKey(pkHash)
        if err != nil { counter++; continue }
        if point.IsOnCurve() { return point, nil }
      }
      return nil, errors.New("No valid point found")
     ParsePubKey only returns points that satisfy the curve equation, so the IsOnCurve test
     always succeeds (were it to fail, the Go loop would spin on the same counter); the model
     returns at once. *)
  Fixpoint h2c_loop (fuel : nat) (msgToHash : list Z) (counter : Z) : option P :=
    match fuel with
    | O => None
    | S f =>
        if counter <? h2c_max then
          let c := put_uint32_le counter in
          let hash := H (msgToHash ++ c) in
          let pkHash := 2 :: hash in
          match parse pkHash with
          | None => h2c_loop f msgToHash ((counter + 1) mod 4294967296)   (* counter++ (uint32) *)
          | Some point => Some point
          end
        else None
    end.

  Definition h2c_impl (message : list Z) : option P :=
    let msgToHash := H (domain_separator ++ message) in
    h2c_loop h2c_fuel msgToHash 0.

  (* ---------- NUT-00 ---------- *)

  Definition h2c_candidate (message : list Z) (counter : Z) : option P :=
    let msg_hash := H (domain_separator ++ message) in
    parse (2 :: H (msg_hash ++ le_bytes 4 counter)).

  (* r is the result NUT-00 prescribes for message: the point of the least working counter
     below 2^16, or failure when there is none *)
  Definition h2c_spec (message : list Z) (r : option P) : Prop :=
    match r with
    | Some Y => exists c, 0 <= c < 2 ^ 16 /\ h2c_candidate message c = Some Y /\
                          forall c', 0 <= c' < c -> h2c_candidate message c' = None
    | None => forall c, 0 <= c < 2 ^ 16 -> h2c_candidate message c = None
    end.

  Lemma h2c_spec_functional : forall m r1 r2, h2c_spec m r1 -> h2c_spec m r2 -> r1 = r2.
  Proof.
    intros m [Y1|] [Y2|] H1 H2; cbn [h2c_spec] in H1, H2.
    - destruct H1 as (c1 & R1 & E1 & M1). destruct H2 as (c2 & R2 & E2 & M2).
      destruct (Z.lt_trichotomy c1 c2) as [Hlt|[Heq|Hgt]].
      + rewrite (M2 c1) in E1 by lia. discriminate.
      + subst c2. rewrite E1 in E2. exact E2.
      + rewrite (M1 c2) in E2 by lia. discriminate.
    - destruct H1 as (c1 & R1 & E1 & M1). rewrite (H2 c1 R1) in E1. discriminate.
    - destruct H2 as (c2 & R2 & E2 & M2). rewrite (H1 c2 R2) in E2. discriminate.
    - reflexivity.
  Qed.

  Lemma h2c_loop_meets_spec : forall m fuel c,
    0 <= c <= 65536 ->
    65536 - c + 1 <= Z.of_nat fuel ->
    (forall c', 0 <= c' < c -> h2c_candidate m c' = None) ->
    h2c_spec m (h2c_loop fuel (H (domain_separator ++ m)) c).
  Proof.
    intros m fuel. induction fuel as [|f IH]; intros c Hc Hfuel Hprev.
    - exfalso. change (Z.of_nat 0) with 0 in Hfuel. lia.
    - cbn [h2c_loop]. unfold h2c_max.
      destruct (Z.ltb_spec c 65536) as [Hlt|Hge].
      + rewrite put_uint32_le_spec by lia.
        assert (Hcand : h2c_candidate m c
                        = parse (2 :: H (H (domain_separator ++ m) ++ le_bytes 4 c))) by reflexivity.
        rewrite <- Hcand.
        destruct (h2c_candidate m c) as [Y|] eqn:E.
        * cbn [h2c_spec]. exists c. change (2 ^ 16) with 65536.
          split; [lia|]. split; [exact E|exact Hprev].
        * rewrite Z.mod_small by lia. apply IH.
          -- lia.
          -- rewrite Nat2Z.inj_succ in Hfuel. lia.
          -- intros c' Hc'. destruct (Z.eq_dec c' c) as [->|Hne]; [exact E|apply Hprev; lia].
      + assert (c = 65536) by lia. subst c. cbn [h2c_spec]. change (2 ^ 16) with 65536.
        intros c' Hc'. apply Hprev. lia.
  Qed.

  Lemma h2c_fuel_value : Z.of_nat h2c_fuel = 65537.
  Proof. unfold h2c_fuel. apply Z2Nat.id. lia. Qed.

  Lemma h2c_impl_meets_spec : forall m, h2c_spec m (h2c_impl m).
  Proof.
    intros m. unfold h2c_impl. apply h2c_loop_meets_spec.
    - lia.
    - rewrite h2c_fuel_value. lia.
    - intros c' Hc'. lia.
  Qed.

  (* The implementation returns r if and only if r is what NUT-00 prescribes: the point of the
     least counter below 2^16 that parses - and an error iff no counter below 2^16 parses. *)
  Theorem h2c_impl_eq_spec : forall m r, h2c_impl m = r <-> h2c_spec m r.
  Proof.
    intros m r. split.
    - intros <-. apply h2c_impl_meets_spec.
    - intros Hs. apply (h2c_spec_functional m); [apply h2c_impl_meets_spec|exact Hs].
  Qed.

  Corollary h2c_impl_none_iff : forall m,
    h2c_impl m = None <-> forall c, 0 <= c < 2 ^ 16 -> h2c_candidate m c = None.
  Proof. intros m. apply (h2c_impl_eq_spec m None). Qed.

  (* the number of loop iterations is the least working counter *)
  Corollary h2c_impl_some_least : forall m Y, h2c_impl m = Some Y ->
    exists c, 0 <= c < 2 ^ 16 /\ h2c_candidate m c = Some Y /\
              forall c', 0 <= c' < c -> h2c_candidate m c' = None.
  Proof. intros m Y E. apply (h2c_impl_eq_spec m (Some Y)) in E. exact E. Qed.
End Generic.

(* ---------- executable instance ---------- *)

(* a parsed point is a coordinate pair; infinity is never produced *)
Definition hash_to_curve (message : list Z) : option (Z * Z) := h2c_impl sha256 decompress message.

Definition hash_to_curve_bytes (message : list Z) : option (list Z) :=
  match hash_to_curve message with
  | Some xy => Some (compress (Some xy))
  | None => None
  end.

(* the executable instance computes exactly what NUT-00 prescribes over SHA-256 and secp256k1
   point decompression *)
Theorem hash_to_curve_eq_spec : forall m r,
  hash_to_curve m = r <-> h2c_spec sha256 decompress m r.
Proof. exact (h2c_impl_eq_spec sha256 decompress). Qed.

(* number of failed counters before success, for test selection and reporting *)
Fixpoint h2c_first (fuel : nat) (message : list Z) (c : Z) : option Z :=
  match fuel with
  | O => None
  | S f => match h2c_candidate sha256 decompress message c with
           | Some _ => Some c
           | None => h2c_first f message (c + 1)
           end
  end.

(* /repo/crypto/bdhke_test.go TestHashToCurve.  The first vector succeeds at counter 0, the
   third needs four candidates (three square-root attempts fail first; one attempt is a
   256-bit modular exponentiation, about 2 s in the VM).  The second vector (message 00..01,
   result 022e7158e11c9506f1aa4248bf531298daa7febd6194f003edcd9b93ade6253acf) and all three
   again are the fixed first cases of the c11-h2c stream, run through the extracted runner. *)
Example h2c_vector_0 :
  hash_to_curve_bytes (hexs "0000000000000000000000000000000000000000000000000000000000000000")
  = Some (hexs "024cce997d3b518f739663b757deaec95bcd9473c30a14ac2fd04023a739d1a725").
Proof. vm_check. Qed.

Example h2c_vector_2 :
  hash_to_curve_bytes (hexs "0000000000000000000000000000000000000000000000000000000000000002")
  = Some (hexs "026cdbe15362df59cd1dd3c9c11de8aedac2106eca69236ecd9fbe117af897be4f").
Proof. vm_check. Qed.

(* [h2c_first 16 msg2 0 = Some 3] for that message: counters 0, 1, 2 fail.  Not an Example (it
   would repeat the 12 s of the previous one); the c11-h2c stream recomputes the iteration count
   of every message on the Go side and reports the distribution. *)
