(* The secp256k1 instance of the abstract BDHKE / DLEQ layer (C10), executable.

   [secp_ops] packs the affine operations of Secp256k1.v into the [group_ops] record of
   Group.v.  It is NOT proved to satisfy [group_laws] / [group_laws_on secp_ops on_curve]:
   that secp256k1 with these formulas is a cyclic group of prime order [secp_n] is classical
   mathematics and belongs to the trusted base (DESIGN.md section 4).  What is done instead:
   - the functions below are the generic [blind]/[sign]/[unblind]/[verify] of BDHKE.v and
     [dleq_gen]/[dleq_verify]/[dleq_verify_proof] of DLEQ.v applied to [secp_ops] and to the
     concrete [secp_hashE], i.e. the very definitions the Props/C10.v theorems quantify over;
   - they are run (extracted) against /repo/crypto/bdhke.go and /repo/cashu/nuts/nut12/nut12.go
     bit for bit by the c10-bdhke stream (run_crypto cases 20..31);
   - [Transfer] (generic) and the [secp_*] corollaries state what the C10 theorems give for
     these executed functions on on-curve points IF the laws hold on on-curve points.

   Byte level, mirrored from dcrd/secp256k1 v4:
   - [scalar_of_bytes]: PrivKeyFromBytes = ModNScalar.SetByteSlice - only the FIRST 32 bytes are
     used, shorter input is left-padded, the value is reduced modulo n (so e.g. trailing bytes
     and +n are malleable encodings of the same scalar; zero is accepted);
   - [parse_pubkey]: ParsePubKey - 33 bytes 02/03, 65 bytes 04, and the hybrid forms 06/07;
   - [hash_e_bytes]: HashE hashes the concatenated lower-case HEX TEXT of the uncompressed
     serialisations (130 characters per point), not the bytes;
   - the point at infinity (reachable with a zero scalar) is serialised by dcrd as all-zero
     coordinates: [compress]/[serialize_uncompressed] of Secp256k1.v do the same. *)
From Coq Require Import Ascii String ZArith List Bool Lia.
From Verif Require Import Bytes SHA256 Secp256k1 H2C Group BDHKE DLEQ.
Import ListNotations.
Open Scope Z_scope.

Definition secp_ops : group_ops := {|
  carrier := point;
  gq    := secp_n;
  gzero := None;
  gG    := secp_G;
  gadd  := pt_add;
  gneg  := pt_neg;
  smul  := pt_mul;
  geqb  := pt_eqb
|}.

(* ---------- byte level ---------- *)

(* secp256k1.PrivKeyFromBytes(b).Key as an integer *)
Definition scalar_of_bytes (b : list Z) : Z := be_to_Z (firstn 32 b) mod secp_n.

(* PrivateKey.Serialize() *)
Definition scalar_bytes (k : Z) : list Z := be_bytes 32 k.

(* secp256k1.ParsePubKey; None = error (the point at infinity is never returned) *)
Definition parse_pubkey (bs : list Z) : option (Z * Z) :=
  match bs with
  | [] => None
  | format :: rest =>
      if (length bs =? 65)%nat then
        if (format =? 4) || (format =? 6) || (format =? 7) then
          let x := be_to_Z (firstn 32 rest) in
          let y := be_to_Z (skipn 32 rest) in
          if secp_p <=? x then None                                   (* ErrPubKeyXTooBig *)
          else if secp_p <=? y then None                              (* ErrPubKeyYTooBig *)
          else if ((format =? 6) || (format =? 7)) && negb (Bool.eqb (Z.odd y) (format =? 7))
               then None                                              (* ErrPubKeyMismatchedOddness *)
          else if on_curve (Some (x, y)) then Some (x, y) else None   (* ErrPubKeyNotOnCurve *)
        else None                                                     (* ErrPubKeyInvalidFormat *)
      else if (length bs =? 33)%nat then decompress bs
      else None                                                       (* ErrPubKeyInvalidLen *)
  end.

(* crypto.HashE: keys += hex.EncodeToString(pk.SerializeUncompressed()); sha256.Sum256([]byte(keys)) *)
Definition hash_e_bytes (pks : list point) : list Z :=
  sha256 (flat_map (fun P => hex_encode (serialize_uncompressed P)) pks).

(* the hash of the four points of a DLEQ transcript, as the integer its 32 bytes denote *)
Definition secp_hashE (R1 R2 A C_ : point) : Z := be_to_Z (hash_e_bytes [R1; R2; A; C_]).

(* ---------- /repo/crypto/bdhke.go ---------- *)

(* BlindMessage(secret, r): None = the error of HashToCurve *)
Definition go_blind_message (secret : list Z) (r : Z) : option point :=
  match hash_to_curve secret with
  | Some Y => Some (blind secp_ops (Some Y) r)
  | None => None
  end.

(* SignBlindedMessage(B_, k) *)
Definition go_sign (B_ : point) (k : Z) : point := sign secp_ops k B_.

(* UnblindSignature(C_, r, K) *)
Definition go_unblind (C_ : point) (r : Z) (K : point) : point := unblind secp_ops C_ r K.

(* Verify(secret, k, C) *)
Definition go_verify (secret : list Z) (k : Z) (C : point) : bool :=
  match hash_to_curve secret with
  | Some Y => verify secp_ops k (Some Y) C
  | None => false
  end.

(* GenerateDLEQ(a, B_, C_) with its internal random r made explicit: (e, s) *)
Definition go_generate_dleq (a : Z) (B_ C_ : point) (nonce : Z) : Z * Z :=
  dleq_gen secp_ops secp_hashE a B_ C_ nonce.

(* VerifyDLEQ(e, s, A, B_, C_): reflect.DeepEqual(e.Serialize(), hash[:]) is equality of the two
   32-byte strings, i.e. of the integers they denote *)
Definition go_verify_dleq (e s : Z) (A B_ C_ : point) : bool :=
  dleq_verify secp_ops secp_hashE e s A B_ C_.

(* ---------- /repo/cashu/nuts/nut12/nut12.go ---------- *)

(* ParseDLEQ on the three strings of a cashu.DLEQProof; None = error;
   the third component is None when R is the empty string *)
Definition parse_dleq (Es Ss Rs : list Z) : option (Z * Z * option Z) :=
  match hex_decode Es with
  | None => None
  | Some ebytes =>
      match hex_decode Ss with
      | None => None
      | Some sbytes =>
          match Rs with
          | [] => Some (scalar_of_bytes ebytes, scalar_of_bytes sbytes, None)
          | _ =>
              match hex_decode Rs with
              | None => None
              | Some rbytes =>
                  Some (scalar_of_bytes ebytes, scalar_of_bytes sbytes, Some (scalar_of_bytes rbytes))
              end
          end
      end
  end.

Inductive verdict : Type := VTrue | VFalse | VPanic.
Definition verdict_of (b : bool) : verdict := if b then VTrue else VFalse.

(* VerifyProofDLEQ(proof, A).  [dleq] = None is proof.DLEQ == nil: the function dereferences it
   unconditionally (nil-pointer panic); its caller VerifyProofsDLEQ checks for nil first. *)
Definition nut12_verify_proof_dleq (dleq : option (list Z * list Z * list Z))
    (secret Cstr : list Z) (A : point) : verdict :=
  match dleq with
  | None => VPanic
  | Some (Es, Ss, Rs) =>
      match parse_dleq Es Ss Rs with
      | Some (e, s, Some r) =>
          match hash_to_curve secret with             (* crypto.BlindMessage(proof.Secret, r) *)
          | None => VFalse
          | Some Y =>
              match hex_decode Cstr with
              | None => VFalse
              | Some CBytes =>
                  match parse_pubkey CBytes with
                  | None => VFalse
                  | Some C =>
                      verdict_of (dleq_verify_proof secp_ops secp_hashE e s r A (Some Y) (Some C))
                  end
              end
          end
      | _ => VFalse                                   (* err != nil || r == nil *)
      end
  end.

(* VerifyBlindSignatureDLEQ(dleq, A, B_str, C_str) *)
Definition nut12_verify_blind_signature_dleq (Es Ss Rs : list Z) (A : point)
    (B_str C_str : list Z) : bool :=
  match parse_dleq Es Ss Rs with
  | None => false
  | Some (e, s, _) =>
      match hex_decode B_str with
      | None => false
      | Some B_bytes =>
          match parse_pubkey B_bytes with
          | None => false
          | Some B_ =>
              match hex_decode C_str with
              | None => false
              | Some C_bytes =>
                  match parse_pubkey C_bytes with
                  | None => false
                  | Some C_ => go_verify_dleq e s A (Some B_) (Some C_)
                  end
              end
          end
      end
  end.

(* ---------- what the C10 theorems say about these functions ---------- *)

(* Generic: if the laws hold relative to a validity predicate ([group_laws_on]), the theorems
   of BDHKE.v / DLEQ.v, proved for the subset type, hold for the RAW operations on valid
   elements.  (The projections compute: [sub_val] of a [Sub_ops] operation is the raw one.) *)
Section Transfer.
  Variable g : group_ops.
  Variable valid : carrier g -> bool.
  Hypothesis V : group_laws_on g valid.
  Variable HashE : carrier g -> carrier g -> carrier g -> carrier g -> Z.

  Let SG := Sub_ops g valid V.
  Let SL : group_laws SG := Sub_laws g valid V.
  Let HashS (a b c d : carrier SG) : Z :=
    HashE (sub_val g valid a) (sub_val g valid b) (sub_val g valid c) (sub_val g valid d).
  Let inj (Y : carrier g) (HY : valid Y = true) : carrier SG := exist _ Y HY.

  Theorem on_unblind_sign_blind : forall k r Y, valid Y = true ->
    unblind g (sign g k (blind g Y r)) r (BDHKE.pubkey g k) = smul g k Y.
  Proof.
    intros k r Y HY.
    exact (f_equal (sub_val g valid) (unblind_sign_blind SG SL k r (inj Y HY))).
  Qed.

  Theorem on_verify_unblinded : forall k r Y, valid Y = true ->
    verify g k Y (unblind g (sign g k (blind g Y r)) r (BDHKE.pubkey g k)) = true.
  Proof.
    intros k r Y HY. exact (verify_unblinded SG SL k r (inj Y HY)).
  Qed.

  Theorem on_unblind_indep_of_r : forall k Y r r', valid Y = true ->
    unblind g (sign g k (blind g Y r)) r (BDHKE.pubkey g k) =
    unblind g (sign g k (blind g Y r')) r' (BDHKE.pubkey g k).
  Proof.
    intros k Y r r' HY.
    exact (f_equal (sub_val g valid) (unblind_indep_of_r SG SL k (inj Y HY) r r')).
  Qed.

  Theorem on_verify_wrong_key : forall k k' Y, valid Y = true ->
    k mod gq g <> k' mod gq g -> Y <> gzero g -> verify g k' Y (smul g k Y) = false.
  Proof.
    intros k k' Y HY Hk HY0.
    refine (verify_wrong_key SG SL k k' (inj Y HY) Hk _).
    intros E. apply HY0. exact (f_equal (sub_val g valid) E).
  Qed.

  Theorem on_dleq_complete : forall a B_ nonce e s, valid B_ = true ->
    0 <= HashE (smul g nonce (gG g)) (smul g nonce B_) (BDHKE.pubkey g a) (sign g a B_) < gq g ->
    dleq_gen g HashE a B_ (sign g a B_) nonce = (e, s) ->
    dleq_verify g HashE e s (BDHKE.pubkey g a) B_ (sign g a B_) = true.
  Proof.
    intros a B_ nonce e s HB Hr Hgen.
    exact (dleq_complete SG SL HashS a (inj B_ HB) nonce e s Hr Hgen).
  Qed.

  Theorem on_dleq_proof_on_token_eq : forall e s r A Y C_,
    valid A = true -> valid Y = true -> valid C_ = true ->
    dleq_verify_proof g HashE e s r A Y (unblind g C_ r A) =
    dleq_verify g HashE e s A (blind g Y r) C_.
  Proof.
    intros e s r A Y C_ HA HY HC.
    exact (dleq_proof_on_token_eq SG SL HashS e s r (inj A HA) (inj Y HY) (inj C_ HC)).
  Qed.

  Theorem on_dleq_mint_to_third_party : forall a Y r nonce e s, valid Y = true ->
    let B_ := blind g Y r in
    let C_ := sign g a B_ in
    0 <= HashE (smul g nonce (gG g)) (smul g nonce B_) (BDHKE.pubkey g a) C_ < gq g ->
    dleq_gen g HashE a B_ C_ nonce = (e, s) ->
    dleq_verify_proof g HashE e s r (BDHKE.pubkey g a) Y (unblind g C_ r (BDHKE.pubkey g a)) = true /\
    verify g a Y (unblind g C_ r (BDHKE.pubkey g a)) = true.
  Proof.
    intros a Y r nonce e s HY B_ C_ Hr Hgen.
    exact (dleq_mint_to_third_party SG SL HashS a (inj Y HY) r nonce e s Hr Hgen).
  Qed.

  (* a signature made with another key than the published one: at most one challenge (mod q)
     can be answered for given commitments *)
  Theorem on_dleq_sound_unique_challenge : forall a c B_ R1 R2 e1 s1 e2 s2,
    valid B_ = true ->
    a mod gq g <> c mod gq g -> B_ <> gzero g ->
    dleq_R1 g e1 s1 (BDHKE.pubkey g a) = R1 -> dleq_R2 g e1 s1 B_ (sign g c B_) = R2 ->
    dleq_R1 g e2 s2 (BDHKE.pubkey g a) = R1 -> dleq_R2 g e2 s2 B_ (sign g c B_) = R2 ->
    e1 mod gq g = e2 mod gq g.
  Proof.
    intros a c B_ R1 R2 e1 s1 e2 s2 HB Hac HB0 H11 H12 H21 H22.
    set (B' := inj B_ HB).
    apply (dleq_sound_unique_challenge SG SL a c B'
             (dleq_R1 SG e1 s1 (BDHKE.pubkey SG a)) (dleq_R2 SG e1 s1 B' (sign SG c B')) e1 s1 e2 s2 Hac).
    - intros E. apply HB0. exact (f_equal (sub_val g valid) E).
    - reflexivity.
    - reflexivity.
    - apply (sub_ext g valid).
      change (dleq_R1 g e2 s2 (BDHKE.pubkey g a) = dleq_R1 g e1 s1 (BDHKE.pubkey g a)).
      rewrite H21, <- H11. reflexivity.
    - apply (sub_ext g valid).
      change (dleq_R2 g e2 s2 B_ (sign g c B_) = dleq_R2 g e1 s1 B_ (sign g c B_)).
      rewrite H22, <- H12. reflexivity.
  Qed.
End Transfer.

(* The secp256k1 instances: everything the wallet and the mint execute, on points that satisfy
   the curve equation, PROVIDED secp256k1 satisfies the laws there (trusted, see header). *)
Definition secp_laws : Prop := group_laws_on secp_ops on_curve.

Theorem secp_unblind_sign_blind : secp_laws -> forall k r Y, on_curve Y = true ->
  go_unblind (go_sign (blind secp_ops Y r) k) r (pt_mul k secp_G) = pt_mul k Y.
Proof. intros V k r Y HY. exact (on_unblind_sign_blind secp_ops on_curve V k r Y HY). Qed.

Theorem secp_verify_unblinded : secp_laws -> forall k r Y, on_curve Y = true ->
  verify secp_ops k Y (go_unblind (go_sign (blind secp_ops Y r) k) r (pt_mul k secp_G)) = true.
Proof. intros V k r Y HY. exact (on_verify_unblinded secp_ops on_curve V k r Y HY). Qed.

Theorem secp_dleq_complete : secp_laws -> forall a B_ nonce e s, on_curve B_ = true ->
  0 <= secp_hashE (pt_mul nonce secp_G) (pt_mul nonce B_) (pt_mul a secp_G) (go_sign B_ a) < secp_n ->
  go_generate_dleq a B_ (go_sign B_ a) nonce = (e, s) ->
  go_verify_dleq e s (pt_mul a secp_G) B_ (go_sign B_ a) = true.
Proof.
  intros V a B_ nonce e s HB Hr Hgen.
  exact (on_dleq_complete secp_ops on_curve V secp_hashE a B_ nonce e s HB Hr Hgen).
Qed.

(* ---------- vectors (no full-size scalar multiplication: about 40 s each in the VM) ---------- *)

(* /repo/crypto/bdhke_test.go TestBlindMessage, first vector: secret "test_message" (the bytes
   of the text), r = 1: B_ = hash_to_curve(secret) + G *)
Example blind_message_vector :
  option_map compress (go_blind_message (str "test_message") 1)
  = Some (hexs "025cc16fe33b953e2ace39653efb3e7a7049711ae1d8a2f7a9108753f1cdea742b").
Proof. vm_check. Qed.

Example scalar_of_bytes_examples :
  scalar_of_bytes [] = 0 /\
  scalar_of_bytes [1; 0] = 256 /\
  scalar_of_bytes (be_bytes 32 (secp_n + 5)) = 5 /\
  scalar_of_bytes (be_bytes 32 7 ++ [255; 255]) = 7.
Proof. vm_compute. repeat split; reflexivity. Qed.

(* ParsePubKey: compressed, uncompressed, hybrid with the right and the wrong parity *)
Example parse_pubkey_forms :
  parse_pubkey (compress secp_G) = Some (secp_Gx, secp_Gy) /\
  parse_pubkey (serialize_uncompressed secp_G) = Some (secp_Gx, secp_Gy) /\
  parse_pubkey (6 :: be_bytes 32 secp_Gx ++ be_bytes 32 secp_Gy) = Some (secp_Gx, secp_Gy) /\
  parse_pubkey (7 :: be_bytes 32 secp_Gx ++ be_bytes 32 secp_Gy) = None /\
  parse_pubkey (4 :: be_bytes 32 secp_Gx ++ be_bytes 32 (secp_Gy + 1)) = None /\
  parse_pubkey (5 :: be_bytes 32 secp_Gx) = None /\
  parse_pubkey (serialize_uncompressed None) = None /\
  parse_pubkey [] = None.
Proof. vm_compute. repeat split; reflexivity. Qed.
