(* Abstract prime-order groups for the algebraic layer (C10; also used by C04/C11).

   [group_ops]  : the operations (carrier, +, -, 0, generator, scalar multiplication by Z,
                  boolean equality, and the order q as a Z).
   [group_laws] : what the proofs may use.  Abelian group, Z-module action of [smul] that
                  factors through Z/q, q prime, every non-zero element has exact order q,
                  G <> 0 generates.  Theorems elsewhere have the shape
                      forall g : group_ops, group_laws g -> ...
   [Zq_ops p], [Zq_laws] : the additive group Z/q (q = Zpos p) satisfies the laws when q is
                  prime, so the laws are consistent; [Z101] is a closed instance
                  ([prime_101]) used for non-vacuity examples by [vm_compute].

   The secp256k1 instance (executed against the Go code elsewhere) is NOT proved to satisfy
   [group_laws]; that is classical mathematics and is listed in the trusted base.  Note that
   the laws quantify over the whole carrier, so for a carrier of raw coordinate pairs they
   can only hold for the subset type of on-curve points; [Sub_ops]/[Sub_laws] below turn laws
   that hold relative to a validity predicate into [group_laws] on that subset type, so the
   theorems apply to "all valid points" of such an instance.

   Stdlib only, no axioms. *)
From Coq Require Import ZArith Znumtheory Lia Bool Eqdep_dec.
Open Scope Z_scope.

Record group_ops : Type := Build_group_ops {
  carrier : Type;
  gq    : Z;                                  (* the group order *)
  gzero : carrier;                            (* neutral element / point at infinity *)
  gG    : carrier;                            (* generator *)
  gadd  : carrier -> carrier -> carrier;
  gneg  : carrier -> carrier;
  smul  : Z -> carrier -> carrier;            (* scalar multiplication, any integer scalar *)
  geqb  : carrier -> carrier -> bool
}.

Record group_laws (g : group_ops) : Prop := Build_group_laws {
  gl_prime      : prime (gq g);
  (* abelian group *)
  gl_add_assoc  : forall a b c, gadd g a (gadd g b c) = gadd g (gadd g a b) c;
  gl_add_comm   : forall a b, gadd g a b = gadd g b a;
  gl_add_0_r    : forall a, gadd g a (gzero g) = a;
  gl_add_neg_r  : forall a, gadd g a (gneg g a) = gzero g;
  (* Z-module action factoring through Z/q *)
  gl_smul_add_l : forall a b P, smul g (a + b) P = gadd g (smul g a P) (smul g b P);
  gl_smul_add_r : forall a P Q, smul g a (gadd g P Q) = gadd g (smul g a P) (smul g a Q);
  gl_smul_mul   : forall a b P, smul g (a * b) P = smul g a (smul g b P);
  gl_smul_1     : forall P, smul g 1 P = P;
  gl_smul_q     : forall P, smul g (gq g) P = gzero g;
  gl_smul_mod   : forall a P, smul g a P = smul g (a mod gq g) P;
  (* prime order: a non-zero element has exact order q *)
  gl_order      : forall a b P, P <> gzero g -> smul g a P = smul g b P ->
                                a mod gq g = b mod gq g;
  (* G is a generator *)
  gl_G_nonzero  : gG g <> gzero g;
  gl_cyclic     : forall P, exists a, P = smul g a (gG g);
  (* boolean equality decides Leibniz equality *)
  gl_eqb        : forall a b, geqb g a b = true <-> a = b
}.

Definition gsub (g : group_ops) (P Q : carrier g) : carrier g := gadd g P (gneg g Q).

(* ------------------------------------------------------------------------------------- *)
(* Consequences of the laws                                                              *)
(* ------------------------------------------------------------------------------------- *)
Section Derived.
  Variable g : group_ops.
  Hypothesis L : group_laws g.

  Local Notation q := (gq g).
  Local Notation "0'" := (gzero g).
  Local Notation "P +' Q" := (gadd g P Q) (at level 50, left associativity).
  Local Notation "-' P" := (gneg g P) (at level 35, right associativity).
  Local Notation "a *' P" := (smul g a P) (at level 40, left associativity).

  Lemma gq_prime : prime q.                     Proof. exact (gl_prime g L). Qed.
  Lemma gq_gt_1 : 1 < q.                        Proof. destruct gq_prime as [H _]; exact H. Qed.
  Lemma gq_pos : 0 < q.                         Proof. pose proof gq_gt_1; lia. Qed.
  Lemma gq_neq_0 : q <> 0.                      Proof. pose proof gq_gt_1; lia. Qed.

  Lemma gadd_assoc a b c : a +' (b +' c) = a +' b +' c.  Proof. apply (gl_add_assoc g L). Qed.
  Lemma gadd_comm a b : a +' b = b +' a.                 Proof. apply (gl_add_comm g L). Qed.
  Lemma gadd_0_r a : a +' 0' = a.                        Proof. apply (gl_add_0_r g L). Qed.
  Lemma gadd_0_l a : 0' +' a = a.               Proof. rewrite gadd_comm; apply gadd_0_r. Qed.
  Lemma gadd_neg_r a : a +' -' a = 0'.                   Proof. apply (gl_add_neg_r g L). Qed.
  Lemma gadd_neg_l a : -' a +' a = 0'.          Proof. rewrite gadd_comm; apply gadd_neg_r. Qed.

  Lemma gadd_cancel_l a b c : a +' b = a +' c -> b = c.
  Proof.
    intros H.
    rewrite <- (gadd_0_l b), <- (gadd_0_l c), <- (gadd_neg_l a), <- !gadd_assoc, H.
    reflexivity.
  Qed.

  Lemma gadd_cancel_r a b c : b +' a = c +' a -> b = c.
  Proof. rewrite !(gadd_comm _ a); apply gadd_cancel_l. Qed.

  Lemma gneg_unique a b : a +' b = 0' -> b = -' a.
  Proof. intros H; apply (gadd_cancel_l a); rewrite H, gadd_neg_r; reflexivity. Qed.

  Lemma gneg_zero : -' 0' = 0'.
  Proof. symmetry; apply gneg_unique, gadd_0_l. Qed.

  Lemma gneg_neg a : -' -' a = a.
  Proof. symmetry; apply gneg_unique, gadd_neg_l. Qed.

  Lemma gneg_add a b : -' (a +' b) = -' a +' -' b.
  Proof.
    symmetry; apply gneg_unique.
    rewrite (gadd_comm (-' a)), gadd_assoc, <- (gadd_assoc a b), gadd_neg_r, gadd_0_r.
    apply gadd_neg_r.
  Qed.

  Lemma gadd_sub_cancel a b : a +' b +' -' b = a.
  Proof. rewrite <- gadd_assoc, gadd_neg_r; apply gadd_0_r. Qed.

  Lemma gsub_add_cancel a b : a +' -' b +' b = a.
  Proof. rewrite <- gadd_assoc, gadd_neg_l; apply gadd_0_r. Qed.

  Lemma gsub_eq_zero a b : a +' -' b = 0' <-> a = b.
  Proof.
    split; intros H.
    - apply (gadd_cancel_r (-' b)); rewrite H, gadd_neg_r; reflexivity.
    - subst; apply gadd_neg_r.
  Qed.

  (* interchange: (a+b)+(c+d) = (a+c)+(b+d) *)
  Lemma gadd_swap4 a b c d : (a +' b) +' (c +' d) = (a +' c) +' (b +' d).
  Proof.
    rewrite <- !gadd_assoc; f_equal.
    rewrite !gadd_assoc, (gadd_comm b c); reflexivity.
  Qed.

  (* scalar multiplication *)
  Lemma smul_add_l a b P : (a + b) *' P = a *' P +' b *' P.   Proof. apply (gl_smul_add_l g L). Qed.
  Lemma smul_add_r a P Q : a *' (P +' Q) = a *' P +' a *' Q.  Proof. apply (gl_smul_add_r g L). Qed.
  Lemma smul_mul a b P : (a * b) *' P = a *' (b *' P).        Proof. apply (gl_smul_mul g L). Qed.
  Lemma smul_1_l P : 1 *' P = P.                              Proof. apply (gl_smul_1 g L). Qed.
  Lemma smul_q P : q *' P = 0'.                               Proof. apply (gl_smul_q g L). Qed.
  Lemma smul_mod a P : a *' P = (a mod q) *' P.               Proof. apply (gl_smul_mod g L). Qed.

  Lemma smul_congr a b P : a mod q = b mod q -> a *' P = b *' P.
  Proof. intros H; rewrite (smul_mod a), (smul_mod b), H; reflexivity. Qed.

  Lemma smul_0_l P : 0 *' P = 0'.
  Proof.
    rewrite <- (smul_q P). apply smul_congr.
    rewrite Z_mod_same_full, Z.mod_0_l by apply gq_neq_0; reflexivity.
  Qed.

  Lemma smul_0_r a : a *' 0' = 0'.
  Proof.
    apply (gadd_cancel_l (a *' 0')).
    rewrite <- smul_add_r, !gadd_0_r; reflexivity.
  Qed.

  Lemma smul_opp_l a P : (- a) *' P = -' (a *' P).
  Proof.
    apply gneg_unique. rewrite <- smul_add_l.
    replace (a + - a) with 0 by ring. apply smul_0_l.
  Qed.

  Lemma smul_neg_r a P : a *' (-' P) = -' (a *' P).
  Proof.
    apply gneg_unique. rewrite <- smul_add_r, gadd_neg_r. apply smul_0_r.
  Qed.

  Lemma smul_sub_l a b P : (a - b) *' P = a *' P +' -' (b *' P).
  Proof. unfold Z.sub; rewrite smul_add_l, smul_opp_l; reflexivity. Qed.

  Lemma smul_comm a b P : a *' (b *' P) = b *' (a *' P).
  Proof. rewrite <- !smul_mul, Z.mul_comm; reflexivity. Qed.

  (* a.P = b.P for P <> 0 exactly when a = b mod q *)
  Lemma smul_inj_scalar a b P : P <> 0' -> a *' P = b *' P -> a mod q = b mod q.
  Proof. apply (gl_order g L). Qed.

  Lemma smul_eq_scalar_iff a b P : P <> 0' -> (a *' P = b *' P <-> a mod q = b mod q).
  Proof. intros HP; split; [apply smul_inj_scalar; exact HP | apply smul_congr]. Qed.

  Lemma smul_neq_scalar a b P : P <> 0' -> a mod q <> b mod q -> a *' P <> b *' P.
  Proof. intros HP Hab H; apply Hab, (smul_inj_scalar a b P HP H). Qed.

  Lemma smul_eq_zero a P : a *' P = 0' -> a mod q = 0 \/ P = 0'.
  Proof.
    intros H.
    destruct (geqb g P 0') eqn:E.
    - right; apply (gl_eqb g L); exact E.
    - left. rewrite <- (Z.mod_0_l q gq_neq_0).
      apply (smul_inj_scalar a 0 P).
      + intros HP; apply (gl_eqb g L) in HP; congruence.
      + rewrite smul_0_l; exact H.
  Qed.

  Lemma smul_nonzero a P : a mod q <> 0 -> P <> 0' -> a *' P <> 0'.
  Proof. intros Ha HP H; destruct (smul_eq_zero a P H); contradiction. Qed.

  (* k. is injective on points when k <> 0 mod q *)
  Lemma smul_inj_point k P Q : k mod q <> 0 -> k *' P = k *' Q -> P = Q.
  Proof.
    intros Hk H.
    apply gsub_eq_zero.
    assert (H0 : k *' (P +' -' Q) = 0').
    { rewrite smul_add_r, smul_neg_r, H; apply gadd_neg_r. }
    destruct (smul_eq_zero _ _ H0) as [Hk0 | HPQ]; [contradiction | exact HPQ].
  Qed.

  Lemma geqb_eq a b : geqb g a b = true <-> a = b.
  Proof. apply (gl_eqb g L). Qed.

  Lemma geqb_refl a : geqb g a a = true.
  Proof. apply geqb_eq; reflexivity. Qed.

  Lemma geqb_neq a b : geqb g a b = false <-> a <> b.
  Proof.
    split.
    - intros E H; apply geqb_eq in H; congruence.
    - intros H; destruct (geqb g a b) eqn:E; [apply geqb_eq in E; contradiction | reflexivity].
  Qed.

  Lemma g_eq_dec (a b : carrier g) : {a = b} + {a <> b}.
  Proof.
    destruct (geqb g a b) eqn:E; [left; apply geqb_eq | right; apply geqb_neq]; exact E.
  Qed.

  Lemma gG_nonzero : gG g <> 0'.  Proof. apply (gl_G_nonzero g L). Qed.

  Lemma g_cyclic P : exists a, P = a *' gG g.  Proof. apply (gl_cyclic g L). Qed.

  (* modular facts about q that the protocol proofs need *)
  Lemma q_divides_mod a : a mod q = 0 <-> (q | a).
  Proof. apply Z.mod_divide, gq_neq_0. Qed.

  Lemma mod_eq_sub a b : a mod q = b mod q <-> (a - b) mod q = 0.
  Proof.
    pose proof gq_neq_0 as Hq. split; intros H.
    - rewrite Zminus_mod, H, Z.sub_diag; apply Z.mod_0_l; exact Hq.
    - apply q_divides_mod in H. destruct H as [c Hc].
      replace a with (b + c * q) by lia. apply Z_mod_plus_full.
  Qed.

  (* q prime: a*b = 0 mod q -> a = 0 or b = 0 mod q *)
  Lemma mod_mul_zero a b : (a * b) mod q = 0 -> a mod q = 0 \/ b mod q = 0.
  Proof.
    intros H. apply q_divides_mod in H.
    destruct (prime_mult q gq_prime a b H) as [Ha | Hb]; [left | right];
      apply q_divides_mod; assumption.
  Qed.

  (* every scalar that is non-zero mod q has an inverse mod q *)
  Lemma mod_inverse a : a mod q <> 0 -> exists b, (b * a) mod q = 1 mod q.
  Proof.
    intros Ha.
    assert (Hrp : rel_prime a q).
    { apply rel_prime_sym, prime_rel_prime; [exact gq_prime |].
      intros Hd; apply Ha, q_divides_mod; exact Hd. }
    destruct (rel_prime_bezout _ _ Hrp) as [u v Huv].
    exists u. rewrite <- Huv. symmetry; apply Z_mod_plus_full.
  Qed.

  (* in a cyclic group of prime order any non-zero B generates: C = c.B for some c *)
  Lemma g_cyclic_any B C : B <> 0' -> exists c, C = c *' B.
  Proof.
    intros HB.
    destruct (g_cyclic B) as [b Hb]. destruct (g_cyclic C) as [c Hc].
    assert (Hb0 : b mod q <> 0).
    { intros Hb0. apply HB. rewrite Hb, (smul_mod b), Hb0. apply smul_0_l. }
    destruct (mod_inverse b Hb0) as [bi Hbi].
    exists (c * bi). rewrite Hb at 1. rewrite <- smul_mul, Hc.
    apply smul_congr.
    symmetry. rewrite <- Z.mul_assoc.
    rewrite <- (Z.mul_mod_idemp_r c (bi * b)), Hbi by apply gq_neq_0.
    rewrite Z.mul_mod_idemp_r by apply gq_neq_0.
    rewrite Z.mul_1_r; reflexivity.
  Qed.
End Derived.

(* ------------------------------------------------------------------------------------- *)
(* The additive group Z/q, q = Zpos p                                                     *)
(* ------------------------------------------------------------------------------------- *)
Section Zq.
  Variable p : positive.
  Local Notation q := (Zpos p).

  Definition zq_inr (x : Z) : bool := (0 <=? x) && (x <? q).

  (* carrier: integers in [0,q) *)
  Definition Zq : Type := { x : Z | zq_inr x = true }.
  Definition zq_val (a : Zq) : Z := proj1_sig a.

  Lemma zq_inr_iff x : zq_inr x = true <-> 0 <= x < q.
  Proof. unfold zq_inr; rewrite andb_true_iff, Z.leb_le, Z.ltb_lt; tauto. Qed.

  Lemma zq_inr_mod x : zq_inr (x mod q) = true.
  Proof. apply zq_inr_iff, Z.mod_pos_bound; reflexivity. Qed.

  Definition zq_zero : Zq := exist _ 0 (eq_refl : zq_inr 0 = true).

  (* The membership proof is produced by computation ([eq_refl] once [b] is known), so closed
     elements normalise to [exist _ v eq_refl] and can be compared by [vm_compute]. *)
  Definition zq_mk (v : Z) (b : bool) : zq_inr v = b -> Zq :=
    match b with
    | true => fun H => exist _ v H
    | false => fun _ => zq_zero
    end.

  Definition zq_of (x : Z) : Zq := zq_mk (x mod q) (zq_inr (x mod q)) eq_refl.

  Lemma zq_mk_val v b H : b = true -> zq_val (zq_mk v b H) = v.
  Proof. destruct b; [reflexivity | discriminate]. Qed.

  Lemma zq_val_of x : zq_val (zq_of x) = x mod q.
  Proof. unfold zq_of; apply zq_mk_val, zq_inr_mod. Qed.

  Lemma zq_val_range a : 0 <= zq_val a < q.
  Proof. destruct a as [x Hx]; apply zq_inr_iff; exact Hx. Qed.

  Lemma zq_val_mod a : zq_val a mod q = zq_val a.
  Proof. apply Z.mod_small, zq_val_range. Qed.

  Lemma zq_ext a b : zq_val a = zq_val b -> a = b.
  Proof.
    destruct a as [x Hx], b as [y Hy]; cbn [zq_val proj1_sig]; intros E; subst y.
    f_equal. apply UIP_dec, bool_dec.
  Qed.

  Lemma zq_of_val a : zq_of (zq_val a) = a.
  Proof. apply zq_ext; rewrite zq_val_of; apply zq_val_mod. Qed.

  Definition Zq_ops : group_ops := {|
    carrier := Zq;
    gq    := q;
    gzero := zq_of 0;
    gG    := zq_of 1;
    gadd  := fun a b => zq_of (zq_val a + zq_val b);
    gneg  := fun a => zq_of (- zq_val a);
    smul  := fun k a => zq_of (k * zq_val a);
    geqb  := fun a b => zq_val a =? zq_val b
  |}.

  Hypothesis Hprime : prime q.

  Lemma zq_q_gt_1 : 1 < q.
  Proof. destruct Hprime as [H _]; exact H. Qed.

  Lemma zq_val_zero : zq_val (zq_of 0) = 0.
  Proof. rewrite zq_val_of; apply Z.mod_0_l; discriminate. Qed.

  Lemma zq_val_one : zq_val (zq_of 1) = 1.
  Proof. rewrite zq_val_of; apply Z.mod_1_l, zq_q_gt_1. Qed.

  Lemma zq_neq_zero a : a <> zq_of 0 -> ~ (q | zq_val a).
  Proof.
    intros Ha Hd. apply Ha, zq_ext. rewrite zq_val_zero.
    apply Z.mod_divide in Hd; [| discriminate]. rewrite zq_val_mod in Hd; exact Hd.
  Qed.

  Theorem Zq_laws : group_laws Zq_ops.
  Proof.
    assert (Hq0 : q <> 0) by discriminate.
    constructor; cbn [carrier gq gzero gG gadd gneg smul geqb Zq_ops].
    - exact Hprime.
    - intros a b c; apply zq_ext; rewrite !zq_val_of.
      rewrite Z.add_mod_idemp_r, Z.add_mod_idemp_l by exact Hq0.
      f_equal; ring.
    - intros a b; apply zq_ext; rewrite !zq_val_of; f_equal; ring.
    - intros a; apply zq_ext; rewrite zq_val_of, zq_val_zero, Z.add_0_r; apply zq_val_mod.
    - intros a; apply zq_ext; rewrite !zq_val_of.
      rewrite Z.add_mod_idemp_r by exact Hq0.
      rewrite Z.add_opp_diag_r; reflexivity.
    - intros a b P; apply zq_ext; rewrite !zq_val_of.
      rewrite <- Z.add_mod by exact Hq0. f_equal; ring.
    - intros a P Q; apply zq_ext; rewrite !zq_val_of.
      rewrite <- Z.add_mod, Z.mul_mod_idemp_r by exact Hq0. f_equal; ring.
    - intros a b P; apply zq_ext; rewrite !zq_val_of.
      rewrite Z.mul_mod_idemp_r by exact Hq0. f_equal; ring.
    - intros P; apply zq_ext; rewrite zq_val_of, Z.mul_1_l; apply zq_val_mod.
    - intros P; apply zq_ext; rewrite !zq_val_of.
      rewrite Z.mod_0_l by exact Hq0. apply Z.mod_divide; [exact Hq0 |].
      exists (zq_val P); ring.
    - intros a P; apply zq_ext; rewrite !zq_val_of.
      rewrite Z.mul_mod_idemp_l by exact Hq0; reflexivity.
    - intros a b P HP H.
      apply (f_equal zq_val) in H; rewrite !zq_val_of in H.
      assert (Hd : (q | (a - b) * zq_val P)).
      { apply Z.mod_divide; [exact Hq0 |].
        rewrite Z.mul_sub_distr_r, Zminus_mod, H, Z.sub_diag; apply Z.mod_0_l; exact Hq0. }
      destruct (prime_mult q Hprime _ _ Hd) as [Hab | HPd].
      + destruct Hab as [c Hc]. replace a with (b + c * q) by lia. apply Z_mod_plus_full.
      + exfalso; exact (zq_neq_zero P HP HPd).
    - intros H; apply (f_equal zq_val) in H; rewrite zq_val_one, zq_val_zero in H; discriminate.
    - intros P; exists (zq_val P); apply zq_ext.
      rewrite zq_val_of, zq_val_one, Z.mul_1_r, zq_val_mod; reflexivity.
    - intros a b; rewrite Z.eqb_eq; split; [apply zq_ext | intros ->; reflexivity].
  Qed.
End Zq.

(* ------------------------------------------------------------------------------------- *)
(* Primality by computation, and a closed instance                                       *)
(* ------------------------------------------------------------------------------------- *)

(* no d in [d0, d0+fuel) divides n *)
Fixpoint no_divisor (n : Z) (fuel : nat) (d : Z) : bool :=
  match fuel with
  | O => true
  | S f => negb (n mod d =? 0) && no_divisor n f (d + 1)
  end.

Lemma no_divisor_spec n fuel : forall d,
  no_divisor n fuel d = true ->
  forall x, d <= x < d + Z.of_nat fuel -> n mod x <> 0.
Proof.
  induction fuel as [| f IH]; intros d H x Hx.
  - cbn [Z.of_nat] in Hx; lia.
  - cbn [no_divisor] in H. apply andb_true_iff in H. destruct H as [H1 H2].
    destruct (Z.eq_dec x d) as [-> | Hne].
    + apply negb_true_iff, Z.eqb_neq in H1; exact H1.
    + apply (IH (d + 1) H2). lia.
Qed.

Definition prime_check (n : Z) : bool := (1 <? n) && no_divisor n (Z.to_nat (n - 2)) 2.

Lemma prime_check_sound n : prime_check n = true -> prime n.
Proof.
  unfold prime_check; intros H. apply andb_true_iff in H. destruct H as [H1 H2].
  apply Z.ltb_lt in H1.
  apply prime_alt. split; [exact H1 |].
  intros x Hx Hd.
  apply (no_divisor_spec n _ 2 H2 x); [lia |].
  apply Z.mod_divide; [lia | exact Hd].
Qed.

Lemma prime_101 : prime 101.
Proof. apply prime_check_sound; vm_compute; reflexivity. Qed.

Definition Z101 : group_ops := Zq_ops 101.

Theorem Z101_laws : group_laws Z101.
Proof. exact (Zq_laws 101 prime_101). Qed.

(* the laws are satisfiable *)
Theorem group_laws_satisfiable : exists g : group_ops, group_laws g.
Proof. exists Z101; exact Z101_laws. Qed.

(* ------------------------------------------------------------------------------------- *)
(* From laws relative to a validity predicate to [group_laws] on the subset type          *)
(* ------------------------------------------------------------------------------------- *)
(* For instances whose carrier contains junk (e.g. coordinate pairs that are not on the
   curve) the laws can hold only on the valid elements.  [group_laws_on g valid] states the
   laws relative to a boolean validity predicate that the operations preserve;
   [Sub_ops g valid ...] is the same group on the subset type, and it satisfies [group_laws]. *)
Record group_laws_on (g : group_ops) (valid : carrier g -> bool) : Prop := Build_group_laws_on {
  glo_prime      : prime (gq g);
  glo_zero_valid : valid (gzero g) = true;
  glo_G_valid    : valid (gG g) = true;
  glo_add_valid  : forall a b, valid a = true -> valid b = true -> valid (gadd g a b) = true;
  glo_neg_valid  : forall a, valid a = true -> valid (gneg g a) = true;
  glo_smul_valid : forall k a, valid a = true -> valid (smul g k a) = true;
  glo_add_assoc  : forall a b c, valid a = true -> valid b = true -> valid c = true ->
                   gadd g a (gadd g b c) = gadd g (gadd g a b) c;
  glo_add_comm   : forall a b, valid a = true -> valid b = true -> gadd g a b = gadd g b a;
  glo_add_0_r    : forall a, valid a = true -> gadd g a (gzero g) = a;
  glo_add_neg_r  : forall a, valid a = true -> gadd g a (gneg g a) = gzero g;
  glo_smul_add_l : forall a b P, valid P = true ->
                   smul g (a + b) P = gadd g (smul g a P) (smul g b P);
  glo_smul_add_r : forall a P Q, valid P = true -> valid Q = true ->
                   smul g a (gadd g P Q) = gadd g (smul g a P) (smul g a Q);
  glo_smul_mul   : forall a b P, valid P = true -> smul g (a * b) P = smul g a (smul g b P);
  glo_smul_1     : forall P, valid P = true -> smul g 1 P = P;
  glo_smul_q     : forall P, valid P = true -> smul g (gq g) P = gzero g;
  glo_smul_mod   : forall a P, valid P = true -> smul g a P = smul g (a mod gq g) P;
  glo_order      : forall a b P, valid P = true -> P <> gzero g -> smul g a P = smul g b P ->
                   a mod gq g = b mod gq g;
  glo_G_nonzero  : gG g <> gzero g;
  glo_cyclic     : forall P, valid P = true -> exists a, P = smul g a (gG g);
  glo_eqb        : forall a b, valid a = true -> valid b = true ->
                   (geqb g a b = true <-> a = b)
}.

Section Sub.
  Variable g : group_ops.
  Variable valid : carrier g -> bool.
  Hypothesis V : group_laws_on g valid.

  Definition Sub : Type := { x : carrier g | valid x = true }.
  Definition sub_val (a : Sub) : carrier g := proj1_sig a.

  Lemma sub_valid (a : Sub) : valid (sub_val a) = true.
  Proof. exact (proj2_sig a). Qed.

  Lemma sub_ext (a b : Sub) : sub_val a = sub_val b -> a = b.
  Proof.
    destruct a as [x Hx], b as [y Hy]; cbn [sub_val proj1_sig]; intros E; subst y.
    f_equal. apply UIP_dec, bool_dec.
  Qed.

  Definition Sub_ops : group_ops := {|
    carrier := Sub;
    gq    := gq g;
    gzero := exist _ (gzero g) (glo_zero_valid g valid V);
    gG    := exist _ (gG g) (glo_G_valid g valid V);
    gadd  := fun a b => exist _ (gadd g (sub_val a) (sub_val b))
                          (glo_add_valid g valid V _ _ (sub_valid a) (sub_valid b));
    gneg  := fun a => exist _ (gneg g (sub_val a)) (glo_neg_valid g valid V _ (sub_valid a));
    smul  := fun k a => exist _ (smul g k (sub_val a))
                          (glo_smul_valid g valid V k _ (sub_valid a));
    geqb  := fun a b => geqb g (sub_val a) (sub_val b)
  |}.

  Theorem Sub_laws : group_laws Sub_ops.
  Proof.
    constructor; cbn [carrier gq gzero gG gadd gneg smul geqb Sub_ops].
    - exact (glo_prime g valid V).
    - intros a b c; apply sub_ext; cbn [sub_val proj1_sig].
      apply (glo_add_assoc g valid V); apply sub_valid.
    - intros a b; apply sub_ext; cbn [sub_val proj1_sig].
      apply (glo_add_comm g valid V); apply sub_valid.
    - intros a; apply sub_ext; cbn [sub_val proj1_sig].
      apply (glo_add_0_r g valid V); apply sub_valid.
    - intros a; apply sub_ext; cbn [sub_val proj1_sig].
      apply (glo_add_neg_r g valid V); apply sub_valid.
    - intros a b P; apply sub_ext; cbn [sub_val proj1_sig].
      apply (glo_smul_add_l g valid V); apply sub_valid.
    - intros a P Q; apply sub_ext; cbn [sub_val proj1_sig].
      apply (glo_smul_add_r g valid V); apply sub_valid.
    - intros a b P; apply sub_ext; cbn [sub_val proj1_sig].
      apply (glo_smul_mul g valid V); apply sub_valid.
    - intros P; apply sub_ext; cbn [sub_val proj1_sig].
      apply (glo_smul_1 g valid V); apply sub_valid.
    - intros P; apply sub_ext; cbn [sub_val proj1_sig].
      apply (glo_smul_q g valid V); apply sub_valid.
    - intros a P; apply sub_ext; cbn [sub_val proj1_sig].
      apply (glo_smul_mod g valid V); apply sub_valid.
    - intros a b P HP H.
      apply (glo_order g valid V a b (sub_val P)); [apply sub_valid | |].
      + intros E; apply HP, sub_ext; exact E.
      + apply (f_equal sub_val) in H; exact H.
    - intros H; apply (f_equal sub_val) in H; exact (glo_G_nonzero g valid V H).
    - intros P. destruct (glo_cyclic g valid V (sub_val P) (sub_valid P)) as [a Ha].
      exists a; apply sub_ext; exact Ha.
    - intros a b. rewrite (glo_eqb g valid V _ _ (sub_valid a) (sub_valid b)).
      split; [apply sub_ext | intros ->; reflexivity].
  Qed.
End Sub.
