(* DLEQ proofs (NUT-12) over an abstract prime-order group, with the hash [HashE] an arbitrary
   function.  Mirrors /repo/crypto/bdhke.go and /repo/cashu/nuts/nut12/nut12.go:

     GenerateDLEQ(a, B_, C_)   R1 = r.G, R2 = r.B_, e = HashE(R1,R2,a.G,C_) reduced mod q,
                               s = r + e*a mod q                           [dleq_gen], r = nonce
     VerifyDLEQ(e,s,A,B_,C_)   R1 = s.G + (-e).A, R2 = s.B_ + (-e).C_,
                               bytes(e) == HashE(R1,R2,A,C_)               [dleq_verify]
     VerifyProofDLEQ(proof,A)  B_ = Y + r.G, C_ = C + r.A, VerifyDLEQ      [dleq_verify_proof]

   The Go verifier compares the serialisation of the REDUCED scalar e with the UNREDUCED
   32-byte hash; [dleq_verify] does the same ([e mod q =? HashE ...], the hash value taken as
   the integer it denotes), so completeness carries the hypothesis [0 <= hash < q].

   What is proved about tampering, and what is not.  "Changing one field makes verification
   fail" is not a theorem for an arbitrary hash function; what holds is a reduction:
   - s, A (public key / amount), C_, C, r: still accepting  =>  an explicit HashE collision
     (two different 4-tuples of points with the same hash).                        [full]
   - B_, Y (secret): same, except in the degenerate case s = 0 mod q, where the verifier
     provably ignores B_ ([dleq_s_zero_ignores_B]).                                [_partial]
   - e: two accepted challenges with the same s do NOT give a collision (the two hash values
     are different); they give two different commitments each hashing to "its own" e, and for
     an honest statement two different nonces on which the prover returns the same s.
     Infeasible for a random oracle, but not reducible to collision resistance.    [_partial]
   - wrong key: special soundness / at most one challenge per commitment pair.     [full]

   Stdlib only, no axioms. *)
From Coq Require Import ZArith Znumtheory Lia Bool.
From Verif Require Import Group BDHKE.
Open Scope Z_scope.

Section Defs.
  Variable g : group_ops.
  Variable HashE : carrier g -> carrier g -> carrier g -> carrier g -> Z.

  (* mint side; [nonce] is Go's internal random r *)
  Definition dleq_gen (a : Z) (B_ C_ : carrier g) (nonce : Z) : Z * Z :=
    let R1 := smul g nonce (gG g) in
    let R2 := smul g nonce B_ in
    let e := HashE R1 R2 (smul g a (gG g)) C_ mod gq g in
    let s := (nonce + e * a) mod gq g in
    (e, s).

  (* the commitments the verifier recomputes *)
  Definition dleq_R1 (e s : Z) (A : carrier g) : carrier g :=
    gadd g (smul g s (gG g)) (smul g (- e) A).
  Definition dleq_R2 (e s : Z) (B_ C_ : carrier g) : carrier g :=
    gadd g (smul g s B_) (smul g (- e) C_).

  Definition dleq_verify (e s : Z) (A B_ C_ : carrier g) : bool :=
    (e mod gq g) =? HashE (dleq_R1 e s A) (dleq_R2 e s B_ C_) A C_.

  (* wallet / third party: proof (e,s,r) attached to an unblinded token (Y = h2c(secret), C) *)
  Definition dleq_verify_proof (e s r : Z) (A Y C : carrier g) : bool :=
    dleq_verify e s A (blind g Y r) (gadd g C (smul g r A)).

  (* HashE on 4-tuples, and what a collision is *)
  Definition tuple4 : Type := (carrier g * carrier g * carrier g * carrier g)%type.
  Definition hash4 (t : tuple4) : Z := let '(a, b, c, d) := t in HashE a b c d.
  Definition hash_collision : Prop := exists x y : tuple4, x <> y /\ hash4 x = hash4 y.
End Defs.

Section Theorems.
  Variable g : group_ops.
  Hypothesis L : group_laws g.
  Variable HashE : carrier g -> carrier g -> carrier g -> carrier g -> Z.

  Local Notation q := (gq g).
  Local Notation "0'" := (gzero g).
  Local Notation G := (gG g).
  Local Notation "P +' Q" := (gadd g P Q) (at level 50, left associativity).
  Local Notation "-' P" := (gneg g P) (at level 35, right associativity).
  Local Notation "a *' P" := (smul g a P) (at level 40, left associativity).
  Local Notation accepts e s A B_ C_ := (dleq_verify g HashE e s A B_ C_ = true).
  Local Notation accepts_token e s r A Y C := (dleq_verify_proof g HashE e s r A Y C = true).
  Local Notation collision := (hash_collision g HashE).

  (* ---------------------------------------------------------------------------------- *)
  (* basic facts                                                                         *)
  (* ---------------------------------------------------------------------------------- *)

  Lemma dleq_verify_iff e s A B_ C_ :
    accepts e s A B_ C_ <->
    e mod q = hash4 g HashE (dleq_R1 g e s A, dleq_R2 g e s B_ C_, A, C_).
  Proof. unfold dleq_verify, hash4. apply Z.eqb_eq. Qed.

  Lemma opp_mod_idemp x : (- (x mod q)) mod q = (- x) mod q.
  Proof.
    rewrite <- (Z.sub_0_l (x mod q)), <- (Z.sub_0_l x). apply Zminus_mod_idemp_r.
  Qed.

  (* verification only depends on e and s modulo q *)
  Lemma dleq_R1_mod e s A : dleq_R1 g (e mod q) (s mod q) A = dleq_R1 g e s A.
  Proof.
    unfold dleq_R1. f_equal; apply (smul_congr g L).
    - apply Z.mod_mod, (gq_neq_0 g L).
    - apply opp_mod_idemp.
  Qed.

  Lemma dleq_R2_mod e s B_ C_ : dleq_R2 g (e mod q) (s mod q) B_ C_ = dleq_R2 g e s B_ C_.
  Proof.
    unfold dleq_R2. f_equal; apply (smul_congr g L).
    - apply Z.mod_mod, (gq_neq_0 g L).
    - apply opp_mod_idemp.
  Qed.

  Theorem dleq_verify_mod e s A B_ C_ :
    dleq_verify g HashE (e mod q) (s mod q) A B_ C_ = dleq_verify g HashE e s A B_ C_.
  Proof.
    unfold dleq_verify. rewrite dleq_R1_mod, dleq_R2_mod.
    rewrite Z.mod_mod by apply (gq_neq_0 g L). reflexivity.
  Qed.

  (* s.P + (-e).(a.P) = n.P  when  s = n + e*a (mod q) *)
  Lemma commit_honest s e a n P :
    s mod q = (n + e * a) mod q -> s *' P +' (- e) *' (a *' P) = n *' P.
  Proof.
    intros Hs. rewrite <- (smul_mul g L), <- (smul_add_l g L).
    apply (smul_congr g L).
    rewrite Zplus_mod, Hs, <- Zplus_mod. f_equal. ring.
  Qed.

  (* s1.P + (-e1).Q = s2.P + (-e2).Q  ->  (s1-s2).P = (e1-e2).Q *)
  Lemma commit_diff s1 e1 s2 e2 P Q :
    s1 *' P +' (- e1) *' Q = s2 *' P +' (- e2) *' Q -> (s1 - s2) *' P = (e1 - e2) *' Q.
  Proof.
    intros H.
    assert (H' := f_equal (fun X => X +' ((- s2) *' P +' e1 *' Q)) H). cbv beta in H'.
    rewrite !(gadd_swap4 g L _ (_ *' Q) (_ *' P) _) in H'.
    rewrite <- !(smul_add_l g L) in H'.
    replace (- e1 + e1) with 0 in H' by ring.
    replace (s2 + - s2) with 0 in H' by ring.
    rewrite !(smul_0_l g L), (gadd_0_r g L), (gadd_0_l g L) in H'.
    replace (s1 - s2) with (s1 + - s2) by ring.
    replace (e1 - e2) with (- e2 + e1) by ring.
    exact H'.
  Qed.

  (* ---------------------------------------------------------------------------------- *)
  (* completeness                                                                        *)
  (* ---------------------------------------------------------------------------------- *)

  (* For an honest statement (A = a.G, C_ = a.B_) and ANY challenge e, the response
     s = n + e*a opens the commitments (n.G, n.B_). *)
  Theorem dleq_honest_any_challenge a B_ n e s :
    s mod q = (n + e * a) mod q ->
    dleq_R1 g e s (pubkey g a) = n *' G /\ dleq_R2 g e s B_ (sign g a B_) = n *' B_.
  Proof.
    intros Hs. unfold dleq_R1, dleq_R2, pubkey, sign.
    split; apply commit_honest; exact Hs.
  Qed.

  (* The mint's proof verifies exactly when the (unreduced) hash value is below q. *)
  Theorem dleq_complete_iff a B_ nonce e s :
    dleq_gen g HashE a B_ (sign g a B_) nonce = (e, s) ->
    (accepts e s (pubkey g a) B_ (sign g a B_) <->
     0 <= HashE (nonce *' G) (nonce *' B_) (pubkey g a) (sign g a B_) < q).
  Proof.
    unfold dleq_gen. fold (pubkey g a).
    set (h := HashE (nonce *' G) (nonce *' B_) (pubkey g a) (sign g a B_)).
    intros Hgen. injection Hgen as He Hs.
    assert (Hs' : s mod q = (nonce + e * a) mod q).
    { rewrite <- Hs, He. apply Z.mod_mod, (gq_neq_0 g L). }
    destruct (dleq_honest_any_challenge a B_ nonce e s Hs') as [H1 H2].
    unfold dleq_verify. rewrite H1, H2. fold h.
    rewrite Z.eqb_eq, <- He, Z.mod_mod by apply (gq_neq_0 g L).
    split.
    - intros E. rewrite <- E. apply Z.mod_pos_bound, (gq_pos g L).
    - intros Hr. apply Z.mod_small. exact Hr.
  Qed.

  (* C10: every blind signature the mint returns carries a DLEQ proof that verification
     accepts for the published key a.G -- for every key, blinded message and nonce, provided
     the hash value, read as an integer, is below the group order (see header). *)
  Theorem dleq_complete a B_ nonce e s :
    0 <= HashE (nonce *' G) (nonce *' B_) (pubkey g a) (sign g a B_) < q ->
    dleq_gen g HashE a B_ (sign g a B_) nonce = (e, s) ->
    accepts e s (pubkey g a) B_ (sign g a B_).
  Proof. intros Hr Hgen. apply (dleq_complete_iff a B_ nonce e s Hgen). exact Hr. Qed.

  (* ---------------------------------------------------------------------------------- *)
  (* the proof carried on an unblinded token                                             *)
  (* ---------------------------------------------------------------------------------- *)

  (* re-blinding the unblinded signature gives back C_ *)
  Lemma reblind_unblind C_ r A : unblind g C_ r A +' r *' A = C_.
  Proof.
    unfold unblind. rewrite (smul_opp_l g L). apply (gsub_add_cancel g L).
  Qed.

  (* C10: the third-party check on (e,s,r), secret and C = unblind C_ is the SAME boolean as
     the wallet-side check on (e,s), B_ = blind Y r and C_ -- for any A, C_, e, s. *)
  Theorem dleq_proof_on_token_eq e s r A Y C_ :
    dleq_verify_proof g HashE e s r A Y (unblind g C_ r A) =
    dleq_verify g HashE e s A (blind g Y r) C_.
  Proof. unfold dleq_verify_proof. rewrite reblind_unblind. reflexivity. Qed.

  Theorem dleq_proof_on_token e s r A Y C_ :
    accepts e s A (blind g Y r) C_ ->
    accepts_token e s r A Y (unblind g C_ r A).
  Proof. intros H. rewrite dleq_proof_on_token_eq. exact H. Qed.

  (* end to end: blind, sign + prove, unblind, attach r, third party verifies *)
  Theorem dleq_mint_to_third_party a Y r nonce e s :
    let B_ := blind g Y r in
    let C_ := sign g a B_ in
    0 <= HashE (nonce *' G) (nonce *' B_) (pubkey g a) C_ < q ->
    dleq_gen g HashE a B_ C_ nonce = (e, s) ->
    accepts_token e s r (pubkey g a) Y (unblind g C_ r (pubkey g a)) /\
    verify g a Y (unblind g C_ r (pubkey g a)) = true.
  Proof.
    intros B_ C_ Hr Hgen. split.
    - apply dleq_proof_on_token. exact (dleq_complete a B_ nonce e s Hr Hgen).
    - apply (verify_unblinded g L).
  Qed.

  (* ---------------------------------------------------------------------------------- *)
  (* soundness: a signature under a key other than the published one                      *)
  (* ---------------------------------------------------------------------------------- *)

  (* Special soundness: two openings of the same commitments with different challenges
     yield a witness x with A = x.G and C_ = x.B_ (for arbitrary A, B_, C_). *)
  Theorem dleq_special_soundness A B_ C_ e1 s1 e2 s2 :
    dleq_R1 g e1 s1 A = dleq_R1 g e2 s2 A ->
    dleq_R2 g e1 s1 B_ C_ = dleq_R2 g e2 s2 B_ C_ ->
    e1 mod q <> e2 mod q ->
    exists x, A = x *' G /\ C_ = x *' B_.
  Proof.
    unfold dleq_R1, dleq_R2. intros H1 H2 He.
    apply commit_diff in H1. apply commit_diff in H2.
    assert (Hd : (e1 - e2) mod q <> 0).
    { intros Hz. apply He, (mod_eq_sub g L). exact Hz. }
    destruct (mod_inverse g L _ Hd) as [d Hdi].
    exists (d * (s1 - s2)).
    assert (Hinv : forall P Q, (s1 - s2) *' P = (e1 - e2) *' Q -> Q = (d * (s1 - s2)) *' P).
    { intros P Q H. rewrite (smul_mul g L), H, <- (smul_mul g L).
      rewrite (smul_congr g L _ 1 Q Hdi). symmetry. apply (smul_1_l g L). }
    split; apply Hinv; assumption.
  Qed.

  (* C10: if the published key is A = a.G but C_ is not a.B_ (the signature was made with
     another key), then for fixed commitments (R1,R2) at most one challenge value (mod q)
     has a response: the prover must hit that one value with HashE(R1,R2,A,C_). *)
  Theorem dleq_sound_unique_challenge_pt a B_ C_ R1 R2 e1 s1 e2 s2 :
    C_ <> a *' B_ ->
    dleq_R1 g e1 s1 (pubkey g a) = R1 -> dleq_R2 g e1 s1 B_ C_ = R2 ->
    dleq_R1 g e2 s2 (pubkey g a) = R1 -> dleq_R2 g e2 s2 B_ C_ = R2 ->
    e1 mod q = e2 mod q.
  Proof.
    intros HC H11 H12 H21 H22.
    destruct (Z.eq_dec (e1 mod q) (e2 mod q)) as [E | NE]; [exact E | exfalso].
    destruct (dleq_special_soundness (pubkey g a) B_ C_ e1 s1 e2 s2) as [x [HA HCx]];
      [congruence | congruence | exact NE |].
    apply HC. rewrite HCx. apply (smul_congr g L).
    symmetry. exact (smul_inj_scalar g L a x G (gG_nonzero g L) HA).
  Qed.

  (* the same with the foreign key named: C_ = c.B_, c <> a (mod q), B_ <> 0 *)
  Theorem dleq_sound_unique_challenge a c B_ R1 R2 e1 s1 e2 s2 :
    a mod q <> c mod q -> B_ <> 0' ->
    dleq_R1 g e1 s1 (pubkey g a) = R1 -> dleq_R2 g e1 s1 B_ (sign g c B_) = R2 ->
    dleq_R1 g e2 s2 (pubkey g a) = R1 -> dleq_R2 g e2 s2 B_ (sign g c B_) = R2 ->
    e1 mod q = e2 mod q.
  Proof.
    intros Hac HB. apply dleq_sound_unique_challenge_pt.
    unfold sign. apply (smul_neq_scalar g L); [exact HB |].
    intros E; apply Hac; symmetry; exact E.
  Qed.

  (* ---------------------------------------------------------------------------------- *)
  (* tampering, in reduction form                                                        *)
  (* ---------------------------------------------------------------------------------- *)

  Lemma tuple4_inj (a b c d a' b' c' d' : carrier g) :
    (a, b, c, d) = (a', b', c', d') -> a = a' /\ b = b' /\ c = c' /\ d = d'.
  Proof. intros H. inversion H. repeat split. Qed.

  Lemma collision_intro (x y : tuple4 g) :
    x <> y -> hash4 g HashE x = hash4 g HashE y -> collision.
  Proof. intros Hne Heq. exists x, y. split; assumption. Qed.

  (* two acceptances with the same e hash two tuples to the same value *)
  Lemma accepts_same_hash e s A B_ C_ s' A' B_' C_' :
    accepts e s A B_ C_ -> accepts e s' A' B_' C_' ->
    hash4 g HashE (dleq_R1 g e s A, dleq_R2 g e s B_ C_, A, C_) =
    hash4 g HashE (dleq_R1 g e s' A', dleq_R2 g e s' B_' C_', A', C_').
  Proof.
    intros H1 H2. apply dleq_verify_iff in H1. apply dleq_verify_iff in H2. congruence.
  Qed.

  (* changing s *)
  Theorem dleq_tamper_s e s s' A B_ C_ :
    accepts e s A B_ C_ -> accepts e s' A B_ C_ ->
    s mod q = s' mod q \/ collision.
  Proof.
    intros H1 H2.
    destruct (Z.eq_dec (s mod q) (s' mod q)) as [E | NE]; [left; exact E | right].
    refine (collision_intro _ _ _ (accepts_same_hash _ _ _ _ _ _ _ _ _ H1 H2)).
    intros Ht. destruct (tuple4_inj _ _ _ _ _ _ _ _ Ht) as (T1 & T2 & T3 & T4).
    unfold dleq_R1 in T1.
    apply (gadd_cancel_r g L) in T1.
    apply NE. exact (smul_inj_scalar g L s s' G (gG_nonzero g L) T1).
  Qed.

  (* changing the public key (which is what changing the amount does: the verifier looks the
     key up by amount) *)
  Theorem dleq_tamper_A e s A A' B_ C_ :
    accepts e s A B_ C_ -> accepts e s A' B_ C_ ->
    A = A' \/ collision.
  Proof.
    intros H1 H2.
    destruct (g_eq_dec g L A A') as [E | NE]; [left; exact E | right].
    refine (collision_intro _ _ _ (accepts_same_hash _ _ _ _ _ _ _ _ _ H1 H2)).
    intros Ht. destruct (tuple4_inj _ _ _ _ _ _ _ _ Ht) as (T1 & T2 & T3 & T4).
    contradiction.
  Qed.

  (* changing C_ *)
  Theorem dleq_tamper_C_ e s A B_ C_ C_' :
    accepts e s A B_ C_ -> accepts e s A B_ C_' ->
    C_ = C_' \/ collision.
  Proof.
    intros H1 H2.
    destruct (g_eq_dec g L C_ C_') as [E | NE]; [left; exact E | right].
    refine (collision_intro _ _ _ (accepts_same_hash _ _ _ _ _ _ _ _ _ H1 H2)).
    intros Ht. destruct (tuple4_inj _ _ _ _ _ _ _ _ Ht) as (T1 & T2 & T3 & T4).
    contradiction.
  Qed.

  (* When s = 0 (mod q) the verifier does not look at B_ at all ... *)
  Theorem dleq_s_zero_ignores_B e s A B_ B_' C_ :
    s mod q = 0 ->
    dleq_verify g HashE e s A B_ C_ = dleq_verify g HashE e s A B_' C_.
  Proof.
    intros Hs. unfold dleq_verify, dleq_R2.
    rewrite (smul_mod g L s B_), (smul_mod g L s B_'), Hs, !(smul_0_l g L). reflexivity.
  Qed.

  (* ... so changing B_ is a collision only when s <> 0 (mod q).  Partial: the third
     alternative is a real exception, not a proof artefact. *)
  Theorem dleq_tamper_B_partial e s A B_ B_' C_ :
    accepts e s A B_ C_ -> accepts e s A B_' C_ ->
    B_ = B_' \/ collision \/ s mod q = 0.
  Proof.
    intros H1 H2.
    destruct (g_eq_dec g L B_ B_') as [E | NE]; [left; exact E | right].
    destruct (Z.eq_dec (s mod q) 0) as [Hs | Hs]; [right; exact Hs | left].
    refine (collision_intro _ _ _ (accepts_same_hash _ _ _ _ _ _ _ _ _ H1 H2)).
    intros Ht. destruct (tuple4_inj _ _ _ _ _ _ _ _ Ht) as (T1 & T2 & T3 & T4).
    unfold dleq_R2 in T2.
    apply (gadd_cancel_r g L) in T2.
    apply NE. exact (smul_inj_point g L s B_ B_' Hs T2).
  Qed.

  (* Changing e (same s).  No collision follows: the two hash values differ.  What follows
     is that the commitments differ, i.e. e' is the hash of a different tuple that itself
     depends on e'.  Partial. *)
  Theorem dleq_tamper_e_partial e e' s A B_ C_ :
    A <> 0' ->
    accepts e s A B_ C_ -> accepts e' s A B_ C_ ->
    e mod q = e' mod q \/
    (dleq_R1 g e s A <> dleq_R1 g e' s A /\
     hash4 g HashE (dleq_R1 g e s A, dleq_R2 g e s B_ C_, A, C_) = e mod q /\
     hash4 g HashE (dleq_R1 g e' s A, dleq_R2 g e' s B_ C_, A, C_) = e' mod q).
  Proof.
    intros HA H1 H2.
    destruct (Z.eq_dec (e mod q) (e' mod q)) as [E | NE]; [left; exact E | right].
    apply dleq_verify_iff in H1. apply dleq_verify_iff in H2.
    split; [| split; symmetry; assumption].
    unfold dleq_R1. intros HR1. apply (gadd_cancel_l g L) in HR1.
    apply (smul_inj_scalar g L _ _ A HA) in HR1.
    apply NE.
    rewrite <- (Z.opp_involutive e), <- (Z.opp_involutive e').
    rewrite <- (Z.sub_0_l (- e)), <- (Z.sub_0_l (- e')).
    rewrite <- (Zminus_mod_idemp_r 0 (- e)), <- (Zminus_mod_idemp_r 0 (- e')), HR1.
    reflexivity.
  Qed.

  (* Changing e on an honest statement: the honest prover, run on two DIFFERENT nonces,
     returns the SAME response s with the two different challenges.  Partial (a collision of
     the map nonce |-> s, not of HashE). *)
  Theorem dleq_tamper_e_honest_partial a e e' s B_ :
    a mod q <> 0 ->
    accepts e s (pubkey g a) B_ (sign g a B_) ->
    accepts e' s (pubkey g a) B_ (sign g a B_) ->
    e mod q = e' mod q \/
    exists n n', n mod q <> n' mod q /\
      dleq_gen g HashE a B_ (sign g a B_) n = (e mod q, s mod q) /\
      dleq_gen g HashE a B_ (sign g a B_) n' = (e' mod q, s mod q).
  Proof.
    intros Ha H1 H2.
    destruct (Z.eq_dec (e mod q) (e' mod q)) as [E | NE]; [left; exact E | right].
    pose proof (gq_neq_0 g L) as Hq.
    assert (Hgen : forall x, accepts x s (pubkey g a) B_ (sign g a B_) ->
              dleq_gen g HashE a B_ (sign g a B_) (s - x * a) = (x mod q, s mod q)).
    { intros x Hx. apply dleq_verify_iff in Hx. unfold hash4 in Hx.
      assert (Hs : s mod q = ((s - x * a) + x * a) mod q) by (f_equal; ring).
      destruct (dleq_honest_any_challenge a B_ (s - x * a) x s Hs) as [E1 E2].
      rewrite E1, E2 in Hx.
      unfold dleq_gen. fold (pubkey g a). rewrite <- Hx.
      rewrite Z.mod_mod by exact Hq. f_equal.
      rewrite <- (Z.add_mod_idemp_r _ (x mod q * a)) by exact Hq.
      rewrite Z.mul_mod_idemp_l, Z.add_mod_idemp_r by exact Hq.
      f_equal. ring. }
    exists (s - e * a), (s - e' * a). split; [| split; apply Hgen; assumption].
    intros Hn. apply (mod_eq_sub g L) in Hn.
    replace (s - e * a - (s - e' * a)) with ((e' - e) * a) in Hn by ring.
    destruct (mod_mul_zero g L _ _ Hn) as [Hz | Hz]; [| contradiction].
    apply NE. symmetry. apply (mod_eq_sub g L). exact Hz.
  Qed.

  (* ---- the proof attached to a token: (e, s, r) with secret (Y) and C ---------------- *)

  Theorem dleq_token_tamper_s e s s' r A Y C :
    accepts_token e s r A Y C -> accepts_token e s' r A Y C ->
    s mod q = s' mod q \/ collision.
  Proof. unfold dleq_verify_proof. apply dleq_tamper_s. Qed.

  (* changing r: the re-blinded C_ = C + r.A changes (public keys are never 0) *)
  Theorem dleq_token_tamper_r e s r r' A Y C :
    A <> 0' ->
    accepts_token e s r A Y C -> accepts_token e s r' A Y C ->
    r mod q = r' mod q \/ collision.
  Proof.
    unfold dleq_verify_proof. intros HA H1 H2.
    destruct (Z.eq_dec (r mod q) (r' mod q)) as [E | NE]; [left; exact E | right].
    refine (collision_intro _ _ _ (accepts_same_hash _ _ _ _ _ _ _ _ _ H1 H2)).
    intros Ht. destruct (tuple4_inj _ _ _ _ _ _ _ _ Ht) as (T1 & T2 & T3 & T4).
    apply (gadd_cancel_l g L) in T4.
    apply NE. exact (smul_inj_scalar g L r r' A HA T4).
  Qed.

  (* changing C *)
  Theorem dleq_token_tamper_C e s r A Y C C' :
    accepts_token e s r A Y C -> accepts_token e s r A Y C' ->
    C = C' \/ collision.
  Proof.
    unfold dleq_verify_proof. intros H1 H2.
    destruct (dleq_tamper_C_ _ _ _ _ _ _ H1 H2) as [E | Hc]; [left | right; exact Hc].
    exact (gadd_cancel_r g L _ _ _ E).
  Qed.

  (* changing the public key / the amount it is looked up by *)
  Theorem dleq_token_tamper_A e s r A A' Y C :
    accepts_token e s r A Y C -> accepts_token e s r A' Y C ->
    A = A' \/ collision.
  Proof.
    unfold dleq_verify_proof. intros H1 H2.
    destruct (g_eq_dec g L A A') as [E | NE]; [left; exact E | right].
    refine (collision_intro _ _ _ (accepts_same_hash _ _ _ _ _ _ _ _ _ H1 H2)).
    intros Ht. destruct (tuple4_inj _ _ _ _ _ _ _ _ Ht) as (T1 & T2 & T3 & T4).
    contradiction.
  Qed.

  (* changing the secret (Y' = hash_to_curve of the other secret); partial for the same
     reason as [dleq_tamper_B_partial] *)
  Theorem dleq_token_tamper_Y_partial e s r A Y Y' C :
    accepts_token e s r A Y C -> accepts_token e s r A Y' C ->
    Y = Y' \/ collision \/ s mod q = 0.
  Proof.
    unfold dleq_verify_proof. intros H1 H2.
    destruct (dleq_tamper_B_partial _ _ _ _ _ _ H1 H2) as [E | Hc]; [left | right; exact Hc].
    unfold blind in E. exact (gadd_cancel_r g L _ _ _ E).
  Qed.

  (* changing e; partial as [dleq_tamper_e_partial] *)
  Theorem dleq_token_tamper_e_partial e e' s r A Y C :
    A <> 0' ->
    accepts_token e s r A Y C -> accepts_token e' s r A Y C ->
    e mod q = e' mod q \/ dleq_R1 g e s A <> dleq_R1 g e' s A.
  Proof.
    unfold dleq_verify_proof. intros HA H1 H2.
    destruct (dleq_tamper_e_partial _ _ _ _ _ _ HA H1 H2) as [E | [Hne _]];
      [left; exact E | right; exact Hne].
  Qed.

  (* ---------------------------------------------------------------------------------- *)
  (* a wrong key is detected, as far as algebra goes                                      *)
  (* ---------------------------------------------------------------------------------- *)

  (* If a proof is accepted although C_ is not a.B_, then its challenge is the only one (mod
     q) that can be answered for its commitments: any other opening of the same commitments
     has the same e.  Combined with [dleq_verify_iff] this says the prover found commitments
     whose hash equals that single forced value. *)
  Theorem dleq_wrong_key_forces_challenge a B_ C_ e s :
    C_ <> a *' B_ ->
    accepts e s (pubkey g a) B_ C_ ->
    forall e' s',
      dleq_R1 g e' s' (pubkey g a) = dleq_R1 g e s (pubkey g a) ->
      dleq_R2 g e' s' B_ C_ = dleq_R2 g e s B_ C_ ->
      e' mod q = e mod q.
  Proof.
    intros HC _ e' s' H1 H2.
    exact (dleq_sound_unique_challenge_pt a B_ C_ _ _ e' s' e s HC H1 H2 eq_refl eq_refl).
  Qed.
End Theorems.
