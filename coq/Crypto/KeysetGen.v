(* The mint's keyset derivation, /repo/crypto/keyset.go DeriveKeysetPath + GenerateKeyset:
   m/0'/0'/index'/i' for i = 0..59, amount 2^i, id = DeriveKeysetId of the public keys.
   Executable only (used by the c11-keyset stream and by C09); NUT-02 does not prescribe how a
   mint derives its keys, so there is no spec side.  HardenedKeyStart + index is uint32
   arithmetic: an index >= 2^31 wraps to a non-hardened child. *)
From Coq Require Import Ascii String ZArith List Bool Lia.
From Verif Require Import Bytes SHA256 SHA512 HMAC Secp256k1 BIP32 KeysetId.
Import ListNotations.
Open Scope Z_scope.

Definition max_order : nat := 60.   (* MAX_ORDER *)

Definition keyset_path_impl (master : ikey) (index : Z) : option ikey :=
  match hd_derive master (u32 (hardened_start + 0)) with
  | None => None
  | Some child =>
      match hd_derive child (u32 (hardened_start + 0)) with
      | None => None
      | Some unitPath => hd_derive unitPath (u32 (hardened_start + index))
      end
  end.

(* one entry per amount: (amount, PrivateKey.Serialize(), PublicKey.SerializeCompressed()) *)
Definition keypair : Type := (Z * list Z * list Z)%type.

Fixpoint gen_keys (fuel : nat) (i : Z) (keysetPath : ikey) : option (list keypair) :=
  match fuel with
  | O => Some []
  | S f =>
      let amount := 2 ^ i in       (* uint64(math.Pow(2, float64(i))), exact for i < 60 *)
      match hd_derive keysetPath (u32 (hardened_start + u32 i)) with
      | None => None
      | Some amountPath =>
          let priv := hd_priv_bytes amountPath in
          (* ECPubKey(): btcec.ParsePubKey(k.pubKeyBytes()) *)
          match decompress (hd_pub_bytes amountPath) with
          | None => None
          | Some pubKey =>
              match gen_keys f (i + 1) keysetPath with
              | None => None
              | Some rest => Some ((amount, priv, compress (Some pubKey)) :: rest)
              end
          end
      end
  end.

Definition generate_keyset_from (master : ikey) (index : Z) : option (list keypair * list Z) :=
  match keyset_path_impl master index with
  | None => None
  | Some keysetPath =>
      match gen_keys max_order 0 keysetPath with
      | None => None
      | Some keys =>
          let pks := map (fun kp : keypair => (fst (fst kp), snd kp)) keys in
          Some (keys, derive_keyset_id pks)
      end
  end.

Definition generate_keyset (seed : list Z) (index : Z) : option (list keypair * list Z) :=
  match hd_new_master seed with
  | None => None
  | Some master => generate_keyset_from master index
  end.
