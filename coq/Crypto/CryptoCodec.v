(* Decoding of harness cases for the bit-level crypto models and the entry point
   [run_crypto] used by the extracted runner (family tag 4).  Byte strings are lists of
   integers 0..255; anything else does not decode.

   (1 <msg>)                      hash_to_curve              -> (1 <33 bytes>) | (0)
   (2 ((amount <key bytes>) ...)) DeriveKeysetId             -> (<16 ASCII bytes of the id>)
   (3 <seed> <id string> counter) NUT-13 on NewMaster(seed)  -> (1 <secret: 64 ASCII bytes> <r: 32 bytes>)
                                                               | (0) error | (2) panic
   (4 <seed> index)               GenerateKeyset             -> (1 ((amount <priv> <pub>) ...) <id>) | (0)
   (5 <bytes>)                    SHA-256                    -> (<32 bytes>)
   (6 <key> <msg>)                HMAC-SHA512                -> (<64 bytes>)
   (7 <bytes>)                    SHA-512                    -> (<64 bytes>)
   (8 k)                          compressed k*G, 0 < k < n  -> (<33 bytes>)
   (9 <bytes>)                    ParsePubKey (33/65 bytes)  -> (1 x y) | (0)
   (10 <seed> (i1 i2 ...))        NewMaster + Derive chain   -> (1 <priv 32> <chain code 32> <pub 33>) | (0)
   (11 k <P>)                     k*P, k >= 0 NOT reduced    -> (1 <33 bytes>) | (0) infinity
   (12 <seed> (i1 i2 ...))        BIP32 text: master + CKDpriv chain -> as case 10
   (13 k <P>)                     as 11 with the affine textbook double-and-add [pt_mul_affine]

   C10, the secp256k1 instance of BDHKE.v / DLEQ.v (BDHKEsecp.v).  <P>, <A>, <B_>, <C_>, <K>, <C>
   are serialised points that ParsePubKey accepts (else the case does not decode); scalars are
   BYTE STRINGS as handed to secp256k1.PrivKeyFromBytes; points in observations are
   SerializeCompressed (02 00..00 for infinity, as dcrd does); b is 0/1.
   (20 <secret> <r>)              BlindMessage               -> (1 <B_>) | (0)
   (21 <B_> <k>)                  SignBlindedMessage         -> (<C_>)
   (22 <C_> <r> <K>)              UnblindSignature           -> (<C>)
   (23 <secret> <k> <C>)          Verify                     -> (b)
   (24 (<P> ...))                 HashE                      -> (<32 bytes>)
   (25 <e> <s> <A> <B_> <C_>)     VerifyDLEQ                 -> (b)
   (26 <a> <B_> <C_> <nonce>)     GenerateDLEQ, explicit r   -> (<e 32 bytes> <s 32 bytes>)
   (27 D <secret> <Cstr> <A>)     nut12.VerifyProofDLEQ, D = () for DLEQ == nil, else
                                  (<E> <S> <R>) strings      -> (b) | (2) panic
   (28 <E> <S> <R> <A> <B_str> <C_str>)  nut12.VerifyBlindSignatureDLEQ -> (b)
   (29 <bytes>)                   PrivKeyFromBytes.Serialize -> (<32 bytes>) *)
From Coq Require Import ZArith List Bool.
From Verif Require Import Sexp Bytes SHA256 SHA512 HMAC Secp256k1 BIP32 H2C KeysetId NUT13 KeysetGen.
From Verif Require Import Group BDHKE DLEQ BDHKEsecp.
Import ListNotations.
Open Scope Z_scope.

Definition byte_okb (b : Z) : bool := (0 <=? b) && (b <? 256).

Definition d_bytes (s : sexp) : option (list Z) :=
  do l <- sListZ s; if forallb byte_okb l then Some l else None.

Definition e_bytes (l : list Z) : sexp := L (map A l).

Definition d_kentry (s : sexp) : option kentry :=
  match s with
  | L [A amount; k] => do kb <- d_bytes k; Some (amount, kb)
  | _ => None
  end.

Definition e_keypair (kp : keypair) : sexp :=
  L [A (fst (fst kp)); e_bytes (snd (fst kp)); e_bytes (snd kp)].

(* a serialised point that ParsePubKey accepts *)
Definition d_point (s : sexp) : option point :=
  do b <- d_bytes s; match parse_pubkey b with Some xy => Some (Some xy) | None => None end.

(* a scalar as PrivKeyFromBytes reads it *)
Definition d_scalar (s : sexp) : option Z := do b <- d_bytes s; Some (scalar_of_bytes b).

Definition e_point (P : point) : sexp := e_bytes (compress P).
Definition e_bool (b : bool) : sexp := L [A (if b then 1 else 0)].

Definition e_hd (k : option (list Z * list Z * list Z)) : sexp :=
  match k with
  | Some (priv, chain, pub) => L [A 1; e_bytes priv; e_bytes chain; e_bytes pub]
  | None => L [A 0]
  end.

Definition run_crypto (c : sexp) : sexp :=
  match c with
  | L [A 1; m] =>
      match d_bytes m with
      | Some msg =>
          match hash_to_curve_bytes msg with
          | Some b => L [A 1; e_bytes b]
          | None => L [A 0]
          end
      | None => bad_case
      end
  | L [A 2; L ks] =>
      match opt_map d_kentry ks with
      | Some keyset => e_bytes (derive_keyset_id keyset)
      | None => bad_case
      end
  | L [A 3; s; i; A counter] =>
      match d_bytes s, d_bytes i with
      | Some seed, Some id =>
          match nut13_derive seed id counter with
          | Ok (secret, r) => L [A 1; e_bytes secret; e_bytes r]
          | Err => L [A 0]
          | Panic => L [A 2]
          end
      | _, _ => bad_case
      end
  | L [A 4; s; A index] =>
      match d_bytes s with
      | Some seed =>
          match generate_keyset seed index with
          | Some (keys, id) => L [A 1; L (map e_keypair keys); e_bytes id]
          | None => L [A 0]
          end
      | None => bad_case
      end
  | L [A 5; m] =>
      match d_bytes m with Some msg => e_bytes (sha256 msg) | None => bad_case end
  | L [A 6; k; m] =>
      match d_bytes k, d_bytes m with
      | Some key, Some msg => e_bytes (hmac_sha512 key msg)
      | _, _ => bad_case
      end
  | L [A 7; m] =>
      match d_bytes m with Some msg => e_bytes (sha512 msg) | None => bad_case end
  | L [A 8; A k] =>
      if (0 <? k) && (k <? secp_n) then e_bytes (pubkey_bytes k) else bad_case
  | L [A 9; b] =>
      match d_bytes b with
      | Some bs => match parse_pubkey bs with
                   | Some (x, y) => L [A 1; A x; A y]
                   | None => L [A 0]
                   end
      | None => bad_case
      end
  | L [A 10; s; p] =>
      match d_bytes s, sListZ p with
      | Some seed, Some path =>
          match hd_new_master seed with
          | Some m =>
              e_hd (option_map (fun k => (hd_priv_bytes k, snd k, hd_pub_bytes k))
                      (derive_path_impl hmac_sha512 pubkey_bytes secp_n m path))
          | None => L [A 0]
          end
      | _, _ => bad_case
      end
  | L [A 11; A k; p] =>
      match d_point p with
      | Some P =>
          if k <? 0 then bad_case
          else match pt_mul k P with
               | Some xy => L [A 1; e_point (Some xy)]
               | None => L [A 0]
               end
      | None => bad_case
      end
  | L [A 13; A k; p] =>
      match d_point p with
      | Some P =>
          if k <? 0 then bad_case
          else match pt_mul_affine k P with
               | Some xy => L [A 1; e_point (Some xy)]
               | None => L [A 0]
               end
      | None => bad_case
      end
  | L [A 12; s; p] =>
      match d_bytes s, sListZ p with
      | Some seed, Some path =>
          match bip32_master_spec seed with
          | Some m =>
              e_hd (option_map (fun k : skey => (be_bytes 32 (fst k), snd k, pubkey_bytes (fst k)))
                      (bip32_path_spec m path))
          | None => L [A 0]
          end
      | _, _ => bad_case
      end
  | L [A 20; sec; r] =>
      match d_bytes sec, d_scalar r with
      | Some secret, Some rk =>
          match go_blind_message secret rk with
          | Some B_ => L [A 1; e_point B_]
          | None => L [A 0]
          end
      | _, _ => bad_case
      end
  | L [A 21; b; k] =>
      match d_point b, d_scalar k with
      | Some B_, Some kk => L [e_point (go_sign B_ kk)]
      | _, _ => bad_case
      end
  | L [A 22; c_; r; k] =>
      match d_point c_, d_scalar r, d_point k with
      | Some C_, Some rk, Some K => L [e_point (go_unblind C_ rk K)]
      | _, _, _ => bad_case
      end
  | L [A 23; sec; k; c0] =>
      match d_bytes sec, d_scalar k, d_point c0 with
      | Some secret, Some kk, Some C => e_bool (go_verify secret kk C)
      | _, _, _ => bad_case
      end
  | L [A 24; L ps] =>
      match opt_map d_point ps with
      | Some pks => L [e_bytes (hash_e_bytes pks)]
      | None => bad_case
      end
  | L [A 25; e; s; a; b; c_] =>
      match d_scalar e, d_scalar s, d_point a, d_point b, d_point c_ with
      | Some ek, Some sk, Some PA, Some B_, Some C_ => e_bool (go_verify_dleq ek sk PA B_ C_)
      | _, _, _, _, _ => bad_case
      end
  | L [A 26; a; b; c_; nonce] =>
      match d_scalar a, d_point b, d_point c_, d_scalar nonce with
      | Some ak, Some B_, Some C_, Some nk =>
          let es := go_generate_dleq ak B_ C_ nk in
          L [e_bytes (scalar_bytes (fst es)); e_bytes (scalar_bytes (snd es))]
      | _, _, _, _ => bad_case
      end
  | L [A 27; d; sec; cs; a] =>
      let dleq :=
        match d with
        | L [] => Some None
        | L [e; s; r] =>
            match d_bytes e, d_bytes s, d_bytes r with
            | Some eb, Some sb, Some rb => Some (Some (eb, sb, rb))
            | _, _, _ => None
            end
        | _ => None
        end in
      match dleq, d_bytes sec, d_bytes cs, d_point a with
      | Some dl, Some secret, Some Cstr, Some PA =>
          match nut12_verify_proof_dleq dl secret Cstr PA with
          | VTrue => L [A 1]
          | VFalse => L [A 0]
          | VPanic => L [A 2]
          end
      | _, _, _, _ => bad_case
      end
  | L [A 28; e; s; r; a; b; c_] =>
      match d_bytes e, d_bytes s, d_bytes r, d_point a, d_bytes b, d_bytes c_ with
      | Some eb, Some sb, Some rb, Some PA, Some Bs, Some Cs =>
          e_bool (nut12_verify_blind_signature_dleq eb sb rb PA Bs Cs)
      | _, _, _, _, _, _ => bad_case
      end
  | L [A 29; b] =>
      match d_bytes b with
      | Some bs => L [e_bytes (scalar_bytes (scalar_of_bytes bs))]
      | None => bad_case
      end
  | _ => bad_case
  end.
