(* Decoding of harness cases for the bit-level crypto models and the entry point
   [run_crypto] used by the extracted runner (family tag 4).  Byte strings are lists of
   integers 0..255; anything else does not decode.

   (1 <msg>)                      hash_to_curve              -> (1 <33 bytes>) | (0)
   (2 ((amount <key bytes>) ...)) DeriveKeysetId             -> (<16 ASCII bytes of the id>)
   (3 <seed> <id string> counter) NUT-13 on NewMaster(seed)  -> (1 <secret: 64 ASCII bytes> <r: 32 bytes>)
                                                               | (0) error | (2) panic
   (4 <seed> index)               GenerateKeyset             -> (1 ((amount <priv> <pub>) ...) <id>) | (0)
   (5 <bytes>)                    SHA-256                    -> (<32 bytes>)
   (6 <key> <msg>)                HMAC-SHA512                -> (<64 bytes>)
   (7 <bytes>)                    SHA-512                    -> (<64 bytes>)
   (8 k)                          compressed k*G, 0 < k < n  -> (<33 bytes>)
   (9 <bytes>)                    ParsePubKey on 33 bytes    -> (1 x y) | (0)
   (10 <seed> (i1 i2 ...))        NewMaster + Derive chain   -> (1 <priv 32> <chain code 32> <pub 33>) | (0) *)
From Coq Require Import ZArith List Bool.
From Verif Require Import Sexp Bytes SHA256 SHA512 HMAC Secp256k1 BIP32 H2C KeysetId NUT13 KeysetGen.
Import ListNotations.
Open Scope Z_scope.

Definition byte_okb (b : Z) : bool := (0 <=? b) && (b <? 256).

Definition d_bytes (s : sexp) : option (list Z) :=
  do l <- sListZ s; if forallb byte_okb l then Some l else None.

Definition e_bytes (l : list Z) : sexp := L (map A l).

Definition d_kentry (s : sexp) : option kentry :=
  match s with
  | L [A amount; k] => do kb <- d_bytes k; Some (amount, kb)
  | _ => None
  end.

Definition e_keypair (kp : keypair) : sexp :=
  L [A (fst (fst kp)); e_bytes (snd (fst kp)); e_bytes (snd kp)].

Definition run_crypto (c : sexp) : sexp :=
  match c with
  | L [A 1; m] =>
      match d_bytes m with
      | Some msg =>
          match hash_to_curve_bytes msg with
          | Some b => L [A 1; e_bytes b]
          | None => L [A 0]
          end
      | None => bad_case
      end
  | L [A 2; L ks] =>
      match opt_map d_kentry ks with
      | Some keyset => e_bytes (derive_keyset_id keyset)
      | None => bad_case
      end
  | L [A 3; s; i; A counter] =>
      match d_bytes s, d_bytes i with
      | Some seed, Some id =>
          match nut13_derive seed id counter with
          | Ok (secret, r) => L [A 1; e_bytes secret; e_bytes r]
          | Err => L [A 0]
          | Panic => L [A 2]
          end
      | _, _ => bad_case
      end
  | L [A 4; s; A index] =>
      match d_bytes s with
      | Some seed =>
          match generate_keyset seed index with
          | Some (keys, id) => L [A 1; L (map e_keypair keys); e_bytes id]
          | None => L [A 0]
          end
      | None => bad_case
      end
  | L [A 5; m] =>
      match d_bytes m with Some msg => e_bytes (sha256 msg) | None => bad_case end
  | L [A 6; k; m] =>
      match d_bytes k, d_bytes m with
      | Some key, Some msg => e_bytes (hmac_sha512 key msg)
      | _, _ => bad_case
      end
  | L [A 7; m] =>
      match d_bytes m with Some msg => e_bytes (sha512 msg) | None => bad_case end
  | L [A 8; A k] =>
      if (0 <? k) && (k <? secp_n) then e_bytes (pubkey_bytes k) else bad_case
  | L [A 9; b] =>
      match d_bytes b with
      | Some bs => match decompress bs with
                   | Some (x, y) => L [A 1; A x; A y]
                   | None => L [A 0]
                   end
      | None => bad_case
      end
  | L [A 10; s; p] =>
      match d_bytes s, sListZ p with
      | Some seed, Some path =>
          match hd_new_master seed with
          | Some m =>
              match derive_path_impl hmac_sha512 pubkey_bytes secp_n m path with
              | Some k => L [A 1; e_bytes (hd_priv_bytes k); e_bytes (snd k); e_bytes (hd_pub_bytes k)]
              | None => L [A 0]
              end
          | None => L [A 0]
          end
      | _, _ => bad_case
      end
  | _ => bad_case
  end.
