(* Keyset id derivation (NUT-02, version 00), twice:
   - [keyset_id_impl]: /repo/crypto/keyset.go DeriveKeysetId - collect the map entries in
     whatever order the map yields them, sort.Slice by amount, append the compressed keys,
     SHA-256, "00" + first 14 hex characters;
   - [keyset_id_spec]: NUT-02 - keys in ascending numeric amount order, concatenated, hashed,
     first 14 hex characters, prefixed with the version byte.
   A keyset is a list of (amount, 33-byte compressed key); Go map keys are pairwise distinct,
   which is the [NoDup (map fst ks)] hypothesis.  The id is represented as the 16 ASCII bytes
   of the string Go returns; [keyset_id_bytes] gives the 8-byte view (00 || hash[0..7)).
   sort.Slice is not stable and its algorithm is unspecified: it is modelled as "some
   permutation that is sorted by amount" ([go_sort_unique]: with distinct amounts there is
   exactly one); the executable instance is an insertion sort. *)
From Coq Require Import Ascii String ZArith List Bool Lia Permutation Sorted.
From Verif Require Import Bytes SHA256.
Import ListNotations.
Open Scope Z_scope.

Definition kentry : Type := (Z * list Z)%type.

Definition amount_le (a b : kentry) : Prop := fst a <= fst b.
Definition amount_lt (a b : kentry) : Prop := fst a < fst b.

(* what sort.Slice(pubkeys, func(i, j) { return pubkeys[i].amount < pubkeys[j].amount })
   guarantees about its result *)
Definition go_sorted (input result : list kentry) : Prop :=
  Permutation input result /\ StronglySorted amount_le result.

Fixpoint insert (e : kentry) (l : list kentry) : list kentry :=
  match l with
  | [] => [e]
  | x :: r => if fst e <=? fst x then e :: l else x :: insert e r
  end.

Definition sort_by_amount (l : list kentry) : list kentry := fold_right insert [] l.

Definition version_prefix : list Z := [48; 48].   (* "00" *)

Section Generic.
  Variable H : list Z -> list Z.   (* SHA-256 *)

  (* everything after the sort *)
  Definition keyset_id_from (sorted : list kentry) : list Z :=
    let keys := concat (map snd sorted) in          (* keys = append(keys, SerializeCompressed()...) *)
    let hash := H keys in
    version_prefix ++ firstn 14 (hex_encode hash).   (* "00" + hex.EncodeToString(hash)[:14] *)

  Definition keyset_id_impl (keyset : list kentry) : list Z :=
    keyset_id_from (sort_by_amount keyset).

  (* NUT-02: 1 sort public keys by their amount in ascending order; 2 concatenate all public
     keys to one byte array; 3 HASH_SHA256 the concatenated public keys; 4 take the first 14
     characters of the hex-encoded hash; 5 prefix it with a keyset ID version byte *)
  Definition keyset_id_spec (keyset : list kentry) (id : list Z) : Prop :=
    exists ascending,
      Permutation keyset ascending /\
      StronglySorted amount_lt ascending /\
      id = version_prefix ++ firstn 14 (hex_encode (H (concat (map snd ascending)))).
End Generic.

(* ---------- sorting facts ---------- *)

Lemma insert_perm : forall e l, Permutation (e :: l) (insert e l).
Proof.
  intros e l. induction l as [|x r IH]; cbn [insert]; [apply Permutation_refl|].
  destruct (fst e <=? fst x); [apply Permutation_refl|].
  eapply Permutation_trans; [apply perm_swap|]. apply perm_skip. exact IH.
Qed.

Lemma sort_perm : forall l, Permutation l (sort_by_amount l).
Proof.
  induction l as [|e l IH]; cbn [sort_by_amount fold_right]; [apply Permutation_refl|].
  eapply Permutation_trans; [apply perm_skip; exact IH|]. apply insert_perm.
Qed.

Lemma insert_sorted : forall e l, StronglySorted amount_le l -> StronglySorted amount_le (insert e l).
Proof.
  intros e l. induction l as [|x r IH]; intros Hs; cbn [insert].
  - constructor; constructor.
  - apply StronglySorted_inv in Hs. destruct Hs as [Hr Hx].
    destruct (Z.leb_spec (fst e) (fst x)) as [Hle|Hgt].
    + constructor.
      * constructor; assumption.
      * constructor; [exact Hle|].
        eapply Forall_impl; [|exact Hx]. intros a Ha. unfold amount_le in *. lia.
    + constructor; [apply IH; exact Hr|].
      apply Forall_forall. intros a Ha.
      apply (Permutation_in _ (Permutation_sym (insert_perm e r))) in Ha.
      destruct Ha as [<-|Ha]; [unfold amount_le; lia|].
      rewrite Forall_forall in Hx. apply Hx. exact Ha.
Qed.

Lemma sort_sorted : forall l, StronglySorted amount_le (sort_by_amount l).
Proof.
  induction l as [|e l IH]; cbn [sort_by_amount fold_right]; [constructor|].
  apply insert_sorted. exact IH.
Qed.

Lemma sort_is_go_sorted : forall l, go_sorted l (sort_by_amount l).
Proof. intros l. split; [apply sort_perm|apply sort_sorted]. Qed.

Lemma nodup_amounts_perm : forall l l', Permutation l l' ->
  NoDup (map fst l) -> NoDup (map (@fst Z (list Z)) l').
Proof.
  intros l l' Hp Hn. eapply Permutation_NoDup; [|exact Hn]. apply Permutation_map. exact Hp.
Qed.

Lemma le_sorted_strict : forall l, StronglySorted amount_le l -> NoDup (map fst l) ->
  StronglySorted amount_lt l.
Proof.
  induction l as [|a r IH]; intros Hs Hn; [constructor|].
  apply StronglySorted_inv in Hs. destruct Hs as [Hr Ha].
  cbn [map] in Hn. inversion Hn as [|x xs Hnotin Hn']; subst.
  constructor; [apply IH; assumption|].
  apply Forall_forall. intros b Hb. rewrite Forall_forall in Ha. specialize (Ha b Hb).
  unfold amount_le in Ha. unfold amount_lt.
  assert (fst a <> fst b).
  { intros Heq. apply Hnotin. rewrite Heq. apply in_map. exact Hb. }
  lia.
Qed.

Lemma lt_sorted_le : forall l, StronglySorted amount_lt l -> StronglySorted amount_le l.
Proof.
  induction l as [|a r IH]; intros Hs; [constructor|].
  apply StronglySorted_inv in Hs. destruct Hs as [Hr Ha].
  constructor; [apply IH; exact Hr|].
  eapply Forall_impl; [|exact Ha]. intros b Hb. unfold amount_lt in Hb. unfold amount_le. lia.
Qed.

Lemma lt_sorted_nodup : forall l, StronglySorted amount_lt l -> NoDup (map fst l).
Proof.
  induction l as [|a r IH]; intros Hs; [constructor|].
  apply StronglySorted_inv in Hs. destruct Hs as [Hr Ha].
  cbn [map]. constructor; [|apply IH; exact Hr].
  intros Hin. apply in_map_iff in Hin. destruct Hin as (b & Hfb & Hb).
  rewrite Forall_forall in Ha. specialize (Ha b Hb). unfold amount_lt in Ha. lia.
Qed.

(* two strictly ascending arrangements of the same entries are the same list *)
Lemma lt_sorted_unique : forall l1 l2, Permutation l1 l2 ->
  StronglySorted amount_lt l1 -> StronglySorted amount_lt l2 -> l1 = l2.
Proof.
  induction l1 as [|a r1 IH]; intros l2 Hp H1 H2.
  - apply Permutation_nil in Hp. symmetry. exact Hp.
  - destruct l2 as [|b r2].
    + apply Permutation_sym, Permutation_nil in Hp. discriminate.
    + apply StronglySorted_inv in H1. destruct H1 as [Hr1 Ha].
      apply StronglySorted_inv in H2. destruct H2 as [Hr2 Hb].
      rewrite Forall_forall in Ha, Hb.
      assert (Hab : a = b).
      { assert (Hin1 : In a (b :: r2)) by (eapply Permutation_in; [exact Hp|apply in_eq]).
        assert (Hin2 : In b (a :: r1))
          by (eapply Permutation_in; [apply Permutation_sym; exact Hp|apply in_eq]).
        destruct Hin1 as [E|Hin1]; [symmetry; exact E|].
        destruct Hin2 as [E|Hin2]; [exact E|].
        specialize (Ha b Hin2). specialize (Hb a Hin1). unfold amount_lt in *. lia. }
      subst b. f_equal. apply IH; [|exact Hr1|exact Hr2].
      eapply Permutation_cons_inv. exact Hp.
Qed.

(* sort.Slice has exactly one possible result on entries with distinct amounts *)
Theorem go_sort_unique : forall ks r1 r2, NoDup (map fst ks) ->
  go_sorted ks r1 -> go_sorted ks r2 -> r1 = r2.
Proof.
  intros ks r1 r2 Hn [Hp1 Hs1] [Hp2 Hs2].
  apply lt_sorted_unique.
  - eapply Permutation_trans; [apply Permutation_sym; exact Hp1|exact Hp2].
  - apply le_sorted_strict; [exact Hs1|]. eapply nodup_amounts_perm; eassumption.
  - apply le_sorted_strict; [exact Hs2|]. eapply nodup_amounts_perm; eassumption.
Qed.

Section Theorems.
  Variable H : list Z -> list Z.

  (* whatever sort.Slice does, the id is the one the insertion-sort instance computes *)
  Theorem keyset_id_any_go_sort : forall ks sorted, NoDup (map fst ks) ->
    go_sorted ks sorted -> keyset_id_from H sorted = keyset_id_impl H ks.
  Proof.
    intros ks sorted Hn Hs. unfold keyset_id_impl.
    rewrite (go_sort_unique ks sorted (sort_by_amount ks) Hn Hs (sort_is_go_sorted ks)).
    reflexivity.
  Qed.

  (* the implementation computes exactly the NUT-02 id *)
  Theorem keyset_id_impl_eq_spec : forall ks id, NoDup (map fst ks) ->
    (keyset_id_spec H ks id <-> id = keyset_id_impl H ks).
  Proof.
    intros ks id Hn. split.
    - intros (asc & Hp & Hs & ->).
      change (version_prefix ++ firstn 14 (hex_encode (H (concat (map snd asc)))))
        with (keyset_id_from H asc).
      apply keyset_id_any_go_sort; [exact Hn|].
      split; [exact Hp|apply lt_sorted_le; exact Hs].
    - intros ->. exists (sort_by_amount ks).
      split; [apply sort_perm|]. split; [|reflexivity].
      apply le_sorted_strict; [apply sort_sorted|].
      eapply nodup_amounts_perm; [apply sort_perm|exact Hn].
  Qed.

  (* ... and does not depend on the order in which the map was iterated *)
  Theorem keyset_id_order_independent : forall ks ks', NoDup (map fst ks) ->
    Permutation ks ks' -> keyset_id_impl H ks = keyset_id_impl H ks'.
  Proof.
    intros ks ks' Hn Hp. symmetry. apply keyset_id_any_go_sort; [exact Hn|].
    split; [|apply sort_sorted].
    eapply Permutation_trans; [exact Hp|apply sort_perm].
  Qed.

  (* the spec determines the id *)
  Corollary keyset_id_spec_functional : forall ks id1 id2, NoDup (map fst ks) ->
    keyset_id_spec H ks id1 -> keyset_id_spec H ks id2 -> id1 = id2.
  Proof.
    intros ks id1 id2 Hn H1 H2.
    apply (keyset_id_impl_eq_spec ks id1 Hn) in H1.
    apply (keyset_id_impl_eq_spec ks id2 Hn) in H2. congruence.
  Qed.

  (* 8-byte view: the id string is the hex of 00 || first 7 bytes of the hash *)
  Lemma firstn_hex_encode : forall k l, firstn (2 * k) (hex_encode l) = hex_encode (firstn k l).
  Proof.
    induction k as [|k IH]; intros l; [reflexivity|].
    destruct l as [|b l]; [reflexivity|].
    replace (2 * S k)%nat with (S (S (2 * k))) by lia.
    cbn [hex_encode flat_map app firstn]. fold (hex_encode l). fold (hex_encode (firstn k l)).
    rewrite IH. reflexivity.
  Qed.

  Lemma keyset_id_bytes : forall sorted,
    keyset_id_from H sorted = hex_encode (0 :: firstn 7 (H (concat (map snd sorted)))).
  Proof.
    intros sorted. unfold keyset_id_from.
    change 14%nat with (2 * 7)%nat. rewrite firstn_hex_encode. reflexivity.
  Qed.
End Theorems.

(* ---------- executable instance ---------- *)

Definition derive_keyset_id (keyset : list kentry) : list Z := keyset_id_impl sha256 keyset.

Theorem derive_keyset_id_eq_spec : forall ks id, NoDup (map fst ks) ->
  (keyset_id_spec sha256 ks id <-> id = derive_keyset_id ks).
Proof. exact (keyset_id_impl_eq_spec sha256). Qed.

(* /repo/crypto/keyset_test.go TestDeriveKeysetId, first vector (also in NUT-02), given in a
   non-ascending order *)
Example keyset_id_vector :
  derive_keyset_id
    [(4, hexs "02648eccfa4c026960966276fa5a4cae46ce0fd432211a4f449bf84f13aa5f8303");
     (1, hexs "03a40f20667ed53513075dc51e715ff2046cad64eb68960632269ba7f0210e38bc");
     (8, hexs "02fdfd6796bfeac490cbee12f778f867f0a2c68f6508d17c649759ea0dc3547528");
     (2, hexs "03fd4ce5a16b65576145949e6f99f445f8249fee17c606b688b504a849cdc452de")]
  = str "00456a94ab4e1c46".
Proof. vm_check. Qed.

(* numeric order is not the lexical order of the decimal amounts (10 < 9 as strings):
   the two arrangements give different ids, and the implementation gives the numeric one *)
Example keyset_id_numeric_not_lexical :
  let k9 := (9, hexs "03a40f20667ed53513075dc51e715ff2046cad64eb68960632269ba7f0210e38bc") in
  let k10 := (10, hexs "03fd4ce5a16b65576145949e6f99f445f8249fee17c606b688b504a849cdc452de") in
  derive_keyset_id [k10; k9] = keyset_id_from sha256 [k9; k10] /\
  keyset_id_from sha256 [k9; k10] <> keyset_id_from sha256 [k10; k9].
Proof. vm_compute. split; [reflexivity|discriminate]. Qed.
