(* HMAC (RFC 2104) over an arbitrary hash with block size B bytes; the SHA-512 instance is
   the one BIP32 uses.  Vectors: RFC 4231. *)
From Coq Require Import Ascii String ZArith List Bool Lia.
From Verif Require Import Bytes SHA256 SHA512.
Import ListNotations.
Open Scope Z_scope.

Section Generic.
  Variable H : list Z -> list Z.
  Variable B : nat.

  Definition hmac (key msg : list Z) : list Z :=
    let k0 := if (B <? length key)%nat then H key else key in
    let k := k0 ++ repeat 0 (B - length k0) in
    H (xor_bytes 92 k ++ H (xor_bytes 54 k ++ msg)).
End Generic.

Definition hmac_sha512 (key msg : list Z) : list Z := hmac sha512 128 key msg.
Definition hmac_sha256 (key msg : list Z) : list Z := hmac sha256 64 key msg.

Lemma hmac_sha512_length : forall k m, length (hmac_sha512 k m) = 64%nat.
Proof. intros k m. unfold hmac_sha512, hmac. apply sha512_length. Qed.

Lemma hmac_sha512_ok : forall k m, bytes_ok (hmac_sha512 k m).
Proof. intros k m. unfold hmac_sha512, hmac. apply sha512_ok. Qed.

(* RFC 4231 test cases 1, 2, 3 and 6 (key longer than the block) *)
Example hmac_sha512_tc1 :
  hmac_sha512 (repeat 11 20) (str "Hi There")
  = hexs "87aa7cdea5ef619d4ff0b4241a1d6cb02379f4e2ce4ec2787ad0b30545e17cdedaa833b7d6b8a702038b274eaea3f4e4be9d914eeb61f1702e696c203a126854".
Proof. vm_check. Qed.

Example hmac_sha512_tc2 :
  hmac_sha512 (str "Jefe") (str "what do ya want for nothing?")
  = hexs "164b7a7bfcf819e2e395fbe73b56e0a387bd64222e831fd610270cd7ea2505549758bf75c05a994a6d034f65f8f0e6fdcaeab1a34d4a6b4b636e070a38bce737".
Proof. vm_check. Qed.

Example hmac_sha512_tc3 :
  hmac_sha512 (repeat 170 20) (repeat 221 50)
  = hexs "fa73b0089d56a284efb0f0756c890be9b1b5dbdd8ee81a3655f83e33b2279d39bf3e848279a722c806b485a47e67c807b946a337bee8942674278859e13292fb".
Proof. vm_check. Qed.

Example hmac_sha512_tc6 :
  hmac_sha512 (repeat 170 131) (str "Test Using Larger Than Block-Size Key - Hash Key First")
  = hexs "80b24263c7c1a3ebb71493c1dd7be8b49b46d1f41b4aeec1121b013783f8f3526b56d037e05f2598bd0fd2215d6a1e5295e64f73f63f0aec8b915a985d786598".
Proof. vm_check. Qed.

Example hmac_sha256_tc1 :
  hmac_sha256 (repeat 11 20) (str "Hi There")
  = hexs "b0344c61d8db38535ca8afceaf0bf12b881dc200c9833da726e9376c2e32cff7".
Proof. vm_check. Qed.
