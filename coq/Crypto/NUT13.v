(* NUT-13 deterministic secrets, twice:
   - [nut13_impl]: /repo/cashu/nuts/nut13/nut13.go DeriveKeysetPath + DeriveSecret +
     DeriveBlindingFactor on hdkeychain.NewMaster(seed), statement by statement, including
     the index-out-of-range panic of binary.BigEndian.Uint64 on ids shorter than 8 bytes,
     the use of only the FIRST 8 bytes of longer ids, and uint32 wrap-around of
     HardenedKeyStart + counter;
   - [nut13_spec]: the NUT-13 text over the BIP32 text:
       keyset_id_int = int.from_bytes(bytes.fromhex(keyset_id_hex), "big") % (2**31 - 1)
       secret: m/129372'/0'/keyset_id_int'/counter'/0   r: m/129372'/0'/keyset_id_int'/counter'/1
   [nut13_refines] / [nut13_impl_eq_spec]: for ids of exactly 8 bytes and counters < 2^31 they
   agree, for every HMAC function with 64-byte output, every public-key serialisation, every
   modulus 0 < n <= 2^256 - up to the child-key-zero corner that hdkeychain does not check
   (see BIP32.v). *)
From Coq Require Import Ascii String ZArith List Bool Lia.
From Verif Require Import Bytes SHA512 HMAC Secp256k1 BIP32.
Import ListNotations.
Open Scope Z_scope.

Inductive outcome (A : Type) : Type :=
| Ok (a : A)
| Err           (* the function returned an error *)
| Panic.        (* the function panicked *)
Arguments Ok {A} a.
Arguments Err {A}.
Arguments Panic {A}.

Definition outcome_of {A} (o : option A) : outcome A :=
  match o with Some a => Ok a | None => Err end.

Definition mersenne31 : Z := 2147483647.   (* 1<<31 - 1 *)

(* binary.BigEndian.Uint64(b) on a slice of at least 8 bytes: b[0]<<56 | ... | b[7] *)
Definition uint64_be (b : list Z) : Z :=
  fold_left (fun a x => Z.lor (Z.shiftl a 8) x) (firstn 8 b) 0.

Lemma lor_fold_be : forall l acc, bytes_ok l ->
  fold_left (fun a x => Z.lor (Z.shiftl a 8) x) l acc = fold_left (fun a x => a * 256 + x) l acc.
Proof.
  induction l as [|b l IH]; intros acc Hok; [reflexivity|].
  inversion Hok as [|b' l' Hb Hl]; subst. cbn [fold_left].
  rewrite lor_shiftl_add by (unfold is_byte in Hb; change (2 ^ 8) with 256; lia).
  change (2 ^ 8) with 256. apply IH. exact Hl.
Qed.

Lemma uint64_be_spec : forall b, length b = 8%nat -> bytes_ok b -> uint64_be b = be_to_Z b.
Proof.
  intros b Hlen Hok. unfold uint64_be, be_to_Z.
  rewrite firstn_all2 by lia. apply lor_fold_be. exact Hok.
Qed.

Section Generic.
  Variable hmac : list Z -> list Z -> list Z.
  Variable serP : Z -> list Z.
  Variable n : Z.

  Let derive := derive_impl hmac serP n.

  (* ---------- nut13.go ---------- *)

  (* keysetBytes, err := hex.DecodeString(keysetId); bigEndianBytes := binary.BigEndian.Uint64(keysetBytes)
     keysetIdInt := bigEndianBytes % (1<<31 - 1) *)
  Definition keyset_int_impl (keysetId : list Z) : outcome Z :=
    match hex_decode keysetId with
    | None => Err
    | Some keysetBytes =>
        if (length keysetBytes <? 8)%nat then Panic
        else Ok (uint64_be keysetBytes mod mersenne31)
    end.

  Definition derive_keyset_path_impl (master : ikey) (keysetId : list Z) : outcome ikey :=
    match keyset_int_impl keysetId with
    | Err => Err
    | Panic => Panic
    | Ok keysetIdInt =>
        match derive master (u32 (hardened_start + 129372)) with
        | None => Err
        | Some purpose =>
            match derive purpose (u32 (hardened_start + 0)) with
            | None => Err
            | Some coinType =>
                (* hdkeychain.HardenedKeyStart + uint32(keysetIdInt) *)
                match derive coinType (u32 (hardened_start + u32 keysetIdInt)) with
                | None => Err
                | Some keysetPath => Ok keysetPath
                end
            end
        end
    end.

  (* returns the secret as Go does: the hex string of the 32-byte private key *)
  Definition derive_secret_impl (keysetPath : ikey) (counter : Z) : option (list Z) :=
    match derive keysetPath (u32 (hardened_start + counter)) with
    | None => None
    | Some counterPath =>
        match derive counterPath 0 with
        | None => None
        | Some secretDerivationPath => Some (hex_encode (priv_bytes n secretDerivationPath))
        end
    end.

  (* returns rkey.Serialize() *)
  Definition derive_blinding_factor_impl (keysetPath : ikey) (counter : Z) : option (list Z) :=
    match derive keysetPath (u32 (hardened_start + counter)) with
    | None => None
    | Some counterPath =>
        match derive counterPath 1 with
        | None => None
        | Some rDerivationPath => Some (priv_bytes n rDerivationPath)
        end
    end.

  Definition nut13_impl (seed keysetId : list Z) (counter : Z) : outcome (list Z * list Z) :=
    match master_impl hmac n seed with
    | None => Err
    | Some master =>
        match derive_keyset_path_impl master keysetId with
        | Err => Err
        | Panic => Panic
        | Ok keysetPath =>
            match derive_secret_impl keysetPath counter,
                  derive_blinding_factor_impl keysetPath counter with
            | Some secret, Some r => Ok (secret, r)
            | _, _ => Err
            end
        end
    end.

  (* ---------- NUT-13 ---------- *)

  Definition nut13_keyset_int (id : list Z) : Z := be_to_Z id mod (2 ^ 31 - 1).

  (* i' = i + 2^31 *)
  Definition nut13_path (id : list Z) (counter leaf : Z) : list Z :=
    [129372 + hardened_start; 0 + hardened_start; nut13_keyset_int id + hardened_start;
     counter + hardened_start; leaf].

  Definition nut13_spec (seed id : list Z) (counter : Z) : option (list Z * list Z) :=
    match master_spec hmac n seed with
    | None => None
    | Some m =>
        match derive_path_spec hmac serP n m (nut13_path id counter 0),
              derive_path_spec hmac serP n m (nut13_path id counter 1) with
        | Some ks, Some kr => Some (hex_encode (ser256 (fst ks)), ser256 (fst kr))
        | _, _ => None
        end
    end.

  (* the corner in which hdkeychain differs from BIP32: some key derived on the way is 0 *)
  Definition nut13_zero_corner (seed id : list Z) (counter : Z) : Prop :=
    exists m, master_impl hmac n seed = Some m /\
      (zero_on_path hmac serP n m (nut13_path id counter 0) \/
       zero_on_path hmac serP n m (nut13_path id counter 1)).

  (* ---------- agreement ---------- *)

  Lemma idx_purpose : u32 (hardened_start + 129372) = 129372 + hardened_start.
  Proof. reflexivity. Qed.
  Lemma idx_coin : u32 (hardened_start + 0) = 0 + hardened_start.
  Proof. reflexivity. Qed.
  Lemma idx_hard : forall x, 0 <= x < 2 ^ 31 -> u32 (hardened_start + x) = x + hardened_start.
  Proof.
    intros x Hx. unfold u32, two32, hardened_start. change (2 ^ 31) with 2147483648 in Hx.
    rewrite Z.mod_small by lia. lia.
  Qed.
  Lemma idx_keyset : forall k, 0 <= k < 2 ^ 31 - 1 ->
    u32 (hardened_start + u32 k) = k + hardened_start.
  Proof.
    intros k Hk. change (2 ^ 31 - 1) with 2147483647 in Hk.
    assert (E : u32 k = k) by (unfold u32, two32; apply Z.mod_small; lia).
    rewrite E. apply idx_hard. change (2 ^ 31) with 2147483648. lia.
  Qed.

  Lemma keyset_int_impl_spec : forall id, length id = 8%nat -> bytes_ok id ->
    keyset_int_impl (hex_encode id) = Ok (nut13_keyset_int id).
  Proof.
    intros id Hlen Hok. unfold keyset_int_impl, nut13_keyset_int.
    rewrite hex_decode_encode by exact Hok. rewrite Hlen. change (8 <? 8)%nat with false.
    rewrite uint64_be_spec by assumption. reflexivity.
  Qed.

  Lemma keyset_int_range : forall id, 0 <= nut13_keyset_int id < 2 ^ 31 - 1.
  Proof. intros id. unfold nut13_keyset_int. apply Z.mod_pos_bound. reflexivity. Qed.

  (* the Go call sequence is the two five-step paths *)
  Lemma nut13_impl_paths : forall seed id counter,
    length id = 8%nat -> bytes_ok id -> 0 <= counter < 2 ^ 31 ->
    nut13_impl seed (hex_encode id) counter =
    match master_impl hmac n seed with
    | None => Err
    | Some m =>
        match derive_path_impl hmac serP n m (nut13_path id counter 0),
              derive_path_impl hmac serP n m (nut13_path id counter 1) with
        | Some a, Some b => Ok (hex_encode (priv_bytes n a), priv_bytes n b)
        | _, _ => Err
        end
    end.
  Proof.
    intros seed id counter Hlen Hok Hc. unfold nut13_impl.
    destruct (master_impl hmac n seed) as [m|]; [|reflexivity].
    unfold derive_keyset_path_impl. rewrite keyset_int_impl_spec by assumption.
    unfold nut13_path. cbn [derive_path_impl].
    rewrite idx_purpose, idx_coin, (idx_keyset _ (keyset_int_range id)).
    unfold derive.
    destruct (derive_impl hmac serP n m (129372 + hardened_start)) as [k1|]; [|reflexivity].
    destruct (derive_impl hmac serP n k1 (0 + hardened_start)) as [k2|]; [|reflexivity].
    destruct (derive_impl hmac serP n k2 (nut13_keyset_int id + hardened_start)) as [k3|]; [|reflexivity].
    unfold derive_secret_impl, derive_blinding_factor_impl, derive.
    rewrite (idx_hard counter Hc).
    destruct (derive_impl hmac serP n k3 (counter + hardened_start)) as [k4|]; [|reflexivity].
    destruct (derive_impl hmac serP n k4 0) as [k5|]; [|reflexivity].
    destruct (derive_impl hmac serP n k4 1) as [k6|]; reflexivity.
  Qed.

  Hypothesis hmac_length : forall k m, length (hmac k m) = 64%nat.
  Hypothesis hmac_ok : forall k m, bytes_ok (hmac k m).
  Hypothesis n_pos : 0 < n.
  Hypothesis n_256 : n <= 2 ^ 256.

  (* Where NUT-13/BIP32 define a value the implementation returns exactly it; where they say
     "invalid" the implementation returns an error, unless a derived key is 0. *)
  Theorem nut13_refines : forall seed id counter,
    length id = 8%nat -> bytes_ok id -> 0 <= counter < 2 ^ 31 ->
    match nut13_spec seed id counter with
    | Some v => nut13_impl seed (hex_encode id) counter = Ok v
    | None => nut13_impl seed (hex_encode id) counter = Err \/ nut13_zero_corner seed id counter
    end.
  Proof.
    intros seed id counter Hlen Hok Hc.
    rewrite (nut13_impl_paths seed id counter Hlen Hok Hc).
    unfold nut13_spec, nut13_zero_corner.
    pose proof (master_refines hmac n hmac_length hmac_ok seed) as Hm.
    destruct (master_spec hmac n seed) as [sm|].
    2:{ rewrite Hm. left. reflexivity. }
    destruct Hm as (im & Him & Hrel). rewrite Him.
    pose proof (derive_path_refines hmac serP n hmac_length n_pos n_256
                  (nut13_path id counter 0) im sm Hrel) as H0.
    pose proof (derive_path_refines hmac serP n hmac_length n_pos n_256
                  (nut13_path id counter 1) im sm Hrel) as H1.
    destruct (derive_path_spec hmac serP n sm (nut13_path id counter 0)) as [ks|].
    - destruct H0 as (a & Ha & Hra). rewrite Ha.
      destruct (derive_path_spec hmac serP n sm (nut13_path id counter 1)) as [kr|].
      + destruct H1 as (b & Hb & Hrb). rewrite Hb.
        rewrite (priv_bytes_rel n a ks Hra), (priv_bytes_rel n b kr Hrb). reflexivity.
      + destruct H1 as [Hb|Hz].
        * left. rewrite Hb. reflexivity.
        * right. exists im. split; [reflexivity|right; exact Hz].
    - destruct H0 as [Ha|Hz].
      + left. rewrite Ha. reflexivity.
      + right. exists im. split; [reflexivity|left; exact Hz].
  Qed.

  Theorem nut13_impl_eq_spec : forall seed id counter,
    length id = 8%nat -> bytes_ok id -> 0 <= counter < 2 ^ 31 ->
    ~ nut13_zero_corner seed id counter ->
    nut13_impl seed (hex_encode id) counter = outcome_of (nut13_spec seed id counter).
  Proof.
    intros seed id counter Hlen Hok Hc Hnz.
    pose proof (nut13_refines seed id counter Hlen Hok Hc) as H.
    destruct (nut13_spec seed id counter) as [v|]; [exact H|].
    destruct H as [H|H]; [exact H|contradiction].
  Qed.

  Corollary nut13_spec_value_returned : forall seed id counter v,
    length id = 8%nat -> bytes_ok id -> 0 <= counter < 2 ^ 31 ->
    nut13_spec seed id counter = Some v -> nut13_impl seed (hex_encode id) counter = Ok v.
  Proof.
    intros seed id counter v Hlen Hok Hc Hs.
    pose proof (nut13_refines seed id counter Hlen Hok Hc) as H. rewrite Hs in H. exact H.
  Qed.
End Generic.

(* ---------- what lies outside the theorem's hypotheses ---------- *)

(* counters >= 2^31: HardenedKeyStart + counter wraps in uint32, the child is NOT hardened *)
Lemma nut13_counter_wraps : forall c, 2 ^ 31 <= c < 2 ^ 32 ->
  u32 (hardened_start + c) = c - 2 ^ 31 /\ u32 (hardened_start + c) < hardened_start.
Proof.
  intros c Hc. change (2 ^ 31) with 2147483648 in *. change (2 ^ 32) with 4294967296 in Hc.
  unfold u32, two32, hardened_start.
  replace (2147483648 + c) with ((c - 2147483648) + 1 * 4294967296) by lia.
  rewrite Z.mod_add by lia. rewrite Z.mod_small by lia. lia.
Qed.

(* ids shorter than 8 bytes: panic; not hex: error; longer than 8 bytes: only the first 8
   bytes are used, where NUT-13 takes the whole id *)
Example keyset_int_short_panics : keyset_int_impl (str "00ffeeddccbbaa") = Panic.
Proof. vm_check. Qed.
Example keyset_int_empty_panics : keyset_int_impl [] = Panic.
Proof. vm_check. Qed.
Example keyset_int_odd_errors : keyset_int_impl (str "009a1f293253e41") = Err.
Proof. vm_check. Qed.
Example keyset_int_nonhex_errors : keyset_int_impl (str "009a1f293253e4zz") = Err.
Proof. vm_check. Qed.
Example keyset_int_vector : keyset_int_impl (str "009a1f293253e41e") = Ok 864559728.
Proof. vm_check. Qed.
Example keyset_int_long_id_differs :
  keyset_int_impl (str "009a1f293253e41e77") = Ok 864559728 /\
  nut13_keyset_int (hexs "009a1f293253e41e77") <> 864559728.
Proof. vm_compute. split; [reflexivity|discriminate]. Qed.

(* ---------- executable instance ---------- *)

Definition nut13_derive (seed keysetId : list Z) (counter : Z) : outcome (list Z * list Z) :=
  nut13_impl hmac_sha512 pubkey_bytes secp_n seed keysetId counter.

Definition nut13_derive_spec (seed id : list Z) (counter : Z) : option (list Z * list Z) :=
  nut13_spec hmac_sha512 pubkey_bytes secp_n seed id counter.

(* the executable instance (HMAC-SHA512, secp256k1) satisfies the generic theorems *)
Theorem nut13_derive_refines : forall seed id counter,
  length id = 8%nat -> bytes_ok id -> 0 <= counter < 2 ^ 31 ->
  match nut13_derive_spec seed id counter with
  | Some v => nut13_derive seed (hex_encode id) counter = Ok v
  | None => nut13_derive seed (hex_encode id) counter = Err \/
            nut13_zero_corner hmac_sha512 pubkey_bytes secp_n seed id counter
  end.
Proof.
  exact (nut13_refines hmac_sha512 pubkey_bytes secp_n
           hmac_sha512_length hmac_sha512_ok secp_n_pos secp_n_256).
Qed.

Theorem nut13_derive_eq_spec : forall seed id counter,
  length id = 8%nat -> bytes_ok id -> 0 <= counter < 2 ^ 31 ->
  ~ nut13_zero_corner hmac_sha512 pubkey_bytes secp_n seed id counter ->
  nut13_derive seed (hex_encode id) counter = outcome_of (nut13_derive_spec seed id counter).
Proof.
  exact (nut13_impl_eq_spec hmac_sha512 pubkey_bytes secp_n
           hmac_sha512_length hmac_sha512_ok secp_n_pos secp_n_256).
Qed.

(* /repo/cashu/nuts/nut13/nut13_test.go, counter 0.  The 64-byte seed is
   bip39.NewSeed("half depart obvious quality work element tank gorilla view sugar picture humble", "")
   as computed by the Go library (PBKDF2 is not modelled).

   The four steps m/129372'/0'/864559728'/0' are hardened (no curve arithmetic): checked here
   with the real functions.  The two last steps .../0 and .../1 are NOT hardened: they hash
   serP(point(k)) of the counter key, one 256-bit scalar multiplication each (about 40 s each in
   the VM).  [nut13_vector_0] therefore instantiates the generic functions with serP fixed to
   that key's 33 public bytes (as hdkeychain computes them) and checks everything else; the
   vector with the real [pubkey_bytes] - counters 0..4 of the Go test - is run through the
   extracted runner as the fixed first cases of the c11-nut13 stream. *)
Definition nut13_test_seed : list Z :=
  hexs "dd44ee516b0647e80b488e8dcc56d736a148f15276bef588b37057476d4b2b25780d3688a32b37353d6995997842c0fd8b412475c891c16310471fbc86dcbda8".

Example nut13_vector_0_hardened_prefix :
  match hd_new_master nut13_test_seed with
  | Some m =>
      match derive_keyset_path_impl hmac_sha512 pubkey_bytes secp_n m (str "009a1f293253e41e") with
      | Ok kp => option_map hd_priv_bytes (hd_derive kp (u32 (hardened_start + 0)))
      | _ => None
      end
  | None => None
  end = Some (hexs "61f24290c32690de8c9dc711a414b4ab6f18f197a7b2a0bdec824b2079480f94").
Proof. vm_check. Qed.

Definition nut13_test_counter0_pub : list Z :=
  hexs "03e19b103d77ed8f2852a95d5fe8060c0a5d9cfea61f9ebd78b8f4474e708875ac".

Example nut13_vector_0 :
  nut13_impl hmac_sha512 (fun _ => nut13_test_counter0_pub) secp_n
    nut13_test_seed (str "009a1f293253e41e") 0 =
  Ok (str "485875df74771877439ac06339e284c3acfcd9be7abf3bc20b516faeadfe77ae",
      hexs "ad00d431add9c673e843d4c2bf9a778a5f402b985b8da2d5550bf39cda41d679").
Proof. vm_check. Qed.

(* the text-shaped version on the same input gives the same value *)
Example nut13_vector_0_spec :
  nut13_spec hmac_sha512 (fun _ => nut13_test_counter0_pub) secp_n
    nut13_test_seed (hexs "009a1f293253e41e") 0 =
  Some (str "485875df74771877439ac06339e284c3acfcd9be7abf3bc20b516faeadfe77ae",
        hexs "ad00d431add9c673e843d4c2bf9a778a5f402b985b8da2d5550bf39cda41d679").
Proof. vm_check. Qed.
