(* Blind Diffie-Hellman key exchange (NUT-00) over an abstract prime-order group.
   Mirrors /repo/crypto/bdhke.go:
     BlindMessage        B_ = Y + r.G            [blind]
     SignBlindedMessage  C_ = k.B_               [sign]
     UnblindSignature    C  = C_ + (-r).K        [unblind]   (Go negates the scalar, then adds)
     Verify / verify     k.Y == C                [verify]
   [Y] stands for hash_to_curve(secret): an arbitrary group element; hash_to_curve never
   returns the point at infinity, which appears as the hypothesis [Y <> 0] where needed.
   Scalars are integers; [smul] only depends on them modulo q ([gl_smul_mod]), which is how
   the Go scalars (ModNScalar, always reduced) are covered.
   Stdlib only, no axioms. *)
From Coq Require Import ZArith Znumtheory Lia Bool.
From Verif Require Import Group.
Open Scope Z_scope.

Section Defs.
  Variable g : group_ops.

  Definition pubkey (k : Z) : carrier g := smul g k (gG g).
  Definition blind (Y : carrier g) (r : Z) : carrier g := gadd g Y (smul g r (gG g)).
  Definition sign (k : Z) (B_ : carrier g) : carrier g := smul g k B_.
  Definition unblind (C_ : carrier g) (r : Z) (K : carrier g) : carrier g :=
    gadd g C_ (smul g (- r) K).
  Definition verify (k : Z) (Y C : carrier g) : bool := geqb g (smul g k Y) C.
End Defs.

Section Theorems.
  Variable g : group_ops.
  Hypothesis L : group_laws g.

  Local Notation q := (gq g).
  Local Notation "0'" := (gzero g).
  Local Notation G := (gG g).
  Local Notation "P +' Q" := (gadd g P Q) (at level 50, left associativity).
  Local Notation "-' P" := (gneg g P) (at level 35, right associativity).
  Local Notation "a *' P" := (smul g a P) (at level 40, left associativity).

  (* unblind is "C_ - r.K" *)
  Lemma unblind_eq_sub C_ r K : unblind g C_ r K = gsub g C_ (r *' K).
  Proof. unfold unblind, gsub. rewrite (smul_opp_l g L). reflexivity. Qed.

  (* What unblinding gives when the mint signed with k' and the wallet unblinds with K = k.G:
     C = k'.Y + (r*(k'-k)).G *)
  Lemma unblind_sign_blind_gen k k' r Y :
    unblind g (sign g k' (blind g Y r)) r (pubkey g k) = k' *' Y +' (r * (k' - k)) *' G.
  Proof.
    unfold unblind, sign, blind, pubkey.
    rewrite (smul_add_r g L), <- !(smul_mul g L), <- (gadd_assoc g L), <- (smul_add_l g L).
    f_equal. f_equal. ring.
  Qed.

  (* C10: unblinding the mint's signature on the blinded message yields exactly k.Y *)
  Theorem unblind_sign_blind k r Y :
    unblind g (sign g k (blind g Y r)) r (pubkey g k) = k *' Y.
  Proof.
    rewrite unblind_sign_blind_gen.
    replace (r * (k - k)) with 0 by ring.
    rewrite (smul_0_l g L). apply (gadd_0_r g L).
  Qed.

  (* verify accepts exactly k.Y *)
  Theorem verify_iff k Y C : verify g k Y C = true <-> C = k *' Y.
  Proof. unfold verify. rewrite (geqb_eq g L). split; intros H; symmetry; exact H. Qed.

  (* ... it verifies under that key *)
  Theorem verify_unblinded k r Y :
    verify g k Y (unblind g (sign g k (blind g Y r)) r (pubkey g k)) = true.
  Proof. apply verify_iff, unblind_sign_blind. Qed.

  (* ... is independent of the blinding factor *)
  Theorem unblind_indep_of_r k Y r r' :
    unblind g (sign g k (blind g Y r)) r (pubkey g k) =
    unblind g (sign g k (blind g Y r')) r' (pubkey g k).
  Proof. rewrite !unblind_sign_blind. reflexivity. Qed.

  (* ... fails under any other point *)
  Theorem verify_wrong_point k Y C : C <> k *' Y -> verify g k Y C = false.
  Proof.
    intros H. destruct (verify g k Y C) eqn:E; [| reflexivity].
    apply verify_iff in E. contradiction.
  Qed.

  (* ... fails under any other key (other = different modulo the group order) *)
  Theorem verify_wrong_key k k' Y :
    k mod q <> k' mod q -> Y <> 0' -> verify g k' Y (k *' Y) = false.
  Proof.
    intros Hk HY. apply verify_wrong_point.
    apply (smul_neq_scalar g L); assumption.
  Qed.

  (* ... fails under any other secret (Y' = hash_to_curve of the other secret) *)
  Theorem verify_wrong_secret k Y Y' :
    Y' <> Y -> k mod q <> 0 -> verify g k Y' (k *' Y) = false.
  Proof.
    intros HY Hk. apply verify_wrong_point.
    intros H. apply HY. symmetry. exact (smul_inj_point g L k Y Y' Hk H).
  Qed.

  (* If the mint signs with a key k' other than the published K = k.G, the unblinded value is
     NOT a valid signature under k (so the token is worthless and, with k unknown to the
     wallet, only the DLEQ proof can reveal it).  [blind Y r <> 0] excludes the single
     blinding factor with r.G = -Y. *)
  Theorem unblind_wrong_signing_key k k' r Y :
    k mod q <> k' mod q -> blind g Y r <> 0' ->
    verify g k Y (unblind g (sign g k' (blind g Y r)) r (pubkey g k)) = false.
  Proof.
    intros Hk HB. apply verify_wrong_point.
    rewrite unblind_sign_blind_gen. intros H.
    (* k'.Y + (r(k'-k)).G = k.Y  ->  (k'-k).(Y + r.G) = 0 *)
    assert (H0 : (k' - k) *' blind g Y r = 0').
    { unfold blind. rewrite (smul_add_r g L), <- (smul_mul g L).
      rewrite (Z.mul_comm (k' - k) r).
      unfold Z.sub at 1. rewrite (smul_add_l g L k' (- k) Y).
      rewrite <- (gadd_assoc g L (k' *' Y)), (gadd_comm g L ((- k) *' Y)), (gadd_assoc g L).
      rewrite H, <- (smul_add_l g L), Z.add_opp_diag_r. apply (smul_0_l g L). }
    destruct (smul_eq_zero g L _ _ H0) as [Hz | Hz]; [| contradiction].
    apply Hk. symmetry. apply (mod_eq_sub g L). exact Hz.
  Qed.
End Theorems.
