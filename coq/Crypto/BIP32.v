(* BIP32 private derivation, twice:
   - [master_spec], [ckd_priv_spec]: transcribed from the BIP32 text (keys are integers);
   - [master_impl], [derive_impl]: shaped like btcutil/hdkeychain NewMaster / ExtendedKey.Derive
     for private extended keys, as called by /repo/crypto/keyset.go and /repo/cashu/nuts/nut13
     (keys are the byte slices Go stores: the raw IL for the master, the zero-stripped sum for
     children, right-aligned again when used).
   The refinement lemmas are proved for ANY hmac function with 64-byte output, any public-key
   serialisation and any modulus 0 < n <= 2^256; the executable instances follow the Section.

   One deviation of hdkeychain from BIP32 is made explicit instead of hidden: Derive rejects
   parse256(IL) >= n but does NOT reject a child key equal to 0 (BIP32: "or ki = 0 -> invalid").
   It cannot be exhibited (it needs IL = n - kpar) and is carried as [zero_on_path]. *)
From Coq Require Import Ascii String ZArith List Bool Lia.
From Verif Require Import Bytes SHA512 HMAC Secp256k1.
Import ListNotations.
Open Scope Z_scope.

Definition hardened_start : Z := 2147483648.  (* hdkeychain.HardenedKeyStart = 0x80000000 *)
Definition two32 : Z := 4294967296.
Definition u32 (x : Z) : Z := x mod two32.    (* Go uint32 arithmetic *)

Definition bitcoin_seed : list Z := Eval vm_compute in str "Bitcoin seed".

Definition skey : Type := (Z * list Z)%type.         (* spec: (k, c) *)
Definition ikey : Type := (list Z * list Z)%type.    (* impl: (key bytes, chainCode) *)

Section Generic.
  Variable hmac : list Z -> list Z -> list Z.   (* HMAC-SHA512(Key, Data) *)
  Variable serP : Z -> list Z.                  (* serP(point(k)) *)
  Variable n : Z.                               (* order of the curve *)

  (* ---------- BIP32 text ---------- *)

  Definition ser32 (i : Z) : list Z := be_bytes 4 i.
  Definition ser256 (k : Z) : list Z := be_bytes 32 k.
  Definition parse256 (b : list Z) : Z := be_to_Z b.

  (* "Generate a seed byte sequence S of a chosen length (between 128 and 512 bits)";
     I = HMAC-SHA512(Key = "Bitcoin seed", Data = S); "In case parse256(IL) is 0 or
     parse256(IL) >= n, the master key is invalid." *)
  Definition master_spec (seed : list Z) : option skey :=
    if (zlen seed <? 16) || (64 <? zlen seed) then None
    else
      let I := hmac bitcoin_seed seed in
      let k := parse256 (firstn 32 I) in
      if (k =? 0) || (n <=? k) then None else Some (k, skipn 32 I).

  (* CKDpriv((kpar, cpar), i) -> (ki, ci) *)
  Definition ckd_priv_spec (par : skey) (i : Z) : option skey :=
    let '(kpar, cpar) := par in
    let I := if hardened_start <=? i
             then hmac cpar (0 :: ser256 kpar ++ ser32 i)
             else hmac cpar (serP kpar ++ ser32 i) in
    let IL := firstn 32 I in
    let IR := skipn 32 I in
    let ki := (parse256 IL + kpar) mod n in
    if (n <=? parse256 IL) || (ki =? 0) then None else Some (ki, IR).

  Fixpoint derive_path_spec (k : skey) (path : list Z) : option skey :=
    match path with
    | [] => Some k
    | i :: r => match ckd_priv_spec k i with
                | Some k' => derive_path_spec k' r
                | None => None
                end
    end.

  (* ---------- hdkeychain ---------- *)

  (* NewMaster: ErrInvalidSeedLen / ErrUnusableSeed are both None; the key kept is lr[:32] as is *)
  Definition master_impl (seed : list Z) : option ikey :=
    if (length seed <? 16)%nat || (64 <? length seed)%nat then None
    else
      let lr := hmac bitcoin_seed seed in
      let secretKey := firstn (length lr / 2) lr in
      let chainCode := skipn (length lr / 2) lr in
      let secretKeyNum := be_to_Z secretKey in
      if (n <=? secretKeyNum) || (secretKeyNum =? 0) then None
      else Some (secretKey, chainCode).

  (* ECPrivKey().Serialize(): PrivKeyFromBytes reduces mod n, Serialize pads to 32 bytes *)
  Definition priv_bytes (k : ikey) : list Z := be_bytes 32 (be_to_Z (fst k) mod n).

  (* pubKeyBytes() of a private extended key *)
  Definition pub_bytes (k : ikey) : list Z := serP (be_to_Z (fst k) mod n).

  (* Derive(i) on a private extended key.  Not modelled: the depth == 255 refusal (depth is at
     most 5 on every path the repository uses), parentFP/version (not observable here). *)
  Definition derive_impl (k : ikey) (i : Z) : option ikey :=
    let '(key, chainCode) := k in
    let isChildHardened := hardened_start <=? i in
    let data :=
      (if isChildHardened
       then pad_left 33 key            (* offset := 33 - len(k.key); copy(data[offset:], k.key) *)
       else pub_bytes k)               (* copy(data, k.pubKeyBytes()) *)
      ++ be_bytes 4 i in               (* binary.BigEndian.PutUint32(data[keyLen:], i) *)
    let ilr := hmac chainCode data in
    let il := firstn (length ilr / 2) ilr in
    let childChainCode := skipn (length ilr / 2) ilr in
    let ilNum := be_to_Z il in
    if n <=? ilNum then None           (* ilNum.SetByteSlice(il) overflow -> ErrInvalidChild *)
    else
      let keyNum := be_to_Z key in
      if n <=? keyNum then None        (* keyNum.SetByteSlice(k.key) overflow *)
      else
        let childKeyBytes := be_bytes 32 ((ilNum + keyNum) mod n) in
        Some (strip_zeros childKeyBytes, childChainCode).

  Fixpoint derive_path_impl (k : ikey) (path : list Z) : option ikey :=
    match path with
    | [] => Some k
    | i :: r => match derive_impl k i with
                | Some k' => derive_path_impl k' r
                | None => None
                end
    end.

  (* the corner hdkeychain does not check: some derived key on the path is 0 *)
  Fixpoint zero_on_path (k : ikey) (path : list Z) : Prop :=
    match path with
    | [] => False
    | i :: r => match derive_impl k i with
                | Some k' => be_to_Z (fst k') = 0 \/ zero_on_path k' r
                | None => False
                end
    end.

  (* ---------- refinement ---------- *)

  Hypothesis hmac_length : forall k m, length (hmac k m) = 64%nat.
  Hypothesis hmac_ok : forall k m, bytes_ok (hmac k m).
  Hypothesis n_pos : 0 < n.
  Hypothesis n_256 : n <= 2 ^ 256.

  Definition key_rel (ik : ikey) (sk : skey) : Prop :=
    be_to_Z (fst ik) = fst sk /\ snd ik = snd sk /\
    bytes_ok (fst ik) /\ (length (fst ik) <= 32)%nat /\ 0 <= fst sk < n.

  Lemma Forall_firstn_skipn {X} (P : X -> Prop) (k : nat) (l : list X) :
    Forall P l -> Forall P (firstn k l) /\ Forall P (skipn k l).
  Proof.
    intros H. rewrite <- (firstn_skipn k l) in H. apply Forall_app in H. exact H.
  Qed.

  Lemma strip_zeros_ok : forall l, bytes_ok l -> bytes_ok (strip_zeros l).
  Proof.
    induction l as [|b l IH]; intros H; [exact H|].
    inversion H as [|b' l' Hb Hl]; subst.
    destruct b as [|q|q]; cbn [strip_zeros]; [apply IH; exact Hl|exact H|exact H].
  Qed.

  Lemma be_to_Z_repeat0 : forall k l, be_to_Z (repeat 0 k ++ l) = be_to_Z l.
  Proof.
    induction k as [|k IH]; intros l; [reflexivity|].
    cbn [repeat app]. rewrite be_to_Z_cons_zero. apply IH.
  Qed.

  Lemma be_bytes_pad : forall m l, bytes_ok l -> (length l <= m)%nat ->
    be_bytes m (be_to_Z l) = pad_left m l.
  Proof.
    intros m l Hok Hlen. unfold pad_left.
    rewrite <- (be_to_Z_repeat0 (m - length l) l).
    replace m with (length (repeat 0 (m - length l) ++ l)) at 1
      by (rewrite app_length, repeat_length; lia).
    apply be_bytes_be_to_Z. apply Forall_app. split; [|exact Hok].
    apply Forall_forall. intros x Hx. apply repeat_spec in Hx. subst x. unfold is_byte. lia.
  Qed.

  Lemma pow256_32 : 256 ^ Z.of_nat 32 = 2 ^ 256.
  Proof. reflexivity. Qed.

  Lemma master_refines : forall seed,
    match master_spec seed with
    | Some sk => exists ik, master_impl seed = Some ik /\ key_rel ik sk
    | None => master_impl seed = None
    end.
  Proof.
    intros seed. unfold master_spec, master_impl, zlen.
    assert (Hlenb : ((length seed <? 16)%nat || (64 <? length seed)%nat)
                    = ((Z.of_nat (length seed) <? 16) || (64 <? Z.of_nat (length seed)))).
    { f_equal.
      - destruct (Nat.ltb_spec (length seed) 16); destruct (Z.ltb_spec (Z.of_nat (length seed)) 16); lia.
      - destruct (Nat.ltb_spec 64 (length seed)); destruct (Z.ltb_spec 64 (Z.of_nat (length seed))); lia. }
    rewrite Hlenb.
    destruct ((Z.of_nat (length seed) <? 16) || (64 <? Z.of_nat (length seed))); [reflexivity|].
    rewrite (hmac_length bitcoin_seed seed). change (64 / 2)%nat with 32%nat.
    unfold parse256.
    remember (hmac bitcoin_seed seed) as I eqn:HI.
    rewrite (orb_comm (be_to_Z (firstn 32 I) =? 0)).
    destruct ((n <=? be_to_Z (firstn 32 I)) || (be_to_Z (firstn 32 I) =? 0)) eqn:E; [reflexivity|].
    apply orb_false_iff in E. destruct E as [E1 E2].
    apply Z.leb_gt in E1. apply Z.eqb_neq in E2.
    exists (firstn 32 I, skipn 32 I). split; [reflexivity|].
    assert (HokI : bytes_ok I) by (subst I; apply hmac_ok).
    destruct (Forall_firstn_skipn is_byte 32 I HokI) as [Hf _].
    unfold key_rel. cbn [fst snd].
    split; [reflexivity|]. split; [reflexivity|]. split; [exact Hf|].
    split; [rewrite firstn_length; lia|].
    pose proof (be_to_Z_nonneg _ Hf). lia.
  Qed.

  Lemma derive_refines : forall ik sk i, key_rel ik sk ->
    match ckd_priv_spec sk i with
    | Some sk' => exists ik', derive_impl ik i = Some ik' /\ key_rel ik' sk'
    | None => derive_impl ik i = None \/
              exists ik', derive_impl ik i = Some ik' /\ be_to_Z (fst ik') = 0
    end.
  Proof.
    intros [key chain] [kpar cpar] i Hrel.
    unfold key_rel in Hrel. cbn [fst snd] in Hrel.
    destruct Hrel as (Hk & Hc & Hok & Hlen & Hrange). subst chain.
    unfold ckd_priv_spec, derive_impl, pub_bytes, ser256, ser32, parse256. cbn [fst snd].
    rewrite Hk.
    (* the HMAC input is the same *)
    assert (Hdata :
      (if hardened_start <=? i then pad_left 33 key else serP (kpar mod n)) ++ be_bytes 4 i
      = if hardened_start <=? i then 0 :: be_bytes 32 kpar ++ be_bytes 4 i
        else serP kpar ++ be_bytes 4 i).
    { destruct (hardened_start <=? i).
      - rewrite pad_left_succ by exact Hlen. rewrite <- Hk.
        rewrite (be_bytes_pad 32 key Hok Hlen). reflexivity.
      - rewrite Z.mod_small by exact Hrange. reflexivity. }
    rewrite Hdata.
    replace (if hardened_start <=? i
             then hmac cpar (0 :: be_bytes 32 kpar ++ be_bytes 4 i)
             else hmac cpar (serP kpar ++ be_bytes 4 i))
      with (hmac cpar (if hardened_start <=? i then 0 :: be_bytes 32 kpar ++ be_bytes 4 i
                       else serP kpar ++ be_bytes 4 i))
      by (destruct (hardened_start <=? i); reflexivity).
    remember (hmac cpar (if hardened_start <=? i then 0 :: be_bytes 32 kpar ++ be_bytes 4 i
                         else serP kpar ++ be_bytes 4 i)) as I eqn:HI.
    assert (HlenI : length I = 64%nat) by (subst I; apply hmac_length).
    rewrite HlenI. change (64 / 2)%nat with 32%nat.
    destruct (n <=? be_to_Z (firstn 32 I)) eqn:E1; cbn [orb].
    { left. reflexivity. }
    assert (E2 : (n <=? kpar) = false) by (apply Z.leb_gt; lia).
    rewrite E2.
    set (ki := (be_to_Z (firstn 32 I) + kpar) mod n).
    assert (Hki : 0 <= ki < n) by (apply Z.mod_pos_bound; exact n_pos).
    assert (Hback : be_to_Z (strip_zeros (be_bytes 32 ki)) = ki).
    { rewrite be_to_Z_strip, be_to_Z_be_bytes, pow256_32. apply Z.mod_small. lia. }
    destruct (ki =? 0) eqn:E3.
    - right. eexists. split; [reflexivity|]. cbn [fst]. rewrite Hback. apply Z.eqb_eq. exact E3.
    - eexists. split; [reflexivity|]. unfold key_rel. cbn [fst snd].
      split; [exact Hback|]. split; [reflexivity|].
      split; [apply strip_zeros_ok, be_bytes_ok|].
      split; [|exact Hki].
      pose proof (strip_zeros_length (be_bytes 32 ki)) as Hs.
      rewrite be_bytes_length in Hs. exact Hs.
  Qed.

  Lemma derive_path_refines : forall path ik sk, key_rel ik sk ->
    match derive_path_spec sk path with
    | Some sk' => exists ik', derive_path_impl ik path = Some ik' /\ key_rel ik' sk'
    | None => derive_path_impl ik path = None \/ zero_on_path ik path
    end.
  Proof.
    induction path as [|i r IH]; intros ik sk Hrel.
    - cbn [derive_path_spec derive_path_impl]. exists ik. split; [reflexivity|exact Hrel].
    - cbn [derive_path_spec derive_path_impl zero_on_path].
      pose proof (derive_refines ik sk i Hrel) as Hstep.
      destruct (ckd_priv_spec sk i) as [sk'|].
      + destruct Hstep as (ik' & Hd & Hrel'). rewrite Hd.
        specialize (IH ik' sk' Hrel').
        destruct (derive_path_spec sk' r) as [sk''|]; [exact IH|].
        destruct IH as [IH|IH]; [left; exact IH|right; right; exact IH].
      + destruct Hstep as [Hd|(ik' & Hd & Hz)].
        * left. rewrite Hd. reflexivity.
        * right. rewrite Hd. left. exact Hz.
  Qed.

  (* the serialised private key at the end of a path is ser256 of the spec's key *)
  Lemma priv_bytes_rel : forall ik sk, key_rel ik sk -> priv_bytes ik = ser256 (fst sk).
  Proof.
    intros ik sk (Hk & _ & _ & _ & Hr). unfold priv_bytes, ser256.
    rewrite Hk, Z.mod_small by exact Hr. reflexivity.
  Qed.

  Lemma pub_bytes_rel : forall ik sk, key_rel ik sk -> pub_bytes ik = serP (fst sk).
  Proof.
    intros ik sk (Hk & _ & _ & _ & Hr). unfold pub_bytes.
    rewrite Hk, Z.mod_small by exact Hr. reflexivity.
  Qed.

  Lemma derive_path_impl_app : forall p1 p2 k,
    derive_path_impl k (p1 ++ p2) =
    match derive_path_impl k p1 with Some k' => derive_path_impl k' p2 | None => None end.
  Proof.
    induction p1 as [|i r IH]; intros p2 k; [reflexivity|].
    cbn [app derive_path_impl]. destruct (derive_impl k i) as [k'|]; [apply IH|reflexivity].
  Qed.

  Lemma zero_on_path_app : forall p1 p2 k,
    zero_on_path k (p1 ++ p2) <->
    (zero_on_path k p1 \/
     exists k', derive_path_impl k p1 = Some k' /\ zero_on_path k' p2).
  Proof.
    induction p1 as [|i r IH]; intros p2 k.
    - cbn [app zero_on_path derive_path_impl]. split.
      + intros H. right. exists k. split; [reflexivity|exact H].
      + intros [H|(k' & Hk & H)]; [contradiction|]. inversion Hk; subst. exact H.
    - cbn [app zero_on_path derive_path_impl].
      destruct (derive_impl k i) as [k1|].
      + rewrite IH. tauto.
      + split; [contradiction|]. intros [H|(k' & Hk & _)]; [exact H|discriminate].
  Qed.
End Generic.

(* ---------- the executable instances ---------- *)

Definition bip32_master_spec : list Z -> option skey := master_spec hmac_sha512 secp_n.
Definition bip32_ckd_priv_spec : skey -> Z -> option skey := ckd_priv_spec hmac_sha512 pubkey_bytes secp_n.
Definition bip32_path_spec : skey -> list Z -> option skey := derive_path_spec hmac_sha512 pubkey_bytes secp_n.

Definition hd_new_master : list Z -> option ikey := master_impl hmac_sha512 secp_n.
Definition hd_derive : ikey -> Z -> option ikey := derive_impl hmac_sha512 pubkey_bytes secp_n.
Definition hd_priv_bytes : ikey -> list Z := priv_bytes secp_n.
Definition hd_pub_bytes : ikey -> list Z := pub_bytes pubkey_bytes secp_n.

Lemma secp_n_pos : 0 < secp_n.
Proof. reflexivity. Qed.
Lemma secp_n_256 : secp_n <= 2 ^ 256.
Proof. intros H. discriminate H. Qed.

(* BIP32 test vector 1: seed 000102030405060708090a0b0c0d0e0f.
   The expected private keys / chain codes are the payloads of the xprv strings of the BIP. *)
Definition tv1_seed : list Z := hexs "000102030405060708090a0b0c0d0e0f".

Example tv1_m : bip32_master_spec tv1_seed =
  Some (0xe8f32e723decf4051aefac8e2c93c9c5b214313817cdb01a1494b917c8436b35,
        hexs "873dff81c02f525623fd1fe5167eac3a55a049de3d314bb42ee227ffed37d508").
Proof. vm_check. Qed.

Example tv1_m_impl : hd_new_master tv1_seed =
  Some (hexs "e8f32e723decf4051aefac8e2c93c9c5b214313817cdb01a1494b917c8436b35",
        hexs "873dff81c02f525623fd1fe5167eac3a55a049de3d314bb42ee227ffed37d508").
Proof. vm_check. Qed.

(* m/0' (hardened: no point multiplication involved) *)
Example tv1_m_0h : bip32_path_spec
  (0xe8f32e723decf4051aefac8e2c93c9c5b214313817cdb01a1494b917c8436b35,
   hexs "873dff81c02f525623fd1fe5167eac3a55a049de3d314bb42ee227ffed37d508") [hardened_start + 0] =
  Some (0xedb2e14f9ee77d26dd93b4ecede8d16ed408ce149b6cd80b0715a2d911a0afea,
        hexs "47fdacbd0f1097043b78c63c20c34ef4ed9a111d980047ad16282c7ae6236141").
Proof. vm_check. Qed.

(* m/0'/1 is a NON-hardened step: I = HMAC(cpar, serP(point(kpar)) || ser32(1)).  One 256-bit
   scalar multiplication costs about 40 s in the VM, so the Example below fixes
   serP(point(k_{m/0'})) to the 33 bytes the BIP publishes for m/0' (the key inside its xpub)
   and checks everything else of the step; the same step and the whole chain
   m/0'/1/2' with the real [pubkey_bytes], both in the text-shaped and in the
   hdkeychain-shaped version, are compared with hdkeychain through the extracted runner as
   the fixed first cases of the c11-prims stream (run_crypto cases 10 and 12). *)
Definition tv1_m_0h_pub : list Z :=
  hexs "035a784662a4a20a65bf6aab9ae98a6c068a81c52e4b032c0fb5400c706cfccc56".

Example tv1_m_0h_1 : ckd_priv_spec hmac_sha512 (fun _ => tv1_m_0h_pub) secp_n
  (0xedb2e14f9ee77d26dd93b4ecede8d16ed408ce149b6cd80b0715a2d911a0afea,
   hexs "47fdacbd0f1097043b78c63c20c34ef4ed9a111d980047ad16282c7ae6236141") 1 =
  Some (0x3c6cb8d0f6a264c91ea8b5030fadaa8e538b020f0a387421a12de9319dc93368,
        hexs "2a7857631386ba23dacac34180dd1983734e444fdbf774041578e9b6adb37c19").
Proof. vm_check. Qed.

(* m/0'/1/2' *)
Example tv1_m_0h_1_2h : bip32_ckd_priv_spec
  (0x3c6cb8d0f6a264c91ea8b5030fadaa8e538b020f0a387421a12de9319dc93368,
   hexs "2a7857631386ba23dacac34180dd1983734e444fdbf774041578e9b6adb37c19") (hardened_start + 2) =
  Some (0xcbce0d719ecf7431d88e6a89fa1483e02e35092af60c042b1df2ff59fa424dca,
        hexs "04466b9cc8e161e966409ca52986c584f07e9dc81f735db683c3ff6ec7b1503f").
Proof. vm_check. Qed.

(* the implementation-shaped functions: master and the hardened step with the real functions,
   then m/0'/1/2' with serP fixed as above *)
Example tv1_impl_0h :
  match hd_new_master tv1_seed with
  | Some m => option_map hd_priv_bytes (hd_derive m (hardened_start + 0))
  | None => None
  end = Some (hexs "edb2e14f9ee77d26dd93b4ecede8d16ed408ce149b6cd80b0715a2d911a0afea").
Proof. vm_check. Qed.

Example tv1_impl_path :
  match hd_new_master tv1_seed with
  | Some m => option_map hd_priv_bytes
                (derive_path_impl hmac_sha512 (fun _ => tv1_m_0h_pub) secp_n m
                   [hardened_start + 0; 1; hardened_start + 2])
  | None => None
  end = Some (hexs "cbce0d719ecf7431d88e6a89fa1483e02e35092af60c042b1df2ff59fa424dca").
Proof. vm_check. Qed.

(* seed length limits *)
Example master_short_seed : hd_new_master (repeat 1 15) = None /\ bip32_master_spec (repeat 1 15) = None.
Proof. vm_compute. split; reflexivity. Qed.
Example master_long_seed : hd_new_master (repeat 1 65) = None /\ bip32_master_spec (repeat 1 65) = None.
Proof. vm_compute. split; reflexivity. Qed.
