(* Generic byte-string helpers for the bit-level crypto models (C10/C11/C09).
   A byte string is a [list Z] whose elements are in 0..255.  Numbers are [Z] everywhere;
   [nat] only as a length. *)
From Coq Require Import Ascii String ZArith List Bool Lia.
Import ListNotations.
Open Scope Z_scope.

Definition is_byte (b : Z) : Prop := 0 <= b < 256.
Definition bytes_ok (l : list Z) : Prop := Forall is_byte l.

Definition zlen (l : list Z) : Z := Z.of_nat (length l).

(* ---- integers <-> bytes ---- *)

(* I2OSP / ser32 / ser256 / int.to_bytes(n,'big'): the n low-order bytes of z, most significant first *)
Fixpoint be_bytes (n : nat) (z : Z) : list Z :=
  match n with
  | O => []
  | S n' => be_bytes n' (z / 256) ++ [z mod 256]
  end.

(* int.to_bytes(n,'little') *)
Fixpoint le_bytes (n : nat) (z : Z) : list Z :=
  match n with
  | O => []
  | S n' => z mod 256 :: le_bytes n' (z / 256)
  end.

(* OS2IP / parse256 / int.from_bytes(b,'big') *)
Definition be_to_Z (l : list Z) : Z := fold_left (fun a b => a * 256 + b) l 0.

Fixpoint strip_zeros (l : list Z) : list Z :=
  match l with
  | 0 :: r => strip_zeros r
  | _ => l
  end.

(* right-align l in a zero-filled buffer of n bytes (Go: copy(data[n-len(l):], l)) *)
Definition pad_left (n : nat) (l : list Z) : list Z := repeat 0 (n - length l) ++ l.

Definition xor_bytes (c : Z) (l : list Z) : list Z := map (fun b => Z.lxor b c) l.

(* ---- hex ---- *)

Definition hex_char (d : Z) : Z := if d <? 10 then 48 + d else 87 + d.

(* encoding/hex.EncodeToString: lower case *)
Definition hex_encode (l : list Z) : list Z :=
  flat_map (fun b => [hex_char (b / 16); hex_char (b mod 16)]) l.

Definition hex_val (c : Z) : option Z :=
  if (48 <=? c) && (c <=? 57) then Some (c - 48)
  else if (97 <=? c) && (c <=? 102) then Some (c - 87)
  else if (65 <=? c) && (c <=? 70) then Some (c - 55)
  else None.

(* encoding/hex.DecodeString: both cases accepted; odd length or a foreign character is an error *)
Fixpoint hex_decode (l : list Z) : option (list Z) :=
  match l with
  | [] => Some []
  | [_] => None
  | h :: lo :: r =>
      match hex_val h, hex_val lo, hex_decode r with
      | Some a, Some b, Some bs => Some (a * 16 + b :: bs)
      | _, _, _ => None
      end
  end.

(* ---- text literals (only used under Eval vm_compute and in Examples) ---- *)

Definition str (s : string) : list Z :=
  map (fun a => Z.of_N (N_of_ascii a)) (list_ascii_of_string s).

Definition hexs (s : string) : list Z :=
  match hex_decode (str s) with Some l => l | None => [] end.

(* Closes a goal [l = r] between closed terms by ONE evaluation in the VM: the kernel compares
   the normal forms when it checks the cast at Qed.  ([vm_compute. reflexivity.] evaluates
   twice: once in the tactic and once more at Qed.) *)
Ltac vm_check := match goal with |- ?l = ?r => vm_cast_no_check (@eq_refl _ r) end.

(* ---- lemmas ---- *)

Lemma be_bytes_length : forall n z, length (be_bytes n z) = n.
Proof.
  induction n as [|n IH]; intros z; cbn [be_bytes]; [reflexivity|].
  rewrite app_length, IH. cbn [length]. lia.
Qed.

Lemma be_bytes_ok : forall n z, bytes_ok (be_bytes n z).
Proof.
  induction n as [|n IH]; intros z; cbn [be_bytes]; [constructor|].
  apply Forall_app. split; [apply IH|].
  constructor; [|constructor]. unfold is_byte. apply Z.mod_pos_bound. lia.
Qed.

Lemma le_bytes_length : forall n z, length (le_bytes n z) = n.
Proof.
  induction n as [|n IH]; intros z; cbn [le_bytes length]; [reflexivity|]. now rewrite IH.
Qed.

Lemma be_to_Z_snoc : forall l b, be_to_Z (l ++ [b]) = be_to_Z l * 256 + b.
Proof. intros l b. unfold be_to_Z. rewrite fold_left_app. reflexivity. Qed.

Lemma be_to_Z_be_bytes : forall n z, be_to_Z (be_bytes n z) = z mod 256 ^ Z.of_nat n.
Proof.
  induction n as [|n IH]; intros z.
  - cbn [be_bytes]. unfold be_to_Z. cbn [fold_left]. now rewrite Z.pow_0_r, Z.mod_1_r.
  - cbn [be_bytes]. rewrite be_to_Z_snoc, IH.
    rewrite Nat2Z.inj_succ, Z.pow_succ_r by lia.
    assert (Hp : 0 < 256 ^ Z.of_nat n) by (apply Z.pow_pos_nonneg; lia).
    rewrite (Z.rem_mul_r z 256 (256 ^ Z.of_nat n)) by lia. lia.
Qed.

Lemma be_bytes_be_to_Z : forall l, bytes_ok l -> be_bytes (length l) (be_to_Z l) = l.
Proof.
  intros l. induction l as [|b l IH] using rev_ind; intros Hok; [reflexivity|].
  apply Forall_app in Hok. destruct Hok as [Hl Hb].
  assert (Hb' : 0 <= b < 256) by (inversion Hb; assumption).
  rewrite app_length. cbn [length]. rewrite Nat.add_1_r. cbn [be_bytes].
  rewrite be_to_Z_snoc.
  replace ((be_to_Z l * 256 + b) / 256) with (be_to_Z l)
    by (rewrite Z.div_add_l, Z.div_small by lia; lia).
  replace ((be_to_Z l * 256 + b) mod 256) with b
    by (rewrite Z.add_comm, Z.mod_add, Z.mod_small by lia; lia).
  now rewrite IH.
Qed.

Lemma be_to_Z_nonneg : forall l, bytes_ok l -> 0 <= be_to_Z l.
Proof.
  intros l. induction l as [|b l IH] using rev_ind; intros Hok; [unfold be_to_Z; cbn; lia|].
  apply Forall_app in Hok. destruct Hok as [Hl Hb].
  assert (Hb' : 0 <= b < 256) by (inversion Hb; assumption).
  rewrite be_to_Z_snoc. specialize (IH Hl). lia.
Qed.

Lemma be_to_Z_cons_zero : forall l, be_to_Z (0 :: l) = be_to_Z l.
Proof. intros l. unfold be_to_Z. cbn [fold_left]. reflexivity. Qed.

Lemma be_to_Z_strip : forall l, be_to_Z (strip_zeros l) = be_to_Z l.
Proof.
  induction l as [|b l IH]; [reflexivity|].
  destruct b as [|p|p]; cbn [strip_zeros]; [|reflexivity|reflexivity].
  now rewrite IH, be_to_Z_cons_zero.
Qed.

Lemma strip_zeros_length : forall l, (length (strip_zeros l) <= length l)%nat.
Proof.
  induction l as [|b l IH]; [cbn; lia|].
  destruct b as [|p|p]; cbn [strip_zeros length]; lia.
Qed.

Lemma repeat_snoc : forall (x : Z) k, repeat x (S k) = repeat x k ++ [x].
Proof.
  intros x k. induction k as [|k IH]; [reflexivity|].
  cbn [repeat app] in *. now rewrite <- IH.
Qed.

(* Right-aligning the zero-stripped key gives the same buffer as right-aligning the key itself:
   this is what distinguishes hdkeychain's Derive from the pre-#172 DeriveNonStandard. *)
Lemma pad_left_strip : forall n l, (length l <= n)%nat -> pad_left n (strip_zeros l) = pad_left n l.
Proof.
  intros n l. induction l as [|b l IH]; intros Hlen; [reflexivity|].
  destruct b as [|p|p]; cbn [strip_zeros]; [|reflexivity|reflexivity].
  cbn [length] in Hlen. rewrite IH by lia. unfold pad_left. cbn [length].
  replace (n - length l)%nat with (S (n - S (length l)))%nat by lia.
  rewrite repeat_snoc, <- app_assoc. reflexivity.
Qed.

Lemma pad_left_full : forall n l, length l = n -> pad_left n l = l.
Proof. intros n l H. unfold pad_left. rewrite H, Nat.sub_diag. reflexivity. Qed.

Lemma pad_left_succ : forall n l, (length l <= n)%nat -> pad_left (S n) l = 0 :: pad_left n l.
Proof.
  intros n l H. unfold pad_left.
  replace (S n - length l)%nat with (S (n - length l))%nat by lia. reflexivity.
Qed.

Lemma hex_val_char : forall d, 0 <= d < 16 -> hex_val (hex_char d) = Some d.
Proof.
  intros d Hd.
  assert (H : d = 0 \/ d = 1 \/ d = 2 \/ d = 3 \/ d = 4 \/ d = 5 \/ d = 6 \/ d = 7 \/
              d = 8 \/ d = 9 \/ d = 10 \/ d = 11 \/ d = 12 \/ d = 13 \/ d = 14 \/ d = 15) by lia.
  repeat (destruct H as [H|H]; [subst d; reflexivity|]). subst d; reflexivity.
Qed.

Lemma hex_decode_encode : forall l, bytes_ok l -> hex_decode (hex_encode l) = Some l.
Proof.
  induction l as [|b l IH]; intros Hok; [reflexivity|].
  inversion Hok as [|b' l' Hb Hl]; subst.
  unfold is_byte in Hb.
  cbn [hex_encode flat_map app]. fold (hex_encode l).
  cbn [hex_decode].
  rewrite hex_val_char by (split; [apply Z.div_pos; lia | apply Z.div_lt_upper_bound; lia]).
  rewrite hex_val_char by (apply Z.mod_pos_bound; lia).
  rewrite (IH Hl).
  f_equal. f_equal. rewrite (Z.div_mod b 16) at 3 by lia. lia.
Qed.

Lemma hex_encode_length : forall l, length (hex_encode l) = (2 * length l)%nat.
Proof.
  induction l as [|b l IH]; [reflexivity|].
  cbn [hex_encode flat_map app length]. fold (hex_encode l). rewrite IH. lia.
Qed.

Lemma hex_val_range : forall c v, hex_val c = Some v -> 0 <= v < 16.
Proof.
  intros c v. unfold hex_val.
  destruct ((48 <=? c) && (c <=? 57)) eqn:E1.
  { intros H; inversion H; subst. apply andb_true_iff in E1. destruct E1 as [A B].
    apply Z.leb_le in A. apply Z.leb_le in B. lia. }
  destruct ((97 <=? c) && (c <=? 102)) eqn:E2.
  { intros H; inversion H; subst. apply andb_true_iff in E2. destruct E2 as [A B].
    apply Z.leb_le in A. apply Z.leb_le in B. lia. }
  destruct ((65 <=? c) && (c <=? 70)) eqn:E3.
  { intros H; inversion H; subst. apply andb_true_iff in E3. destruct E3 as [A B].
    apply Z.leb_le in A. apply Z.leb_le in B. lia. }
  discriminate.
Qed.

(* two-step induction principle matching hex_decode's recursion *)
Lemma list_pair_ind (P : list Z -> Prop) :
  P [] -> (forall a, P [a]) -> (forall a b r, P r -> P (a :: b :: r)) -> forall l, P l.
Proof.
  intros H0 H1 H2.
  assert (H : forall l, P l /\ forall a, P (a :: l)).
  { induction l as [|x l [IHa IHb]]; split; auto. }
  intros l. apply H.
Qed.

Lemma hex_decode_ok : forall s l, hex_decode s = Some l -> bytes_ok l.
Proof.
  intros s. induction s as [|a|a b r IH] using list_pair_ind; intros l H.
  - inversion H. constructor.
  - discriminate.
  - cbn [hex_decode] in H.
    destruct (hex_val a) as [x|] eqn:Ea; [|discriminate].
    destruct (hex_val b) as [y|] eqn:Eb; [|discriminate].
    destruct (hex_decode r) as [bs|] eqn:Er; [|discriminate].
    inversion H; subst. apply hex_val_range in Ea. apply hex_val_range in Eb.
    constructor; [unfold is_byte; lia | apply IH; reflexivity].
Qed.

Lemma hex_decode_length : forall s l, hex_decode s = Some l -> length s = (2 * length l)%nat.
Proof.
  intros s. induction s as [|a|a b r IH] using list_pair_ind; intros l H.
  - inversion H. reflexivity.
  - discriminate.
  - cbn [hex_decode] in H.
    destruct (hex_val a) as [x|]; [|discriminate].
    destruct (hex_val b) as [y|]; [|discriminate].
    destruct (hex_decode r) as [bs|] eqn:Er; [|discriminate].
    inversion H; subst. cbn [length]. rewrite (IH bs eq_refl). lia.
Qed.

(* little-endian bytes by shifting and masking (binary.LittleEndian.PutUint32) agree with
   the arithmetic definition *)
Lemma land_255 : forall x, 0 <= x -> Z.land x 255 = x mod 256.
Proof. intros x Hx. change 255 with (Z.ones 8). rewrite Z.land_ones by lia. reflexivity. Qed.

Lemma shiftr_div : forall x k, 0 <= k -> Z.shiftr x k = x / 2 ^ k.
Proof. intros x k Hk. apply Z.shiftr_div_pow2. assumption. Qed.

Lemma lor_shiftl_add : forall a b k, 0 <= k -> 0 <= b < 2 ^ k ->
  Z.lor (Z.shiftl a k) b = a * 2 ^ k + b.
Proof.
  intros a b k Hk Hb.
  assert (Hland : Z.land (Z.shiftl a k) b = 0).
  { apply Z.bits_inj'. intros i Hi. rewrite Z.land_spec, Z.bits_0.
    destruct (Z.ltb_spec i k) as [Hlt|Hge].
    - rewrite Z.shiftl_spec_low by assumption. reflexivity.
    - replace b with (b mod 2 ^ k) by (apply Z.mod_small; assumption).
      rewrite Z.mod_pow2_bits_high by lia. apply andb_false_r. }
  rewrite <- Z.lxor_lor by assumption.
  rewrite <- Z.add_nocarry_lxor by assumption.
  rewrite Z.shiftl_mul_pow2 by assumption. reflexivity.
Qed.
