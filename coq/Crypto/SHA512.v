(* SHA-512 (FIPS 180-4) over byte lists, executable.  Words are Z in [0, 2^64). *)
From Coq Require Import Ascii String ZArith List Bool Lia.
From Verif Require Import Bytes.
Import ListNotations.
Open Scope Z_scope.

Module SHA512.

Definition w64 : Z := 18446744073709551616.
Definition mask64 : Z := 18446744073709551615.

Definition add64 (a b : Z) : Z := (a + b) mod w64.
Definition rotr (n x : Z) : Z := Z.lor (Z.shiftr x n) (Z.shiftl x (64 - n) mod w64).
Definition shr (n x : Z) : Z := Z.shiftr x n.
Definition not64 (x : Z) : Z := Z.lxor x mask64.

Definition Ch (x y z : Z) : Z := Z.lxor (Z.land x y) (Z.land (not64 x) z).
Definition Maj (x y z : Z) : Z := Z.lxor (Z.lxor (Z.land x y) (Z.land x z)) (Z.land y z).
Definition bsig0 (x : Z) : Z := Z.lxor (Z.lxor (rotr 28 x) (rotr 34 x)) (rotr 39 x).
Definition bsig1 (x : Z) : Z := Z.lxor (Z.lxor (rotr 14 x) (rotr 18 x)) (rotr 41 x).
Definition ssig0 (x : Z) : Z := Z.lxor (Z.lxor (rotr 1 x) (rotr 8 x)) (shr 7 x).
Definition ssig1 (x : Z) : Z := Z.lxor (Z.lxor (rotr 19 x) (rotr 61 x)) (shr 6 x).

Definition K : list Z :=
  [0x428a2f98d728ae22; 0x7137449123ef65cd; 0xb5c0fbcfec4d3b2f; 0xe9b5dba58189dbbc;
   0x3956c25bf348b538; 0x59f111f1b605d019; 0x923f82a4af194f9b; 0xab1c5ed5da6d8118;
   0xd807aa98a3030242; 0x12835b0145706fbe; 0x243185be4ee4b28c; 0x550c7dc3d5ffb4e2;
   0x72be5d74f27b896f; 0x80deb1fe3b1696b1; 0x9bdc06a725c71235; 0xc19bf174cf692694;
   0xe49b69c19ef14ad2; 0xefbe4786384f25e3; 0x0fc19dc68b8cd5b5; 0x240ca1cc77ac9c65;
   0x2de92c6f592b0275; 0x4a7484aa6ea6e483; 0x5cb0a9dcbd41fbd4; 0x76f988da831153b5;
   0x983e5152ee66dfab; 0xa831c66d2db43210; 0xb00327c898fb213f; 0xbf597fc7beef0ee4;
   0xc6e00bf33da88fc2; 0xd5a79147930aa725; 0x06ca6351e003826f; 0x142929670a0e6e70;
   0x27b70a8546d22ffc; 0x2e1b21385c26c926; 0x4d2c6dfc5ac42aed; 0x53380d139d95b3df;
   0x650a73548baf63de; 0x766a0abb3c77b2a8; 0x81c2c92e47edaee6; 0x92722c851482353b;
   0xa2bfe8a14cf10364; 0xa81a664bbc423001; 0xc24b8b70d0f89791; 0xc76c51a30654be30;
   0xd192e819d6ef5218; 0xd69906245565a910; 0xf40e35855771202a; 0x106aa07032bbd1b8;
   0x19a4c116b8d2d0c8; 0x1e376c085141ab53; 0x2748774cdf8eeb99; 0x34b0bcb5e19b48a8;
   0x391c0cb3c5c95a63; 0x4ed8aa4ae3418acb; 0x5b9cca4f7763e373; 0x682e6ff3d6b2b8a3;
   0x748f82ee5defb2fc; 0x78a5636f43172f60; 0x84c87814a1f0ab72; 0x8cc702081a6439ec;
   0x90befffa23631e28; 0xa4506cebde82bde9; 0xbef9a3f7b2c67915; 0xc67178f2e372532b;
   0xca273eceea26619c; 0xd186b8c721c0c207; 0xeada7dd6cde0eb1e; 0xf57d4f7fee6ed178;
   0x06f067aa72176fba; 0x0a637dc5a2c898a6; 0x113f9804bef90dae; 0x1b710b35131c471b;
   0x28db77f523047d84; 0x32caab7b40c72493; 0x3c9ebe0a15c9bebc; 0x431d67c49c100d4c;
   0x4cc5d4becb3e42b6; 0x597f299cfc657e2a; 0x5fcb6fab3ad6faec; 0x6c44198c4a475817].

Record state := mkSt { sa : Z; sb : Z; sc : Z; sd : Z; se : Z; sf : Z; sg : Z; sh : Z }.

Definition H0 : state :=
  mkSt 0x6a09e667f3bcc908 0xbb67ae8584caa73b 0x3c6ef372fe94f82b 0xa54ff53a5f1d36f1
       0x510e527fade682d1 0x9b05688c2b3e6c1f 0x1f83d9abfb41bd6b 0x5be0cd19137e2179.

Definition step (k w : Z) (s : state) : state :=
  let t1 := add64 (add64 (add64 (sh s) (bsig1 (se s))) (add64 (Ch (se s) (sf s) (sg s)) k)) w in
  let t2 := add64 (bsig0 (sa s)) (Maj (sa s) (sb s) (sc s)) in
  mkSt (add64 t1 t2) (sa s) (sb s) (sc s) (add64 (sd s) t1) (se s) (sf s) (sg s).

Fixpoint rounds (ks ws win : list Z) (s : state) : state :=
  match ks with
  | [] => s
  | k :: ks' =>
      let '(w, ws') :=
        match ws with
        | w :: ws' => (w, ws')
        | [] => (add64 (add64 (ssig1 (nth 1 win 0)) (nth 6 win 0))
                       (add64 (ssig0 (nth 14 win 0)) (nth 15 win 0)), [])
        end in
      rounds ks' ws' (w :: firstn 15 win) (step k w s)
  end.

(* 128 bytes -> 16 big-endian 64-bit words *)
Fixpoint words (n : nat) (l : list Z) : list Z :=
  match n with
  | O => []
  | S n' => be_to_Z (firstn 8 l) :: words n' (skipn 8 l)
  end.

Definition compress (h : state) (block : list Z) : state :=
  let r := rounds K (words 16 block) [] h in
  mkSt (add64 (sa h) (sa r)) (add64 (sb h) (sb r)) (add64 (sc h) (sc r)) (add64 (sd h) (sd r))
       (add64 (se h) (se r)) (add64 (sf h) (sf r)) (add64 (sg h) (sg r)) (add64 (sh h) (sh r)).

(* padding: 0x80, zeros up to 112 mod 128, then the bit length as 16 big-endian bytes *)
Definition pad (msg : list Z) : list Z :=
  let len := zlen msg in
  msg ++ [128] ++ repeat 0 (Z.to_nat ((111 - len) mod 128)) ++ be_bytes 16 (8 * len).

Fixpoint blocks (fuel : nat) (h : state) (l : list Z) : state :=
  match fuel with
  | O => h
  | S f =>
      match l with
      | [] => h
      | _ => blocks f (compress h (firstn 128 l)) (skipn 128 l)
      end
  end.

Definition digest (s : state) : list Z :=
  be_bytes 8 (sa s) ++ be_bytes 8 (sb s) ++ be_bytes 8 (sc s) ++ be_bytes 8 (sd s) ++
  be_bytes 8 (se s) ++ be_bytes 8 (sf s) ++ be_bytes 8 (sg s) ++ be_bytes 8 (sh s).

End SHA512.

Definition sha512 (msg : list Z) : list Z :=
  let p := SHA512.pad msg in
  SHA512.digest (SHA512.blocks (S (length p / 128)) SHA512.H0 p).

Lemma sha512_length : forall m, length (sha512 m) = 64%nat.
Proof.
  intros m. unfold sha512, SHA512.digest.
  repeat rewrite app_length. repeat rewrite be_bytes_length. reflexivity.
Qed.

Lemma sha512_ok : forall m, bytes_ok (sha512 m).
Proof.
  intros m. unfold sha512, SHA512.digest.
  repeat (apply Forall_app; split; [apply be_bytes_ok|]). apply be_bytes_ok.
Qed.

Example sha512_empty :
  sha512 [] = hexs "cf83e1357eefb8bdf1542850d66d8007d620e4050b5715dc83f4a921d36ce9ce47d0d13c5d85f2b0ff8318d2877eec2f63b931bd47417a81a538327af927da3e".
Proof. vm_check. Qed.

Example sha512_abc :
  sha512 (str "abc") = hexs "ddaf35a193617abacc417349ae20413112e6fa4e89a97ea20a9eeee64b55d39a2192992a274fc1a836ba3c23a3feebbd454d4423643ce80e2a9ac94fa54ca49f".
Proof. vm_check. Qed.

(* padding boundary: 111, 112 and 128 bytes of 'a' *)
Example sha512_111a :
  sha512 (repeat 97 111) = hexs "fa9121c7b32b9e01733d034cfc78cbf67f926c7ed83e82200ef86818196921760b4beff48404df811b953828274461673c68d04e297b0eb7b2b4d60fc6b566a2".
Proof. vm_check. Qed.
Example sha512_112a :
  sha512 (repeat 97 112) = hexs "c01d080efd492776a1c43bd23dd99d0a2e626d481e16782e75d54c2503b5dc32bd05f0f1ba33e568b88fd2d970929b719ecbb152f58f130a407c8830604b70ca".
Proof. vm_check. Qed.
Example sha512_128a :
  sha512 (repeat 97 128) = hexs "b73d1929aa615934e61a871596b3f3b33359f42b8175602e89f7e06e5f658a243667807ed300314b95cacdd579f3e33abdfbe351909519a846d465c59582f321".
Proof. vm_check. Qed.
