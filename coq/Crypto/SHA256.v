(* SHA-256 (FIPS 180-4) over byte lists, executable.  Words are Z in [0, 2^32). *)
From Coq Require Import Ascii String ZArith List Bool Lia.
From Verif Require Import Bytes.
Import ListNotations.
Open Scope Z_scope.

Module SHA256.

Definition w32 : Z := 4294967296.
Definition mask32 : Z := 4294967295.

Definition add32 (a b : Z) : Z := (a + b) mod w32.
Definition rotr (n x : Z) : Z := Z.lor (Z.shiftr x n) (Z.shiftl x (32 - n) mod w32).
Definition shr (n x : Z) : Z := Z.shiftr x n.
Definition not32 (x : Z) : Z := Z.lxor x mask32.

Definition Ch (x y z : Z) : Z := Z.lxor (Z.land x y) (Z.land (not32 x) z).
Definition Maj (x y z : Z) : Z := Z.lxor (Z.lxor (Z.land x y) (Z.land x z)) (Z.land y z).
Definition bsig0 (x : Z) : Z := Z.lxor (Z.lxor (rotr 2 x) (rotr 13 x)) (rotr 22 x).
Definition bsig1 (x : Z) : Z := Z.lxor (Z.lxor (rotr 6 x) (rotr 11 x)) (rotr 25 x).
Definition ssig0 (x : Z) : Z := Z.lxor (Z.lxor (rotr 7 x) (rotr 18 x)) (shr 3 x).
Definition ssig1 (x : Z) : Z := Z.lxor (Z.lxor (rotr 17 x) (rotr 19 x)) (shr 10 x).

Definition K : list Z :=
  [0x428a2f98; 0x71374491; 0xb5c0fbcf; 0xe9b5dba5; 0x3956c25b; 0x59f111f1; 0x923f82a4; 0xab1c5ed5;
   0xd807aa98; 0x12835b01; 0x243185be; 0x550c7dc3; 0x72be5d74; 0x80deb1fe; 0x9bdc06a7; 0xc19bf174;
   0xe49b69c1; 0xefbe4786; 0x0fc19dc6; 0x240ca1cc; 0x2de92c6f; 0x4a7484aa; 0x5cb0a9dc; 0x76f988da;
   0x983e5152; 0xa831c66d; 0xb00327c8; 0xbf597fc7; 0xc6e00bf3; 0xd5a79147; 0x06ca6351; 0x14292967;
   0x27b70a85; 0x2e1b2138; 0x4d2c6dfc; 0x53380d13; 0x650a7354; 0x766a0abb; 0x81c2c92e; 0x92722c85;
   0xa2bfe8a1; 0xa81a664b; 0xc24b8b70; 0xc76c51a3; 0xd192e819; 0xd6990624; 0xf40e3585; 0x106aa070;
   0x19a4c116; 0x1e376c08; 0x2748774c; 0x34b0bcb5; 0x391c0cb3; 0x4ed8aa4a; 0x5b9cca4f; 0x682e6ff3;
   0x748f82ee; 0x78a5636f; 0x84c87814; 0x8cc70208; 0x90befffa; 0xa4506ceb; 0xbef9a3f7; 0xc67178f2].

(* working variables a..h, also used for the chaining value H0..H7 *)
Record state := mkSt { sa : Z; sb : Z; sc : Z; sd : Z; se : Z; sf : Z; sg : Z; sh : Z }.

Definition H0 : state :=
  mkSt 0x6a09e667 0xbb67ae85 0x3c6ef372 0xa54ff53a 0x510e527f 0x9b05688c 0x1f83d9ab 0x5be0cd19.

Definition step (k w : Z) (s : state) : state :=
  let t1 := add32 (add32 (add32 (sh s) (bsig1 (se s))) (add32 (Ch (se s) (sf s) (sg s)) k)) w in
  let t2 := add32 (bsig0 (sa s)) (Maj (sa s) (sb s) (sc s)) in
  mkSt (add32 t1 t2) (sa s) (sb s) (sc s) (add32 (sd s) t1) (se s) (sf s) (sg s).

(* ks: remaining round constants; ws: the message words not yet consumed (rounds 0..15);
   win: the previous sixteen schedule words, newest first. *)
Fixpoint rounds (ks ws win : list Z) (s : state) : state :=
  match ks with
  | [] => s
  | k :: ks' =>
      let '(w, ws') :=
        match ws with
        | w :: ws' => (w, ws')
        | [] => (add32 (add32 (ssig1 (nth 1 win 0)) (nth 6 win 0))
                       (add32 (ssig0 (nth 14 win 0)) (nth 15 win 0)), [])
        end in
      rounds ks' ws' (w :: firstn 15 win) (step k w s)
  end.

(* 64 bytes -> 16 big-endian words *)
Fixpoint words (n : nat) (l : list Z) : list Z :=
  match n with
  | O => []
  | S n' => be_to_Z (firstn 4 l) :: words n' (skipn 4 l)
  end.

Definition compress (h : state) (block : list Z) : state :=
  let r := rounds K (words 16 block) [] h in
  mkSt (add32 (sa h) (sa r)) (add32 (sb h) (sb r)) (add32 (sc h) (sc r)) (add32 (sd h) (sd r))
       (add32 (se h) (se r)) (add32 (sf h) (sf r)) (add32 (sg h) (sg r)) (add32 (sh h) (sh r)).

(* padding: 0x80, zeros up to 56 mod 64, then the bit length as 8 big-endian bytes *)
Definition pad (msg : list Z) : list Z :=
  let len := zlen msg in
  msg ++ [128] ++ repeat 0 (Z.to_nat ((55 - len) mod 64)) ++ be_bytes 8 (8 * len).

Fixpoint blocks (fuel : nat) (h : state) (l : list Z) : state :=
  match fuel with
  | O => h
  | S f =>
      match l with
      | [] => h
      | _ => blocks f (compress h (firstn 64 l)) (skipn 64 l)
      end
  end.

Definition digest (s : state) : list Z :=
  be_bytes 4 (sa s) ++ be_bytes 4 (sb s) ++ be_bytes 4 (sc s) ++ be_bytes 4 (sd s) ++
  be_bytes 4 (se s) ++ be_bytes 4 (sf s) ++ be_bytes 4 (sg s) ++ be_bytes 4 (sh s).

End SHA256.

Definition sha256 (msg : list Z) : list Z :=
  let p := SHA256.pad msg in
  SHA256.digest (SHA256.blocks (S (length p / 64)) SHA256.H0 p).

Lemma sha256_length : forall m, length (sha256 m) = 32%nat.
Proof.
  intros m. unfold sha256, SHA256.digest.
  repeat rewrite app_length. repeat rewrite be_bytes_length. reflexivity.
Qed.

Lemma sha256_ok : forall m, bytes_ok (sha256 m).
Proof.
  intros m. unfold sha256, SHA256.digest.
  repeat (apply Forall_app; split; [apply be_bytes_ok|]). apply be_bytes_ok.
Qed.

(* FIPS 180-4 / NIST example vectors *)
Example sha256_empty :
  sha256 [] = hexs "e3b0c44298fc1c149afbf4c8996fb92427ae41e4649b934ca495991b7852b855".
Proof. vm_check. Qed.

Example sha256_abc :
  sha256 (str "abc") = hexs "ba7816bf8f01cfea414140de5dae2223b00361a396177a9cb410ff61f20015ad".
Proof. vm_check. Qed.

(* two blocks *)
Example sha256_448bits :
  sha256 (str "abcdbcdecdefdefgefghfghighijhijkijkljklmklmnlmnomnopnopq")
  = hexs "248d6a61d20638b8e5c026930c3e6039a33ce45964ff2167f6ecedd419db06c1".
Proof. vm_check. Qed.

(* padding boundary: 55, 56 and 64 bytes of 'a' *)
Example sha256_55a :
  sha256 (repeat 97 55) = hexs "9f4390f8d30c2dd92ec9f095b65e2b9ae9b0a925a5258e241c9f1e910f734318".
Proof. vm_check. Qed.
Example sha256_56a :
  sha256 (repeat 97 56) = hexs "b35439a4ac6f0948b6d6f9e3c6af0f5f590ce20f1bde7090ef7970686ec6738a".
Proof. vm_check. Qed.
Example sha256_64a :
  sha256 (repeat 97 64) = hexs "ffe054fe7ae0cb6dc65c3af9b61d5209f439851db43d0ba5997337df154668eb".
Proof. vm_check. Qed.
