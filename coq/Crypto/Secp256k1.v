(* secp256k1 (SEC 2): y^2 = x^3 + 7 over F_p, affine coordinates, executable.
   Points are [option (Z*Z)], None = the point at infinity.  No group-law proofs here:
   what is proved elsewhere about hash_to_curve / BIP32 / NUT-13 is parametric in these
   functions; that these functions are the secp256k1 operations rests on the vectors below
   and on the bit-for-bit comparison with dcrd/secp256k1 in the harness. *)
From Coq Require Import Ascii String ZArith List Bool Lia.
From Verif Require Import Bytes.
Import ListNotations.
Open Scope Z_scope.

Definition secp_p : Z := 0xFFFFFFFFFFFFFFFFFFFFFFFFFFFFFFFFFFFFFFFFFFFFFFFFFFFFFFFEFFFFFC2F.
Definition secp_n : Z := 0xFFFFFFFFFFFFFFFFFFFFFFFFFFFFFFFEBAAEDCE6AF48A03BBFD25E8CD0364141.
Definition secp_Gx : Z := 0x79BE667EF9DCBBAC55A06295CE870B07029BFCDB2DCE28D959F2815B16F81798.
Definition secp_Gy : Z := 0x483ADA7726A3C4655DA4FBFC0E1108A8FD17B448A68554199C47D08FFB10D4B8.

Definition point : Type := option (Z * Z).
Definition secp_G : point := Some (secp_Gx, secp_Gy).

(* ---- modular arithmetic ---- *)

(* b^e mod m, square-and-multiply from the most significant bit *)
Fixpoint pow_mod_pos (b : Z) (e : positive) (m : Z) : Z :=
  match e with
  | xH => b mod m
  | xO e' => let r := pow_mod_pos b e' m in (r * r) mod m
  | xI e' => let r := pow_mod_pos b e' m in ((r * r) mod m * b) mod m
  end.

Definition pow_mod (b e m : Z) : Z :=
  match e with
  | Zpos q => pow_mod_pos b q m
  | _ => 1 mod m
  end.

(* extended Euclid: invariant s_i * a = r_i (mod m) *)
Fixpoint egcd (fuel : nat) (r0 r1 s0 s1 : Z) : Z :=
  match fuel with
  | O => s0
  | S f =>
      if r1 =? 0 then s0
      else let q := r0 / r1 in egcd f r1 (r0 - q * r1) s1 (s0 - q * s1)
  end.

(* more than enough for 256-bit operands (at most ~1.45 * 256 division steps) *)
Definition inv_fuel : nat := 600.

(* inverse of a modulo m (m prime, a <> 0 mod m); 0 for a = 0 mod m *)
Definition inv_mod (a m : Z) : Z := egcd inv_fuel m (a mod m) 0 1 mod m.

(* the same by Fermat, for cross-checking *)
Definition inv_fermat (a m : Z) : Z := pow_mod a (m - 2) m.

Definition fadd (a b : Z) : Z := (a + b) mod secp_p.
Definition fsub (a b : Z) : Z := (a - b) mod secp_p.
Definition fmul (a b : Z) : Z := (a * b) mod secp_p.
Definition finv (a : Z) : Z := inv_mod a secp_p.

(* ---- group law ---- *)

Definition on_curve (P : point) : bool :=
  match P with
  | None => true
  | Some (x, y) =>
      (0 <=? x) && (x <? secp_p) && (0 <=? y) && (y <? secp_p) &&
      (fmul y y =? fadd (fmul (fmul x x) x) 7)
  end.

Definition pt_neg (P : point) : point :=
  match P with
  | None => None
  | Some (x, y) => Some (x, (secp_p - y) mod secp_p)
  end.

Definition pt_double (P : point) : point :=
  match P with
  | None => None
  | Some (x, y) =>
      if y =? 0 then None
      else
        let l := fmul (fmul 3 (fmul x x)) (finv (fmul 2 y)) in
        let x3 := fsub (fmul l l) (fmul 2 x) in
        let y3 := fsub (fmul l (fsub x x3)) y in
        Some (x3, y3)
  end.

Definition pt_add (P Q : point) : point :=
  match P, Q with
  | None, _ => Q
  | _, None => P
  | Some (x1, y1), Some (x2, y2) =>
      if x1 =? x2 then
        if fadd y1 y2 =? 0 then None else pt_double P
      else
        let l := fmul (fsub y2 y1) (finv (fsub x2 x1)) in
        let x3 := fsub (fsub (fmul l l) x1) x2 in
        let y3 := fsub (fmul l (fsub x1 x3)) y1 in
        Some (x3, y3)
  end.

(* double-and-add on the binary expansion, most significant bit first, with the affine
   formulas above: the textbook definition of k*P (one modular inversion per step) *)
Fixpoint pt_mul_pos (k : positive) (P : point) : point :=
  match k with
  | xH => P
  | xO k' => pt_double (pt_mul_pos k' P)
  | xI k' => pt_add (pt_double (pt_mul_pos k' P)) P
  end.

Definition pt_mul_affine (k : Z) (P : point) : point :=
  match k with
  | Z0 => None
  | Zpos q => pt_mul_pos q P
  | Zneg q => pt_neg (pt_mul_pos q P)
  end.

(* The same double-and-add in Jacobian coordinates (x = X/Z^2, y = Y/Z^3; None = infinity),
   with a single inversion at the end: about six times faster once extracted, which is what
   the correspondence streams run.  Formulas: dbl-2009-l and madd-2007-bl (a = 0) of the
   Explicit-Formulas Database.  [pt_mul] and [pt_mul_affine] are both compared with dcrd
   (run_crypto cases 11 and 13); they are not proved equal here. *)
Definition jpoint : Type := option (Z * Z * Z).

Definition jac_double (P : jpoint) : jpoint :=
  match P with
  | None => None
  | Some (X1, Y1, Z1) =>
      if Y1 =? 0 then None
      else
        let A := fmul X1 X1 in
        let B := fmul Y1 Y1 in
        let C := fmul B B in
        let t := fadd X1 B in
        let D := fmul 2 (fsub (fsub (fmul t t) A) C) in
        let E := fmul 3 A in
        let F := fmul E E in
        let X3 := fsub F (fmul 2 D) in
        let Y3 := fsub (fmul E (fsub D X3)) (fmul 8 C) in
        let Z3 := fmul 2 (fmul Y1 Z1) in
        Some (X3, Y3, Z3)
  end.

(* Jacobian + affine (x2, y2) *)
Definition jac_add_affine (P : jpoint) (Q : Z * Z) : jpoint :=
  let '(x2, y2) := Q in
  match P with
  | None => Some (x2, y2, 1)
  | Some (X1, Y1, Z1) =>
      let Z1Z1 := fmul Z1 Z1 in
      let U2 := fmul x2 Z1Z1 in
      let S2 := fmul y2 (fmul Z1 Z1Z1) in
      let H := fsub U2 X1 in
      let R := fsub S2 Y1 in
      if H =? 0 then
        if R =? 0 then jac_double P else None
      else
        let HH := fmul H H in
        let HHH := fmul H HH in
        let V := fmul X1 HH in
        let X3 := fsub (fsub (fmul R R) HHH) (fmul 2 V) in
        let Y3 := fsub (fmul R (fsub V X3)) (fmul Y1 HHH) in
        let Z3 := fmul Z1 H in
        Some (X3, Y3, Z3)
  end.

Definition jac_to_affine (P : jpoint) : point :=
  match P with
  | None => None
  | Some (X, Y, Z1) =>
      let zi := finv Z1 in
      let zi2 := fmul zi zi in
      Some (fmul X zi2, fmul Y (fmul zi2 zi))
  end.

Fixpoint jac_mul_pos (k : positive) (Q : Z * Z) : jpoint :=
  match k with
  | xH => Some (fst Q, snd Q, 1)
  | xO k' => jac_double (jac_mul_pos k' Q)
  | xI k' => jac_add_affine (jac_double (jac_mul_pos k' Q)) Q
  end.

(* k*P for any integer k (not reduced modulo the group order) *)
Definition pt_mul (k : Z) (P : point) : point :=
  match P with
  | None => None
  | Some Q =>
      match k with
      | Z0 => None
      | Zpos q => jac_to_affine (jac_mul_pos q Q)
      | Zneg q => pt_neg (jac_to_affine (jac_mul_pos q Q))
      end
  end.

Definition pt_eqb (P Q : point) : bool :=
  match P, Q with
  | None, None => true
  | Some (x1, y1), Some (x2, y2) => (x1 =? x2) && (y1 =? y2)
  | _, _ => false
  end.

(* ---- encodings ---- *)

(* the point with abscissa x and even ordinate (dcrd DecompressY with odd = false):
   candidate root c^((p+1)/4), accepted only if its square is c *)
Definition lift_x (x : Z) : option (Z * Z) :=
  if (0 <=? x) && (x <? secp_p) then
    let c := fadd (fmul (fmul x x) x) 7 in
    let y := pow_mod c ((secp_p + 1) / 4) secp_p in
    if fmul y y =? c then Some (x, if Z.even y then y else secp_p - y) else None
  else None.

(* SEC1 compressed form.  Infinity has no encoding; dcrd serialises the all-zero
   coordinates it uses for it as 02 00..00, which no parser accepts - mirrored. *)
Definition compress (P : point) : list Z :=
  match P with
  | None => 2 :: repeat 0 32
  | Some (x, y) => (if Z.even y then 2 else 3) :: be_bytes 32 x
  end.

Definition serialize_uncompressed (P : point) : list Z :=
  match P with
  | None => 4 :: repeat 0 64
  | Some (x, y) => 4 :: be_bytes 32 x ++ be_bytes 32 y
  end.

(* 33 bytes, prefix 02/03, x < p, x^3+7 a square *)
Definition decompress (bs : list Z) : point :=
  match bs with
  | pre :: xs =>
      if (length xs =? 32)%nat && ((pre =? 2) || (pre =? 3)) then
        match lift_x (be_to_Z xs) with
        | Some (x, y) => Some (x, if pre =? 2 then y else (secp_p - y) mod secp_p)
        | None => None
        end
      else None
  | [] => None
  end.

(* public key of a private scalar, compressed: serP(point(k)) of BIP32 *)
Definition pubkey (k : Z) : point := pt_mul k secp_G.
Definition pubkey_bytes (k : Z) : list Z := compress (pubkey k).

Lemma compress_length : forall P, length (compress P) = 33%nat.
Proof.
  intros [[x y]|]; cbn [compress length]; [now rewrite be_bytes_length|reflexivity].
Qed.

Lemma some_pair_inj {A B : Type} (a a' : A) (b b' : B) :
  Some (a, b) = Some (a', b') -> a = a' /\ b = b'.
Proof. intros H. inversion H. split; reflexivity. Qed.

(* a lifted point satisfies the curve equation by construction (up to the sign choice) *)
Lemma lift_x_sound : forall x x' y, lift_x x = Some (x', y) ->
  x' = x /\ 0 <= x < secp_p /\
  exists y0, fmul y0 y0 = fadd (fmul (fmul x x) x) 7 /\ (y = y0 \/ y = secp_p - y0).
Proof.
  intros x x' y. unfold lift_x.
  destruct ((0 <=? x) && (x <? secp_p)) eqn:Hr; [|discriminate].
  apply andb_true_iff in Hr. destruct Hr as [Hr1 Hr2].
  apply Z.leb_le in Hr1. apply Z.ltb_lt in Hr2.
  remember (fadd (fmul (fmul x x) x) 7) as c eqn:Hc.
  remember (pow_mod c ((secp_p + 1) / 4) secp_p) as y0 eqn:Hy0.
  destruct (fmul y0 y0 =? c) eqn:E; [|discriminate].
  apply Z.eqb_eq in E. intros H. apply some_pair_inj in H. destruct H as [H1 H2].
  subst x' y.
  split; [reflexivity|]. split; [lia|]. exists y0. split; [exact E|].
  destruct (Z.even y0); [left|right]; reflexivity.
Qed.

(* ---- vectors ---- *)

Example G_on_curve : on_curve secp_G = true.
Proof. vm_check. Qed.

Example mul_1 : pt_mul 1 secp_G = secp_G.
Proof. vm_check. Qed.

Example mul_2 : pt_mul 2 secp_G =
  Some (0xC6047F9441ED7D6D3045406E95C07CD85C778E4B8CEF3CA7ABAC09B95C709EE5,
        0x1AE168FEA63DC339A3C58419466CEAEEF7F632653266D0E1236431A950CFE52A).
Proof. vm_check. Qed.

Example mul_3 : pt_mul 3 secp_G =
  Some (0xF9308A019258C31049344F85F89D5229B531C845836F99B08601F113BCE036F9,
        0x388F7B0F632DE8140FE337E62A37F3566500A99934C2231B6CB9FD7584B8E672).
Proof. vm_check. Qed.

(* the Euclidean inverse is an inverse (the Fermat version [inv_fermat] costs a 256-bit modular
   exponentiation, about 3 s in the VM, and is left to the reader) *)
Example inv_is_inverse :
  fmul 0x1234567 (inv_mod 0x1234567 secp_p) = 1 /\ fmul secp_Gy (finv secp_Gy) = 1 /\ finv 0 = 0.
Proof. vm_compute. repeat split; reflexivity. Qed.

Example compress_G :
  compress secp_G = hexs "0279be667ef9dcbbac55a06295ce870b07029bfcdb2dce28d959f2815b16f81798".
Proof. vm_check. Qed.

(* one square root (a 256-bit modular exponentiation, about 3 s in the VM) per decompression;
   03-prefixed and random points are compared with dcrd by the c11-prims stream *)
Example decompress_G : decompress (compress secp_G) = secp_G.
Proof. vm_check. Qed.

(* x = 0 is not on the curve; x >= p is refused *)
Example decompress_zero : decompress (2 :: repeat 0 32) = None.
Proof. vm_check. Qed.
Example decompress_overflow : decompress (2 :: be_bytes 32 (secp_p + 1)) = None.
Proof. vm_check. Qed.

(* The group order - n*G is the point at infinity, (n-1)*G = -G, and k*P for scalars k >= n
   against dcrd's reduced scalars - is checked through the extracted runner by the c11-prims
   stream (run_crypto cases 11 and 13: [pt_mul k P] / [pt_mul_affine k P] are computed on the UNREDUCED k, Go reduces k
   modulo n first; the two agree only if n is the order of P).  In the VM one 256-bit scalar
   multiplication costs 30-40 s (binary integers; [pt_mul_affine] does an extended-Euclid
   inversion per point operation), so these vectors are not Examples here:
     pt_mul secp_n secp_G = None          pt_mul (secp_n - 1) secp_G = pt_neg secp_G *)

(* cheap checks of the same kind; the two scalar multiplications agree on short scalars *)
Example mul_affine_agree :
  map (fun k => pt_mul k secp_G) [-3; 0; 1; 6; 7] =
  map (fun k => pt_mul_affine k secp_G) [-3; 0; 1; 6; 7].
Proof. vm_check. Qed.
Example add_neg_G : pt_add secp_G (pt_neg secp_G) = None.
Proof. vm_check. Qed.
Example add_2G_G : pt_add (pt_mul 2 secp_G) secp_G = pt_mul 3 secp_G.
Proof. vm_check. Qed.
