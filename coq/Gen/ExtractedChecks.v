(* Handwritten.  Pins what the model assumes about the tables and constants that
   tools/goextract reads out of the CURRENT Go sources (Gen/Extracted.v, generated).

   Every fact is a separate named lemma proved by computation, so that when the
   code changes (an error code, a state string, a route, a rounding constant, ...)
   the build stops at the lemma that names the item.  Nothing here is assumed:
   no Axiom / Admitted. *)

From Coq Require Import ZArith String List Bool.
From Verif Require Import Extracted.
Import ListNotations.
Open Scope Z_scope.
Open Scope string_scope.

(* ------------------------------------------------------------------ helpers *)

Fixpoint lookupZ {B : Type} (k : Z) (l : list (Z * B)) : option B :=
  match l with
  | [] => None
  | (k', b) :: t => if Z.eqb k k' then Some b else lookupZ k t
  end.

Fixpoint lookupS {B : Type} (k : string) (l : list (string * B)) : option B :=
  match l with
  | [] => None
  | (k', b) :: t => if String.eqb k k' then Some b else lookupS k t
  end.

(* The Go functions, re-read from the extracted tables:
   String() is a switch over [cases] with a default text,
   StringToState a switch over [cases] with a default value. *)
Definition to_string (cases : list (Z * string)) (dflt : string) (v : Z) : string :=
  match lookupZ v cases with Some s => s | None => dflt end.

Definition from_string (cases : list (string * Z)) (dflt : Z) (s : string) : Z :=
  match lookupS s cases with Some v => v | None => dflt end.

(* from_string inverts to_string on every declared enum value *)
Definition roundtrip_values (consts : list (string * Z)) (to_cases : list (Z * string)) (to_dflt : string)
           (from_cases : list (string * Z)) (from_dflt : Z) : bool :=
  forallb (fun nv => Z.eqb (from_string from_cases from_dflt (to_string to_cases to_dflt (snd nv))) (snd nv)) consts.

(* to_string inverts from_string on every string the parser recognises *)
Definition roundtrip_strings (to_cases : list (Z * string)) (to_dflt : string)
           (from_cases : list (string * Z)) (from_dflt : Z) : bool :=
  forallb (fun sv => String.eqb (to_string to_cases to_dflt (from_string from_cases from_dflt (fst sv))) (fst sv)) from_cases.

(* the (value, text) table is what String() computes on the declared constants *)
Definition states_of (consts : list (string * Z)) (to_cases : list (Z * string)) (to_dflt : string) : list (Z * string) :=
  map (fun nv => (snd nv, to_string to_cases to_dflt (snd nv))) consts.

Definition memZ (x : Z) (l : list Z) : bool := existsb (Z.eqb x) l.
Definition memS (x : string) (l : list string) : bool := existsb (String.eqb x) l.

Fixpoint nodupZ (l : list Z) : list Z :=
  match l with
  | [] => []
  | x :: t => if memZ x t then nodupZ t else x :: nodupZ t
  end.

Definition err_name (e : string * string * Z) : string := fst (fst e).
Definition err_detail (e : string * string * Z) : string := snd (fst e).
Definition err_code (e : string * string * Z) : Z := snd e.
Definition name_code (e : string * string * Z) : string * Z := (err_name e, err_code e).

Definition route_path (r : string * list string * string) : string := fst (fst r).
Definition route_methods (r : string * list string * string) : list string := snd (fst r).
Definition route_handler (r : string * list string * string) : string := snd r.

(* replace every occurrence of [pat] in [s] by [rep] *)
Fixpoint subst_aux (pat rep : string) (skip : nat) (s : string) : string :=
  match s with
  | EmptyString => EmptyString
  | String c s' =>
      match skip with
      | S k => subst_aux pat rep k s'
      | O => if prefix pat s
             then rep ++ subst_aux pat rep (Nat.pred (String.length pat)) s'
             else String c (subst_aux pat rep O s')
      end
  end.
Definition subst (pat rep s : string) : string := subst_aux pat rep O s.

(* Every lemma below is closed by [pin "<its own name>"]: computation, and when that fails
   the error message carries the name of the lemma, i.e. of the item that changed in the code. *)
Ltac pin name :=
  first [ repeat split; first [ reflexivity | vm_compute; reflexivity | discriminate ]
        | fail 1 "ExtractedChecks: lemma" name
                 "no longer holds for the current Go sources (see Gen/Extracted.v)" ].

(* ------------------------------------------------- scalar constants (model) *)

Lemma MAX_ORDER_is_60 : MAX_ORDER = 60.
Proof. pin "MAX_ORDER_is_60". Qed.

Lemma MAX_SECRET_LENGTH_is_512 : MAX_SECRET_LENGTH = 512.
Proof. pin "MAX_SECRET_LENGTH_is_512". Qed.

Lemma BOLT11_METHOD_is_bolt11 : BOLT11_METHOD = "bolt11".
Proof. pin "BOLT11_METHOD_is_bolt11". Qed.

Lemma DomainSeparator_pinned : DomainSeparator = "Secp256k1_HashToCurve_Cashu_".
Proof. pin "DomainSeparator_pinned". Qed.

Lemma h2c_loop_is_counter_below_2_16 : h2c_loop_bound = 2 ^ 16 /\ h2c_loop_cmp = "<".
Proof. pin "h2c_loop_is_counter_below_2_16". Qed.

Lemma QuoteExpiryMins_is_10 : QuoteExpiryMins = 10.
Proof. pin "QuoteExpiryMins_is_10". Qed.

Lemma InvoiceExpiryTime_is_3600 : InvoiceExpiryTime = 3600.
Proof. pin "InvoiceExpiryTime_is_3600". Qed.

Lemma fakebackend_InvoiceExpiry_is_3600 : fakebackend_InvoiceExpiry = 3600.
Proof. pin "fakebackend_InvoiceExpiry_is_3600". Qed.

Lemma FeePercent_is_one_percent : (FeePercent_num, FeePercent_den) = (1, 100).
Proof. pin "FeePercent_is_one_percent". Qed.

Lemma fakebackend_fee_reserve_is_0 : fakebackend_fee_reserve = 0.
Proof. pin "fakebackend_fee_reserve_is_0". Qed.

Lemma wallet_split_target_is_3 : wallet_split_target = 3.
Proof. pin "wallet_split_target_is_3". Qed.

(* ----------------------------------------------------------- fee rounding *)

Lemma mint_fee_rounding_is_999_1000 : (mint_fee_round_add, mint_fee_round_div) = (999, 1000).
Proof. pin "mint_fee_rounding_is_999_1000". Qed.

Lemma wallet_feesForCount_rounding_is_999_1000 :
  (wallet_fees_for_count_round_add, wallet_fees_for_count_round_div) = (999, 1000).
Proof. pin "wallet_feesForCount_rounding_is_999_1000". Qed.

Lemma wallet_feesForProofs_rounding_is_999_1000 :
  (wallet_fees_for_proofs_round_add, wallet_fees_for_proofs_round_div) = (999, 1000).
Proof. pin "wallet_feesForProofs_rounding_is_999_1000". Qed.

(* (x + d - 1) / d: the rounding is a ceiling, for mint and wallet alike *)
Lemma fee_rounding_is_ceiling_everywhere :
  mint_fee_round_add = mint_fee_round_div - 1 /\
  wallet_fees_for_count_round_add = wallet_fees_for_count_round_div - 1 /\
  wallet_fees_for_proofs_round_add = wallet_fees_for_proofs_round_div - 1 /\
  0 < mint_fee_round_div.
Proof. pin "fee_rounding_is_ceiling_everywhere". Qed.

Lemma wallet_and_mint_fee_rounding_agree :
  (wallet_fees_for_count_round_add, wallet_fees_for_count_round_div) = (mint_fee_round_add, mint_fee_round_div) /\
  (wallet_fees_for_proofs_round_add, wallet_fees_for_proofs_round_div) = (mint_fee_round_add, mint_fee_round_div).
Proof. pin "wallet_and_mint_fee_rounding_agree". Qed.

(* ---------------------------------------------------------------- restore *)

Lemma restore_batch_size_is_100 : restore_batch_size = 100.
Proof. pin "restore_batch_size_is_100". Qed.

Lemma restore_empty_batch_limit_is_3 : restore_empty_batch_limit = 3.
Proof. pin "restore_empty_batch_limit_is_3". Qed.

(* ----------------------------------------------------------- NUT-13, BIP32 *)

Lemma nut13_purpose_is_129372 : nut13_purpose = 129372.
Proof. pin "nut13_purpose_is_129372". Qed.

Lemma nut13_coin_type_is_0 : nut13_coin_type = 0.
Proof. pin "nut13_coin_type_is_0". Qed.

Lemma nut13_modulus_is_2_31_minus_1 : nut13_keyset_id_modulus = 2 ^ 31 - 1.
Proof. pin "nut13_modulus_is_2_31_minus_1". Qed.

Lemma HardenedKeyStart_is_2_31 : HardenedKeyStart = 2 ^ 31.
Proof. pin "HardenedKeyStart_is_2_31". Qed.

(* HardenedKeyStart + uint32(keysetIdInt) never wraps around in uint32 *)
Lemma nut13_keyset_index_fits_uint32 : HardenedKeyStart + (nut13_keyset_id_modulus - 1) < 2 ^ 32.
Proof. pin "nut13_keyset_index_fits_uint32". Qed.

Lemma nut13_purpose_fits_hardened : 0 <= nut13_purpose < HardenedKeyStart.
Proof. pin "nut13_purpose_fits_hardened". Qed.

Lemma derive_paths_pinned :
  derive_paths =
  [ ("cashu/nuts/nut13.DeriveKeysetPath", [(true, "129372"); (true, "0"); (true, "uint32(keysetIdInt)")]);
    ("cashu/nuts/nut13.DeriveBlindingFactor", [(true, "counter"); (false, "1")]);
    ("cashu/nuts/nut13.DeriveSecret", [(true, "counter"); (false, "0")]);
    ("crypto.DeriveKeysetPath", [(true, "0"); (true, "0"); (true, "index")]);
    ("wallet.DeriveP2PK", [(true, "129372"); (true, "0"); (true, "1"); (false, "0")]) ].
Proof. pin "derive_paths_pinned". Qed.

(* ------------------------------------------------------------ state enums *)

(* NUT-04 mint quote state.  NOTE the iota order: Issued = 2, Pending = 3. *)
Lemma nut04_consts_pinned :
  nut04_consts = [("Unpaid", 0); ("Paid", 1); ("Issued", 2); ("Pending", 3); ("Unknown", 4)].
Proof. pin "nut04_consts_pinned". Qed.

Lemma nut04_state_strings_pinned :
  nut04_states = [(0, "UNPAID"); (1, "PAID"); (2, "ISSUED"); (3, "PENDING"); (4, "unknown")].
Proof. pin "nut04_state_strings_pinned". Qed.

Lemma nut04_states_table_is_String_method :
  states_of nut04_consts nut04_to_string_cases nut04_to_string_default = nut04_states.
Proof. pin "nut04_states_table_is_String_method". Qed.

Lemma nut04_from_string_inverts_to_string :
  roundtrip_values nut04_consts nut04_to_string_cases nut04_to_string_default
                   nut04_from_string nut04_from_string_default = true.
Proof. pin "nut04_from_string_inverts_to_string". Qed.

Lemma nut04_to_string_inverts_from_string :
  roundtrip_strings nut04_to_string_cases nut04_to_string_default nut04_from_string nut04_from_string_default = true.
Proof. pin "nut04_to_string_inverts_from_string". Qed.

Lemma nut04_unrecognised_string_is_Unknown : nut04_from_string_default = nut04_Unknown.
Proof. pin "nut04_unrecognised_string_is_Unknown". Qed.

(* NUT-05 melt quote state *)
Lemma nut05_consts_pinned :
  nut05_consts = [("Unpaid", 0); ("Pending", 1); ("Paid", 2); ("Unknown", 3)].
Proof. pin "nut05_consts_pinned". Qed.

Lemma nut05_state_strings_pinned :
  nut05_states = [(0, "UNPAID"); (1, "PENDING"); (2, "PAID"); (3, "unknown")].
Proof. pin "nut05_state_strings_pinned". Qed.

Lemma nut05_states_table_is_String_method :
  states_of nut05_consts nut05_to_string_cases nut05_to_string_default = nut05_states.
Proof. pin "nut05_states_table_is_String_method". Qed.

Lemma nut05_from_string_inverts_to_string :
  roundtrip_values nut05_consts nut05_to_string_cases nut05_to_string_default
                   nut05_from_string nut05_from_string_default = true.
Proof. pin "nut05_from_string_inverts_to_string". Qed.

Lemma nut05_to_string_inverts_from_string :
  roundtrip_strings nut05_to_string_cases nut05_to_string_default nut05_from_string nut05_from_string_default = true.
Proof. pin "nut05_to_string_inverts_from_string". Qed.

Lemma nut05_unrecognised_string_is_Unknown : nut05_from_string_default = nut05_Unknown.
Proof. pin "nut05_unrecognised_string_is_Unknown". Qed.

(* NUT-07 proof state *)
Lemma nut07_consts_pinned :
  nut07_consts = [("Unspent", 0); ("Pending", 1); ("Spent", 2); ("Unknown", 3)].
Proof. pin "nut07_consts_pinned". Qed.

Lemma nut07_state_strings_pinned :
  nut07_states = [(0, "UNSPENT"); (1, "PENDING"); (2, "SPENT"); (3, "unknown")].
Proof. pin "nut07_state_strings_pinned". Qed.

Lemma nut07_states_table_is_String_method :
  states_of nut07_consts nut07_to_string_cases nut07_to_string_default = nut07_states.
Proof. pin "nut07_states_table_is_String_method". Qed.

Lemma nut07_from_string_inverts_to_string :
  roundtrip_values nut07_consts nut07_to_string_cases nut07_to_string_default
                   nut07_from_string nut07_from_string_default = true.
Proof. pin "nut07_from_string_inverts_to_string". Qed.

Lemma nut07_to_string_inverts_from_string :
  roundtrip_strings nut07_to_string_cases nut07_to_string_default nut07_from_string nut07_from_string_default = true.
Proof. pin "nut07_to_string_inverts_from_string". Qed.

Lemma nut07_unrecognised_string_is_Unknown : nut07_from_string_default = nut07_Unknown.
Proof. pin "nut07_unrecognised_string_is_Unknown". Qed.

Lemma cashu_unit_sat_pinned : cashu_unit_states = [(0, "sat")].
Proof. pin "cashu_unit_sat_pinned". Qed.

Lemma lightning_state_consts_pinned :
  lightning_state_consts = [("Succeeded", 0); ("Failed", 1); ("Pending", 2)].
Proof. pin "lightning_state_consts_pinned". Qed.

(* ------------------------------------------------------------ error codes *)

Lemma internal_err_codes_are_1_and_2 :
  internal_err_codes = [("DBErrCode", 1); ("LightningBackendErrCode", 2)].
Proof. pin "internal_err_codes_are_1_and_2". Qed.

Lemma StandardErrCode_is_10000 : errcode_StandardErrCode = 10000.
Proof. pin "StandardErrCode_is_10000". Qed.

Definition internal_codes : list Z := map snd internal_err_codes.

(* the predeclared error values are the user-facing ones (they are handed to writeErr as they
   are): none of them carries an internal code *)
Lemma cashu_errors_never_internal :
  forallb (fun e => negb (memZ (err_code e) internal_codes)) cashu_errors = true.
Proof. pin "cashu_errors_never_internal". Qed.

Lemma nut11_errors_never_internal :
  forallb (fun e => negb (memZ (err_code e) internal_codes)) nut11_errors = true.
Proof. pin "nut11_errors_never_internal". Qed.

Lemma nut14_errors_never_internal :
  forallb (fun e => negb (memZ (err_code e) internal_codes)) nut14_errors = true.
Proof. pin "nut14_errors_never_internal". Qed.

(* ... and all of them are in the range of the NUT error-code table *)
Lemma user_facing_codes_at_least_10000 :
  forallb (fun e => Z.leb 10000 (err_code e)) (cashu_errors ++ nut11_errors ++ nut14_errors) = true.
Proof. pin "user_facing_codes_at_least_10000". Qed.

(* every code used by an error value is a declared CashuErrCode constant *)
Lemma cashu_error_codes_are_declared :
  forallb (fun e => memZ (err_code e) (map snd (cashu_err_codes ++ nut11_err_codes ++ nut14_err_codes)))
          (cashu_errors ++ nut11_errors ++ nut14_errors) = true.
Proof. pin "cashu_error_codes_are_declared". Qed.

(* the internal codes are the only declared codes below 10000 *)
Lemma only_internal_codes_below_10000 :
  filter (fun nc => Z.ltb (snd nc) 10000) (cashu_err_codes ++ nut11_err_codes ++ nut14_err_codes) = internal_err_codes.
Proof. pin "only_internal_codes_below_10000". Qed.

(* the declared code constants, as the code has them today *)
Lemma cashu_err_codes_pinned :
  cashu_err_codes =
  [ ("StandardErrCode", 10000);
    ("DBErrCode", 1);
    ("LightningBackendErrCode", 2);
    ("BlindedMessageAlreadySignedErrCode", 10002);
    ("InvalidProofErrCode", 10003);
    ("SecretTooLongErrCode", 10004);
    ("ProofAlreadyUsedErrCode", 11001);
    ("InsufficientProofAmountErrCode", 11002);
    ("PaymentMethodErrCode", 11003);
    ("UnitErrCode", 11005);
    ("AmountLimitExceeded", 11006);
    ("DuplicateInputErrCode", 11007);
    ("DuplicateOutputErrCode", 11008);
    ("UnknownKeysetErrCode", 12001);
    ("InactiveKeysetErrCode", 12002);
    ("MintQuoteRequestNotPaidErrCode", 20001);
    ("MintQuoteAlreadyIssuedErrCode", 20002);
    ("MintingDisabledErrCode", 20003);
    ("MintQuoteInvalidSigErrCode", 20008);
    ("LightningPaymentErrCode", 20004);
    ("MeltQuotePendingErrCode", 20005);
    ("MeltQuoteAlreadyPaidErrCode", 20006);
    ("MeltQuoteErrCode", 20009) ].
Proof. pin "cashu_err_codes_pinned". Qed.

(* (error value, code) as the code has it today: a changed code breaks THIS lemma *)
Lemma cashu_error_codes_pinned :
  map name_code cashu_errors =
  [ ("StandardErr", 10000);
    ("EmptyBodyErr", 10000);
    ("UnknownKeysetErr", 12001);
    ("PaymentMethodNotSupportedErr", 11003);
    ("UnitNotSupportedErr", 11005);
    ("InvalidBlindedMessageAmount", 10000);
    ("InvalidProofAmount", 10000);
    ("BlindedMessageAlreadySigned", 10002);
    ("MintQuoteRequestNotPaid", 20001);
    ("MintQuoteAlreadyIssued", 20002);
    ("MintingDisabled", 20003);
    ("MintAmountExceededErr", 11006);
    ("MintQuoteInvalidSigErr", 20008);
    ("OutputsOverQuoteAmountErr", 10000);
    ("ProofAlreadyUsedErr", 11001);
    ("ProofPendingErr", 11001);
    ("InvalidProofErr", 10003);
    ("SecretTooLongErr", 10004);
    ("NoProofsProvided", 10003);
    ("DuplicateProofs", 11007);
    ("DuplicateOutputs", 11008);
    ("QuoteNotExistErr", 20009);
    ("QuotePending", 20005);
    ("LightningPaymentFailed", 20004);
    ("MeltQuoteAlreadyPaid", 20006);
    ("MeltAmountExceededErr", 11006);
    ("MeltQuoteForRequestExists", 20009);
    ("InsufficientProofsAmount", 11002);
    ("InactiveKeysetSignatureRequest", 12002) ].
Proof. pin "cashu_error_codes_pinned". Qed.

(* the detail texts (they are the response bodies the HTTP model predicts) *)
Lemma cashu_error_details_pinned :
  map (fun e => (err_name e, err_detail e)) cashu_errors =
  [ ("StandardErr", "mint is currently unable to process request");
    ("EmptyBodyErr", "request body cannot be empty");
    ("UnknownKeysetErr", "unknown keyset");
    ("PaymentMethodNotSupportedErr", "payment method not supported");
    ("UnitNotSupportedErr", "unit not supported");
    ("InvalidBlindedMessageAmount", "invalid amount in blinded message");
    ("InvalidProofAmount", "invalid amount in proof");
    ("BlindedMessageAlreadySigned", "blinded message already signed");
    ("MintQuoteRequestNotPaid", "quote request has not been paid");
    ("MintQuoteAlreadyIssued", "quote already issued");
    ("MintingDisabled", "minting is disabled");
    ("MintAmountExceededErr", "max amount for minting exceeded");
    ("MintQuoteInvalidSigErr", "Mint quote with pubkey but no valid signature provided.");
    ("OutputsOverQuoteAmountErr", "sum of the output amounts is greater than quote amount");
    ("ProofAlreadyUsedErr", "proof already used");
    ("ProofPendingErr", "proof is pending");
    ("InvalidProofErr", "invalid proof");
    ("SecretTooLongErr", "secret too long");
    ("NoProofsProvided", "no proofs provided");
    ("DuplicateProofs", "duplicate inputs");
    ("DuplicateOutputs", "duplicate outputs");
    ("QuoteNotExistErr", "quote does not exist");
    ("QuotePending", "quote is pending");
    ("LightningPaymentFailed", "Lightning payment failed");
    ("MeltQuoteAlreadyPaid", "quote already paid");
    ("MeltAmountExceededErr", "max amount for melting exceeded");
    ("MeltQuoteForRequestExists", "melt quote for payment request already exists");
    ("InsufficientProofsAmount", "amount of input proofs is below amount needed for transaction");
    ("InactiveKeysetSignatureRequest", "requested signature from inactive keyset") ].
Proof. pin "cashu_error_details_pinned". Qed.

Lemma nut11_errors_pinned :
  nut11_errors =
  [ ("InvalidTagErr", "invalid tag", 30001);
    ("TooManyTagsErr", "too many tags", 30001);
    ("NSigsMustBePositiveErr", "n_sigs must be a positive integer", 30001);
    ("EmptyPubkeysErr", "pubkeys tag cannot be empty if n_sigs tag is present", 30001);
    ("InvalidWitness", "invalid witness", 30001);
    ("InvalidKindErr", "invalid kind in secret", 30001);
    ("DuplicateSignaturesErr", "witness has duplicate signatures", 30001);
    ("NotEnoughSignaturesErr", "not enough valid signatures provided", 30001);
    ("NoSignaturesErr", "no signatures provided in witness", 30001);
    ("AllSigAllFlagsErr", "all flags must be SIG_ALL", 30001);
    ("SigAllKeysMustBeEqualErr", "all public keys must be the same for SIG_ALL", 30001);
    ("SigAllOnlySwap", "SIG_ALL can only be used in /swap operation", 30001);
    ("NSigsMustBeEqualErr", "all n_sigs must be the same for SIG_ALL", 30001) ].
Proof. pin "nut11_errors_pinned". Qed.

Lemma nut11_errors_all_30001 :
  errcode_NUT11ErrCode = 30001 /\ forallb (fun e => Z.eqb (err_code e) errcode_NUT11ErrCode) nut11_errors = true.
Proof. pin "nut11_errors_all_30001". Qed.

Lemma nut14_errors_pinned :
  nut14_errors =
  [ ("InvalidPreimageErr", "Invalid preimage for HTLC", 30004);
    ("InvalidHashErr", "Invalid hash in secret", 30004) ].
Proof. pin "nut14_errors_pinned". Qed.

Lemma nut14_errors_all_30004 :
  errcode_NUT14ErrCode = 30004 /\ forallb (fun e => Z.eqb (err_code e) errcode_NUT14ErrCode) nut14_errors = true.
Proof. pin "nut14_errors_all_30004". Qed.

Lemma BuildCashuError_has_no_default_code : build_cashu_error_is_plain_constructor = true.
Proof. pin "BuildCashuError_has_no_default_code". Qed.

(* codes passed to cashu.BuildCashuError, per package (duplicates removed, each code at its last use) *)
Definition build_codes (pkg : string) : list Z :=
  nodupZ (map (fun c => snd c)
              (filter (fun c => String.eqb (fst (fst (fst (fst c)))) pkg) build_cashu_error_calls)).

Lemma nut11_BuildCashuError_codes_pinned : build_codes "cashu/nuts/nut11" = [30001].
Proof. pin "nut11_BuildCashuError_codes_pinned". Qed.

Lemma mint_BuildCashuError_codes_pinned : build_codes "mint" = [11005; 20009; 2; 1; 10000].
Proof. pin "mint_BuildCashuError_codes_pinned". Qed.

(* which internal codes each HTTP handler recognises (and answers with the generic StandardErr).
   As the code has it today: swapRequest and meltQuoteRequest test DBErrCode only. *)
Lemma handler_code_tests_pinned :
  handler_code_tests =
  [ ("mintRequest", [("LightningBackendErrCode", 2); ("DBErrCode", 1)]);
    ("mintQuoteState", [("LightningBackendErrCode", 2); ("DBErrCode", 1)]);
    ("mintTokensRequest", [("LightningBackendErrCode", 2); ("DBErrCode", 1)]);
    ("swapRequest", [("DBErrCode", 1)]);
    ("meltQuoteRequest", [("DBErrCode", 1)]);
    ("meltQuoteState", [("LightningBackendErrCode", 2); ("DBErrCode", 1)]);
    ("meltTokens", [("LightningBackendErrCode", 2); ("DBErrCode", 1)]);
    ("tokenStateCheck", [("LightningBackendErrCode", 2); ("DBErrCode", 1)]) ].
Proof. pin "handler_code_tests_pinned". Qed.

(* ------------------------------------------------------- routes and cache *)

Lemma routes_pinned :
  routes =
  [ ("/v1/keys", ["GET"; "OPTIONS"], "getActiveKeysets");
    ("/v1/keysets", ["GET"; "OPTIONS"], "getKeysetsList");
    ("/v1/keys/{id}", ["GET"; "OPTIONS"], "getKeysetById");
    ("/v1/mint/quote/{method}", ["GET"; "POST"; "OPTIONS"], "mintRequest");
    ("/v1/mint/quote/{method}/{quote_id}", ["GET"; "POST"; "OPTIONS"], "mintQuoteState");
    ("/v1/mint/{method}", ["POST"; "OPTIONS"], "mintTokensRequest");
    ("/v1/swap", ["POST"; "OPTIONS"], "swapRequest");
    ("/v1/melt/quote/{method}", ["POST"; "OPTIONS"], "meltQuoteRequest");
    ("/v1/melt/quote/{method}/{quote_id}", ["GET"; "OPTIONS"], "meltQuoteState");
    ("/v1/melt/{method}", ["POST"; "OPTIONS"], "meltTokens");
    ("/v1/checkstate", ["POST"; "OPTIONS"], "tokenStateCheck");
    ("/v1/restore", ["POST"; "OPTIONS"], "restoreSignatures");
    ("/v1/info", ["GET"; "OPTIONS"], "mintInfo");
    ("/v1/ws", ["GET"; "OPTIONS"], "serveWS") ].
Proof. pin "routes_pinned". Qed.

(* OPTIONS requests are answered by the middleware and never reach a handler *)
Lemma options_answered_by_middleware :
  router_middlewares = ["setupHeaders"] /\ middleware_short_circuits = [("setupHeaders", "OPTIONS")].
Proof. pin "options_answered_by_middleware". Qed.

Lemma cached_handlers_are_mint_and_swap : cached_handlers = ["mintTokensRequest"; "swapRequest"].
Proof. pin "cached_handlers_are_mint_and_swap". Qed.

Lemma other_cache_handlers_are_the_keys_handlers : other_cache_handlers = ["getActiveKeysets"; "getKeysetById"].
Proof. pin "other_cache_handlers_are_the_keys_handlers". Qed.

Definition cached_routes : list (string * list string * string) :=
  filter (fun r => memS (route_handler r) cached_handlers) routes.

Lemma cached_routes_are_exactly_swap_and_mint :
  cached_routes = [ ("/v1/mint/{method}", ["POST"; "OPTIONS"], "mintTokensRequest");
                    ("/v1/swap", ["POST"; "OPTIONS"], "swapRequest") ].
Proof. pin "cached_routes_are_exactly_swap_and_mint". Qed.

(* POST-only: POST is accepted, nothing besides POST and the middleware-answered OPTIONS is *)
Lemma cached_routes_are_POST_only :
  forallb (fun r => memS "POST" (route_methods r) &&
                    forallb (fun m => String.eqb m "POST" ||
                                      memS m (map snd middleware_short_circuits)) (route_methods r))
          cached_routes = true.
Proof. pin "cached_routes_are_POST_only". Qed.

(* with {method} := bolt11 (the only method mintTokensRequest accepts) the cached routes are
   exactly what the mint announces under NUT-19 in /v1/info *)
Lemma cached_routes_are_the_announced_endpoints :
  map (fun r => ("POST", subst "{method}" BOLT11_METHOD (route_path r))) cached_routes = nut19_cached_endpoints.
Proof. pin "cached_routes_are_the_announced_endpoints". Qed.

Lemma nut19_cached_endpoints_pinned :
  nut19_cached_endpoints = [("POST", "/v1/mint/bolt11"); ("POST", "/v1/swap")].
Proof. pin "nut19_cached_endpoints_pinned". Qed.

Lemma nut19_announced_ttl_is_the_cache_ttl : nut19_ttl = CACHE_ITEM_TTL /\ nut19_ttl_const = "CACHE_ITEM_TTL".
Proof. pin "nut19_announced_ttl_is_the_cache_ttl". Qed.

Lemma cache_calls_pinned :
  cache_calls =
  [ ("Start", "Get", "ACTIVE_KEYSET", "");
    ("Start", "DeleteExpired", "", "");
    ("getActiveKeysets", "Get", "ACTIVE_KEYSET", "");
    ("getActiveKeysets", "Set", "ACTIVE_KEYSET", "time.Second * KEYSET_TTL");
    ("getKeysetById", "Get", "id", "");
    ("getKeysetById", "Set", "id", "time.Second * KEYSET_TTL");
    ("mintTokensRequest", "Get", "cacheKey(req, body)", "");
    ("mintTokensRequest", "Set", "cacheKey(req, body)", "time.Second * CACHE_ITEM_TTL");
    ("swapRequest", "Get", "cacheKey(req, body)", "");
    ("swapRequest", "Set", "cacheKey(req, body)", "time.Second * CACHE_ITEM_TTL") ].
Proof. pin "cache_calls_pinned". Qed.

Lemma CACHE_ITEM_TTL_is_300 : CACHE_ITEM_TTL = 300.
Proof. pin "CACHE_ITEM_TTL_is_300". Qed.

Lemma CACHE_ITEMS_LIMIT_is_10000 : CACHE_ITEMS_LIMIT = 10000.
Proof. pin "CACHE_ITEMS_LIMIT_is_10000". Qed.

(* Cache.Set stores while len(items) <= limit, i.e. the cache can hold limit + 1 entries *)
Lemma cache_set_limit_test_pinned : cache_set_limit_test = "<= c.limit".
Proof. pin "cache_set_limit_test_pinned". Qed.

Lemma REQUEST_BODY_SIZE_LIMIT_is_2MiB : REQUEST_BODY_SIZE_LIMIT = 2 * 1024 * 1024.
Proof. pin "REQUEST_BODY_SIZE_LIMIT_is_2MiB". Qed.

Lemma KEYSET_TTL_is_one_day : KEYSET_TTL = 86400.
Proof. pin "KEYSET_TTL_is_one_day". Qed.

(* ------------------------------------------------------------- interfaces *)

Lemma mintdb_methods_pinned :
  mintdb_methods =
  [ "SaveSeed"; "GetSeed"; "SaveKeyset"; "GetKeysets"; "UpdateKeysetActive";
    "SaveProofs"; "GetProofsUsed"; "AddPendingProofs"; "GetPendingProofs"; "GetPendingProofsByQuote";
    "RemovePendingProofs"; "SaveMintQuote"; "GetMintQuote"; "GetMintQuoteByPaymentHash"; "UpdateMintQuoteState";
    "SaveMeltQuote"; "GetMeltQuote"; "GetMeltQuoteByPaymentRequest"; "UpdateMeltQuote";
    "SaveBlindSignatures"; "GetBlindSignature"; "GetBlindSignatures"; "GetIssuedEcash"; "GetRedeemedEcash"; "Close" ].
Proof. pin "mintdb_methods_pinned". Qed.

Lemma walletdb_methods_pinned :
  walletdb_methods =
  [ "SaveMnemonicSeed"; "GetSeed"; "GetMnemonic"; "SaveProofs"; "GetProofs"; "GetProofsByKeysetId"; "DeleteProof";
    "AddPendingProofs"; "AddPendingProofsByQuoteId"; "GetPendingProofs"; "GetPendingProofsByQuoteId";
    "DeletePendingProofs"; "DeletePendingProofsByQuoteId"; "SaveKeyset"; "GetKeysets"; "GetKeyset";
    "IncrementKeysetCounter"; "GetKeysetCounter"; "UpdateKeysetMintURL"; "SaveMintQuote"; "GetMintQuotes";
    "GetMintQuoteById"; "SaveMeltQuote"; "GetMeltQuotes"; "GetMeltQuoteById"; "Close" ].
Proof. pin "walletdb_methods_pinned". Qed.

Lemma lightning_client_methods_pinned :
  lightning_client_methods =
  [ "ConnectionStatus"; "CreateInvoice"; "InvoiceStatus"; "SendPayment"; "PayPartialAmount";
    "OutgoingPaymentStatus"; "FeeReserve"; "SubscribeInvoice" ].
Proof. pin "lightning_client_methods_pinned". Qed.

Lemma lightning_invoice_sub_methods_pinned : lightning_invoice_sub_methods = ["Recv"].
Proof. pin "lightning_invoice_sub_methods_pinned". Qed.
