(* C03 - A mint quote is issued at most once per payment, never before it is paid
   Statements only; every proof is `exact <lemma>` into coq/Mint/*.v.

   Reading guide (definitions in coq/Mint/*.v):
     world            = store (tables spent/pending/signatures/mint quotes/melt quotes/keysets) + Lightning environment
                        (invoices, scripted answers, log of pay calls) + the process memory (keysets, active keyset)
     op               = one request (OSwap, OMint, OMelt, OMeltQuote, OMintQuote, OMintState, OMeltState, OCheck, ORestore,
                        ORotate, ORestart, OWatcher, OBalance, OInfo) or environment step (ESettle, EScriptPay/Look, ...)
     op_prog          = the request as a program over storage/Lightning calls, following mint/mint.go call by call
     run p f w        = run program p from world w; f: which call positions get an injected storage error (no_fault: none)
     run_n n p f w    = the same, but the process dies after n calls
     step cfg f w o   = one request run to completion; run_history / reach: a sequential fault-free history from the empty store
     hrun cfg w h     = a history of items: HNormal o | HFault o f | HCrash o n | HConc ops schedule (interleaving at call granularity)
     WInv w           = every table has unique keys (Y, B_, quote ids, keyset ids)
     Good w           = WInv w and no Y is both spent and pending
     wext w w'        = spent and signature tables of w' extend those of w (nothing removed or altered)
     same_but_calls   = nothing changed but the call counter
     settled w h      = the backend reports the own invoice with payment hash h as settled
     ordered b a s p  = on every path of program p (for every response, so for every fault and cut) an event `a` is preceded by an event `b`

   quote_issued_at_most_once_per_payment: ghost lists iss/cred of issuance and internal-credit events along the history (qtrace);
   honest = the invoice subscription only reports invoices that are settled.  Concurrent MintTokens on one quote are NOT safe in the
   code: mint_mint_race is the computed schedule (known finding, c03-sched).
*)
From Coq Require Import ZArith List Bool.
From Verif Require Import Model Sem InvDb InvSwap InvMint InvMelt Corollaries Queries Footprint HRel Global GlobalQuote GlobalValue GlobalErr GlobalQuery GlobalMelt GlobalKeys Cuts CutOrder Conc Races GlobalBalance GlobalLedger Reconf GlobalPoll Trace Admin AdminProofs CutValue CutMint CutFrames ConcValue CutHistory CutBalance CutLedger.
Import ListNotations.
Open Scope Z_scope.

Theorem C03_quote_issued_at_most_once_per_payment : forall (cfg : config) (h : list op),
       honest cfg world0 h ->
       let
       '(w, iss, cred) := qtrace cfg world0 h [] [] in
        forall m : mquote,
        In m (d_mq (w_db w)) ->
        cnt (mq_id m) iss <= esett w m + cnt (mq_id m) cred /\
        (mq_state m = 0 -> cnt (mq_id m) iss <= cnt (mq_id m) cred).
Proof. exact @quote_issued_at_most_once_per_payment. Qed.
Print Assumptions C03_quote_issued_at_most_once_per_payment.

Theorem C03_quote_issued_at_most_once_with_cuts : forall (cfg : config) (h : list hitem),
       cfg_ok cfg ->
       Forall cut_item h ->
       hhonest cfg world0 h ->
       Forall item_u64 h ->
       let
       '(w, iss, cred) := htrace cfg world0 h [] [] in
        forall m : mquote,
        In m (d_mq (w_db w)) ->
        cnt (mq_id m) iss <= esett w m + cnt (mq_id m) cred /\
        (mq_state m = 0 -> cnt (mq_id m) iss <= cnt (mq_id m) cred).
Proof. exact @quote_issued_at_most_once_with_cuts. Qed.
Print Assumptions C03_quote_issued_at_most_once_with_cuts.

Theorem C03_mint_cut_states : forall (mem_ks : list ksrow) (active id : Z) (outs : list bmsg) (sig : Z) (n : nat) (f : oracle) (w : world),
       mint_cut_state id outs w (fst (run_n n (mint_tokens mem_ks active id outs sig) f w)).
Proof. exact @mint_cut_states. Qed.
Print Assumptions C03_mint_cut_states.

Theorem C03_internal_credits_are_melts : forall (cfg : config) (h : list op),
       ln_ok cfg world0 h ->
       let
       '(w, _, cred) := qtrace cfg world0 h [] [] in
        exists ip : list (Z * Z),
          cred = map snd ip /\ NoDup (map fst ip) /\ (forall p0 : Z * Z, In p0 ip -> pair_ok (w_db w) p0).
Proof. exact @internal_credits_are_melts. Qed.
Print Assumptions C03_internal_credits_are_melts.

Theorem C03_step_qinv : forall (cfg : config) (w : world) (o : op) (iss cred : list Z),
       Good w ->
       watcher_honest w o ->
       QInv w iss cred ->
       QInv (fst (step cfg no_fault w o)) (issue_ev o (snd (step cfg no_fault w o)) ++ iss)
         (credit_ev w o (snd (step cfg no_fault w o)) ++ cred).
Proof. exact @step_qinv. Qed.
Print Assumptions C03_step_qinv.

Theorem C03_mint_needs_payment : forall (mem_ks : list ksrow) (active id : Z) (outs : list bmsg) (sig : Z) (w w' : world) (sigs : list srow),
       WInv w ->
       run (mint_tokens mem_ks active id outs sig) no_fault w = (w', Done (Ok sigs)) ->
       sigs <> [] ->
       exists q : mquote,
         find_mq id (d_mq (w_db w)) = Some q /\ (mq_state q = 1 \/ mq_state q = 0 /\ settled w (mq_hash q) = true).
Proof. exact @mint_needs_payment. Qed.
Print Assumptions C03_mint_needs_payment.

Theorem C03_mint_within_quote : forall (mem_ks : list ksrow) (active id : Z) (outs : list bmsg) (sig : Z) (w w' : world) (sigs : list srow),
       WInv w ->
       run (mint_tokens mem_ks active id outs sig) no_fault w = (w', Done (Ok sigs)) ->
       Forall (fun x : Z => 0 <= x < two64) (map b_amount outs) ->
       exists q : mquote,
         find_mq id (d_mq (w_db w)) = Some q /\ tsum (map s_amount sigs) <= mq_amount q \/ sigs = [].
Proof. exact @mint_within_quote. Qed.
Print Assumptions C03_mint_within_quote.

Theorem C03_mint_once : forall (mem_ks : list ksrow) (active id : Z) (outs : list bmsg) (sig : Z) (w : world) (q : mquote),
       WInv w ->
       find_mq id (d_mq (w_db w)) = Some q ->
       mq_state q = 3 ->
       exists (w' : world) (e : err),
         run (mint_tokens mem_ks active id outs sig) no_fault w = (w', Done (Err e)) /\ same_but_calls w w'.
Proof. exact @mint_once. Qed.
Print Assumptions C03_mint_once.

Theorem C03_mint_marks_issued : forall (mem_ks : list ksrow) (active id : Z) (outs : list bmsg) (sig : Z) (w w' : world) (sigs : list srow),
       WInv w ->
       run (mint_tokens mem_ks active id outs sig) no_fault w = (w', Done (Ok sigs)) ->
       sigs <> [] -> d_mq (w_db w') = upd_mq id 3 (d_mq (w_db w)).
Proof. exact @mint_marks_issued. Qed.
Print Assumptions C03_mint_marks_issued.

Theorem C03_mint_nut20 : forall (mem_ks : list ksrow) (active id : Z) (outs : list bmsg) (sig : Z) (w w' : world) (sigs : list srow),
       WInv w ->
       run (mint_tokens mem_ks active id outs sig) no_fault w = (w', Done (Ok sigs)) ->
       sigs <> [] -> exists q : mquote, find_mq id (d_mq (w_db w)) = Some q /\ (mq_pubkey q <> 0 -> sig = 1).
Proof. exact @mint_nut20. Qed.
Print Assumptions C03_mint_nut20.

Theorem C03_watcher_only_unpaid : forall (id : Z) (w : world) (q : mquote),
       find_mq id (d_mq (w_db w)) = Some q ->
       mq_state q <> 0 -> w_db (fst (run (watcher_fire id) no_fault w)) = w_db w.
Proof. exact @watcher_only_unpaid. Qed.
Print Assumptions C03_watcher_only_unpaid.

Theorem C03_quotes_never_altered : forall (cfg : config) (h : list hitem) (w : world), quotes_ext w (hrun cfg w h).
Proof. exact @quotes_never_altered. Qed.
Print Assumptions C03_quotes_never_altered.

Theorem C03_mint_mint_race : let w0 := hrun cfg1 world0 mint_race_prefix in
       let
       '(w, rs) := run_concurrent cfg1 w0 mint_race_ops mint_race_sched in
        issuedZ w = 16 /\
        map mq_amount (d_mq (w_db w)) = [8] /\
        (exists a b : list srow, rs = [RSigs a; RSigs b] /\ a <> [] /\ b <> []).
Proof. exact @mint_mint_race. Qed.
Print Assumptions C03_mint_mint_race.

