(* C03 — A mint quote is issued at most once per payment, never before it is paid
   Statements only; every proof is `exact <lemma>` into Mint/*.v (model: Mint/Model.v, semantics: Mint/Sem.v). *)
From Coq Require Import ZArith List Bool.
From Verif Require Import Model Sem InvDb InvSwap InvMint InvMelt Corollaries Queries Footprint Global GlobalQuote Cuts.
Import ListNotations.
Open Scope Z_scope.

Theorem C03_quote_issued_at_most_once_per_payment : forall (cfg : config) (h : list op),
       honest cfg world0 h ->
       let
       '(w, iss, cred) := qtrace cfg world0 h [] [] in
        forall m : mquote,
        In m (d_mq (w_db w)) ->
        cnt (mq_id m) iss <= esett w m + cnt (mq_id m) cred /\
        (mq_state m = 0 -> cnt (mq_id m) iss <= cnt (mq_id m) cred).
Proof. exact @quote_issued_at_most_once_per_payment. Qed.
Print Assumptions C03_quote_issued_at_most_once_per_payment.

Theorem C03_mint_needs_payment : forall (mem_ks : list ksrow) (active id : Z) (outs : list bmsg) (sig : Z) (w w' : world) (sigs : list srow),
       WInv w ->
       run (mint_tokens mem_ks active id outs sig) no_fault w = (w', Done (Ok sigs)) ->
       sigs <> [] ->
       exists q : mquote,
         find_mq id (d_mq (w_db w)) = Some q /\ (mq_state q = 1 \/ mq_state q = 0 /\ settled w (mq_hash q) = true).
Proof. exact @mint_needs_payment. Qed.
Print Assumptions C03_mint_needs_payment.

Theorem C03_mint_within_quote : forall (mem_ks : list ksrow) (active id : Z) (outs : list bmsg) (sig : Z) (w w' : world) (sigs : list srow),
       WInv w ->
       run (mint_tokens mem_ks active id outs sig) no_fault w = (w', Done (Ok sigs)) ->
       Forall (fun x : Z => 0 <= x < two64) (map b_amount outs) ->
       exists q : mquote, find_mq id (d_mq (w_db w)) = Some q /\ tsum (map s_amount sigs) <= mq_amount q \/ sigs = [].
Proof. exact @mint_within_quote. Qed.
Print Assumptions C03_mint_within_quote.

Theorem C03_mint_once : forall (mem_ks : list ksrow) (active id : Z) (outs : list bmsg) (sig : Z) (w : world) (q : mquote),
       WInv w ->
       find_mq id (d_mq (w_db w)) = Some q ->
       mq_state q = 3 ->
       exists (w' : world) (e : err),
         run (mint_tokens mem_ks active id outs sig) no_fault w = (w', Done (Err e)) /\ same_but_calls w w'.
Proof. exact @mint_once. Qed.
Print Assumptions C03_mint_once.

Theorem C03_mint_marks_issued : forall (mem_ks : list ksrow) (active id : Z) (outs : list bmsg) (sig : Z) (w w' : world) (sigs : list srow),
       WInv w ->
       run (mint_tokens mem_ks active id outs sig) no_fault w = (w', Done (Ok sigs)) ->
       sigs <> [] -> d_mq (w_db w') = upd_mq id 3 (d_mq (w_db w)).
Proof. exact @mint_marks_issued. Qed.
Print Assumptions C03_mint_marks_issued.

Theorem C03_mint_nut20 : forall (mem_ks : list ksrow) (active id : Z) (outs : list bmsg) (sig : Z) (w w' : world) (sigs : list srow),
       WInv w ->
       run (mint_tokens mem_ks active id outs sig) no_fault w = (w', Done (Ok sigs)) ->
       sigs <> [] -> exists q : mquote, find_mq id (d_mq (w_db w)) = Some q /\ (mq_pubkey q <> 0 -> sig = 1).
Proof. exact @mint_nut20. Qed.
Print Assumptions C03_mint_nut20.

Theorem C03_watcher_only_unpaid : forall (id : Z) (w : world) (q : mquote),
       find_mq id (d_mq (w_db w)) = Some q ->
       mq_state q <> 0 -> w_db (fst (run (watcher_fire id) no_fault w)) = w_db w.
Proof. exact @watcher_only_unpaid. Qed.
Print Assumptions C03_watcher_only_unpaid.

Theorem C03_mint_tokens_spec : forall (mem_ks : list ksrow) (active id : Z) (outs : list bmsg) (sig : Z) (w : world),
       WInv w ->
       exists (w' : world) (r : result (list srow)),
         run (mint_tokens mem_ks active id outs sig) no_fault w = (w', Done r) /\
         match r with
         | Ok sigs =>
             exists q : mquote,
               find_mq id (d_mq (w_db w)) = Some q /\
               ((mq_state q = 1 \/ mq_state q = 0 /\ settled w (mq_hash q) = true) /\
                (exists oa : Z, amount_checked (map b_amount outs) 0 = Some oa /\ oa <= mq_amount q) /\
                NoDup (map b_B outs) /\
                (forall o : bmsg, In o outs -> ~ In (b_B o) (map s_B (d_sigs (w_db w)))) /\
                (mq_pubkey q <> 0 -> sig = 1) /\
                check_outputs mem_ks active outs = None /\
                sigs = sig_rows outs /\
                d_sigs (w_db w') = d_sigs (w_db w) ++ sig_rows outs /\
                d_mq (w_db w') = upd_mq id 3 (d_mq (w_db w)) /\
                d_spent (w_db w') = d_spent (w_db w) /\
                d_pending (w_db w') = d_pending (w_db w) /\ d_lq (w_db w') = d_lq (w_db w) /\ w_ln w' = w_ln w \/
                ~ 0 <= mq_state q <= 3 /\ sigs = [] /\ same_but_calls w w')
         | Err _ =>
             same_but_calls w w' \/
             (exists q : mquote,
                find_mq id (d_mq (w_db w)) = Some q /\
                (mq_state q = 1 \/ mq_state q = 0 /\ settled w (mq_hash q) = true) /\
                only_mq w w' (upd_mq id 1 (d_mq (w_db w))))
         end.
Proof. exact @mint_tokens_spec. Qed.
Print Assumptions C03_mint_tokens_spec.

