(* C11 — Derivations match the Cashu spec: hash-to-curve, keyset id, NUT-13 secrets.
   Statements only; every proof is `exact <lemma>` into Crypto/H2C.v, Crypto/KeysetId.v,
   Crypto/BIP32.v and Crypto/NUT13.v.

   Each function exists twice in the development: an implementation-shaped model that
   mirrors the Go text (/repo/crypto/bdhke.go HashToCurve, /repo/crypto/keyset.go
   DeriveKeysetId, /repo/cashu/nuts/nut13/nut13.go over btcutil/hdkeychain), and a
   declarative spec transcribed from NUT-00 / NUT-02 / NUT-13 / BIP32.  The theorems say the
   two agree for ALL inputs, for every hash / HMAC function, every public-key parser and
   serialisation (SHA-256, HMAC-SHA512 and secp256k1 enter as parameters); the [_secp]
   versions are the instances at the executable SHA-256 / HMAC-SHA512 / secp256k1 of
   Crypto/*.v, which are the functions the c11-* streams run against the Go code bit for bit.
   That those executable primitives ARE SHA-256, HMAC-SHA512 and secp256k1 rests on the
   RFC/BIP vectors in Crypto/*.v and on that correspondence, not on a proof. *)
From Coq Require Import Ascii String ZArith List Bool Permutation Sorted.
From Verif Require Import Bytes SHA256 SHA512 HMAC Secp256k1 BIP32 H2C KeysetId NUT13.
Import ListNotations.
Open Scope Z_scope.

(* ===================================================================================== *)
(* hash_to_curve (NUT-00)                                                                *)
(* ===================================================================================== *)

(* The Go loop returns r if and only if r is what NUT-00 prescribes: the point parsed from
   02 || H(H(domain || m) || counter_le32) for the LEAST counter below 2^16 for which these
   33 bytes parse - and an error iff no counter below 2^16 works. *)
Theorem C11_h2c_impl_eq_spec :
  forall (P : Type) (H : list Z -> list Z) (parse : list Z -> option P) m r,
  h2c_impl H parse m = r <-> h2c_spec H parse m r.
Proof. exact @h2c_impl_eq_spec. Qed.
Print Assumptions C11_h2c_impl_eq_spec.

(* NUT-00 determines the result. *)
Theorem C11_h2c_spec_functional :
  forall (P : Type) (H : list Z -> list Z) (parse : list Z -> option P) m r1 r2,
  h2c_spec H parse m r1 -> h2c_spec H parse m r2 -> r1 = r2.
Proof. exact @h2c_spec_functional. Qed.
Print Assumptions C11_h2c_spec_functional.

(* binary.LittleEndian.PutUint32 (shifts and masks) is int.to_bytes(4, 'little'). *)
Theorem C11_put_uint32_le : forall v, 0 <= v -> put_uint32_le v = le_bytes 4 v.
Proof. exact put_uint32_le_spec. Qed.
Print Assumptions C11_put_uint32_le.

(* The executable instance. *)
Theorem C11_h2c_secp : forall m r,
  hash_to_curve m = r <-> h2c_spec sha256 decompress m r.
Proof. exact hash_to_curve_eq_spec. Qed.
Print Assumptions C11_h2c_secp.

(* ===================================================================================== *)
(* keyset id (NUT-02, version 00)                                                         *)
(* ===================================================================================== *)

(* "00" + the first 14 hex digits of H(keys concatenated in ascending numeric amount order)
   is exactly what the implementation computes, for pairwise distinct amounts (map keys). *)
Theorem C11_keyset_id_impl_eq_spec :
  forall (H : list Z -> list Z) (ks : list kentry) (id : list Z),
  NoDup (map fst ks) -> (keyset_id_spec H ks id <-> id = keyset_id_impl H ks).
Proof. exact keyset_id_impl_eq_spec. Qed.
Print Assumptions C11_keyset_id_impl_eq_spec.

(* Whatever permutation sorted by amount sort.Slice returns (it is not stable and its
   algorithm is unspecified), the id is the same ... *)
Theorem C11_keyset_id_any_go_sort :
  forall (H : list Z -> list Z) (ks sorted : list kentry),
  NoDup (map fst ks) -> go_sorted ks sorted -> keyset_id_from H sorted = keyset_id_impl H ks.
Proof. exact keyset_id_any_go_sort. Qed.
Print Assumptions C11_keyset_id_any_go_sort.

(* ... and it does not depend on the order in which Go iterates the map. *)
Theorem C11_keyset_id_order_independent :
  forall (H : list Z -> list Z) (ks ks' : list kentry),
  NoDup (map fst ks) -> Permutation ks ks' -> keyset_id_impl H ks = keyset_id_impl H ks'.
Proof. exact keyset_id_order_independent. Qed.
Print Assumptions C11_keyset_id_order_independent.

(* The 16 characters are the hex of 00 || first 7 bytes of the hash (the 8-byte view NUT-13
   reads). *)
Theorem C11_keyset_id_bytes : forall (H : list Z -> list Z) (sorted : list kentry),
  keyset_id_from H sorted = hex_encode (0 :: firstn 7 (H (concat (map snd sorted)))).
Proof. exact keyset_id_bytes. Qed.
Print Assumptions C11_keyset_id_bytes.

Theorem C11_keyset_id_secp : forall ks id, NoDup (map fst ks) ->
  (keyset_id_spec sha256 ks id <-> id = derive_keyset_id ks).
Proof. exact derive_keyset_id_eq_spec. Qed.
Print Assumptions C11_keyset_id_secp.

(* ===================================================================================== *)
(* BIP32 private derivation: hdkeychain vs the BIP text                                   *)
(* ===================================================================================== *)
(* [key_rel n ik sk]: the byte-slice key hdkeychain stores denotes the integer key of the
   text, chain codes equal, 0 <= k < n. *)

Theorem C11_bip32_master_refines :
  forall (hmac : list Z -> list Z -> list Z) (n : Z),
  (forall k m, length (hmac k m) = 64%nat) -> (forall k m, bytes_ok (hmac k m)) ->
  forall seed,
  match master_spec hmac n seed with
  | Some sk => exists ik, master_impl hmac n seed = Some ik /\ key_rel n ik sk
  | None => master_impl hmac n seed = None
  end.
Proof. exact master_refines. Qed.
Print Assumptions C11_bip32_master_refines.

(* Along any path: where the BIP defines a key, Derive returns it; where the BIP says
   "invalid", Derive fails - except that hdkeychain does not reject a child key equal to 0
   ([zero_on_path], needs IL = n - kpar; kept visible, cannot be exhibited). *)
Theorem C11_bip32_path_refines :
  forall (hmac : list Z -> list Z -> list Z) (serP : Z -> list Z) (n : Z),
  (forall k m, length (hmac k m) = 64%nat) -> 0 < n -> n <= 2 ^ 256 ->
  forall path ik sk, key_rel n ik sk ->
  match derive_path_spec hmac serP n sk path with
  | Some sk' => exists ik', derive_path_impl hmac serP n ik path = Some ik' /\ key_rel n ik' sk'
  | None => derive_path_impl hmac serP n ik path = None \/ zero_on_path hmac serP n ik path
  end.
Proof. exact derive_path_refines. Qed.
Print Assumptions C11_bip32_path_refines.

(* ===================================================================================== *)
(* NUT-13                                                                                *)
(* ===================================================================================== *)

(* The Go call sequence (DeriveKeysetPath, DeriveSecret, DeriveBlindingFactor on NewMaster)
   walks m/129372'/0'/(int(id) mod 2^31-1)'/counter'/{0,1}: binary.BigEndian.Uint64 % (1<<31-1)
   is int.from_bytes(id,'big') % (2**31-1), HardenedKeyStart + x in uint32 is x'. *)
Theorem C11_nut13_path_impl_eq_spec :
  forall (hmac : list Z -> list Z -> list Z) (serP : Z -> list Z) (n : Z) seed id counter,
  length id = 8%nat -> bytes_ok id -> 0 <= counter < 2 ^ 31 ->
  nut13_impl hmac serP n seed (hex_encode id) counter =
  match master_impl hmac n seed with
  | None => Err
  | Some m =>
      match derive_path_impl hmac serP n m (nut13_path id counter 0),
            derive_path_impl hmac serP n m (nut13_path id counter 1) with
      | Some a, Some b => Ok (hex_encode (priv_bytes n a), priv_bytes n b)
      | _, _ => Err
      end
  end.
Proof. exact nut13_impl_paths. Qed.
Print Assumptions C11_nut13_path_impl_eq_spec.

(* Where NUT-13 over BIP32 defines (secret, r) the implementation returns exactly it; where
   they say "invalid" it returns an error, up to the child-key-zero corner. *)
Theorem C11_nut13_refines :
  forall (hmac : list Z -> list Z -> list Z) (serP : Z -> list Z) (n : Z),
  (forall k m, length (hmac k m) = 64%nat) -> (forall k m, bytes_ok (hmac k m)) ->
  0 < n -> n <= 2 ^ 256 ->
  forall seed id counter,
  length id = 8%nat -> bytes_ok id -> 0 <= counter < 2 ^ 31 ->
  match nut13_spec hmac serP n seed id counter with
  | Some v => nut13_impl hmac serP n seed (hex_encode id) counter = Ok v
  | None => nut13_impl hmac serP n seed (hex_encode id) counter = Err \/
            nut13_zero_corner hmac serP n seed id counter
  end.
Proof. exact nut13_refines. Qed.
Print Assumptions C11_nut13_refines.

Theorem C11_nut13_impl_eq_spec :
  forall (hmac : list Z -> list Z -> list Z) (serP : Z -> list Z) (n : Z),
  (forall k m, length (hmac k m) = 64%nat) -> (forall k m, bytes_ok (hmac k m)) ->
  0 < n -> n <= 2 ^ 256 ->
  forall seed id counter,
  length id = 8%nat -> bytes_ok id -> 0 <= counter < 2 ^ 31 ->
  ~ nut13_zero_corner hmac serP n seed id counter ->
  nut13_impl hmac serP n seed (hex_encode id) counter =
  outcome_of (nut13_spec hmac serP n seed id counter).
Proof. exact nut13_impl_eq_spec. Qed.
Print Assumptions C11_nut13_impl_eq_spec.

(* The executable instance (HMAC-SHA512 of Crypto/HMAC.v, secp256k1 of Crypto/Secp256k1.v). *)
Theorem C11_nut13_secp : forall seed id counter,
  length id = 8%nat -> bytes_ok id -> 0 <= counter < 2 ^ 31 ->
  match nut13_derive_spec seed id counter with
  | Some v => nut13_derive seed (hex_encode id) counter = Ok v
  | None => nut13_derive seed (hex_encode id) counter = Err \/
            nut13_zero_corner hmac_sha512 pubkey_bytes secp_n seed id counter
  end.
Proof. exact nut13_derive_refines. Qed.
Print Assumptions C11_nut13_secp.

(* Outside the hypotheses, stated rather than hidden: a counter >= 2^31 wraps in uint32 and
   yields a NON-hardened child (NUT-13 has no such path). *)
Theorem C11_nut13_counter_wraps : forall c, 2 ^ 31 <= c < 2 ^ 32 ->
  u32 (hardened_start + c) = c - 2 ^ 31 /\ u32 (hardened_start + c) < hardened_start.
Proof. exact nut13_counter_wraps. Qed.
Print Assumptions C11_nut13_counter_wraps.

(* ===================================================================================== *)
(* Non-vacuity                                                                           *)
(* ===================================================================================== *)

(* hash_to_curve with the real SHA-256 and secp256k1: the first vector of
   /repo/crypto/bdhke_test.go (one square root: about 3 s). *)
Example C11_nonvacuous_h2c_vector :
  hash_to_curve_bytes (hexs "0000000000000000000000000000000000000000000000000000000000000000")
  = Some (hexs "024cce997d3b518f739663b757deaec95bcd9473c30a14ac2fd04023a739d1a725").
Proof. vm_check. Qed.

(* The loop and the spec on a toy instance that exercises every branch cheaply: H = byte sum,
   a candidate parses iff its hash byte is 200.  The message hashes to 197, so counters 0, 1, 2
   fail and counter 3 succeeds; with a parser that refuses everything all 2^16 counters are
   tried and the result is the error. *)
Definition toy_H (l : list Z) : list Z := [fold_left Z.add l 0 mod 256].
Definition toy_parse (b : list Z) : option Z :=
  match b with [2; h] => if h =? 200 then Some h else None | _ => None end.
Definition toy_msg : list Z := [197 - fold_left Z.add domain_separator 0 mod 256].

Example C11_nonvacuous_h2c_toy :
  toy_H (domain_separator ++ toy_msg) = [197] /\
  h2c_impl toy_H toy_parse toy_msg = Some 200 /\
  h2c_candidate toy_H toy_parse toy_msg 0 = None /\
  h2c_candidate toy_H toy_parse toy_msg 2 = None /\
  h2c_candidate toy_H toy_parse toy_msg 3 = Some 200 /\
  h2c_impl toy_H (fun _ => @None Z) toy_msg = None.
Proof. vm_compute. repeat split; reflexivity. Qed.

(* keyset id: the first vector of /repo/crypto/keyset_test.go given in a non-ascending order,
   and numeric order is not the lexical order of the decimal amounts *)
Example C11_nonvacuous_keyset_id :
  let k1 := hexs "03a40f20667ed53513075dc51e715ff2046cad64eb68960632269ba7f0210e38bc" in
  let k2 := hexs "03fd4ce5a16b65576145949e6f99f445f8249fee17c606b688b504a849cdc452de" in
  let k4 := hexs "02648eccfa4c026960966276fa5a4cae46ce0fd432211a4f449bf84f13aa5f8303" in
  let k8 := hexs "02fdfd6796bfeac490cbee12f778f867f0a2c68f6508d17c649759ea0dc3547528" in
  derive_keyset_id [(4, k4); (1, k1); (8, k8); (2, k2)] = str "00456a94ab4e1c46" /\
  derive_keyset_id [(10, k2); (9, k1)] = keyset_id_from sha256 [(9, k1); (10, k2)] /\
  keyset_id_from sha256 [(9, k1); (10, k2)] <> keyset_id_from sha256 [(10, k2); (9, k1)].
Proof. vm_compute. split; [reflexivity|split; [reflexivity|discriminate]]. Qed.

(* BIP32 / NUT-13 on a toy instance satisfying the hypotheses (64-byte "HMAC" with a small
   left half, n = 101), so that both sides are computed in milliseconds: implementation and
   spec return the same secret and blinding factor; an id with the high bit set; the largest
   counter.  The real HMAC-SHA512 vectors (BIP32 test vector 1, nut13_test.go) are Examples in
   Crypto/BIP32.v and Crypto/NUT13.v (7-10 s each) and fixed first cases of the c11-* streams. *)
Definition toy_hmac (k m : list Z) : list Z :=
  let a := fold_left Z.add k 0 + 3 * fold_left Z.add m 0 in
  be_bytes 32 (a mod 89 + 1) ++ be_bytes 32 (a * a + 7).
Definition toy_serP (k : Z) : list Z := be_bytes 33 (k * 31 + 2).

Lemma toy_hmac_length : forall k m, length (toy_hmac k m) = 64%nat.
Proof. intros k m. unfold toy_hmac. rewrite app_length, !be_bytes_length. reflexivity. Qed.

Lemma toy_hmac_ok : forall k m, bytes_ok (toy_hmac k m).
Proof. intros k m. unfold toy_hmac. apply Forall_app. split; apply be_bytes_ok. Qed.

Example C11_nonvacuous_nut13_toy :
  let seed := repeat 7 32 in
  let id := hexs "f09a1f293253e41e" in
  nut13_impl toy_hmac toy_serP 101 seed (hex_encode id) 2147483647 =
    outcome_of (nut13_spec toy_hmac toy_serP 101 seed id 2147483647) /\
  (exists v, nut13_spec toy_hmac toy_serP 101 seed id 2147483647 = Some v) /\
  nut13_impl toy_hmac toy_serP 101 seed (hex_encode id) 0 <>
    nut13_impl toy_hmac toy_serP 101 seed (hex_encode id) 1 /\
  nut13_keyset_int id = 0xf09a1f293253e41e mod 2147483647 /\
  nut13_impl toy_hmac toy_serP 101 seed (str "f09a1f293253e4") 0 = Panic /\
  nut13_impl toy_hmac toy_serP 101 (repeat 7 15) (hex_encode id) 0 = Err.
Proof.
  vm_compute. split; [reflexivity|]. split; [eexists; reflexivity|].
  split; [discriminate|]. repeat split; reflexivity.
Qed.

(* the NUT-13 integer of the test vector's id, through the Go-shaped and the spec-shaped route *)
Example C11_nonvacuous_keyset_int :
  keyset_int_impl (str "009a1f293253e41e") = Ok 864559728 /\
  nut13_keyset_int (hexs "009a1f293253e41e") = 864559728.
Proof. vm_compute. split; reflexivity. Qed.
