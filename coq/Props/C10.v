(* C10 — Blind signatures and DLEQ proofs are algebraically correct and tamper-evident.
   Statements only; every proof is `exact <lemma>` into Crypto/BDHKE.v and Crypto/DLEQ.v.

   All theorems hold for every [g : group_ops] satisfying [group_laws] (Crypto/Group.v:
   abelian group, Z-module action through Z/q, q prime, non-zero elements have order q) and
   for every function [HashE].  [Y] is hash_to_curve(secret), an arbitrary group element
   ([Y <> 0] where needed).  Scalars are integers that act modulo q = [gq g].
   Definitions mirror /repo/crypto/bdhke.go and /repo/cashu/nuts/nut12/nut12.go:
     blind Y r = Y + r.G     sign k B_ = k.B_     unblind C_ r K = C_ + (-r).K
     verify k Y C = (k.Y == C)                    pubkey k = k.G
     dleq_gen a B_ C_ nonce = (e, s), e = HashE(nonce.G, nonce.B_, a.G, C_) mod q,
                                      s = nonce + e*a mod q
     dleq_verify e s A B_ C_ = (e mod q == HashE(s.G + (-e).A, s.B_ + (-e).C_, A, C_))
     dleq_verify_proof e s r A Y C = dleq_verify e s A (Y + r.G) (C + r.A)

   Names ending in [_partial] are weaker than the informal claim; the header of
   Crypto/DLEQ.v says exactly how.  The laws are proved satisfiable (Z/101, below); they are
   NOT proved for secp256k1 (trusted mathematics, DESIGN.md section 4).

   The last part instantiates the theorems at [BDHKEsecp.secp_ops], the secp256k1 operations
   that the extracted runner executes against /repo/crypto/bdhke.go and nut12.go (stream
   c10-bdhke): [go_sign], [go_unblind], [go_generate_dleq], [go_verify_dleq] ARE the generic
   [sign], [unblind], [dleq_gen], [dleq_verify] applied to [secp_ops] and to the real HashE
   (SHA-256 over the hex text of the uncompressed points).  Those corollaries carry the
   hypothesis [secp_laws] = the laws hold on points satisfying the curve equation. *)
From Coq Require Import ZArith Znumtheory Bool.
From Verif Require Import Group BDHKE DLEQ.
From Verif Require Secp256k1 H2C BDHKEsecp.
Open Scope Z_scope.

(* ===================================================================================== *)
(* Blind signatures                                                                      *)
(* ===================================================================================== *)

(* Unblinding the mint's signature on the blinded message yields exactly k.Y, for every
   secret (Y), blinding factor r and mint key k. *)
Theorem C10_unblind_sign_blind : forall g, group_laws g -> forall k r (Y : carrier g),
  unblind g (sign g k (blind g Y r)) r (pubkey g k) = smul g k Y.
Proof. exact unblind_sign_blind. Qed.
Print Assumptions C10_unblind_sign_blind.

(* It verifies under that key. *)
Theorem C10_verify_unblinded : forall g, group_laws g -> forall k r (Y : carrier g),
  verify g k Y (unblind g (sign g k (blind g Y r)) r (pubkey g k)) = true.
Proof. exact verify_unblinded. Qed.
Print Assumptions C10_verify_unblinded.

(* It is independent of the blinding factor. *)
Theorem C10_unblind_indep_of_r : forall g, group_laws g -> forall k (Y : carrier g) r r',
  unblind g (sign g k (blind g Y r)) r (pubkey g k) =
  unblind g (sign g k (blind g Y r')) r' (pubkey g k).
Proof. exact unblind_indep_of_r. Qed.
Print Assumptions C10_unblind_indep_of_r.

(* verify accepts exactly one point. *)
Theorem C10_verify_iff : forall g, group_laws g -> forall k (Y C : carrier g),
  verify g k Y C = true <-> C = smul g k Y.
Proof. exact verify_iff. Qed.
Print Assumptions C10_verify_iff.

(* It fails under any other key ... *)
Theorem C10_verify_wrong_key : forall g, group_laws g -> forall k k' (Y : carrier g),
  k mod gq g <> k' mod gq g -> Y <> gzero g ->
  verify g k' Y (smul g k Y) = false.
Proof. exact verify_wrong_key. Qed.
Print Assumptions C10_verify_wrong_key.

(* ... any other secret (a mint key is never 0) ... *)
Theorem C10_verify_wrong_secret : forall g, group_laws g -> forall k (Y Y' : carrier g),
  Y' <> Y -> k mod gq g <> 0 ->
  verify g k Y' (smul g k Y) = false.
Proof. exact verify_wrong_secret. Qed.
Print Assumptions C10_verify_wrong_secret.

(* ... or any other point. *)
Theorem C10_verify_wrong_point : forall g, group_laws g -> forall k (Y C : carrier g),
  C <> smul g k Y -> verify g k Y C = false.
Proof. exact verify_wrong_point. Qed.
Print Assumptions C10_verify_wrong_point.

(* A blind signature made with a key k' other than the published k.G unblinds to something
   that is not a valid signature under k (B_ = 0 excluded: one r in q). *)
Theorem C10_unblind_wrong_signing_key : forall g, group_laws g -> forall k k' r (Y : carrier g),
  k mod gq g <> k' mod gq g -> blind g Y r <> gzero g ->
  verify g k Y (unblind g (sign g k' (blind g Y r)) r (pubkey g k)) = false.
Proof. exact unblind_wrong_signing_key. Qed.
Print Assumptions C10_unblind_wrong_signing_key.

(* ===================================================================================== *)
(* DLEQ: completeness                                                                    *)
(* ===================================================================================== *)

(* Every blind signature the mint returns carries a DLEQ proof that verification accepts for
   the published key: for every key a, blinded message B_ and nonce.  Hypothesis: the hash
   value, as an integer, is below q -- the Go verifier compares the reduced e with the
   unreduced hash. *)
Theorem C10_dleq_complete : forall g, group_laws g ->
  forall (HashE : carrier g -> carrier g -> carrier g -> carrier g -> Z) a B_ nonce e s,
  0 <= HashE (smul g nonce (gG g)) (smul g nonce B_) (pubkey g a) (sign g a B_) < gq g ->
  dleq_gen g HashE a B_ (sign g a B_) nonce = (e, s) ->
  dleq_verify g HashE e s (pubkey g a) B_ (sign g a B_) = true.
Proof. exact dleq_complete. Qed.
Print Assumptions C10_dleq_complete.

(* ... and that hypothesis is exactly what is needed. *)
Theorem C10_dleq_complete_iff : forall g, group_laws g ->
  forall (HashE : carrier g -> carrier g -> carrier g -> carrier g -> Z) a B_ nonce e s,
  dleq_gen g HashE a B_ (sign g a B_) nonce = (e, s) ->
  (dleq_verify g HashE e s (pubkey g a) B_ (sign g a B_) = true <->
   0 <= HashE (smul g nonce (gG g)) (smul g nonce B_) (pubkey g a) (sign g a B_) < gq g).
Proof. exact dleq_complete_iff. Qed.
Print Assumptions C10_dleq_complete_iff.

(* The proof a wallet attaches to an unblinded token (e, s, r) is accepted by a third party
   whenever (e, s) was accepted for (B_, C_): in fact the two checks are the same boolean. *)
Theorem C10_dleq_proof_on_token : forall g, group_laws g ->
  forall (HashE : carrier g -> carrier g -> carrier g -> carrier g -> Z) e s r A Y C_,
  dleq_verify g HashE e s A (blind g Y r) C_ = true ->
  dleq_verify_proof g HashE e s r A Y (unblind g C_ r A) = true.
Proof. exact dleq_proof_on_token. Qed.
Print Assumptions C10_dleq_proof_on_token.

Theorem C10_dleq_proof_on_token_eq : forall g, group_laws g ->
  forall (HashE : carrier g -> carrier g -> carrier g -> carrier g -> Z) e s r A Y C_,
  dleq_verify_proof g HashE e s r A Y (unblind g C_ r A) =
  dleq_verify g HashE e s A (blind g Y r) C_.
Proof. exact dleq_proof_on_token_eq. Qed.
Print Assumptions C10_dleq_proof_on_token_eq.

(* End to end: blind, sign and prove, unblind, attach r: the third party accepts the DLEQ
   proof and the token verifies under the mint key. *)
Theorem C10_dleq_mint_to_third_party : forall g, group_laws g ->
  forall (HashE : carrier g -> carrier g -> carrier g -> carrier g -> Z) a Y r nonce e s,
  let B_ := blind g Y r in
  let C_ := sign g a B_ in
  0 <= HashE (smul g nonce (gG g)) (smul g nonce B_) (pubkey g a) C_ < gq g ->
  dleq_gen g HashE a B_ C_ nonce = (e, s) ->
  dleq_verify_proof g HashE e s r (pubkey g a) Y (unblind g C_ r (pubkey g a)) = true /\
  verify g a Y (unblind g C_ r (pubkey g a)) = true.
Proof. exact dleq_mint_to_third_party. Qed.
Print Assumptions C10_dleq_mint_to_third_party.

(* Verification depends on e and s only modulo q (the byte-level parsing that reduces them
   is modelled elsewhere). *)
Theorem C10_dleq_verify_mod : forall g, group_laws g ->
  forall (HashE : carrier g -> carrier g -> carrier g -> carrier g -> Z) e s A B_ C_,
  dleq_verify g HashE (e mod gq g) (s mod gq g) A B_ C_ = dleq_verify g HashE e s A B_ C_.
Proof. exact dleq_verify_mod. Qed.
Print Assumptions C10_dleq_verify_mod.

(* ===================================================================================== *)
(* DLEQ: a signature made with a different key than the published one                     *)
(* ===================================================================================== *)

(* Published key a.G, signature made with c <> a (mod q) on B_ <> 0: for fixed commitments
   (R1, R2) at most one challenge value (mod q) has a response that opens them.  The prover
   therefore has to find commitments whose HashE is that one value. *)
Theorem C10_dleq_sound_unique_challenge : forall g, group_laws g ->
  forall a c (B_ R1 R2 : carrier g) e1 s1 e2 s2,
  a mod gq g <> c mod gq g -> B_ <> gzero g ->
  dleq_R1 g e1 s1 (pubkey g a) = R1 -> dleq_R2 g e1 s1 B_ (sign g c B_) = R2 ->
  dleq_R1 g e2 s2 (pubkey g a) = R1 -> dleq_R2 g e2 s2 B_ (sign g c B_) = R2 ->
  e1 mod gq g = e2 mod gq g.
Proof. exact dleq_sound_unique_challenge. Qed.
Print Assumptions C10_dleq_sound_unique_challenge.

(* The same for any C_ that is not a.B_. *)
Theorem C10_dleq_sound_unique_challenge_pt : forall g, group_laws g ->
  forall a (B_ C_ R1 R2 : carrier g) e1 s1 e2 s2,
  C_ <> smul g a B_ ->
  dleq_R1 g e1 s1 (pubkey g a) = R1 -> dleq_R2 g e1 s1 B_ C_ = R2 ->
  dleq_R1 g e2 s2 (pubkey g a) = R1 -> dleq_R2 g e2 s2 B_ C_ = R2 ->
  e1 mod gq g = e2 mod gq g.
Proof. exact dleq_sound_unique_challenge_pt. Qed.
Print Assumptions C10_dleq_sound_unique_challenge_pt.

(* Special soundness: two openings of the same commitments with different challenges give a
   common discrete logarithm of (A over G) and (C_ over B_). *)
Theorem C10_dleq_special_soundness : forall g, group_laws g ->
  forall (A B_ C_ : carrier g) e1 s1 e2 s2,
  dleq_R1 g e1 s1 A = dleq_R1 g e2 s2 A ->
  dleq_R2 g e1 s1 B_ C_ = dleq_R2 g e2 s2 B_ C_ ->
  e1 mod gq g <> e2 mod gq g ->
  exists x, A = smul g x (gG g) /\ C_ = smul g x B_.
Proof. exact dleq_special_soundness. Qed.
Print Assumptions C10_dleq_special_soundness.

(* By contrast, for an honest statement EVERY challenge can be answered. *)
Theorem C10_dleq_honest_any_challenge : forall g, group_laws g ->
  forall a (B_ : carrier g) n e s,
  s mod gq g = (n + e * a) mod gq g ->
  dleq_R1 g e s (pubkey g a) = smul g n (gG g) /\
  dleq_R2 g e s B_ (sign g a B_) = smul g n B_.
Proof. exact dleq_honest_any_challenge. Qed.
Print Assumptions C10_dleq_honest_any_challenge.

(* ===================================================================================== *)
(* DLEQ: tampering with one field, as reductions                                         *)
(* ===================================================================================== *)
(* [hash_collision g HashE] = two different 4-tuples of group elements with equal HashE. *)

(* s *)
Theorem C10_dleq_tamper_s : forall g, group_laws g ->
  forall (HashE : carrier g -> carrier g -> carrier g -> carrier g -> Z) e s s' A B_ C_,
  dleq_verify g HashE e s A B_ C_ = true -> dleq_verify g HashE e s' A B_ C_ = true ->
  s mod gq g = s' mod gq g \/ hash_collision g HashE.
Proof. exact dleq_tamper_s. Qed.
Print Assumptions C10_dleq_tamper_s.

(* the public key -- which is also what changing the amount does, since the verifier looks
   the key up by amount (nut12.VerifyProofsDLEQ) *)
Theorem C10_dleq_tamper_A : forall g, group_laws g ->
  forall (HashE : carrier g -> carrier g -> carrier g -> carrier g -> Z) e s A A' B_ C_,
  dleq_verify g HashE e s A B_ C_ = true -> dleq_verify g HashE e s A' B_ C_ = true ->
  A = A' \/ hash_collision g HashE.
Proof. exact dleq_tamper_A. Qed.
Print Assumptions C10_dleq_tamper_A.

(* C_ *)
Theorem C10_dleq_tamper_C_ : forall g, group_laws g ->
  forall (HashE : carrier g -> carrier g -> carrier g -> carrier g -> Z) e s A B_ C_ C_',
  dleq_verify g HashE e s A B_ C_ = true -> dleq_verify g HashE e s A B_ C_' = true ->
  C_ = C_' \/ hash_collision g HashE.
Proof. exact dleq_tamper_C_. Qed.
Print Assumptions C10_dleq_tamper_C_.

(* B_ : a collision unless s = 0 (mod q) ... *)
Theorem C10_dleq_tamper_B_partial : forall g, group_laws g ->
  forall (HashE : carrier g -> carrier g -> carrier g -> carrier g -> Z) e s A B_ B_' C_,
  dleq_verify g HashE e s A B_ C_ = true -> dleq_verify g HashE e s A B_' C_ = true ->
  B_ = B_' \/ hash_collision g HashE \/ s mod gq g = 0.
Proof. exact dleq_tamper_B_partial. Qed.
Print Assumptions C10_dleq_tamper_B_partial.

(* ... and the exception is real: with s = 0 (mod q) the verifier ignores B_. *)
Theorem C10_dleq_s_zero_ignores_B : forall g, group_laws g ->
  forall (HashE : carrier g -> carrier g -> carrier g -> carrier g -> Z) e s A B_ B_' C_,
  s mod gq g = 0 ->
  dleq_verify g HashE e s A B_ C_ = dleq_verify g HashE e s A B_' C_.
Proof. exact dleq_s_zero_ignores_B. Qed.
Print Assumptions C10_dleq_s_zero_ignores_B.

(* e : no collision follows (the two hash values are different).  What follows: the
   recomputed commitment R1 differs, so e' is the hash of a different tuple that depends on
   e' itself. *)
Theorem C10_dleq_tamper_e_partial : forall g, group_laws g ->
  forall (HashE : carrier g -> carrier g -> carrier g -> carrier g -> Z) e e' s A B_ C_,
  A <> gzero g ->
  dleq_verify g HashE e s A B_ C_ = true -> dleq_verify g HashE e' s A B_ C_ = true ->
  e mod gq g = e' mod gq g \/
  (dleq_R1 g e s A <> dleq_R1 g e' s A /\
   hash4 g HashE (dleq_R1 g e s A, dleq_R2 g e s B_ C_, A, C_) = e mod gq g /\
   hash4 g HashE (dleq_R1 g e' s A, dleq_R2 g e' s B_ C_, A, C_) = e' mod gq g).
Proof. exact dleq_tamper_e_partial. Qed.
Print Assumptions C10_dleq_tamper_e_partial.

(* e, honest statement: the mint's own prover returns the same s for two different nonces. *)
Theorem C10_dleq_tamper_e_honest_partial : forall g, group_laws g ->
  forall (HashE : carrier g -> carrier g -> carrier g -> carrier g -> Z) a e e' s B_,
  a mod gq g <> 0 ->
  dleq_verify g HashE e s (pubkey g a) B_ (sign g a B_) = true ->
  dleq_verify g HashE e' s (pubkey g a) B_ (sign g a B_) = true ->
  e mod gq g = e' mod gq g \/
  exists n n', n mod gq g <> n' mod gq g /\
    dleq_gen g HashE a B_ (sign g a B_) n = (e mod gq g, s mod gq g) /\
    dleq_gen g HashE a B_ (sign g a B_) n' = (e' mod gq g, s mod gq g).
Proof. exact dleq_tamper_e_honest_partial. Qed.
Print Assumptions C10_dleq_tamper_e_honest_partial.

(* The proof attached to a token, checked by a third party: s, r, C, key/amount, secret, e. *)
Theorem C10_dleq_token_tamper_s : forall g, group_laws g ->
  forall (HashE : carrier g -> carrier g -> carrier g -> carrier g -> Z) e s s' r A Y C,
  dleq_verify_proof g HashE e s r A Y C = true ->
  dleq_verify_proof g HashE e s' r A Y C = true ->
  s mod gq g = s' mod gq g \/ hash_collision g HashE.
Proof. exact dleq_token_tamper_s. Qed.
Print Assumptions C10_dleq_token_tamper_s.

Theorem C10_dleq_token_tamper_r : forall g, group_laws g ->
  forall (HashE : carrier g -> carrier g -> carrier g -> carrier g -> Z) e s r r' A Y C,
  A <> gzero g ->
  dleq_verify_proof g HashE e s r A Y C = true ->
  dleq_verify_proof g HashE e s r' A Y C = true ->
  r mod gq g = r' mod gq g \/ hash_collision g HashE.
Proof. exact dleq_token_tamper_r. Qed.
Print Assumptions C10_dleq_token_tamper_r.

Theorem C10_dleq_token_tamper_C : forall g, group_laws g ->
  forall (HashE : carrier g -> carrier g -> carrier g -> carrier g -> Z) e s r A Y C C',
  dleq_verify_proof g HashE e s r A Y C = true ->
  dleq_verify_proof g HashE e s r A Y C' = true ->
  C = C' \/ hash_collision g HashE.
Proof. exact dleq_token_tamper_C. Qed.
Print Assumptions C10_dleq_token_tamper_C.

Theorem C10_dleq_token_tamper_A : forall g, group_laws g ->
  forall (HashE : carrier g -> carrier g -> carrier g -> carrier g -> Z) e s r A A' Y C,
  dleq_verify_proof g HashE e s r A Y C = true ->
  dleq_verify_proof g HashE e s r A' Y C = true ->
  A = A' \/ hash_collision g HashE.
Proof. exact dleq_token_tamper_A. Qed.
Print Assumptions C10_dleq_token_tamper_A.

Theorem C10_dleq_token_tamper_Y_partial : forall g, group_laws g ->
  forall (HashE : carrier g -> carrier g -> carrier g -> carrier g -> Z) e s r A Y Y' C,
  dleq_verify_proof g HashE e s r A Y C = true ->
  dleq_verify_proof g HashE e s r A Y' C = true ->
  Y = Y' \/ hash_collision g HashE \/ s mod gq g = 0.
Proof. exact dleq_token_tamper_Y_partial. Qed.
Print Assumptions C10_dleq_token_tamper_Y_partial.

Theorem C10_dleq_token_tamper_e_partial : forall g, group_laws g ->
  forall (HashE : carrier g -> carrier g -> carrier g -> carrier g -> Z) e e' s r A Y C,
  A <> gzero g ->
  dleq_verify_proof g HashE e s r A Y C = true ->
  dleq_verify_proof g HashE e' s r A Y C = true ->
  e mod gq g = e' mod gq g \/ dleq_R1 g e s A <> dleq_R1 g e' s A.
Proof. exact dleq_token_tamper_e_partial. Qed.
Print Assumptions C10_dleq_token_tamper_e_partial.

(* ===================================================================================== *)
(* The laws are satisfiable, and the theorems are not vacuous                             *)
(* ===================================================================================== *)

Theorem C10_group_laws_Zq : forall p : positive, prime (Zpos p) -> group_laws (Zq_ops p).
Proof. exact Zq_laws. Qed.
Print Assumptions C10_group_laws_Zq.

Theorem C10_group_laws_Z101 : group_laws Z101.
Proof. exact Z101_laws. Qed.
Print Assumptions C10_group_laws_Z101.

(* Laws that hold only on a "valid" subset of a raw carrier (on-curve points) give
   [group_laws] on the subset type, so everything above applies to all valid points. *)
Theorem C10_group_laws_on_subset : forall g valid (V : group_laws_on g valid),
  group_laws (Sub_ops g valid V).
Proof. exact Sub_laws. Qed.
Print Assumptions C10_group_laws_on_subset.

(* Concrete runs in Z/101 (G = 1, k.P = k*P mod 101). *)
Definition z101 (x : Z) : carrier Z101 := zq_of 101 x.
Definition v101 (P : carrier Z101) : Z := zq_val 101 P.

(* a toy hash with values in [0,101) *)
Definition H101 (a b c d : carrier Z101) : Z :=
  (7 * v101 a + 13 * v101 b + 31 * v101 c + 3 * v101 d + 5) mod 101.
(* the same shifted out of range: values in [101,202) *)
Definition H101_big (a b c d : carrier Z101) : Z := H101 a b c d + 101.

(* secret Y = 17, blinding factor 23, mint key 45: B_ = 40, C_ = 83, C = 58 = 45*17 mod 101 *)
Example C10_nonvacuous_round :
  let Y := z101 17 in
  let B_ := blind Z101 Y 23 in
  let C_ := sign Z101 45 B_ in
  let C := unblind Z101 C_ 23 (pubkey Z101 45) in
  (v101 B_, v101 C_, v101 C) = (40, 83, 58) /\
  C = smul Z101 45 Y /\
  verify Z101 45 Y C = true /\
  unblind Z101 (sign Z101 45 (blind Z101 Y 99)) 99 (pubkey Z101 45) = C /\   (* other r *)
  verify Z101 46 Y C = false /\                                              (* other key *)
  verify Z101 45 (z101 18) C = false /\                                      (* other secret *)
  verify Z101 45 Y (z101 59) = false /\                                      (* other point *)
  (* signed with 46 instead of the published 45.G *)
  verify Z101 45 Y (unblind Z101 (sign Z101 46 B_) 23 (pubkey Z101 45)) = false.
Proof. vm_compute. repeat split; reflexivity. Qed.

(* the mint's DLEQ proof with nonce 77 for that signature, and every single-field change *)
Example C10_nonvacuous_dleq :
  let Y := z101 17 in
  let B_ := blind Z101 Y 23 in
  let C_ := sign Z101 45 B_ in
  let A := pubkey Z101 45 in
  let C := unblind Z101 C_ 23 A in
  let e := fst (dleq_gen Z101 H101 45 B_ C_ 77) in
  let s := snd (dleq_gen Z101 H101 45 B_ C_ 77) in
  dleq_verify Z101 H101 e s A B_ C_ = true /\
  dleq_verify Z101 H101 (e + 101) (s - 202) A B_ C_ = true /\        (* same mod q *)
  dleq_verify Z101 H101 (e + 1) s A B_ C_ = false /\
  dleq_verify Z101 H101 e (s + 1) A B_ C_ = false /\
  dleq_verify Z101 H101 e s (pubkey Z101 46) B_ C_ = false /\
  dleq_verify Z101 H101 e s A (blind Z101 Y 24) C_ = false /\
  dleq_verify Z101 H101 e s A B_ (sign Z101 46 B_) = false /\
  (* third party, proof (e, s, r = 23) on the token (Y, C) *)
  dleq_verify_proof Z101 H101 e s 23 A Y C = true /\
  dleq_verify_proof Z101 H101 e s 24 A Y C = false /\                (* r *)
  dleq_verify_proof Z101 H101 e s 23 A (z101 18) C = false /\        (* secret *)
  dleq_verify_proof Z101 H101 e s 23 A Y (z101 59) = false /\        (* C *)
  dleq_verify_proof Z101 H101 e s 23 (pubkey Z101 46) Y C = false /\ (* key / amount *)
  dleq_verify_proof Z101 H101 (e + 1) s 23 A Y C = false /\
  dleq_verify_proof Z101 H101 e (s + 1) 23 A Y C = false.
Proof. vm_compute. repeat split; reflexivity. Qed.

(* a mint that signs with 46 but publishes 45.G: its own proof (made with 46) is rejected
   under the published key, and so is a proof made with the published scalar *)
Example C10_nonvacuous_wrong_key :
  let B_ := blind Z101 (z101 17) 23 in
  let C_bad := sign Z101 46 B_ in
  let A := pubkey Z101 45 in
  let p46 := dleq_gen Z101 H101 46 B_ C_bad 77 in
  let p45 := dleq_gen Z101 H101 45 B_ C_bad 77 in
  dleq_verify Z101 H101 (fst p46) (snd p46) A B_ C_bad = false /\
  dleq_verify Z101 H101 (fst p45) (snd p45) A B_ C_bad = false /\
  dleq_verify Z101 H101 (fst p46) (snd p46) (pubkey Z101 46) B_ C_bad = true.
Proof. vm_compute. repeat split; reflexivity. Qed.

(* the hash-range hypothesis of C10_dleq_complete cannot be dropped: with hash values >= q
   the honest proof is rejected (on secp256k1 this needs a SHA-256 value >= n, probability
   about 2^-128) *)
Example C10_hash_range_needed :
  let B_ := blind Z101 (z101 17) 23 in
  let C_ := sign Z101 45 B_ in
  let p := dleq_gen Z101 H101_big 45 B_ C_ 77 in
  dleq_verify Z101 H101_big (fst p) (snd p) (pubkey Z101 45) B_ C_ = false.
Proof. vm_compute. reflexivity. Qed.

(* ===================================================================================== *)
(* The executed secp256k1 instance                                                       *)
(* ===================================================================================== *)

(* Laws relative to a validity predicate give the theorems for the RAW operations on valid
   elements (not only for the subset type). *)
Theorem C10_on_valid_unblind_sign_blind : forall g valid, group_laws_on g valid ->
  forall k r (Y : carrier g), valid Y = true ->
  unblind g (sign g k (blind g Y r)) r (pubkey g k) = smul g k Y.
Proof. exact BDHKEsecp.on_unblind_sign_blind. Qed.
Print Assumptions C10_on_valid_unblind_sign_blind.

Theorem C10_on_valid_verify_unblinded : forall g valid, group_laws_on g valid ->
  forall k r (Y : carrier g), valid Y = true ->
  verify g k Y (unblind g (sign g k (blind g Y r)) r (pubkey g k)) = true.
Proof. exact BDHKEsecp.on_verify_unblinded. Qed.
Print Assumptions C10_on_valid_verify_unblinded.

Theorem C10_on_valid_unblind_indep_of_r : forall g valid, group_laws_on g valid ->
  forall k (Y : carrier g) r r', valid Y = true ->
  unblind g (sign g k (blind g Y r)) r (pubkey g k) =
  unblind g (sign g k (blind g Y r')) r' (pubkey g k).
Proof. exact BDHKEsecp.on_unblind_indep_of_r. Qed.
Print Assumptions C10_on_valid_unblind_indep_of_r.

Theorem C10_on_valid_verify_wrong_key : forall g valid, group_laws_on g valid ->
  forall k k' (Y : carrier g), valid Y = true ->
  k mod gq g <> k' mod gq g -> Y <> gzero g -> verify g k' Y (smul g k Y) = false.
Proof. exact BDHKEsecp.on_verify_wrong_key. Qed.
Print Assumptions C10_on_valid_verify_wrong_key.

Theorem C10_on_valid_dleq_complete : forall g valid, group_laws_on g valid ->
  forall (HashE : carrier g -> carrier g -> carrier g -> carrier g -> Z) a B_ nonce e s,
  valid B_ = true ->
  0 <= HashE (smul g nonce (gG g)) (smul g nonce B_) (pubkey g a) (sign g a B_) < gq g ->
  dleq_gen g HashE a B_ (sign g a B_) nonce = (e, s) ->
  dleq_verify g HashE e s (pubkey g a) B_ (sign g a B_) = true.
Proof. exact BDHKEsecp.on_dleq_complete. Qed.
Print Assumptions C10_on_valid_dleq_complete.

Theorem C10_on_valid_dleq_mint_to_third_party : forall g valid, group_laws_on g valid ->
  forall (HashE : carrier g -> carrier g -> carrier g -> carrier g -> Z) a Y r nonce e s,
  valid Y = true ->
  let B_ := blind g Y r in
  let C_ := sign g a B_ in
  0 <= HashE (smul g nonce (gG g)) (smul g nonce B_) (pubkey g a) C_ < gq g ->
  dleq_gen g HashE a B_ C_ nonce = (e, s) ->
  dleq_verify_proof g HashE e s r (pubkey g a) Y (unblind g C_ r (pubkey g a)) = true /\
  verify g a Y (unblind g C_ r (pubkey g a)) = true.
Proof. exact BDHKEsecp.on_dleq_mint_to_third_party. Qed.
Print Assumptions C10_on_valid_dleq_mint_to_third_party.

Theorem C10_on_valid_dleq_sound_unique_challenge : forall g valid, group_laws_on g valid ->
  forall a c (B_ R1 R2 : carrier g) e1 s1 e2 s2,
  valid B_ = true ->
  a mod gq g <> c mod gq g -> B_ <> gzero g ->
  dleq_R1 g e1 s1 (pubkey g a) = R1 -> dleq_R2 g e1 s1 B_ (sign g c B_) = R2 ->
  dleq_R1 g e2 s2 (pubkey g a) = R1 -> dleq_R2 g e2 s2 B_ (sign g c B_) = R2 ->
  e1 mod gq g = e2 mod gq g.
Proof. exact BDHKEsecp.on_dleq_sound_unique_challenge. Qed.
Print Assumptions C10_on_valid_dleq_sound_unique_challenge.

(* The functions run against the Go code.  [secp_laws] is the trusted mathematical fact. *)
Theorem C10_secp_unblind_sign_blind : BDHKEsecp.secp_laws ->
  forall k r Y, Secp256k1.on_curve Y = true ->
  BDHKEsecp.go_unblind (BDHKEsecp.go_sign (blind BDHKEsecp.secp_ops Y r) k) r
    (Secp256k1.pt_mul k Secp256k1.secp_G) = Secp256k1.pt_mul k Y.
Proof. exact BDHKEsecp.secp_unblind_sign_blind. Qed.
Print Assumptions C10_secp_unblind_sign_blind.

Theorem C10_secp_verify_unblinded : BDHKEsecp.secp_laws ->
  forall k r Y, Secp256k1.on_curve Y = true ->
  verify BDHKEsecp.secp_ops k Y
    (BDHKEsecp.go_unblind (BDHKEsecp.go_sign (blind BDHKEsecp.secp_ops Y r) k) r
       (Secp256k1.pt_mul k Secp256k1.secp_G)) = true.
Proof. exact BDHKEsecp.secp_verify_unblinded. Qed.
Print Assumptions C10_secp_verify_unblinded.

Theorem C10_secp_dleq_complete : BDHKEsecp.secp_laws ->
  forall a B_ nonce e s, Secp256k1.on_curve B_ = true ->
  0 <= BDHKEsecp.secp_hashE (Secp256k1.pt_mul nonce Secp256k1.secp_G) (Secp256k1.pt_mul nonce B_)
         (Secp256k1.pt_mul a Secp256k1.secp_G) (BDHKEsecp.go_sign B_ a) < Secp256k1.secp_n ->
  BDHKEsecp.go_generate_dleq a B_ (BDHKEsecp.go_sign B_ a) nonce = (e, s) ->
  BDHKEsecp.go_verify_dleq e s (Secp256k1.pt_mul a Secp256k1.secp_G) B_ (BDHKEsecp.go_sign B_ a) = true.
Proof. exact BDHKEsecp.secp_dleq_complete. Qed.
Print Assumptions C10_secp_dleq_complete.

(* A run of the executed instance with short scalars (a full-size scalar multiplication costs
   about 30 s in the VM; full-size runs are what the c10-bdhke stream does, extracted):
   Y = 3.G, r = 7, k = 5: unblinding gives k.Y = 15.G, it verifies, not under k = 6. *)
Example C10_nonvacuous_secp_round :
  let g := BDHKEsecp.secp_ops in
  let Y := Secp256k1.pt_mul 3 Secp256k1.secp_G in
  let C := BDHKEsecp.go_unblind (BDHKEsecp.go_sign (blind g Y 7) 5) 7 (pubkey g 5) in
  Secp256k1.on_curve Y = true /\
  C = Secp256k1.pt_mul 15 Secp256k1.secp_G /\
  verify g 5 Y C = true /\
  verify g 6 Y C = false /\
  BDHKEsecp.go_unblind (BDHKEsecp.go_sign (blind g Y 2) 5) 2 (pubkey g 5) = C.
Proof. vm_compute. repeat split; reflexivity. Qed.
