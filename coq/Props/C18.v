(* C18 — Send hands over exactly the requested amount, fees included when asked.
   Statements only; every proof is `exact <lemma>` into Wallet/SelectProofs.v.

   The model (Wallet/Select.v) restates cashu.AmountSplit, feesForProofs, feesForCount,
   selectProofsToSend, selectProofsForAmount, getProofsForAmount, the arithmetic of swapToSend and
   splitWalletTarget with every uint64 operation at its width.  Go's sort.Slice is unstable: the
   theorems marked "any sort" hold for ANY two functions srt_up / srt_down that return a
   permutation of their argument, hence for every tie-break of the two sorts in selectProofsToSend;
   the executable instance (sort_up / sort_down, stable insertion sorts) is one of them.

   Standing range hypotheses (definitions in SelectProofs.v):
     nonneg ps            every amount >= 0
     sumA ps < 2^63       the balance at the mint does not come near the uint64 wrap
     wallet_in_range m ps fee rates >= 0, nonneg ps, sumA ps < 2^63, sum of fee rates + 999 < 2^64

   What is FALSE in the code today, and stated as such:
     send_exact_fee_refuted         with includeFees the recipient does not always net the amount
     send_live_refuted(_rounding)   the sufficiency clause fails with proofs of inactive keysets
   and what is proved instead: send_exact_fee_partial (the exact condition for equality),
   send_live_partial (sufficiency when all proofs at the mint are of the active keyset). *)
From Coq Require Import ZArith List Bool Permutation Sorted.
From Verif Require Import Select SelectProofs.
Import ListNotations.
Open Scope Z_scope.

(* AmountSplit(a), for every uint64 a: strictly increasing powers of two that add up to a *)
Theorem C18_amount_split_sum : forall a, 0 <= a < 2 ^ 64 ->
  sumZ (amount_split a) = a /\
  Forall (fun x => exists i, 0 <= i < 64 /\ x = 2 ^ i) (amount_split a) /\
  StronglySorted Z.lt (amount_split a).
Proof. exact amount_split_sum. Qed.
Print Assumptions C18_amount_split_sum.

(* splitWalletTarget(a) adds up to a, whatever the wallet holds *)
Theorem C18_split_wallet_target_sum : forall a w, 0 <= a < 2 ^ 64 -> Z.of_nat (length w) < 2 ^ 63 ->
  sumZ (split_wallet_target a w) = a.
Proof. exact split_wallet_target_sum. Qed.
Print Assumptions C18_split_wallet_target_sum.

(* the model's sorts are sorting permutations: the executable instance is an admissible tie-break *)
Theorem C18_model_sorts_admissible :
  (forall l, Permutation (sort_up l) l) /\ (forall l, Permutation (sort_down l) l) /\
  (forall l, StronglySorted (fun a b => p_amount a <= p_amount b) (sort_up l)) /\
  (forall l, StronglySorted (fun a b => p_amount b <= p_amount a) (sort_down l)).
Proof. exact model_sorts_admissible. Qed.
Print Assumptions C18_model_sorts_admissible.

(* the fuel of the model's loops is never exhausted (any sort) *)
Theorem C18_model_total : forall srt_up srt_down,
  (forall l, Permutation (srt_up l) l) -> (forall l, Permutation (srt_down l) l) ->
  (forall m inc amount ps, select_proofs_to_send_gen srt_up srt_down m inc amount ps <> OutOfFuel) /\
  (forall m inactive active amount inc,
     select_proofs_for_amount_gen srt_up srt_down m inactive active amount inc <> OutOfFuel).
Proof.
  exact (fun su sd Hu Hd => conj (select_never_out_of_fuel su sd Hu Hd)
                                 (select_for_amount_never_out_of_fuel su sd Hu Hd)).
Qed.
Print Assumptions C18_model_total.

(* select_sound (any sort): a successful selectProofsToSend returns a sub-multiset of the proofs
   given, at pairwise distinct positions, worth at least the amount plus - when fees are
   included - the fee of spending the selection itself *)
Theorem C18_select_sound : forall srt_up srt_down,
  (forall l, Permutation (srt_up l) l) -> (forall l, Permutation (srt_down l) l) ->
  forall m inc amount ps sel,
  select_proofs_to_send_gen srt_up srt_down m inc amount ps = Ok sel ->
  (exists rest, Permutation (sel ++ rest) ps) /\
  (NoDup (map p_uid ps) -> NoDup (map p_uid sel) /\ incl sel ps) /\
  (nonneg ps -> sumA ps < 2 ^ 63 -> 0 <= amount ->
   amount + (if inc then fees_for_proofs m sel else 0) <= sumA sel).
Proof. exact select_sound_any_sort. Qed.
Print Assumptions C18_select_sound.

(* the same for selectProofsForAmount (inactive keysets first): every offline hand-out and every
   input list of a swap is a sub-multiset of the wallet's proofs at the mint and covers the
   amount plus its own fee *)
Theorem C18_select_for_amount_sound : forall srt_up srt_down,
  (forall l, Permutation (srt_up l) l) -> (forall l, Permutation (srt_down l) l) ->
  forall m inactive active amount inc r,
  select_proofs_for_amount_gen srt_up srt_down m inactive active amount inc = Ok r ->
  (exists rest, Permutation (r ++ rest) (inactive ++ active)) /\
  (NoDup (map p_uid (inactive ++ active)) -> NoDup (map p_uid r)) /\
  (wallet_in_range m (inactive ++ active) -> 0 <= amount < 2 ^ 63 ->
   amount + (if inc then fees_for_proofs m r else 0) <= sumA r).
Proof. exact select_for_amount_sound_any_sort. Qed.
Print Assumptions C18_select_for_amount_sound.

(* send_exact_nofee (any sort): without fees, whichever way getProofsForAmount goes, exactly the
   amount is handed over - stored proofs worth the amount, or AmountSplit(amount) out of a swap
   whose inputs are the wallet's and balance: inputs = amount + change + input fee *)
Theorem C18_send_exact_nofee : forall srt_up srt_down,
  (forall l, Permutation (srt_up l) l) -> (forall l, Permutation (srt_down l) l) ->
  forall m inactive active amount,
  wallet_in_range m (inactive ++ active) -> 0 <= amount < 2 ^ 62 ->
  Z.of_nat (length (inactive ++ active)) < 2 ^ 63 ->
  (forall sel, get_proofs_decision_gen srt_up srt_down m inactive active amount false = DOffline sel ->
     (exists rest, Permutation (sel ++ rest) (inactive ++ active)) /\ sumA sel = amount) /\
  (forall p, swap_to_send_plan_gen srt_up srt_down m inactive active amount false = Ok p ->
     Permutation (sp_send p) (amount_split amount) /\ sumZ (sp_send p) = amount /\
     (exists rest, Permutation (sp_inputs p ++ rest) (inactive ++ active)) /\
     sumA (sp_inputs p) = amount + sp_change p + fees_for_proofs m (sp_inputs p) /\
     sumZ (sp_change_split p) = sp_change p /\ 0 <= sp_change p).
Proof. exact send_exact_nofee_any_sort. Qed.
Print Assumptions C18_send_exact_nofee.

(* stored proofs handed out as they are (any sort): worth exactly the amount plus - when fees are
   included - exactly the input fee of those very proofs *)
Theorem C18_send_offline_exact : forall srt_up srt_down,
  (forall l, Permutation (srt_up l) l) -> (forall l, Permutation (srt_down l) l) ->
  forall m inactive active amount inc sel,
  get_proofs_decision_gen srt_up srt_down m inactive active amount inc = DOffline sel ->
  (exists rest, Permutation (sel ++ rest) (inactive ++ active)) /\
  (wallet_in_range m (inactive ++ active) -> 0 <= amount < 2 ^ 63 ->
   sumA sel = amount + (if inc then fees_for_proofs m sel else 0)).
Proof. exact send_offline_exact_any_sort. Qed.
Print Assumptions C18_send_offline_exact.

(* send_exact_fee, partial (any sort): through a swap with fees included the hand-out is worth
   amount + f, f = the wallet's estimate feesForCount(n + 1) for the n proofs of the amount; it
   holds n + popcount f proofs, the mint charges feesForCount(n + popcount f), and the recipient
   nets the amount EXACTLY WHEN the two coincide *)
Theorem C18_send_exact_fee_partial : forall srt_up srt_down,
  (forall l, Permutation (srt_up l) l) -> (forall l, Permutation (srt_down l) l) ->
  forall m inactive active amount p,
  wallet_in_range m (inactive ++ active) -> 0 <= amount < 2 ^ 62 ->
  Z.of_nat (length (inactive ++ active)) < 2 ^ 63 ->
  swap_to_send_plan_gen srt_up srt_down m inactive active amount true = Ok p ->
  let ppk := m_active_fee m in
  let n := Z.of_nat (length (amount_split amount)) in
  let f := fees_for_count (n + 1) ppk in
  sumZ (sp_send p) = amount + f /\
  Z.of_nat (length (sp_send p)) = n + popcount f /\
  mint_fee_for_sent m (sp_send p) = fees_for_count (n + popcount f) ppk /\
  (sumZ (sp_send p) - mint_fee_for_sent m (sp_send p) = amount <->
   fees_for_count (n + popcount f) ppk = f).
Proof. exact send_exact_fee_partial_any_sort. Qed.
Print Assumptions C18_send_exact_fee_partial.

(* send_exact_fee is FALSE: input_fee_ppk 1000, a wallet holding two 8-sat proofs (no small
   change), Send(3, includeFees): the estimate is 3 (for 2 + 1 proofs), the hand-out is
   [1,1,2,2] = 6 sat in FOUR proofs, the mint charges 4, the recipient nets 2 *)
Theorem C18_send_exact_fee_refuted :
  exists m inactive active amount p,
    wallet_in_range m (inactive ++ active) /\ amount = 3 /\ m_active_fee m = 1000 /\
    get_proofs_decision m inactive active amount true = DSwap /\
    swap_to_send_plan m inactive active amount true = Ok p /\
    sp_fee_estimate p = 3 /\ sp_send p = [1; 1; 2; 2] /\
    mint_fee_for_sent m (sp_send p) = 4 /\
    sumZ (sp_send p) - mint_fee_for_sent m (sp_send p) = 2.
Proof. exact send_exact_fee_refuted. Qed.
Print Assumptions C18_send_exact_fee_refuted.

(* why this is a finding and not a one-line fix: for two send proofs at 1000 ppk NO fee amount f
   added in binary denominations is charged exactly f *)
Theorem C18_no_binary_fixpoint : forall f, fees_for_count (2 + popcount f) 1000 <> f.
Proof. exact no_binary_fixpoint. Qed.
Print Assumptions C18_no_binary_fixpoint.

(* removed from the spendable balance (any sort; the model has no store: stated on the multiset of
   proofs that stay plus the change): the balance drops by exactly the hand-out, plus - through a
   swap - the input fee of the proofs swapped *)
Theorem C18_send_removed_from_balance : forall srt_up srt_down,
  (forall l, Permutation (srt_up l) l) -> (forall l, Permutation (srt_down l) l) ->
  forall m inactive active amount inc,
  wallet_in_range m (inactive ++ active) -> 0 <= amount < 2 ^ 62 ->
  Z.of_nat (length (inactive ++ active)) < 2 ^ 63 ->
  (forall sel, get_proofs_decision_gen srt_up srt_down m inactive active amount inc = DOffline sel ->
     exists rest, Permutation (sel ++ rest) (inactive ++ active) /\
                  sumA rest = sumA (inactive ++ active) - sumA sel) /\
  (forall p, swap_to_send_plan_gen srt_up srt_down m inactive active amount inc = Ok p ->
     exists rest, Permutation (sp_inputs p ++ rest) (inactive ++ active) /\
                  sumA rest + sumZ (sp_change_split p) =
                  sumA (inactive ++ active) - sumZ (sp_send p) - sp_input_fee p).
Proof. exact send_removed_from_balance_any_sort. Qed.
Print Assumptions C18_send_removed_from_balance.

(* sufficiency of a single selectProofsToSend (any sort): proofs that cover the amount plus the
   fee of spending every one of them are never refused *)
Theorem C18_select_live : forall srt_up srt_down,
  (forall l, Permutation (srt_up l) l) -> (forall l, Permutation (srt_down l) l) ->
  forall m ps amount (inc : bool),
  nonneg ps -> sumA ps < 2 ^ 63 -> 0 <= amount ->
  amount + (if inc then fees_for_proofs m ps else 0) <= sumA ps ->
  exists sel, select_proofs_to_send_gen srt_up srt_down m inc amount ps = Ok sel.
Proof. exact select_live_any_sort. Qed.
Print Assumptions C18_select_live.

(* send_live, partial (any sort): when all proofs held at the mint are of the ACTIVE keyset, a send
   of no more than the balance minus the fee of spending every proof (and of the proofs sent)
   succeeds, offline or through a swap.  Missing for the property's clause: wallets holding proofs
   of inactive keysets - there the clause is false, see below *)
Theorem C18_send_live_partial : forall srt_up srt_down,
  (forall l, Permutation (srt_up l) l) -> (forall l, Permutation (srt_down l) l) ->
  forall m active amount (inc : bool),
  wallet_in_range m active -> 0 <= amount < 2 ^ 62 ->
  let f := if inc then fees_for_count (popcount amount + 1) (m_active_fee m) else 0 in
  amount + f + fees_for_proofs m active <= sumA active ->
  (exists sel, get_proofs_decision_gen srt_up srt_down m [] active amount inc = DOffline sel) \/
  (get_proofs_decision_gen srt_up srt_down m [] active amount inc = DSwap /\
   exists p, swap_to_send_plan_gen srt_up srt_down m [] active amount inc = Ok p).
Proof. exact send_live_partial_any_sort. Qed.
Print Assumptions C18_send_live_partial.

(* send_live is FALSE with inactive keysets (1): selectProofsForAmount drops the error of the first
   selection together with the proofs it had gathered.  Balance 16, fee of all proofs 6, a send of
   7 without fees is refused *)
Theorem C18_send_live_refuted :
  exists m inactive active amount,
    wallet_in_range m (inactive ++ active) /\
    amount + fees_for_proofs m (inactive ++ active) + fees_for_count (popcount amount) (m_active_fee m)
      <= sumA (inactive ++ active) /\
    get_proofs_decision m inactive active amount false = DSwap /\
    swap_to_send_plan m inactive active amount false = Err 2.
Proof. exact send_live_refuted. Qed.
Print Assumptions C18_send_live_refuted.

(* send_live is FALSE with inactive keysets (2): the fee is rounded up once for the inactive part
   and once more for the active part.  Balance 15, 100 ppk everywhere, a send of 13 with fees
   (13 + 1 + 1 <= 15) is refused *)
Theorem C18_send_live_refuted_rounding :
  exists m inactive active amount,
    wallet_in_range m (inactive ++ active) /\
    amount + fees_for_proofs m (inactive ++ active) + fees_for_count (popcount amount + 1) (m_active_fee m)
      <= sumA (inactive ++ active) /\
    get_proofs_decision m inactive active amount true = DSwap /\
    swap_to_send_plan m inactive active amount true = Err 2.
Proof. exact send_live_refuted_rounding. Qed.
Print Assumptions C18_send_live_refuted_rounding.

(* Non-vacuity. *)

(* AmountSplit on the edges *)
Example C18_nonvacuous_amount_split :
  amount_split 13 = [1; 4; 8] /\ amount_split 0 = [] /\
  amount_split (2 ^ 64 - 1) = map (fun i => 2 ^ Z.of_nat i) (seq 0 64) /\ amount_split (2 ^ 63) = [2 ^ 63].
Proof. vm_compute. repeat split. Qed.

(* a wallet satisfying every range hypothesis, a selection that succeeds with fees, an offline
   hand-out, and a swap whose fee estimate IS exact (1000 ppk, amount 1: 1 + 1 proofs estimated,
   fee 2 = one more proof, 2 proofs handed out, the mint charges 2) *)
Example C18_nonvacuous_send :
  let m := mkMint 1000 [(1, 100)] in
  let inactive := [mkProof 4 1 0] in
  let active := [mkProof 8 0 1; mkProof 2 0 2; mkProof 1 0 3; mkProof 16 0 4] in
  (0 <=? m_active_fee m) && forallb (fun kv => 0 <=? snd kv) (m_inactive m) &&
  forallb (fun p => 0 <=? p_amount p) (inactive ++ active) && (sumA (inactive ++ active) <? 2 ^ 63) &&
  (raw_fee m (inactive ++ active) + 999 <? W64) = true /\
  option_map amounts (match select_proofs_to_send m active 9 true with Ok s => Some s | _ => None end) = Some [8; 2; 1; 16] /\
  get_proofs_decision m inactive active 4 false = DOffline [mkProof 4 1 0] /\
  get_proofs_decision m [] [mkProof 8 0 0; mkProof 8 0 1] 1 true = DSwap /\
  (match swap_to_send_plan m [] [mkProof 8 0 0; mkProof 8 0 1] 1 true with
   | Ok p => (sp_fee_estimate p =? 2) && (mint_fee_for_sent m (sp_send p) =? 2) &&
             (sumZ (sp_send p) - mint_fee_for_sent m (sp_send p) =? 1)
   | _ => false
   end) = true.
Proof. vm_compute. repeat split. Qed.

(* the exactness condition of C18_send_exact_fee_partial is satisfiable and refutable *)
Example C18_nonvacuous_fee_condition :
  fees_for_count (1 + popcount (fees_for_count (1 + 1) 1000)) 1000 = fees_for_count (1 + 1) 1000 /\
  fees_for_count (2 + popcount (fees_for_count (2 + 1) 1000)) 1000 <> fees_for_count (2 + 1) 1000 /\
  fees_for_count (5 + popcount (fees_for_count (5 + 1) 500)) 500 <> fees_for_count (5 + 1) 500.
Proof. vm_compute. repeat split; discriminate. Qed.
