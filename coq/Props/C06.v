(* C06 - Rejected or malformed requests change nothing and never crash a handler
   Statements only; every proof is `exact <lemma>` into coq/Mint/*.v.

   Reading guide (definitions in coq/Mint/*.v):
     world            = store (tables spent/pending/signatures/mint quotes/melt quotes/keysets) + Lightning environment
                        (invoices, scripted answers, log of pay calls) + the process memory (keysets, active keyset)
     op               = one request (OSwap, OMint, OMelt, OMeltQuote, OMintQuote, OMintState, OMeltState, OCheck, ORestore,
                        ORotate, ORestart, OWatcher, OBalance, OInfo) or environment step (ESettle, EScriptPay/Look, ...)
     op_prog          = the request as a program over storage/Lightning calls, following mint/mint.go call by call
     run p f w        = run program p from world w; f: which call positions get an injected storage error (no_fault: none)
     run_n n p f w    = the same, but the process dies after n calls
     step cfg f w o   = one request run to completion; run_history / reach: a sequential fault-free history from the empty store
     hrun cfg w h     = a history of items: HNormal o | HFault o f | HCrash o n | HConc ops schedule (interleaving at call granularity)
     WInv w           = every table has unique keys (Y, B_, quote ids, keyset ids)
     Good w           = WInv w and no Y is both spent and pending
     wext w w'        = spent and signature tables of w' extend those of w (nothing removed or altered)
     same_but_calls   = nothing changed but the call counter
     settled w h      = the backend reports the own invoice with payment hash h as settled
     ordered b a s p  = on every path of program p (for every response, so for every fault and cut) an event `a` is preceded by an event `b`

   refusal_changes_nothing: quiet = all tables equal, except that an UNPAID quote whose invoice is settled may be recorded PAID.
   Excluded: refusals caused by a Lightning-backend error (fault domain, C07).  nopanic p = no Panic leaf is reachable in p.
*)
From Coq Require Import ZArith List Bool.
From Verif Require Import Model Sem InvDb InvSwap InvMint InvMelt Corollaries Queries Footprint HRel Global GlobalQuote GlobalValue GlobalErr GlobalQuery GlobalMelt GlobalKeys Cuts CutOrder Conc Races GlobalBalance.
Import ListNotations.
Open Scope Z_scope.

Theorem C06_refusal_changes_nothing : forall (cfg : config) (w : world) (o : op) (e : err) (iss : list Z),
       match o with
       | OMintQuote _ _ _ _ _ | OMintState _ | OMint _ _ _ | OSwap _ _ _ | OMeltQuote _ _ _ _ _ _ _ |
         OMeltState _ | OMelt _ _ | OCheck _ | ORestore _ => True
       | _ => False
       end ->
       Good w ->
       VInv w iss -> snd (step cfg no_fault w o) = RFail e -> e = ELn \/ quiet w (fst (step cfg no_fault w o)).
Proof. exact @refusal_changes_nothing. Qed.
Print Assumptions C06_refusal_changes_nothing.

Theorem C06_request_never_panics : forall (cfg : config) (mem_ks : list ksrow) (active : Z) (o : op),
       match o with
       | ORotate _ | ORestart _ _ => False
       | _ => True
       end -> nopanic (op_prog cfg mem_ks active o).
Proof. exact @request_never_panics. Qed.
Print Assumptions C06_request_never_panics.

Theorem C06_request_run_never_panics : forall (cfg : config) (mem_ks : list ksrow) (active : Z) (o : op),
       match o with
       | ORotate _ | ORestart _ _ => False
       | _ => True
       end ->
       (forall (f : oracle) (w : world), snd (run (op_prog cfg mem_ks active o) f w) <> Panicked) /\
       (forall (n : nat) (f : oracle) (w : world), snd (run_n n (op_prog cfg mem_ks active o) f w) <> Panicked).
Proof. exact @request_run_never_panics. Qed.
Print Assumptions C06_request_run_never_panics.

Theorem C06_check_never_refused : forall (ys : list Z) (w : world) (iss : list Z),
       Good w ->
       VInv w iss ->
       exists (w' : world) (l : list (Z * Z * Z)), run (proofs_state_check ys) no_fault w = (w', Done (Ok l)).
Proof. exact @check_never_refused. Qed.
Print Assumptions C06_check_never_refused.

Theorem C06_swap_atomic : forall (mem_ks : list ksrow) (active : Z) (ins : list proof) (outs : list bmsg) (sg : bool) (w : world),
       WInv w ->
       exists (w' : world) (r : result (list srow)),
         run (swap mem_ks active ins outs sg) no_fault w = (w', Done r) /\
         (forall e : err, r = Err e -> same_but_calls w w').
Proof. exact @swap_atomic. Qed.
Print Assumptions C06_swap_atomic.

