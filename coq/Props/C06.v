(* C06 — Rejected or malformed requests change nothing and never crash a handler
   Statements only; every proof is `exact <lemma>` into Mint/*.v (model: Mint/Model.v, semantics: Mint/Sem.v). *)
From Coq Require Import ZArith List Bool.
From Verif Require Import Model Sem InvDb InvSwap InvMint InvMelt Corollaries Queries.
Import ListNotations.
Open Scope Z_scope.

Theorem C06_swap_atomic : forall (mem_ks : list ksrow) (active : Z) (ins : list proof) (outs : list bmsg) (sg : bool) (w : world),
       WInv w ->
       exists (w' : world) (r : result (list srow)),
         run (swap mem_ks active ins outs sg) no_fault w = (w', Done r) /\
         (forall e : err, r = Err e -> same_but_calls w w').
Proof. exact @swap_atomic. Qed.
Print Assumptions C06_swap_atomic.

Theorem C06_swap_spec : forall (mem_ks : list ksrow) (active : Z) (ins : list proof) (outs : list bmsg) (sg : bool) (w : world),
       WInv w ->
       exists (w' : world) (r : result (list srow)),
         run (swap mem_ks active ins outs sg) no_fault w = (w', Done r) /\
         match r with
         | Ok sigs =>
             swap_gate mem_ks ins outs <> None /\
             ins <> [] /\
             (forall p : proof,
              In p ins ->
              ~ In (p_secret p) (ys_of (d_spent (w_db w))) /\ ~ In (p_secret p) (ys_of (d_pending (w_db w)))) /\
             NoDup (map p_secret ins) /\
             check_proofs mem_ks ins = None /\
             (forall o : bmsg, In o outs -> ~ In (b_B o) (map s_B (d_sigs (w_db w)))) /\
             (existsb p_sigall ins = true -> sg = true) /\
             check_outputs mem_ks active outs = None /\
             sigs = sig_rows outs /\
             d_spent (w_db w') = d_spent (w_db w) ++ map (to_row 0) ins /\
             d_sigs (w_db w') = d_sigs (w_db w) ++ sig_rows outs /\ ExecKeepsRest w w'
         | Err _ => same_but_calls w w'
         end.
Proof. exact @swap_spec. Qed.
Print Assumptions C06_swap_spec.

Theorem C06_mint_tokens_spec : forall (mem_ks : list ksrow) (active id : Z) (outs : list bmsg) (sig : Z) (w : world),
       WInv w ->
       exists (w' : world) (r : result (list srow)),
         run (mint_tokens mem_ks active id outs sig) no_fault w = (w', Done r) /\
         match r with
         | Ok sigs =>
             exists q : mquote,
               find_mq id (d_mq (w_db w)) = Some q /\
               ((mq_state q = 1 \/ mq_state q = 0 /\ settled w (mq_hash q) = true) /\
                (exists oa : Z, amount_checked (map b_amount outs) 0 = Some oa /\ oa <= mq_amount q) /\
                NoDup (map b_B outs) /\
                (forall o : bmsg, In o outs -> ~ In (b_B o) (map s_B (d_sigs (w_db w)))) /\
                (mq_pubkey q <> 0 -> sig = 1) /\
                check_outputs mem_ks active outs = None /\
                sigs = sig_rows outs /\
                d_sigs (w_db w') = d_sigs (w_db w) ++ sig_rows outs /\
                d_mq (w_db w') = upd_mq id 3 (d_mq (w_db w)) /\
                d_spent (w_db w') = d_spent (w_db w) /\
                d_pending (w_db w') = d_pending (w_db w) /\ d_lq (w_db w') = d_lq (w_db w) /\ w_ln w' = w_ln w \/
                ~ 0 <= mq_state q <= 3 /\ sigs = [] /\ same_but_calls w w')
         | Err _ =>
             same_but_calls w w' \/
             (exists q : mquote,
                find_mq id (d_mq (w_db w)) = Some q /\
                (mq_state q = 1 \/ mq_state q = 0 /\ settled w (mq_hash q) = true) /\
                only_mq w w' (upd_mq id 1 (d_mq (w_db w))))
         end.
Proof. exact @mint_tokens_spec. Qed.
Print Assumptions C06_mint_tokens_spec.

Theorem C06_melt_tokens_spec : forall (cfg : config) (mem_ks : list ksrow) (id : Z) (ins : list proof) (w : world),
       WInv w ->
       exists (w' : world) (r : result lquote),
         run (melt_tokens cfg mem_ks id ins) no_fault w = (w', Done r) /\
         keeps_mem w w' /\
         match r with
         | Ok q' =>
             exists q : lquote,
               find_lq id (d_lq (w_db w)) = Some q /\
               melt_validated mem_ks q ins w /\
               match find (fun m : mquote => mq_hash m =? lq_hash q) (d_mq (w_db w)) with
               | Some mq0 =>
                   exists pre : Z,
                     q' = with_state q 2 pre /\
                     melt_effect id ins w w' 2 pre /\
                     d_mq (w_db w') = upd_mq (mq_id mq0) 1 (d_mq (w_db w)) /\ w_ln w' = w_ln w
               | None =>
                   q' =
                   with_state q (fst (melt_decision (next_pay w (lq_hash q)) (next_look w (lq_hash q))))
                     (snd (melt_decision (next_pay w (lq_hash q)) (next_look w (lq_hash q)))) /\
                   melt_effect id ins w w' (fst (melt_decision (next_pay w (lq_hash q)) (next_look w (lq_hash q))))
                     (snd (melt_decision (next_pay w (lq_hash q)) (next_look w (lq_hash q)))) /\
                   d_mq (w_db w') = d_mq (w_db w) /\ l_calls (w_ln w') = l_calls (w_ln w) ++ [the_pay_call cfg q]
               end
         | Err e =>
             w_db w' = w_db w /\ w_ln w' = w_ln w \/
             e = ELn /\
             (exists q : lquote,
                find_lq id (d_lq (w_db w)) = Some q /\
                melt_validated mem_ks q ins w /\
                melt_effect id ins w w' 1 0 /\ d_mq (w_db w') = d_mq (w_db w) /\ w_ln w' = w_ln w)
         end.
Proof. exact @melt_tokens_spec. Qed.
Print Assumptions C06_melt_tokens_spec.

