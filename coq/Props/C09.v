(* C09 - Keyset lifecycle: deterministic keys, one active keyset, old ecash stays valid
   Statements only; every proof is `exact <lemma>` into coq/Mint/*.v.

   Reading guide (definitions in coq/Mint/*.v):
     world            = store (tables spent/pending/signatures/mint quotes/melt quotes/keysets) + Lightning environment
                        (invoices, scripted answers, log of pay calls) + the process memory (keysets, active keyset)
     op               = one request (OSwap, OMint, OMelt, OMeltQuote, OMintQuote, OMintState, OMeltState, OCheck, ORestore,
                        ORotate, ORestart, OWatcher, OBalance, OInfo) or environment step (ESettle, EScriptPay/Look, ...)
     op_prog          = the request as a program over storage/Lightning calls, following mint/mint.go call by call
     run p f w        = run program p from world w; f: which call positions get an injected storage error (no_fault: none)
     run_n n p f w    = the same, but the process dies after n calls
     step cfg f w o   = one request run to completion; run_history / reach: a sequential fault-free history from the empty store
     hrun cfg w h     = a history of items: HNormal o | HFault o f | HCrash o n | HConc ops schedule (interleaving at call granularity)
     WInv w           = every table has unique keys (Y, B_, quote ids, keyset ids)
     Good w           = WInv w and no Y is both spent and pending
     wext w w'        = spent and signature tables of w' extend those of w (nothing removed or altered)
     same_but_calls   = nothing changed but the call counter
     settled w h      = the backend reports the own invoice with payment hash h as settled
     ordered b a s p  = on every path of program p (for every response, so for every fault and cut) an event `a` is preceded by an event `b`

   KOk w: memory = stored rows, one active keyset = w_active, all other ids smaller.  The bit-level derivation is C11 (c09-keygen stream).
*)
From Coq Require Import ZArith List Bool.
From Verif Require Import Model Sem InvDb InvSwap InvMint InvMelt Corollaries Queries Footprint HRel Global GlobalQuote GlobalValue GlobalErr GlobalQuery GlobalMelt GlobalKeys Cuts CutOrder Conc Races GlobalBalance GlobalLedger Reconf GlobalPoll Trace Admin AdminProofs.
Import ListNotations.
Open Scope Z_scope.

Theorem C09_one_active_keyset : forall (cfg : config) (h : list op), let w := reach cfg h in d_ks (w_db w) <> [] -> KOk w.
Proof. exact @one_active_keyset. Qed.
Print Assumptions C09_one_active_keyset.

Theorem C09_keysets_never_lost : forall (cfg : config) (h : list hitem) (w : world), ks_ext (d_ks (w_db w)) (d_ks (w_db (hrun cfg w h))).
Proof. exact @keysets_never_lost. Qed.
Print Assumptions C09_keysets_never_lost.

Theorem C09_reconf_keeps_keysets : forall (segs : list (config * list hitem)) (w : world),
       ks_ext (d_ks (w_db w)) (d_ks (w_db (hrun_cfgs w segs))).
Proof. exact @reconf_keeps_keysets. Qed.
Print Assumptions C09_reconf_keeps_keysets.

Theorem C09_arun_as_history : forall (cfg : config) (h : list aitem) (a b : world),
       same_state a b -> same_state (arun cfg a h) (fst (run_history cfg b (map as_op h))).
Proof. exact @arun_as_history. Qed.
Print Assumptions C09_arun_as_history.

Theorem C09_admin_rotate_is_rotate : forall (cfg : config) (w : world) (r : areq) (fee : Z),
       is_rotation r = Some fee ->
       fst (admin_step w r) = fst (step cfg no_fault w (ORotate fee)) /\ 0 <= fee <= int_max.
Proof. exact @admin_rotate_is_rotate. Qed.
Print Assumptions C09_admin_rotate_is_rotate.

Theorem C09_admin_rotate_bad_fee : forall (w : world) (t : fee_text),
       is_rotation (ARotate (Some t)) = None -> snd (admin_step w (ARotate (Some t))) = AErr (-32000) 3.
Proof. exact @admin_rotate_bad_fee. Qed.
Print Assumptions C09_admin_rotate_bad_fee.

Theorem C09_admin_readonly : forall (w : world) (r : areq),
       is_rotation r = None ->
       let w' := fst (admin_step w r) in
       w_db w' = w_db w /\ w_ln w' = w_ln w /\ w_mem w' = w_mem w /\ w_active w' = w_active w.
Proof. exact @admin_readonly. Qed.
Print Assumptions C09_admin_readonly.

Theorem C09_cut_keeps_keysets : forall (cfg : config) (mem_ks : list ksrow) (active : Z) (o : op) (n : nat) (f : oracle) (w : world),
       match o with
       | ORotate _ | ORestart _ _ => False
       | _ => True
       end -> same_ks w (fst (run_n n (op_prog cfg mem_ks active o) f w)).
Proof. exact @cut_keeps_keysets. Qed.
Print Assumptions C09_cut_keeps_keysets.

Theorem C09_rotate_spec : forall (mem_ks : list ksrow) (active fee : Z) (w : world) (a : ksrow),
       fee < two63 ->
       find_ks active mem_ks = Some a ->
       k_id a = active ->
       mem active (map k_id (d_ks (w_db w))) = true ->
       mem (active + 1) (map k_id (d_ks (w_db w))) = false ->
       exists w' : world,
         run (rotate_keyset mem_ks active fee) no_fault w = (w', Done (Ok tt)) /\
         w_active w' = active + 1 /\
         w_mem w' =
         filter (fun k : ksrow => negb (k_id k =? active + 1))
           (map
              (fun k : ksrow =>
               if k_id k =? active then {| k_id := active; k_fee := k_fee a; k_active := false |} else k) mem_ks) ++
         [{| k_id := active + 1; k_fee := fee; k_active := true |}] /\
         d_ks (w_db w') =
         map
           (fun k : ksrow =>
            if k_id k =? active then {| k_id := k_id k; k_fee := k_fee k; k_active := false |} else k)
           (d_ks (w_db w)) ++ [{| k_id := active + 1; k_fee := fee; k_active := true |}] /\
         d_spent (w_db w') = d_spent (w_db w) /\
         d_pending (w_db w') = d_pending (w_db w) /\ d_sigs (w_db w') = d_sigs (w_db w).
Proof. exact @rotate_spec. Qed.
Print Assumptions C09_rotate_spec.

Theorem C09_rotate_fee_must_fit : forall (mem_ks : list ksrow) (active fee : Z) (w : world),
       two63 <= fee ->
       exists w' : world,
         run (rotate_keyset mem_ks active fee) no_fault w = (w', Done (Err EDb)) /\ same_but_calls w w'.
Proof. exact @rotate_fee_must_fit. Qed.
Print Assumptions C09_rotate_fee_must_fit.

Theorem C09_load_spec : forall (fee : Z) (w : world) (rows : list ksrow),
       d_ks (w_db w) = rows ->
       rows <> [] ->
       0 <= last_active rows ->
       exists w' : world,
         run (load_mint fee false) no_fault (prepare (ORestart fee false) w) = (w', Done (Ok tt)) /\
         w_mem w' = rows /\ w_active w' = last_active rows /\ w_db w' = w_db w.
Proof. exact @load_spec. Qed.
Print Assumptions C09_load_spec.

Theorem C09_swap_signs_active_only : forall (mem_ks : list ksrow) (active : Z) (ins : list proof) (outs : list bmsg) 
         (sg : bool) (w w' : world) (sigs : list srow),
       WInv w ->
       run (swap mem_ks active ins outs sg) no_fault w = (w', Done (Ok sigs)) ->
       forall s : srow, In s sigs -> s_ks s = active.
Proof. exact @swap_signs_active_only. Qed.
Print Assumptions C09_swap_signs_active_only.

Theorem C09_check_outputs_active : forall (mem_ks : list ksrow) (active : Z) (outs : list bmsg),
       check_outputs mem_ks active outs = None ->
       forall o : bmsg,
       In o outs ->
       b_ks o = active /\ find_ks (b_ks o) mem_ks <> None /\ is_key_amount (b_amount o) = true /\ b_point o = true.
Proof. exact @check_outputs_active. Qed.
Print Assumptions C09_check_outputs_active.

Theorem C09_tx_fees_per_keyset : forall (mem_ks : list ksrow) (ins : list proof),
       (forall p : proof, In p ins -> 0 <= fee_of mem_ks p) ->
       tx_fees mem_ks ins = (Z.min (true_ppk mem_ks ins) (two64 - 1) + 999) / 1000.
Proof. exact @tx_fees_per_keyset. Qed.
Print Assumptions C09_tx_fees_per_keyset.

Theorem C09_tx_fees_wrapping_refuted : let ks := [{| k_id := 0; k_fee := 9223372036854775807; k_active := true |}] in
       let p :=
         {|
           p_secret := 1;
           p_amount := 64;
           p_ks := 0;
           p_C := CSig 0 64 1;
           p_wit := 0;
           p_long := false;
           p_cond := true;
           p_sigall := false
         |} in
       tx_fees_wrapping ks [p; p] = 0 /\ tx_fees ks [p; p] = 18446744073709552.
Proof. exact @tx_fees_wrapping_refuted. Qed.
Print Assumptions C09_tx_fees_wrapping_refuted.

