(* C09 — Keyset lifecycle
   Statements only; every proof is `exact <lemma>` into Mint/*.v (model: Mint/Model.v, semantics: Mint/Sem.v). *)
From Coq Require Import ZArith List Bool.
From Verif Require Import Model Sem InvDb InvSwap InvMint InvMelt Corollaries Queries.
Import ListNotations.
Open Scope Z_scope.

Theorem C09_rotate_spec : forall (mem_ks : list ksrow) (active fee : Z) (w : world) (a : ksrow),
       find_ks active mem_ks = Some a ->
       k_id a = active ->
       mem active (map k_id (d_ks (w_db w))) = true ->
       mem (active + 1) (map k_id (d_ks (w_db w))) = false ->
       exists w' : world,
         run (rotate_keyset mem_ks active fee) no_fault w = (w', Done (Ok tt)) /\
         w_active w' = active + 1 /\
         w_mem w' =
         filter (fun k : ksrow => negb (k_id k =? active + 1))
           (map
              (fun k : ksrow =>
               if k_id k =? active then {| k_id := active; k_fee := k_fee a; k_active := false |} else k) mem_ks) ++
         [{| k_id := active + 1; k_fee := fee; k_active := true |}] /\
         d_ks (w_db w') =
         map
           (fun k : ksrow =>
            if k_id k =? active then {| k_id := k_id k; k_fee := k_fee k; k_active := false |} else k)
           (d_ks (w_db w)) ++ [{| k_id := active + 1; k_fee := fee; k_active := true |}] /\
         d_spent (w_db w') = d_spent (w_db w) /\
         d_pending (w_db w') = d_pending (w_db w) /\ d_sigs (w_db w') = d_sigs (w_db w).
Proof. exact @rotate_spec. Qed.
Print Assumptions C09_rotate_spec.

Theorem C09_load_spec : forall (fee : Z) (w : world) (rows : list ksrow),
       d_ks (w_db w) = rows ->
       rows <> [] ->
       0 <= last_active rows ->
       exists w' : world,
         run (load_mint fee false) no_fault (prepare (ORestart fee false) w) = (w', Done (Ok tt)) /\
         w_mem w' = rows /\ w_active w' = last_active rows /\ w_db w' = w_db w.
Proof. exact @load_spec. Qed.
Print Assumptions C09_load_spec.

Theorem C09_swap_signs_active_only : forall (mem_ks : list ksrow) (active : Z) (ins : list proof) (outs : list bmsg) (sg : bool) 
         (w w' : world) (sigs : list srow),
       WInv w ->
       run (swap mem_ks active ins outs sg) no_fault w = (w', Done (Ok sigs)) ->
       forall s : srow, In s sigs -> s_ks s = active.
Proof. exact @swap_signs_active_only. Qed.
Print Assumptions C09_swap_signs_active_only.

Theorem C09_tx_fees_per_keyset : forall (mem_ks : list ksrow) (ins : list proof),
       tx_fees mem_ks ins =
       (fold_left
          (fun (acc : Z) (p : proof) =>
           add64 acc match find_ks (p_ks p) mem_ks with
                     | Some k => k_fee k
                     | None => 0
                     end) ins 0 + 999) / 1000.
Proof. exact @tx_fees_per_keyset. Qed.
Print Assumptions C09_tx_fees_per_keyset.

Theorem C09_check_outputs_active : forall (mem_ks : list ksrow) (active : Z) (outs : list bmsg),
       check_outputs mem_ks active outs = None ->
       forall o : bmsg,
       In o outs ->
       b_ks o = active /\ find_ks (b_ks o) mem_ks <> None /\ is_key_amount (b_amount o) = true /\ b_point o = true.
Proof. exact @check_outputs_active. Qed.
Print Assumptions C09_check_outputs_active.

