(* C01 - No double spend: an ecash proof is redeemed at most once, ever
   Statements only; every proof is `exact <lemma>` into coq/Mint/*.v.

   Reading guide (definitions in coq/Mint/*.v):
     world            = store (tables spent/pending/signatures/mint quotes/melt quotes/keysets) + Lightning environment
                        (invoices, scripted answers, log of pay calls) + the process memory (keysets, active keyset)
     op               = one request (OSwap, OMint, OMelt, OMeltQuote, OMintQuote, OMintState, OMeltState, OCheck, ORestore,
                        ORotate, ORestart, OWatcher, OBalance, OInfo) or environment step (ESettle, EScriptPay/Look, ...)
     op_prog          = the request as a program over storage/Lightning calls, following mint/mint.go call by call
     run p f w        = run program p from world w; f: which call positions get an injected storage error (no_fault: none)
     run_n n p f w    = the same, but the process dies after n calls
     step cfg f w o   = one request run to completion; run_history / reach: a sequential fault-free history from the empty store
     hrun cfg w h     = a history of items: HNormal o | HFault o f | HCrash o n | HConc ops schedule (interleaving at call granularity)
     WInv w           = every table has unique keys (Y, B_, quote ids, keyset ids)
     Good w           = WInv w and no Y is both spent and pending
     wext w w'        = spent and signature tables of w' extend those of w (nothing removed or altered)
     same_but_calls   = nothing changed but the call counter
     settled w h      = the backend reports the own invoice with payment hash h as settled
     ordered b a s p  = on every path of program p (for every response, so for every fault and cut) an event `a` is preceded by an event `b`

   at_most_once: over every sequential history, the secrets consumed by successful swaps and PAID melts are pairwise distinct.
   hrun_inv / hrun_ext / spent_stays_refused hold for EVERY history item kind (faults, crashes, schedules).
   concurrent_at_most_once: for ANY concurrent batch and ANY schedule at call granularity, two requests that consume the same secret
   are never both successful as far as the tables can tell (both insert a row with that Y; the unique key refuses the second).
   Concurrent swap||melt on one proof is NOT safe in the code: swap_melt_race is the computed schedule (the melt's Lightning payment
   goes out before its insert is refused); known finding, reproduced on the real mint by the c01-sched stream.
*)
From Coq Require Import ZArith List Bool.
From Verif Require Import Model Sem InvDb InvSwap InvMint InvMelt Corollaries Queries Footprint HRel Global GlobalQuote GlobalValue GlobalErr GlobalQuery GlobalMelt GlobalKeys Cuts CutOrder Conc Races GlobalBalance GlobalLedger Reconf GlobalPoll Trace Admin AdminProofs CutValue CutMint CutFrames ConcValue CutHistory CutBalance.
Import ListNotations.
Open Scope Z_scope.

Theorem C01_hrun_inv : forall (cfg : config) (h : list hitem) (w : world), WInv w -> WInv (hrun cfg w h).
Proof. exact @hrun_inv. Qed.
Print Assumptions C01_hrun_inv.

Theorem C01_hrun_ext : forall (cfg : config) (h : list hitem) (w : world), wext w (hrun cfg w h).
Proof. exact @hrun_ext. Qed.
Print Assumptions C01_hrun_ext.

Theorem C01_spent_once : forall (cfg : config) (ps : list prow) (d d' : db) (h : list hitem) (w : world) (y : Z) (ps' : list prow),
       exec_db (SaveProofs ps) d = (d', ROk tt) ->
       w_db w = d' ->
       In y (ys_of ps) -> In y (ys_of ps') -> snd (exec_db (SaveProofs ps') (w_db (hrun cfg w h))) = RErr.
Proof. exact @spent_once. Qed.
Print Assumptions C01_spent_once.

Theorem C01_spent_forever : forall (cfg : config) (h : list hitem) (w : world) (y : Z),
       In y (ys_of (d_spent (w_db w))) -> In y (ys_of (d_spent (w_db (hrun cfg w h)))).
Proof. exact @spent_forever. Qed.
Print Assumptions C01_spent_forever.

Theorem C01_state_of_spent_forever : forall (cfg : config) (w : world) (h : list hitem) (y : Z),
       WInv w -> In y (ys_of (d_spent (w_db w))) -> exists wit : Z, state_of (w_db (hrun cfg w h)) y = (y, 2, wit).
Proof. exact @state_of_spent_forever. Qed.
Print Assumptions C01_state_of_spent_forever.

Theorem C01_spent_stays_refused : forall (cfg : config) (h : list hitem) (w : world) (ins : list proof) (outs : list bmsg) (sg : bool),
       WInv w ->
       (exists p : proof, In p ins /\ In (p_secret p) (ys_of (d_spent (w_db w)))) ->
       let w' := hrun cfg w h in
       (exists (w'' : world) (e : err),
          run (swap (w_mem w') (w_active w') ins outs sg) no_fault w' = (w'', Done (Err e)) /\
          same_but_calls w' w'') /\
       (forall id : Z,
        exists (w'' : world) (e : err),
          run (melt_tokens cfg (w_mem w') id ins) no_fault w' = (w'', Done (Err e)) /\
          w_db w'' = w_db w' /\ w_ln w'' = w_ln w').
Proof. exact @spent_stays_refused. Qed.
Print Assumptions C01_spent_stays_refused.

Theorem C01_reach_good : forall (cfg : config) (h : list op), Good (reach cfg h).
Proof. exact @reach_good. Qed.
Print Assumptions C01_reach_good.

Theorem C01_at_most_once : forall (cfg : config) (h : list op), NoDup (consumed_all h (snd (run_history cfg world0 h))).
Proof. exact @at_most_once. Qed.
Print Assumptions C01_at_most_once.

Theorem C01_concurrent_at_most_once : forall (cfg : config) (w : world) (ops : list op) (sched : list nat) (s : Z) (i j : nat) (oi oj : op),
       WInv w ->
       i <> j ->
       nth_error ops i = Some oi ->
       nth_error ops j = Some oj ->
       consumes s oi ->
       consumes s oj ->
       let rs := snd (run_concurrent cfg w ops sched) in
       forall ri rj : opres,
       nth_error rs i = Some ri ->
       nth_error rs j = Some rj -> success_of oi ri = true -> success_of oj rj = true -> False.
Proof. exact @concurrent_at_most_once. Qed.
Print Assumptions C01_concurrent_at_most_once.

Theorem C01_concurrent_swaps_never_inflate : forall (cfg : config) (w : world) (ops : list op) (sched : list nat),
       Forall calm ops ->
       let w0 := reset_calls w in
       let ts := map (op_prog cfg (w_mem w0) (w_active w0)) ops in
       (forall k : nat,
        vS (fst (interleave (firstn k sched) ts w0)) - vR (fst (interleave (firstn k sched) ts w0)) <= vS w - vR w) /\
       vS (fst (run_concurrent cfg w ops sched)) - vR (fst (run_concurrent cfg w ops sched)) <= vS w - vR w.
Proof. exact @concurrent_swaps_never_inflate. Qed.
Print Assumptions C01_concurrent_swaps_never_inflate.

Theorem C01_concurrent_swaps_keep_good : forall (cfg : config) (w : world) (ops : list op) (sched : list nat),
       Forall swapish ops -> Good w -> Good (fst (run_concurrent cfg w ops sched)).
Proof. exact @concurrent_swaps_keep_good. Qed.
Print Assumptions C01_concurrent_swaps_keep_good.

Theorem C01_concurrent_swaps_example : let cfg := {| c_max_mint := 0; c_max_melt := 0; c_max_balance := 0; c_mpp := false; c_feepct := 1 |} in
       let w0 := hrun cfg world0 cv_prefix in
       Forall calm cv_ops /\
       (let
        '(w, rs) := run_concurrent cfg w0 cv_ops cv_sched in
         (vS w0, vR w0) = (64, 0) /\
         (vS w, vR w) = (128, 64) /\
         length (filter (fun r : opres => match r with
                                          | RSigs _ => true
                                          | _ => false
                                          end) rs) = 1%nat).
Proof. exact @concurrent_swaps_example. Qed.
Print Assumptions C01_concurrent_swaps_example.

Theorem C01_locked_or_spent_refused : forall (cfg : config) (h : list op) (ins : list proof) (outs : list bmsg) (sg : bool),
       let w := reach cfg h in
       (exists p : proof,
          In p ins /\ (In (p_secret p) (ys_of (d_spent (w_db w))) \/ In (p_secret p) (ys_of (d_pending (w_db w))))) ->
       (exists (w' : world) (e : err),
          run (swap (w_mem w) (w_active w) ins outs sg) no_fault w = (w', Done (Err e)) /\ same_but_calls w w') /\
       (forall id : Z,
        exists (w' : world) (e : err),
          run (melt_tokens cfg (w_mem w) id ins) no_fault w = (w', Done (Err e)) /\
          w_db w' = w_db w /\ w_ln w' = w_ln w).
Proof. exact @locked_or_spent_refused. Qed.
Print Assumptions C01_locked_or_spent_refused.

Theorem C01_swap_melt_race : let w0 := hrun cfg1 world0 race_prefix in
       let
       '(w, rs) := run_concurrent cfg1 w0 race_ops race_sched in
        (exists sigs : list srow, nth_error rs 0 = Some (RSigs sigs) /\ sigs <> []) /\
        length (l_calls (w_ln w)) = 1%nat /\ issuedZ w = 128 /\ redeemedZ w = 64.
Proof. exact @swap_melt_race. Qed.
Print Assumptions C01_swap_melt_race.

Theorem C01_swap_rejects_represented : forall (mem_ks : list ksrow) (active : Z) (ins : list proof) (outs : list bmsg) (sg : bool) (w : world),
       WInv w ->
       (exists p : proof,
          In p ins /\ (In (p_secret p) (ys_of (d_spent (w_db w))) \/ In (p_secret p) (ys_of (d_pending (w_db w))))) ->
       exists (w' : world) (e : err),
         run (swap mem_ks active ins outs sg) no_fault w = (w', Done (Err e)) /\ same_but_calls w w'.
Proof. exact @swap_rejects_represented. Qed.
Print Assumptions C01_swap_rejects_represented.

Theorem C01_swap_rejects_duplicate : forall (mem_ks : list ksrow) (active : Z) (ins : list proof) (outs : list bmsg) (sg : bool) (w : world),
       WInv w ->
       ~ NoDup (map p_secret ins) ->
       exists (w' : world) (e : err),
         run (swap mem_ks active ins outs sg) no_fault w = (w', Done (Err e)) /\ same_but_calls w w'.
Proof. exact @swap_rejects_duplicate. Qed.
Print Assumptions C01_swap_rejects_duplicate.

Theorem C01_melt_rejects_represented : forall (cfg : config) (mem_ks : list ksrow) (id : Z) (ins : list proof) (w : world),
       WInv w ->
       (exists p : proof,
          In p ins /\ (In (p_secret p) (ys_of (d_spent (w_db w))) \/ In (p_secret p) (ys_of (d_pending (w_db w))))) ->
       exists (w' : world) (e : err),
         run (melt_tokens cfg mem_ks id ins) no_fault w = (w', Done (Err e)) /\
         w_db w' = w_db w /\ w_ln w' = w_ln w.
Proof. exact @melt_rejects_represented. Qed.
Print Assumptions C01_melt_rejects_represented.

