(* C17 — Wallet balance truthful, no value lost.
   Statements only; proofs in Wallet/WProofsBalance.v.

   Model: Wallet/WModel.v (wallet store buckets, views, every value-moving flow against the
   honest-mint oracle, Lightning outcomes success / failure / pending).  What is proved here is
   per wallet state and per request (the composed wallet x mint induction over histories is not
   done: the statements are the per-flow lemmas, labelled _partial where they stand for a clause of
   the property that quantifies over histories), plus the refutation for MintSwap.  The conservation
   equation over whole histories is checked on the real code by the monitor of stream c17-hist and
   by the correspondence (balances and mint totals after every operation). *)
From Coq Require Import ZArith List Bool.
From Verif Require Import Select WModel WProofsBalance.
Import ListNotations.
Open Scope Z_scope.

(* GetBalance is the value of the stored spendable proofs; a mint's share in GetBalanceByMints is the
   value of the stored proofs of the keysets of that mint, and the rest of the balance is the value of
   the other stored proofs. *)
Theorem C17_W_balance_exact : forall x m v, find_view x m = Some v ->
  get_balance x = sum_amt (w_proofs x) /\
  balance_by_mint x m = sum_amt (filter (of_view v) (w_proofs x)) /\
  get_balance x = balance_by_mint x m + sum_amt (filter (fun p => negb (of_view v p)) (w_proofs x)).
Proof. exact balance_exact_all. Qed.
Print Assumptions C17_W_balance_exact.

(* W_no_dup at the mint, per request: only unspent, not pending, signed and pairwise different proofs
   are accepted as inputs of a swap - no proof is counted twice. *)
Theorem C17_W_no_dup_partial : forall mt ins outs mt',
  mint_swap mt ins outs = Some mt' ->
  forall p, In p ins -> mem_proof p (mn_spent mt) = false /\ mem_proof p (mn_pend mt) = false /\ mem_proof p (mn_signed mt) = true.
Proof. exact mint_swap_inputs_unspent. Qed.
Print Assumptions C17_W_no_dup_partial.

(* conservation per operation at the mint: a swap takes exactly (inputs - outputs) >= fee out of
   circulation, a mint adds at most the paid quote amount once, a paid melt takes its inputs out,
   a failed melt changes nothing. *)
Theorem C17_conservation_swap_partial : forall mt ins outs mt',
  mint_swap mt ins outs = Some mt' ->
  outstanding mt' = outstanding mt - (sum_amt ins - sum_amt outs) /\
  tx_fees mt ins <= sum_amt ins - sum_amt outs /\
  mn_signed mt' = mn_signed mt ++ outs /\ mn_spent mt' = mn_spent mt ++ ins /\ mn_pend mt' = mn_pend mt.
Proof. exact mint_swap_conserves. Qed.
Print Assumptions C17_conservation_swap_partial.

Theorem C17_conservation_mint_partial : forall mt q outs mt',
  mint_mint mt q outs = Some mt' ->
  exists mq, find_mq mt q = Some mq /\ mq_paid mq = true /\ mq_issued mq = false /\
             sum_amt outs <= mq_amt mq /\ outstanding mt' = outstanding mt + sum_amt outs.
Proof. exact mint_mint_conserves. Qed.
Print Assumptions C17_conservation_mint_partial.

Theorem C17_conservation_melt_partial : forall mt ins,
  outstanding (spend_inputs mt ins) = outstanding mt - sum_amt ins /\
  outstanding (release_inputs mt ins) = outstanding mt.
Proof. exact melt_outstanding. Qed.
Print Assumptions C17_conservation_melt_partial.

(* MintSwap while the source mint's payment fails: afterwards 1000 sat are unspent at the mint, the
   wallet reports 500 spendable and 0 pending, and no token holds the rest - 500 sat are in no wallet. *)
Theorem C17_mintswap_refuted :
  let w := exec_all repaired mintswap_fails (init_world [(0, 1); (0, 1)] [0]) in
  conserved w = false /\ outstanding (nthZ 0 (mints w) mint0) = 1000 /\ holdings w 0 = 500
  /\ get_balance (nthZ 0 (wallets w) wallet0) = 500 /\ pending_balance (nthZ 0 (wallets w) wallet0) = 0.
Proof. exact mintswap_loses_value. Qed.
Print Assumptions C17_mintswap_refuted.

(* Non-vacuity: the conservation equation holds at the end of a history over all flows (mint, send with
   and without fees, receive, P2PK, HTLC, melt paid / failed / pending then resolved, reclaim,
   remove-spent, rotation, mint-swap with a successful payment). *)
Example C17_nonvacuous_conserved :
  conserved (exec_all repaired c17_history (init_world [(100, 1); (0, 1)] [0; 0])) = true.
Proof. vm_compute. reflexivity. Qed.
Example C17_nonvacuous_mintswap_ok :
  conserved (exec_all repaired [(0, OMint 0 0 1000 true); (0, OAddMint 0 1); (0, OMintSwap 0 0 1 500 0)]
                      (init_world [(0, 1); (0, 1)] [0])) = true.
Proof. vm_compute. reflexivity. Qed.
