(* C15 — State check and restore tell the truth
   Statements only; every proof is `exact <lemma>` into Mint/*.v (model: Mint/Model.v, semantics: Mint/Sem.v). *)
From Coq Require Import ZArith List Bool.
From Verif Require Import Model Sem InvDb InvSwap InvMint InvMelt Corollaries Queries.
Import ListNotations.
Open Scope Z_scope.

Theorem C15_restore_exact : forall (bs : list Z) (w : world),
       exists w' : world,
         run (restore_sigs bs []) no_fault w = (w', Done (Ok (restore_spec (w_db w) bs))) /\ same_but_calls w w'.
Proof. exact @restore_exact. Qed.
Print Assumptions C15_restore_exact.

Theorem C15_restore_finds_issued : forall (cfg : config) (w : world) (h : list hitem) (row : srow),
       WInv w -> In row (d_sigs (w_db w)) -> lookup_sig (w_db (hrun cfg w h)) (s_B row) = Some row.
Proof. exact @restore_finds_issued. Qed.
Print Assumptions C15_restore_finds_issued.

Theorem C15_check_state_exact : forall (ys : list Z) (w : world),
       filter (fun r : prow => mem (r_y r) ys) (d_pending (w_db w)) = [] ->
       exists w' : world,
         run (proofs_state_check ys) no_fault w = (w', Done (Ok (map (state_of (w_db w)) ys))) /\ same_but_calls w w'.
Proof. exact @check_state_exact. Qed.
Print Assumptions C15_check_state_exact.

Theorem C15_state_of_spent_forever : forall (cfg : config) (w : world) (h : list hitem) (y : Z),
       WInv w -> In y (ys_of (d_spent (w_db w))) -> exists wit : Z, state_of (w_db (hrun cfg w h)) y = (y, 2, wit).
Proof. exact @state_of_spent_forever. Qed.
Print Assumptions C15_state_of_spent_forever.

Theorem C15_sig_forever : forall (cfg : config) (h : list hitem) (w : world) (s : srow),
       In s (d_sigs (w_db w)) -> In s (d_sigs (w_db (hrun cfg w h))).
Proof. exact @sig_forever. Qed.
Print Assumptions C15_sig_forever.

