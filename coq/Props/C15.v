(* C15 - State check and restore tell the truth about everything the mint ever did
   Statements only; every proof is `exact <lemma>` into coq/Mint/*.v.

   Reading guide (definitions in coq/Mint/*.v):
     world            = store (tables spent/pending/signatures/mint quotes/melt quotes/keysets) + Lightning environment
                        (invoices, scripted answers, log of pay calls) + the process memory (keysets, active keyset)
     op               = one request (OSwap, OMint, OMelt, OMeltQuote, OMintQuote, OMintState, OMeltState, OCheck, ORestore,
                        ORotate, ORestart, OWatcher, OBalance, OInfo) or environment step (ESettle, EScriptPay/Look, ...)
     op_prog          = the request as a program over storage/Lightning calls, following mint/mint.go call by call
     run p f w        = run program p from world w; f: which call positions get an injected storage error (no_fault: none)
     run_n n p f w    = the same, but the process dies after n calls
     step cfg f w o   = one request run to completion; run_history / reach: a sequential fault-free history from the empty store
     hrun cfg w h     = a history of items: HNormal o | HFault o f | HCrash o n | HConc ops schedule (interleaving at call granularity)
     WInv w           = every table has unique keys (Y, B_, quote ids, keyset ids)
     Good w           = WInv w and no Y is both spent and pending
     wext w w'        = spent and signature tables of w' extend those of w (nothing removed or altered)
     same_but_calls   = nothing changed but the call counter
     settled w h      = the backend reports the own invoice with payment hash h as settled
     ordered b a s p  = on every path of program p (for every response, so for every fault and cut) an event `a` is preceded by an event `b`

   state_of d y = (y, 2, witness) if y is in spent, else (y, 1, witness) if pending, else (y, 0, 0).
*)
From Coq Require Import ZArith List Bool.
From Verif Require Import Model Sem InvDb InvSwap InvMint InvMelt Corollaries Queries Footprint HRel Global GlobalQuote GlobalValue GlobalErr GlobalQuery GlobalMelt GlobalKeys Cuts CutOrder Conc Races GlobalBalance.
Import ListNotations.
Open Scope Z_scope.

Theorem C15_check_state_general : forall (ys : list Z) (w : world) (iss : list Z),
       Good w ->
       VInv w iss ->
       exists w1 w' : world,
         run (resolve_polls ys w) no_fault
           {| w_db := w_db w; w_ln := w_ln w; w_mem := w_mem w; w_active := w_active w; w_calls := w_calls w + 1 |} =
         (w1, Done (Ok tt)) /\
         run (proofs_state_check ys) no_fault w = (w', Done (Ok (map (state_of (w_db w1)) ys))) /\
         w_db w' = w_db w1.
Proof. exact @check_state_general. Qed.
Print Assumptions C15_check_state_general.

Theorem C15_check_state_exact : forall (ys : list Z) (w : world),
       filter (fun r : prow => mem (r_y r) ys) (d_pending (w_db w)) = [] ->
       exists w' : world,
         run (proofs_state_check ys) no_fault w = (w', Done (Ok (map (state_of (w_db w)) ys))) /\
         same_but_calls w w'.
Proof. exact @check_state_exact. Qed.
Print Assumptions C15_check_state_exact.

Theorem C15_signatures_are_exactly_what_was_returned : forall (cfg : config) (h : list op) (w : world),
       Good w ->
       d_sigs (w_db (fst (run_history cfg w h))) = d_sigs (w_db w) ++ returned_all h (snd (run_history cfg w h)).
Proof. exact @signatures_are_exactly_what_was_returned. Qed.
Print Assumptions C15_signatures_are_exactly_what_was_returned.

Theorem C15_restore_is_exact : forall (cfg : config) (h : list op) (bs : list Z),
       let w := reach cfg h in
       d_sigs (w_db w) = returned_all h (snd (run_history cfg world0 h)) /\
       (exists w' : world, run (restore_sigs bs []) no_fault w = (w', Done (Ok (restore_spec (w_db w) bs)))).
Proof. exact @restore_is_exact. Qed.
Print Assumptions C15_restore_is_exact.

Theorem C15_restore_exact : forall (bs : list Z) (w : world),
       exists w' : world,
         run (restore_sigs bs []) no_fault w = (w', Done (Ok (restore_spec (w_db w) bs))) /\ same_but_calls w w'.
Proof. exact @restore_exact. Qed.
Print Assumptions C15_restore_exact.

Theorem C15_restore_finds_issued : forall (cfg : config) (w : world) (h : list hitem) (row : srow),
       WInv w -> In row (d_sigs (w_db w)) -> lookup_sig (w_db (hrun cfg w h)) (s_B row) = Some row.
Proof. exact @restore_finds_issued. Qed.
Print Assumptions C15_restore_finds_issued.

Theorem C15_state_of_spent_forever : forall (cfg : config) (w : world) (h : list hitem) (y : Z),
       WInv w -> In y (ys_of (d_spent (w_db w))) -> exists wit : Z, state_of (w_db (hrun cfg w h)) y = (y, 2, wit).
Proof. exact @state_of_spent_forever. Qed.
Print Assumptions C15_state_of_spent_forever.

Theorem C15_sig_forever : forall (cfg : config) (h : list hitem) (w : world) (s : srow),
       In s (d_sigs (w_db w)) -> In s (d_sigs (w_db (hrun cfg w h))).
Proof. exact @sig_forever. Qed.
Print Assumptions C15_sig_forever.

