(* C16 - Reported balances are exact and configured limits are enforced
   Statements only; every proof is `exact <lemma>` into coq/Mint/*.v.

   Reading guide (definitions in coq/Mint/*.v):
     world            = store (tables spent/pending/signatures/mint quotes/melt quotes/keysets) + Lightning environment
                        (invoices, scripted answers, log of pay calls) + the process memory (keysets, active keyset)
     op               = one request (OSwap, OMint, OMelt, OMeltQuote, OMintQuote, OMintState, OMeltState, OCheck, ORestore,
                        ORotate, ORestart, OWatcher, OBalance, OInfo) or environment step (ESettle, EScriptPay/Look, ...)
     op_prog          = the request as a program over storage/Lightning calls, following mint/mint.go call by call
     run p f w        = run program p from world w; f: which call positions get an injected storage error (no_fault: none)
     run_n n p f w    = the same, but the process dies after n calls
     step cfg f w o   = one request run to completion; run_history / reach: a sequential fault-free history from the empty store
     hrun cfg w h     = a history of items: HNormal o | HFault o f | HCrash o n | HConc ops schedule (interleaving at call granularity)
     WInv w           = every table has unique keys (Y, B_, quote ids, keyset ids)
     Good w           = WInv w and no Y is both spent and pending
     wext w w'        = spent and signature tables of w' extend those of w (nothing removed or altered)
     same_but_calls   = nothing changed but the call counter
     settled w h      = the backend reports the own invoice with payment hash h as settled
     ordered b a s p  = on every path of program p (for every response, so for every fault and cut) an event `a` is preceded by an event `b`

   total_balance_exact needs redeemed <= issued (unforgeability: every spent proof was issued) and totals below 2^64.
*)
From Coq Require Import ZArith List Bool.
From Verif Require Import Model Sem InvDb InvSwap InvMint InvMelt Corollaries Queries Footprint HRel Global GlobalQuote GlobalValue GlobalErr GlobalQuery GlobalMelt GlobalKeys Cuts CutOrder Conc Races GlobalBalance GlobalLedger Reconf GlobalPoll Trace Admin AdminProofs CutValue CutMint CutFrames ConcValue CutHistory CutBalance.
Import ListNotations.
Open Scope Z_scope.

Theorem C16_balance_never_negative : forall (cfg : config) (h : list op),
       clients_honest cfg world0 h [] ->
       let w := reach cfg h in
       vR w + vP w <= vS w /\
       (vS w < two63 ->
        exists w' : world, run total_balance no_fault w = (w', Done (Ok (vS w - vR w))) /\ 0 <= vS w - vR w).
Proof. exact @balance_never_negative. Qed.
Print Assumptions C16_balance_never_negative.

Theorem C16_balance_never_negative_with_cuts : forall (cfg : config) (h : list hitem),
       Forall seq_cut_item h ->
       hclients_honest cfg world0 h [] ->
       let w := hrun cfg world0 h in
       vR w + vP w <= vS w /\
       (vS w < two63 ->
        exists w' : world, run total_balance no_fault w = (w', Done (Ok (vS w - vR w))) /\ 0 <= vS w - vR w).
Proof. exact @balance_never_negative_with_cuts. Qed.
Print Assumptions C16_balance_never_negative_with_cuts.

Theorem C16_cut_balance_history_ok : let cfg := {| c_max_mint := 0; c_max_melt := 0; c_max_balance := 0; c_mpp := false; c_feepct := 2 |} in
       Forall seq_cut_item cut_balance_history /\
       hclients_honest cfg world0 cut_balance_history [] /\
       (let w := hrun cfg world0 cut_balance_history in (vS w, vR w, vP w) = (96, 96, 0)).
Proof. exact @cut_balance_history_ok. Qed.
Print Assumptions C16_cut_balance_history_ok.

Theorem C16_step_bi : forall (cfg : config) (w : world) (o : op) (issued : list entry),
       honest_client issued o ->
       BI issued w -> BI (issued_by o (snd (step cfg no_fault w o)) ++ issued) (fst (step cfg no_fault w o)).
Proof. exact @step_bi. Qed.
Print Assumptions C16_step_bi.

Theorem C16_binv_bound : forall (w : world) (issued : list entry), Good w -> BInv w issued -> vR w + vP w <= vS w.
Proof. exact @binv_bound. Qed.
Print Assumptions C16_binv_bound.

Theorem C16_honest_history_ok : clients_honest {| c_max_mint := 0; c_max_melt := 0; c_max_balance := 0; c_mpp := false; c_feepct := 2 |}
         world0 honest_history [] /\
       (let w :=
          reach {| c_max_mint := 0; c_max_melt := 0; c_max_balance := 0; c_mpp := false; c_feepct := 2 |}
            honest_history in
        (vS w, vR w, vP w) = (128, 96, 0)).
Proof. exact @honest_history_ok. Qed.
Print Assumptions C16_honest_history_ok.

Theorem C16_admin_total_is_total_balance : forall w : world,
       match snd (admin_step w ATotal) with
       | AErr code cls =>
           code = -32000 /\ cls = 5 /\ snd (run total_balance no_fault (reset_calls w)) = Done (Err EDb)
       | ATotals iss ti red tr c =>
           ti = sum64 (map snd iss) /\
           tr = sum64 (map snd red) /\
           c = sub64 ti tr /\
           snd (run total_balance no_fault (reset_calls w)) = Done (Ok c) /\
           tsum (map snd iss) = issued_total (w_db w) /\ tsum (map snd red) = redeemed_total (w_db w)
       | _ => False
       end.
Proof. exact @admin_total_is_total_balance. Qed.
Print Assumptions C16_admin_total_is_total_balance.

Theorem C16_admin_issued_view : forall w : world,
       match snd (admin_step w (AIssued None)) with
       | AErr code cls => code = -32000 /\ cls = 5
       | AAll rows t => t = sum64 (map snd rows) /\ tsum (map snd rows) = issued_total (w_db w)
       | _ => False
       end.
Proof. exact @admin_issued_view. Qed.
Print Assumptions C16_admin_issued_view.

Theorem C16_admin_redeemed_view : forall w : world,
       match snd (admin_step w (ARedeemed None)) with
       | AErr code cls => code = -32000 /\ cls = 5
       | AAll rows t => t = sum64 (map snd rows) /\ tsum (map snd rows) = redeemed_total (w_db w)
       | _ => False
       end.
Proof. exact @admin_redeemed_view. Qed.
Print Assumptions C16_admin_redeemed_view.

Theorem C16_issued_view_total : forall d : db,
       tsum (map snd (sum_by_ks (map (fun s : srow => (s_ks s, s_amount s)) (d_sigs d)) [])) = issued_total d.
Proof. exact @issued_view_total. Qed.
Print Assumptions C16_issued_view_total.

Theorem C16_redeemed_view_total : forall d : db,
       tsum (map snd (sum_by_ks (map (fun r : prow => (r_ks r, r_amount r)) (d_spent d)) [])) = redeemed_total d.
Proof. exact @redeemed_view_total. Qed.
Print Assumptions C16_redeemed_view_total.

Theorem C16_total_balance_exact : forall w : world,
       Forall (fun x : Z => 0 <= x) (map s_amount (d_sigs (w_db w))) ->
       Forall (fun x : Z => 0 <= x) (map r_amount (d_spent (w_db w))) ->
       issued_total (w_db w) < two63 ->
       redeemed_total (w_db w) <= issued_total (w_db w) ->
       exists w' : world,
         run total_balance no_fault w = (w', Done (Ok (issued_total (w_db w) - redeemed_total (w_db w)))) /\
         same_but_calls w w'.
Proof. exact @total_balance_exact. Qed.
Print Assumptions C16_total_balance_exact.

Theorem C16_total_balance_overflow_fails : forall w : world,
       (exists x : Z * Z,
          In x (sum_by_ks (map (fun s : srow => (s_ks s, s_amount s)) (d_sigs (w_db w))) []) /\ two63 <= snd x) ->
       exists w' : world, run total_balance no_fault w = (w', Done (Err EDb)) /\ same_but_calls w w'.
Proof. exact @total_balance_overflow_fails. Qed.
Print Assumptions C16_total_balance_overflow_fails.

Theorem C16_signatures_are_exactly_what_was_returned : forall (cfg : config) (h : list op) (w : world),
       Good w ->
       d_sigs (w_db (fst (run_history cfg w h))) = d_sigs (w_db w) ++ returned_all h (snd (run_history cfg w h)).
Proof. exact @signatures_are_exactly_what_was_returned. Qed.
Print Assumptions C16_signatures_are_exactly_what_was_returned.

Theorem C16_mint_limit_enforced : forall (cfg : config) (amount pk newid newhash : Z) (w : world),
       0 < c_max_mint cfg ->
       c_max_mint cfg < amount ->
       0 <= pk -> run (request_mint_quote cfg true amount pk newid newhash) no_fault w = (w, Done (Err EMintLimit)).
Proof. exact @mint_limit_enforced. Qed.
Print Assumptions C16_mint_limit_enforced.

Theorem C16_melt_limit_enforced : forall (cfg : config) (req h msat newid : Z) (w : world),
       0 < c_max_melt cfg ->
       c_max_melt cfg < (msat + 999) / 1000 ->
       0 < msat < two63 ->
       exists w' : world,
         run (request_melt_quote cfg true true req h msat None newid) no_fault w = (w', Done (Err EMeltLimit)) /\
         same_but_calls w w'.
Proof. exact @melt_limit_enforced. Qed.
Print Assumptions C16_melt_limit_enforced.

Theorem C16_melt_amount_must_fit : forall (cfg : config) (mpp : option Z) (req h msat newid : Z) (w : world),
       msat <= 0 \/ two63 <= msat ->
       run (request_melt_quote cfg true true req h msat mpp newid) no_fault w = (w, Done (Err EInvoice)).
Proof. exact @melt_amount_must_fit. Qed.
Print Assumptions C16_melt_amount_must_fit.

Theorem C16_balance_limit_enforced : forall (cfg : config) (amount pk newid newhash : Z) (w : world) (bal : Z) (w1 : world),
       0 < c_max_balance cfg ->
       0 <= pk ->
       ~ 0 < c_max_mint cfg < amount ->
       run total_balance no_fault w = (w1, Done (Ok bal)) ->
       c_max_balance cfg < add64 bal amount ->
       run (request_mint_quote cfg true amount pk newid newhash) no_fault w = (w1, Done (Err EMintDisabled)).
Proof. exact @balance_limit_enforced. Qed.
Print Assumptions C16_balance_limit_enforced.

Theorem C16_huge_quote_refused : forall (q : mquote) (d : db), two63 <= mq_amount q -> exec_db (SaveMintQuote q) d = (d, RErr).
Proof. exact @huge_quote_refused. Qed.
Print Assumptions C16_huge_quote_refused.

Theorem C16_info_disabled_iff : forall (cfg : config) (w : world) (bal : Z) (w1 : world),
       run total_balance no_fault (after_seed w) = (w1, Done (Ok bal)) ->
       exists b : bool,
         run (info_disabled cfg) no_fault w = (w1, Done (Ok b)) /\ (b = true <-> 0 < c_max_balance cfg <= bal).
Proof. exact @info_disabled_iff. Qed.
Print Assumptions C16_info_disabled_iff.

