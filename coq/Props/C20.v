(* C20 — The HTTP/JSON surface is a faithful, spec-shaped transport of the mint's decisions.
   Statements only; every proof is `exact <lemma>` into Http/HttpProofs.v
   (model: Http/Server.v over Mint/Model.v + Mint/Sem.v; tables of the current Go sources: Gen/Extracted.v). *)
From Coq Require Import ZArith List Bool String.
From Verif Require Import Extracted ExtractedChecks Model Sem Server HttpProofs.
Import ListNotations.
Open Scope list_scope.
Open Scope Z_scope.

(* A request that gets as far as the Mint method (route registered for the method, payment method
   bolt11, body decoded, not answered from the NUT-19 cache) is answered 200 with the JSON shape of
   its route carrying the operation's result when the operation succeeds, and 400 with a
   {detail, code} body carrying the NUT error code of the actual cause when it is refused; storage
   and Lightning failures come with one of the two generic texts.  The mint world after the request
   is the world after the operation.  For every world, every request, every injected storage fault,
   and for the cache-key construction of today as well as any other ([key] is arbitrary). *)
Theorem C20_status_shape : forall key cfg hw rq hw' rsp w' r,
  runs_op key hw rq = true ->
  http_step_k key cfg hw rq = (hw', rsp) ->
  step cfg (faults_oracle (rq_faults rq)) (hw_mint hw) (coerce (rq_route rq) (rq_op rq)) = (w', r) ->
  hw_mint hw' = w' /\
  match r with
  | RFail e => rs_status rsp = 400 /\ rs_code rsp = code_of_err e /\ rs_shape rsp = ShErr /\
               (is_internal e = true -> rs_detail rsp = dc_generic \/ rs_detail rsp = dc_payfail)
  | RPanic | RCrash => rsp = panic_resp
  | _ => rsp = ok_resp (shape_of (rq_route rq) r) (COp r)
  end.
Proof. exact status_shape. Qed.
Print Assumptions C20_status_shape.

(* No response to any request, at any state reachable by any history of requests, restarts,
   rotations, environment steps and injected faults, carries DBErrCode or LightningBackendErrCode.
   (swapRequest and meltQuoteRequest test DBErrCode only: the proof shows that Swap and
   RequestMeltQuote never fail with a Lightning error.) *)
Theorem C20_no_internal : forall cfg items rq,
  ~ internal_code (rs_code (snd (http_step cfg (fst (http_items cfg hworld0 items)) rq))).
Proof. exact (no_internal cache_key). Qed.
Print Assumptions C20_no_internal.

(* The code the client sees for each rejection cause, as the error table of the code has it today. *)
Theorem C20_code_of_cause :
  map (fun e => (e, code_of_err e)) all_errs =
  [ (EDb, 10000); (ELn, 10000); (EUnit, 11005); (EBadPubkey, 10000); (EMintLimit, 11006); (EMintDisabled, 20003);
    (EMeltLimit, 11006); (EQuoteNotExist, 20009); (ENotPaid, 20001); (EIssued, 20002); (EQuotePending, 20005);
    (EMeltPaid, 20006); (EOutAmount, 10000); (EDupOutputs, 11008); (EOverQuote, 10000); (EAlreadySigned, 10002);
    (EQuoteSig, 20008); (EUnknownKeyset, 12001); (EInactiveKeyset, 12002); (EBadB, 10000);
    (ENoProofs, 10003); (EProofPending, 11001); (EProofUsed, 11001); (EDupProofs, 11007); (ESecretLong, 10004);
    (EInvalidProof, 10003); (EBadC, 10000); (ECond, 30001); (EProofAmount, 10000); (EInsufficient, 11002);
    (ESigAllMelt, 30001); (ESigAllOutputs, 30001); (EInvoice, 20009); (EMeltExists, 20009); (EMpp, 20009) ].
Proof. exact code_of_cause_pinned. Qed.
Print Assumptions C20_code_of_cause.

Theorem C20_all_causes_listed : forall e, In e all_errs.
Proof. exact all_errs_complete. Qed.
Print Assumptions C20_all_causes_listed.

(* Quote and proof states travel as the NUT strings: StringToState inverts String() on every
   declared constant and vice versa (the tables read from the Go sources), the model's states are
   written as UNPAID/PAID/PENDING/ISSUED, UNPAID/PENDING/PAID, UNSPENT/PENDING/SPENT and parse back. *)
Theorem C20_state_strings_roundtrip :
  (roundtrip_values nut04_consts nut04_to_string_cases nut04_to_string_default nut04_from_string nut04_from_string_default = true /\
   roundtrip_strings nut04_to_string_cases nut04_to_string_default nut04_from_string nut04_from_string_default = true) /\
  (roundtrip_values nut05_consts nut05_to_string_cases nut05_to_string_default nut05_from_string nut05_from_string_default = true /\
   roundtrip_strings nut05_to_string_cases nut05_to_string_default nut05_from_string nut05_from_string_default = true) /\
  (roundtrip_values nut07_consts nut07_to_string_cases nut07_to_string_default nut07_from_string nut07_from_string_default = true /\
   roundtrip_strings nut07_to_string_cases nut07_to_string_default nut07_from_string nut07_from_string_default = true) /\
  map mint_state_text [0; 1; 2; 3] = ["UNPAID"; "PAID"; "PENDING"; "ISSUED"]%string /\
  map melt_state_text [0; 1; 2] = ["UNPAID"; "PENDING"; "PAID"]%string /\
  map proof_state_text [0; 1; 2] = ["UNSPENT"; "PENDING"; "SPENT"]%string /\
  (forall st, 0 <= st <= 3 ->
     from_string nut04_from_string nut04_from_string_default (mint_state_text st) = mint_state_go st) /\
  (forall st, 0 <= st <= 2 ->
     from_string nut05_from_string nut05_from_string_default (melt_state_text st) = melt_state_go st) /\
  (forall st, 0 <= st <= 2 ->
     from_string nut07_from_string nut07_from_string_default (proof_state_text st) = proof_state_go st).
Proof. exact state_strings_roundtrip. Qed.
Print Assumptions C20_state_strings_roundtrip.

(* The tables the executable model runs on are the route table, the per-handler code tests, the
   list of cached handlers, as read from the current Go sources. *)
Theorem C20_tables_follow_the_code :
  (forall rt m, guard rt m = guard_spec rt m) /\
  (forall rt, route_tests rt = tests_of (handler_name rt)) /\
  (forall rt, is_cached rt = is_cached_spec rt).
Proof. exact tables_are_the_extracted_ones. Qed.
Print Assumptions C20_tables_follow_the_code.

(* The sets of top-level JSON keys of the response shapes, by the index the model prints. *)
Theorem C20_shape_keys :
  map (fun s => (shape_code s, shape_keys s)) all_shapes =
  [ (0, ""); (1, "#text"); (2, "code,detail"); (3, "signatures");
    (4, "amount,expiry,quote,request,state,unit"); (5, "amount,expiry,pubkey,quote,request,state,unit");
    (6, "amount,expiry,fee_reserve,quote,request,state,unit");
    (7, "amount,expiry,fee_reserve,payment_preimage,quote,request,state,unit");
    (8, "states"); (9, "outputs,signatures"); (10, "keysets:id,keys,unit");
    (11, "keysets:active,id,input_fee_ppk,unit"); (12, "description,name,nuts,pubkey,time,version"); (13, "#panic") ]%string.
Proof. exact shape_keys_pinned. Qed.
Print Assumptions C20_shape_keys.

(* NUT-19.  A request on a cached route that was answered 200 (body below the size limit, cache
   not full): whatever happens afterwards short of a restart, a request that reaches the cached
   handler with the same method, URL and body bytes gets that very response, and the whole server
   state -- mint world and cache -- is left as it was: the operation is not run again. *)
Theorem C20_cache_replay : forall cfg hw rq hw1 r1 mid rq',
  to_cache rq = true ->
  http_step cfg hw rq = (hw1, r1) -> rs_status r1 = 200 ->
  rq_blen rq < REQUEST_BODY_SIZE_LIMIT -> cache_room hw = true ->
  forallb no_restart mid = true ->
  to_cache rq' = true ->
  rq_mb rq' = rq_mb rq -> rq_ub rq' = rq_ub rq -> rq_bb rq' = rq_bb rq ->
  let hw2 := fst (http_items cfg hw1 mid) in
  http_step cfg hw2 rq' = (hw2, r1).
Proof. exact (cache_replay cache_key). Qed.
Print Assumptions C20_cache_replay.

(* The cache key of today, method NUL url NUL body, determines the three parts (no NUL byte can
   occur in a method or in URL.String()). *)
Theorem C20_cache_key_injective : forall m u b m' u' b',
  nonul m -> nonul u -> nonul m' -> nonul u' ->
  cache_key m u b = cache_key m' u' b' -> m = m' /\ u = u' /\ b = b'.
Proof. exact cache_key_injective. Qed.
Print Assumptions C20_cache_key_injective.

(* Hence a response comes out of the cache only if an earlier request of the history, on a cached
   route, had the same method, URL and body bytes and was answered 200 -- and it is that answer. *)
Theorem C20_cache_only_replay : forall cfg items rq r,
  Forall item_wf items -> nonul (rq_mb rq) -> nonul (rq_ub rq) ->
  cache_get (cache_key (rq_mb rq) (rq_ub rq) (rq_bb rq)) (hw_cache (fst (http_items cfg hworld0 items))) = Some r ->
  exists pre rq0 post,
    items = pre ++ HReq rq0 :: post /\
    rq_mb rq0 = rq_mb rq /\ rq_ub rq0 = rq_ub rq /\ rq_bb rq0 = rq_bb rq /\
    to_cache rq0 = true /\ rs_status r = 200 /\
    snd (http_step cfg (fst (http_items cfg hworld0 pre)) rq0) = r.
Proof. exact cache_only_replay_today. Qed.
Print Assumptions C20_cache_only_replay.

(* With the key construction in use before the repair (the three parts concatenated) that is false:
   a request whose URL and body both differ from every earlier request is answered from the cache. *)
Theorem C20_cache_only_replay_refuted_unseparated :
  exists cfg items rq r,
    Forall item_wf items /\ nonul (rq_mb rq) /\ nonul (rq_ub rq) /\ to_cache rq = true /\
    cache_get (cache_key_unseparated (rq_mb rq) (rq_ub rq) (rq_bb rq))
              (hw_cache (fst (http_items_k cache_key_unseparated cfg hworld0 items))) = Some r /\
    snd (http_step_k cache_key_unseparated cfg (fst (http_items_k cache_key_unseparated cfg hworld0 items)) rq) = r /\
    ~ (exists pre rq0 post, items = pre ++ HReq rq0 :: post /\ rq_ub rq0 = rq_ub rq /\ rq_bb rq0 = rq_bb rq).
Proof. exact cache_only_replay_refuted_unseparated. Qed.
Print Assumptions C20_cache_only_replay_refuted_unseparated.

(* ---------------- non-vacuity ---------------- *)

Definition nv_cfg : config := mkCfg 0 0 0 false 1.
Definition nv_start : hworld := fst (http_items nv_cfg hworld0 [HDirect (ORestart 0 false) []]).
Definition nv_quote : hreq := mkReq MPost RtMintQuote true true BOk (OMintQuote true 8 0 101 102) 0 [] [] [] 0 [].
Definition nv_mint (b : Z) (body : list Z) : hreq :=
  mkReq MPost RtMint true true BOk (OMint 101 [mkBmsg b 8 0 0 true (b + 1)] 0) 0 [80; 79; 83; 84] [47; 118; 49] body 3 [].

(* a mint quote is created (200, quote shape, state UNPAID), minting before payment is refused with
   20001, after payment it is answered 200 with signatures, a byte-identical replay returns the same
   response with the world unchanged, the same request under other bytes is executed and refused 20002 *)
Example C20_nonvacuous_history :
  let '(hw1, r1) := http_step nv_cfg nv_start nv_quote in
  let '(hw2, r2) := http_step nv_cfg hw1 (nv_mint 103 [1]) in
  let '(hw3, _) := item_step nv_cfg hw2 (HDirect (ESettle 102) []) in
  let '(hw4, r4) := http_step nv_cfg hw3 (nv_mint 103 [1]) in
  let '(hw5, r5) := http_step nv_cfg hw4 (nv_mint 103 [1]) in
  let '(hw6, r6) := http_step nv_cfg hw5 (nv_mint 105 [2]) in
  (rs_status r1, rs_shape r1) = (200, ShMintQuote false) /\
  (rs_status r2, rs_code r2, rs_shape r2) = (400, code_MintQuoteRequestNotPaid, ShErr) /\
  (rs_status r4, rs_shape r4, rs_content r4) = (200, ShSigs, COp (RSigs [mkSrow 103 8 0])) /\
  r5 = r4 /\ hw_mint hw5 = hw_mint hw4 /\
  (rs_status r6, rs_code r6) = (400, code_MintQuoteAlreadyIssued).
Proof. vm_compute. repeat split. Qed.

(* routing: unknown path 404, method not registered 405, OPTIONS answered by the middleware,
   another payment method 11003, empty body and wrong Content-Type 10000, before anything runs *)
Example C20_nonvacuous_guards :
  let q m rt pm ct b := snd (http_step nv_cfg nv_start (mkReq m rt pm ct b (OSwap [] [] true) 0 [] [] [] 0 [])) in
  rs_status (q MGet RtOther true true BEmpty) = 404 /\
  rs_status (q MGet RtSwap true true BEmpty) = 405 /\
  (rs_status (q MOptions RtSwap true true BEmpty), rs_shape (q MOptions RtSwap true true BEmpty)) = (200, ShNone) /\
  (rs_status (q MPost RtMelt false true BOk), rs_code (q MPost RtMelt false true BOk)) = (400, 11003) /\
  (rs_status (q MPost RtSwap true true BEmpty), rs_code (q MPost RtSwap true true BEmpty)) = (400, 10000) /\
  (rs_status (q MPost RtSwap true false BOk), rs_code (q MPost RtSwap true false BOk)) = (400, 10000) /\
  (rs_status (q MPost RtSwap true true BOk), rs_code (q MPost RtSwap true true BOk)) = (400, code_NoProofsProvided).
Proof. vm_compute. repeat split. Qed.

(* an injected storage error and a Lightning error are answered with the generic body *)
Example C20_nonvacuous_internal :
  let db := snd (http_step nv_cfg nv_start
                   (mkReq MPost RtMintQuote true true BOk (OMintQuote true 8 0 101 102) 0 [] [] [] 0 [1])) in
  let hwln := fst (item_step nv_cfg nv_start (HDirect (ESetCreateErr true) [])) in
  let ln := snd (http_step nv_cfg hwln nv_quote) in
  (rs_status db, rs_code db, rs_detail db) = (400, 10000, dc_generic) /\
  (rs_status ln, rs_code ln, rs_detail ln) = (400, 10000, dc_generic).
Proof. vm_compute. repeat split. Qed.

(* the same history against today's key: the request of the refutation is not in the cache and is refused *)
Example C20_nonvacuous_separated_key :
  let hw := fst (http_items refute_cfg hworld0 refute_items) in
  cache_get (cache_key (rq_mb refute_rq) (rq_ub refute_rq) (rq_bb refute_rq)) (hw_cache hw) = None /\
  rs_status (snd (http_step refute_cfg hw refute_rq)) = 400 /\
  rs_code (snd (http_step refute_cfg hw refute_rq)) = code_MintQuoteAlreadyIssued.
Proof. exact refute_history_today. Qed.
