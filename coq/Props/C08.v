(* C08 — Unlinkability: the mint never receives a blinding factor.
   Statements only; every proof is `exact <lemma>` into Wallet/WProofsTrace.v.

   Model: Wallet/WModel.v.  A request is a symbolic term: its inputs are proofs (which, as stored
   or received, may carry a DLEQ object with the blinding factor r), its outputs are blinded
   messages, its Ys are hash_to_curve images.  [atoms r] lists what occurs in the request in the
   clear: ASecret / AC / ADleqES / AR of an input, ABlind of an output (r occurs only inside B_),
   AY.  A history is any list of (cut position, operation) items over any number of mints and
   wallets; [trace] is every request the wallets ever sent (swap, melt, mint, mint/melt quote,
   checkstate, restore).  [repaired] is the code with /verif/proposed-fixes applied
   (inputs of swap and melt requests are sent without their DLEQ object); the correspondence
   (stream c08-hist) runs exactly this model against the real wallet. *)
From Coq Require Import ZArith List Bool.
From Verif Require Import Select WModel WProofsTrace.
Import ListNotations.
Open Scope Z_scope.

(* For every history - every operation path, every Lightning outcome, every cut of a wallet
   process - no request contains a blinding factor outside a blinded message, and a secret
   occurs in a request only as the secret of one of that request's own inputs (so never the
   secret of an output, nor of a proof that is not being spent). *)
Theorem C08_no_r : forall ms homes its r,
  In r (trace (exec_all repaired its (init_world ms homes))) ->
  forallb no_r_atom (atoms r) = true /\
  (forall p, In (ASecret p) (atoms r) -> In p (map in_p (rq_in r))).
Proof. exact no_r_in_any_request. Qed.
Print Assumptions C08_no_r.

(* Stronger: no request carries a DLEQ object at all; DLEQ data (with r) leaves the wallet only
   in the proofs handed to the caller of Send / SendToPubkey / HTLCLockedProofs (the tokens). *)
Theorem C08_only_tokens : forall ms homes its r,
  In r (trace (exec_all repaired its (init_world ms homes))) ->
  forallb (fun i => negb (in_dleq i)) (rq_in r) = true.
Proof. exact no_dleq_in_any_request. Qed.
Print Assumptions C08_only_tokens.

(* The request construction of the unchanged code (stored proofs passed as inputs as they are)
   is refuted: mint, then a send that needs a swap - the swap request contains r. *)
Theorem C08_no_r_refuted :
  existsb leaks (trace (exec_all unrepaired c08_witness (init_world [(0, 1)] [0; 0]))) = true.
Proof. exact unrepaired_leaks_r. Qed.
Print Assumptions C08_no_r_refuted.

(* Non-vacuity: the same history on the repaired code sends swap requests with inputs, none leaking. *)
Example C08_nonvacuous_inputs :
  existsb (fun r => negb (Z.of_nat (length (rq_in r)) =? 0))
          (trace (exec_all repaired c08_witness (init_world [(0, 1)] [0; 0]))) = true.
Proof. vm_compute. reflexivity. Qed.
Example C08_nonvacuous_clean :
  existsb leaks (trace (exec_all repaired c08_witness (init_world [(0, 1)] [0; 0]))) = false.
Proof. vm_compute. reflexivity. Qed.
