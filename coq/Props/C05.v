(* C05 - Melt inputs follow the Lightning outcome: spent iff paid, released iff failed
   Statements only; every proof is `exact <lemma>` into coq/Mint/*.v.

   Reading guide (definitions in coq/Mint/*.v):
     world            = store (tables spent/pending/signatures/mint quotes/melt quotes/keysets) + Lightning environment
                        (invoices, scripted answers, log of pay calls) + the process memory (keysets, active keyset)
     op               = one request (OSwap, OMint, OMelt, OMeltQuote, OMintQuote, OMintState, OMeltState, OCheck, ORestore,
                        ORotate, ORestart, OWatcher, OBalance, OInfo) or environment step (ESettle, EScriptPay/Look, ...)
     op_prog          = the request as a program over storage/Lightning calls, following mint/mint.go call by call
     run p f w        = run program p from world w; f: which call positions get an injected storage error (no_fault: none)
     run_n n p f w    = the same, but the process dies after n calls
     step cfg f w o   = one request run to completion; run_history / reach: a sequential fault-free history from the empty store
     hrun cfg w h     = a history of items: HNormal o | HFault o f | HCrash o n | HConc ops schedule (interleaving at call granularity)
     WInv w           = every table has unique keys (Y, B_, quote ids, keyset ids)
     Good w           = WInv w and no Y is both spent and pending
     wext w w'        = spent and signature tables of w' extend those of w (nothing removed or altered)
     same_but_calls   = nothing changed but the call counter
     settled w h      = the backend reports the own invoice with payment hash h as settled
     ordered b a s p  = on every path of program p (for every response, so for every fault and cut) an event `a` is preceded by an event `b`

   ambiguous = any answer that is not a definitive success or failure; look_ambiguous w = every scripted lookup answer is ambiguous.
*)
From Coq Require Import ZArith List Bool.
From Verif Require Import Model Sem InvDb InvSwap InvMint InvMelt Corollaries Queries Footprint HRel Global GlobalQuote GlobalValue GlobalErr GlobalQuery GlobalMelt GlobalKeys Cuts CutOrder Conc Races GlobalBalance GlobalLedger Reconf GlobalPoll Trace Admin AdminProofs.
Import ListNotations.
Open Scope Z_scope.

Theorem C05_polls_only_adopt_definitive_answers : forall (cfg : config) (w : world) (o : op), Good w -> is_poll o -> poll_rel w (fst (step cfg no_fault w o)).
Proof. exact @polls_only_adopt_definitive_answers. Qed.
Print Assumptions C05_polls_only_adopt_definitive_answers.

Theorem C05_pending_quote_waits_for_a_poll : forall (cfg : config) (w : world) (o : op) (id : Z) (q : lquote),
       Good w ->
       ~ is_poll o ->
       find_lq id (d_lq (w_db w)) = Some q ->
       lq_state q = 1 -> find_lq id (d_lq (w_db (fst (step cfg no_fault w o)))) = Some q.
Proof. exact @pending_quote_waits_for_a_poll. Qed.
Print Assumptions C05_pending_quote_waits_for_a_poll.

Theorem C05_poll_outcomes : let cfg := {| c_max_mint := 0; c_max_melt := 0; c_max_balance := 0; c_mpp := false; c_feepct := 1 |} in
       let w := reach cfg poll_prefix in
       let st := fun v : world => map lq_state (d_lq (w_db v)) in
       let pre := fun v : world => map lq_preimage (d_lq (w_db v)) in
       st w = [1] /\
       (let v := fst (run_history cfg w [EScriptLook 106 {| a_kind := 0; a_pre := 9 |}; OMeltState 105]) in
        st v = [2] /\ pre v = [9] /\ d_pending (w_db v) = []) /\
       (let v := fst (run_history cfg w [EScriptLook 106 {| a_kind := 1; a_pre := 0 |}; OCheck [103]]) in
        st v = [0] /\ d_pending (w_db v) = [] /\ d_spent (w_db v) = []) /\
       (let v :=
          fst (run_history cfg w [EScriptLook 106 {| a_kind := 2; a_pre := 0 |}; OMeltState 105; OCheck [103]]) in
        st v = [1] /\ length (d_pending (w_db v)) = 1%nat).
Proof. exact @poll_outcomes. Qed.
Print Assumptions C05_poll_outcomes.

Theorem C05_ambiguous_backend_never_resolves : forall (cfg : config) (h : list op) (w : world),
       Good w -> look_ambiguous w -> Forall is_poll h -> w_db (fst (run_history cfg w h)) = w_db w.
Proof. exact @ambiguous_backend_never_resolves. Qed.
Print Assumptions C05_ambiguous_backend_never_resolves.

Theorem C05_poll_spec : forall (id : Z) (w : world),
       WInv w ->
       Disjoint (w_db w) ->
       exists (w' : world) (r : result lquote),
         run (get_melt_quote_state id) no_fault w = (w', Done r) /\
         keeps_mem w w' /\
         match find_lq id (d_lq (w_db w)) with
         | Some q =>
             if lq_state q =? 1
             then
              let a := next_look w (lq_hash q) in
              let rows := rows_of_quote id (w_db w) in
              if (a_kind a =? 3) || (a_kind a =? 4)
              then r = Ok q /\ w_db w' = w_db w
              else
               if a_kind a =? 0
               then
                r = Ok (with_state q 2 (a_pre a)) /\
                d_spent (w_db w') = d_spent (w_db w) ++ map unquote rows /\
                d_pending (w_db w') =
                filter (fun r0 : prow => negb (mem (r_y r0) (ys_of rows))) (d_pending (w_db w)) /\
                d_lq (w_db w') = upd_lq id (a_pre a) 2 (d_lq (w_db w)) /\
                d_sigs (w_db w') = d_sigs (w_db w) /\ d_mq (w_db w') = d_mq (w_db w)
               else
                if a_kind a =? 1
                then
                 r = Ok (with_state q 0 0) /\
                 d_spent (w_db w') = d_spent (w_db w) /\
                 d_pending (w_db w') =
                 filter (fun r0 : prow => negb (mem (r_y r0) (ys_of rows))) (d_pending (w_db w)) /\
                 d_lq (w_db w') = upd_lq id 0 0 (d_lq (w_db w)) /\
                 d_sigs (w_db w') = d_sigs (w_db w) /\ d_mq (w_db w') = d_mq (w_db w)
                else r = Ok q /\ w_db w' = w_db w
             else r = Ok q /\ w_db w' = w_db w /\ w_ln w' = w_ln w
         | None => r = Err EQuoteNotExist /\ w_db w' = w_db w /\ w_ln w' = w_ln w
         end.
Proof. exact @poll_spec. Qed.
Print Assumptions C05_poll_spec.

Theorem C05_melt_tokens_spec : forall (cfg : config) (mem_ks : list ksrow) (id : Z) (ins : list proof) (w : world),
       WInv w ->
       exists (w' : world) (r : result lquote),
         run (melt_tokens cfg mem_ks id ins) no_fault w = (w', Done r) /\
         keeps_mem w w' /\
         match r with
         | Ok q' =>
             exists q : lquote,
               find_lq id (d_lq (w_db w)) = Some q /\
               melt_validated mem_ks q ins w /\
               match internal_mq q (w_db w) with
               | Some mq0 =>
                   exists pre : Z,
                     q' = with_state q 2 pre /\
                     melt_effect id ins w w' 2 pre /\
                     d_mq (w_db w') = upd_mq (mq_id mq0) 1 (d_mq (w_db w)) /\ w_ln w' = w_ln w
               | None =>
                   q' =
                   with_state q (fst (melt_decision (next_pay w (lq_hash q)) (next_look w (lq_hash q))))
                     (snd (melt_decision (next_pay w (lq_hash q)) (next_look w (lq_hash q)))) /\
                   melt_effect id ins w w' (fst (melt_decision (next_pay w (lq_hash q)) (next_look w (lq_hash q))))
                     (snd (melt_decision (next_pay w (lq_hash q)) (next_look w (lq_hash q)))) /\
                   d_mq (w_db w') = d_mq (w_db w) /\ l_calls (w_ln w') = l_calls (w_ln w) ++ [the_pay_call cfg q]
               end
         | Err e =>
             w_db w' = w_db w /\ w_ln w' = w_ln w \/
             e = ELn /\
             (exists q : lquote,
                find_lq id (d_lq (w_db w)) = Some q /\
                melt_validated mem_ks q ins w /\
                melt_effect id ins w w' 1 0 /\ d_mq (w_db w') = d_mq (w_db w) /\ w_ln w' = w_ln w)
         end.
Proof. exact @melt_tokens_spec. Qed.
Print Assumptions C05_melt_tokens_spec.

Theorem C05_poll_ambiguous_noop : forall (id : Z) (w : world) (q : lquote),
       WInv w ->
       Disjoint (w_db w) ->
       find_lq id (d_lq (w_db w)) = Some q ->
       lq_state q = 1 ->
       let a := next_look w (lq_hash q) in
       a_kind a = 2 \/ a_kind a = 3 \/ a_kind a = 4 ->
       w_db (fst (run (get_melt_quote_state id) no_fault w)) = w_db w.
Proof. exact @poll_ambiguous_noop. Qed.
Print Assumptions C05_poll_ambiguous_noop.

Theorem C05_poll_good : forall (id : Z) (w : world), Good w -> Good (fst (run (get_melt_quote_state id) no_fault w)).
Proof. exact @poll_good. Qed.
Print Assumptions C05_poll_good.

Theorem C05_melt_good : forall (cfg : config) (mem_ks : list ksrow) (id : Z) (ins : list proof) (w : world),
       Good w -> Good (fst (run (melt_tokens cfg mem_ks id ins) no_fault w)).
Proof. exact @melt_good. Qed.
Print Assumptions C05_melt_good.

