(* C12 — P2PK locks: spendable only with the required signatures (NUT-11).
   Statements only; every proof is `exact <lemma>` into Cond/CondSpec.v. *)
From Coq Require Import ZArith List Bool.
From Verif Require Import Cond CondSpec.
Import ListNotations.
Open Scope Z_scope.

(* Acceptance of a P2PK-locked proof is exactly the NUT-11 rule: before the locktime,
   at least n_sigs (default 1) DISTINCT authorised keys (the lock key, plus the listed
   keys when a threshold is set) have a valid signature on the secret, the witness
   holding no repeated signature; after the locktime, a refund key signed, or there
   is no refund key.  For every lock, every witness, every clock value. *)
Theorem C12_p2pk_accept_iff : forall now msg d ts w,
  verify_p2pk now msg d ts w = true <-> p2pk_spec now msg d ts w.
Proof. exact verify_p2pk_iff. Qed.
Print Assumptions C12_p2pk_accept_iff.

(* The counting loop of HasValidSignatures counts distinct signers, whatever the order
   of signatures and keys, however often a key is listed or signs. *)
Theorem C12_count_is_distinct_signers : forall msg sigs keys,
  count_valid msg sigs keys = n_signers msg sigs keys.
Proof. exact count_valid_signers. Qed.
Print Assumptions C12_count_is_distinct_signers.

(* SIG_ALL at any position: the swap passes only if all inputs carry one and the same
   SIG_ALL condition and every output is signed by enough authorised keys. *)
Theorem C12_sigall_swap : forall now ins outs,
  (exists i, In i ins /\ is_sig_all (in_secret i) = true) ->
  swap_conditions now ins outs = true ->
  exists k d keys req,
    inputs_uniform keys req ins /\
    (forall o, In o outs -> output_signed k d keys req o) /\
    (forall i, In i ins -> verify_condition now (in_msg i) (in_secret i) (in_wit i) = true).
Proof. exact sigall_swap. Qed.
Print Assumptions C12_sigall_swap.

Theorem C12_sigall_no_melt : forall now ins,
  (exists i, In i ins /\ is_sig_all (in_secret i) = true) ->
  melt_conditions now ins = false.
Proof. exact sigall_no_melt. Qed.
Print Assumptions C12_sigall_no_melt.

(* The canonical witnesses of the library's own helpers are accepted. *)
Theorem C12_helper_input_accepted : forall now pk nonce i ts pt,
  in_secret i = SNut10 KP2PK (DKey (KGood pk)) ts ->
  parse_tags ts = Some pt -> ~ expired now pt ->
  (pt_nsigs pt <= 1) ->
  let i' := helper_p2pk_input pk nonce i in
  verify_condition now (in_msg i') (in_secret i') (in_wit i') = true.
Proof. exact helper_p2pk_input_accepted. Qed.
Print Assumptions C12_helper_input_accepted.

Theorem C12_helper_output_accepted : forall pk nonce d keys o,
  out_hex o = true -> In pk keys ->
  output_ok KP2PK d keys 1 (helper_p2pk_output pk nonce o) = true.
Proof. exact helper_p2pk_output_accepted. Qed.
Print Assumptions C12_helper_output_accepted.

(* Non-vacuity: a 2-of-3 lock, two distinct signers accepted, one signer signing twice refused;
   and a SIG_ALL input after a plain one makes an unsigned output fail. *)
Example C12_nonvacuous_threshold :
  let ts := [TNsigs (Some 2); TPubkeys [KGood 2; KGood 3]] in
  verify_p2pk 100 7 (DKey (KGood 1)) ts (WP2PK [SigOk 3 7 0; SigOk 1 7 0]) = true /\
  verify_p2pk 100 7 (DKey (KGood 1)) ts (WP2PK [SigOk 3 7 0; SigOk 3 7 1]) = false /\
  verify_p2pk 100 7 (DKey (KGood 1)) [TNsigs (Some 3); TPubkeys [KGood 2]]
     (WP2PK [SigOk 1 7 0; SigOk 2 7 0; SigOk 2 7 1]) = false.
Proof. vm_compute. repeat split. Qed.

Example C12_nonvacuous_sigall_position :
  let lock := SNut10 KP2PK (DKey (KGood 1)) [TSigflag 1 false] in
  let ins := [mkInput 5 SPlain WNone; mkInput 6 lock (WP2PK [SigOk 1 6 0])] in
  swap_conditions 100 ins [mkOutput 9 true WNone] = false /\
  swap_conditions 100 [mkInput 6 lock (WP2PK [SigOk 1 6 0])] [mkOutput 9 true (WP2PK [SigOk 1 9 0])] = true.
Proof. vm_compute. split; reflexivity. Qed.
