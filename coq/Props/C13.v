(* C13 — HTLC locks: spendable only with the preimage and required signatures (NUT-14).
   Statements only. *)
From Coq Require Import ZArith List Bool.
From Verif Require Import Cond CondSpec.
Import ListNotations.
Open Scope Z_scope.

(* Before the locktime: the witness preimage hashes to the 64-character lock value and,
   when n_sigs > 0, that many distinct listed keys signed the secret; after it only the
   refund rule applies.  For every lock, witness and clock value. *)
Theorem C13_htlc_accept_iff : forall now msg d ts w,
  verify_htlc now msg d ts w = true <-> htlc_spec now msg d ts w.
Proof. exact verify_htlc_iff. Qed.
Print Assumptions C13_htlc_accept_iff.

(* SIG_ALL: shared with P2PK; for an HTLC condition output_signed demands the preimage in
   every output witness as well. *)
Theorem C13_sigall_swap : forall now ins outs,
  (exists i, In i ins /\ is_sig_all (in_secret i) = true) ->
  swap_conditions now ins outs = true ->
  exists k d keys req,
    inputs_uniform keys req ins /\
    (forall o, In o outs -> output_signed k d keys req o) /\
    (forall i, In i ins -> verify_condition now (in_msg i) (in_secret i) (in_wit i) = true).
Proof. exact sigall_swap. Qed.
Print Assumptions C13_sigall_swap.

Theorem C13_helper_input_accepted : forall now k nonce h i i' ts pt,
  in_secret i = SNut10 KHTLC (DHash h true) ts ->
  parse_tags ts = Some pt -> ~ expired now pt ->
  helper_htlc_input k nonce h i = Some i' ->
  verify_condition now (in_msg i') (in_secret i') (in_wit i') = true.
Proof. exact helper_htlc_input_accepted. Qed.
Print Assumptions C13_helper_input_accepted.

Theorem C13_helper_output_accepted : forall k nonce h keys o,
  out_hex o = true -> In k keys ->
  output_ok KHTLC (DHash h true) keys 1 (helper_htlc_output k nonce h o) = true.
Proof. exact helper_htlc_output_accepted. Qed.
Print Assumptions C13_helper_output_accepted.

(* The corner the helpers cannot satisfy (known finding, DESIGN §6): a SIG_ALL HTLC
   without any listed key has an empty set of authorised signers, so no output witness
   whatsoever is accepted. *)
Theorem C13_sigall_without_pubkeys_unspendable : forall h o,
  output_ok KHTLC (DHash h true) [] 1 o = false.
Proof. exact htlc_sigall_without_pubkeys_unspendable. Qed.
Print Assumptions C13_sigall_without_pubkeys_unspendable.

Example C13_nonvacuous :
  let ts := [TNsigs (Some 1); TPubkeys [KGood 4]] in
  verify_htlc 100 7 (DHash 3 true) ts (WHTLC (PHex 3) [SigOk 4 7 0]) = true /\
  verify_htlc 100 7 (DHash 3 true) ts (WHTLC (PHex 2) [SigOk 4 7 0]) = false /\
  verify_htlc 100 7 (DHash 3 true) ts (WHTLC (PHex 3) []) = false /\
  verify_htlc 100 7 (DHash 3 false) [] (WHTLC (PHex 3) []) = false /\
  verify_htlc 100 7 (DHash 3 true) [TLocktime (Some 50); TRefund [KGood 5]] (WHTLC PNonHex [SigOk 5 7 0]) = true.
Proof. vm_compute. repeat split. Qed.
