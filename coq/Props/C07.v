(* C07 - Mint crash consistency: a crash at any point never inflates or strands value
   Statements only; every proof is `exact <lemma>` into coq/Mint/*.v.

   Reading guide (definitions in coq/Mint/*.v):
     world            = store (tables spent/pending/signatures/mint quotes/melt quotes/keysets) + Lightning environment
                        (invoices, scripted answers, log of pay calls) + the process memory (keysets, active keyset)
     op               = one request (OSwap, OMint, OMelt, OMeltQuote, OMintQuote, OMintState, OMeltState, OCheck, ORestore,
                        ORotate, ORestart, OWatcher, OBalance, OInfo) or environment step (ESettle, EScriptPay/Look, ...)
     op_prog          = the request as a program over storage/Lightning calls, following mint/mint.go call by call
     run p f w        = run program p from world w; f: which call positions get an injected storage error (no_fault: none)
     run_n n p f w    = the same, but the process dies after n calls
     step cfg f w o   = one request run to completion; run_history / reach: a sequential fault-free history from the empty store
     hrun cfg w h     = a history of items: HNormal o | HFault o f | HCrash o n | HConc ops schedule (interleaving at call granularity)
     WInv w           = every table has unique keys (Y, B_, quote ids, keyset ids)
     Good w           = WInv w and no Y is both spent and pending
     wext w w'        = spent and signature tables of w' extend those of w (nothing removed or altered)
     same_but_calls   = nothing changed but the call counter
     settled w h      = the backend reports the own invoice with payment hash h as settled
     ordered b a s p  = on every path of program p (for every response, so for every fault and cut) an event `a` is preceded by an event `b`

   The last four are refutations: computed cuts of the model at which value is inflated / stranded / the mint cannot start;
   the c07-cuts stream replays them (and every other cut) on the real mint; they are listed in known_findings.json.
   swap_cut_states / mint_cut_states: the exact sets of stores reachable by cutting a Swap / MintTokens anywhere under any storage errors.
   no_inflation_with_cuts: cut_item = any request run to completion, or a request other than MeltTokens / melt-quote poll / state check cut
   or faulted anywhere, or a concurrent batch of swaps and reads under any schedule; for cuts of the excluded three the inequality is false (refutations).
*)
From Coq Require Import ZArith List Bool.
From Verif Require Import Model Sem InvDb InvSwap InvMint InvMelt Corollaries Queries Footprint HRel Global GlobalQuote GlobalValue GlobalErr GlobalQuery GlobalMelt GlobalKeys Cuts CutOrder Conc Races GlobalBalance GlobalLedger Reconf GlobalPoll Trace Admin AdminProofs CutValue CutMint CutFrames ConcValue CutHistory CutBalance CutLedger.
Import ListNotations.
Open Scope Z_scope.

Theorem C07_hrun_inv : forall (cfg : config) (h : list hitem) (w : world), WInv w -> WInv (hrun cfg w h).
Proof. exact @hrun_inv. Qed.
Print Assumptions C07_hrun_inv.

Theorem C07_hrun_ext : forall (cfg : config) (h : list hitem) (w : world), wext w (hrun cfg w h).
Proof. exact @hrun_ext. Qed.
Print Assumptions C07_hrun_ext.

Theorem C07_reconf_inv : forall (segs : list (config * list hitem)) (w : world), WInv w -> WInv (hrun_cfgs w segs).
Proof. exact @reconf_inv. Qed.
Print Assumptions C07_reconf_inv.

Theorem C07_reconf_ext : forall (segs : list (config * list hitem)) (w : world), wext w (hrun_cfgs w segs).
Proof. exact @reconf_ext. Qed.
Print Assumptions C07_reconf_ext.

Theorem C07_only_op : forall (cfg : config) (mem_ks : list ksrow) (active : Z) (o : op),
       only (fp_op o) (op_prog cfg mem_ks active o).
Proof. exact @only_op. Qed.
Print Assumptions C07_only_op.

Theorem C07_cut_keeps_keysets : forall (cfg : config) (mem_ks : list ksrow) (active : Z) (o : op) (n : nat) (f : oracle) (w : world),
       match o with
       | ORotate _ | ORestart _ _ => False
       | _ => True
       end -> same_ks w (fst (run_n n (op_prog cfg mem_ks active o) f w)).
Proof. exact @cut_keeps_keysets. Qed.
Print Assumptions C07_cut_keeps_keysets.

Theorem C07_cut_keeps_quotes : forall (cfg : config) (mem_ks : list ksrow) (active : Z) (o : op) (n : nat) (f : oracle) (w : world),
       match o with
       | OSwap _ _ _ | ORestore _ | ORotate _ | ORestart _ _ | OBalance | OInfo => True
       | _ => False
       end ->
       d_mq (w_db (fst (run_n n (op_prog cfg mem_ks active o) f w))) = d_mq (w_db w) /\
       d_lq (w_db (fst (run_n n (op_prog cfg mem_ks active o) f w))) = d_lq (w_db w).
Proof. exact @cut_keeps_quotes. Qed.
Print Assumptions C07_cut_keeps_quotes.

Theorem C07_cut_signs_only_when_issuing : forall (cfg : config) (mem_ks : list ksrow) (active : Z) (o : op) (n : nat) (f : oracle) (w : world),
       match o with
       | OMint _ _ _ | OSwap _ _ _ => False
       | _ => True
       end -> d_sigs (w_db (fst (run_n n (op_prog cfg mem_ks active o) f w))) = d_sigs (w_db w).
Proof. exact @cut_signs_only_when_issuing. Qed.
Print Assumptions C07_cut_signs_only_when_issuing.

Theorem C07_keysets_never_lost : forall (cfg : config) (h : list hitem) (w : world), ks_ext (d_ks (w_db w)) (d_ks (w_db (hrun cfg w h))).
Proof. exact @keysets_never_lost. Qed.
Print Assumptions C07_keysets_never_lost.

Theorem C07_quotes_never_altered : forall (cfg : config) (h : list hitem) (w : world), quotes_ext w (hrun cfg w h).
Proof. exact @quotes_never_altered. Qed.
Print Assumptions C07_quotes_never_altered.

Theorem C07_spent_stays_refused : forall (cfg : config) (h : list hitem) (w : world) (ins : list proof) (outs : list bmsg) (sg : bool),
       WInv w ->
       (exists p : proof, In p ins /\ In (p_secret p) (ys_of (d_spent (w_db w)))) ->
       let w' := hrun cfg w h in
       (exists (w'' : world) (e : err),
          run (swap (w_mem w') (w_active w') ins outs sg) no_fault w' = (w'', Done (Err e)) /\
          same_but_calls w' w'') /\
       (forall id : Z,
        exists (w'' : world) (e : err),
          run (melt_tokens cfg (w_mem w') id ins) no_fault w' = (w'', Done (Err e)) /\
          w_db w'' = w_db w' /\ w_ln w'' = w_ln w').
Proof. exact @spent_stays_refused. Qed.
Print Assumptions C07_spent_stays_refused.

Theorem C07_stored_signature_stays_restorable : forall (cfg : config) (h : list hitem) (w : world) (row : srow),
       WInv w ->
       In row (d_sigs (w_db w)) ->
       exists w' : world, run (restore_sigs [s_B row] []) no_fault (hrun cfg w h) = (w', Done (Ok [row])).
Proof. exact @stored_signature_stays_restorable. Qed.
Print Assumptions C07_stored_signature_stays_restorable.

Theorem C07_request_run_never_panics : forall (cfg : config) (mem_ks : list ksrow) (active : Z) (o : op),
       match o with
       | ORotate _ | ORestart _ _ => False
       | _ => True
       end ->
       (forall (f : oracle) (w : world), snd (run (op_prog cfg mem_ks active o) f w) <> Panicked) /\
       (forall (n : nat) (f : oracle) (w : world), snd (run_n n (op_prog cfg mem_ks active o) f w) <> Panicked).
Proof. exact @request_run_never_panics. Qed.
Print Assumptions C07_request_run_never_panics.

Theorem C07_step_log_step : forall (cfg : config) (f : oracle) (w : world) (o : op), fst (step_log cfg f w o) = step cfg f w o.
Proof. exact @step_log_step. Qed.
Print Assumptions C07_step_log_step.

Theorem C07_step_crash_log_step : forall (cfg : config) (k : nat) (w : world) (o : op), fst (step_crash_log cfg k w o) = step_crash cfg k w o.
Proof. exact @step_crash_log_step. Qed.
Print Assumptions C07_step_crash_log_step.

Theorem C07_swap_cut_signatures_imply_spent : forall (mem_ks : list ksrow) (active : Z) (ins : list proof) (outs : list bmsg) 
         (sg : bool) (n : nat) (f : oracle) (w : world),
       let w' := fst (run_n n (swap mem_ks active ins outs sg) f w) in
       d_sigs (w_db w') <> d_sigs (w_db w) -> incl (map (to_row 0) ins) (d_spent (w_db w')).
Proof. exact @swap_cut_signatures_imply_spent. Qed.
Print Assumptions C07_swap_cut_signatures_imply_spent.

Theorem C07_swap_ordered : forall (mem_ks : list ksrow) (active : Z) (ins : list proof) (outs : list bmsg) (sg : bool),
       ordered (ev_save_proofs (map (to_row 0) ins)) ev_save_sigs false (swap mem_ks active ins outs sg).
Proof. exact @swap_ordered. Qed.
Print Assumptions C07_swap_ordered.

Theorem C07_mint_ordered : forall (mem_ks : list ksrow) (active id : Z) (outs : list bmsg) (sig : Z),
       ordered (ev_mark_issued id) ev_save_sigs false (mint_tokens mem_ks active id outs sig).
Proof. exact @mint_ordered. Qed.
Print Assumptions C07_mint_ordered.

Theorem C07_melt_ordered : forall (cfg : config) (mem_ks : list ksrow) (id : Z) (ins : list proof),
       ordered (ev_add_pending (map (to_row id) ins)) ev_pay false (melt_tokens cfg mem_ks id ins) /\
       ordered (ev_mark_pending id) ev_pay false (melt_tokens cfg mem_ks id ins).
Proof. exact @melt_ordered. Qed.
Print Assumptions C07_melt_ordered.

Theorem C07_swap_cut_states : forall (mem_ks : list ksrow) (active : Z) (ins : list proof) (outs : list bmsg) 
         (sg : bool) (n : nat) (f : oracle) (w : world),
       cut_state mem_ks ins outs w (fst (run_n n (swap mem_ks active ins outs sg) f w)).
Proof. exact @swap_cut_states. Qed.
Print Assumptions C07_swap_cut_states.

Theorem C07_swap_cut_no_value_created : forall (mem_ks : list ksrow) (active : Z) (ins : list proof) (outs : list bmsg) 
         (sg : bool) (n : nat) (f : oracle) (w : world),
       Forall (fun x : Z => 0 <= x < two64) (map b_amount outs) ->
       let w' := fst (run_n n (swap mem_ks active ins outs sg) f w) in vS w' - vS w <= vR w' - vR w.
Proof. exact @swap_cut_no_value_created. Qed.
Print Assumptions C07_swap_cut_no_value_created.

Theorem C07_mint_cut_states : forall (mem_ks : list ksrow) (active id : Z) (outs : list bmsg) (sig : Z) (n : nat) (f : oracle) (w : world),
       mint_cut_state id outs w (fst (run_n n (mint_tokens mem_ks active id outs sig) f w)).
Proof. exact @mint_cut_states. Qed.
Print Assumptions C07_mint_cut_states.

Theorem C07_no_inflation_ledger_with_cuts : forall (cfg : config) (h : list hitem),
       cfg_ok cfg ->
       Forall cut_item h ->
       hhonest cfg world0 h ->
       Forall item_u64 h ->
       hln_ok cfg world0 h ->
       let w := hrun cfg world0 h in
       let ip := snd (hltrace cfg world0 h []) in
       vS w + ext_out w (map fst ip) <= vR w + per_quote (esett w) (d_mq (w_db w)) /\
       NoDup (map fst ip) /\
       (forall p : Z * Z, In p ip -> exists q : lquote, In q (d_lq (w_db w)) /\ lq_id q = fst p /\ lq_state q = 2).
Proof. exact @no_inflation_ledger_with_cuts. Qed.
Print Assumptions C07_no_inflation_ledger_with_cuts.

Theorem C07_no_inflation_with_cuts : forall (cfg : config) (h : list hitem),
       cfg_ok cfg ->
       Forall cut_item h ->
       hhonest cfg world0 h ->
       Forall item_u64 h ->
       let w := hrun cfg world0 h in
       let
       '(_, _, cred) := htrace cfg world0 h [] [] in
        vS w + vOut w <= vR w + per_quote (fun m : mquote => esett w m + cnt (mq_id m) cred) (d_mq (w_db w)) /\
        (forall q : lquote,
         In q (d_lq (w_db w)) -> lq_state q = 1 -> lq_amount q + lq_fee q <= rows_sum (lq_id q) (w_db w)) /\
        (forall q : lquote, In q (d_lq (w_db w)) -> lq_state q <> 1 -> rows_of_quote (lq_id q) (w_db w) = []).
Proof. exact @no_inflation_with_cuts. Qed.
Print Assumptions C07_no_inflation_with_cuts.

Theorem C07_cut_history_ok : let cfg := {| c_max_mint := 0; c_max_melt := 0; c_max_balance := 0; c_mpp := false; c_feepct := 2 |} in
       Forall cut_item cut_history /\
       Forall item_u64 cut_history /\
       hhonest cfg world0 cut_history /\
       (let w := hrun cfg world0 cut_history in
        (vS w, vR w, vOut w, map mq_state (d_mq (w_db w))) = (128, 112, 0, [3; 3; 3; 3])).
Proof. exact @cut_history_ok. Qed.
Print Assumptions C07_cut_history_ok.

Theorem C07_balance_never_negative_with_cuts : forall (cfg : config) (h : list hitem),
       Forall seq_cut_item h ->
       hclients_honest cfg world0 h [] ->
       let w := hrun cfg world0 h in
       vR w + vP w <= vS w /\
       (vS w < two63 ->
        exists w' : world, run total_balance no_fault w = (w', Done (Ok (vS w - vR w))) /\ 0 <= vS w - vR w).
Proof. exact @balance_never_negative_with_cuts. Qed.
Print Assumptions C07_balance_never_negative_with_cuts.

Theorem C07_crash_in_settle_inflates : let w := hrun cfg0 world0 cut_melt_history in
       issuedZ w = 128 /\
       redeemedZ w = 64 /\ lockedZ w = 0 /\ length (l_calls (w_ln w)) = 1%nat /\ map lq_state (d_lq (w_db w)) = [1].
Proof. exact @crash_in_settle_inflates. Qed.
Print Assumptions C07_crash_in_settle_inflates.

Theorem C07_crash_in_swap_strands : let w := hrun cfg0 world0 cut_swap_history in
       map r_y (d_spent (w_db w)) = [103] /\
       map s_B (d_sigs (w_db w)) = [104] /\ snd (run (restore_sigs [106] []) no_fault w) = Done (Ok []).
Proof. exact @crash_in_swap_strands. Qed.
Print Assumptions C07_crash_in_swap_strands.

Theorem C07_crash_in_mint_strands : let w := hrun cfg0 world0 cut_mint_history in
       map mq_state (d_mq (w_db w)) = [2] /\
       d_sigs (w_db w) = [] /\ snd (step cfg0 no_fault w (OMint 101 [bm 106 8 105] 0)) = RFail EQuotePending.
Proof. exact @crash_in_mint_strands. Qed.
Print Assumptions C07_crash_in_mint_strands.

Theorem C07_crash_in_rotate_bricks : snd (step cfg0 no_fault (hrun cfg0 world0 cut_rotate_history) (ORestart 0 false)) = RPanic.
Proof. exact @crash_in_rotate_bricks. Qed.
Print Assumptions C07_crash_in_rotate_bricks.

