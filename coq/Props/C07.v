(* C07 — Mint crash consistency: a crash at any point never inflates or strands value
   Statements only; every proof is `exact <lemma>` into Mint/*.v (model: Mint/Model.v, semantics: Mint/Sem.v). *)
From Coq Require Import ZArith List Bool.
From Verif Require Import Model Sem InvDb InvSwap InvMint InvMelt Corollaries Queries Footprint Global GlobalQuote Cuts.
Import ListNotations.
Open Scope Z_scope.

Theorem C07_hrun_inv : forall (cfg : config) (h : list hitem) (w : world), WInv w -> WInv (hrun cfg w h).
Proof. exact @hrun_inv. Qed.
Print Assumptions C07_hrun_inv.

Theorem C07_hrun_ext : forall (cfg : config) (h : list hitem) (w : world), wext w (hrun cfg w h).
Proof. exact @hrun_ext. Qed.
Print Assumptions C07_hrun_ext.

Theorem C07_only_op : forall (cfg : config) (mem_ks : list ksrow) (active : Z) (o : op),
       only (fp_op o) (op_prog cfg mem_ks active o).
Proof. exact @only_op. Qed.
Print Assumptions C07_only_op.

Theorem C07_cut_keeps_keysets : forall (cfg : config) (mem_ks : list ksrow) (active : Z) (o : op) (n : nat) (f : oracle) (w : world),
       match o with
       | ORotate _ | ORestart _ _ => False
       | _ => True
       end -> same_ks w (fst (run_n n (op_prog cfg mem_ks active o) f w)).
Proof. exact @cut_keeps_keysets. Qed.
Print Assumptions C07_cut_keeps_keysets.

Theorem C07_cut_keeps_quotes : forall (cfg : config) (mem_ks : list ksrow) (active : Z) (o : op) (n : nat) (f : oracle) (w : world),
       match o with
       | OSwap _ _ _ | ORestore _ | ORotate _ | ORestart _ _ | OBalance | OInfo => True
       | _ => False
       end ->
       d_mq (w_db (fst (run_n n (op_prog cfg mem_ks active o) f w))) = d_mq (w_db w) /\
       d_lq (w_db (fst (run_n n (op_prog cfg mem_ks active o) f w))) = d_lq (w_db w).
Proof. exact @cut_keeps_quotes. Qed.
Print Assumptions C07_cut_keeps_quotes.

Theorem C07_cut_signs_only_when_issuing : forall (cfg : config) (mem_ks : list ksrow) (active : Z) (o : op) (n : nat) (f : oracle) (w : world),
       match o with
       | OMint _ _ _ | OSwap _ _ _ => False
       | _ => True
       end -> d_sigs (w_db (fst (run_n n (op_prog cfg mem_ks active o) f w))) = d_sigs (w_db w).
Proof. exact @cut_signs_only_when_issuing. Qed.
Print Assumptions C07_cut_signs_only_when_issuing.

Theorem C07_spent_stays_refused : forall (cfg : config) (h : list hitem) (w : world) (ins : list proof) (outs : list bmsg) (sg : bool),
       WInv w ->
       (exists p : proof, In p ins /\ In (p_secret p) (ys_of (d_spent (w_db w)))) ->
       let w' := hrun cfg w h in
       (exists (w'' : world) (e : err),
          run (swap (w_mem w') (w_active w') ins outs sg) no_fault w' = (w'', Done (Err e)) /\ same_but_calls w' w'') /\
       (forall id : Z,
        exists (w'' : world) (e : err),
          run (melt_tokens cfg (w_mem w') id ins) no_fault w' = (w'', Done (Err e)) /\
          w_db w'' = w_db w' /\ w_ln w'' = w_ln w').
Proof. exact @spent_stays_refused. Qed.
Print Assumptions C07_spent_stays_refused.

Theorem C07_stored_signature_stays_restorable : forall (cfg : config) (h : list hitem) (w : world) (row : srow),
       WInv w ->
       In row (d_sigs (w_db w)) ->
       exists w' : world, run (restore_sigs [s_B row] []) no_fault (hrun cfg w h) = (w', Done (Ok [row])).
Proof. exact @stored_signature_stays_restorable. Qed.
Print Assumptions C07_stored_signature_stays_restorable.

Theorem C07_crash_in_settle_inflates : let w := hrun cfg0 world0 cut_melt_history in
       issuedZ w = 128 /\
       redeemedZ w = 64 /\ lockedZ w = 0 /\ length (l_calls (w_ln w)) = 1%nat /\ map lq_state (d_lq (w_db w)) = [1].
Proof. exact @crash_in_settle_inflates. Qed.
Print Assumptions C07_crash_in_settle_inflates.

Theorem C07_crash_in_swap_strands : let w := hrun cfg0 world0 cut_swap_history in
       map r_y (d_spent (w_db w)) = [103] /\
       map s_B (d_sigs (w_db w)) = [104] /\ snd (run (restore_sigs [106] []) no_fault w) = Done (Ok []).
Proof. exact @crash_in_swap_strands. Qed.
Print Assumptions C07_crash_in_swap_strands.

Theorem C07_crash_in_mint_strands : let w := hrun cfg0 world0 cut_mint_history in
       map mq_state (d_mq (w_db w)) = [2] /\
       d_sigs (w_db w) = [] /\ snd (step cfg0 no_fault w (OMint 101 [bm 106 8 105] 0)) = RFail EQuotePending.
Proof. exact @crash_in_mint_strands. Qed.
Print Assumptions C07_crash_in_mint_strands.

Theorem C07_crash_in_rotate_bricks : snd (step cfg0 no_fault (hrun cfg0 world0 cut_rotate_history) (ORestart 0 false)) = RPanic.
Proof. exact @crash_in_rotate_bricks. Qed.
Print Assumptions C07_crash_in_rotate_bricks.

