(* C19 — Seed backup complete, no counter reuse.
   Statements only; proofs in Wallet/WProofsCounter.v, Wallet/WProofsRestore.v, Wallet/WProofsTrace.v.

   Model: Wallet/WModel.v.  An output (blinded message) is identified by its NUT-13 origin
   (seed, keyset, counter) at a mint; requests carry, as a ghost field, the counter that was stored
   for the keyset of their outputs when they left the wallet ([post_at] builds the request from the
   store: counterForKeyset, createBlindedMessages and the POST follow each other without a store
   write in between - mint, swapToSend with and without spending condition, createSwapRequest of
   Receive / ReceiveHTLC / Reclaim / swapToTrusted, Melt's blank outputs).
   What is proved for ALL histories, what per flow, and what is refuted is said at each statement;
   the statements whose name ends in _partial cover less than the property's text. *)
From Coq Require Import ZArith List Bool.
From Verif Require Import Select WModel WProofsTrace WProofsCounter WProofsFlow WProofsRestore.
Import ListNotations.
Open Scope Z_scope.

(* counter_fresh, first half - for every history (every operation sequence, every Lightning outcome,
   every cut of a wallet process, each of the code variants): every deterministic output in every
   request was derived at a counter at or above the counter stored for its keyset at that moment. *)
Theorem C19_submitted_from_stored_counter : forall vr ms homes its r,
  In r (trace (exec_all vr its (init_world ms homes))) ->
  forall o, In o (rq_out r) -> 0 <= wp_seed o -> rq_stored r <= wp_ctr o.
Proof. exact submitted_from_stored_counter. Qed.
Print Assumptions C19_submitted_from_stored_counter.

(* counter_fresh, second half, per flow.  Whenever the tail of a flow that has deterministic outputs
   signed returns successfully - MintTokens; createSwapRequest + swap + IncrementKeysetCounter of Receive,
   ReceiveHTLC and ReclaimUnspentProofs; swapToSend with and without spending condition (Send, Melt,
   MintSwap, SendToPubkey, HTLCLockedProofs) - what the mint signed in it is exactly the block of
   outputs derived at the counter that was stored when the flow began, and the stored counter
   afterwards is past that block.
   Partial: these are the three tails through which every signing request of the model goes (the
   SIG_ALL swap of swapToTrusted is swap_in followed by inc_counter as in swap_store); the induction
   over histories - that between two flows no operation lowers the stored counter of an active
   keyset - is not proved. The correspondence compares the stored counters after every operation, and
   the monitors stored-counter-not-past-signed-output / stored-counter-decreased /
   output-resubmitted-after-signed check it on the real wallet. *)
Theorem C19_counter_fresh_mint_partial : forall i m id aks split w a w',
  (Z.to_nat m < length (mints w))%nat ->
  mint_submit i m id aks split w = (ROk a, w') ->
  signed_at w' m = signed_at w m ++ derive i m aks (counter_in w i m aks) split /\
  counter_in w' i m aks = counter_in w i m aks + Z.of_nat (length split).
Proof. exact mint_submit_advances. Qed.
Print Assumptions C19_counter_fresh_mint_partial.

Theorem C19_counter_fresh_receive_partial : forall vr i v ins w a w',
  (Z.to_nat (vw_mint v) < length (mints w))%nat ->
  swap_store vr i v ins w = (ROk a, w') ->
  exists split,
    signed_at w' (vw_mint v) = signed_at w (vw_mint v) ++ derive i (vw_mint v) (vw_act v) (counter_in w i (vw_mint v) (vw_act v)) split /\
    counter_in w' i (vw_mint v) (vw_act v) = counter_in w i (vw_mint v) (vw_act v) + Z.of_nat (length split).
Proof. exact swap_store_advances. Qed.
Print Assumptions C19_counter_fresh_receive_partial.

Theorem C19_counter_fresh_send_partial : forall vr i m aks lock to sa ns n0 inputs split cs w a w',
  (Z.to_nat m < length (mints w))%nat ->
  send_submit vr i m aks lock to sa ns n0 inputs split cs w = (ROk a, w') ->
  let adv := (if lock =? 0 then Z.of_nat (length split) else 0) + Z.of_nat (length cs) in
  signed_at w' m = signed_at w m ++ send_outputs i m aks lock to sa ns n0 split cs (counter_in w i m aks) /\
  counter_in w' i m aks = counter_in w i m aks + adv /\
  (forall o, In o (send_outputs i m aks lock to sa ns n0 split cs (counter_in w i m aks)) -> 0 <= wp_seed o ->
             counter_in w i m aks <= wp_ctr o < counter_in w' i m aks).
Proof. exact send_submit_advances. Qed.
Print Assumptions C19_counter_fresh_send_partial.

(* a block derived at counter c occupies exactly the counters c .. c + n - 1 *)
Theorem C19_block_positions : forall seed m ks split c o,
  In o (derive seed m ks c split) ->
  c <= wp_ctr o < c + Z.of_nat (length (derive seed m ks c split)).
Proof. exact plain_flow_block. Qed.
Print Assumptions C19_block_positions.

(* the honest mint refuses an output it has signed before: a reused (keyset, counter) is never signed twice *)
Theorem C19_no_second_signature : forall mt ins outs mt', mint_swap mt ins outs = Some mt' ->
  forall o, In o outs -> mem_proof o (mn_signed mt) = false.
Proof. exact mint_swap_fresh. Qed.
Print Assumptions C19_no_second_signature.

(* counter_fresh is refuted for a keyset the wallet has no counter for: two SIG_ALL tokens of a mint
   the receiver does not trust, both swapped to its trusted mint - the same (keyset, counter 0) is
   submitted twice (the mint refuses the second swap; the token stays unredeemed). *)
Theorem C19_counter_fresh_untrusted_refuted :
  let w := exec_all repaired untrusted_sigall (init_world [(0, 1); (0, 1)] [0; 1]) in
  Z.of_nat (length (filter (fun r => det_outputs_at r 1 0) (trace w))) = 2 /\
  fst (exec_item repaired (0, OReceive 1 1 true)
         (exec_all repaired (firstn 4 untrusted_sigall) (init_world [(0, 1); (0, 1)] [0; 1]))) = RFail.
Proof. exact untrusted_sigall_reuses_counter. Qed.
Print Assumptions C19_counter_fresh_untrusted_refuted.

(* restore_complete for one keyset: if the counters the mint signed for this seed have no gap of 300
   or more and lie below the scan limit, and no melt is pending at the mint, Restore brings back,
   as spendable + pending, exactly the value of this seed's outputs that are unspent or pending at
   the mint (for every bound N past the counters used).  For either counter rule, any fuel. *)
Theorem C19_restore_complete : forall vr fuel seed m ks w,
  budget w < 0 ->
  let mt := nthZ m (mints w) mint0 in
  quiet mt ->
  no_gap_300 mt seed m ks ->
  (forall c, Z.of_nat (100 * fuel) <= c -> sig mt seed m ks c = None) ->
  exists unspent pend stored w',
    restore_keyset vr fuel seed m ks 0 0 0 [] [] w = (ROk (unspent, pend, stored), w') /\
    forall N, (100 * fuel <= N)%nat -> sum_amt unspent + sum_amt pend = live_below mt seed m ks N.
Proof. exact restore_keyset_complete. Qed.
Print Assumptions C19_restore_complete.

(* restore-then-continue-then-restore with the counter rule of the unchanged code
   (IncrementKeysetCounter(id, counter) with the cumulative counter): more than 200 outputs, restore,
   two more mints, restore again - the second restore misses the new outputs. *)
Theorem C19_restore_twice_refuted :
  let w := exec_all unrepaired restore_twice (init_world [(0, 0)] [0]) in
  check_value unrepaired w 0 < mint_side_value w 0.
Proof. exact restore_twice_misses_unrepaired. Qed.
Print Assumptions C19_restore_twice_refuted.

(* the same history with the repaired rule (increment by the batch delta): complete *)
Example C19_nonvacuous_restore_twice :
  let w := exec_all repaired restore_twice (init_world [(0, 0)] [0]) in
  check_value repaired w 0 = mint_side_value w 0 /\ 0 < mint_side_value w 0.
Proof. vm_compute. split; reflexivity. Qed.
Example C19_nonvacuous_over_200_outputs :
  let w := exec_all repaired many_mints (init_world [(0, 0)] [0]) in
  200 <? Z.of_nat (length (mn_signed (nthZ 0 (mints w) mint0))) = true.
Proof. vm_compute. reflexivity. Qed.
(* requests with deterministic outputs exist in the witness history *)
Example C19_nonvacuous_outputs :
  existsb (fun r => negb (Z.of_nat (length (rq_out r)) =? 0)) (trace (exec_all repaired c08_witness (init_world [(0, 1)] [0; 0]))) = true.
Proof. vm_compute. reflexivity. Qed.
(* the flows succeed: a mint (mint_submit), a send that swaps (send_submit), a receive (swap_store) *)
Example C19_nonvacuous_flows :
  let w0 := init_world [(0, 1)] [0; 0] in
  let '(r1, w1) := exec_item repaired (0, OMint 0 0 1000 true) w0 in
  let '(r2, w2) := exec_item repaired (0, OSendP2PK 0 0 50 false 1 false) w1 in
  let '(r3, w3) := exec_item repaired (0, OReceive 1 0 false) w2 in
  (r1, r2, r3) = (ROk 1000, ROk 50, ROk 50).
Proof. vm_compute. reflexivity. Qed.
