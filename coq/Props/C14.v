(* C14 — Tokens survive serialisation exactly; decoding arbitrary text never crashes.
   Statements only; every proof is `exact <lemma>` into Base/Hex.v, Base/Base64.v and
   Token/TokenProofs.v.

   The model (Token/Token.v) follows cashu/cashu.go function by function.  Hex and base64
   are executable Coq with proved round trips; the two marshalers (encoding/json, cbor)
   are not repository code and appear as universally quantified functions: the round-trip
   theorems hold for every pair obeying marshal3_law / marshal4_law (unmarshal (marshal t)
   = t on tokens whose text fields are valid UTF-8 and whose amounts fit uint64), the
   totality theorems hold for any functions whatsoever. *)
From Coq Require Import ZArith List Bool Permutation.
From Verif Require Import Hex Base64 Token TokenProofs.
Import ListNotations.
Open Scope Z_scope.

(* ----- text layers ----- *)

Theorem C14_hex_roundtrip : forall bs, bytes bs -> hex_decode (hex_encode bs) = Some bs.
Proof. exact hex_decode_encode. Qed.
Print Assumptions C14_hex_roundtrip.

(* decoding accepts both cases; re-encoding gives the lower-case text *)
Theorem C14_hex_lowercases : forall s bs, hex_decode s = Some bs -> hex_encode bs = hex_lower s.
Proof. exact hex_encode_decode. Qed.
Print Assumptions C14_hex_lowercases.

Theorem C14_base64_padded_roundtrip : forall bs, bytes bs -> b64url_decode (b64url_encode bs) = Some bs.
Proof. exact b64url_decode_encode. Qed.
Print Assumptions C14_base64_padded_roundtrip.

Theorem C14_base64_raw_roundtrip : forall bs, bytes bs -> b64rawurl_decode (b64rawurl_encode bs) = Some bs.
Proof. exact b64rawurl_decode_encode. Qed.
Print Assumptions C14_base64_raw_roundtrip.

(* the padded-then-raw attempt of DecodeTokenV3/V4 recovers the bytes of a RAW encoding too:
   the padded decoder either agrees or refuses, it never returns other bytes *)
Theorem C14_base64_any_of_raw : forall bs, bytes bs -> b64_decode_any (b64rawurl_encode bs) = Some bs.
Proof. exact b64_decode_any_rawurl. Qed.
Print Assumptions C14_base64_any_of_raw.

(* ----- decoding any string whatsoever: an error or a token, never a panic ----- *)

Theorem C14_decode_total : forall unmarshal3 unmarshal4 (s : str),
  decode_token unmarshal3 unmarshal4 s <> Panic.
Proof. exact decode_total. Qed.
Print Assumptions C14_decode_total.

(* ... and every accessor can be called on what it returns *)
Theorem C14_accessors_total : forall unmarshal3 unmarshal4 s t,
  decode_token unmarshal3 unmarshal4 s = Ok t ->
  tok_mint t <> Panic /\ tok_proofs t <> Panic /\ tok_amount t <> Panic.
Proof. exact accessors_total. Qed.
Print Assumptions C14_accessors_total.

Theorem C14_serialize_total : forall marshal3 marshal4 t, tok_serialize marshal3 marshal4 t <> Panic.
Proof. exact serialize_total. Qed.
Print Assumptions C14_serialize_total.

(* the guards are what makes this true: the same decoder without the length guard panics
   on every string shorter than the prefix, and Mint() without either V3 guard panics on the
   empty token list (the code as it was before the repairs) *)
Theorem C14_decode_total_needs_guard : forall unmarshal3 unmarshal4 (s : str),
  (length s < 6)%nat -> decode_token_unguarded unmarshal3 unmarshal4 s = Panic.
Proof. exact decode_unguarded_panics. Qed.
Print Assumptions C14_decode_total_needs_guard.

Theorem C14_mint_needs_guard : forall u m, mint_v3_unguarded (mkToken3 [] u m) = Panic.
Proof. exact mint_unguarded_panics. Qed.
Print Assumptions C14_mint_needs_guard.

(* ----- V3 round trip ----- *)

(* building a V3 token from any proofs, serialising and decoding gives back the same token:
   same mint, unit "sat", the same proofs field by field (DLEQ removed iff not requested),
   and the amount is the uint64 sum of the proofs *)
Theorem C14_v3_roundtrip :
  forall marshal3 unmarshal3 unmarshal4, marshal3_law marshal3 unmarshal3 ->
  forall ps mint include_dleq,
  wf_str mint -> Forall wf_proof ps ->
  exists t s,
    new_token_v3 ps mint 0 include_dleq = Ok t /\
    serialize_v3 marshal3 t = Ok s /\
    decode_token unmarshal3 unmarshal4 s = Ok (TV3 t) /\
    tok_mint (TV3 t) = Ok mint /\
    tok_unit (TV3 t) = unit_sat /\
    tok_proofs (TV3 t) = Ok (v3_expected include_dleq ps) /\
    tok_amount (TV3 t) = Ok (total ps mod two64).
Proof. exact v3_roundtrip. Qed.
Print Assumptions C14_v3_roundtrip.

(* ----- V4 round trip ----- *)

(* for every order `ord` in which Go may visit the map of keyset ids: the decoded token has
   the same mint and unit; its proofs are the input proofs regrouped by keyset id (ids in
   some order ks that is a permutation of the distinct input ids, order inside an id
   preserved), hex fields in lower case, DLEQ complete iff requested; no proof lost or
   duplicated; amount = uint64 sum.  Needs: id, C and (when requested) e, s, r are hex and
   r is not empty — exactly when NewTokenV4 returns no error. *)
Theorem C14_v4_roundtrip :
  forall marshal4 unmarshal3 unmarshal4, marshal4_law marshal4 unmarshal4 ->
  forall ord, (forall l, Permutation (ord l) l) ->
  forall ps mint include_dleq,
  wf_str mint -> Forall wf_proof_for_v4 ps -> Forall (hex_proof include_dleq) ps ->
  exists t s ks,
    new_token_v4 ord ps mint 0 include_dleq = Ok t /\
    serialize_v4 marshal4 t = Ok s /\
    decode_token unmarshal3 unmarshal4 s = Ok (TV4 t) /\
    tok_mint (TV4 t) = Ok mint /\
    tok_unit (TV4 t) = unit_sat /\
    Permutation ks (distinct (map p_id ps)) /\
    tok_proofs (TV4 t) = Ok (regroup include_dleq ps ks) /\
    Permutation (regroup include_dleq ps ks) (map (norm_v4 include_dleq) ps) /\
    tok_amount (TV4 t) = Ok (total ps mod two64).
Proof. exact v4_roundtrip. Qed.
Print Assumptions C14_v4_roundtrip.

(* ----- amounts, for every token (decoded or built) ----- *)

Theorem C14_amount_is_sum : forall t ps,
  tok_proofs t = Ok ps -> tok_amount t = Ok (total ps mod two64).
Proof. exact amount_is_sum. Qed.
Print Assumptions C14_amount_is_sum.

(* ----- constructors ----- *)

Theorem C14_constructors_total : forall ord ps mint unit incl,
  new_token_v3 ps mint unit incl <> Panic /\ new_token_v4 ord ps mint unit incl <> Panic.
Proof. exact constructors_total. Qed.
Print Assumptions C14_constructors_total.

(* NewTokenV4 returns a token exactly when id, C and (if requested) the DLEQ parts are hex
   with a non-empty r *)
Theorem C14_v4_constructor_iff : forall ord, (forall l, Permutation (ord l) l) ->
  forall ps mint incl,
  (exists t, new_token_v4 ord ps mint 0 incl = Ok t) <-> Forall (hex_proof incl) ps.
Proof. exact new_v4_ok_iff. Qed.
Print Assumptions C14_v4_constructor_iff.

(* ----- non-vacuity ----- *)

(* a toy marshaler pair to run the decoders on: the payload is the mint URL *)
Definition toy_u3 (b : list Z) : option token_v3 := Some (mkToken3 [mkEntry3 b []] unit_sat []).
Definition toy_u4 (b : list Z) : option token_v4 := Some (mkToken4 [] [] b unit_sat).

(* "abc" and "" are errors; "cashuAQQ==" reaches the V3 unmarshaler with "A"; "cashuBQQ" the V4 one;
   "cashuA=" is refused by both base64 variants *)
Example C14_nonvacuous_decode :
  decode_token toy_u3 toy_u4 [97; 98; 99] = Err /\
  decode_token toy_u3 toy_u4 [] = Err /\
  decode_token toy_u3 toy_u4 [99; 97; 115; 104; 117; 65; 81; 81; 61; 61]
    = Ok (TV3 (mkToken3 [mkEntry3 [65] []] unit_sat [])) /\
  decode_token toy_u3 toy_u4 [99; 97; 115; 104; 117; 66; 81; 81]
    = Ok (TV4 (mkToken4 [] [] [65] unit_sat)) /\
  decode_token toy_u3 toy_u4 [99; 97; 115; 104; 117; 65; 61] = Err /\
  decode_token_unguarded toy_u3 toy_u4 [97; 98; 99] = Panic.
Proof. vm_compute. repeat split. Qed.

(* an unmarshaler that yields an empty token list is turned into an error by DecodeTokenV3 *)
Example C14_nonvacuous_empty_list :
  decode_token (fun _ => Some (mkToken3 [] unit_sat [])) (fun _ => None)
    [99; 97; 115; 104; 117; 65; 81; 81; 61; 61] = Err.
Proof. vm_compute. reflexivity. Qed.

(* a concrete V4 token: ids "AB" / "00", upper-case C, one DLEQ; two proofs of 2^63 wrap to 0+5 *)
Example C14_nonvacuous_v4 :
  let d := mkDleq [65; 65] [98; 98] [48; 49] in                       (* "AA" "bb" "01" *)
  let p1 := mkProof 9223372036854775808 [65; 66] [115] [48; 65] [] (Some d) in   (* id "AB", C "0A" *)
  let p2 := mkProof 5 [48; 48] [116] [102; 102] [119] None in                    (* id "00", C "ff" *)
  let p3 := mkProof 9223372036854775808 [65; 66] [117] [48; 98] [] None in
  match new_token_v4_exec [p1; p2; p3] [109] 0 true with
  | Ok t =>
      tok_proofs (TV4 t) =
        Ok [mkProof 9223372036854775808 [97; 98] [115] [48; 97] [] (Some (mkDleq [97; 97] [98; 98] [48; 49]));
            mkProof 9223372036854775808 [97; 98] [117] [48; 98] [] None;
            mkProof 5 [48; 48] [116] [102; 102] [119] None] /\
      tok_amount (TV4 t) = Ok 5 /\ tok_mint (TV4 t) = Ok [109]
  | _ => False
  end /\
  (* not hex, odd length, DLEQ without r when requested, wrong unit: refused *)
  new_token_v4_exec [mkProof 1 [48; 48] [] [122; 122] [] None] [] 0 true = Err /\
  new_token_v4_exec [mkProof 1 [48] [] [48; 48] [] None] [] 0 true = Err /\
  new_token_v4_exec [mkProof 1 [48; 48] [] [48; 48] [] (Some (mkDleq [48; 48] [48; 48] []))] [] 0 true = Err /\
  new_token_v4_exec [mkProof 1 [48; 48] [] [48; 48] [] (Some (mkDleq [48; 48] [48; 48] []))] [] 0 false <> Err /\
  new_token_v3 [] [] 1 true = Err.
Proof. vm_compute. repeat split; discriminate. Qed.

(* the hypotheses of the round-trip theorems are satisfiable by real inputs *)
Example C14_nonvacuous_hyps :
  let p := mkProof 8 [48; 48; 97; 100] [91; 34; 80; 50; 80; 75; 34; 93; 195; 169] [48; 50] [] None in
  wf_proof p /\ wf_proof_for_v4 p /\ hex_proof true p /\ wf_str [104; 116; 116; 112].
Proof.
  vm_compute. repeat split; try reflexivity; try discriminate.
Qed.
