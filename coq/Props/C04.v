(* C04 — Only genuine mint signatures are honoured, at exactly their signed amount
   Statements only; every proof is `exact <lemma>` into Mint/*.v (model: Mint/Model.v, semantics: Mint/Sem.v). *)
From Coq Require Import ZArith List Bool.
From Verif Require Import Model Sem InvDb InvSwap InvMint InvMelt Corollaries Queries.
Import ListNotations.
Open Scope Z_scope.

Theorem C04_check_proof_iff : forall (mem_ks : list ksrow) (p : proof),
       check_proof mem_ks p = None <->
       p_long p = false /\
       find_ks (p_ks p) mem_ks <> None /\
       is_key_amount (p_amount p) = true /\ p_cond p = true /\ p_C p = CSig (p_ks p) (p_amount p) (p_secret p).
Proof. exact @check_proof_iff. Qed.
Print Assumptions C04_check_proof_iff.

Theorem C04_check_proofs_forall : forall (mem_ks : list ksrow) (ps : list proof),
       check_proofs mem_ks ps = None <-> (forall p : proof, In p ps -> check_proof mem_ks p = None).
Proof. exact @check_proofs_forall. Qed.
Print Assumptions C04_check_proofs_forall.

Theorem C04_swap_accepts_only_genuine : forall (mem_ks : list ksrow) (active : Z) (ins : list proof) (outs : list bmsg) (sg : bool) 
         (w w' : world) (sigs : list srow),
       WInv w ->
       run (swap mem_ks active ins outs sg) no_fault w = (w', Done (Ok sigs)) ->
       forall p : proof,
       In p ins ->
       p_C p = CSig (p_ks p) (p_amount p) (p_secret p) /\
       find_ks (p_ks p) mem_ks <> None /\ is_key_amount (p_amount p) = true /\ p_long p = false /\ p_cond p = true.
Proof. exact @swap_accepts_only_genuine. Qed.
Print Assumptions C04_swap_accepts_only_genuine.

