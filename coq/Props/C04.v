(* C04 - Only genuine mint signatures are honoured, at exactly their signed amount
   Statements only; every proof is `exact <lemma>` into coq/Mint/*.v.

   Reading guide (definitions in coq/Mint/*.v):
     world            = store (tables spent/pending/signatures/mint quotes/melt quotes/keysets) + Lightning environment
                        (invoices, scripted answers, log of pay calls) + the process memory (keysets, active keyset)
     op               = one request (OSwap, OMint, OMelt, OMeltQuote, OMintQuote, OMintState, OMeltState, OCheck, ORestore,
                        ORotate, ORestart, OWatcher, OBalance, OInfo) or environment step (ESettle, EScriptPay/Look, ...)
     op_prog          = the request as a program over storage/Lightning calls, following mint/mint.go call by call
     run p f w        = run program p from world w; f: which call positions get an injected storage error (no_fault: none)
     run_n n p f w    = the same, but the process dies after n calls
     step cfg f w o   = one request run to completion; run_history / reach: a sequential fault-free history from the empty store
     hrun cfg w h     = a history of items: HNormal o | HFault o f | HCrash o n | HConc ops schedule (interleaving at call granularity)
     WInv w           = every table has unique keys (Y, B_, quote ids, keyset ids)
     Good w           = WInv w and no Y is both spent and pending
     wext w w'        = spent and signature tables of w' extend those of w (nothing removed or altered)
     same_but_calls   = nothing changed but the call counter
     settled w h      = the backend reports the own invoice with payment hash h as settled
     ordered b a s p  = on every path of program p (for every response, so for every fault and cut) an event `a` is preceded by an event `b`

*)
From Coq Require Import ZArith List Bool.
From Verif Require Import Model Sem InvDb InvSwap InvMint InvMelt Corollaries Queries Footprint HRel Global GlobalQuote GlobalValue GlobalErr GlobalQuery GlobalMelt GlobalKeys Cuts CutOrder Conc Races GlobalBalance.
Import ListNotations.
Open Scope Z_scope.

Theorem C04_check_proof_iff : forall (mem_ks : list ksrow) (p : proof),
       check_proof mem_ks p = None <->
       p_long p = false /\
       find_ks (p_ks p) mem_ks <> None /\
       is_key_amount (p_amount p) = true /\ p_cond p = true /\ p_C p = CSig (p_ks p) (p_amount p) (p_secret p).
Proof. exact @check_proof_iff. Qed.
Print Assumptions C04_check_proof_iff.

Theorem C04_check_proofs_forall : forall (mem_ks : list ksrow) (ps : list proof),
       check_proofs mem_ks ps = None <-> (forall p : proof, In p ps -> check_proof mem_ks p = None).
Proof. exact @check_proofs_forall. Qed.
Print Assumptions C04_check_proofs_forall.

Theorem C04_swap_accepts_only_genuine : forall (mem_ks : list ksrow) (active : Z) (ins : list proof) (outs : list bmsg) 
         (sg : bool) (w w' : world) (sigs : list srow),
       WInv w ->
       run (swap mem_ks active ins outs sg) no_fault w = (w', Done (Ok sigs)) ->
       forall p : proof,
       In p ins ->
       p_C p = CSig (p_ks p) (p_amount p) (p_secret p) /\
       find_ks (p_ks p) mem_ks <> None /\ is_key_amount (p_amount p) = true /\ p_long p = false /\ p_cond p = true.
Proof. exact @swap_accepts_only_genuine. Qed.
Print Assumptions C04_swap_accepts_only_genuine.

