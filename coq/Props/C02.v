(* C02 — No inflation
   Statements only; every proof is `exact <lemma>` into Mint/*.v (model: Mint/Model.v, semantics: Mint/Sem.v). *)
From Coq Require Import ZArith List Bool.
From Verif Require Import Model Sem InvDb InvSwap InvMint InvMelt Corollaries Queries.
Import ListNotations.
Open Scope Z_scope.

Theorem C02_swap_balanced : forall (mem_ks : list ksrow) (active : Z) (ins : list proof) (outs : list bmsg) (sg : bool) 
         (w w' : world) (sigs : list srow),
       WInv w ->
       run (swap mem_ks active ins outs sg) no_fault w = (w', Done (Ok sigs)) ->
       Forall (fun x : Z => 0 <= x < two64) (map b_amount outs) ->
       tsum (map s_amount sigs) + tx_fees mem_ks ins <= tsum (map p_amount ins).
Proof. exact @swap_balanced. Qed.
Print Assumptions C02_swap_balanced.

Theorem C02_mint_within_quote : forall (mem_ks : list ksrow) (active id : Z) (outs : list bmsg) (sig : Z) (w w' : world) (sigs : list srow),
       WInv w ->
       run (mint_tokens mem_ks active id outs sig) no_fault w = (w', Done (Ok sigs)) ->
       Forall (fun x : Z => 0 <= x < two64) (map b_amount outs) ->
       exists q : mquote, find_mq id (d_mq (w_db w)) = Some q /\ tsum (map s_amount sigs) <= mq_amount q \/ sigs = [].
Proof. exact @mint_within_quote. Qed.
Print Assumptions C02_mint_within_quote.

Theorem C02_melt_burns_enough : forall (cfg : config) (mem_ks : list ksrow) (id : Z) (ins : list proof) (w w' : world) (q' : lquote),
       WInv w ->
       run (melt_tokens cfg mem_ks id ins) no_fault w = (w', Done (Ok q')) ->
       exists q : lquote,
         find_lq id (d_lq (w_db w)) = Some q /\
         add64 (add64 (lq_amount q) (lq_fee q)) (tx_fees mem_ks ins) <= tsum (map p_amount ins).
Proof. exact @melt_burns_enough. Qed.
Print Assumptions C02_melt_burns_enough.

Theorem C02_melt_fee_limit : forall (cfg : config) (mem_ks : list ksrow) (id : Z) (ins : list proof) (w w' : world) (q' : lquote),
       WInv w ->
       run (melt_tokens cfg mem_ks id ins) no_fault w = (w', Done (Ok q')) ->
       exists q : lquote,
         find_lq id (d_lq (w_db w)) = Some q /\
         (l_calls (w_ln w') = l_calls (w_ln w) \/
          l_calls (w_ln w') = l_calls (w_ln w) ++ [the_pay_call cfg q] /\
          (lq_mpp q = false -> pc_maxfee (the_pay_call cfg q) = lq_fee q)).
Proof. exact @melt_fee_limit. Qed.
Print Assumptions C02_melt_fee_limit.

Theorem C02_melt_fee_limit_mpp : forall (cfg : config) (q : lquote),
       0 <= c_feepct cfg ->
       0 <= lq_msat q ->
       lq_mpp q = true ->
       lq_fee q = fee_reserve cfg ((lq_msat q + 999) / 1000) -> pc_maxfee (the_pay_call cfg q) <= lq_fee q.
Proof. exact @melt_fee_limit_mpp. Qed.
Print Assumptions C02_melt_fee_limit_mpp.

Theorem C02_request_melt_quote_fee : forall (cfg : config) (u dc : bool) (req h msat part newid : Z) (w w' : world) (q : lquote),
       run (request_melt_quote cfg u dc req h msat (Some part) newid) no_fault w = (w', Done (Ok q)) ->
       lq_mpp q = true /\
       lq_msat q = part /\ lq_fee q = fee_reserve cfg ((part + 999) / 1000) /\ lq_amount q = (part + 999) / 1000.
Proof. exact @request_melt_quote_fee. Qed.
Print Assumptions C02_request_melt_quote_fee.

