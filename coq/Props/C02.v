(* C02 - No inflation: outstanding ecash plus Lightning outflow never exceeds inflow
   Statements only; every proof is `exact <lemma>` into coq/Mint/*.v.

   Reading guide (definitions in coq/Mint/*.v):
     world            = store (tables spent/pending/signatures/mint quotes/melt quotes/keysets) + Lightning environment
                        (invoices, scripted answers, log of pay calls) + the process memory (keysets, active keyset)
     op               = one request (OSwap, OMint, OMelt, OMeltQuote, OMintQuote, OMintState, OMeltState, OCheck, ORestore,
                        ORotate, ORestart, OWatcher, OBalance, OInfo) or environment step (ESettle, EScriptPay/Look, ...)
     op_prog          = the request as a program over storage/Lightning calls, following mint/mint.go call by call
     run p f w        = run program p from world w; f: which call positions get an injected storage error (no_fault: none)
     run_n n p f w    = the same, but the process dies after n calls
     step cfg f w o   = one request run to completion; run_history / reach: a sequential fault-free history from the empty store
     hrun cfg w h     = a history of items: HNormal o | HFault o f | HCrash o n | HConc ops schedule (interleaving at call granularity)
     WInv w           = every table has unique keys (Y, B_, quote ids, keyset ids)
     Good w           = WInv w and no Y is both spent and pending
     wext w w'        = spent and signature tables of w' extend those of w (nothing removed or altered)
     same_but_calls   = nothing changed but the call counter
     settled w h      = the backend reports the own invoice with payment hash h as settled
     ordered b a s p  = on every path of program p (for every response, so for every fault and cut) an event `a` is preceded by an event `b`

   no_inflation: hypotheses cfg_ok (a melt limit below 2^61 sat is configured, fee reserve <= amount), uint64 request amounts,
   truthful invoice notifications.  vS/vR = true sums of signature/spent amounts, vOut = commitments (amount+fee reserve) of PAID
   melt quotes, esett = 1 iff the backend reports the quote's invoice settled, cnt id cred = internal settlements credited to it.
*)
From Coq Require Import ZArith List Bool.
From Verif Require Import Model Sem InvDb InvSwap InvMint InvMelt Corollaries Queries Footprint HRel Global GlobalQuote GlobalValue GlobalErr GlobalQuery GlobalMelt GlobalKeys Cuts CutOrder Conc Races GlobalBalance GlobalLedger Reconf GlobalPoll Trace Admin AdminProofs CutValue CutMint CutFrames ConcValue CutHistory CutBalance CutLedger.
Import ListNotations.
Open Scope Z_scope.

Theorem C02_no_inflation_ledger : forall (cfg : config) (h : list op),
       cfg_ok cfg ->
       honest cfg world0 h ->
       Forall op_u64 h ->
       ln_ok cfg world0 h ->
       let
       '(w, ip) := ltrace cfg world0 h [] in
        vS w + ext_out w (map fst ip) <= vR w + per_quote (esett w) (d_mq (w_db w)) /\
        NoDup (map fst ip) /\
        (forall p : Z * Z, In p ip -> exists q : lquote, In q (d_lq (w_db w)) /\ lq_id q = fst p /\ lq_state q = 2).
Proof. exact @no_inflation_ledger. Qed.
Print Assumptions C02_no_inflation_ledger.

Theorem C02_ledger_history_ok : cfg_ok ledger_cfg /\
       honest ledger_cfg world0 ledger_history /\
       Forall op_u64 ledger_history /\
       ln_ok ledger_cfg world0 ledger_history /\
       (let
        '(w, ip) := ltrace ledger_cfg world0 ledger_history [] in
         ip = [(113, 111)] /\
         (vS w, vR w, ext_out w (map fst ip), per_quote (esett w) (d_mq (w_db w))) = (96, 64, 0, 64)).
Proof. exact @ledger_history_ok. Qed.
Print Assumptions C02_ledger_history_ok.

Theorem C02_no_inflation : forall (cfg : config) (h : list op),
       cfg_ok cfg ->
       honest cfg world0 h ->
       Forall op_u64 h ->
       let
       '(w, _, cred) := qtrace cfg world0 h [] [] in
        vS w + vOut w <= vR w + per_quote (fun m : mquote => esett w m + cnt (mq_id m) cred) (d_mq (w_db w)) /\
        (forall q : lquote,
         In q (d_lq (w_db w)) -> lq_state q = 1 -> lq_amount q + lq_fee q <= rows_sum (lq_id q) (w_db w)) /\
        (forall q : lquote, In q (d_lq (w_db w)) -> lq_state q <> 1 -> rows_of_quote (lq_id q) (w_db w) = []).
Proof. exact @no_inflation. Qed.
Print Assumptions C02_no_inflation.

Theorem C02_no_inflation_reconf : forall (segs : list (config * list op)) (w : world) (iss cred : list Z),
       segs_ok w segs ->
       QInv w iss cred ->
       VI iss w ->
       let
       '(w', iss', cred') := qtrace_cfgs w segs iss cred in
        QInv w' iss' cred' /\
        VI iss' w' /\
        vS w' + vOut w' <= vR w' + per_quote (fun m : mquote => esett w' m + cnt (mq_id m) cred') (d_mq (w_db w')).
Proof. exact @no_inflation_reconf. Qed.
Print Assumptions C02_no_inflation_reconf.

Theorem C02_no_inflation_ledger_reconf : forall (segs : list (config * list op)) (w : world) (iss : list Z) (ip : list (Z * Z)),
       segs_ok w segs ->
       segs_ln_ok w segs ->
       QInv w iss (map snd ip) ->
       VI iss w ->
       LI ip w ->
       let
       '(w', ip') := ltrace_cfgs w segs ip in
        vS w' + ext_out w' (map fst ip') <= vR w' + per_quote (esett w') (d_mq (w_db w')).
Proof. exact @no_inflation_ledger_reconf. Qed.
Print Assumptions C02_no_inflation_ledger_reconf.

Theorem C02_no_inflation_ledger_with_cuts : forall (cfg : config) (h : list hitem),
       cfg_ok cfg ->
       Forall cut_item h ->
       hhonest cfg world0 h ->
       Forall item_u64 h ->
       hln_ok cfg world0 h ->
       let w := hrun cfg world0 h in
       let ip := snd (hltrace cfg world0 h []) in
       vS w + ext_out w (map fst ip) <= vR w + per_quote (esett w) (d_mq (w_db w)) /\
       NoDup (map fst ip) /\
       (forall p : Z * Z, In p ip -> exists q : lquote, In q (d_lq (w_db w)) /\ lq_id q = fst p /\ lq_state q = 2).
Proof. exact @no_inflation_ledger_with_cuts. Qed.
Print Assumptions C02_no_inflation_ledger_with_cuts.

Theorem C02_cut_ledger_history_ok : cfg_ok ledger_cfg /\
       Forall cut_item cut_history /\
       hhonest ledger_cfg world0 cut_history /\
       Forall item_u64 cut_history /\
       hln_ok ledger_cfg world0 cut_history /\
       (let w := hrun ledger_cfg world0 cut_history in
        (vS w, ext_out w (map fst (snd (hltrace ledger_cfg world0 cut_history []))), vR w,
         per_quote (esett w) (d_mq (w_db w))) = (128, 0, 112, 176)).
Proof. exact @cut_ledger_history_ok. Qed.
Print Assumptions C02_cut_ledger_history_ok.

Theorem C02_no_inflation_with_cuts : forall (cfg : config) (h : list hitem),
       cfg_ok cfg ->
       Forall cut_item h ->
       hhonest cfg world0 h ->
       Forall item_u64 h ->
       let w := hrun cfg world0 h in
       let
       '(_, _, cred) := htrace cfg world0 h [] [] in
        vS w + vOut w <= vR w + per_quote (fun m : mquote => esett w m + cnt (mq_id m) cred) (d_mq (w_db w)) /\
        (forall q : lquote,
         In q (d_lq (w_db w)) -> lq_state q = 1 -> lq_amount q + lq_fee q <= rows_sum (lq_id q) (w_db w)) /\
        (forall q : lquote, In q (d_lq (w_db w)) -> lq_state q <> 1 -> rows_of_quote (lq_id q) (w_db w) = []).
Proof. exact @no_inflation_with_cuts. Qed.
Print Assumptions C02_no_inflation_with_cuts.

Theorem C02_swap_cut_no_value_created : forall (mem_ks : list ksrow) (active : Z) (ins : list proof) (outs : list bmsg) 
         (sg : bool) (n : nat) (f : oracle) (w : world),
       Forall (fun x : Z => 0 <= x < two64) (map b_amount outs) ->
       let w' := fst (run_n n (swap mem_ks active ins outs sg) f w) in vS w' - vS w <= vR w' - vR w.
Proof. exact @swap_cut_no_value_created. Qed.
Print Assumptions C02_swap_cut_no_value_created.

Theorem C02_concurrent_swaps_never_inflate : forall (cfg : config) (w : world) (ops : list op) (sched : list nat),
       Forall calm ops ->
       let w0 := reset_calls w in
       let ts := map (op_prog cfg (w_mem w0) (w_active w0)) ops in
       (forall k : nat,
        vS (fst (interleave (firstn k sched) ts w0)) - vR (fst (interleave (firstn k sched) ts w0)) <= vS w - vR w) /\
       vS (fst (run_concurrent cfg w ops sched)) - vR (fst (run_concurrent cfg w ops sched)) <= vS w - vR w.
Proof. exact @concurrent_swaps_never_inflate. Qed.
Print Assumptions C02_concurrent_swaps_never_inflate.

Theorem C02_swap_cut_signatures_imply_spent : forall (mem_ks : list ksrow) (active : Z) (ins : list proof) (outs : list bmsg) 
         (sg : bool) (n : nat) (f : oracle) (w : world),
       let w' := fst (run_n n (swap mem_ks active ins outs sg) f w) in
       d_sigs (w_db w') <> d_sigs (w_db w) -> incl (map (to_row 0) ins) (d_spent (w_db w')).
Proof. exact @swap_cut_signatures_imply_spent. Qed.
Print Assumptions C02_swap_cut_signatures_imply_spent.

Theorem C02_swap_balanced : forall (mem_ks : list ksrow) (active : Z) (ins : list proof) (outs : list bmsg) 
         (sg : bool) (w w' : world) (sigs : list srow),
       WInv w ->
       run (swap mem_ks active ins outs sg) no_fault w = (w', Done (Ok sigs)) ->
       Forall (fun x : Z => 0 <= x < two64) (map b_amount outs) ->
       tsum (map s_amount sigs) + tx_fees mem_ks ins <= tsum (map p_amount ins).
Proof. exact @swap_balanced. Qed.
Print Assumptions C02_swap_balanced.

Theorem C02_mint_within_quote : forall (mem_ks : list ksrow) (active id : Z) (outs : list bmsg) (sig : Z) (w w' : world) (sigs : list srow),
       WInv w ->
       run (mint_tokens mem_ks active id outs sig) no_fault w = (w', Done (Ok sigs)) ->
       Forall (fun x : Z => 0 <= x < two64) (map b_amount outs) ->
       exists q : mquote,
         find_mq id (d_mq (w_db w)) = Some q /\ tsum (map s_amount sigs) <= mq_amount q \/ sigs = [].
Proof. exact @mint_within_quote. Qed.
Print Assumptions C02_mint_within_quote.

Theorem C02_melt_burns_enough : forall (cfg : config) (mem_ks : list ksrow) (id : Z) (ins : list proof) (w w' : world) (q' : lquote),
       WInv w ->
       run (melt_tokens cfg mem_ks id ins) no_fault w = (w', Done (Ok q')) ->
       exists q : lquote,
         find_lq id (d_lq (w_db w)) = Some q /\
         add64 (add64 (lq_amount q) (lq_fee q)) (tx_fees mem_ks ins) <= tsum (map p_amount ins).
Proof. exact @melt_burns_enough. Qed.
Print Assumptions C02_melt_burns_enough.

Theorem C02_validated_covers : forall (mem_ks : list ksrow) (q : lquote) (ins : list proof) (w : world),
       0 <= lq_amount q ->
       0 <= lq_fee q ->
       lq_amount q + lq_fee q < two63 ->
       melt_validated mem_ks q ins w -> lq_amount q + lq_fee q <= tsum (map p_amount ins).
Proof. exact @validated_covers. Qed.
Print Assumptions C02_validated_covers.

Theorem C02_melt_fee_limit : forall (cfg : config) (mem_ks : list ksrow) (id : Z) (ins : list proof) (w w' : world) (q' : lquote),
       WInv w ->
       run (melt_tokens cfg mem_ks id ins) no_fault w = (w', Done (Ok q')) ->
       exists q : lquote,
         find_lq id (d_lq (w_db w)) = Some q /\
         (l_calls (w_ln w') = l_calls (w_ln w) \/
          l_calls (w_ln w') = l_calls (w_ln w) ++ [the_pay_call cfg q] /\
          (lq_mpp q = false -> pc_maxfee (the_pay_call cfg q) = lq_fee q)).
Proof. exact @melt_fee_limit. Qed.
Print Assumptions C02_melt_fee_limit.

Theorem C02_melt_fee_limit_mpp : forall (cfg : config) (q : lquote),
       0 <= c_feepct cfg ->
       0 <= lq_msat q ->
       lq_mpp q = true ->
       lq_fee q = fee_reserve cfg ((lq_msat q + 999) / 1000) -> pc_maxfee (the_pay_call cfg q) <= lq_fee q.
Proof. exact @melt_fee_limit_mpp. Qed.
Print Assumptions C02_melt_fee_limit_mpp.

Theorem C02_request_melt_quote_fee : forall (cfg : config) (u dc : bool) (req h msat part newid : Z) (w w' : world) (q : lquote),
       run (request_melt_quote cfg u dc req h msat (Some part) newid) no_fault w = (w', Done (Ok q)) ->
       lq_mpp q = true /\
       lq_msat q = part /\ lq_fee q = fee_reserve cfg ((part + 999) / 1000) /\ lq_amount q = (part + 999) / 1000.
Proof. exact @request_melt_quote_fee. Qed.
Print Assumptions C02_request_melt_quote_fee.

Theorem C02_melt_amount_must_fit : forall (cfg : config) (mpp : option Z) (req h msat newid : Z) (w : world),
       msat <= 0 \/ two63 <= msat ->
       run (request_melt_quote cfg true true req h msat mpp newid) no_fault w = (w, Done (Err EInvoice)).
Proof. exact @melt_amount_must_fit. Qed.
Print Assumptions C02_melt_amount_must_fit.

