(* Extraction of the executable model.  Compiled outside the main build, in the
   directory where model.ml is wanted.  The directives in force are exactly those
   of the two standard files below plus the three bitwise ones listed here;
   they are enumerated in /verif/TRUSTED.md. *)
From Coq Require Import ZArith.
From Coq Require Import ExtrOcamlBasic ExtrOcamlZBigInt.
From Verif Require Import Sexp Run.

Extract Constant Z.land => "Big_int_Z.and_big_int".
Extract Constant Z.lor => "Big_int_Z.or_big_int".
Extract Constant Z.lxor => "Big_int_Z.xor_big_int".

Extraction "model.ml" run_case.
