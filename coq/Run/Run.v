(* Entry point of the extracted runner: one case in, one observation out.
   The first integer of a case selects the model family. *)
From Coq Require Import ZArith List.
From Verif Require Import Sexp CondCodec TokenCodec SelectCodec CryptoCodec MintCodec HttpCodec WCodec.
Import ListNotations.
Open Scope Z_scope.

Definition run_case (c : sexp) : sexp :=
  match c with
  | L [A 1; x] => run_cond x
  | L [A 2; x] => run_token x
  | L [A 3; x] => run_select x
  | L [A 4; x] => run_crypto x
  | L [A 5; x] => run_mint x
  | L [A 6; x] => run_http x
  | L [A 7; x] => run_wallet x
  | _ => bad_case
  end.
