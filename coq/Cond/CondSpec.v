(* Declarative specification of NUT-11 / NUT-14 acceptance and the proof that the
   implementation-shaped evaluators of Cond.v decide exactly it. *)
From Coq Require Import ZArith List Bool Lia Permutation.
From Verif Require Import Cond.
Import ListNotations.
Open Scope Z_scope.

(* ---------- the independent evaluator: who signed ---------- *)

Definition has_sig (msg : Z) (sigs : list sigt) (k : Z) : bool :=
  existsb (fun s => sig_valid msg s k) sigs.

(* the set of authorised keys that have at least one valid signature in the witness *)
Definition signers (msg : Z) (sigs : list sigt) (keys : list Z) : list Z :=
  nodup Z.eq_dec (filter (has_sig msg sigs) keys).

Definition n_signers (msg : Z) (sigs : list sigt) (keys : list Z) : Z :=
  Z.of_nat (length (signers msg sigs keys)).

Definition NoDupSigs (sigs : list sigt) : Prop := dup_sigs sigs = false.

Definition expired (now : Z) (pt : ptags) : Prop := 0 < pt_locktime pt /\ pt_locktime pt < now.

(* refund rule, shared by P2PK and HTLC *)
Definition refund_spec (msg : Z) (pt : ptags) (w : witness) : Prop :=
  pt_refund pt = [] \/ 1 <= n_signers msg (wit_sigs w) (pt_refund pt).

Definition p2pk_spec (now msg : Z) (d : datat) (ts : list tag) (w : witness) : Prop :=
  exists pt, parse_tags ts = Some pt /\
  ((expired now pt /\ refund_spec msg pt w) \/
   (~ expired now pt /\
    exists pk, d = DKey (KGood pk) /\
    wit_sigs w <> [] /\ NoDupSigs (wit_sigs w) /\
    ((0 < pt_nsigs pt /\
      pt_nsigs pt <= n_signers msg (wit_sigs w) (pk :: pt_pubkeys pt)) \/
     (pt_nsigs pt <= 0 /\ 1 <= n_signers msg (wit_sigs w) [pk])))).

Definition htlc_spec (now msg : Z) (d : datat) (ts : list tag) (w : witness) : Prop :=
  exists pt, parse_tags ts = Some pt /\
  ((expired now pt /\ refund_spec msg pt w) \/
   (~ expired now pt /\
    (exists h, wit_preimage w = PHex h /\ d = DHash h true) /\
    (pt_nsigs pt <= 0 \/
     (0 < pt_nsigs pt /\ wit_sigs w <> [] /\ NoDupSigs (wit_sigs w) /\
      pt_nsigs pt <= n_signers msg (wit_sigs w) (pt_pubkeys pt))))).

(* ---------- greedy loop = number of distinct signers ---------- *)

Lemma first_match_some msg s keys k :
  first_match msg s keys = Some k -> In k keys /\ sig_valid msg s k = true.
Proof.
  induction keys as [|k0 r IH]; cbn [first_match]; [discriminate|].
  destruct (sig_valid msg s k0) eqn:E.
  - intros H; inversion H; subst. split; [left; reflexivity|exact E].
  - intros H. destruct (IH H) as [Hin Hv]. split; [right; exact Hin|exact Hv].
Qed.

Lemma first_match_none msg s keys :
  first_match msg s keys = None -> forall k, In k keys -> sig_valid msg s k = false.
Proof.
  induction keys as [|k0 r IH]; cbn [first_match]; intros H k Hin; [destruct Hin|].
  destruct (sig_valid msg s k0) eqn:E; [discriminate|].
  destruct Hin as [->|Hin]; [exact E|apply IH; assumption].
Qed.

Lemma sig_valid_unique msg s k k' :
  sig_valid msg s k = true -> sig_valid msg s k' = true -> k = k'.
Proof.
  destruct s as [ks m n|id]; cbn [sig_valid]; [|discriminate].
  intros H1 H2. apply andb_true_iff in H1 as [H1 _]. apply andb_true_iff in H2 as [H2 _].
  apply Z.eqb_eq in H1, H2. lia.
Qed.

Lemma in_remove_key k x keys : In x (remove_key k keys) <-> In x keys /\ x <> k.
Proof.
  unfold remove_key. rewrite filter_In. split.
  - intros [Hin Hne]. split; [exact Hin|]. apply negb_true_iff in Hne. apply Z.eqb_neq in Hne. exact Hne.
  - intros [Hin Hne]. split; [exact Hin|]. apply negb_true_iff. apply Z.eqb_neq. exact Hne.
Qed.

Lemma in_signers msg sigs keys x :
  In x (signers msg sigs keys) <-> In x keys /\ has_sig msg sigs x = true.
Proof. unfold signers. rewrite nodup_In, filter_In. reflexivity. Qed.

Lemma count_valid_signers msg sigs : forall keys,
  count_valid msg sigs keys = n_signers msg sigs keys.
Proof.
  induction sigs as [|s r IH]; intros keys.
  - cbn [count_valid]. unfold n_signers, signers, has_sig. cbn [existsb].
    replace (filter (fun _ : Z => false) keys) with (@nil Z); [reflexivity|].
    induction keys as [|k ks IHk]; [reflexivity|cbn [filter]; exact IHk].
  - cbn [count_valid]. destruct (first_match msg s keys) as [k|] eqn:E.
    + destruct (first_match_some _ _ _ _ E) as [Hin Hv].
      rewrite IH. unfold n_signers.
      assert (P : Permutation (signers msg (s :: r) keys) (k :: signers msg r (remove_key k keys))).
      { apply NoDup_Permutation.
        - apply NoDup_nodup.
        - constructor; [|apply NoDup_nodup].
          rewrite in_signers, in_remove_key. intros [[_ Hne] _]. apply Hne; reflexivity.
        - intros x. rewrite in_signers. cbn [In]. rewrite in_signers, in_remove_key.
          unfold has_sig. cbn [existsb]. split.
          + intros [Hx Hs]. destruct (Z.eq_dec k x) as [->|Hne]; [left; reflexivity|right].
            apply orb_true_iff in Hs as [Hs|Hs].
            * exfalso. apply Hne. eapply sig_valid_unique; eassumption.
            * split; [split; [exact Hx|intro; apply Hne; symmetry; assumption]|exact Hs].
          + intros [<-|[[Hx Hne] Hs]].
            * split; [exact Hin|]. rewrite Hv. reflexivity.
            * split; [exact Hx|]. rewrite Hs. apply orb_true_r. }
      apply Permutation_length in P. rewrite P. cbn [length]. lia.
    + rewrite IH. unfold n_signers, signers. f_equal. f_equal. f_equal.
      apply filter_ext_in. intros x Hx. unfold has_sig. cbn [existsb].
      rewrite (first_match_none _ _ _ E x Hx). reflexivity.
Qed.

Lemma has_valid_sigs_spec msg sigs n keys :
  has_valid_sigs msg sigs n keys = true <-> n <= n_signers msg sigs keys.
Proof. unfold has_valid_sigs. rewrite count_valid_signers. apply Z.leb_le. Qed.

(* ---------- evaluator = spec ---------- *)

Lemma is_nil_true {X} (l : list X) : is_nil l = true <-> l = [].
Proof. destruct l; cbn; split; congruence. Qed.
Lemma is_nil_false {X} (l : list X) : is_nil l = false <-> l <> [].
Proof. destruct l; cbn; split; congruence. Qed.

Lemma expired_dec now pt :
  ((0 <? pt_locktime pt) && (pt_locktime pt <? now) = true <-> expired now pt).
Proof.
  unfold expired. rewrite andb_true_iff, !Z.ltb_lt. reflexivity.
Qed.

Lemma n_signers_nil msg keys : n_signers msg [] keys = 0.
Proof. rewrite <- count_valid_signers. reflexivity. Qed.

Lemma refund_dec msg pt w :
  (if is_nil (pt_refund pt) then true
   else if is_nil (wit_sigs w) then false
   else has_valid_sigs msg (wit_sigs w) 1 (pt_refund pt)) = true <-> refund_spec msg pt w.
Proof.
  unfold refund_spec.
  destruct (is_nil (pt_refund pt)) eqn:Er.
  - apply is_nil_true in Er. split; [intros _; left; exact Er|reflexivity].
  - apply is_nil_false in Er. destruct (is_nil (wit_sigs w)) eqn:Es.
    + apply is_nil_true in Es. rewrite Es, n_signers_nil. split; [discriminate|].
      intros [H|H]; [contradiction|lia].
    + rewrite has_valid_sigs_spec. split; [intros H; right; exact H|].
      intros [H|H]; [contradiction|exact H].
Qed.

Theorem verify_p2pk_iff now msg d ts w :
  verify_p2pk now msg d ts w = true <-> p2pk_spec now msg d ts w.
Proof.
  unfold verify_p2pk, p2pk_spec.
  destruct (parse_tags ts) as [pt|] eqn:Ept.
  2:{ split; [discriminate|]. intros [pt [H _]]; discriminate. }
  destruct ((0 <? pt_locktime pt) && (pt_locktime pt <? now)) eqn:Eexp.
  - apply expired_dec in Eexp. rewrite refund_dec. split.
    + intros H. exists pt. split; [reflexivity|]. left. split; assumption.
    + intros [pt' [Hp [[_ H]|[Hn _]]]]; inversion Hp; subst; [exact H|contradiction].
  - assert (Hne : ~ expired now pt).
    { intro H. apply expired_dec in H. congruence. }
    split.
    + intros H. exists pt. split; [reflexivity|]. right. split; [exact Hne|].
      destruct d as [[pk|]|h l]; try discriminate.
      exists pk. split; [reflexivity|].
      destruct (0 <? pt_nsigs pt) eqn:En.
      * apply Z.ltb_lt in En.
        destruct (is_nil (wit_sigs w)) eqn:Es; [discriminate|].
        destruct (dup_sigs (wit_sigs w)) eqn:Ed; [discriminate|].
        apply is_nil_false in Es. apply has_valid_sigs_spec in H.
        split; [exact Es|]. split; [exact Ed|]. left. repeat split; assumption.
      * apply Z.ltb_ge in En.
        destruct (is_nil (wit_sigs w)) eqn:Es; [discriminate|].
        destruct (dup_sigs (wit_sigs w)) eqn:Ed; [discriminate|].
        apply is_nil_false in Es. apply has_valid_sigs_spec in H.
        split; [exact Es|]. split; [exact Ed|]. right. split; assumption.
    + intros [pt' [Hp [[He _]|[_ [pk [Hd [Hs [Hdup Hc]]]]]]]]; inversion Hp; subst pt'; [contradiction|].
      subst d. apply is_nil_false in Hs. unfold NoDupSigs in Hdup.
      destruct Hc as [[Hn Hc]|[Hn Hc]].
      * apply Z.ltb_lt in Hn. rewrite Hn. rewrite Hs, Hdup.
        apply has_valid_sigs_spec. exact Hc.
      * apply Z.ltb_ge in Hn. rewrite Hn, Hs, Hdup. apply has_valid_sigs_spec. exact Hc.
Qed.

Lemma preimage_ok_iff d p :
  preimage_ok d p = true <-> exists h, p = PHex h /\ d = DHash h true.
Proof.
  unfold preimage_ok. destruct p as [h|]; [|split; [discriminate|intros [h [H _]]; discriminate]].
  destruct d as [k|h' [|]].
  - split; [discriminate|intros [x [_ H]]; discriminate].
  - rewrite Z.eqb_eq. split.
    + intros ->. exists h'. split; reflexivity.
    + intros [x [H1 H2]]. inversion H1; inversion H2; subst. reflexivity.
  - split; [discriminate|intros [x [_ H]]; discriminate].
Qed.

Theorem verify_htlc_iff now msg d ts w :
  verify_htlc now msg d ts w = true <-> htlc_spec now msg d ts w.
Proof.
  unfold verify_htlc, htlc_spec.
  destruct (parse_tags ts) as [pt|] eqn:Ept.
  2:{ split; [discriminate|]. intros [pt [H _]]; discriminate. }
  destruct ((0 <? pt_locktime pt) && (pt_locktime pt <? now)) eqn:Eexp.
  - apply expired_dec in Eexp. rewrite refund_dec. split.
    + intros H. exists pt. split; [reflexivity|]. left. split; assumption.
    + intros [pt' [Hp [[_ H]|[Hn _]]]]; inversion Hp; subst; [exact H|contradiction].
  - assert (Hne : ~ expired now pt).
    { intro H. apply expired_dec in H. congruence. }
    split.
    + intros H. exists pt. split; [reflexivity|]. right. split; [exact Hne|].
      destruct (preimage_ok d (wit_preimage w)) eqn:Ep; [|discriminate].
      apply preimage_ok_iff in Ep. split; [exact Ep|].
      destruct (0 <? pt_nsigs pt) eqn:En.
      * apply Z.ltb_lt in En. right.
        destruct (is_nil (wit_sigs w)) eqn:Es; [discriminate|].
        destruct (dup_sigs (wit_sigs w)) eqn:Ed; [discriminate|].
        apply is_nil_false in Es. apply has_valid_sigs_spec in H.
        repeat split; assumption.
      * apply Z.ltb_ge in En. left. exact En.
    + intros [pt' [Hp [[He _]|[_ [Hpre Hc]]]]]; inversion Hp; subst pt'; [contradiction|].
      apply preimage_ok_iff in Hpre. rewrite Hpre.
      destruct Hc as [Hn|[Hn [Hs [Hdup Hc]]]].
      * apply Z.ltb_ge in Hn. rewrite Hn. reflexivity.
      * apply Z.ltb_lt in Hn. rewrite Hn. apply is_nil_false in Hs. unfold NoDupSigs in Hdup.
        rewrite Hs, Hdup. apply has_valid_sigs_spec. exact Hc.
Qed.

(* ---------- SIG_ALL ---------- *)

(* every output carries enough valid signatures over its own B_ (and the preimage for HTLC) *)
Definition output_signed (k : kind) (d : datat) (keys : list Z) (req : Z) (o : output) : Prop :=
  out_hex o = true /\ out_wit o <> WNone /\ NoDupSigs (wit_sigs (out_wit o)) /\
  req <= n_signers (out_msg o) (wit_sigs (out_wit o)) keys /\
  match k with
  | KP2PK => True
  | KHTLC => exists h, wit_preimage (out_wit o) = PHex h /\ d = DHash h true
  | KOther => False
  end.

(* all inputs carry the same condition as the first one *)
Definition inputs_uniform (keys : list Z) (req : Z) (ins : list input) : Prop :=
  forall i, In i ins ->
    exists k d ts, in_secret i = SNut10 k d ts /\ is_sig_all_tags ts = true /\
                   public_keys k d ts = Some keys /\ sigs_required ts = Some req.

Lemma list_Z_eqb_eq a b : list_Z_eqb a b = true -> a = b.
Proof.
  unfold list_Z_eqb. revert b. induction a as [|x a IH]; intros [|y b]; cbn; try discriminate; [reflexivity|].
  intros H. apply andb_true_iff in H as [Hl H]. apply andb_true_iff in H as [Hxy H].
  apply Z.eqb_eq in Hxy. subst y. f_equal. apply IH. cbn in Hl. unfold list_Z_eqb. rewrite Hl, H. reflexivity.
Qed.

Lemma same_condition_spec keys req i :
  same_condition keys req i = true ->
  exists k d ts, in_secret i = SNut10 k d ts /\ is_sig_all_tags ts = true /\
                 public_keys k d ts = Some keys /\ sigs_required ts = Some req.
Proof.
  unfold same_condition. destruct (in_secret i) as [|k d ts]; [discriminate|].
  destruct (is_sig_all_tags ts) eqn:Ea; [|discriminate].
  destruct (sigs_required ts) as [r|] eqn:Er; [|discriminate].
  destruct (public_keys k d ts) as [ks|] eqn:Ek; [|discriminate].
  intros H. apply andb_true_iff in H as [H1 H2]. apply list_Z_eqb_eq in H1. apply Z.eqb_eq in H2. subst.
  exists k, d, ts. repeat split; assumption.
Qed.

Lemma output_ok_spec k d keys req o :
  output_ok k d keys req o = true -> output_signed k d keys req o.
Proof.
  unfold output_ok, output_signed. destruct (out_hex o); [|discriminate].
  destruct k.
  - destruct (out_wit o) as [|s|p s] eqn:Ew; [discriminate| |];
      cbn [wit_sigs]; destruct (dup_sigs s) eqn:Ed; try discriminate;
      intros H; apply has_valid_sigs_spec in H; repeat split; try assumption; discriminate.
  - destruct (out_wit o) as [|s|p s] eqn:Ew; [discriminate| |].
    + destruct (preimage_ok d (wit_preimage (WP2PK s))) eqn:Ep; [|discriminate].
      cbn [wit_sigs]. destruct (dup_sigs s) eqn:Ed; [discriminate|].
      intros H. apply has_valid_sigs_spec in H. apply preimage_ok_iff in Ep.
      repeat split; try assumption; discriminate.
    + destruct (preimage_ok d (wit_preimage (WHTLC p s))) eqn:Ep; [|discriminate].
      cbn [wit_sigs]. destruct (dup_sigs s) eqn:Ed; [discriminate|].
      intros H. apply has_valid_sigs_spec in H. apply preimage_ok_iff in Ep.
      repeat split; try assumption; discriminate.
  - discriminate.
Qed.

(* If any input (at any position) carries SIG_ALL and the swap's condition checks pass,
   then all inputs carry one and the same SIG_ALL condition and every output is signed. *)
Theorem sigall_swap now ins outs :
  (exists i, In i ins /\ is_sig_all (in_secret i) = true) ->
  swap_conditions now ins outs = true ->
  exists k d keys req,
    inputs_uniform keys req ins /\
    (forall o, In o outs -> output_signed k d keys req o) /\
    (forall i, In i ins -> verify_condition now (in_msg i) (in_secret i) (in_wit i) = true).
Proof.
  intros [i [Hin Hall]] H. unfold swap_conditions in H.
  apply andb_true_iff in H as [Hver H].
  assert (Hpsa : proofs_sig_all ins = true).
  { unfold proofs_sig_all. apply existsb_exists. exists i. split; assumption. }
  rewrite Hpsa in H. unfold verify_blinded_messages in H.
  destruct ins as [|i0 r]; [discriminate|].
  destruct (in_secret i0) as [|k d ts] eqn:E0; [discriminate|].
  destruct (public_keys k d ts) as [keys|] eqn:Ek; [|discriminate].
  destruct (sigs_required ts) as [req|] eqn:Er; [|discriminate].
  apply andb_true_iff in H as [Hsame Houts].
  exists k, d, keys, req. split; [|split].
  - intros j Hj. apply same_condition_spec. rewrite forallb_forall in Hsame. apply Hsame. exact Hj.
  - intros o Ho. apply output_ok_spec. rewrite forallb_forall in Houts. apply Houts. exact Ho.
  - intros j Hj. rewrite forallb_forall in Hver. apply Hver. exact Hj.
Qed.

(* without any SIG_ALL input the outputs are not looked at *)
Theorem no_sigall_swap now ins outs :
  proofs_sig_all ins = false ->
  swap_conditions now ins outs =
  forallb (fun i => verify_condition now (in_msg i) (in_secret i) (in_wit i)) ins.
Proof. intros H. unfold swap_conditions. rewrite H. apply andb_true_r. Qed.

Theorem sigall_no_melt now ins :
  (exists i, In i ins /\ is_sig_all (in_secret i) = true) ->
  melt_conditions now ins = false.
Proof.
  intros [i [Hin Hall]]. unfold melt_conditions.
  replace (proofs_sig_all ins) with true; [apply andb_false_r|].
  symmetry. unfold proofs_sig_all. apply existsb_exists. exists i. split; assumption.
Qed.

(* ---------- the helpers' canonical witnesses are accepted ---------- *)

Lemma n_signers_single msg k n keys :
  In k keys -> 1 <= n_signers msg [SigOk k msg n] keys.
Proof.
  intros Hin. unfold n_signers.
  assert (Hs : In k (signers msg [SigOk k msg n] keys)).
  { apply in_signers. split; [exact Hin|]. unfold has_sig. cbn [existsb sig_valid].
    rewrite !Z.eqb_refl. reflexivity. }
  destruct (signers msg [SigOk k msg n] keys); [destruct Hs|cbn [length]; lia].
Qed.

(* AddSignatureToInputs by the lock key, single-signer lock, before the locktime *)
Theorem helper_p2pk_input_accepted now pk nonce i ts pt :
  in_secret i = SNut10 KP2PK (DKey (KGood pk)) ts ->
  parse_tags ts = Some pt -> ~ expired now pt ->
  (pt_nsigs pt <= 1) ->
  let i' := helper_p2pk_input pk nonce i in
  verify_condition now (in_msg i') (in_secret i') (in_wit i') = true.
Proof.
  intros Hs Hp Hne Hn i'. unfold i', helper_p2pk_input. cbn [in_msg in_secret in_wit].
  rewrite Hs. cbn [verify_condition]. apply verify_p2pk_iff. exists pt. split; [exact Hp|].
  right. split; [exact Hne|]. exists pk. split; [reflexivity|]. cbn [wit_sigs].
  split; [discriminate|]. split; [reflexivity|].
  destruct (Z_lt_dec 0 (pt_nsigs pt)) as [Hpos|Hnp].
  - left. split; [exact Hpos|].
    etransitivity; [exact Hn|]. apply n_signers_single. left; reflexivity.
  - right. split; [lia|]. apply n_signers_single. left; reflexivity.
Qed.

(* AddSignatureToOutputs: accepted for a single-signer SIG_ALL P2PK condition *)
Theorem helper_p2pk_output_accepted pk nonce d keys o :
  out_hex o = true -> In pk keys ->
  output_ok KP2PK d keys 1 (helper_p2pk_output pk nonce o) = true.
Proof.
  intros Hh Hin. unfold output_ok, helper_p2pk_output. cbn [out_hex out_wit out_msg wit_sigs].
  rewrite Hh. cbn [dup_sigs existsb orb]. apply has_valid_sigs_spec. apply n_signers_single. exact Hin.
Qed.

(* AddWitnessHTLC: accepted whenever it produces a witness, before the locktime, for the right preimage *)
Theorem helper_htlc_input_accepted now k nonce h i i' ts pt :
  in_secret i = SNut10 KHTLC (DHash h true) ts ->
  parse_tags ts = Some pt -> ~ expired now pt ->
  helper_htlc_input k nonce h i = Some i' ->
  verify_condition now (in_msg i') (in_secret i') (in_wit i') = true.
Proof.
  intros Hs Hp Hne. unfold helper_htlc_input. rewrite Hs, Hp.
  destruct (0 <? pt_nsigs pt) eqn:En.
  - destruct (1 <? pt_nsigs pt) eqn:E1; [discriminate|].
    destruct (existsb (Z.eqb k) (pt_pubkeys pt)) eqn:Ek; [|discriminate].
    intros H; inversion H; subst i'; clear H. cbn [in_msg in_secret in_wit]. try rewrite Hs.
    cbn [verify_condition]. apply verify_htlc_iff. exists pt. split; [exact Hp|]. right.
    split; [exact Hne|]. cbn [wit_preimage wit_sigs]. split; [exists h; split; reflexivity|].
    right. apply Z.ltb_lt in En. apply Z.ltb_ge in E1.
    split; [exact En|]. split; [discriminate|]. split; [reflexivity|].
    etransitivity; [exact E1|]. apply n_signers_single.
    apply existsb_exists in Ek as [x [Hx Hkx]]. apply Z.eqb_eq in Hkx. subst x. exact Hx.
  - intros H; inversion H; subst i'; clear H. cbn [in_msg in_secret in_wit]. try rewrite Hs.
    cbn [verify_condition]. apply verify_htlc_iff. exists pt. split; [exact Hp|]. right.
    split; [exact Hne|]. cbn [wit_preimage wit_sigs]. split; [exists h; split; reflexivity|].
    left. apply Z.ltb_ge in En. exact En.
Qed.

(* AddWitnessHTLCToOutputs: accepted for a single-signer SIG_ALL HTLC condition *)
Theorem helper_htlc_output_accepted k nonce h keys o :
  out_hex o = true -> In k keys ->
  output_ok KHTLC (DHash h true) keys 1 (helper_htlc_output k nonce h o) = true.
Proof.
  intros Hh Hin. unfold output_ok, helper_htlc_output. cbn [out_hex out_wit out_msg wit_sigs wit_preimage].
  rewrite Hh. cbn [preimage_ok]. rewrite Z.eqb_refl. cbn [dup_sigs existsb orb].
  apply has_valid_sigs_spec. apply n_signers_single. exact Hin.
Qed.

(* a SIG_ALL HTLC without any listed key: no output witness can be accepted *)
Lemma has_valid_sigs_nokeys msg sigs : has_valid_sigs msg sigs 1 [] = false.
Proof.
  apply Bool.not_true_is_false. intro H. apply has_valid_sigs_spec in H.
  unfold n_signers, signers in H. cbn [filter nodup length Z.of_nat] in H. lia.
Qed.

Theorem htlc_sigall_without_pubkeys_unspendable h o :
  output_ok KHTLC (DHash h true) [] 1 o = false.
Proof.
  unfold output_ok. destruct (out_hex o); [|reflexivity].
  destruct (out_wit o) as [|s|p s]; [reflexivity| |];
    destruct (preimage_ok _ _); try reflexivity;
    destruct (dup_sigs _); try reflexivity; apply has_valid_sigs_nokeys.
Qed.
