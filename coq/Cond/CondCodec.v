(* Decoding of harness cases for the spending-condition model, and the entry point
   run_cond used by the extracted runner. *)
From Coq Require Import ZArith List Bool.
From Verif Require Import Sexp Cond.
Import ListNotations.
Open Scope Z_scope.

Definition d_keyref (s : sexp) : option keyref :=
  do z <- sZ s; Some (if z <? 0 then KBad else KGood z).

Definition d_sig (s : sexp) : option sigt :=
  match s with
  | L [A 0; A k; A m; A n] => Some (SigOk k m n)
  | L [A 1; A id] => Some (SigJunk id)
  | _ => None
  end.

Definition d_tag (s : sexp) : option tag :=
  match s with
  | L [A 0] => Some TShort
  | L [A 1; A v; A e] => Some (TSigflag v (negb (e =? 0)))
  | L [A 2] => Some (TNsigs None)
  | L [A 2; A z] => Some (TNsigs (Some z))
  | L (A 3 :: ks) => do l <- opt_map d_keyref ks; Some (TPubkeys l)
  | L [A 4] => Some (TLocktime None)
  | L [A 4; A z] => Some (TLocktime (Some z))
  | L (A 5 :: ks) => do l <- opt_map d_keyref ks; Some (TRefund l)
  | L [A 6] => Some TOther
  | _ => None
  end.

Definition d_kind (s : sexp) : option kind :=
  match s with
  | A 0 => Some KP2PK | A 1 => Some KHTLC | A 2 => Some KOther | _ => None
  end.

Definition d_data (s : sexp) : option datat :=
  match s with
  | L [A 0; k] => do kr <- d_keyref k; Some (DKey kr)
  | L [A 1; A h; A l] => Some (DHash h (negb (l =? 0)))
  | _ => None
  end.

Definition d_secret (s : sexp) : option secret :=
  match s with
  | L [A 0] => Some SPlain
  | L [A 1; k; d; L ts] =>
      do k' <- d_kind k; do d' <- d_data d; do ts' <- opt_map d_tag ts; Some (SNut10 k' d' ts')
  | _ => None
  end.

Definition d_preimg (s : sexp) : option preimg :=
  do z <- sZ s; Some (if z <? 0 then PNonHex else PHex z).

Definition d_witness (s : sexp) : option witness :=
  match s with
  | L [A 0] => Some WNone
  | L [A 1; L sg] => do l <- opt_map d_sig sg; Some (WP2PK l)
  | L [A 2; p; L sg] => do p' <- d_preimg p; do l <- opt_map d_sig sg; Some (WHTLC p' l)
  | _ => None
  end.

Definition d_input (s : sexp) : option input :=
  match s with
  | L [A m; sec; w] => do sec' <- d_secret sec; do w' <- d_witness w; Some (mkInput m sec' w')
  | _ => None
  end.

Definition d_output (s : sexp) : option output :=
  match s with
  | L [A m; A h; w] => do w' <- d_witness w; Some (mkOutput m (negb (h =? 0)) w')
  | _ => None
  end.

Definition e_sig (s : sigt) : sexp :=
  match s with SigOk k m n => L [A 0; A k; A m; A n] | SigJunk i => L [A 1; A i] end.

Definition e_witness (w : witness) : sexp :=
  match w with
  | WNone => L [A 0]
  | WP2PK l => L [A 1; L (map e_sig l)]
  | WHTLC (PHex h) l => L [A 2; A h; L (map e_sig l)]
  | WHTLC PNonHex l => L [A 2; A (-1); L (map e_sig l)]
  end.

(* streams:
   (1 now input)                        verify_condition on one proof
   (2 now (inputs) (outputs))           swap_conditions
   (3 now (inputs))                     melt_conditions
   (4 now kind key nonce pre input)     input helper, then verify_condition; reports the witness too
   (5 kind key nonce pre (keys) data output)   output helper, then output_ok with n_sigs = 1 *)
Definition run_cond (c : sexp) : sexp :=
  match c with
  | L [A 1; A now; i] =>
      match d_input i with
      | Some i' => L [eBool (verify_condition now (in_msg i') (in_secret i') (in_wit i'))]
      | None => bad_case
      end
  | L [A 2; A now; L ins; L outs] =>
      match opt_map d_input ins, opt_map d_output outs with
      | Some is, Some os => L [eBool (swap_conditions now is os)]
      | _, _ => bad_case
      end
  | L [A 3; A now; L ins] =>
      match opt_map d_input ins with
      | Some is => L [eBool (melt_conditions now is)]
      | None => bad_case
      end
  | L [A 4; A now; A kd; A k; A nonce; A pre; i] =>
      match d_input i with
      | Some i0 =>
          let r := if kd =? 0 then Some (helper_p2pk_input k nonce i0) else helper_htlc_input k nonce pre i0 in
          match r with
          | Some i' => L [A 1; e_witness (in_wit i');
                          eBool (verify_condition now (in_msg i') (in_secret i') (in_wit i'))]
          | None => L [A 0]
          end
      | None => bad_case
      end
  | L [A 5; A kd; A k; A nonce; A pre; keys; d; o] =>
      match sListZ keys, d_data d, d_output o with
      | Some ks, Some d', Some o0 =>
          let o' := if kd =? 0 then helper_p2pk_output k nonce o0 else helper_htlc_output k nonce pre o0 in
          L [e_witness (out_wit o');
             eBool (output_ok (if kd =? 0 then KP2PK else KHTLC) d' ks 1 o')]
      | _, _, _ => bad_case
      end
  | _ => bad_case
  end.
