(* NUT-10/11/14 spending conditions: executable model that follows
   cashu/nuts/nut11/nut11.go, cashu/nuts/nut14/nut14.go and the
   SIG_ALL part of mint/mint.go (verifyBlindedMessages, Swap, MeltTokens).

   Cryptography is symbolic: a public key is an integer handle, a Schnorr
   signature is (signer, message, nonce) or junk, a hash lock opens with the
   preimage whose handle it carries.  See DESIGN.md §3/§4. *)
From Coq Require Import ZArith List Bool.
Import ListNotations.
Open Scope Z_scope.

(* ---------- abstract syntax ---------- *)

(* a hex string in a key position: parses to key k, or does not parse *)
Inductive keyref := KGood (k : Z) | KBad.

(* one entry of witness.signatures.  SigOk k m n verifies exactly for public key k
   and message m; two entries are the same string iff they are the same term. *)
Inductive sigt := SigOk (k m n : Z) | SigJunk (id : Z).

Definition sigt_eqb (a b : sigt) : bool :=
  match a, b with
  | SigOk k m n, SigOk k' m' n' => (k =? k') && (m =? m') && (n =? n')
  | SigJunk i, SigJunk j => i =? j
  | _, _ => false
  end.

(* one NUT-10 tag as ParseP2PKTags and IsSigAll see it *)
Inductive tag :=
| TShort                          (* fewer than two entries *)
| TSigflag (v : Z) (extra : bool) (* value: 0 SIG_INPUTS, 1 SIG_ALL, other: invalid; extra: more than two entries *)
| TNsigs (v : option Z)           (* None: not a decimal integer *)
| TPubkeys (ks : list keyref)
| TLocktime (v : option Z)
| TRefund (ks : list keyref)
| TOther.                         (* unknown tag name, at least two entries *)

Inductive kind := KP2PK | KHTLC | KOther.

(* the lock value in data: for P2PK a key, for HTLC a hash *)
Inductive datat :=
| DKey (k : keyref)
| DHash (h : Z) (len64 : bool).   (* hash handle; len64: the data string has exactly 64 characters *)

(* proof.Secret *)
Inductive secret :=
| SPlain                                      (* not NUT-10 JSON: DeserializeSecret fails *)
| SNut10 (k : kind) (d : datat) (tags : list tag).

(* preimage string in an HTLC witness *)
Inductive preimg := PHex (h : Z) | PNonHex.
(* PHex h: a hex string whose decoded bytes hash to handle h (the empty string hashes to some handle too) *)

(* proof.Witness / output.Witness *)
Inductive witness :=
| WNone                                        (* empty string or not JSON: Unmarshal fails *)
| WP2PK (sigs : list sigt)                     (* {"signatures":[...]} *)
| WHTLC (p : preimg) (sigs : list sigt).       (* {"preimage":..,"signatures":[...]} *)

Definition wit_sigs (w : witness) : list sigt :=
  match w with WNone => [] | WP2PK s => s | WHTLC _ s => s end.

Definition wit_preimage (w : witness) : preimg :=
  match w with WHTLC p _ => p | _ => PHex 0 end.
(* a P2PK-shaped or unparsable witness leaves Preimage "" : hex-decodes to the empty byte string, handle 0 *)

(* ---------- ParseP2PKTags ---------- *)

Record ptags := mkPtags {
  pt_nsigs : Z;
  pt_pubkeys : list Z;
  pt_locktime : Z;
  pt_refund : list Z
}.

Definition ptags0 : ptags := mkPtags 0 [] 0 [].

Fixpoint parse_keys (ks : list keyref) : option (list Z) :=
  match ks with
  | [] => Some []
  | KBad :: _ => None
  | KGood k :: r => match parse_keys r with Some l => Some (k :: l) | None => None end
  end.

Definition int8_ok (z : Z) : bool := (-128 <=? z) && (z <=? 127).
Definition int64_ok (z : Z) : bool := (-9223372036854775808 <=? z) && (z <=? 9223372036854775807).

Fixpoint parse_tags_loop (ts : list tag) (acc : ptags) : option ptags :=
  match ts with
  | [] => Some acc
  | t :: r =>
    match t with
    | TShort => None
    | TSigflag v _ => if (v =? 0) || (v =? 1) then parse_tags_loop r acc else None
    | TNsigs None => None
    | TNsigs (Some z) =>
        if int8_ok z then
          if z <? 0 then None
          else parse_tags_loop r (mkPtags z (pt_pubkeys acc) (pt_locktime acc) (pt_refund acc))
        else None
    | TPubkeys ks =>
        match parse_keys ks with
        | None => None
        | Some l => parse_tags_loop r (mkPtags (pt_nsigs acc) l (pt_locktime acc) (pt_refund acc))
        end
    | TLocktime None => None
    | TLocktime (Some z) =>
        if int64_ok z then parse_tags_loop r (mkPtags (pt_nsigs acc) (pt_pubkeys acc) z (pt_refund acc))
        else None
    | TRefund ks =>
        match parse_keys ks with
        | None => None
        | Some l => parse_tags_loop r (mkPtags (pt_nsigs acc) (pt_pubkeys acc) (pt_locktime acc) l)
        end
    | TOther => parse_tags_loop r acc
    end
  end.

Definition parse_tags (ts : list tag) : option ptags :=
  if (5 <? Z.of_nat (length ts)) then None else parse_tags_loop ts ptags0.

(* IsSigAll: some tag is exactly ["sigflag","SIG_ALL"] *)
Definition is_sig_all_tags (ts : list tag) : bool :=
  existsb (fun t => match t with TSigflag 1 false => true | _ => false end) ts.

(* ---------- signatures ---------- *)

Definition sig_valid (msg : Z) (s : sigt) (k : Z) : bool :=
  match s with
  | SigOk k' m _ => (k' =? k) && (m =? msg)
  | SigJunk _ => false
  end.

Fixpoint dup_sigs (l : list sigt) : bool :=
  match l with
  | [] => false
  | s :: r => existsb (sigt_eqb s) r || dup_sigs r
  end.

(* the first key in the list for which the signature verifies *)
Fixpoint first_match (msg : Z) (s : sigt) (keys : list Z) : option Z :=
  match keys with
  | [] => None
  | k :: r => if sig_valid msg s k then Some k else first_match msg s r
  end.

Definition remove_key (k : Z) (keys : list Z) : list Z :=
  filter (fun k' => negb (k' =? k)) keys.

(* HasValidSignatures: the Go loop (after the repair: every occurrence of a matched key is removed) *)
Fixpoint count_valid (msg : Z) (sigs : list sigt) (keys : list Z) : Z :=
  match sigs with
  | [] => 0
  | s :: r =>
      match first_match msg s keys with
      | Some k => 1 + count_valid msg r (remove_key k keys)
      | None => count_valid msg r keys
      end
  end.

Definition has_valid_sigs (msg : Z) (sigs : list sigt) (n : Z) (keys : list Z) : bool :=
  n <=? count_valid msg sigs keys.

(* ---------- VerifyP2PKLockedProof / VerifyHTLCProof ---------- *)

Definition is_nil {X} (l : list X) : bool := match l with [] => true | _ => false end.

(* msg: handle of sha256(proof.Secret); now: the mint's clock *)
Definition verify_p2pk (now msg : Z) (d : datat) (ts : list tag) (w : witness) : bool :=
  let sigs := wit_sigs w in
  match parse_tags ts with
  | None => false
  | Some pt =>
    if (0 <? pt_locktime pt) && (pt_locktime pt <? now) then
      if is_nil (pt_refund pt) then true
      else if is_nil sigs then false
      else has_valid_sigs msg sigs 1 (pt_refund pt)
    else
      match d with
      | DKey (KGood pk) =>
          if 0 <? pt_nsigs pt then
            if is_nil sigs then false
            else if dup_sigs sigs then false
            else has_valid_sigs msg sigs (pt_nsigs pt) (pk :: pt_pubkeys pt)
          else
            if is_nil sigs then false
            else if dup_sigs sigs then false
            else has_valid_sigs msg sigs 1 [pk]
      | _ => false
      end
  end.

Definition preimage_ok (d : datat) (p : preimg) : bool :=
  match p, d with
  | PHex h, DHash h' true => h =? h'
  | _, _ => false
  end.
(* for a P2PK-style data field under an HTLC kind the data is some string: it is 64 hex
   characters only if it happens to be one; the harness generates DHash for every HTLC secret *)

Definition verify_htlc (now msg : Z) (d : datat) (ts : list tag) (w : witness) : bool :=
  let sigs := wit_sigs w in
  match parse_tags ts with
  | None => false
  | Some pt =>
    if (0 <? pt_locktime pt) && (pt_locktime pt <? now) then
      if is_nil (pt_refund pt) then true
      else if is_nil sigs then false
      else has_valid_sigs msg sigs 1 (pt_refund pt)
    else
      if preimage_ok d (wit_preimage w) then
        if 0 <? pt_nsigs pt then
          if is_nil sigs then false
          else if dup_sigs sigs then false
          else has_valid_sigs msg sigs (pt_nsigs pt) (pt_pubkeys pt)
        else true
      else false
  end.

(* the spending-condition part of verifyProofs for one input *)
Definition verify_condition (now msg : Z) (s : secret) (w : witness) : bool :=
  match s with
  | SPlain => true
  | SNut10 KP2PK d ts => verify_p2pk now msg d ts w
  | SNut10 KHTLC d ts => verify_htlc now msg d ts w
  | SNut10 KOther _ _ => true
  end.

(* ---------- SIG_ALL ---------- *)

Record input := mkInput { in_msg : Z; in_secret : secret; in_wit : witness }.
Record output := mkOutput { out_msg : Z; out_hex : bool; out_wit : witness }.
(* out_msg: handle of sha256(bytes of B_); out_hex: B_ is a hex string *)

Definition is_sig_all (s : secret) : bool :=
  match s with SPlain => false | SNut10 _ _ ts => is_sig_all_tags ts end.

(* ProofsSigAll after the repair: non NUT-10 inputs are skipped *)
Definition proofs_sig_all (ins : list input) : bool :=
  existsb (fun i => is_sig_all (in_secret i)) ins.

(* nut11.PublicKeys *)
Definition public_keys (k : kind) (d : datat) (ts : list tag) : option (list Z) :=
  match parse_tags ts with
  | None => None
  | Some pt =>
      match k with
      | KP2PK => match d with
                 | DKey (KGood pk) => Some (pt_pubkeys pt ++ [pk])
                 | _ => None
                 end
      | _ => Some (pt_pubkeys pt)
      end
  end.

Definition sigs_required (ts : list tag) : option Z :=
  match parse_tags ts with
  | None => None
  | Some pt => Some (if 0 <? pt_nsigs pt then pt_nsigs pt else 1)
  end.

Definition list_Z_eqb (a b : list Z) : bool :=
  (Nat.eqb (length a) (length b)) && forallb (fun p => fst p =? snd p) (combine a b).

(* the per-proof loop of verifyBlindedMessages *)
Definition same_condition (keys : list Z) (req : Z) (i : input) : bool :=
  match in_secret i with
  | SPlain => false
  | SNut10 k d ts =>
      if is_sig_all_tags ts then
        match sigs_required ts, public_keys k d ts with
        | Some r, Some ks => list_Z_eqb keys ks && (req =? r)
        | _, _ => false
        end
      else false
  end.

Definition output_ok (k : kind) (d : datat) (keys : list Z) (req : Z) (o : output) : bool :=
  if out_hex o then
    match k with
    | KP2PK =>
        match out_wit o with
        | WNone => false
        | w => let sigs := wit_sigs w in
               if dup_sigs sigs then false else has_valid_sigs (out_msg o) sigs req keys
        end
    | KHTLC =>
        match out_wit o with
        | WNone => false
        | w => if preimage_ok d (wit_preimage w) then
                 let sigs := wit_sigs w in
                 if dup_sigs sigs then false else has_valid_sigs (out_msg o) sigs req keys
               else false
        end
    | KOther => false
    end
  else false.

(* verifyBlindedMessages; ins is non-empty when it is called (proofs_sig_all ins = true) *)
Definition verify_blinded_messages (ins : list input) (outs : list output) : bool :=
  match ins with
  | [] => false
  | i0 :: _ =>
      match in_secret i0 with
      | SPlain => false
      | SNut10 k d ts =>
          match public_keys k d ts, sigs_required ts with
          | Some keys, Some req =>
              forallb (same_condition keys req) ins && forallb (output_ok k d keys req) outs
          | _, _ => false
          end
      end
  end.

(* what Swap checks about spending conditions (verifyProofs per input, then SIG_ALL) *)
Definition swap_conditions (now : Z) (ins : list input) (outs : list output) : bool :=
  forallb (fun i => verify_condition now (in_msg i) (in_secret i) (in_wit i)) ins &&
  (if proofs_sig_all ins then verify_blinded_messages ins outs else true).

(* what MeltTokens checks: per input, and SIG_ALL is refused *)
Definition melt_conditions (now : Z) (ins : list input) : bool :=
  forallb (fun i => verify_condition now (in_msg i) (in_secret i) (in_wit i)) ins &&
  negb (proofs_sig_all ins).

(* ---------- the library's signing helpers (what an honest holder sends) ---------- *)

(* AddSignatureToInputs: one signature by key k over the secret, nonce chosen by the signer *)
Definition helper_p2pk_input (k nonce : Z) (i : input) : input :=
  mkInput (in_msg i) (in_secret i) (WP2PK [SigOk k (in_msg i) nonce]).

(* AddSignatureToOutputs *)
Definition helper_p2pk_output (k nonce : Z) (o : output) : output :=
  mkOutput (out_msg o) (out_hex o) (WP2PK [SigOk k (out_msg o) nonce]).

(* AddWitnessHTLC: preimage, plus one signature when n_sigs = 1 and k is listed *)
Definition helper_htlc_input (k nonce pre : Z) (i : input) : option input :=
  match in_secret i with
  | SNut10 _ _ ts =>
      match parse_tags ts with
      | None => None
      | Some pt =>
          if 0 <? pt_nsigs pt then
            if 1 <? pt_nsigs pt then None
            else if existsb (Z.eqb k) (pt_pubkeys pt)
                 then Some (mkInput (in_msg i) (in_secret i) (WHTLC (PHex pre) [SigOk k (in_msg i) nonce]))
                 else None
          else Some (mkInput (in_msg i) (in_secret i) (WHTLC (PHex pre) []))
      end
  | SPlain => None
  end.

(* AddWitnessHTLCToOutputs (after the repair: signs the bytes of B_) *)
Definition helper_htlc_output (k nonce pre : Z) (o : output) : output :=
  mkOutput (out_msg o) (out_hex o) (WHTLC (PHex pre) [SigOk k (out_msg o) nonce]).
