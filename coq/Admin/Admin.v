(* mint/manager/server.go: the admin JSON-RPC dispatcher (processRequest and its handlers), layered on the mint model.
   A request is a method name and string parameters; what matters of a parameter is modelled: a keyset id (handle) for
   issued_ecash / redeemed_ecash, and for rotate_keyset the text of the fee - FNum z when it is a decimal numeral (optional sign,
   digits) of value z (strconv.Atoi then yields z iff z fits an int), FJunk for any other text. *)
From Coq Require Import ZArith List Bool Lia.
From Verif Require Import Model Sem.
Import ListNotations.
Open Scope Z_scope.

Inductive fee_text := FNum (z : Z) | FJunk.

Inductive areq :=
| AIssued (p : option Z)
| ARedeemed (p : option Z)
| ATotal
| AList
| ARotate (p : option fee_text)
| AOther.

(* error classes: 1 invalid method, 2 fee not included, 3 invalid fee, 4 unknown keyset, 5 storage error, 6 error of RotateKeyset *)
Inductive aresp :=
| AErr (code cls : Z)
| AOne (ks amount : Z)
| AAll (rows : list (Z * Z)) (total : Z)
| ATotals (issued : list (Z * Z)) (ti : Z) (redeemed : list (Z * Z)) (tr : Z) (circulation : Z)
| AKeysets (l : list ksrow)
| ARotated (id fee : Z) (active : bool)
| APanicked.

Definition int_min : Z := -9223372036854775808.
Definition int_max : Z := 9223372036854775807.

(* strconv.Atoi *)
Definition atoi (t : fee_text) : option Z :=
  match t with
  | FNum z => if (int_min <=? z) && (z <=? int_max) then Some z else None
  | FJunk => None
  end.

Definition totals_of (rows : list (Z * Z)) : Z := sum64 (map snd rows).

Definition one_of (rows : list (Z * Z)) (id : Z) : aresp :=
  match find (fun x => fst x =? id) rows with
  | Some (_, a) => AOne id a
  | None => AErr (-32000) 4
  end.

Definition admin_prog (mem_ks : list ksrow) (active : Z) (r : areq) : prog aresp :=
  match r with
  | AIssued p =>
      call v <- GetIssued ;;
      match v with
      | RErr => Ret (AErr (-32000) 5)
      | ROk rows => Ret (match p with Some id => one_of rows id | None => AAll rows (totals_of rows) end)
      end
  | ARedeemed p =>
      call v <- GetRedeemed ;;
      match v with
      | RErr => Ret (AErr (-32000) 5)
      | ROk rows => Ret (match p with Some id => one_of rows id | None => AAll rows (totals_of rows) end)
      end
  | ATotal =>
      call v1 <- GetIssued ;;
      match v1 with
      | RErr => Ret (AErr (-32000) 5)
      | ROk iss =>
        call v2 <- GetRedeemed ;;
        match v2 with
        | RErr => Ret (AErr (-32000) 5)
        | ROk red => Ret (ATotals iss (totals_of iss) red (totals_of red) (sub64 (totals_of iss) (totals_of red)))
        end
      end
  | AList => Ret (AKeysets mem_ks)
  | ARotate None => Ret (AErr (-32000) 2)
  | ARotate (Some t) =>
      match atoi t with
      | None => Ret (AErr (-32000) 3)
      | Some fee =>
        if fee <? 0 then Ret (AErr (-32000) 3) else
        perform r <- rotate_keyset mem_ks active fee ;;
        match r with
        | Err _ => Ret (AErr (-32000) 6)
        | Ok _ => Ret (ARotated (active + 1) fee true)
        end
      end
  | AOther => Ret (AErr (-32601) 1)
  end.

Definition admin_step (w : world) (r : areq) : world * aresp :=
  let w0 := reset_calls w in
  match run (admin_prog (w_mem w0) (w_active w0) r) no_fault w0 with
  | (w', Done a) => (w', a)
  | (w', _) => (w', APanicked)
  end.
