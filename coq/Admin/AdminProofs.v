(* The admin RPC is a thin layer: every request either reads the two balance views / the keyset list and changes nothing,
   or is exactly a RotateKeyset - so every theorem about histories of mint operations covers histories with admin requests. *)
From Coq Require Import ZArith List Bool Lia.
From Verif Require Import Model Sem InvDb InvSwap Corollaries Queries Footprint Global GlobalErr Admin.
Import ListNotations.
Open Scope Z_scope.

Ltac sx := cbn [run bind no_fault exec is_call is_storage andb exec_db w_db w_ln w_mem w_active w_calls set_ln reset_calls].

Definition is_rotation (r : areq) : option Z :=
  match r with
  | ARotate (Some t) => match atoi t with Some fee => if fee <? 0 then None else Some fee | None => None end
  | _ => None
  end.

(* every request that is not a well-formed rotation leaves store, Lightning state and keyset memory as they were *)
Theorem admin_readonly w r :
  is_rotation r = None ->
  let w' := fst (admin_step w r) in
  w_db w' = w_db w /\ w_ln w' = w_ln w /\ w_mem w' = w_mem w /\ w_active w' = w_active w.
Proof.
  intros Hr. cbv zeta. unfold admin_step. destruct w as [d l m a n].
  destruct r as [p|p| | |[t|]|]; cbn [admin_prog reset_calls w_mem w_active w_db w_ln].
  - sx. destruct (sum_view _); sx; repeat split.
  - sx. destruct (sum_view _); sx; repeat split.
  - sx. destruct (sum_view _); sx; [|repeat split]. destruct (sum_view _); sx; repeat split.
  - sx. repeat split.
  - cbn [is_rotation] in Hr. destruct (atoi t) as [fee|]; [|sx; repeat split].
    destruct (fee <? 0); [sx; repeat split|discriminate Hr].
  - sx. repeat split.
  - sx. repeat split.
Qed.

(* a well-formed rotation request is RotateKeyset with that fee: the world afterwards is the one the operation ORotate leaves *)
Theorem admin_rotate_is_rotate cfg w r fee :
  is_rotation r = Some fee ->
  fst (admin_step w r) = fst (step cfg no_fault w (ORotate fee)) /\ 0 <= fee <= int_max.
Proof.
  intros Hr. destruct r as [p|p| | |[t|]|]; try discriminate Hr. cbn [is_rotation] in Hr.
  unfold admin_step. cbn [admin_prog]. destruct t as [z|]; cbn [atoi] in *; [|discriminate Hr].
  destruct ((int_min <=? z) && (z <=? int_max)) eqn:Er; [|discriminate Hr].
  destruct (z <? 0) eqn:Ez; [discriminate Hr|]. injection Hr as <-.
  apply andb_prop in Er as [_ Emax]. apply Z.leb_le in Emax. apply Z.ltb_ge in Ez. split; [|lia].
  unfold step. cbn [is_env prepare op_prog]. unfold lift. rewrite !run_bind.
  destruct (run (rotate_keyset (w_mem (reset_calls w)) (w_active (reset_calls w)) z) no_fault (reset_calls w)) as [w' [[u|e]| |]]; reflexivity.
Qed.

(* a fee that is no decimal number, is negative or does not fit an int is refused: "invalid fee" *)
Theorem admin_rotate_bad_fee w t :
  is_rotation (ARotate (Some t)) = None -> snd (admin_step w (ARotate (Some t))) = AErr (-32000) 3.
Proof.
  cbn [is_rotation]. unfold admin_step. cbn [admin_prog]. destruct (atoi t) as [fee|]; [|intros _; destruct w; reflexivity].
  destruct (fee <? 0); [intros _; destruct w; reflexivity|discriminate].
Qed.

Lemma sum_view_inv v v' : sum_view v = ROk v' -> v' = v.
Proof. unfold sum_view. destruct (existsb _ v); [discriminate|]. intros H. injection H as <-. reflexivity. Qed.

(* total_balance of the admin RPC: the two views, their totals, and as circulation exactly what Mint.TotalBalance returns; when a
   view cannot be computed (a keyset's total does not fit an int64) both fail *)
Theorem admin_total_is_total_balance w :
  match snd (admin_step w ATotal) with
  | ATotals iss ti red tr c =>
      ti = sum64 (map snd iss) /\ tr = sum64 (map snd red) /\ c = sub64 ti tr /\
      snd (run total_balance no_fault (reset_calls w)) = Done (Ok c) /\
      tsum (map snd iss) = issued_total (w_db w) /\ tsum (map snd red) = redeemed_total (w_db w)
  | AErr code cls => code = -32000 /\ cls = 5 /\ snd (run total_balance no_fault (reset_calls w)) = Done (Err EDb)
  | _ => False
  end.
Proof.
  unfold admin_step, total_balance. destruct w as [d l m a n]. cbn [admin_prog reset_calls w_mem w_active w_db]. sx.
  destruct (sum_view (sum_by_ks (map (fun s => (s_ks s, s_amount s)) (d_sigs d)) [])) as [iss|] eqn:Ei; sx; [|repeat split].
  destruct (sum_view (sum_by_ks (map (fun r => (r_ks r, r_amount r)) (d_spent d)) [])) as [red|] eqn:Er; sx; [|repeat split].
  apply sum_view_inv in Ei, Er. subst iss red.
  repeat split; [apply issued_view_total|apply redeemed_view_total].
Qed.

(* issued_ecash / redeemed_ecash without a parameter list the per-keyset view, which adds up to the table *)
Theorem admin_issued_view w :
  match snd (admin_step w (AIssued None)) with
  | AAll rows t => t = sum64 (map snd rows) /\ tsum (map snd rows) = issued_total (w_db w)
  | AErr code cls => code = -32000 /\ cls = 5
  | _ => False
  end.
Proof.
  unfold admin_step. destruct w as [d l m a n]. cbn [admin_prog reset_calls w_mem w_active w_db]. sx.
  destruct (sum_view (sum_by_ks (map (fun s => (s_ks s, s_amount s)) (d_sigs d)) [])) as [rows|] eqn:Ei; sx; [|split; reflexivity].
  apply sum_view_inv in Ei. subst rows. split; [reflexivity|apply issued_view_total].
Qed.

Theorem admin_redeemed_view w :
  match snd (admin_step w (ARedeemed None)) with
  | AAll rows t => t = sum64 (map snd rows) /\ tsum (map snd rows) = redeemed_total (w_db w)
  | AErr code cls => code = -32000 /\ cls = 5
  | _ => False
  end.
Proof.
  unfold admin_step. destruct w as [d l m a n]. cbn [admin_prog reset_calls w_mem w_active w_db]. sx.
  destruct (sum_view (sum_by_ks (map (fun r => (r_ks r, r_amount r)) (d_spent d)) [])) as [rows|] eqn:Ei; sx; [|split; reflexivity].
  apply sum_view_inv in Ei. subst rows. split; [reflexivity|apply redeemed_view_total].
Qed.

(* ---------- histories that contain admin requests ---------- *)

Inductive aitem := AOp (o : op) | AReq (r : areq).

Definition astep (cfg : config) (w : world) (it : aitem) : world :=
  match it with
  | AOp o => fst (step cfg no_fault w o)
  | AReq r => fst (admin_step w r)
  end.

Definition arun (cfg : config) (w : world) (h : list aitem) : world := fold_left (astep cfg) h w.

(* the mint operations an admin history amounts to: a well-formed rotation is ORotate, every other request is a balance query *)
Definition as_op (it : aitem) : op :=
  match it with
  | AOp o => o
  | AReq r => match is_rotation r with Some fee => ORotate fee | None => OBalance end
  end.

Definition same_state (a b : world) : Prop :=
  w_db a = w_db b /\ w_ln a = w_ln b /\ w_mem a = w_mem b /\ w_active a = w_active b.

Lemma balance_readonly cfg w :
  same_state (fst (step cfg no_fault w OBalance)) w.
Proof.
  unfold step. cbn [is_env prepare op_prog]. unfold lift. rewrite run_bind.
  pose proof (frame_db_reads fp_balance total_balance only_balance ltac:(intros c Hc; destruct c; cbn in *; congruence) no_fault (reset_calls w)) as Hd.
  pose proof (frame_ln fp_balance total_balance only_balance ltac:(intros c Hc; destruct c; cbn in *; congruence) no_fault (reset_calls w)) as Hl.
  pose proof (frame_ks fp_balance total_balance only_balance ltac:(intros c Hc; destruct c; cbn in *; congruence) no_fault (reset_calls w)) as [_ [Hm Ha]].
  unfold same_lnw in Hl.
  destruct (run total_balance no_fault (reset_calls w)) as [w' [[x|e]| |]]; cbn [fst run] in *; repeat split; assumption.
Qed.

Lemma same_state_refl w : same_state w w. Proof. repeat split. Qed.
Lemma same_state_sym a b : same_state a b -> same_state b a.
Proof. intros [H1 [H2 [H3 H4]]]. repeat split; symmetry; assumption. Qed.
Lemma same_state_trans a b c : same_state a b -> same_state b c -> same_state a c.
Proof. intros [H1 [H2 [H3 H4]]] [G1 [G2 [G3 G4]]]. repeat split; congruence. Qed.

(* an operation sees the store, the Lightning state and the keyset memory, nothing else *)
Lemma step_same_state cfg a b o :
  same_state a b -> same_state (fst (step cfg no_fault a o)) (fst (step cfg no_fault b o)).
Proof.
  intros [H1 [H2 [H3 H4]]]. unfold step. destruct (is_env o) eqn:Ee; cbn [fst].
  - destruct a as [d l m ac n], b as [d2 l2 m2 ac2 n2]. cbn [w_db w_ln w_mem w_active] in *. subst.
    destruct o; try discriminate Ee; repeat split.
  - assert (Hp : prepare o a = prepare o b).
    { destruct a as [d l m ac n], b as [d2 l2 m2 ac2 n2]. cbn [w_db w_ln w_mem w_active] in *. subst. destruct o; reflexivity. }
    rewrite Hp. apply same_state_refl.
Qed.

(* a history with admin requests reaches the state of the plain mint history it amounts to *)
Theorem arun_as_history cfg h : forall a b,
  same_state a b -> same_state (arun cfg a h) (fst (run_history cfg b (map as_op h))).
Proof.
  induction h as [|it r IH]; intros a b Hab; cbn [arun fold_left map]; [exact Hab|].
  rewrite run_history_fst. apply IH.
  destruct it as [o|rq]; cbn [astep as_op].
  - apply step_same_state. exact Hab.
  - destruct (is_rotation rq) as [fee|] eqn:Er.
    + destruct (admin_rotate_is_rotate cfg a rq fee Er) as [-> _]. apply step_same_state. exact Hab.
    + pose proof (admin_readonly a rq Er) as Hro. cbv zeta in Hro.
      eapply same_state_trans; [exact Hro|]. eapply same_state_trans; [exact Hab|].
      apply same_state_sym. apply balance_readonly.
Qed.
