(* Generic glue around the extracted model: reads one s-expression of integers per
   line from stdin, applies Model.run_case, prints the resulting s-expression.
   Contains no modelling decisions. *)
open Model

let rec print_sexp buf (s : sexp) =
  match s with
  | A z -> Buffer.add_string buf (Big_int_Z.string_of_big_int z)
  | L l ->
    Buffer.add_char buf '(';
    List.iteri (fun i x -> if i > 0 then Buffer.add_char buf ' '; print_sexp buf x) l;
    Buffer.add_char buf ')'

exception Parse_error of string

let parse_line (line : string) : sexp =
  let n = String.length line in
  let pos = ref 0 in
  let skip () = while !pos < n && (line.[!pos] = ' ' || line.[!pos] = '\t' || line.[!pos] = '\r') do incr pos done in
  let rec item () : sexp =
    skip ();
    if !pos >= n then raise (Parse_error "unexpected end");
    if line.[!pos] = '(' then begin
      incr pos;
      let acc = ref [] in
      let fin = ref false in
      while not !fin do
        skip ();
        if !pos >= n then raise (Parse_error "unclosed list");
        if line.[!pos] = ')' then (incr pos; fin := true)
        else acc := item () :: !acc
      done;
      L (List.rev !acc)
    end else begin
      let start = !pos in
      if line.[!pos] = '-' then incr pos;
      while !pos < n && line.[!pos] >= '0' && line.[!pos] <= '9' do incr pos done;
      if !pos = start then raise (Parse_error ("bad character at " ^ string_of_int start));
      A (Big_int_Z.big_int_of_string (String.sub line start (!pos - start)))
    end
  in
  let r = item () in
  skip ();
  if !pos <> n then raise (Parse_error "trailing input");
  r

let () =
  let buf = Buffer.create 65536 in
  (try
     while true do
       let line = input_line stdin in
       if String.length line > 0 then begin
         (match (try Some (parse_line line) with Parse_error _ -> None) with
          | Some c -> print_sexp buf (run_case c)
          | None -> Buffer.add_string buf "(-998)");
         Buffer.add_char buf '\n';
         if Buffer.length buf > 60000 then (print_string (Buffer.contents buf); Buffer.clear buf)
       end
     done
   with End_of_file -> ());
  print_string (Buffer.contents buf)
