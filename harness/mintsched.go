package main

// Concurrent requests under explicit schedules (C01, C03): the storage wrapper parks every request thread
// before each storage/Lightning call; a schedule is the order in which parked threads are released.
// The model runs the same programs under the same schedule (Sem.run_concurrent).

import (
	"context"
	"fmt"
	"math/rand"
	"sort"
	"strings"
	"time"

	"github.com/elnosh/gonuts/cashu"
	"github.com/elnosh/gonuts/cashu/nuts/nut04"
	"github.com/elnosh/gonuts/cashu/nuts/nut05"
	"github.com/elnosh/gonuts/mint/storage"
)

type concOp struct {
	kind  string
	op    S
	f     func() (any, error)
	okS   func(any) S
	after func(v any, ok bool)
}

func (h *Hist) prepSwap(ins []inSpec, outs []outSpec) concOp {
	ps, inS := h.inputsOf(ins)
	var bms cashu.BlindedMessages
	var outS []S
	for _, o := range outs {
		bms = append(bms, h.outputBM(o))
		outS = append(outS, h.outputS(o))
	}
	op := L(A(4), LL(inS), LL(outS), A(1))
	return concOp{kind: "swap", op: op,
		f:   func() (any, error) { return h.tm.M.Swap(ps, bms) },
		okS: func(v any) S { return sigsS(h, outs, v.(cashu.BlindedSignatures)) },
		after: func(v any, ok bool) {
			if ok {
				sigs := v.(cashu.BlindedSignatures)
				h.adopt(outs, sigs)
				h.consume(ins, "swap", op)
				for _, s := range sigs {
					h.issued += s.Amount
				}
			}
		}}
}

func (h *Hist) prepMelt(q *hMeltQ, ins []inSpec) concOp {
	ps, inS := h.inputsOf(ins)
	op := L(A(7), A(q.h), LL(inS))
	return concOp{kind: "melt", op: op,
		f: func() (any, error) {
			return h.tm.M.MeltTokens(context.Background(), nut05.PostMeltBolt11Request{Quote: q.id, Inputs: ps})
		},
		okS: func(v any) S { return lqS(h, q.h, v.(storage.MeltQuote)) },
		after: func(v any, ok bool) {
			if ok {
				lq := v.(storage.MeltQuote)
				q.state = meltStateNum(lq.State)
				if lq.State == nut05.Paid || lq.State == nut05.Pending {
					q.inputs = nil
					for _, i := range ins {
						q.inputs = append(q.inputs, i.sec.h)
					}
				}
				if lq.State == nut05.Paid {
					h.notePaid(q, op)
				}
			}
		}}
}

func (h *Hist) prepMint(q *hMintQ, outs []outSpec) concOp {
	var bms cashu.BlindedMessages
	var outS []S
	for _, o := range outs {
		bms = append(bms, h.outputBM(o))
		outS = append(outS, h.outputS(o))
	}
	req := nut04.PostMintBolt11Request{Quote: q.id, Outputs: bms}
	op := L(A(3), A(q.h), LL(outS), A(0))
	return concOp{kind: "mint", op: op,
		f:   func() (any, error) { return h.tm.M.MintTokens(req) },
		okS: func(v any) S { return sigsS(h, outs, v.(cashu.BlindedSignatures)) },
		after: func(v any, ok bool) {
			if ok {
				sigs := v.(cashu.BlindedSignatures)
				h.adopt(outs, sigs)
				var tot uint64
				for _, s := range sigs {
					tot += s.Amount
				}
				q.issued += tot
				q.issuedOK++
				h.issued += tot
				if q.settlements == 0 {
					h.sink.Violate("issued-before-payment"+h.sigSuffix, "a mint quote yielded signatures before its invoice was paid", op.String(), LL(h.items).String())
				}
				if q.issued > q.amount*uint64(q.settlements) {
					h.sink.Violate("issued-more-than-paid"+h.sigSuffix, fmt.Sprintf("quote of %d sat, %d settlement(s), %d sat issued", q.amount, q.settlements, q.issued), op.String(), LL(h.items).String())
				}
			}
		}}
}

func (h *Hist) prepMintState(q *hMintQ) concOp {
	op := L(A(2), A(q.h))
	return concOp{kind: "mintstate", op: op,
		f: func() (any, error) { return h.tm.M.GetMintQuoteState(q.id) },
		okS: func(v any) S {
			mq := v.(storage.MintQuote)
			pk := int64(0)
			if q.key != nil {
				pk = q.h
			}
			return L(A(2), A(q.h), AU(mq.Amount), A(int64(mintStateNum(mq.State))), A(pk))
		},
		after: func(any, bool) {}}
}

func (h *Hist) prepWatcher(q *hMintQ) concOp {
	op := L(A(12), A(q.h))
	// the subscription delivers the settled invoice as soon as the watcher asks for it
	h.tm.LN.mu.Lock()
	h.tm.LN.fireNow = q.hash
	h.tm.LN.mu.Unlock()
	return concOp{kind: "watcher", op: op,
		f: func() (any, error) {
			ctx, cancel := context.WithTimeout(context.Background(), 5*time.Second)
			defer cancel()
			h.tm.M.VerifCheckInvoicePaid(ctx, q.id)
			return nil, nil
		},
		okS:   func(any) S { return L(A(5)) },
		after: func(any, bool) {}}
}

func (h *Hist) prepMeltState(q *hMeltQ) concOp {
	op := L(A(6), A(q.h))
	return concOp{kind: "meltstate", op: op,
		f:   func() (any, error) { return h.tm.M.GetMeltQuoteState(context.Background(), q.id) },
		okS: func(v any) S { return lqS(h, q.h, v.(storage.MeltQuote)) },
		after: func(v any, ok bool) {
			if ok {
				lq := v.(storage.MeltQuote)
				q.state = meltStateNum(lq.State)
				if lq.State == nut05.Paid {
					h.notePaid(q, op)
				}
			}
		}}
}

// execConc runs the operations as concurrent requests under sched and records one history item.
func (h *Hist) execConc(ops []concOp, sched []int) []opOutcome {
	var kinds []string
	var fs []func() (any, error)
	var opS []S
	for _, o := range ops {
		kinds = append(kinds, o.kind)
		fs = append(fs, o.f)
		opS = append(opS, o.op)
	}
	sort.Strings(kinds)
	h.sigSuffix = ":concurrent:" + strings.Join(kinds, "+")
	h.cuts = true
	outs := h.wdb.runConcurrent(fs, sched)
	var rs []S
	for i, out := range outs {
		switch {
		case out.panicV != nil:
			rs = append(rs, L(A(9)))
			h.sink.Violate("panic:"+ops[i].kind+h.sigSuffix, fmt.Sprintf("the operation panicked: %v", out.panicV), ops[i].op.String(), nil)
		case out.err != nil:
			rs = append(rs, h.failS(out.err))
		default:
			rs = append(rs, ops[i].okS(out.val))
		}
	}
	var sc []S
	for _, i := range sched {
		sc = append(sc, A(int64(i)))
	}
	h.items = append(h.items, L(A(3), LL(opS), LL(sc)))
	for i, out := range outs {
		ops[i].after(out.val, out.err == nil && out.panicV == nil)
	}
	h.learnMelts(L(A(3)))
	h.obs = append(h.obs, L(LL(rs), h.snapshot()))
	h.lastSnap = h.snapshotN(true).String()
	h.stats["op=concurrent:"+strings.Join(kinds, "+")]++
	return outs
}

// all interleavings of threads with the given numbers of steps (as schedules), up to limit (0: no limit)
func interleavings(steps []int, limit int) [][]int {
	var out [][]int
	var rec func(rem []int, cur []int)
	rec = func(rem []int, cur []int) {
		if limit > 0 && len(out) >= limit {
			return
		}
		done := true
		for i, r := range rem {
			if r > 0 {
				done = false
				rem[i]--
				rec(rem, append(cur, i))
				rem[i]++
			}
		}
		if done {
			out = append(out, append([]int{}, cur...))
		}
	}
	rec(append([]int{}, steps...), nil)
	return out
}

func randomSchedule(rng *rand.Rand, steps []int) []int {
	var pool []int
	for i, n := range steps {
		for j := 0; j < n; j++ {
			pool = append(pool, i)
		}
	}
	rng.Shuffle(len(pool), func(a, b int) { pool[a], pool[b] = pool[b], pool[a] })
	return pool
}

type schedScenario struct {
	name  string
	steps []int // upper bound of calls per thread (a finished thread ignores further turns)
	build func(h *Hist) []concOp
}

func c01Scenarios() []schedScenario {
	return []schedScenario{
		{"swap||swap(same inputs, different outputs)", []int{5, 5}, func(h *Hist) []concOp {
			h.fundAmount(8)
			ins := h.honestIns(1)
			h.markUncertain(ins)
			return []concOp{h.prepSwap(ins, h.honestSwapOutputs(ins)), h.prepSwap(ins, h.honestSwapOutputs(ins))}
		}},
		{"swap||swap(overlapping inputs)", []int{5, 5}, func(h *Hist) []concOp {
			h.fundAmount(13)
			ins := h.honestIns(3)
			h.markUncertain(ins)
			a, b := ins[:2], ins[1:]
			return []concOp{h.prepSwap(a, h.honestSwapOutputs(a)), h.prepSwap(b, h.honestSwapOutputs(b))}
		}},
		{"swap||melt", []int{5, 9}, func(h *Hist) []concOp {
			h.fundAmount(64)
			q := h.OpMeltQuote(mode{}, 20000, nil, 0, true, true, nil)
			ins := h.honestIns(1)
			h.markUncertain(ins)
			return []concOp{h.prepSwap(ins, h.honestSwapOutputs(ins)), h.prepMelt(q, ins)}
		}},
		{"melt||melt(two quotes)", []int{9, 9}, func(h *Hist) []concOp {
			h.fundAmount(64)
			q1 := h.OpMeltQuote(mode{}, 20000, nil, 0, true, true, nil)
			q2 := h.OpMeltQuote(mode{}, 21000, nil, 0, true, true, nil)
			ins := h.honestIns(1)
			h.markUncertain(ins)
			return []concOp{h.prepMelt(q1, ins), h.prepMelt(q2, ins)}
		}},
		{"melt(pending)||melt(other quote, same inputs)", []int{9, 9}, func(h *Hist) []concOp {
			// the first melt's payment stays in flight: whatever the second, refused one does must leave the lock alone
			h.fundAmount(64)
			q1 := h.OpMeltQuote(mode{}, 20000, nil, 0, true, true, nil)
			q2 := h.OpMeltQuote(mode{}, 21000, nil, 0, true, true, nil)
			h.ScriptPay(q1, 2, 0)
			h.ScriptPay(q2, 2, 0)
			ins := h.honestIns(1)
			h.markUncertain(ins)
			return []concOp{h.prepMelt(q1, ins), h.prepMelt(q2, ins)}
		}},
		{"melt(pending)||swap||poll", []int{9, 5, 6}, func(h *Hist) []concOp {
			h.fundAmount(64)
			q := h.OpMeltQuote(mode{}, 20000, nil, 0, true, true, nil)
			h.ScriptPay(q, 2, 0)
			h.ScriptLook(q, 0, 9)
			ins := h.honestIns(1)
			h.markUncertain(ins)
			return []concOp{h.prepMelt(q, ins), h.prepSwap(ins, h.honestSwapOutputs(ins)), h.prepMeltState(q)}
		}},
	}
}

func c03Scenarios() []schedScenario {
	return []schedScenario{
		{"mint||mint(different outputs)", []int{6, 6}, func(h *Hist) []concOp {
			q := h.OpMintQuote(mode{}, 8, false, false, true)
			h.EnvSettle(q)
			h.OpMintState(mode{}, q, false)
			return []concOp{h.prepMint(q, h.freshOutputs(cashu.AmountSplit(8))), h.prepMint(q, h.freshOutputs(cashu.AmountSplit(8)))}
		}},
		{"mint||mint||poll(unpolled)", []int{7, 7, 3}, func(h *Hist) []concOp {
			q := h.OpMintQuote(mode{}, 8, false, false, true)
			h.EnvSettle(q)
			return []concOp{h.prepMint(q, h.freshOutputs(cashu.AmountSplit(8))), h.prepMint(q, h.freshOutputs(cashu.AmountSplit(8))), h.prepMintState(q)}
		}},
		{"mint||watcher", []int{7, 3}, func(h *Hist) []concOp {
			q := h.OpMintQuote(mode{}, 8, false, false, true)
			h.EnvSettle(q)
			return []concOp{h.prepMint(q, h.freshOutputs(cashu.AmountSplit(8))), h.prepWatcher(q)}
		}},
		{"mint||watcher||mint", []int{7, 3, 7}, func(h *Hist) []concOp {
			q := h.OpMintQuote(mode{}, 8, false, false, true)
			h.EnvSettle(q)
			h.OpMintState(mode{}, q, false)
			return []concOp{h.prepMint(q, h.freshOutputs(cashu.AmountSplit(8))), h.prepWatcher(q), h.prepMint(q, h.freshOutputs(cashu.AmountSplit(8)))}
		}},
	}
}

func schedStream(prop string, scenarios func() []schedScenario, perQuick, perThorough int, follow func(h *Hist)) streamFn {
	return func(sink *Sink, rng *rand.Rand, tier string, scratch string) {
		start := time.Now()
		seed0 := rng.Int63()
		exhaustive := true
		for _, sc := range scenarios() {
			per := perQuick
			if tier == "thorough" {
				per = perThorough
			}
			var scheds [][]int
			all := interleavings(sc.steps, per+1)
			if len(all) <= per {
				scheds = all
			} else {
				exhaustive = false
				// the two sequential orders, then random interleavings
				var seqA, seqB []int
				for i, n := range sc.steps {
					for j := 0; j < n; j++ {
						seqA = append(seqA, i)
					}
				}
				for i := len(sc.steps) - 1; i >= 0; i-- {
					for j := 0; j < sc.steps[i]; j++ {
						seqB = append(seqB, i)
					}
				}
				scheds = append(scheds, seqA, seqB)
				for len(scheds) < per {
					scheds = append(scheds, randomSchedule(rng, sc.steps))
				}
			}
			for _, sched := range scheds {
				cfg := cfgT{feePct: 1, fee0: 0}
				h := NewHist(sink, rand.New(rand.NewSource(seed0)), scratch, cfg, 1, prop)
				ops := sc.build(h)
				h.execConc(ops, sched)
				follow(h)
				h.storeConservation("")
				sink.Stat("scenario=" + sc.name)
				h.Finish(true)
			}
		}
		sink.Close("concurrent requests sharing a secret / a mint quote, parked before every storage and Lightning call and released in the order given by a schedule: "+
			"all interleavings when they fit the tier's budget, otherwise both sequential orders plus random interleavings; non-trivial = every case (a schedule of >= 2 requests); distinct by abstract history", exhaustive, start)
	}
}

func init() {
	register("c01-sched", "C01", schedStream("C01", c01Scenarios, 40, 1500, func(h *Hist) {
		var all []*hSecret
		for _, sh := range h.order {
			if h.secrets[sh].held {
				all = append(all, h.secrets[sh])
			}
		}
		if len(all) > 0 {
			h.OpCheck(mode{}, all, 0)
		}
		for _, qh := range sortedInt64(keysOf(h.lq)) {
			h.OpMeltState(mode{}, h.lq[qh], false)
		}
		h.OpBalance(mode{})
	}))
	register("c03-sched", "C03", schedStream("C03", c03Scenarios, 40, 1500, func(h *Hist) {
		for _, qh := range sortedInt64(keysOf(h.mq)) {
			q := h.mq[qh]
			h.OpMintState(mode{}, q, false)
			h.OpMint(mode{}, q, h.freshOutputs(cashu.AmountSplit(q.amount)), 0, false)
		}
		h.OpBalance(mode{})
	}))
}
