package main

// C18 — Send hands over exactly the requested amount, fees included when asked.
//
// c18-select: the wallet's pure selection arithmetic through the `verif` aliases of /repo/wallet:
//     (1) cashu.AmountSplit on edge amounts (0, 1, 2^k-1, 2^k, 2^63, 2^64-1) and random ones,
//     (2) feesForCount on a grid (incl. counts <= 0 and rates that wrap the uint accumulator),
//     (6) feesForProofs over proofs of the active / inactive / unknown keysets,
//     (3) selectProofsToSend on random multisets of denominations over one active and 0..2
//         inactive keysets, input_fee_ppk in {0,100,250,500,1000,2000}, includeFees on/off,
//         EVERY amount 0..balance+1 for wallets of up to 8 proofs, random amounts for larger ones,
//     (4) the composition selectProofsForAmount -> getProofsForAmount -> swapToSend's arithmetic.
//         /repo exports no alias for these three (they need a Wallet with storage and a mint), so
//         the harness re-states their control flow line by line around the REAL
//         selectProofsToSend / feesForProofs / feesForCount / AmountSplit / splitWalletTarget;
//         the real composition is exercised by c18-send below on the same kind of case,
//     (5) splitWalletTarget through a real Wallet (bolt store on the scratch dir) whose proof
//         store is filled with the case's denominations.
//   Observables are invariant under the tie-break of Go's unstable sort.Slice: sorted multisets
//   of amounts, sums, fees.  A case handed to the model is "tie-safe": either proofs of equal
//   amount have the same fee rate within one selectProofsToSend call (then every tie-break gives
//   the same observables), or the call sees at most 12 proofs (sort.Slice is an insertion sort,
//   i.e. stable, up to 12 elements; the model's sorts are stable and see the same input order).
//
// c18-send: two real wallets (bolt) against an in-process mint (SQLite, the real HTTP handler
//   behind http.DefaultTransport, no sockets): the sender's proof store is filled with proofs
//   signed with the mint's keys, then Wallet.Send(amount, includeFees), then the recipient's
//   Wallet.Receive of the token.  The swap request the sender's wallet posts is recorded at the
//   transport.  Observables: multiset of amounts sent, inputs and outputs of the swap, fee the
//   mint charges, amount the recipient ends up with.
//
// Monitors (independent of the model, on the implementation's own results):
//   select-not-distinct-members   a selection is not a set of distinct members of the wallet
//   select-sum-short inc=..       Ok selection worth less than amount (+ its own fee)
//   select-live-refused inc=..    selectProofsToSend refuses although amount + fee(all) <= sum
//   send-offline-inexact inc=..   stored proofs handed out that are not worth amount (+ own fee)
//   send-split-sum                send split does not add up to amount + fee estimate
//   send-fee-mismatch ppk=P nsend=N   includeFees: fee estimated for the recipient differs from
//                                 the fee the mint charges for the proofs actually produced
//                                 (N = number of proofs of the bare amount, ">8" above 8)
//   send-inputs-short             swap inputs worth less than outputs + input fee
//   send-live-refused inactive=.. inc=..   a send of no more than balance - fee(all proofs) -
//                                 fee(proofs sent) is refused
//   split-target-sum              splitWalletTarget does not add up
//   c18-send only: the recipient not netting the amount with includeFees is reported under the
//   send-fee-mismatch signature when the swap's estimate is off, else send-net-mismatch offline=.. ppk=..;
//   receive-amount-mismatch, send-not-removed, send-not-unspent, send-duplicate-proofs,
//   send-balance-mismatch, send-many-swaps, send-error-unexpected

import (
	"sync"
	"errors"
	"fmt"
	"io"
	"math/bits"
	"math/rand"
	"net/http"
	"net/http/httptest"
	"os"
	"sort"
	"strings"
	"time"

	"encoding/json"

	"github.com/elnosh/gonuts/cashu"
	"github.com/elnosh/gonuts/cashu/nuts/nut03"
	"github.com/elnosh/gonuts/cashu/nuts/nut07"
	"github.com/elnosh/gonuts/mint"
	"github.com/elnosh/gonuts/wallet"
	"github.com/elnosh/gonuts/wallet/storage"
)

const selFamily = 3

func selCase(items ...S) S { return L(A(selFamily), L(items...)) }

var selPpks = []uint{0, 100, 250, 500, 1000, 2000}

// abstract case ---------------------------------------------------------------------------

type selProof struct {
	amount uint64
	kidx   int // 0 = active keyset, 1.. = inactive keysets, 9 = a keyset the mint entry does not know
}

type selKs struct {
	kidx int
	fee  uint
}

type selWorld struct {
	activeFee uint
	inactive  []selKs
	idOf      func(kidx int) string
}

func (w selWorld) feeMap() map[string]uint {
	m := map[string]uint{}
	for _, k := range w.inactive {
		m[w.idOf(k.kidx)] = k.fee
	}
	return m
}

func (w selWorld) ppkOf(kidx int) uint {
	if kidx == 0 {
		return w.activeFee
	}
	for _, k := range w.inactive {
		if k.kidx == kidx {
			return k.fee
		}
	}
	return 0
}

func (w selWorld) ksS() S {
	items := make([]S, len(w.inactive))
	for i, k := range w.inactive {
		items[i] = L(A(int64(k.kidx)), AU(uint64(k.fee)))
	}
	return LL(items)
}

func selProofsS(ps []selProof) S {
	items := make([]S, len(ps))
	for i, p := range ps {
		items[i] = L(AU(p.amount), A(int64(p.kidx)))
	}
	return LL(items)
}

func selDefaultId(kidx int) string { return fmt.Sprintf("00c18a%010d", kidx) }

// secrets are "<tag>-<uid>": uid = position in the case (inactive first, then active)
func selGoProofs(w selWorld, ps []selProof, uid0 int, tag string) cashu.Proofs {
	out := make(cashu.Proofs, len(ps))
	for i, p := range ps {
		out[i] = cashu.Proof{Amount: p.amount, Id: w.idOf(p.kidx), Secret: fmt.Sprintf("%s-%d", tag, uid0+i), C: "02"}
	}
	return out
}

func selCopy(ps cashu.Proofs) cashu.Proofs {
	out := make(cashu.Proofs, len(ps))
	copy(out, ps)
	return out
}

func selSortedAmounts(ps cashu.Proofs) []uint64 {
	out := make([]uint64, len(ps))
	for i, p := range ps {
		out[i] = p.Amount
	}
	sort.Slice(out, func(i, j int) bool { return out[i] < out[j] })
	return out
}

func selU64S(xs []uint64) S {
	items := make([]S, len(xs))
	for i, x := range xs {
		items[i] = AU(x)
	}
	return LL(items)
}

func selSum(xs []uint64) uint64 {
	var s uint64
	for _, x := range xs {
		s += x
	}
	return s
}

// the harness's own fee computation (NUT-02), used by the monitors only
func selFeeIndep(w selWorld, ps cashu.Proofs) uint64 {
	ppkById := map[string]uint{w.idOf(0): w.activeFee}
	for _, k := range w.inactive {
		ppkById[w.idOf(k.kidx)] = k.fee
	}
	var sum uint64
	for _, p := range ps {
		sum += uint64(ppkById[p.Id])
	}
	return (sum + 999) / 1000
}

func selFeeCountIndep(n int, ppk uint) uint64 { return (uint64(n)*uint64(ppk) + 999) / 1000 }

// distinct members of the wallet?
func selDistinctMembers(sel cashu.Proofs, wallet cashu.Proofs) bool {
	have := map[string]uint64{}
	for _, p := range wallet {
		have[p.Secret] = p.Amount
	}
	seen := map[string]bool{}
	for _, p := range sel {
		a, ok := have[p.Secret]
		if !ok || a != p.Amount || seen[p.Secret] {
			return false
		}
		seen[p.Secret] = true
	}
	return true
}

// the monitors state the property on its domain: balance < 2^63 (no uint64 wrap)
func selInRange(ps cashu.Proofs) bool {
	var s uint64
	for _, p := range ps {
		if p.Amount >= 1<<63 || s+p.Amount >= 1<<63 {
			return false
		}
		s += p.Amount
	}
	return true
}

func selErrCode(err error) int64 {
	if errors.Is(err, wallet.ErrInsufficientMintBalance) {
		return 1
	}
	if strings.HasPrefix(err.Error(), "insufficient funds for transaction") {
		return 2
	}
	return 3
}

// the real selectProofsToSend (it sorts its argument in place: hand it a copy)
func selCallSelect(w selWorld, proofs cashu.Proofs, amount uint64, inc bool) (sel cashu.Proofs, err error, panicked bool) {
	defer func() {
		if r := recover(); r != nil {
			panicked = true
			err = fmt.Errorf("panic: %v", r)
		}
	}()
	sel, err = wallet.VerifSelectProofsToSend(selCopy(proofs), amount, w.idOf(0), w.activeFee, w.feeMap(), inc)
	return
}

func selFees(w selWorld, ps cashu.Proofs) uint64 {
	return uint64(wallet.VerifFeesForProofs(ps, w.idOf(0), w.activeFee, w.feeMap()))
}

// one example per signature (the sink keeps 50 violations), the rest is counted
var selSeenSig = map[string]bool{}

func selViolate(sink *Sink, sig, detail, c string) {
	sink.Stat("violation " + sig)
	if !selSeenSig[sig] {
		selSeenSig[sig] = true
		sink.Violate(sig, detail, c, nil)
	}
}

// signature of the fee-estimate defect: narrow (fee rate, number of proofs of the bare amount) but
// bounded, so that the set of signatures is finite
func selFeeSig(ppk uint, nsend int) string {
	if nsend > 8 {
		return fmt.Sprintf("send-fee-mismatch ppk=%d nsend>8", ppk)
	}
	return fmt.Sprintf("send-fee-mismatch ppk=%d nsend=%d", ppk, nsend)
}

func selB(b bool) int {
	if b {
		return 1
	}
	return 0
}

// ---- stream 3: selectProofsToSend ----

func selRun3(sink *Sink, w selWorld, ps []selProof, amount uint64, inc bool) {
	proofs := selGoProofs(w, ps, 0, "p")
	c := selCase(A(3), AB(inc), AU(amount), AU(uint64(w.activeFee)), w.ksS(), selProofsS(ps))
	sel, err, panicked := selCallSelect(w, proofs, amount, inc)
	var obs S
	switch {
	case panicked:
		obs = L(A(-2))
		selViolate(sink, "select-panic", err.Error(), c.String())
	case err != nil:
		obs = L(A(0), A(selErrCode(err)))
	default:
		obs = L(A(1), selU64S(selSortedAmounts(sel)), AU(sel.Amount()), AU(selFees(w, sel)))
	}
	sink.Add(c, obs, err == nil && len(sel) >= 2)
	if err == nil {
		sink.Stat(fmt.Sprintf("select nsel=%s", selBucket(len(sel))))
	} else {
		sink.Stat(fmt.Sprintf("select err=%d", selErrCode(err)))
	}
	if panicked || !selInRange(proofs) || amount >= 1<<62 {
		sink.Stat("select out-of-range(no monitor)")
		return
	}
	balance := proofs.Amount()
	if err == nil {
		if !selDistinctMembers(sel, proofs) {
			selViolate(sink, "select-not-distinct-members", fmt.Sprintf("selected %v", sel), c.String())
		}
		need := amount
		if inc {
			need += selFeeIndep(w, sel)
		}
		if sel.Amount() < need {
			selViolate(sink, fmt.Sprintf("select-sum-short inc=%d", selB(inc)),
				fmt.Sprintf("selected %d < %d", sel.Amount(), need), c.String())
		}
	} else {
		need := amount
		if inc {
			need += selFeeIndep(w, proofs)
		}
		if need <= balance {
			selViolate(sink, fmt.Sprintf("select-live-refused inc=%d", selB(inc)),
				fmt.Sprintf("balance %d covers %d, got: %v", balance, need, err), c.String())
		}
	}
}

func selBucket(n int) string {
	switch {
	case n <= 4:
		return fmt.Sprint(n)
	case n <= 8:
		return "5-8"
	case n <= 16:
		return "9-16"
	default:
		return ">16"
	}
}

// ---- stream 4: selectProofsForAmount / getProofsForAmount / swapToSend (arithmetic) ----
// Line-by-line restatement of the control flow of wallet.go around the real primitives.

func selForAmount(w selWorld, inactive, active cashu.Proofs, amount uint64, inc bool) (cashu.Proofs, error) {
	var selected cashu.Proofs
	var fees uint64
	if len(inactive) > 0 {
		if inactive.Amount() < amount {
			selected = selCopy(inactive)
		} else {
			selected, _, _ = selCallSelect(w, inactive, amount, inc)
		}
		if inc {
			fees = selFees(w, selected)
		}
	}
	total := amount + fees
	selectedAmount := selected.Amount()
	if selectedAmount >= total {
		return selected, nil
	}
	remaining := total - selectedAmount
	rest, err, _ := selCallSelect(w, active, remaining, inc)
	if err != nil {
		return nil, err
	}
	return append(selected, rest...), nil
}

type selPlan struct {
	offline     bool
	sent        []uint64 // sorted amounts handed out
	sentProofs  cashu.Proofs
	feeEstimate uint64
	nsend       int // len(AmountSplit(amount))
	inputs      cashu.Proofs
	inputFee    uint64
	change      uint64
	changeSplit []uint64
}

func selGetProofsForAmount(w selWorld, inactive, active cashu.Proofs, amount uint64, inc bool,
	splitTarget func(uint64) []uint64) (plan selPlan, err error) {
	defer func() {
		if r := recover(); r != nil {
			err = fmt.Errorf("panic: %v", r)
		}
	}()
	selected, err := selForAmount(w, inactive, active, amount, inc)
	if err != nil {
		return plan, err
	}
	var fees uint64
	if inc {
		fees = selFees(w, selected)
	}
	if selected.Amount() == amount+fees {
		return selPlan{offline: true, sent: selSortedAmounts(selected), sentProofs: selected}, nil
	}
	// swapToSend
	splitForSend := cashu.AmountSplit(amount)
	plan.nsend = len(splitForSend)
	var feesToReceive uint64
	if inc {
		feesToReceive = uint64(wallet.VerifFeesForCount(len(splitForSend)+1, w.activeFee))
		amount += feesToReceive
	}
	inputs, err := selForAmount(w, inactive, active, amount, true)
	if err != nil {
		return plan, err
	}
	split := append(splitForSend, cashu.AmountSplit(feesToReceive)...)
	sort.Slice(split, func(i, j int) bool { return split[i] < split[j] })
	proofsAmount := inputs.Amount()
	inFees := selFees(w, inputs)
	plan.feeEstimate = feesToReceive
	plan.sent = split
	plan.inputs = inputs
	plan.inputFee = inFees
	plan.change = proofsAmount - amount - inFees
	if plan.change > 0 {
		plan.changeSplit = splitTarget(plan.change)
	}
	return plan, nil
}

func selPlanObs(p selPlan) []S {
	if p.offline {
		return []S{A(1), selU64S(p.sent)}
	}
	return []S{A(2), AU(p.feeEstimate), selU64S(p.sent), selU64S(selSortedAmounts(p.inputs)), AU(p.inputFee),
		AU(p.change), selU64S(p.changeSplit)}
}

// monitors shared by streams 4 and 7 (plan: what the implementation did / would do)
func selPlanMonitors(sink *Sink, w selWorld, all cashu.Proofs, hasInactive bool, amount uint64, inc bool,
	plan selPlan, err error, c string) {
	if !selInRange(all) || amount >= 1<<62 || amount == 0 {
		sink.Stat("send out-of-range(no monitor)")
		return
	}
	balance := all.Amount()
	if err != nil {
		// sufficiency: balance - fee of spending every proof - fee of the proofs sent
		need := amount + selFeeIndep(w, all)
		if inc {
			need += selFeeCountIndep(bits.OnesCount64(amount)+1, w.activeFee)
		}
		if need <= balance {
			selViolate(sink, fmt.Sprintf("send-live-refused inactive=%d inc=%d", selB(hasInactive), selB(inc)),
				fmt.Sprintf("balance %d, amount %d + fee of all proofs + fee of the proofs sent = %d, got: %v", balance, amount, need, err),
				c)
		}
		return
	}
	if plan.offline {
		if !selDistinctMembers(plan.sentProofs, all) {
			selViolate(sink, "select-not-distinct-members", fmt.Sprintf("handed out %v", plan.sentProofs), c)
		}
		want := amount
		if inc {
			want += selFeeIndep(w, plan.sentProofs)
		}
		if selSum(plan.sent) != want {
			selViolate(sink, fmt.Sprintf("send-offline-inexact inc=%d", selB(inc)),
				fmt.Sprintf("handed out %v = %d, wanted %d", plan.sent, selSum(plan.sent), want), c)
		}
		return
	}
	if !selDistinctMembers(plan.inputs, all) {
		selViolate(sink, "select-not-distinct-members", fmt.Sprintf("swap inputs %v", plan.inputs), c)
	}
	if selSum(plan.sent) != amount+plan.feeEstimate {
		selViolate(sink, "send-split-sum", fmt.Sprintf("send split %v, amount %d, fee estimate %d", plan.sent, amount, plan.feeEstimate), c)
	}
	if inc {
		actual := selFeeCountIndep(len(plan.sent), w.activeFee)
		if actual != plan.feeEstimate {
			selViolate(sink, selFeeSig(w.activeFee, plan.nsend),
				fmt.Sprintf("amount %d: fee estimated for %d+1 proofs = %d, hand-out %v has %d proofs, the mint charges %d, the recipient nets %d",
					amount, plan.nsend, plan.feeEstimate, plan.sent, len(plan.sent), actual, int64(selSum(plan.sent))-int64(actual)), c)
		}
	}
	inSum := plan.inputs.Amount()
	if inSum < selSum(plan.sent)+selFeeIndep(w, plan.inputs) ||
		inSum != selSum(plan.sent)+selSum(plan.changeSplit)+selFeeIndep(w, plan.inputs) {
		selViolate(sink, "send-inputs-short", fmt.Sprintf("inputs %d, send %d, change %v, input fee %d",
			inSum, selSum(plan.sent), plan.changeSplit, selFeeIndep(w, plan.inputs)), c)
	}
}

func selRun4(sink *Sink, env *selEnv, w selWorld, ina, act []selProof, amount uint64, inc bool) {
	inactive := selGoProofs(w, ina, 0, "p")
	active := selGoProofs(w, act, len(ina), "p")
	c := selCase(A(4), AB(inc), AU(amount), AU(uint64(w.activeFee)), w.ksS(), selProofsS(ina), selProofsS(act))
	plan, err := selGetProofsForAmount(w, inactive, active, amount, inc, func(change uint64) []uint64 {
		return env.splitTarget(change)
	})
	var obs S
	if err != nil {
		code := selErrCode(err)
		obs = L(A(0), A(code))
		if code == 3 {
			selViolate(sink, "send-panic", err.Error(), c.String())
		}
		sink.Stat(fmt.Sprintf("plan err=%d", code))
	} else {
		obs = LL(selPlanObs(plan))
		if plan.offline {
			sink.Stat("plan offline")
		} else {
			sink.Stat(fmt.Sprintf("plan swap change=%v", plan.change > 0))
		}
	}
	sink.Add(c, obs, err == nil && len(ina)+len(act) >= 2)
	all := append(selCopy(inactive), active...)
	selPlanMonitors(sink, w, all, len(ina) > 0, amount, inc, plan, err, c.String())
}

// ---- generators ----

func selPickPpk(rng *rand.Rand) uint { return selPpks[rng.Intn(len(selPpks))] }

func selGenWorld(rng *rand.Rand, idOf func(int) string) selWorld {
	w := selWorld{activeFee: selPickPpk(rng), idOf: idOf}
	n := rng.Intn(3)
	same := rng.Intn(4) == 0
	for k := 1; k <= n; k++ {
		f := selPickPpk(rng)
		if same {
			f = w.activeFee
		}
		w.inactive = append(w.inactive, selKs{k, f})
	}
	return w
}

// exponent of a denomination: small ones more often
func selGenExp(rng *rand.Rand, maxExp int) int {
	e := rng.Intn(maxExp + 1)
	if rng.Intn(2) == 0 {
		e = rng.Intn(e + 1)
	}
	return e
}

func selGenProofs(rng *rand.Rand, n, maxExp int, kidx func() int) []selProof {
	ps := make([]selProof, n)
	for i := range ps {
		ps[i] = selProof{amount: 1 << uint(selGenExp(rng, maxExp)), kidx: kidx()}
	}
	return ps
}

// make proofs of equal amount carry the same fee rate (every tie-break then gives the same observables)
func selTieSafe(w selWorld, ps []selProof) {
	first := map[uint64]int{}
	for i, p := range ps {
		if k, ok := first[p.amount]; ok {
			if w.ppkOf(k) != w.ppkOf(p.kidx) {
				ps[i].kidx = k
			}
		} else {
			first[p.amount] = p.kidx
		}
	}
}

func selAmountOf(ps []selProof) uint64 {
	var s uint64
	for _, p := range ps {
		s += p.amount
	}
	return s
}

// amounts worth trying on a wallet with this balance
func selGenAmounts(rng *rand.Rand, balance uint64, n int) []uint64 {
	out := []uint64{}
	for i := 0; i < n; i++ {
		var a uint64
		switch rng.Intn(8) {
		case 0:
			a = balance - uint64(rng.Intn(4)) // close to everything
		case 1:
			a = uint64(rng.Intn(16)) + 1
		case 2:
			a = uint64(1) << uint(rng.Intn(bits.Len64(balance|1))) // a power of two
		case 3:
			a = (uint64(1) << uint(rng.Intn(bits.Len64(balance|1)))) - 1
		default:
			if balance > 0 {
				a = uint64(rng.Int63n(int64(balance&(1<<62-1))+1)) + 1
			}
		}
		if a > balance+1 {
			a = balance
		}
		out = append(out, a)
	}
	return out
}

// ---- a real wallet on a real (in-process) mint ----

type selRT struct {
	handler http.Handler
	swaps   []nut03.PostSwapRequest
	panics  int
	mu      sync.Mutex
	gate    chan struct{} // when set: the first swap request reports its arrival and waits for release (or 400 ms)
	arrived chan struct{}
}

func (rt *selRT) RoundTrip(req *http.Request) (resp *http.Response, err error) {
	defer func() {
		if r := recover(); r != nil {
			rt.panics++
			resp, err = nil, fmt.Errorf("mint handler panic: %v", r)
		}
	}()
	if req.Method == http.MethodPost && strings.HasSuffix(req.URL.Path, "/v1/swap") && req.Body != nil {
		body, _ := io.ReadAll(req.Body)
		var sr nut03.PostSwapRequest
		rt.mu.Lock()
		if json.Unmarshal(body, &sr) == nil {
			rt.swaps = append(rt.swaps, sr)
		}
		gate, arrived := rt.gate, rt.arrived
		rt.gate, rt.arrived = nil, nil
		rt.mu.Unlock()
		req.Body = io.NopCloser(strings.NewReader(string(body)))
		if gate != nil {
			close(arrived)
			select {
			case <-gate:
			case <-time.After(400 * time.Millisecond):
			}
		}
	}
	rec := httptest.NewRecorder()
	rt.handler.ServeHTTP(rec, req)
	return rec.Result(), nil
}

type selEnv struct {
	tm     *TM
	rt     *selRT
	url    string
	dir    string
	fees   [3]uint   // by derivation order; the last one is the active keyset
	ids    [3]string // same order
	sender *wallet.Wallet
	sdb    storage.WalletDB
	recv   *wallet.Wallet
	rdb    storage.WalletDB
	stored map[string]bool // secrets in the sender's proof store
	serial int
}

func selLoadWallet(dir, url string) (*wallet.Wallet, storage.WalletDB) {
	w, err := wallet.LoadWallet(wallet.Config{WalletPath: dir, CurrentMintURL: url})
	must(err)
	var db storage.WalletDB
	w.VerifWrapDB(func(d storage.WalletDB) storage.WalletDB { db = d; return d })
	return w, db
}

func newSelEnv(scratch string, rng *rand.Rand, fees [3]uint, withRecv bool) *selEnv {
	tm := NewTM(scratch, rng, func(c *mint.Config) { c.InputFeePpk = fees[0] })
	_, err := tm.M.RotateKeyset(fees[1])
	must(err)
	_, err = tm.M.RotateKeyset(fees[2])
	must(err)
	tm.deriveKeysets()
	if len(tm.Order) != 3 || tm.ActiveId() != tm.Order[2] {
		panic("c18: unexpected keyset order")
	}
	srv := mint.SetupMintServer(tm.M, mint.ServerConfig{})
	env := &selEnv{tm: tm, rt: &selRT{handler: srv.VerifHandler()}, url: "http://c18-mint.verif:3338", fees: fees, stored: map[string]bool{}}
	copy(env.ids[:], tm.Order)
	http.DefaultTransport = env.rt
	dir, err := os.MkdirTemp(scratch, "c18w")
	must(err)
	env.dir = dir
	env.sender, env.sdb = selLoadWallet(dir+"/s", env.url)
	if withRecv {
		env.recv, env.rdb = selLoadWallet(dir+"/r", env.url)
	}
	return env
}

func (e *selEnv) Close() {
	e.sender.Shutdown()
	if e.recv != nil {
		e.recv.Shutdown()
	}
	e.tm.Close()
	os.RemoveAll(e.dir)
}

// kidx 0 = active (derivation index 2), 1 and 2 = the inactive keysets in derivation order
func (e *selEnv) idOf(kidx int) string {
	switch kidx {
	case 0:
		return e.ids[2]
	case 1:
		return e.ids[0]
	case 2:
		return e.ids[1]
	}
	return selDefaultId(kidx)
}

func (e *selEnv) world() selWorld {
	return selWorld{activeFee: e.fees[2], inactive: []selKs{{1, e.fees[0]}, {2, e.fees[1]}}, idOf: e.idOf}
}

// replace the content of the sender's proof store
func (e *selEnv) setStore(proofs cashu.Proofs) {
	for _, p := range e.sdb.GetProofs() {
		must(e.sdb.DeleteProof(p.Secret))
	}
	must(e.sdb.SaveProofs(proofs))
}

func (e *selEnv) splitTarget(amount uint64) []uint64 {
	return e.sender.VerifSplitWalletTarget(amount, e.url)
}

// ---- stream 5: splitWalletTarget ----

func selRun5(sink *Sink, env *selEnv, walletAmounts []uint64, amount uint64) {
	c := selCase(A(5), AU(amount), selU64S(walletAmounts))
	var got []uint64
	var perr any
	func() {
		defer func() { perr = recover() }()
		got = env.splitTarget(amount)
	}()
	if perr != nil {
		sink.Add(c, L(A(-2)), false)
		selViolate(sink, "split-target-panic", fmt.Sprint(perr), c.String())
		return
	}
	sink.Add(c, selU64S(got), len(got) >= 2)
	sink.Stat(fmt.Sprintf("split n=%s", selBucket(len(got))))
	if selSum(got) != amount {
		selViolate(sink, "split-target-sum", fmt.Sprintf("split %v of %d", got, amount), c.String())
	}
}

// ---- the stream ----

func streamC18Select(sink *Sink, rng *rand.Rand, tier string, scratch string) {
	start := time.Now()
	scale := 1
	if tier == "thorough" {
		scale = 10
	}

	// (1) AmountSplit
	amounts := []uint64{0, 1, 1 << 63, ^uint64(0)}
	for k := uint(0); k < 64; k++ {
		amounts = append(amounts, uint64(1)<<k, (uint64(1)<<k)-1, (uint64(1)<<k)+1)
	}
	for i := 0; i < 300*scale; i++ {
		amounts = append(amounts, rng.Uint64()>>uint(rng.Intn(64)))
	}
	for _, a := range amounts {
		got := cashu.AmountSplit(a)
		sink.Add(selCase(A(1), AU(a)), selU64S(got), false)
		sink.Stat("amount-split")
		ok := selSum(got) == a && len(got) == bits.OnesCount64(a)
		for i := range got {
			if bits.OnesCount64(got[i]) != 1 || (i > 0 && got[i-1] >= got[i]) {
				ok = false
			}
		}
		if !ok {
			selViolate(sink, "amount-split-wrong", fmt.Sprintf("AmountSplit(%d) = %v", a, got), fmt.Sprint(a))
		}
	}

	// (2) feesForCount
	counts := []int{-3, -1, 0, 64, 100, 999, 1000, 1001}
	for n := 1; n <= 40; n++ {
		counts = append(counts, n)
	}
	ppks := []uint{0, 1, 99, 100, 250, 333, 500, 999, 1000, 1001, 2000, 123456, 1 << 61, 1<<63 + 5, ^uint(0)}
	for _, n := range counts {
		for _, ppk := range ppks {
			got := wallet.VerifFeesForCount(n, ppk)
			sink.Add(selCase(A(2), A(int64(n)), AU(uint64(ppk))), L(AU(uint64(got))), false)
			sink.Stat("fees-for-count")
		}
	}

	// (6) feesForProofs
	for i := 0; i < 300*scale; i++ {
		w := selGenWorld(rng, selDefaultId)
		if rng.Intn(10) == 0 {
			w.activeFee = uint(rng.Uint64()) // wraps the accumulator
		}
		ps := selGenProofs(rng, rng.Intn(25), 10, func() int {
			if rng.Intn(12) == 0 {
				return 9
			}
			return rng.Intn(len(w.inactive) + 1)
		})
		proofs := selGoProofs(w, ps, 0, "p")
		sink.Add(selCase(A(6), AU(uint64(w.activeFee)), w.ksS(), selProofsS(ps)), L(AU(selFees(w, proofs))), false)
		sink.Stat("fees-for-proofs")
	}

	// (3) selectProofsToSend
	// small wallets, every amount
	for i := 0; i < 45*scale; i++ {
		w := selGenWorld(rng, selDefaultId)
		n := 1 + rng.Intn(8)
		ps := selGenProofs(rng, n, 2+rng.Intn(4), func() int {
			if rng.Intn(25) == 0 {
				return 9
			}
			return rng.Intn(len(w.inactive) + 1)
		})
		balance := selAmountOf(ps)
		sink.Stat(fmt.Sprintf("select wallet n=%s exhaustive", selBucket(n)))
		for a := uint64(0); a <= balance+1; a++ {
			selRun3(sink, w, ps, a, false)
			selRun3(sink, w, ps, a, true)
		}
	}
	// larger wallets, random amounts
	for i := 0; i < 250*scale; i++ {
		w := selGenWorld(rng, selDefaultId)
		n := 9 + rng.Intn(40)
		maxExp := []int{6, 10, 20, 40, 57}[rng.Intn(5)]
		ps := selGenProofs(rng, n, maxExp, func() int { return rng.Intn(len(w.inactive) + 1) })
		if n > 12 {
			selTieSafe(w, ps)
		}
		sink.Stat(fmt.Sprintf("select wallet n=%s random", selBucket(n)))
		for _, a := range selGenAmounts(rng, selAmountOf(ps), 6) {
			selRun3(sink, w, ps, a, rng.Intn(2) == 0)
		}
	}
	// amounts that wrap uint64: the implementation's arithmetic against the model's (no monitor)
	for i := 0; i < 40*scale; i++ {
		w := selGenWorld(rng, selDefaultId)
		n := 2 + rng.Intn(9)
		ps := make([]selProof, n)
		for j := range ps {
			ps[j] = selProof{amount: rng.Uint64() >> uint(rng.Intn(3)), kidx: rng.Intn(len(w.inactive) + 1)}
		}
		selRun3(sink, w, ps, rng.Uint64()>>uint(rng.Intn(4)), rng.Intn(2) == 0)
	}

	// (4) and (5) need a Wallet for splitWalletTarget
	env := newSelEnv(scratch, rng, [3]uint{0, 0, 0}, false)
	defer env.Close()
	genSplit := func(ps []selProof, n int) ([]selProof, []selProof) {
		// inactive-keyset proofs first, as getInactiveProofsByMint / getActiveProofsByMint return them
		var ina, act []selProof
		for _, p := range ps {
			if p.kidx == 0 {
				act = append(act, p)
			} else {
				ina = append(ina, p)
			}
		}
		return ina, act
	}
	run4wallet := func(small bool) {
		w := selGenWorld(rng, env.idOf)
		var ps []selProof
		kidx := func() int {
			if rng.Intn(3) == 0 {
				return rng.Intn(len(w.inactive) + 1)
			}
			return 0
		}
		if small {
			ps = selGenProofs(rng, 1+rng.Intn(8), 2+rng.Intn(4), kidx)
		} else {
			ps = selGenProofs(rng, 9+rng.Intn(40), []int{6, 10, 20, 40, 57}[rng.Intn(5)], kidx)
		}
		ina, act := genSplit(ps, len(w.inactive))
		if len(ina) > 12 {
			selTieSafe(w, ina)
		}
		all := append(selGoProofs(w, ina, 0, "p"), selGoProofs(w, act, len(ina), "p")...)
		env.setStore(all)
		balance := selAmountOf(ps)
		if small {
			sink.Stat(fmt.Sprintf("plan wallet n=%s exhaustive inactive=%v", selBucket(len(ps)), len(ina) > 0))
			for a := uint64(1); a <= balance+1; a++ {
				selRun4(sink, env, w, ina, act, a, false)
				selRun4(sink, env, w, ina, act, a, true)
			}
		} else {
			sink.Stat(fmt.Sprintf("plan wallet n=%s random inactive=%v", selBucket(len(ps)), len(ina) > 0))
			for _, a := range selGenAmounts(rng, balance, 6) {
				selRun4(sink, env, w, ina, act, a, rng.Intn(2) == 0)
			}
		}
	}
	for i := 0; i < 70*scale; i++ {
		run4wallet(true)
	}
	for i := 0; i < 200*scale; i++ {
		run4wallet(false)
	}

	// (5) splitWalletTarget
	for i := 0; i < 120*scale; i++ {
		w := env.world()
		ps := selGenProofs(rng, rng.Intn(30), []int{3, 6, 12, 59}[rng.Intn(4)], func() int { return rng.Intn(3) })
		if rng.Intn(6) == 0 {
			// more than three of a kind: the uint subtraction 3 - count wraps
			for j := range ps {
				ps[j].amount = 1 << uint(rng.Intn(3))
			}
		}
		env.setStore(selGoProofs(w, ps, 0, "p"))
		held := make([]uint64, len(ps))
		for j, p := range ps {
			held[j] = p.amount
		}
		for j := 0; j < 5; j++ {
			a := uint64(rng.Intn(200))
			switch rng.Intn(5) {
			case 0:
				a = rng.Uint64() >> uint(4+rng.Intn(60))
			case 1:
				a = uint64(j)
			}
			selRun5(sink, env, held, a)
		}
	}

	sink.Close("AmountSplit on edge + random amounts; feesForCount grid; feesForProofs; selectProofsToSend and the "+
		"getProofsForAmount/swapToSend arithmetic on random multisets of power-of-two denominations over one active and 0..2 inactive "+
		"keysets, ppk in {0,100,250,500,1000,2000}, includeFees on/off, every amount 0..balance+1 for wallets of up to 8 proofs, "+
		"random amounts (near the balance, small, 2^k, 2^k-1, uniform) for wallets of 9..48 proofs, a few uint64-wrapping wallets; "+
		"splitWalletTarget through a real Wallet; non-trivial = a successful selection / plan on a wallet of >= 2 proofs; distinct by abstract case",
		false, start)
}

// ---- c18-send: real wallets, real mint ----

func selRun7(sink *Sink, env *selEnv, ina, act []selProof, amount uint64, inc bool) {
	w := env.world()
	env.serial++
	tag := fmt.Sprintf("c18-%d-%d", sink.rep.Seed, env.serial)
	c := selCase(A(7), AB(inc), AU(amount), AU(uint64(w.activeFee)), w.ksS(), selProofsS(ina), selProofsS(act))
	cs := c.String()
	// fill the sender's store with proofs carrying the mint's signature
	var all cashu.Proofs
	for i, p := range append(append([]selProof{}, ina...), act...) {
		all = append(all, env.tm.SignDirect(fmt.Sprintf("%s-%d", tag, i), p.amount, env.idOf(p.kidx)))
	}
	env.setStore(all)
	pend := []string{}
	for _, p := range env.sdb.GetPendingProofs() {
		pend = append(pend, p.Y)
	}
	if len(pend) > 0 {
		must(env.sdb.DeletePendingProofs(pend))
	}
	for _, p := range env.rdb.GetProofs() {
		must(env.rdb.DeleteProof(p.Secret))
	}
	env.rt.swaps = nil
	balance := env.sender.GetBalance()

	var sent cashu.Proofs
	var err error
	func() {
		defer func() {
			if r := recover(); r != nil {
				err = fmt.Errorf("panic: %v", r)
			}
		}()
		sent, err = env.sender.Send(amount, env.url, inc)
	}()
	plan := selPlan{nsend: bits.OnesCount64(amount)}
	var obs []S
	net := int64(-1)
	if err != nil {
		code := selErrCode(err)
		obs = []S{A(0), A(code)}
		if code == 3 {
			selViolate(sink, "send-error-unexpected", err.Error(), cs)
		}
		sink.Stat(fmt.Sprintf("send err=%d", code))
	} else {
		plan.sent = selSortedAmounts(sent)
		plan.sentProofs = sent
		switch len(env.rt.swaps) {
		case 0:
			plan.offline = true
			sink.Stat("send offline")
		case 1:
			sr := env.rt.swaps[0]
			plan.inputs = sr.Inputs
			plan.inputFee = uint64(env.tm.M.TransactionFees(sr.Inputs))
			plan.feeEstimate = selSum(plan.sent) - amount
			outs := make([]uint64, len(sr.Outputs))
			for i, o := range sr.Outputs {
				outs[i] = o.Amount
			}
			// change = outputs minus the proofs handed out (as multisets)
			rest := map[uint64]int{}
			for _, a := range plan.sent {
				rest[a]++
			}
			for _, a := range outs {
				if rest[a] > 0 {
					rest[a]--
				} else {
					plan.changeSplit = append(plan.changeSplit, a)
				}
			}
			sort.Slice(plan.changeSplit, func(i, j int) bool { return plan.changeSplit[i] < plan.changeSplit[j] })
			plan.change = selSum(plan.changeSplit)
			sink.Stat(fmt.Sprintf("send swap change=%v", plan.change > 0))
		default:
			selViolate(sink, "send-many-swaps", fmt.Sprintf("%d swap requests", len(env.rt.swaps)), cs)
		}
		obs = selPlanObs(plan)

		// the proofs handed out: pairwise distinct, gone from the spendable balance, unspent at the mint
		seen := map[string]bool{}
		ys := []string{}
		for _, p := range sent {
			if seen[p.Secret] {
				selViolate(sink, "send-duplicate-proofs", p.Secret, cs)
			}
			seen[p.Secret] = true
			ys = append(ys, Yhex(p.Secret))
		}
		for _, p := range env.sdb.GetProofs() {
			if seen[p.Secret] {
				selViolate(sink, "send-not-removed", p.Secret, cs)
			}
		}
		if states, e := env.tm.M.ProofsStateCheck(ys); e == nil {
			for _, st := range states {
				if st.State != nut07.Unspent {
					selViolate(sink, "send-not-unspent", fmt.Sprintf("%s %v", st.Y, st.State), cs)
				}
			}
		}
		after := env.sender.GetBalance()
		want := balance - selSum(plan.sent)
		if !plan.offline {
			want -= plan.inputFee
		}
		if after != want {
			selViolate(sink, "send-balance-mismatch", fmt.Sprintf("before %d, sent %v, input fee %d, after %d", balance, plan.sent, plan.inputFee, after), cs)
		}

		// the recipient redeems
		mintFee := uint64(env.tm.M.TransactionFees(sent))
		func() {
			defer func() {
				if r := recover(); r != nil {
					sink.Stat("receive panic")
				}
			}()
			tok, e := cashu.NewTokenV4(selCopy(sent), env.url, cashu.Sat, false)
			if e != nil {
				return
			}
			got, e := env.recv.Receive(tok, false)
			if e != nil {
				sink.Stat("receive refused")
				return
			}
			net = int64(got)
		}()
		if net >= 0 && uint64(net)+mintFee != selSum(plan.sent) {
			selViolate(sink, "receive-amount-mismatch", fmt.Sprintf("sent %v, mint fee %d, received %d", plan.sent, mintFee, net), cs)
		}
		if inc && net != int64(amount) {
			// the same defect as send-fee-mismatch when the swap's fee estimate is off; anything else is new
			sig := fmt.Sprintf("send-net-mismatch offline=%v ppk=%d", plan.offline, w.activeFee)
			if !plan.offline && plan.feeEstimate != mintFee {
				sig = selFeeSig(w.activeFee, plan.nsend)
			}
			selViolate(sink, sig,
				fmt.Sprintf("amount %d with fees: handed out %v = %d, the mint charged %d, the recipient got %d",
					amount, plan.sent, selSum(plan.sent), mintFee, net), cs)
		}
		obs = append(obs, A(net))
	}
	sink.Add(c, LL(obs), err == nil && len(all) >= 2)
	selPlanMonitors(sink, w, all, len(ina) > 0, amount, inc, plan, err, cs)
}

// two Sends of one wallet at once: while the first one's swap request is with the mint, the second one must not hand out
// the proof that swap is spending (a search for a failing schedule: the sequential model has nothing to say about it)
func selConcurrentSends(sink *Sink, rng *rand.Rand, scratch string) {
	env := newSelEnv(scratch, rng, [3]uint{0, 0, 0}, false)
	defer env.Close()
	for round := 0; round < 3; round++ {
		x := env.tm.SignDirect(fmt.Sprintf("c18-conc-%d-%d", sink.rep.Seed, round), 4, env.idOf(0))
		env.setStore(cashu.Proofs{x})
		gate, arrived := make(chan struct{}), make(chan struct{})
		env.rt.mu.Lock()
		env.rt.gate, env.rt.arrived = gate, arrived
		env.rt.mu.Unlock()
		var aSent, bSent cashu.Proofs
		var aErr, bErr error
		doneA, doneB := make(chan struct{}), make(chan struct{})
		go func() { defer close(doneA); aSent, aErr = env.sender.Send(3, env.url, false) }()
		select {
		case <-arrived:
		case <-time.After(2 * time.Second):
		}
		go func() { defer close(doneB); bSent, bErr = env.sender.Send(4, env.url, false) }()
		select {
		case <-doneB:
		case <-time.After(250 * time.Millisecond):
		}
		close(gate)
		<-doneA
		<-doneB
		sink.Stat("concurrent-sends")
		_ = aErr
		for name, sent := range map[string]cashu.Proofs{"first": aSent, "second": bSent} {
			var ys []string
			for _, p := range sent {
				ys = append(ys, Yhex(p.Secret))
			}
			if len(ys) == 0 {
				continue
			}
			st, err := env.tm.M.ProofsStateCheck(ys)
			if err != nil {
				continue
			}
			for _, ps := range st {
				if ps.State == nut07.Spent {
					selViolate(sink, "send-returned-spent-proof:concurrent", fmt.Sprintf("two Sends (3 and 4 sat) of a wallet holding one 4 sat proof ran at once: the %s one returned a proof the mint has as SPENT (errors: %v / %v)", name, aErr, bErr), "concurrent Send(3) || Send(4)")
				}
			}
		}
	}
}

func streamC18Send(sink *Sink, rng *rand.Rand, tier string, scratch string) {
	start := time.Now()
	selConcurrentSends(sink, rng, scratch)
	configs, perConfig := 8, 22
	if tier == "thorough" {
		configs, perConfig = 36, 50
	}
	for ci := 0; ci < configs; ci++ {
		fees := [3]uint{selPickPpk(rng), selPickPpk(rng), selPickPpk(rng)}
		if ci == 0 {
			fees = [3]uint{1000, 1000, 1000}
		}
		env := newSelEnv(scratch, rng, fees, true)
		sink.Stat(fmt.Sprintf("mint active ppk=%d", fees[2]))
		w := env.world()
		for k := 0; k < perConfig; k++ {
			// which keysets hold proofs: the getInactiveProofsByMint order (a Go map) is random, so
			// proofs of two inactive keysets in one wallet are made tie-safe
			mode := rng.Intn(4) // 0: active only, 1: + first inactive, 2: + second inactive, 3: all
			kidx := func() int {
				if mode == 0 || rng.Intn(3) != 0 {
					return 0
				}
				if mode == 3 {
					return 1 + rng.Intn(2)
				}
				return mode
			}
			n := 1 + rng.Intn(8)
			maxExp := 2 + rng.Intn(4)
			if rng.Intn(5) == 0 {
				n = 9 + rng.Intn(16)
				maxExp = 4 + rng.Intn(8)
			}
			ps := selGenProofs(rng, n, maxExp, kidx)
			var ina, act []selProof
			for _, p := range ps {
				if p.kidx == 0 {
					act = append(act, p)
				}
			}
			for _, want := range []int{1, 2} { // keyset by keyset
				for _, p := range ps {
					if p.kidx == want {
						ina = append(ina, p)
					}
				}
			}
			if mode == 3 {
				selTieSafe(w, ina)
				// tie-safety must also not depend on which inactive keyset comes first: one keyset per amount
				first := map[uint64]int{}
				for i, p := range ina {
					if k0, ok := first[p.amount]; ok {
						ina[i].kidx = k0
					} else {
						first[p.amount] = p.kidx
					}
				}
				sort.SliceStable(ina, func(i, j int) bool { return ina[i].kidx < ina[j].kidx })
			}
			balance := selAmountOf(ps)
			amts := selGenAmounts(rng, balance, 3)
			if k == 0 && ci == 0 {
				// the witness of send_exact_fee_refuted: two 8-sat proofs, 3 sat with fees at 1000 ppk
				ina, act, amts = nil, []selProof{{8, 0}, {8, 0}}, []uint64{3}
			}
			for _, a := range amts {
				if a == 0 {
					a = 1
				}
				inc := rng.Intn(3) != 0
				if k == 0 && ci == 0 {
					inc = true
				}
				selRun7(sink, env, ina, act, a, inc)
			}
		}
		env.Close()
	}
	sink.Close("real Wallet.Send then Wallet.Receive between two bolt wallets over the real HTTP handler of an in-process mint "+
		"(3 keysets: 2 inactive + active, ppk each from {0,100,250,500,1000,2000}); sender's store = random multiset of "+
		"power-of-two denominations signed with the mint's keys over active / one inactive / both inactive keysets; amounts near "+
		"the balance, small, 2^k, 2^k-1, uniform; includeFees 2:1; non-trivial = successful send from a wallet of >= 2 proofs; distinct by abstract case",
		false, start)
}

func init() {
	register("c18-select", "C18", streamC18Select)
	register("c18-send", "C18", streamC18Send)
}
