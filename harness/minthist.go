package main

// Engine for mint histories: generates abstract operations adaptively (it plays honest and
// dishonest wallets against the real mint), executes them on the implementation under the
// storage wrapper, records the abstract history for the model, the projected observables of
// the implementation, and evaluates the property monitors on the implementation's own trace.

import (
	decodepay "github.com/nbd-wtf/ln-decodepay"
	"encoding/json"
	"regexp"
	"math/big"
	"github.com/elnosh/gonuts/mint/manager"
	"context"
	"encoding/hex"
	"errors"
	"fmt"
	"math/rand"
	"sort"
	"strings"
	"time"

	"github.com/btcsuite/btcd/btcec/v2"
	"github.com/decred/dcrd/dcrec/secp256k1/v4"
	"github.com/elnosh/gonuts/cashu"
	"github.com/elnosh/gonuts/cashu/nuts/nut04"
	"github.com/elnosh/gonuts/cashu/nuts/nut05"
	"github.com/elnosh/gonuts/cashu/nuts/nut07"
	"github.com/elnosh/gonuts/cashu/nuts/nut20"
	"github.com/elnosh/gonuts/crypto"
	"github.com/elnosh/gonuts/mint"
	"github.com/elnosh/gonuts/mint/storage"
)

type hSecret struct {
	h       int64
	secret  string
	amount  uint64 // amount of the signature held (0: none held)
	ks      int64
	C       string
	held    bool
	consumed int // number of successful operations that consumed it
	seenSpent bool
	uncertain bool // touched by a crash cut / injected fault / concurrent request: harness-side truth monitors skip it
}

type hB struct {
	h      int64
	bm     cashu.BlindedMessage
	r      *secp256k1.PrivateKey
	secret int64
	signed bool
	sigAmount uint64
	sigKs  int64
	sig    cashu.BlindedSignature
}

type hMintQ struct {
	h, hashH int64
	id, hash, req string
	amount   uint64
	key      *btcec.PrivateKey
	settled  bool
	settlements int
	issued   uint64
	issuedOK int
}

type hMeltQ struct {
	h, reqH, hashH int64
	id, req, hash string
	amount, fee uint64
	msat   uint64
	internal bool
	forged bool // foreign invoice carrying the payment hash of one of the mint's own invoices
	mpp    bool
	inputs []int64 // secrets locked by an accepted melt
	state  int     // as last reported
	paid   bool
}

type cfgT struct {
	maxMint, maxMelt, maxBalance uint64
	mpp    bool
	feePct uint64
	fee0   uint // input_fee_ppk of keyset 0
}

type Hist struct {
	sink  *Sink
	rng   *rand.Rand
	tm    *TM
	wdb   *WDB
	cfg   cfgT
	cfg0  cfgT // the configuration the history started with (the case header); cfg is the current one
	proj  int64
	next  int64
	secrets map[int64]*hSecret
	bs    map[int64]*hB
	mq    map[int64]*hMintQ
	lq    map[int64]*hMeltQ
	order []int64 // secrets in creation order
	items []S
	obs   []S
	nontrivial bool
	prop  string
	// monitor state
	extIn  uint64 // sat received over Lightning for mint quotes (settled by an outside payer)
	intIn  uint64 // credited by internal settlement
	issued uint64
	redeemed uint64
	paidOut uint64
	fired  map[int64]bool
	dead   bool // the process "died" (crash cut): only a restart may follow
	lnFaulty bool // the Lightning backend is currently scripted to answer with errors
	lastSnap string
	stats  map[string]int
	cuts   bool     // the history contains cuts/faults/schedules: the counter-based conservation monitor is replaced by the store-based one
	lastLog []string // storage/Lightning calls made by the last executed operation
	sigSuffix string // appended to monitor signatures raised while judging a concurrent item
	between func()  // run once between the next melt quote and its melt
	ended  bool     // the mint did not come up again: nothing more can be asked of it
}

func (c cfgT) S() S {
	return L(AU(c.maxMint), AU(c.maxMelt), AU(c.maxBalance), AB(c.mpp), AU(c.feePct))
}

func NewHist(sink *Sink, rng *rand.Rand, scratch string, cfg cfgT, proj int64, prop string) *Hist {
	h := &Hist{sink: sink, rng: rng, cfg: cfg, cfg0: cfg, proj: proj, next: 100, prop: prop,
		secrets: map[int64]*hSecret{}, bs: map[int64]*hB{}, mq: map[int64]*hMintQ{}, lq: map[int64]*hMeltQ{},
		fired: map[int64]bool{}, stats: map[string]int{}}
	h.tm = NewTM(scratch, rng, func(c *mint.Config) {
		c.InputFeePpk = cfg.fee0
		c.EnableMPP = cfg.mpp
		c.Limits = mint.MintLimits{MaxBalance: cfg.maxBalance,
			MintingSettings: mint.MintMethodSettings{MaxAmount: cfg.maxMint},
			MeltingSettings: mint.MeltMethodSettings{MaxAmount: cfg.maxMelt}}
	})
	h.tm.LN.FeeFn = func(a uint64) uint64 { return (a*cfg.feePct + 99) / 100 }
	h.install()
	// the model starts from an empty store: the first item is the initial LoadMint
	h.items = append(h.items, L(A(0), L(A(11), AU(uint64(cfg.fee0)), A(0))))
	h.obs = append(h.obs, L(L(A(5)), h.snapshot(), LL(nil)))
	return h
}

func (h *Hist) install() {
	h.tm.M.VerifWrapDB(func(inner storage.MintDB) storage.MintDB {
		h.wdb = NewWDB(inner)
		return h.wdb
	})
	h.tm.LN.Hook = func(op string) { h.wdb.before(op, false) }
}

func (h *Hist) fresh() int64 { h.next++; return h.next }

func (h *Hist) ksHandle(id string) int64 {
	for i, k := range h.tm.Order {
		if k == id {
			return int64(i)
		}
	}
	return -1
}

func (h *Hist) ksId(handle int64) string {
	if handle >= 0 && int(handle) < len(h.tm.Order) {
		return h.tm.Order[handle]
	}
	switch handle { // degenerate spellings of an unknown keyset
	case -4:
		return ""
	case -5:
		return "0"
	case -6:
		return "00"
	}
	return "00ffffffffffffff"[:16-int(-handle)%3] + strings.Repeat("a", int(-handle)%3)
}

func (h *Hist) activeHandle() int64 { return h.ksHandle(h.tm.ActiveId()) }

func (h *Hist) newSecret() *hSecret {
	s := &hSecret{h: h.fresh(), secret: randHex(h.rng, 32)}
	h.secrets[s.h] = s
	h.order = append(h.order, s.h)
	return s
}

func (h *Hist) newB(sec *hSecret, amount uint64, ks int64) *hB {
	bm, r := Blind(h.rng, sec.secret, amount, h.ksId(ks))
	b := &hB{h: h.fresh(), bm: bm, r: r, secret: sec.h}
	h.bs[b.h] = b
	return b
}

// twinB: the same blinded message spelled in upper-case hex: the same point, a different string (the mint keys its
// signature table by the string it was sent)
func (h *Hist) twinB(b *hB) *hB {
	t := &hB{h: h.fresh(), bm: b.bm, r: b.r, secret: b.secret}
	t.bm.B_ = strings.ToUpper(b.bm.B_)
	h.bs[t.h] = t
	return t
}

// ---------------- error classification (cause of a rejection) ----------------

func classify(err error) int64 {
	var d string
	var code cashu.CashuErrCode
	var ce cashu.Error
	var pe *cashu.Error
	switch {
	case errors.As(err, &pe):
		d, code = pe.Detail, pe.Code
	case errors.As(err, &ce):
		d, code = ce.Detail, ce.Code
	default:
		return 99
	}
	if code == cashu.DBErrCode {
		return 1
	}
	if code == cashu.LightningBackendErrCode {
		return 2
	}
	table := []struct {
		pre string
		c   int64
	}{
		{"unit '", 3}, {"invalid public key", 20}, {"max amount for minting exceeded", 5}, {"minting is disabled", 6},
		{"max amount for melting exceeded", 7}, {"quote does not exist", 8}, {"quote request has not been paid", 9},
		{"quote already issued", 10}, {"quote is pending", 11}, {"quote already paid", 12},
		{"invalid amount in blinded message", 13}, {"duplicate outputs", 14}, {"sum of the output amounts", 15},
		{"blinded message already signed", 16}, {"Mint quote with pubkey", 17}, {"unknown keyset", 18},
		{"requested signature from inactive keyset", 19}, {"invalid B_", 20}, {"invalid C", 20},
		{"no proofs provided", 21}, {"proof is pending", 22}, {"proof already used", 23}, {"duplicate inputs", 24},
		{"secret too long", 25}, {"invalid proof", 26}, {"SIG_ALL can only be used", 31},
		{"invalid amount in proof", 29}, {"amount of input proofs is below", 30},
		{"invalid invoice", 33}, {"invoice has no amount", 33}, {"melt quote for payment request already exists", 34},
		{"mpp ", 35}, {"MPP ", 35},
	}
	for _, t := range table {
		if strings.HasPrefix(d, t.pre) {
			return t.c
		}
	}
	if code == 30001 || code == 30004 {
		return 28
	}
	if code == cashu.StandardErrCode {
		return 20 // point parsing errors of B_ / C carry the library's text
	}
	return 98
}

func (h *Hist) failS(err error) S {
	if h.proj == 0 {
		return L(A(0), A(classify(err)))
	}
	return L(A(0))
}

// ---------------- snapshot of the observable state ----------------

func (h *Hist) snapshot() S { return h.snapshotN(false) }

// snapshotN(norm): with norm, an UNPAID quote whose invoice is settled is shown PAID (what a poll would report)
func (h *Hist) snapshotN(norm bool) S {
	db := h.wdb
	var inner storage.MintDB
	if db != nil {
		inner = db.inner
	}
	var spent, pending, sigs, mqs, lqs, calls, kss []S
	if inner != nil {
		ys := make([]string, 0, len(h.order))
		byY := map[string]*hSecret{}
		for _, sh := range h.order {
			s := h.secrets[sh]
			y := Yhex(s.secret)
			ys = append(ys, y)
			byY[y] = s
		}
		used, err := inner.GetProofsUsed(ys)
		must(err)
		sort.Slice(used, func(i, j int) bool { return byY[used[i].Y].h < byY[used[j].Y].h })
		for _, r := range used {
			spent = append(spent, L(A(byY[r.Y].h), AU(r.Amount), A(h.ksHandle(r.Id)), A(h.witHandle(r.Witness))))
		}
		pend, err := inner.GetPendingProofs(ys)
		must(err)
		sort.Slice(pend, func(i, j int) bool { return byY[pend[i].Y].h < byY[pend[j].Y].h })
		for _, r := range pend {
			pending = append(pending, L(A(byY[r.Y].h), AU(r.Amount), A(h.lqHandle(r.MeltQuoteId))))
		}
		bhs := sortedInt64(keysOf(h.bs))
		for _, bh := range bhs {
			sg, err := inner.GetBlindSignature(h.bs[bh].bm.B_)
			if err == nil {
				sigs = append(sigs, L(A(bh), AU(sg.Amount), A(h.ksHandle(sg.Id))))
			}
		}
		for _, qh := range sortedInt64(keysOf(h.mq)) {
			q, err := inner.GetMintQuote(h.mq[qh].id)
			if err == nil {
				st := mintStateNum(q.State)
				if norm && st == 0 && h.mq[qh].settled {
					st = 1
				}
				mqs = append(mqs, L(A(qh), A(int64(st))))
			}
		}
		for _, qh := range sortedInt64(keysOf(h.lq)) {
			q, err := inner.GetMeltQuote(h.lq[qh].id)
			if err == nil {
				lqs = append(lqs, L(A(qh), A(int64(meltStateNum(q.State))), A(h.preHandle(q.Preimage))))
			}
		}
	}
	for _, c := range h.tm.LN.PayCalls {
		msat := uint64(0)
		if c.Partial {
			msat = c.AmountMsat
		}
		calls = append(calls, L(A(h.hashHandle(c.Hash)), AU(c.MaxFee), AU(msat), AB(c.Partial)))
	}
	{
		list := h.tm.M.ListKeysets().Keysets
		sort.Slice(list, func(i, j int) bool { return h.ksHandle(list[i].Id) < h.ksHandle(list[j].Id) })
		for _, k := range list {
			kss = append(kss, L(A(h.ksHandle(k.Id)), AU(uint64(k.InputFeePpk)), AB(k.Active)))
		}
	}
	return L(LL(spent), LL(pending), LL(sigs), LL(mqs), LL(lqs), LL(calls), LL(kss))
}

func mintStateNum(s nut04.State) int {
	switch s {
	case nut04.Unpaid:
		return 0
	case nut04.Paid:
		return 1
	case nut04.Pending:
		return 2
	case nut04.Issued:
		return 3
	}
	return 4
}

func meltStateNum(s nut05.State) int {
	switch s {
	case nut05.Unpaid:
		return 0
	case nut05.Pending:
		return 1
	case nut05.Paid:
		return 2
	}
	return 3
}

func (h *Hist) witHandle(w string) int64 {
	if w == "" {
		return 0
	}
	var v int64
	fmt.Sscanf(w, "w%d", &v)
	return v
}

func witString(handle int64) string {
	if handle == 0 {
		return ""
	}
	return fmt.Sprintf("w%d", handle)
}

func (h *Hist) preHandle(p string) int64 {
	if p == "" {
		return 0
	}
	var v int64
	if _, err := fmt.Sscanf(p, "pre%d", &v); err == nil {
		return v
	}
	// the preimage of one of the mint's own invoices (internal settlement): reported as the invoice's handle
	for _, q := range h.mq {
		if inv, ok := h.tm.LN.invoices[q.hash]; ok && inv.preimage == p {
			return q.hashH
		}
	}
	return -1
}

func preString(handle int64) string {
	if handle == 0 {
		return ""
	}
	return fmt.Sprintf("pre%d", handle)
}

func (h *Hist) hashHandle(hash string) int64 {
	for _, q := range h.lq {
		if q.hash == hash {
			return q.hashH
		}
	}
	for _, q := range h.mq {
		if q.hash == hash {
			return q.hashH
		}
	}
	return -1
}

func (h *Hist) lqHandle(id string) int64 {
	for _, q := range h.lq {
		if q.id == id {
			return q.h
		}
	}
	return -1
}

func keysOf[V any](m map[int64]V) []int64 {
	ks := make([]int64, 0, len(m))
	for k := range m {
		ks = append(ks, k)
	}
	return ks
}

func sortedInt64(a []int64) []int64 {
	sort.Slice(a, func(i, j int) bool { return a[i] < a[j] })
	return a
}

// ---------------- abstract/concrete inputs ----------------

// inSpec describes one input of a swap/melt request.
type inSpec struct {
	sec    *hSecret
	amount uint64
	ks     int64
	cKind  int // 0 genuine signature held for (ks0, amount0, secret); 1 junk point; 2 not a point
	cKs    int64
	cAmt   uint64
	wit    int64
	long   bool
	dleq   bool
	cSec   *hSecret // cKind 0: the C presented is the one held for this other secret (nil: for sec itself)
	cNeg   bool     // cKind 1: the junk point is the negation of the genuine C (parity byte flipped)
}

func (h *Hist) inputS(i inSpec) S {
	var c S
	switch i.cKind {
	case 0:
		cs := i.sec
		if i.cSec != nil {
			cs = i.cSec
		}
		c = L(A(0), A(i.cKs), AU(i.cAmt), A(cs.h))
	case 1:
		c = L(A(1), A(7))
	default:
		c = L(A(2))
	}
	return L(A(i.sec.h), AU(i.amount), A(i.ks), c, A(i.wit), AB(i.long), A(1), A(0))
}

func (h *Hist) inputProof(i inSpec) cashu.Proof {
	p := cashu.Proof{Amount: i.amount, Id: h.ksId(i.ks), Secret: i.sec.secret, Witness: witString(i.wit)}
	switch i.cKind {
	case 0:
		p.C = i.sec.C
		if i.cSec != nil {
			p.C = i.cSec.C
		}
	case 1:
		Y, _ := crypto.HashToCurve([]byte("junk point"))
		p.C = hex.EncodeToString(Y.SerializeCompressed())
		if i.cNeg && len(i.sec.C) == 66 {
			p.C = map[byte]string{'2': "03", '3': "02"}[i.sec.C[1]] + i.sec.C[2:]
		}
	default:
		p.C = []string{"zz", "02abcd", "", "05" + strings.Repeat("11", 32)}[h.rng.Intn(4)]
	}
	if i.dleq {
		p.DLEQ = &cashu.DLEQProof{E: "00", S: "00"}
	}
	return p
}

// honest input for a held secret
func (h *Hist) honest(s *hSecret) inSpec {
	return inSpec{sec: s, amount: s.amount, ks: s.ks, cKind: 0, cKs: s.ks, cAmt: s.amount}
}

type outSpec struct {
	b      *hB
	amount uint64
	ks     int64
	point  bool
}

func (h *Hist) outputS(o outSpec) S {
	return L(A(o.b.h), AU(o.amount), A(o.ks), A(0), AB(o.point), A(o.b.secret))
}

func (h *Hist) outputBM(o outSpec) cashu.BlindedMessage {
	bm := o.b.bm
	bm.Amount = o.amount
	bm.Id = h.ksId(o.ks)
	if !o.point {
		bm.B_ = "02" + bm.B_[4:] + "zz"
	}
	return bm
}

// freshOutputs: honest outputs on the active keyset for the given amounts
func (h *Hist) freshOutputs(amounts []uint64) []outSpec {
	var outs []outSpec
	ks := h.activeHandle()
	for _, a := range amounts {
		outs = append(outs, outSpec{b: h.newB(h.newSecret(), a, ks), amount: a, ks: ks, point: true})
	}
	return outs
}

// adopt: the wallet unblinds returned signatures and now holds the proofs
func (h *Hist) adopt(outs []outSpec, sigs cashu.BlindedSignatures) {
	for i, sg := range sigs {
		if i >= len(outs) {
			break
		}
		b := outs[i].b
		ksid := sg.Id
		if ksid != h.tm.ActiveId() {
			h.sink.Violate("signed-on-inactive-keyset"+h.sigSuffix, fmt.Sprintf("the mint returned a signature on keyset %s while the active keyset is %s", ksid, h.tm.ActiveId()), "", LL(h.items).String())
		}
		ks := h.tm.Keysets[ksid]
		b.signed, b.sigAmount, b.sigKs, b.sig = true, sg.Amount, h.ksHandle(ksid), sg
		if ks == nil || !outs[i].point {
			continue
		}
		kp, ok := ks.Keys[sg.Amount]
		if !ok {
			continue
		}
		cb, _ := hex.DecodeString(sg.C_)
		Cp, err := secp256k1.ParsePubKey(cb)
		if err != nil {
			continue
		}
		C := crypto.UnblindSignature(Cp, b.r, kp.PublicKey)
		s := h.secrets[b.secret]
		if !s.held {
			s.held, s.amount, s.ks, s.C = true, sg.Amount, h.ksHandle(ksid), hex.EncodeToString(C.SerializeCompressed())
		}
	}
}

func sigsS(h *Hist, outs []outSpec, sigs cashu.BlindedSignatures) S {
	var l []S
	for i, sg := range sigs {
		bh := int64(-1)
		if i < len(outs) {
			bh = outs[i].b.h
		}
		l = append(l, L(A(bh), AU(sg.Amount), A(h.ksHandle(sg.Id))))
	}
	return L(A(1), LL(l))
}

// ---------------- executing one item ----------------

type mode struct {
	kind    int // 0 normal, 1 crash, 2 fault
	crashAt int
	faults  []int
}

func (m mode) wrap(op S) S {
	switch m.kind {
	case 1:
		return L(A(1), op, A(int64(m.crashAt)))
	case 2:
		var ps []S
		for _, p := range m.faults {
			ps = append(ps, A(int64(p)))
		}
		return L(A(2), op, LL(ps))
	}
	return L(A(0), op)
}

func (h *Hist) exec(m mode, op S, f func() (any, error), okS func(any) S, learn ...func(any, opOutcome)) (any, error, opOutcome) {
	if h.ended {
		return nil, errors.New("the history has ended: the mint is not running"), opOutcome{err: errors.New("ended")}
	}
	crashAt := -1
	faults := map[int]bool{}
	if m.kind == 1 {
		crashAt = m.crashAt
	}
	if m.kind == 2 {
		for _, p := range m.faults {
			faults[p] = true
		}
	}
	before := h.lastSnap
	out := h.wdb.runOp(crashAt, faults, f)
	h.lastLog = out.log
	var r S
	switch {
	case out.crashed:
		r = L(A(8))
		h.die()
	case out.panicV != nil:
		r = L(A(9))
		h.sink.Violate("panic:"+opName(op), fmt.Sprintf("the operation panicked: %v", out.panicV), op.String(), nil)
	case out.err != nil:
		r = h.failS(out.err)
	default:
		r = okS(out.val)
	}
	for _, l := range learn {
		l(out.val, out)
	}
	snap := h.snapshot()
	norm := h.snapshotN(true).String()
	h.items = append(h.items, m.wrap(op))
	h.obs = append(h.obs, L(r, snap, logS(out.log, out.crashed)))
	h.stats["op="+opName(op)]++
	if out.err != nil && m.kind == 0 && !h.lnFaulty {
		h.stats["rejected="+opName(op)]++
		// C06 monitor: a rejected request (no fault injected) leaves the observable state unchanged,
		// except that an UNPAID quote whose invoice is settled may be shown PAID (what a poll would report)
		if before != "" && before != norm {
			h.sink.Violate("rejected-request-changed-state:"+opName(op)+":"+fmt.Sprint(classify(out.err))+h.sigSuffix,
				"a request answered with an error changed the observable state", op.String(),
				map[string]any{"before": before, "after": norm, "error": out.err.Error(), "history": LL(h.items).String()})
		}
	}
	h.lastSnap = norm
	return out.val, out.err, out
}

func opName(op S) string {
	names := map[string]string{"1": "mintquote", "2": "mintstate", "3": "mint", "4": "swap", "5": "meltquote", "6": "meltstate",
		"7": "melt", "8": "checkstate", "9": "restore", "10": "rotate", "11": "restart", "12": "watcher", "13": "balance", "14": "info"}
	if len(op.items) > 0 {
		if n, ok := names[op.items[0].z]; ok {
			return n
		}
	}
	return "op"
}

func (h *Hist) die() { h.dead = true }

// callTags: the storage.MintDB / lightning.Client methods as numbered by coq/Mint/Trace.v (cmd_tag)
var callTags = map[string]int64{
	"GetPendingProofs": 1, "GetProofsUsed": 2, "GetPendingProofsByQuote": 3, "SaveProofs": 4, "AddPendingProofs": 5, "RemovePendingProofs": 6,
	"GetBlindSignatures": 7, "GetBlindSignature": 8, "SaveBlindSignatures": 9,
	"GetMintQuote": 10, "GetMintQuoteByPaymentHash": 11, "SaveMintQuote": 12, "UpdateMintQuoteState": 13,
	"GetMeltQuote": 14, "GetMeltQuoteByPaymentRequest": 15, "SaveMeltQuote": 16, "UpdateMeltQuote": 17,
	"GetIssuedEcash": 18, "GetRedeemedEcash": 19, "GetKeysets": 20, "SaveKeyset": 21, "UpdateKeysetActive": 22, "GetSeed": 23,
	"LN.CreateInvoice": 30, "LN.InvoiceStatus": 31, "LN.SendPayment": 32, "LN.PayPartialAmount": 33, "LN.OutgoingPaymentStatus": 34,
}

// logS: the calls an operation made, in order; the call a crash cut hit was not made
func logS(log []string, crashed bool) S {
	if crashed && len(log) > 0 {
		log = log[:len(log)-1]
	}
	var l []S
	for _, n := range log {
		t, ok := callTags[n]
		if !ok {
			t = -1
		}
		l = append(l, A(t))
	}
	return LL(l)
}

func (h *Hist) env(op S) {
	if h.ended {
		return
	}
	h.items = append(h.items, L(A(0), op))
	h.obs = append(h.obs, L(L(A(5)), h.snapshot(), LL(nil)))
	h.lastSnap = h.snapshotN(true).String()
}

// ---------------- operations ----------------

func (h *Hist) OpRestart(fee uint, rotate bool) {
	if h.ended {
		return
	}
	h.tm.M.Shutdown()
	h.tm.Cfg.InputFeePpk = fee
	h.tm.Cfg.RotateKeyset = rotate
	op := L(A(11), AU(uint64(fee)), AB(rotate))
	var m *mint.Mint
	var err error
	var panicked any
	func() {
		defer func() { panicked = recover() }()
		m, err = mint.LoadMint(h.tm.Cfg)
	}()
	h.tm.Cfg.RotateKeyset = false
	var r S
	if panicked != nil {
		// the mint does not come up: the history ends here (the model reports the same Panic leaf, with an empty snapshot)
		h.items = append(h.items, L(A(0), op))
		h.obs = append(h.obs, L(L(A(9)), L(LL(nil), LL(nil), LL(nil), LL(nil), LL(nil), LL(nil), LL(nil)), LL(nil)))
		h.sink.Note(fmt.Sprintf("LoadMint panicked: %v", panicked))
		h.stats["op=restart-panicked"]++
		h.ended = true
		return
	}
	if err != nil {
		if !h.cuts {
			// C09: the keysets reappear after every restart - a mint that was running and does not come up again has lost them all
			h.sink.Violate("mint-cannot-start", fmt.Sprintf("LoadMint on the mint's own directory fails: %v", err), op.String(), LL(h.items).String())
		}
		r = h.failS(err)
		h.items = append(h.items, L(A(0), op))
		h.obs = append(h.obs, L(r, L(LL(nil), LL(nil), LL(nil), LL(nil), LL(nil), LL(nil), LL(nil)), LL(nil)))
		h.sink.Note("LoadMint failed: " + err.Error())
		h.ended = true
		return
	}
	h.dead = false
	h.tm.M = m
	h.tm.deriveKeysets()
	h.install()
	snap := h.snapshot()
	h.items = append(h.items, L(A(0), op))
	h.obs = append(h.obs, L(L(A(5)), snap, LL(nil)))
	h.lastSnap = h.snapshotN(true).String()
	h.stats["op=restart"]++
}

// Reconfigure: the operator stops the mint, changes limits / MPP support in its configuration and starts it again on the
// same directory.  Item (4 cfg): the model continues with the new configuration; the restart itself is the usual ORestart.
func (h *Hist) Reconfigure(c cfgT) {
	if h.ended {
		return
	}
	c.feePct, c.fee0 = h.cfg.feePct, h.cfg.fee0
	h.cfg = c
	h.tm.Cfg.EnableMPP = c.mpp
	h.tm.Cfg.Limits = mint.MintLimits{MaxBalance: c.maxBalance,
		MintingSettings: mint.MintMethodSettings{MaxAmount: c.maxMint},
		MeltingSettings: mint.MeltMethodSettings{MaxAmount: c.maxMelt}}
	h.items = append(h.items, L(A(4), c.S()))
	h.obs = append(h.obs, L(L(A(5)), h.snapshot()))
	h.stats["op=reconfigure"]++
	h.OpRestart(h.tm.Cfg.InputFeePpk, false)
}

func (h *Hist) OpMintQuote(m mode, amount uint64, withKey bool, badKey bool, unitOK bool) *hMintQ {
	q := &hMintQ{h: h.fresh(), amount: amount}
	q.hashH = h.fresh()
	req := nut04.PostMintQuoteBolt11Request{Amount: amount, Unit: "sat"}
	if !unitOK {
		req.Unit = "usd"
	}
	pk := int64(0)
	if withKey {
		kb := make([]byte, 32)
		h.rng.Read(kb)
		q.key, _ = btcec.PrivKeyFromBytes(kb)
		req.Pubkey = hex.EncodeToString(q.key.PubKey().SerializeCompressed())
		pk = q.h
	}
	if badKey {
		req.Pubkey = "02zz"
		pk = -1
	}
	op := L(A(1), AB(unitOK), AU(amount), A(pk), A(q.h), A(q.hashH))
	nInv := len(h.tm.LN.created)
	h.exec(m, op, func() (any, error) { return h.tm.M.RequestMintQuote(req) }, func(v any) S {
		mq := v.(storage.MintQuote)
		return L(A(2), A(q.h), AU(mq.Amount), A(int64(mintStateNum(mq.State))), A(pk))
	}, func(v any, out opOutcome) {
		// learn the quote from the store even when the response was lost (crash / injected error after the insert)
		if len(h.tm.LN.created) > nInv {
			hash := h.tm.LN.created[len(h.tm.LN.created)-1]
			if mq, err := h.wdb.inner.GetMintQuoteByPaymentHash(hash); err == nil {
				q.id, q.hash, q.req = mq.Id, mq.PaymentHash, mq.PaymentRequest
				h.mq[q.h] = q
				if out.err == nil && !out.crashed && out.panicV == nil {
					h.tm.LN.WaitSubscribed(hash)
				}
			} else {
				// the invoice exists at the backend but no quote row: remember the hash for the handle mapping
				q.hash = hash
			}
		}
	})
	if q.id != "" {
		if m.kind == 0 && unitOK && !badKey {
			// C16 monitor: an accepted mint quote respects the configured limits at the time it was requested
			if h.cfg.maxMint > 0 && amount > h.cfg.maxMint {
				h.sink.Violate("mint-quote-above-max-amount"+h.sigSuffix, fmt.Sprintf("a mint quote of %d was accepted, the maximum is %d", amount, h.cfg.maxMint), op.String(), LL(h.items).String())
			}
			if bal, ok := h.storeBalance(); ok && h.cfg.maxBalance > 0 && (bal+amount > h.cfg.maxBalance || bal+amount < bal) {
				h.sink.Violate("mint-quote-above-max-balance"+h.sigSuffix, fmt.Sprintf("a mint quote of %d was accepted at balance %d, the maximum balance is %d", amount, bal, h.cfg.maxBalance), op.String(), LL(h.items).String())
			}
		}
		return q
	}
	return nil
}

func (h *Hist) EnvSettle(q *hMintQ) {
	if !q.settled {
		q.settled = true
		q.settlements++
		h.extIn += q.amount
	}
	h.tm.LN.Settle(q.hash)
	h.env(L(A(20), A(q.hashH)))
}

func (h *Hist) OpMintState(m mode, q *hMintQ, unknown bool) {
	id, hd := q.id, q.h
	if unknown {
		id, hd = "nosuchquote", -5
	}
	h.exec(m, L(A(2), A(hd)), func() (any, error) { return h.tm.M.GetMintQuoteState(id) }, func(v any) S {
		mq := v.(storage.MintQuote)
		pk := int64(0)
		if mq.Pubkey != nil {
			pk = q.h
		}
		return L(A(2), A(hd), AU(mq.Amount), A(int64(mintStateNum(mq.State))), A(pk))
	})
}

// sigKind: 0 none, 1 valid, 2 other (wrong key / other outputs / other quote id / garbage)
func (h *Hist) OpMint(m mode, q *hMintQ, outs []outSpec, sigKind int64, unknown bool) (cashu.BlindedSignatures, error) {
	var bms cashu.BlindedMessages
	var outS []S
	for _, o := range outs {
		bms = append(bms, h.outputBM(o))
		outS = append(outS, h.outputS(o))
	}
	req := nut04.PostMintBolt11Request{Quote: q.id, Outputs: bms}
	hd := q.h
	if unknown {
		req.Quote, hd = "nosuchquote", -5
	}
	switch sigKind {
	case 1:
		if q.key != nil {
			sg, err := nut20.SignMintQuote(q.key, q.id, bms)
			must(err)
			req.Signature = hex.EncodeToString(sg.Serialize())
		} else {
			sigKind = 0
		}
	case 2:
		kb := make([]byte, 32)
		h.rng.Read(kb)
		other, _ := btcec.PrivKeyFromBytes(kb)
		switch h.rng.Intn(5) {
		case 0: // wrong key
			sg, _ := nut20.SignMintQuote(other, q.id, bms)
			req.Signature = hex.EncodeToString(sg.Serialize())
		case 1: // other quote id
			k := q.key
			if k == nil {
				k = other
			}
			sg, _ := nut20.SignMintQuote(k, q.id+"x", bms)
			req.Signature = hex.EncodeToString(sg.Serialize())
		case 2: // outputs reordered / one removed
			k := q.key
			if k == nil {
				k = other
			}
			alt := append(cashu.BlindedMessages{}, bms...)
			if len(alt) > 1 {
				alt[0], alt[1] = alt[1], alt[0]
			} else {
				alt = append(alt, cashu.BlindedMessage{B_: "02" + strings.Repeat("ab", 32)})
			}
			sg, _ := nut20.SignMintQuote(k, q.id, alt)
			req.Signature = hex.EncodeToString(sg.Serialize())
		case 3:
			req.Signature = "nothex"
		default:
			req.Signature = strings.Repeat("ab", 64)
		}
	}
	op := L(A(3), A(hd), LL(outS), A(sigKind))
	v, err, out := h.exec(m, op, func() (any, error) { return h.tm.M.MintTokens(req) }, func(v any) S {
		return sigsS(h, outs, v.(cashu.BlindedSignatures))
	})
	if err == nil && !out.crashed && out.panicV == nil {
		sigs := v.(cashu.BlindedSignatures)
		h.adopt(outs, sigs)
		var tot uint64
		for _, s := range sigs {
			tot += s.Amount
		}
		if !unknown {
			q.issued += tot
			q.issuedOK++
			h.issued += tot
			// C03 monitors
			if q.settlements == 0 {
				h.sink.Violate("issued-before-payment"+h.sigSuffix, "a mint quote yielded signatures before its invoice was paid", op.String(), LL(h.items).String())
			}
			if q.issued > q.amount*uint64(q.settlements) {
				h.sink.Violate("issued-more-than-paid"+h.sigSuffix, fmt.Sprintf("quote of %d sat, %d settlement(s), %d sat issued", q.amount, q.settlements, q.issued), op.String(), LL(h.items).String())
			}
			if q.key != nil && sigKind != 1 && len(sigs) > 0 {
				h.sink.Violate("nut20-signature-not-enforced", "a quote locked to a public key was issued without a valid signature over the outputs", op.String(), LL(h.items).String())
			}
		}
		return sigs, nil
	}
	return nil, err
}

func (h *Hist) inputsOf(ins []inSpec) (cashu.Proofs, []S) {
	var ps cashu.Proofs
	var ss []S
	for _, i := range ins {
		ps = append(ps, h.inputProof(i))
		ss = append(ss, h.inputS(i))
	}
	return ps, ss
}

// truly valid: the input is a genuine, exact re-presentation of a held proof
func genuine(i inSpec) bool {
	return i.cKind == 0 && i.cSec == nil && i.sec.held && i.amount == i.sec.amount && i.ks == i.sec.ks && i.cKs == i.sec.ks && i.cAmt == i.sec.amount && !i.long
}

func (h *Hist) consume(ins []inSpec, what string, op S) {
	for _, i := range ins {
		i.sec.consumed++
		h.redeemed += i.amount
		if i.sec.consumed > 1 {
			h.sink.Violate("double-spend:"+what+h.sigSuffix, fmt.Sprintf("secret %d was accepted as an input by %d successful operations", i.sec.h, i.sec.consumed), op.String(), LL(h.items).String())
		}
		if !genuine(i) {
			h.sink.Violate("forged-input-accepted:"+what, fmt.Sprintf("input for secret %d is not a genuine proof at its signed amount/keyset but was accepted", i.sec.h), op.String(), LL(h.items).String())
		}
	}
}

// feesFor: what the inputs owe, in true integers: ceil(sum of their keysets' input_fee_ppk / 1000), capped at the largest uint64
func (h *Hist) feesFor(ins []inSpec) uint64 {
	ppk := new(big.Int)
	for _, i := range ins {
		if i.ks >= 0 && int(i.ks) < len(h.tm.Order) {
			ppk.Add(ppk, new(big.Int).SetUint64(uint64(h.tm.Keysets[h.tm.Order[i.ks]].InputFeePpk)))
		}
	}
	fee := new(big.Int).Add(ppk, big.NewInt(999))
	fee.Div(fee, big.NewInt(1000))
	if !fee.IsUint64() {
		return ^uint64(0)
	}
	return fee.Uint64()
}

func (h *Hist) OpSwap(m mode, ins []inSpec, outs []outSpec) (cashu.BlindedSignatures, error) {
	ps, inS := h.inputsOf(ins)
	var bms cashu.BlindedMessages
	var outS []S
	for _, o := range outs {
		bms = append(bms, h.outputBM(o))
		outS = append(outS, h.outputS(o))
	}
	op := L(A(4), LL(inS), LL(outS), A(1))
	v, err, out := h.exec(m, op, func() (any, error) { return h.tm.M.Swap(ps, bms) }, func(v any) S {
		return sigsS(h, outs, v.(cashu.BlindedSignatures))
	})
	if err == nil && !out.crashed && out.panicV == nil {
		sigs := v.(cashu.BlindedSignatures)
		h.adopt(outs, sigs)
		h.consume(ins, "swap", op)
		var inSum, outSum uint64
		for _, i := range ins {
			inSum += i.amount
		}
		for _, s := range sigs {
			outSum += s.Amount
		}
		h.issued += outSum
		if outSum+h.feesFor(ins) > inSum {
			h.sink.Violate("swap-outputs-exceed-inputs", fmt.Sprintf("inputs %d, fees %d, outputs %d", inSum, h.feesFor(ins), outSum), op.String(), LL(h.items).String())
		}
		return sigs, nil
	}
	if out.crashed {
		h.afterCut(ins)
	}
	return nil, err
}

// afterCut: a crash cut or fault may or may not have consumed the inputs; learn it from the store after restart
func (h *Hist) afterCut(ins []inSpec) {}

func (h *Hist) OpMeltQuote(m mode, msat uint64, own *hMintQ, mppPart uint64, unitOK, decodes bool, again *hMeltQ) *hMeltQ {
	q := &hMeltQ{h: h.fresh()}
	var req, hash string
	switch {
	case again != nil:
		req, hash, q.reqH, q.hashH, msat = again.req, again.hash, again.reqH, again.hashH, again.msat
	case own != nil && msat != 0:
		// a foreign invoice that carries the payment hash of the mint's own invoice: not the same invoice, so nothing
		// the mint may settle internally
		var err error
		req, err = forgedInvoiceMsat(own.hash, msat)
		must(err)
		hash, q.reqH, q.hashH = own.hash, h.fresh(), own.hashH
		q.forged = true
	case own != nil:
		req, hash, q.reqH, q.hashH, msat = own.req, own.hash, own.hashH, own.hashH, own.amount*1000
		q.internal = true
	default:
		req, hash = ExternalInvoice(msat)
		q.reqH = h.fresh()
		q.hashH = q.reqH
	}
	if !decodes {
		req = "lnbc1notaninvoice"
	} else if bolt, err := decodepay.Decodepay(req); err != nil {
		// what the invoice says is the environment's business: an invoice of the scripted backend for an absurd amount
		// (>= 2^64 msat) does not decode at all
		decodes = false
	} else {
		msat = uint64(bolt.MSatoshi)
	}
	q.req, q.hash, q.msat = req, hash, msat
	r := nut05.PostMeltQuoteBolt11Request{Request: req, Unit: "sat"}
	if !unitOK {
		r.Unit = "eur"
	}
	mppS := L()
	if mppPart > 0 {
		r.Options = map[string]nut05.MppOption{"mpp": {AmountMsat: mppPart}}
		mppS = L(AU(mppPart))
		q.mpp = true
	}
	op := L(A(5), AB(unitOK), AB(decodes), A(q.reqH), A(q.hashH), AU(msat), mppS, A(q.h))
	h.exec(m, op, func() (any, error) { return h.tm.M.RequestMeltQuote(r) }, func(v any) S {
		lq := v.(storage.MeltQuote)
		return L(A(3), A(q.h), AU(lq.Amount), AU(lq.FeeReserve), A(int64(meltStateNum(lq.State))), A(h.preHandle(lq.Preimage)))
	}, func(v any, out opOutcome) {
		if again != nil {
			if out.err == nil && !out.crashed && out.panicV == nil {
				lq := v.(storage.MeltQuote)
				q.id, q.amount, q.fee = lq.Id, lq.Amount, lq.FeeReserve
				h.lq[q.h] = q
			}
			return
		}
		if lq, err := h.wdb.inner.GetMeltQuoteByPaymentRequest(req); err == nil && lq != nil {
			// learn the quote from the store even when the response was lost - unless it is an older quote for the same request
			for _, known := range h.lq {
				if known.id == lq.Id {
					return
				}
			}
			q.id, q.amount, q.fee = lq.Id, lq.Amount, lq.FeeReserve
			h.lq[q.h] = q
			// C16 monitor: a melt quote above the configured maximum was stored (whatever the invoice: foreign, own, partial)
			if h.cfg.maxMelt > 0 && lq.Amount > h.cfg.maxMelt {
				h.sink.Violate("melt-quote-above-max-amount"+h.sigSuffix, fmt.Sprintf("a melt quote of %d was accepted, the maximum is %d", lq.Amount, h.cfg.maxMelt), op.String(), LL(h.items).String())
			}
		}
	})
	if q.id != "" {
		return q
	}
	return nil
}

func (h *Hist) ScriptPay(q *hMeltQ, kind int, pre int64) {
	h.tm.LN.PayScript[q.hash] = append(h.tm.LN.PayScript[q.hash], PayAnswer{Kind: kind, Preimage: preString(pre)})
	h.env(L(A(21), A(q.hashH), L(A(int64(kind)), A(pre))))
}

func (h *Hist) ScriptLook(q *hMeltQ, kind int, pre int64) {
	h.tm.LN.LookScript[q.hash] = append(h.tm.LN.LookScript[q.hash], PayAnswer{Kind: kind, Preimage: preString(pre)})
	h.env(L(A(22), A(q.hashH), L(A(int64(kind)), A(pre))))
}

func lqS(h *Hist, hd int64, lq storage.MeltQuote) S {
	return L(A(3), A(hd), AU(lq.Amount), AU(lq.FeeReserve), A(int64(meltStateNum(lq.State))), A(h.preHandle(lq.Preimage)))
}

func (h *Hist) notePaid(q *hMeltQ, op S) {
	if q.paid {
		return
	}
	q.paid = true
	var burned uint64
	var specs []inSpec
	for _, sh := range q.inputs {
		s := h.secrets[sh]
		specs = append(specs, inSpec{sec: s, amount: s.amount, ks: s.ks, cKind: 0, cKs: s.ks, cAmt: s.amount})
		burned += s.amount
	}
	h.consume(specs, "melt", op)
	internal := q.internal
	if q.forged {
		// a foreign invoice with the hash of an own invoice: either the backend was asked to pay it (accounted below like any
		// outside invoice), or the mint settled it against its own mint quote; the latter is a payment of that quote only if
		// the melt burned at least the quote's amount (plus input fees)
		paidOutside := false
		for _, c := range h.tm.LN.PayCalls {
			if c.Request == q.req {
				paidOutside = true
			}
		}
		if !paidOutside {
			h.stats["forged-hash melt settled internally"]++
			h.intIn += q.amount
			for _, mq := range h.mq {
				if mq.hash == q.hash && burned >= mq.amount+h.feesFor(specs) {
					mq.settlements++
				}
			}
			return
		}
		h.stats["forged-hash melt paid over Lightning"]++
	}
	if internal {
		h.intIn += q.amount
		for _, mq := range h.mq {
			if mq.hash == q.hash {
				mq.settlements++
			}
		}
	} else {
		// what the backend was allowed to spend: the amount it was asked to pay plus the fee limit
		for _, c := range h.tm.LN.PayCalls {
			if c.Hash == q.hash && (!q.forged || c.Request == q.req) {
				cost := (c.AmountMsat+999)/1000 + c.MaxFee
				h.paidOut += cost
				if c.MaxFee > q.fee {
					h.sink.Violate("fee-limit-exceeds-fee-reserve"+h.sigSuffix, fmt.Sprintf("fee limit %d handed to the backend, fee reserve paid by the user %d", c.MaxFee, q.fee), op.String(), LL(h.items).String())
				}
				if burned < cost+h.feesFor(specs) {
					h.sink.Violate("melt-burned-less-than-paid"+h.sigSuffix, fmt.Sprintf("burned %d, backend may spend %d (+ input fees %d)", burned, cost, h.feesFor(specs)), op.String(), LL(h.items).String())
				}
				break
			}
		}
	}
}

func (h *Hist) OpMelt(m mode, q *hMeltQ, ins []inSpec, unknown bool) (storage.MeltQuote, error) {
	ps, inS := h.inputsOf(ins)
	id, hd := q.id, q.h
	if unknown {
		id, hd = "nosuchquote", -5
	}
	op := L(A(7), A(hd), LL(inS))
	v, err, out := h.exec(m, op, func() (any, error) {
		return h.tm.M.MeltTokens(context.Background(), nut05.PostMeltBolt11Request{Quote: id, Inputs: ps})
	}, func(v any) S { return lqS(h, hd, v.(storage.MeltQuote)) })
	if err == nil && !out.crashed && out.panicV == nil {
		lq := v.(storage.MeltQuote)
		q.state = meltStateNum(lq.State)
		if lq.State == nut05.Paid || lq.State == nut05.Pending {
			q.inputs = nil
			for _, i := range ins {
				q.inputs = append(q.inputs, i.sec.h)
				if !genuine(i) {
					h.sink.Violate("forged-input-accepted:melt", fmt.Sprintf("input for secret %d is not genuine but was locked by a melt", i.sec.h), op.String(), LL(h.items).String())
				}
			}
		}
		if lq.State == nut05.Paid {
			h.notePaid(q, op)
		}
		return lq, nil
	}
	return storage.MeltQuote{}, err
}

func (h *Hist) OpMeltState(m mode, q *hMeltQ, unknown bool) {
	id, hd := q.id, q.h
	if unknown {
		id, hd = "nosuchquote", -5
	}
	op := L(A(6), A(hd))
	v, err, out := h.exec(m, op, func() (any, error) { return h.tm.M.GetMeltQuoteState(context.Background(), id) },
		func(v any) S { return lqS(h, hd, v.(storage.MeltQuote)) })
	if err == nil && !out.crashed && out.panicV == nil && !unknown {
		lq := v.(storage.MeltQuote)
		q.state = meltStateNum(lq.State)
		if lq.State == nut05.Paid {
			h.notePaid(q, op)
		}
	}
}

func (h *Hist) OpCheck(m mode, secs []*hSecret, unknown int) {
	var ys []string
	var yS []S
	for _, s := range secs {
		y := Yhex(s.secret)
		switch h.rng.Intn(6) {
		case 0:
			// the same point spelled in upper-case hex
			y = strings.ToUpper(y)
		case 1:
			// ... or uncompressed
			if b, err := hex.DecodeString(y); err == nil {
				if pk, err := secp256k1.ParsePubKey(b); err == nil {
					y = hex.EncodeToString(pk.SerializeUncompressed())
				}
			}
		}
		ys = append(ys, y)
		yS = append(yS, A(s.h))
	}
	for i := 0; i < unknown; i++ {
		s := h.newSecret()
		ys = append(ys, Yhex(s.secret))
		yS = append(yS, A(s.h))
		secs = append(secs, s)
	}
	op := L(A(8), LL(yS))
	v, err, out := h.exec(m, op, func() (any, error) { return h.tm.M.ProofsStateCheck(ys) }, func(v any) S {
		var l []S
		for i, st := range v.([]nut07.ProofState) {
			hd := int64(-1)
			if i < len(secs) && i < len(ys) && ys[i] == st.Y {
				hd = secs[i].h
			}
			l = append(l, L(A(hd), A(int64(st.State)), A(h.witHandle(st.Witness))))
		}
		return L(A(4), LL(l))
	})
	if err == nil && !out.crashed && out.panicV == nil {
		states := v.([]nut07.ProofState)
		// a melt may have been resolved by this check: learn paid quotes from the store
		h.learnMelts(op)
		for i, st := range states {
			if i >= len(secs) {
				break
			}
			s := secs[i]
			if st.State == nut07.Spent {
				s.seenSpent = true
			} else if s.seenSpent {
				h.sink.Violate("spent-proof-reported-unspent", fmt.Sprintf("secret %d was reported SPENT earlier and is now %v", s.h, st.State), op.String(), LL(h.items).String())
			}
			// C15 monitor: truth known to the harness
			want := nut07.Unspent
			if s.consumed > 0 {
				want = nut07.Spent
			} else if h.lockedBy(s) != nil {
				want = nut07.Pending
			}
			if st.State != want && !s.uncertain {
				h.sink.Violate("checkstate-wrong", fmt.Sprintf("secret %d reported %v, the history says %v", s.h, st.State, want), op.String(), LL(h.items).String())
			}
		}
	}
}

func (h *Hist) lockedBy(s *hSecret) *hMeltQ {
	for _, q := range h.lq {
		if q.state == 1 && !q.paid {
			for _, sh := range q.inputs {
				if sh == s.h {
					return q
				}
			}
		}
	}
	return nil
}

// learnMelts refreshes the harness's view of melt quotes from the store (resolution can happen inside other operations)
func (h *Hist) learnMelts(op S) {
	if h.dead {
		return
	}
	for _, q := range h.lq {
		lq, err := h.wdb.inner.GetMeltQuote(q.id)
		if err != nil {
			continue
		}
		q.state = meltStateNum(lq.State)
		if lq.State == nut05.Paid {
			h.notePaid(q, op)
		}
	}
}

func (h *Hist) OpRestore(m mode, bs []*hB, unknown int) {
	var bms cashu.BlindedMessages
	var bS []S
	for _, b := range bs {
		bms = append(bms, cashu.BlindedMessage{B_: b.bm.B_, Id: b.bm.Id})
		bS = append(bS, A(b.h))
	}
	for i := 0; i < unknown; i++ {
		b := h.newB(h.newSecret(), 1, h.activeHandle())
		bms = append(bms, cashu.BlindedMessage{B_: b.bm.B_, Id: b.bm.Id})
		bS = append(bS, A(b.h))
		bs = append(bs, b)
	}
	op := L(A(9), LL(bS))
	type rr struct {
		outs cashu.BlindedMessages
		sigs cashu.BlindedSignatures
	}
	v, err, out := h.exec(m, op, func() (any, error) {
		o, s, e := h.tm.M.RestoreSignatures(bms)
		return rr{o, s}, e
	}, func(v any) S {
		r := v.(rr)
		var l []S
		for i, sg := range r.sigs {
			bh := int64(-1)
			for _, b := range h.bs {
				if i < len(r.outs) && b.bm.B_ == r.outs[i].B_ {
					bh = b.h
				}
			}
			l = append(l, L(A(bh), AU(sg.Amount), A(h.ksHandle(sg.Id))))
		}
		return L(A(1), LL(l))
	})
	if err == nil && !out.crashed && out.panicV == nil {
		r := v.(rr)
		// C15 monitor: exactly the signed ones, in request order, with the original signature and DLEQ
		var want []*hB
		for _, b := range bs {
			if b.signed {
				want = append(want, b)
			}
		}
		ok := len(want) == len(r.sigs) && len(r.outs) == len(r.sigs)
		if ok {
			for i, b := range want {
				sg := r.sigs[i]
				if r.outs[i].B_ != b.bm.B_ || sg.C_ != b.sig.C_ || sg.Amount != b.sig.Amount || sg.Id != b.sig.Id ||
					sg.DLEQ == nil || b.sig.DLEQ == nil || sg.DLEQ.E != b.sig.DLEQ.E || sg.DLEQ.S != b.sig.DLEQ.S {
					ok = false
				}
			}
		}
		if !ok {
			h.sink.Violate("restore-wrong", "restore did not return exactly the signatures the mint handed out, in request order, with their DLEQ", op.String(), LL(h.items).String())
		}
	}
}

func (h *Hist) OpRotate(m mode, fee uint) {
	op := L(A(10), AU(uint64(fee)))
	h.exec(m, op, func() (any, error) { return h.tm.M.RotateKeyset(fee) }, func(any) S { return L(A(5)) },
		func(any, opOutcome) { h.tm.deriveKeysets() })
}

// ---------------- the admin RPC (mint/manager) ----------------

var decimalNumeral = regexp.MustCompile(`^[+-]?[0-9]+$`)

type adminReq struct {
	method string   // issued_ecash, redeemed_ecash, total_balance, list_keysets, rotate_keyset, or anything else
	ks     *int64   // keyset handle parameter (-7: an id the mint does not know)
	fee    *string  // fee text parameter of rotate_keyset
}

func (h *Hist) adminReqS(r adminReq) (S, []string) {
	var params []string
	ksS := L()
	if r.ks != nil {
		if *r.ks == -7 {
			params = []string{"00ffffffffffffff"}
		} else {
			params = []string{h.ksId(*r.ks)}
		}
		ksS = L(A(*r.ks))
	}
	switch r.method {
	case "issued_ecash":
		return L(A(1), ksS), params
	case "redeemed_ecash":
		return L(A(2), ksS), params
	case "total_balance":
		return L(A(3)), params
	case "list_keysets":
		return L(A(4)), params
	case "rotate_keyset":
		if r.fee == nil {
			return L(A(5), L()), nil
		}
		// FNum z: a decimal numeral with an optional sign (what strconv.Atoi reads, whatever its size); anything else is junk
		if v, ok := new(big.Int).SetString(*r.fee, 10); ok && decimalNumeral.MatchString(*r.fee) && v.BitLen() <= 70 {
			return L(A(5), L(L(A(0), AS(v.String())))), []string{*r.fee}
		}
		return L(A(5), L(L(A(1)))), []string{*r.fee}
	}
	return L(A(6)), params
}

func (h *Hist) rowsS(m map[string]uint64) S {
	type kv struct {
		k int64
		v uint64
	}
	var l []kv
	for id, v := range m {
		l = append(l, kv{h.ksHandle(id), v})
	}
	sort.Slice(l, func(i, j int) bool { return l[i].k < l[j].k })
	var out []S
	for _, x := range l {
		out = append(out, L(A(x.k), AU(x.v)))
	}
	return LL(out)
}

// OpAdmin sends one request to the admin dispatcher and records the answer in the model's vocabulary.
func (h *Hist) OpAdmin(r adminReq) {
	if h.ended {
		return
	}
	reqS, params := h.adminReqS(r)
	res, jerr := manager.VerifServer(h.tm.M).VerifProcess(manager.Request{JsonRPC: "2.0", Method: r.method, Params: params, Id: 7})
	var out S
	if jerr != nil {
		cls := int64(6)
		switch {
		case jerr.Message == "invalid method":
			cls = 1
		case jerr.Message == "fee not included":
			cls = 2
		case jerr.Message == "invalid fee":
			cls = 3
		case jerr.Message == cashu.UnknownKeysetErr.Error():
			cls = 4
		case strings.Contains(jerr.Message, "unable to get") || strings.Contains(jerr.Message, "sql") || strings.Contains(jerr.Message, "database") || strings.Contains(jerr.Message, "integer overflow"):
			cls = 5
		}
		out = L(A(0), A(int64(jerr.Code)), A(cls))
	} else {
		type ksAmt struct {
			Id       string `json:"id"`
			Issued   uint64 `json:"amount_issued"`
			Redeemed uint64 `json:"amount_redeemed"`
		}
		type view struct {
			Keysets       []ksAmt `json:"keysets"`
			TotalIssued   uint64  `json:"total_issued"`
			TotalRedeemed uint64  `json:"total_redeemed"`
		}
		toMap := func(v view, issued bool) map[string]uint64 {
			m := map[string]uint64{}
			for _, k := range v.Keysets {
				if issued {
					m[k.Id] = k.Issued
				} else {
					m[k.Id] = k.Redeemed
				}
			}
			return m
		}
		switch r.method {
		case "issued_ecash", "redeemed_ecash":
			issued := r.method == "issued_ecash"
			if r.ks != nil {
				var one ksAmt
				must(json.Unmarshal(res.Result, &one))
				amt := one.Redeemed
				if issued {
					amt = one.Issued
				}
				out = L(A(1), A(h.ksHandle(one.Id)), AU(amt))
			} else {
				var v view
				must(json.Unmarshal(res.Result, &v))
				tot := v.TotalRedeemed
				if issued {
					tot = v.TotalIssued
				}
				out = L(A(2), h.rowsS(toMap(v, issued)), AU(tot))
			}
		case "total_balance":
			var t struct {
				I view   `json:"total_issued"`
				R view   `json:"total_redeemed"`
				C uint64 `json:"total_circulation"`
			}
			must(json.Unmarshal(res.Result, &t))
			out = L(A(3), h.rowsS(toMap(t.I, true)), AU(t.I.TotalIssued), h.rowsS(toMap(t.R, false)), AU(t.R.TotalRedeemed), AU(t.C))
		case "list_keysets":
			var l struct {
				Keysets []struct {
					Id     string `json:"id"`
					Active bool   `json:"active"`
					Fee    uint64 `json:"input_fee_ppk"`
				} `json:"keysets"`
			}
			must(json.Unmarshal(res.Result, &l))
			sort.Slice(l.Keysets, func(i, j int) bool { return h.ksHandle(l.Keysets[i].Id) < h.ksHandle(l.Keysets[j].Id) })
			var ks []S
			for _, k := range l.Keysets {
				ks = append(ks, L(A(h.ksHandle(k.Id)), AU(k.Fee), AB(k.Active)))
			}
			out = L(A(4), LL(ks))
		case "rotate_keyset":
			h.tm.deriveKeysets()
			var k struct {
				Id          string `json:"id"`
				Active      bool   `json:"active"`
				InputFeePpk uint64 `json:"input_fee_ppk"`
			}
			must(json.Unmarshal(res.Result, &k))
			out = L(A(5), A(h.ksHandle(k.Id)), AU(k.InputFeePpk), AB(k.Active))
		default:
			out = L(A(7))
		}
	}
	h.items = append(h.items, L(A(5), reqS))
	h.obs = append(h.obs, L(out, h.snapshot()))
	h.stats["op=admin:"+r.method]++
	if jerr != nil {
		h.stats["rejected=admin:"+r.method]++
	}
	h.lastSnap = h.snapshotN(true).String()
}

func (h *Hist) OpWatcher(m mode, q *hMintQ) {
	op := L(A(12), A(q.h))
	h.tm.LN.mu.Lock()
	h.tm.LN.fireNow = q.hash
	h.tm.LN.mu.Unlock()
	h.exec(m, op, func() (any, error) {
		ctx, cancel := context.WithTimeout(context.Background(), 5*time.Second)
		defer cancel()
		h.tm.M.VerifCheckInvoicePaid(ctx, q.id)
		return nil, nil
	}, func(any) S { return L(A(5)) })
	h.tm.LN.mu.Lock()
	h.tm.LN.fireNow = ""
	h.tm.LN.mu.Unlock()
}

func (h *Hist) OpBalance(m mode) {
	op := L(A(13))
	v, err, out := h.exec(m, op, func() (any, error) { return h.tm.M.TotalBalance() }, func(v any) S { return L(A(6), AU(v.(uint64))) })
	if err == nil && !out.crashed && out.panicV == nil && m.kind == 0 {
		// C16 monitor: balance = signatures handed out (incl. those whose response was lost) - proofs consumed, as recorded in the store
		iss, _ := h.tm.M.IssuedEcash()
		red, _ := h.tm.M.RedeemedEcash()
		var i, r uint64
		for _, x := range iss {
			i += x
		}
		for _, x := range red {
			r += x
		}
		if v.(uint64) != i-r || r > i {
			h.sink.Violate("balance-not-issued-minus-redeemed", fmt.Sprintf("balance %d, issued %d, redeemed %d", v.(uint64), i, r), op.String(), LL(h.items).String())
		}
	}
}

func (h *Hist) storeBalance() (uint64, bool) {
	iss, e1 := h.wdb.inner.GetIssuedEcash()
	red, e2 := h.wdb.inner.GetRedeemedEcash()
	if e1 != nil || e2 != nil {
		return 0, false
	}
	var i, r uint64
	for _, x := range iss {
		i += x
	}
	for _, x := range red {
		r += x
	}
	return i - r, r <= i
}

func (h *Hist) OpInfo(m mode) {
	op := L(A(14))
	v, err, out := h.exec(m, op, func() (any, error) {
		info, err := h.tm.M.RetrieveMintInfo()
		return info.Nuts.Nut04.Disabled, err
	}, func(v any) S { return L(A(7), AB(v.(bool))) })
	if err == nil && !out.crashed && out.panicV == nil && m.kind == 0 {
		// C16 monitor: minting is shown disabled exactly when the balance has reached the configured maximum
		if bal, ok := h.storeBalance(); ok {
			want := h.cfg.maxBalance > 0 && bal >= h.cfg.maxBalance
			if v.(bool) != want {
				h.sink.Violate("info-disabled-flag-wrong"+h.sigSuffix, fmt.Sprintf("info shows disabled=%v with balance %d and max balance %d", v.(bool), bal, h.cfg.maxBalance), op.String(), LL(h.items).String())
			}
		}
	}
}

// finish writes the history as one case.
func (h *Hist) Finish(nontrivial bool) {
	if !h.dead && !h.cuts {
		// global conservation monitor (C02)
		if h.issued+h.paidOut > h.extIn+h.intIn+h.redeemed {
			h.sink.Violate("conservation", fmt.Sprintf("issued %d + paid out %d > received %d + internally settled %d + redeemed %d",
				h.issued, h.paidOut, h.extIn, h.intIn, h.redeemed), LL(h.items).String(), nil)
		}
	}
	c := L(A(5), L(h.cfg0.S(), A(h.proj), LL(h.items)))
	h.sink.Add(c, LL(h.obs), nontrivial)
	for k, v := range h.stats {
		h.sink.StatN(k, v)
	}
	h.tm.Close()
}
