package main

// Wallet-side fixture (properties C08, C17, C19): real wallets (wallet.LoadWallet / wallet.Restore on
// bbolt files in temp dirs) talking to one or two in-process mints through an http.RoundTripper that is
// installed as http.DefaultTransport, routes by host, records every request and response, and is a
// crash point. The Lightning backends of the mints are connected: paying an invoice that another
// in-process mint created settles it there.

import (
	"bytes"
	"context"
	"crypto/sha256"
	"encoding/hex"
	"encoding/json"
	"errors"
	"fmt"
	"io"
	"math/rand"
	"net/http"
	"net/http/httptest"
	"os"
	"sort"
	"strings"

	"github.com/btcsuite/btcd/btcutil/hdkeychain"
	"github.com/btcsuite/btcd/chaincfg"
	"github.com/elnosh/gonuts/cashu"
	"github.com/elnosh/gonuts/cashu/nuts/nut04"
	"github.com/elnosh/gonuts/cashu/nuts/nut05"
	"github.com/elnosh/gonuts/cashu/nuts/nut07"
	"github.com/elnosh/gonuts/cashu/nuts/nut13"
	"github.com/elnosh/gonuts/crypto"
	"github.com/elnosh/gonuts/mint"
	"github.com/elnosh/gonuts/mint/lightning"
	"github.com/elnosh/gonuts/mint/storage/sqlite"
	"github.com/elnosh/gonuts/wallet"
	"github.com/elnosh/gonuts/wallet/storage"
	decodepay "github.com/nbd-wtf/ln-decodepay"
	"github.com/tyler-smith/go-bip39"
)

// ---------------- effect labels (shared with coq/Wallet/WModel.v) ----------------

const (
	eSaveProofs      = 1
	eDeleteProof     = 2
	eAddPending      = 3
	eAddPendingQuote = 4
	eDelPending      = 5
	eDelPendingQuote = 6
	eSaveKeyset      = 7
	eIncCounter      = 8
	eSaveMintQuote   = 9
	eSaveMeltQuote   = 10
	eUpdateMintURL   = 11
	eSaveSeed        = 12
	ePostMintQuote   = 20
	ePostMint        = 21
	ePostSwap        = 22
	ePostMeltQuote   = 23
	ePostMelt        = 24
	ePostCheck       = 25
	ePostRestore     = 26
)

func postLabel(path string) int {
	switch path {
	case "/v1/mint/quote/bolt11":
		return ePostMintQuote
	case "/v1/mint/bolt11":
		return ePostMint
	case "/v1/swap":
		return ePostSwap
	case "/v1/melt/quote/bolt11":
		return ePostMeltQuote
	case "/v1/melt/bolt11":
		return ePostMelt
	case "/v1/checkstate":
		return ePostCheck
	case "/v1/restore":
		return ePostRestore
	}
	return 0
}

type wCrash struct{}

// ---------------- the Lightning network between the mints ----------------

type wPayment struct {
	hash   string
	plan   int // answer to the pay call: 0 succeeded, 1 failed, 2 pending
	status int // 0 none yet, 1 succeeded, 2 failed, 3 pending
	from   *wMint
	pre    string
}

type netLN struct {
	w     *wWorld
	m     *wMint
	inner *LN
}

func (n *netLN) ConnectionStatus() error { return nil }

func (n *netLN) CreateInvoice(amount uint64) (lightning.Invoice, error) {
	inv, err := n.inner.CreateInvoice(amount)
	if err == nil {
		n.w.invOwner[inv.PaymentHash] = n.m
	}
	return inv, err
}

func (n *netLN) InvoiceStatus(hash string) (lightning.Invoice, error) {
	return n.inner.InvoiceStatus(hash)
}

func (n *netLN) preimageOf(hash string) string {
	if owner, ok := n.w.invOwner[hash]; ok {
		if inv, ok := owner.tm.LN.invoices[hash]; ok {
			return inv.preimage
		}
	}
	h := sha256.Sum256([]byte("preimage of " + hash))
	return hex.EncodeToString(h[:])
}

// settle delivers a successful payment: an invoice of an in-process mint becomes settled there.
func (n *netLN) settle(hash string) {
	if owner, ok := n.w.invOwner[hash]; ok {
		owner.tm.LN.Settle(hash)
	}
}

func (n *netLN) pay(request string) (lightning.PaymentStatus, error) {
	bolt, err := decodepay.Decodepay(request)
	if err != nil {
		return lightning.PaymentStatus{}, err
	}
	hash := bolt.PaymentHash
	p := n.w.pay[hash]
	if p == nil {
		p = &wPayment{hash: hash, plan: n.w.nextOutcome, from: n.m, pre: n.preimageOf(hash)}
		n.w.pay[hash] = p
	} else if p.status == 2 {
		// a new attempt after a failed one
		p.plan = n.w.nextOutcome
	}
	n.w.payCalls++
	switch p.plan {
	case 0:
		p.status = 1
		n.settle(hash)
		return lightning.PaymentStatus{Preimage: p.pre, PaymentStatus: lightning.Succeeded}, nil
	case 1:
		p.status = 2
		return lightning.PaymentStatus{PaymentStatus: lightning.Failed, PaymentFailureReason: "scripted failure"}, nil
	default:
		p.status = 3
		return lightning.PaymentStatus{PaymentStatus: lightning.Pending}, nil
	}
}

func (n *netLN) SendPayment(ctx context.Context, request string, maxFee uint64) (lightning.PaymentStatus, error) {
	return n.pay(request)
}

func (n *netLN) PayPartialAmount(ctx context.Context, request string, amountMsat, maxFee uint64) (lightning.PaymentStatus, error) {
	return n.pay(request)
}

func (n *netLN) OutgoingPaymentStatus(ctx context.Context, hash string) (lightning.PaymentStatus, error) {
	p := n.w.pay[hash]
	if p == nil || p.status == 0 {
		return lightning.PaymentStatus{PaymentStatus: lightning.Failed}, lightning.OutgoingPaymentNotFound
	}
	switch p.status {
	case 1:
		return lightning.PaymentStatus{Preimage: p.pre, PaymentStatus: lightning.Succeeded}, nil
	case 2:
		return lightning.PaymentStatus{PaymentStatus: lightning.Failed, PaymentFailureReason: "scripted failure"}, nil
	}
	return lightning.PaymentStatus{PaymentStatus: lightning.Pending}, nil
}

func (n *netLN) FeeReserve(amount uint64) uint64 { return (amount*n.m.feePct + 99) / 100 }

func (n *netLN) SubscribeInvoice(ctx context.Context, paymentHash string) (lightning.InvoiceSubscriptionClient, error) {
	return n.inner.SubscribeInvoice(ctx, paymentHash)
}

// ---------------- mints ----------------

type wMint struct {
	idx     int
	url     string
	host    string
	tm      *TM
	ln      *netLN
	handler http.Handler
	feePct  uint64
	fees    []uint // input_fee_ppk per keyset index
}

func (w *wWorld) newMint(fee0 uint, feePct uint64) *wMint {
	idx := len(w.mints)
	dir, err := os.MkdirTemp(w.dir, "mint")
	must(err)
	db, err := sqlite.InitSQLite(dir)
	must(err)
	seed := sha256.Sum256([]byte(fmt.Sprintf("verif wallet-stream mint seed %d", idx)))
	must(db.SaveSeed(seed[:]))
	must(db.Close())
	m := &wMint{idx: idx, host: fmt.Sprintf("mint%d.verif", idx), feePct: feePct, fees: []uint{fee0}}
	m.url = "http://" + m.host
	m.tm = &TM{Dir: dir, LN: NewLN(w.rng), Seed: seed[:]}
	m.ln = &netLN{w: w, m: m, inner: m.tm.LN}
	m.tm.Cfg = mint.Config{MintPath: dir, LogLevel: mint.Disable, LightningClient: m.ln, InputFeePpk: fee0}
	m.tm.Load()
	m.serve()
	w.mints = append(w.mints, m)
	w.byHost[m.host] = m
	return m
}

func (m *wMint) serve() {
	srv := mint.SetupMintServer(m.tm.M, mint.ServerConfig{Port: 0})
	m.handler = srv.VerifHandler()
}

// rotate restarts the mint with RotateKeyset and the new fee, as the operator would.
func (m *wMint) rotate(fee uint) {
	m.tm.Cfg.RotateKeyset = true
	m.tm.Cfg.InputFeePpk = fee
	m.tm.Restart()
	m.tm.Cfg.RotateKeyset = false
	m.fees = append(m.fees, fee)
	m.serve()
}

// ksIndex maps a keyset id to its derivation index at this mint (-1: unknown).
func (m *wMint) ksIndex(id string) int {
	for i, k := range m.tm.Order {
		if k == id {
			return i
		}
	}
	return -1
}

func (m *wMint) states(ys []string) map[string]nut07.State {
	out := map[string]nut07.State{}
	for i := 0; i < len(ys); i += 400 {
		j := i + 400
		if j > len(ys) {
			j = len(ys)
		}
		st, err := m.tm.M.ProofsStateCheck(ys[i:j])
		if err != nil {
			panic(fmt.Sprintf("ProofsStateCheck: %v", err))
		}
		for _, s := range st {
			out[s.Y] = s.State
		}
	}
	return out
}

// outstanding = issued - redeemed, from the mint's own database
func (m *wMint) issuedRedeemed() (uint64, uint64) {
	is, err := m.tm.M.IssuedEcash()
	must(err)
	rd, err := m.tm.M.RedeemedEcash()
	must(err)
	var a, b uint64
	for _, v := range is {
		a += v
	}
	for _, v := range rd {
		b += v
	}
	return a, b
}

// ---------------- transport ----------------

type wReq struct {
	seq    int
	wal    *wWal
	method string
	host   string
	path   string
	url    string
	body   []byte
	status int
	resp   []byte
	label  int
	ctr    map[string]uint32 // stored counter of each output keyset when the request left the wallet
}

type wTransport struct{ w *wWorld }

func (t *wTransport) RoundTrip(req *http.Request) (*http.Response, error) {
	w := t.w
	var body []byte
	if req.Body != nil {
		body, _ = io.ReadAll(req.Body)
		req.Body.Close()
	}
	m := w.byHost[req.URL.Host]
	if m == nil {
		return nil, errors.New("verif transport: unknown host " + req.URL.Host)
	}
	label := 0
	if req.Method == http.MethodPost {
		label = postLabel(req.URL.Path)
	}
	if label != 0 {
		w.before(label)
	}
	var ctr map[string]uint32
	if (label == ePostSwap || label == ePostMint || label == ePostMelt) && w.cur != nil && w.cur.store != nil {
		ctr = map[string]uint32{}
		var b jBody
		if json.Unmarshal(body, &b) == nil {
			for _, o := range b.Outputs {
				if _, ok := ctr[o.Id]; !ok {
					ctr[o.Id] = w.cur.store.inner.GetKeysetCounter(o.Id)
				}
			}
		}
	}
	r2 := httptest.NewRequest(req.Method, req.URL.String(), bytes.NewReader(body))
	for k, v := range req.Header {
		r2.Header[k] = v
	}
	rec := httptest.NewRecorder()
	m.handler.ServeHTTP(rec, r2)
	res := rec.Result()
	rb, _ := io.ReadAll(res.Body)
	res.Body = io.NopCloser(bytes.NewReader(rb))
	res.Request = req
	w.seq++
	w.reqs = append(w.reqs, &wReq{seq: w.seq, wal: w.cur, method: req.Method, host: req.URL.Host, path: req.URL.Path,
		url: req.URL.String(), body: body, status: res.StatusCode, resp: rb, label: label, ctr: ctr})
	return res, nil
}

// ---------------- wallet store wrapper ----------------

type wStore struct {
	inner storage.WalletDB
	w     *wWorld
	wal   *wWal
}

func (s *wStore) learn(ps cashu.Proofs) {
	for _, p := range ps {
		if p.DLEQ != nil && p.DLEQ.R != "" {
			s.w.learnR(p.DLEQ.R, "store")
		}
	}
}

func (s *wStore) SaveMnemonicSeed(m string, seed []byte) {
	s.w.before(eSaveSeed)
	s.inner.SaveMnemonicSeed(m, seed)
}
func (s *wStore) GetSeed() []byte     { return s.inner.GetSeed() }
func (s *wStore) GetMnemonic() string { return s.inner.GetMnemonic() }
func (s *wStore) SaveProofs(p cashu.Proofs) error {
	s.w.before(eSaveProofs)
	s.learn(p)
	return s.inner.SaveProofs(p)
}
func (s *wStore) GetProofs() cashu.Proofs {
	p := s.inner.GetProofs()
	s.learn(p)
	return p
}
func (s *wStore) GetProofsByKeysetId(id string) cashu.Proofs {
	p := s.inner.GetProofsByKeysetId(id)
	s.learn(p)
	return p
}
func (s *wStore) DeleteProof(secret string) error {
	s.w.before(eDeleteProof)
	return s.inner.DeleteProof(secret)
}
func (s *wStore) AddPendingProofs(p cashu.Proofs) error {
	s.w.before(eAddPending)
	s.learn(p)
	return s.inner.AddPendingProofs(p)
}
func (s *wStore) AddPendingProofsByQuoteId(p cashu.Proofs, q string) error {
	s.w.before(eAddPendingQuote)
	s.learn(p)
	return s.inner.AddPendingProofsByQuoteId(p, q)
}
func (s *wStore) GetPendingProofs() []storage.DBProof { return s.inner.GetPendingProofs() }
func (s *wStore) GetPendingProofsByQuoteId(q string) []storage.DBProof {
	return s.inner.GetPendingProofsByQuoteId(q)
}
func (s *wStore) DeletePendingProofs(ys []string) error {
	s.w.before(eDelPending)
	return s.inner.DeletePendingProofs(ys)
}
func (s *wStore) DeletePendingProofsByQuoteId(q string) error {
	s.w.before(eDelPendingQuote)
	return s.inner.DeletePendingProofsByQuoteId(q)
}
func (s *wStore) SaveKeyset(k *crypto.WalletKeyset) error {
	s.w.before(eSaveKeyset)
	return s.inner.SaveKeyset(k)
}
func (s *wStore) GetKeysets() crypto.KeysetsMap            { return s.inner.GetKeysets() }
func (s *wStore) GetKeyset(id string) *crypto.WalletKeyset { return s.inner.GetKeyset(id) }
func (s *wStore) IncrementKeysetCounter(id string, n uint32) error {
	s.w.before(eIncCounter)
	s.w.incs = append(s.w.incs, wInc{id, n})
	return s.inner.IncrementKeysetCounter(id, n)
}
func (s *wStore) GetKeysetCounter(id string) uint32 { return s.inner.GetKeysetCounter(id) }
func (s *wStore) UpdateKeysetMintURL(o, n string) error {
	s.w.before(eUpdateMintURL)
	return s.inner.UpdateKeysetMintURL(o, n)
}
func (s *wStore) SaveMintQuote(q storage.MintQuote) error {
	s.w.before(eSaveMintQuote)
	return s.inner.SaveMintQuote(q)
}
func (s *wStore) GetMintQuotes() []storage.MintQuote { return s.inner.GetMintQuotes() }
func (s *wStore) GetMintQuoteById(id string) *storage.MintQuote {
	return s.inner.GetMintQuoteById(id)
}
func (s *wStore) SaveMeltQuote(q storage.MeltQuote) error {
	s.w.before(eSaveMeltQuote)
	return s.inner.SaveMeltQuote(q)
}
func (s *wStore) GetMeltQuotes() []storage.MeltQuote { return s.inner.GetMeltQuotes() }
func (s *wStore) GetMeltQuoteById(id string) *storage.MeltQuote {
	return s.inner.GetMeltQuoteById(id)
}
func (s *wStore) Close() error { return s.inner.Close() }

type wInc struct {
	ks string
	n  uint32
}

// ---------------- wallets ----------------

type wWal struct {
	idx      int
	dir      string
	W        *wallet.Wallet
	store    *wStore
	mnemonic string
	home     *wMint
	trusted  []*wMint // in the order they were added (home first)
	seed     *wSeed
	gen      int  // number of restores this wallet slot went through
	cut      bool // an operation of this wallet was cut since it was created / restored
	blur     bool // ... inside a loop of DeleteProof calls: its store is not compared
	meltQ    []*wMeltQ
	broken   bool // the wallet could not be reopened
}

type wMeltQ struct {
	id     string
	m      *wMint
	hash   string
	amount uint64
	state  int // as the harness last saw it: 0 unpaid 1 pending 2 paid
}

// wSeed: the independent NUT-13 derivation of a mnemonic.
type wSeed struct {
	id       int
	mnemonic string
	master   *hdkeychain.ExtendedKey
	tables   map[string]*wTable // by keyset id
}

type wDerived struct {
	secret, r, B string
}

type wTable struct {
	path *hdkeychain.ExtendedKey
	rows []wDerived
}

func (w *wWorld) seedOf(mnemonic string) *wSeed {
	if s, ok := w.seeds[mnemonic]; ok {
		return s
	}
	seed := bip39.NewSeed(mnemonic, "")
	master, err := hdkeychain.NewMaster(seed, &chaincfg.MainNetParams)
	must(err)
	s := &wSeed{id: len(w.seeds), mnemonic: mnemonic, master: master, tables: map[string]*wTable{}}
	w.seeds[mnemonic] = s
	return s
}

// extend derives counters up to n (exclusive) for keyset ks and indexes r, secret and B_.
func (w *wWorld) extend(s *wSeed, ks string, n int) *wTable {
	t := s.tables[ks]
	if t == nil {
		path, err := nut13.DeriveKeysetPath(s.master, ks)
		must(err)
		t = &wTable{path: path}
		s.tables[ks] = t
	}
	for c := len(t.rows); c < n; c++ {
		r, err := nut13.DeriveBlindingFactor(t.path, uint32(c))
		must(err)
		secret, err := nut13.DeriveSecret(t.path, uint32(c))
		must(err)
		B_, _, err := crypto.BlindMessage(secret, r)
		must(err)
		d := wDerived{secret: secret, r: hex.EncodeToString(r.Serialize()), B: hex.EncodeToString(B_.SerializeCompressed())}
		t.rows = append(t.rows, d)
		w.byB[d.B] = wOrigin{seed: s, ks: ks, counter: c}
		w.learnR(d.r, "nut13")
		w.detSecret[d.secret] = wOrigin{seed: s, ks: ks, counter: c}
	}
	return t
}

type wOrigin struct {
	seed    *wSeed
	ks      string
	counter int
}

func (w *wWorld) learnR(r, from string) {
	if len(r) == 64 {
		if _, ok := w.rs[r]; !ok {
			w.rs[r] = from
		}
	}
}

// ---------------- world ----------------

type wWorld struct {
	sink    *Sink
	rng     *rand.Rand
	dir     string
	mints   []*wMint
	byHost  map[string]*wMint
	wallets []*wWal
	seeds   map[string]*wSeed
	cur     *wWal

	old http.RoundTripper

	// Lightning
	invOwner    map[string]*wMint
	pay         map[string]*wPayment
	nextOutcome int
	payCalls    int

	// traffic
	seq     int
	reqs    []*wReq
	scanned int // requests already looked at by the monitors

	// effects of the running operation
	effs    []int
	incs    []wInc
	crashAt int // 0: never; k: panic right before the k-th effect
	crashed bool

	// knowledge of the harness
	rs        map[string]string  // hex of every blinding factor known
	byB       map[string]wOrigin // derived B_ -> origin
	detSecret map[string]wOrigin
	nonce     map[string]string   // NUT-10 nonce -> whole secret (random-secret outputs handed to callers)
	signed    map[string]*wOutput // B_ -> output signed by a mint
	outputs   []*wOutput
	secrets   map[string]*wOutput // secret -> signed output (when the secret is known)
	spentSeen map[string]bool     // secrets seen as inputs of a successful spend
	subB      map[string]int      // B_ -> number of submissions for signing
	tokens    []*wToken
	stats     map[string]int
}

type wOutput struct {
	B       string
	amount  uint64
	ks      string
	m       *wMint
	seed    *wSeed // nil: not derived from a wallet seed (random secret)
	counter int
	secret  string // "" while unknown
	by      *wWal
	op      int
	// signed for a keyset the signing wallet's store did not know (a receive from a mint it does not trust): the wallet keeps
	// no counter for such a keyset (known finding), so a later request at that mint starts from counter 0 again
	untrusted bool
}

type wToken struct {
	h        int
	m        *wMint
	proofs   cashu.Proofs
	from     *wWal
	kind     int // 0 plain, 1 P2PK, 2 HTLC
	to       int // wallet index the lock is for (-1 none)
	sigall   bool
	preimage string
	redeemed bool
	dleq     bool
}

func newWWorld(sink *Sink, rng *rand.Rand, scratch string) *wWorld {
	dir, err := os.MkdirTemp(scratch, "wworld")
	must(err)
	w := &wWorld{sink: sink, rng: rng, dir: dir, byHost: map[string]*wMint{}, seeds: map[string]*wSeed{},
		invOwner: map[string]*wMint{}, pay: map[string]*wPayment{}, rs: map[string]string{}, byB: map[string]wOrigin{},
		detSecret: map[string]wOrigin{}, signed: map[string]*wOutput{}, secrets: map[string]*wOutput{},
		spentSeen: map[string]bool{}, subB: map[string]int{}, stats: map[string]int{}, nonce: map[string]string{}}
	w.old = http.DefaultTransport
	http.DefaultTransport = &wTransport{w: w}
	return w
}

func (w *wWorld) close() {
	for _, wl := range w.wallets {
		if wl.W != nil {
			wl.store.inner.Close()
		}
	}
	for _, m := range w.mints {
		m.tm.M.Shutdown()
	}
	http.DefaultTransport = w.old
	os.RemoveAll(w.dir)
}

// before is called right before every effect (store write or POST).
func (w *wWorld) before(label int) {
	if w.crashAt > 0 && len(w.effs)+1 == w.crashAt {
		w.crashed = true
		panic(wCrash{})
	}
	w.effs = append(w.effs, label)
}

func (w *wWorld) newWallet(home *wMint) *wWal {
	dir, err := os.MkdirTemp(w.dir, "wallet")
	must(err)
	wl := &wWal{idx: len(w.wallets), dir: dir, home: home, trusted: []*wMint{home}}
	w.wallets = append(w.wallets, wl)
	w.cur = wl
	must(w.open(wl))
	wl.mnemonic = wl.W.Mnemonic()
	wl.seed = w.seedOf(wl.mnemonic)
	return wl
}

// open loads the wallet from its directory and puts the store wrapper in.
func (w *wWorld) open(wl *wWal) error {
	W, err := wallet.LoadWallet(wallet.Config{WalletPath: wl.dir, CurrentMintURL: wl.home.url})
	if err != nil {
		return err
	}
	wl.W = W
	W.VerifWrapDB(func(db storage.WalletDB) storage.WalletDB {
		wl.store = &wStore{inner: db, w: w, wal: wl}
		return wl.store
	})
	return nil
}

func (wl *wWal) trusts(m *wMint) bool {
	for _, t := range wl.trusted {
		if t == m {
			return true
		}
	}
	return false
}

// ---------------- running one wallet operation ----------------

type wOutcome struct {
	val     any
	err     error
	crashed bool
	panicV  any
	effs    []int
	incs    []wInc
	reqs    []*wReq
}

// run executes f as an operation of wallet wl; crashAt > 0 cuts it right before that effect.
func (w *wWorld) run(wl *wWal, crashAt int, f func() (any, error)) (out wOutcome) {
	w.cur = wl
	w.effs = nil
	w.incs = nil
	// operations are thought of as more than the NUT-19 cache TTL (5 min) apart: every
	// operation meets mint servers with an empty response cache
	for _, m := range w.mints {
		m.serve()
	}
	w.crashAt = crashAt
	w.crashed = false
	first := len(w.reqs)
	func() {
		defer func() {
			if r := recover(); r != nil {
				if _, ok := r.(wCrash); ok {
					out.crashed = true
				} else {
					out.panicV = r
				}
			}
		}()
		out.val, out.err = f()
	}()
	w.crashAt = 0
	out.effs = w.effs
	out.incs = w.incs
	out.reqs = w.reqs[first:]
	return out
}

// reopen: the wallet process died; its file lock goes away with it and the wallet is loaded again.
func (w *wWorld) reopen(wl *wWal) error {
	if wl.store != nil {
		wl.store.inner.Close()
	}
	wl.W = nil
	w.cur = wl
	w.effs = nil
	err := w.open(wl)
	if err != nil {
		wl.broken = true
	}
	return err
}

// ---------------- what went over the wire ----------------

type jIn struct {
	Amount  uint64 `json:"amount"`
	Id      string `json:"id"`
	Secret  string `json:"secret"`
	C       string `json:"C"`
	Witness string `json:"witness"`
	DLEQ    *struct {
		E string `json:"e"`
		S string `json:"s"`
		R string `json:"r"`
	} `json:"dleq"`
}

type jOut struct {
	Amount  uint64 `json:"amount"`
	Id      string `json:"id"`
	B       string `json:"B_"`
	Witness string `json:"witness"`
}

type jBody struct {
	Quote   string   `json:"quote"`
	Inputs  []jIn    `json:"inputs"`
	Outputs []jOut   `json:"outputs"`
	Ys      []string `json:"Ys"`
}

type jSigs struct {
	Signatures []struct {
		Amount uint64 `json:"amount"`
		Id     string `json:"id"`
		C      string `json:"C_"`
	} `json:"signatures"`
	Change []struct {
		Amount uint64 `json:"amount"`
	} `json:"change"`
	State string `json:"state"`
}

// shape of a POST: (label, inputs, inputs with dleq, inputs with dleq.r, outputs, outputs clean, Ys)
type wShape struct {
	label, nIn, nDleq, nR, nOut, clean, nYs int
}

func (s wShape) S() S {
	return L(A(int64(s.label)), A(int64(s.nIn)), A(int64(s.nDleq)), A(int64(s.nR)), A(int64(s.nOut)), A(int64(s.clean)), A(int64(s.nYs)))
}

func shapeOf(r *wReq) (wShape, jBody) {
	var b jBody
	sh := wShape{label: r.label, clean: 1}
	if err := json.Unmarshal(r.body, &b); err != nil {
		sh.clean = 0
		return sh, b
	}
	sh.nIn = len(b.Inputs)
	for _, in := range b.Inputs {
		if in.DLEQ != nil {
			sh.nDleq++
			if in.DLEQ.R != "" {
				sh.nR++
			}
		}
	}
	sh.nOut = len(b.Outputs)
	sh.nYs = len(b.Ys)
	// outputs carry only amount, id, B_ (and a witness for SIG_ALL)
	var raw struct {
		Outputs []map[string]json.RawMessage `json:"outputs"`
	}
	json.Unmarshal(r.body, &raw)
	for _, o := range raw.Outputs {
		for k := range o {
			if k != "amount" && k != "id" && k != "B_" && k != "witness" {
				sh.clean = 0
			}
		}
	}
	return sh, b
}

// jsonPaths lists the paths (array indices dropped) of the string values of a JSON document that contain needle.
func jsonPaths(doc []byte, needle string) []string {
	var v any
	if json.Unmarshal(doc, &v) != nil {
		return []string{"(body)"}
	}
	found := map[string]bool{}
	var walk func(x any, path string)
	walk = func(x any, path string) {
		switch t := x.(type) {
		case map[string]any:
			for k, y := range t {
				p := k
				if path != "" {
					p = path + "." + k
				}
				if strings.Contains(k, needle) {
					found[p+"(key)"] = true
				}
				walk(y, p)
			}
		case []any:
			for _, y := range t {
				walk(y, path)
			}
		case string:
			if strings.Contains(t, needle) {
				found[path] = true
			} else if strings.Contains(t, "{") {
				// witnesses and NUT-10 secrets are JSON inside a string
				var inner any
				if json.Unmarshal([]byte(t), &inner) == nil {
					walk(inner, path+"|")
				}
			}
		}
	}
	walk(v, "")
	if len(found) == 0 {
		return []string{"(raw)"}
	}
	out := []string{}
	for k := range found {
		out = append(out, k)
	}
	sort.Strings(out)
	return out
}

func isHex(c byte) bool {
	return (c >= '0' && c <= '9') || (c >= 'a' && c <= 'f') || (c >= 'A' && c <= 'F')
}

// hexWindows calls f for every 64-character window of every maximal run of hex digits in b.
func hexWindows(b []byte, f func(s string)) {
	i := 0
	for i < len(b) {
		if !isHex(b[i]) {
			i++
			continue
		}
		j := i
		for j < len(b) && isHex(b[j]) {
			j++
		}
		for k := i; k+64 <= j; k++ {
			f(strings.ToLower(string(b[k : k+64])))
		}
		i = j
	}
}

func mintStateN(s nut04.State) int {
	switch s {
	case nut04.Unpaid:
		return 0
	case nut04.Paid:
		return 1
	case nut04.Pending:
		return 2
	case nut04.Issued:
		return 3
	}
	return 4
}

func meltStateN(s nut05.State) int {
	switch s {
	case nut05.Unpaid:
		return 0
	case nut05.Pending:
		return 1
	case nut05.Paid:
		return 2
	}
	return 3
}
