package main

// A minimal JSON value tree of the harness's own: requests are built as trees and written as
// text by this file (never by the repository's marshalers), responses are read by this file's
// parser, which keeps the order of object members (needed to check that key maps are sorted).

import (
	"errors"
	"fmt"
	"sort"
	"strconv"
	"strings"
	"unicode/utf8"
)

type jv struct {
	k    byte   // 'n' null, 't' true, 'f' false, '#' number, 's' string, 'a' array, 'o' object
	s    string // number text or string value
	a    []*jv  // array elements, or object member values
	keys []string
}

func jNull() *jv { return &jv{k: 'n'} }
func jBool(b bool) *jv {
	if b {
		return &jv{k: 't'}
	}
	return &jv{k: 'f'}
}
func jS(s string) *jv       { return &jv{k: 's', s: s} }
func jN(u uint64) *jv       { return &jv{k: '#', s: strconv.FormatUint(u, 10)} }
func jNumText(t string) *jv { return &jv{k: '#', s: t} }
func jA(items ...*jv) *jv   { return &jv{k: 'a', a: items} }

// jO builds an object from alternating key, value arguments; nil values are skipped (omitted members).
func jO(kv ...any) *jv {
	o := &jv{k: 'o'}
	for i := 0; i+1 < len(kv); i += 2 {
		v, _ := kv[i+1].(*jv)
		if v == nil {
			continue
		}
		o.keys = append(o.keys, kv[i].(string))
		o.a = append(o.a, v)
	}
	return o
}

// get returns the member named key (the last one when repeated), nil when v is not an object or has none.
func (v *jv) get(key string) *jv {
	if v == nil || v.k != 'o' {
		return nil
	}
	for i := len(v.keys) - 1; i >= 0; i-- {
		if v.keys[i] == key {
			return v.a[i]
		}
	}
	return nil
}

func (v *jv) set(key string, val *jv) {
	for i := range v.keys {
		if v.keys[i] == key {
			v.a[i] = val
			return
		}
	}
	v.keys = append(v.keys, key)
	v.a = append(v.a, val)
}

func (v *jv) clone() *jv {
	if v == nil {
		return nil
	}
	c := &jv{k: v.k, s: v.s}
	if v.keys != nil {
		c.keys = append([]string{}, v.keys...)
	}
	for _, x := range v.a {
		c.a = append(c.a, x.clone())
	}
	return c
}

func (v *jv) sortedKeys() []string {
	ks := append([]string{}, v.keys...)
	sort.Strings(ks)
	return ks
}

func writeJString(b *strings.Builder, s string) {
	b.WriteByte('"')
	for i := 0; i < len(s); {
		c := s[i]
		switch {
		case c == '"':
			b.WriteString(`\"`)
			i++
		case c == '\\':
			b.WriteString(`\\`)
			i++
		case c < 0x20:
			fmt.Fprintf(b, `\u%04x`, c)
			i++
		case c < 0x80:
			b.WriteByte(c)
			i++
		default:
			r, n := utf8.DecodeRuneInString(s[i:])
			if r == utf8.RuneError && n == 1 {
				b.WriteString(`�`)
			} else {
				b.WriteString(s[i : i+n])
			}
			i += n
		}
	}
	b.WriteByte('"')
}

func (v *jv) write(b *strings.Builder) {
	switch v.k {
	case 'n':
		b.WriteString("null")
	case 't':
		b.WriteString("true")
	case 'f':
		b.WriteString("false")
	case '#':
		b.WriteString(v.s)
	case 's':
		writeJString(b, v.s)
	case 'a':
		b.WriteByte('[')
		for i, x := range v.a {
			if i > 0 {
				b.WriteByte(',')
			}
			x.write(b)
		}
		b.WriteByte(']')
	case 'o':
		b.WriteByte('{')
		for i, x := range v.a {
			if i > 0 {
				b.WriteByte(',')
			}
			writeJString(b, v.keys[i])
			b.WriteByte(':')
			x.write(b)
		}
		b.WriteByte('}')
	}
}

func (v *jv) String() string {
	var b strings.Builder
	v.write(&b)
	return b.String()
}

// ---------------- parser ----------------

type jparser struct {
	b   []byte
	pos int
}

func (p *jparser) ws() {
	for p.pos < len(p.b) && (p.b[p.pos] == ' ' || p.b[p.pos] == '\t' || p.b[p.pos] == '\n' || p.b[p.pos] == '\r') {
		p.pos++
	}
}

var errJSON = errors.New("not JSON")

func (p *jparser) value(depth int) (*jv, error) {
	if depth > 200 {
		return nil, errJSON
	}
	p.ws()
	if p.pos >= len(p.b) {
		return nil, errJSON
	}
	switch c := p.b[p.pos]; {
	case c == '{':
		p.pos++
		o := &jv{k: 'o'}
		p.ws()
		if p.pos < len(p.b) && p.b[p.pos] == '}' {
			p.pos++
			return o, nil
		}
		for {
			p.ws()
			if p.pos >= len(p.b) || p.b[p.pos] != '"' {
				return nil, errJSON
			}
			k, err := p.str()
			if err != nil {
				return nil, err
			}
			p.ws()
			if p.pos >= len(p.b) || p.b[p.pos] != ':' {
				return nil, errJSON
			}
			p.pos++
			x, err := p.value(depth + 1)
			if err != nil {
				return nil, err
			}
			o.keys = append(o.keys, k)
			o.a = append(o.a, x)
			p.ws()
			if p.pos >= len(p.b) {
				return nil, errJSON
			}
			if p.b[p.pos] == ',' {
				p.pos++
				continue
			}
			if p.b[p.pos] == '}' {
				p.pos++
				return o, nil
			}
			return nil, errJSON
		}
	case c == '[':
		p.pos++
		a := &jv{k: 'a'}
		p.ws()
		if p.pos < len(p.b) && p.b[p.pos] == ']' {
			p.pos++
			return a, nil
		}
		for {
			x, err := p.value(depth + 1)
			if err != nil {
				return nil, err
			}
			a.a = append(a.a, x)
			p.ws()
			if p.pos >= len(p.b) {
				return nil, errJSON
			}
			if p.b[p.pos] == ',' {
				p.pos++
				continue
			}
			if p.b[p.pos] == ']' {
				p.pos++
				return a, nil
			}
			return nil, errJSON
		}
	case c == '"':
		s, err := p.str()
		if err != nil {
			return nil, err
		}
		return jS(s), nil
	case c == 't' && strings.HasPrefix(string(p.b[p.pos:]), "true"):
		p.pos += 4
		return jBool(true), nil
	case c == 'f' && strings.HasPrefix(string(p.b[p.pos:]), "false"):
		p.pos += 5
		return jBool(false), nil
	case c == 'n' && strings.HasPrefix(string(p.b[p.pos:]), "null"):
		p.pos += 4
		return jNull(), nil
	case c == '-' || (c >= '0' && c <= '9'):
		st := p.pos
		p.pos++
		for p.pos < len(p.b) && (p.b[p.pos] >= '0' && p.b[p.pos] <= '9' || p.b[p.pos] == '.' || p.b[p.pos] == 'e' || p.b[p.pos] == 'E' || p.b[p.pos] == '+' || p.b[p.pos] == '-') {
			p.pos++
		}
		return jNumText(string(p.b[st:p.pos])), nil
	}
	return nil, errJSON
}

func (p *jparser) str() (string, error) {
	// p.b[p.pos] == '"'
	p.pos++
	var sb strings.Builder
	for p.pos < len(p.b) {
		c := p.b[p.pos]
		switch {
		case c == '"':
			p.pos++
			return sb.String(), nil
		case c == '\\':
			if p.pos+1 >= len(p.b) {
				return "", errJSON
			}
			e := p.b[p.pos+1]
			p.pos += 2
			switch e {
			case '"', '\\', '/':
				sb.WriteByte(e)
			case 'b':
				sb.WriteByte('\b')
			case 'f':
				sb.WriteByte('\f')
			case 'n':
				sb.WriteByte('\n')
			case 'r':
				sb.WriteByte('\r')
			case 't':
				sb.WriteByte('\t')
			case 'u':
				if p.pos+4 > len(p.b) {
					return "", errJSON
				}
				n, err := strconv.ParseUint(string(p.b[p.pos:p.pos+4]), 16, 32)
				if err != nil {
					return "", errJSON
				}
				p.pos += 4
				sb.WriteRune(rune(n))
			default:
				return "", errJSON
			}
		case c < 0x20:
			return "", errJSON
		default:
			sb.WriteByte(c)
			p.pos++
		}
	}
	return "", errJSON
}

// parseJSON reads exactly one JSON value (surrounding white space allowed).
func parseJSON(b []byte) (*jv, error) {
	p := &jparser{b: b}
	v, err := p.value(0)
	if err != nil {
		return nil, err
	}
	p.ws()
	if p.pos != len(p.b) {
		return nil, errJSON
	}
	return v, nil
}

// ---------------- typed reading with encoding/json's rules for struct targets ----------------

// jread reads members of a decoded request the way encoding/json fills a Go struct: a missing or
// null member is the zero value, a member of another JSON type is a type error (recorded).
type jread struct{ typeErr bool }

func (r *jread) str(v *jv) string {
	if v == nil || v.k == 'n' {
		return ""
	}
	if v.k != 's' {
		r.typeErr = true
		return ""
	}
	return v.s
}

func (r *jread) u64(v *jv) uint64 {
	if v == nil || v.k == 'n' {
		return 0
	}
	if v.k != '#' {
		r.typeErr = true
		return 0
	}
	u, err := strconv.ParseUint(v.s, 10, 64)
	if err != nil {
		r.typeErr = true
		return 0
	}
	return u
}

func (r *jread) arr(v *jv) []*jv {
	if v == nil || v.k == 'n' {
		return nil
	}
	if v.k != 'a' {
		r.typeErr = true
		return nil
	}
	return v.a
}

// obj: nil for a missing/null member (zero struct)
func (r *jread) obj(v *jv) *jv {
	if v == nil || v.k == 'n' {
		return nil
	}
	if v.k != 'o' {
		r.typeErr = true
		return nil
	}
	return v
}
