package main

import (
	"bytes"
	"errors"
	"runtime"
	"strconv"
	"sync"

	"github.com/elnosh/gonuts/cashu"
	"github.com/elnosh/gonuts/cashu/nuts/nut04"
	"github.com/elnosh/gonuts/cashu/nuts/nut05"
	"github.com/elnosh/gonuts/mint/storage"
)

// goid returns the id of the calling goroutine (parsed from the stack header).
func goid() int64 {
	var buf [64]byte
	n := runtime.Stack(buf[:], false)
	b := buf[:n]
	b = bytes.TrimPrefix(b, []byte("goroutine "))
	i := bytes.IndexByte(b, ' ')
	id, _ := strconv.ParseInt(string(b[:i]), 10, 64)
	return id
}

type crashSignal struct{}

var errInjected = errors.New("injected storage error")

// threadCtl is the control block of one operation goroutine under the wrapper.
type threadCtl struct {
	pos     int          // storage/Lightning calls made so far by this operation
	crashAt int          // -1: never
	faults  map[int]bool // positions at which a storage call fails instead of executing
	log     []string
	// schedule gating (nil: free running)
	grant   chan struct{}
	arrived chan struct{} // signalled when the thread blocks at its next call
}

// WDB wraps the mint's storage. Calls from registered operation goroutines are counted,
// can be cut (crash), failed (fault) or held (schedules); all other goroutines pass through.
type WDB struct {
	inner   storage.MintDB
	mu      sync.Mutex
	threads map[int64]*threadCtl
}

func NewWDB(inner storage.MintDB) *WDB {
	return &WDB{inner: inner, threads: map[int64]*threadCtl{}}
}

func (w *WDB) register(t *threadCtl) {
	w.mu.Lock()
	w.threads[goid()] = t
	w.mu.Unlock()
}

func (w *WDB) unregister() {
	w.mu.Lock()
	delete(w.threads, goid())
	w.mu.Unlock()
}

// before is called at every storage or Lightning call. storageCall: faults apply.
func (w *WDB) before(name string, storageCall bool) error {
	w.mu.Lock()
	t := w.threads[goid()]
	w.mu.Unlock()
	if t == nil {
		return nil
	}
	if t.grant != nil {
		t.arrived <- struct{}{}
		<-t.grant
	}
	p := t.pos
	t.pos++
	t.log = append(t.log, name)
	if p == t.crashAt {
		panic(crashSignal{})
	}
	if storageCall && t.faults[p] {
		return errInjected
	}
	return nil
}

func (w *WDB) SaveSeed(s []byte) error {
	if err := w.before("SaveSeed", true); err != nil {
		return err
	}
	return w.inner.SaveSeed(s)
}
func (w *WDB) GetSeed() ([]byte, error) {
	if err := w.before("GetSeed", true); err != nil {
		return nil, err
	}
	return w.inner.GetSeed()
}
func (w *WDB) SaveKeyset(k storage.DBKeyset) error {
	if err := w.before("SaveKeyset", true); err != nil {
		return err
	}
	return w.inner.SaveKeyset(k)
}
func (w *WDB) GetKeysets() ([]storage.DBKeyset, error) {
	if err := w.before("GetKeysets", true); err != nil {
		return nil, err
	}
	return w.inner.GetKeysets()
}
func (w *WDB) UpdateKeysetActive(id string, active bool) error {
	if err := w.before("UpdateKeysetActive", true); err != nil {
		return err
	}
	return w.inner.UpdateKeysetActive(id, active)
}
func (w *WDB) SaveProofs(p cashu.Proofs) error {
	if err := w.before("SaveProofs", true); err != nil {
		return err
	}
	return w.inner.SaveProofs(p)
}
func (w *WDB) GetProofsUsed(ys []string) ([]storage.DBProof, error) {
	if err := w.before("GetProofsUsed", true); err != nil {
		return nil, err
	}
	return w.inner.GetProofsUsed(ys)
}
func (w *WDB) AddPendingProofs(p cashu.Proofs, q string) error {
	if err := w.before("AddPendingProofs", true); err != nil {
		return err
	}
	return w.inner.AddPendingProofs(p, q)
}
func (w *WDB) GetPendingProofs(ys []string) ([]storage.DBProof, error) {
	if err := w.before("GetPendingProofs", true); err != nil {
		return nil, err
	}
	return w.inner.GetPendingProofs(ys)
}
func (w *WDB) GetPendingProofsByQuote(q string) ([]storage.DBProof, error) {
	if err := w.before("GetPendingProofsByQuote", true); err != nil {
		return nil, err
	}
	return w.inner.GetPendingProofsByQuote(q)
}
func (w *WDB) RemovePendingProofs(ys []string) error {
	if err := w.before("RemovePendingProofs", true); err != nil {
		return err
	}
	return w.inner.RemovePendingProofs(ys)
}
func (w *WDB) SaveMintQuote(q storage.MintQuote) error {
	if err := w.before("SaveMintQuote", true); err != nil {
		return err
	}
	return w.inner.SaveMintQuote(q)
}
func (w *WDB) GetMintQuote(id string) (storage.MintQuote, error) {
	if err := w.before("GetMintQuote", true); err != nil {
		return storage.MintQuote{}, err
	}
	return w.inner.GetMintQuote(id)
}
func (w *WDB) GetMintQuoteByPaymentHash(h string) (storage.MintQuote, error) {
	if err := w.before("GetMintQuoteByPaymentHash", true); err != nil {
		return storage.MintQuote{}, err
	}
	return w.inner.GetMintQuoteByPaymentHash(h)
}
func (w *WDB) UpdateMintQuoteState(id string, st nut04.State) error {
	if err := w.before("UpdateMintQuoteState", true); err != nil {
		return err
	}
	return w.inner.UpdateMintQuoteState(id, st)
}
func (w *WDB) SaveMeltQuote(q storage.MeltQuote) error {
	if err := w.before("SaveMeltQuote", true); err != nil {
		return err
	}
	return w.inner.SaveMeltQuote(q)
}
func (w *WDB) GetMeltQuote(id string) (storage.MeltQuote, error) {
	if err := w.before("GetMeltQuote", true); err != nil {
		return storage.MeltQuote{}, err
	}
	return w.inner.GetMeltQuote(id)
}
func (w *WDB) GetMeltQuoteByPaymentRequest(r string) (*storage.MeltQuote, error) {
	if err := w.before("GetMeltQuoteByPaymentRequest", true); err != nil {
		return nil, err
	}
	return w.inner.GetMeltQuoteByPaymentRequest(r)
}
func (w *WDB) UpdateMeltQuote(id, pre string, st nut05.State) error {
	if err := w.before("UpdateMeltQuote", true); err != nil {
		return err
	}
	return w.inner.UpdateMeltQuote(id, pre, st)
}
func (w *WDB) SaveBlindSignatures(bs []string, sigs cashu.BlindedSignatures) error {
	if err := w.before("SaveBlindSignatures", true); err != nil {
		return err
	}
	return w.inner.SaveBlindSignatures(bs, sigs)
}
func (w *WDB) GetBlindSignature(b string) (cashu.BlindedSignature, error) {
	if err := w.before("GetBlindSignature", true); err != nil {
		return cashu.BlindedSignature{}, err
	}
	return w.inner.GetBlindSignature(b)
}
func (w *WDB) GetBlindSignatures(bs []string) (cashu.BlindedSignatures, error) {
	if err := w.before("GetBlindSignatures", true); err != nil {
		return nil, err
	}
	return w.inner.GetBlindSignatures(bs)
}
func (w *WDB) GetIssuedEcash() (map[string]uint64, error) {
	if err := w.before("GetIssuedEcash", true); err != nil {
		return nil, err
	}
	return w.inner.GetIssuedEcash()
}
func (w *WDB) GetRedeemedEcash() (map[string]uint64, error) {
	if err := w.before("GetRedeemedEcash", true); err != nil {
		return nil, err
	}
	return w.inner.GetRedeemedEcash()
}
func (w *WDB) Close() error { return w.inner.Close() }

// opOutcome is what running one mint operation under the wrapper produced.
type opOutcome struct {
	val     any
	err     error
	crashed bool
	panicV  any
	log     []string
}

// runOp runs f as a registered operation goroutine with the given cut and fault positions.
func (w *WDB) runOp(crashAt int, faults map[int]bool, f func() (any, error)) opOutcome {
	done := make(chan opOutcome, 1)
	go func() {
		t := &threadCtl{crashAt: crashAt, faults: faults}
		w.register(t)
		var out opOutcome
		defer func() {
			if r := recover(); r != nil {
				if _, ok := r.(crashSignal); ok {
					out.crashed = true
				} else {
					out.panicV = r
				}
			}
			out.log = t.log
			w.unregister()
			done <- out
		}()
		out.val, out.err = f()
	}()
	return <-done
}

// runConcurrent runs the operations as threads interleaved at call granularity by sched
// (entries are thread indices; a finished thread ignores its turn); when the schedule is
// exhausted the threads are completed one after the other in index order.
func (w *WDB) runConcurrent(fs []func() (any, error), sched []int) []opOutcome {
	n := len(fs)
	ctls := make([]*threadCtl, n)
	dones := make([]chan opOutcome, n)
	finished := make([]bool, n)
	results := make([]opOutcome, n)
	for i := range fs {
		ctls[i] = &threadCtl{crashAt: -1, grant: make(chan struct{}), arrived: make(chan struct{}, 1)}
		dones[i] = make(chan opOutcome, 1)
		go func(i int) {
			t := ctls[i]
			w.register(t)
			var out opOutcome
			defer func() {
				if r := recover(); r != nil {
					out.panicV = r
				}
				out.log = t.log
				w.unregister()
				dones[i] <- out
			}()
			// a thread starts by arriving at a virtual first stop so that nothing runs before it is scheduled
			t.arrived <- struct{}{}
			<-t.grant
			out.val, out.err = fs[i]()
		}(i)
		<-ctls[i].arrived // thread i is parked at its start
	}
	// started[i]: the initial grant (start of the function) has been given; the first real call then arrives
	advance := func(i int) {
		// let thread i run until it blocks at its next call or finishes
		ctls[i].grant <- struct{}{}
		select {
		case <-ctls[i].arrived:
		case r := <-dones[i]:
			finished[i] = true
			results[i] = r
		}
	}
	started := make([]bool, n)
	start := func(i int) {
		if !started[i] {
			started[i] = true
			advance(i) // runs from the virtual start to the first real call (pure code only)
		}
	}
	for _, i := range sched {
		if i < 0 || i >= n || finished[i] {
			continue
		}
		start(i)
		if finished[i] {
			continue
		}
		advance(i) // executes exactly one call and everything up to the next one
	}
	for i := 0; i < n; i++ {
		start(i)
		for !finished[i] {
			advance(i)
		}
	}
	return results
}
