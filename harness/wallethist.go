package main

// Wallet histories (streams c08-hist, c17-hist, c19-hist): abstract operations over small integer
// handles are generated adaptively, run on real wallets against in-process mints, recorded for the
// model (coq/Wallet/WModel.v, family tag 7) together with the implementation's projected observables,
// and checked by the property monitors against mint-side ground truth.

import (
	"context"
	"encoding/hex"
	"encoding/json"
	"fmt"
	"math/rand"
	"os"
	"sort"
	"strings"
	"time"

	"github.com/btcsuite/btcd/btcec/v2"
	"github.com/elnosh/gonuts/cashu"
	"github.com/elnosh/gonuts/cashu/nuts/nut05"
	"github.com/elnosh/gonuts/cashu/nuts/nut07"
	"github.com/elnosh/gonuts/cashu/nuts/nut10"
	"github.com/elnosh/gonuts/cashu/nuts/nut11"
	"github.com/elnosh/gonuts/wallet"
	decodepay "github.com/nbd-wtf/ln-decodepay"
)

// operation codes of the abstract history
const (
	oMint      = 1  // (1 w m amount paid)
	oSend      = 2  // (2 w m amount fees dleq)            -> token
	oReceive   = 3  // (3 w t trusted)
	oSendP2PK  = 4  // (4 w m amount fees to sigall)       -> token
	oSendHTLC  = 5  // (5 w m amount fees to withsig sigall) -> token
	oRecvHTLC  = 6  // (6 w t)
	oMelt      = 7  // (7 w m sat outcome)                 -> melt quote
	oResolve   = 8  // (8 q how)   how: 1 the payment succeeds, 2 it fails; then CheckMeltQuoteState; 4 / 3: the same without the poll
	oRemove    = 9  // (9 w)
	oReclaim   = 10 // (10 w)
	oMintSwap  = 11 // (11 w from to amount outcome)
	oRotate    = 12 // (12 m fee)
	oRestore   = 13 // (13 w)      restore into an empty directory and continue with the restored wallet
	oCrash     = 14 // (14 k op)   op cut right before its k-th effect, wallet reopened
	oCheck     = 15 // (15 w)      restore into an empty directory, compare, throw away
	oAddMint   = 16 // (16 w m)
	oMeltAgain = 17 // (17 q)      Melt on an existing quote (pending: polls the state)
)

var wOpNames = map[int]string{oMint: "mint", oSend: "send", oReceive: "receive", oSendP2PK: "send-p2pk", oSendHTLC: "send-htlc",
	oRecvHTLC: "receive-htlc", oMelt: "melt", oResolve: "melt-resolve", oRemove: "remove-spent", oReclaim: "reclaim",
	oMintSwap: "mintswap", oRotate: "rotate", oRestore: "restore", oCrash: "crash", oCheck: "restore-check", oAddMint: "addmint",
	oMeltAgain: "melt-again"}

type wHist struct {
	htlcNoNSigs int // SIG_ALL HTLC sends: 0 random, 1 never an n_sigs tag, 2 always n_sigs=1
	w           *wWorld
	sink        *Sink
	prop        string // "C08" | "C17" | "C19"
	cfg         S
	items       []S
	obs         []S
	opn         int
	fired       map[string]bool
	stop        bool
	melts       []*wMeltRef
	restores    map[int]int // wallet index -> number of restores
	lastOutcome int
	nontrivial  bool
	shapesSeen  map[string]bool
	lastCtr     map[string]uint32
	flagged     map[string]bool
	lastCrash   string
	cause       string // what the mint answered to the melt request of the last operation
}

type wMeltRef struct {
	wl  *wWal
	q   *wMeltQ
	gen int
}

// ---------------- configuration ----------------

type wCfg struct {
	fees   []uint   // input_fee_ppk of keyset 0 per mint
	feePct []uint64 // Lightning fee reserve percent per mint
	homes  []int    // home mint per wallet
}

func newWHist(sink *Sink, rng *rand.Rand, scratch, prop string, c wCfg) *wHist {
	h := &wHist{sink: sink, prop: prop, fired: map[string]bool{}, restores: map[int]int{}, shapesSeen: map[string]bool{}, lastCtr: map[string]uint32{}, flagged: map[string]bool{}}
	h.w = newWWorld(sink, rng, scratch)
	var ms, ws []S
	for i := range c.fees {
		h.w.newMint(c.fees[i], c.feePct[i])
		ms = append(ms, L(AU(uint64(c.fees[i])), AU(c.feePct[i])))
	}
	for _, hm := range c.homes {
		h.w.newWallet(h.w.mints[hm])
		ws = append(ws, A(int64(hm)))
	}
	proj := map[string]int64{"C08": 0, "C17": 1, "C19": 2}[prop]
	h.cfg = L(LL(ms), LL(ws), A(proj))
	h.w.scanned = len(h.w.reqs) // set-up traffic (keys) is scanned as well, below
	h.w.scanned = 0
	h.scanRequests("setup")
	return h
}

func (h *wHist) caseS() S        { return L(A(7), L(h.cfg, LL(h.items))) }
func (h *wHist) histStr() string { return LL(h.items).String() }

func (h *wHist) violate(sig, detail string, extra map[string]any) {
	if h.fired[sig] {
		return
	}
	h.fired[sig] = true
	rep := map[string]any{"history": h.histStr(), "config": h.cfg.String()}
	for k, v := range extra {
		rep[k] = v
	}
	h.sink.Violate(sig, detail, h.caseS().String(), rep)
}

func (h *wHist) finish() {
	h.sink.Add(h.caseS(), LL(h.obs), h.nontrivial)
	for k, v := range h.w.stats {
		h.sink.StatN(k, v)
	}
	h.w.close()
}

// ---------------- observation ----------------

func (h *wHist) walletS(wl *wWal) S {
	if wl.W == nil {
		return L(A(-1))
	}
	if wl.blur && !wl.broken {
		return L(A(-3))
	}
	w := h.w
	byMint := wl.W.GetBalanceByMints()
	var bm, cs []S
	keysets := wl.store.inner.GetKeysets()
	for _, m := range w.mints {
		if v, ok := byMint[m.url]; ok {
			bm = append(bm, AU(v))
		} else {
			bm = append(bm, A(-1))
		}
		var row []S
		active := m.tm.ActiveId()
		for _, id := range m.tm.Order {
			c := int64(-1)
			for _, k := range keysets[m.url] {
				if k.Id == id {
					c = int64(k.Counter)
				}
			}
			if id != active && c >= 0 && h.prop != "C19" {
				// no output is ever derived on an inactive keyset again: its stored counter is
				// C19's observable only (so that a counter defect shows in C19's stream only)
				c = -2
			}
			row = append(row, A(c))
		}
		cs = append(cs, LL(row))
	}
	return L(AU(wl.W.GetBalance()), AU(wl.W.PendingBalance()), LL(bm), LL(cs))
}

func (h *wHist) worldS() S {
	var ws, ms []S
	for _, wl := range h.w.wallets {
		ws = append(ws, h.walletS(wl))
	}
	for _, m := range h.w.mints {
		is, rd := m.issuedRedeemed()
		ms = append(ms, L(AU(is), AU(rd)))
	}
	return L(LL(ws), LL(ms))
}

func intsS(xs []int) S {
	out := make([]S, len(xs))
	for i, x := range xs {
		out[i] = A(int64(x))
	}
	return LL(out)
}

// record appends the operation and its observation: (class amount effects shapes world)
func (h *wHist) record(op S, class int, amount uint64, out wOutcome) {
	var shapes []S
	for _, r := range out.reqs {
		if r.label != 0 {
			sh, _ := shapeOf(r)
			if h.prop != "C08" {
				// whether inputs carry their DLEQ proof is C08's observable only
				sh.nDleq, sh.nR = 0, 0
			}
			shapes = append(shapes, sh.S())
			key := sh.S().String()
			if !h.shapesSeen[key] {
				h.shapesSeen[key] = true
			}
		}
	}
	effs := out.effs
	if code := opCode(op); code == oRemove || code == oReclaim || code == oRestore || code == oCheck {
		// the order of the mints (Go map iteration in pendingProofsByMint) and of the keysets
		// (Mint.ListKeysets) is arbitrary: effects and shapes are compared as multisets
		effs = append([]int{}, effs...)
		sort.Ints(effs)
		sort.Slice(shapes, func(i, j int) bool { return shapeLess(shapes[i], shapes[j]) })
	}
	h.items = append(h.items, op)
	h.obs = append(h.obs, L(A(int64(class)), AU(amount), intsS(effs), LL(shapes), h.worldS()))
	h.opn++
}

func opCode(op S) int {
	if len(op.items) > 0 && op.items[0].atom {
		var v int
		fmt.Sscan(op.items[0].z, &v)
		if v == oCrash && len(op.items) == 3 {
			return opCode(op.items[2])
		}
		return v
	}
	return 0
}

func shapeLess(a, b S) bool {
	for i := range a.items {
		var x, y int
		fmt.Sscan(a.items[i].z, &x)
		fmt.Sscan(b.items[i].z, &y)
		if x != y {
			return x < y
		}
	}
	return false
}

func classOf(out wOutcome) int {
	switch {
	case out.crashed:
		return 8
	case out.panicV != nil:
		return 9
	case out.err != nil:
		return 1
	}
	return 0
}

// ---------------- digest of the traffic of one operation ----------------

// digest registers what the mints signed and what was spent, and runs the per-request monitors.
func (h *wHist) digest(kind string, wl *wWal, out wOutcome, randomOutputs bool) {
	w := h.w
	for _, r := range out.reqs {
		if r.label != ePostSwap && r.label != ePostMint && r.label != ePostMelt {
			continue
		}
		_, b := shapeOf(r)
		ok := r.status == 200
		var sigs jSigs
		if ok {
			json.Unmarshal(r.resp, &sigs)
		}
		m := w.byHost[r.host]
		// outputs submitted for signing
		for i, o := range b.Outputs {
			org, known := w.byB[o.B]
			if !known && wl != nil && wl.seed != nil {
				lim := int(r.ctr[o.Id]) + len(b.Outputs) + 4
				if !randomOutputs {
					lim += 1300
				}
				t := w.extend(wl.seed, o.Id, len(w.tableRows(wl.seed, o.Id)))
				for n := len(t.rows); n < lim && !known; {
					n += 100
					if n > lim {
						n = lim
					}
					w.extend(wl.seed, o.Id, n)
					org, known = w.byB[o.B]
				}
			}
			w.subB[o.B]++
			if prev := w.signed[o.B]; prev != nil && h.prop == "C19" && wl != nil && wl.cut {
				w.stats["c19:resubmitted-after-cut"]++
			} else if prev != nil && h.prop == "C19" {
				first := ""
				if prev.untrusted {
					first = " first=output-at-untrusted-mint"
				}
				h.violate(fmt.Sprintf("output-resubmitted-after-signed op=%s endpoint=%s%s", kind, r.path, first),
					fmt.Sprintf("B_ %s (keyset %s, counter %d) was signed in operation %d and is submitted again", o.B[:16], o.Id, prev.counter, prev.op), nil)
			}
			if known && h.prop == "C19" && !(wl != nil && wl.cut) {
				if uint32(org.counter) < r.ctr[o.Id] {
					h.violate(fmt.Sprintf("output-counter-below-stored op=%s endpoint=%s", kind, r.path),
						fmt.Sprintf("output derived from counter %d while the stored counter of keyset %s is %d", org.counter, o.Id, r.ctr[o.Id]), nil)
				}
			}
			signedNow := false
			var amt uint64
			if ok && r.label != ePostMelt && i < len(sigs.Signatures) {
				signedNow = true
				amt = sigs.Signatures[i].Amount
			}
			if signedNow {
				op := &wOutput{B: o.B, amount: amt, ks: o.Id, m: m, counter: -1, by: wl, op: h.opn}
				op.untrusted = wl != nil && wl.W != nil && wl.store.inner.GetKeyset(o.Id) == nil
				if known {
					op.seed, op.counter = org.seed, org.counter
					op.secret = org.seed.tables[org.ks].rows[org.counter].secret
					w.secrets[op.secret] = op
				}
				w.signed[o.B] = op
				w.outputs = append(w.outputs, op)
			}
		}
		// inputs spent
		spent := ok && (r.label == ePostSwap || (r.label == ePostMelt && sigs.State == "PAID"))
		if spent {
			for _, in := range b.Inputs {
				w.spentSeen[in.Secret] = true
			}
		}
	}
	// C19: after an operation that was not cut the stored counter is past every counter signed in it,
	// and no stored counter ever goes down
	if out.crashed && wl != nil {
		wl.cut = true
	}
	if h.prop == "C19" && wl != nil && wl.W != nil && !wl.cut {
		for i := len(w.outputs) - 1; i >= 0 && w.outputs[i].op == h.opn; i-- {
			o := w.outputs[i]
			if o.seed == wl.seed && o.counter >= 0 {
				c := wl.store.inner.GetKeysetCounter(o.ks)
				if uint32(o.counter) >= c {
					cls := "ok"
					if out.err != nil {
						cls = "err"
					}
					trust := "trusted"
					if wl.store.inner.GetKeyset(o.ks) == nil {
						trust = "untrusted"
					}
					h.violate(fmt.Sprintf("stored-counter-not-past-signed-output op=%s result=%s mint=%s", kind, cls, trust),
						fmt.Sprintf("the mint signed the output of counter %d (keyset %s) but the stored counter is %d", o.counter, o.ks, c), nil)
				}
			}
		}
	}
	if h.prop == "C19" {
		for _, x := range w.wallets {
			if x.W == nil {
				continue
			}
			for url, kss := range x.store.inner.GetKeysets() {
				for _, k := range kss {
					key := fmt.Sprintf("%d/%d/%s/%s", x.idx, x.gen, url, k.Id)
					if prev, ok := h.lastCtr[key]; ok && k.Counter < prev {
						act := "inactive"
						if k.Active {
							act = "active"
						}
						h.violate(fmt.Sprintf("stored-counter-decreased keyset=%s", act),
							fmt.Sprintf("wallet %d, operation %s: the stored counter of keyset %s went from %d to %d", x.idx, kind, k.Id, prev, k.Counter), nil)
					}
					h.lastCtr[key] = k.Counter
				}
			}
		}
	}
	h.scanRequests(kind)
}

func (w *wWorld) tableRows(s *wSeed, ks string) []wDerived {
	if t := s.tables[ks]; t != nil {
		return t.rows
	}
	return nil
}

// learnToken records what the caller of a send was handed.
func (h *wHist) learnProofs(ps cashu.Proofs, m *wMint) {
	w := h.w
	for _, p := range ps {
		if p.DLEQ != nil {
			w.learnR(p.DLEQ.R, "returned-proof")
		}
		if o, ok := w.secrets[p.Secret]; ok {
			_ = o
			continue
		}
		// random-secret output (P2PK / HTLC): find it among the signed outputs by amount is not possible; key it by secret
		w.secrets[p.Secret] = &wOutput{amount: p.Amount, ks: p.Id, m: m, counter: -1, secret: p.Secret, op: h.opn}
		if ns, err := nut10.DeserializeSecret(p.Secret); err == nil && len(ns.Data.Nonce) == 64 {
			w.nonce[strings.ToLower(ns.Data.Nonce)] = p.Secret
		}
	}
}

// scanRequests is the C08 monitor: every byte of every request the wallets sent since the last scan.
func (h *wHist) scanRequests(kind string) {
	w := h.w
	for ; w.scanned < len(w.reqs); w.scanned++ {
		r := w.reqs[w.scanned]
		if h.prop != "C08" {
			continue
		}
		hay := append([]byte(r.url+" "), r.body...)
		inputs := map[string]bool{}
		if r.label == ePostSwap || r.label == ePostMelt {
			var b jBody
			json.Unmarshal(r.body, &b)
			for _, in := range b.Inputs {
				inputs[in.Secret] = true
			}
		}
		seen := map[string]bool{}
		hexWindows(hay, func(s string) {
			if seen[s] {
				return
			}
			seen[s] = true
			if from, ok := w.rs[s]; ok {
				for _, p := range jsonPaths(r.body, s) {
					h.violate(fmt.Sprintf("r-in-request endpoint=%s field=%s", r.path, p),
						fmt.Sprintf("operation %s: the request contains the blinding factor %s… (known from %s)", kind, s[:12], from),
						map[string]any{"request": string(r.body)})
				}
				w.stats["c08:r-leaks"]++
			}
			sec := ""
			if _, ok := w.detSecret[s]; ok {
				sec = s
			} else if full, ok := w.nonce[s]; ok {
				sec = full
			}
			if sec != "" && !inputs[sec] {
				for _, p := range jsonPaths(r.body, s) {
					h.violate(fmt.Sprintf("secret-in-request endpoint=%s field=%s", r.path, p),
						fmt.Sprintf("operation %s: the request contains the secret %s… of a proof that is not an input of it", kind, s[:12]),
						map[string]any{"request": string(r.body)})
				}
			}
		})
	}
}

// ---------------- C17 monitors ----------------

func (h *wHist) mintOfKeyset(id string) *wMint {
	for _, m := range h.w.mints {
		if m.ksIndex(id) >= 0 {
			return m
		}
	}
	return nil
}

type heldProof struct {
	secret string
	amount uint64
	id     string
	where  string
}

func (h *wHist) checkC17(kind string) {
	if h.prop != "C17" {
		return
	}
	w := h.w
	lnS := h.cause
	held := map[*wMint][]heldProof{}
	owner := map[string]string{}
	unreconciled := map[string]bool{}
	for _, wl := range w.wallets {
		if wl.W == nil {
			continue
		}
		proofs := wl.store.inner.GetProofs()
		pend := wl.store.inner.GetPendingProofs()
		var sp, sq uint64
		for _, p := range proofs {
			sp += p.Amount
		}
		for _, p := range pend {
			sq += p.Amount
		}
		if wl.W.GetBalance() != sp {
			h.violate("balance-not-sum-of-stored-proofs op="+kind, fmt.Sprintf("wallet %d: GetBalance %d, stored %d", wl.idx, wl.W.GetBalance(), sp), nil)
		}
		if wl.W.PendingBalance() != sq {
			h.violate("pending-balance-not-sum-of-pending-proofs op="+kind, fmt.Sprintf("wallet %d: PendingBalance %d, stored %d", wl.idx, wl.W.PendingBalance(), sq), nil)
		}
		var bm uint64
		for _, v := range wl.W.GetBalanceByMints() {
			bm += v
		}
		if bm != sp {
			h.violate("balance-by-mints-not-total op="+kind, fmt.Sprintf("wallet %d: sum of GetBalanceByMints %d, GetBalance %d", wl.idx, bm, sp), nil)
		}
		for _, p := range proofs {
			tag := fmt.Sprintf("wallet %d spendable", wl.idx)
			if prev, ok := owner[p.Secret]; ok {
				h.violate("proof-held-twice op="+kind, fmt.Sprintf("a proof of %d is %s and %s", p.Amount, prev, tag), nil)
			}
			owner[p.Secret] = tag
			if m := h.mintOfKeyset(p.Id); m != nil {
				held[m] = append(held[m], heldProof{p.Secret, p.Amount, p.Id, "s"})
			} else {
				h.violate("stored-proof-of-unknown-keyset op="+kind, p.Id, nil)
			}
		}
		for _, p := range pend {
			tag := fmt.Sprintf("wallet %d pending", wl.idx)
			if prev, ok := owner[p.Secret]; ok {
				h.violate("proof-held-twice op="+kind, fmt.Sprintf("a proof of %d is %s and %s", p.Amount, prev, tag), nil)
			}
			owner[p.Secret] = tag
			if m := h.mintOfKeyset(p.Id); m != nil {
				held[m] = append(held[m], heldProof{p.Secret, p.Amount, p.Id, "p"})
			}
			// locked in a melt the wallet has not reconciled yet: its stored quote still says PENDING (the payment may have
			// failed at the backend meanwhile - the wallet learns of it by its next poll or by Melt on the same quote)
			if p.MeltQuoteId != "" {
				if q := wl.store.inner.GetMeltQuoteById(p.MeltQuoteId); q != nil && q.State == nut05.Pending {
					unreconciled[p.Secret] = true
				}
			}
		}
	}
	// tokens handed to callers: plain sends are also in the sender's pending bucket
	for _, t := range w.tokens {
		for _, p := range t.proofs {
			if _, ok := owner[p.Secret]; ok {
				continue
			}
			owner[p.Secret] = fmt.Sprintf("token %d", t.h)
			held[t.m] = append(held[t.m], heldProof{p.Secret, p.Amount, p.Id, "t"})
		}
	}
	inToken := map[string]bool{}
	for _, t := range w.tokens {
		if !t.redeemed {
			for _, p := range t.proofs {
				inToken[p.Secret] = true
			}
		}
	}
	for _, m := range w.mints {
		hp := held[m]
		ys := make([]string, len(hp))
		for i, p := range hp {
			ys[i] = Yhex(p.secret)
		}
		st := m.states(ys)
		var H uint64
		for i, p := range hp {
			s := st[ys[i]]
			if p.where == "s" && s != nut07.Unspent {
				h.violate(fmt.Sprintf("spendable-proof-%s op=%s", s.String(), kind),
					fmt.Sprintf("a stored spendable proof of %d is %s at mint %d", p.amount, s.String(), m.idx), nil)
			}
			if s != nut07.Spent {
				H += p.amount
			}
			// pending = handed out (and not yet reconciled) or locked in a melt
			if p.where == "p" && s == nut07.Unspent && !inToken[p.secret] && !unreconciled[p.secret] && !h.flagged[p.secret] {
				h.flagged[p.secret] = true
				h.violate("pending-proof-neither-handed-out-nor-locked op="+kind,
					fmt.Sprintf("a pending proof of %d is UNSPENT at mint %d, in no token and locked by no melt", p.amount, m.idx), nil)
			}
		}
		is, rd := m.issuedRedeemed()
		U := is - rd
		if U > H {
			h.violate(fmt.Sprintf("value-lost op=%s cause=%s", kind, lnS),
				fmt.Sprintf("mint %d: %d sat are unspent at the mint, wallets and tokens hold %d: %d sat are in no wallet", m.idx, U, H, U-H), nil)
			h.stop = true
		} else if U < H {
			h.violate(fmt.Sprintf("value-overcounted op=%s cause=%s", kind, lnS),
				fmt.Sprintf("mint %d: %d sat are unspent at the mint, wallets and tokens claim %d", m.idx, U, H), nil)
			h.stop = true
		}
	}
}

// ---------------- operations ----------------

func (h *wHist) wal(i int) *wWal { return h.w.wallets[i] }

func (h *wHist) after(kind string, wl *wWal, out wOutcome, random bool) {
	if out.panicV != nil {
		h.violate("panic op="+kind, fmt.Sprint(out.panicV), nil)
	}
	h.digest(kind, wl, out, random)
}

func (h *wHist) OpMint(wi, mi int, amount uint64, paid bool, crashAt int) {
	wl, m := h.wal(wi), h.w.mints[mi]
	op := L(A(oMint), A(int64(wi)), A(int64(mi)), AU(amount), AB(paid))
	h.runMaybeCrash("mint", op, wl, crashAt, func() (any, error) { return h.doMint(wl, m, amount, paid) }, false)
}

func (h *wHist) doMint(wl *wWal, m *wMint, amount uint64, paid bool) (any, error) {
	q, err := wl.W.RequestMint(amount, m.url)
	if err != nil {
		return uint64(0), err
	}
	if paid {
		bolt, err := decodepay.Decodepay(q.Request)
		must(err)
		m.tm.LN.Settle(bolt.PaymentHash)
	}
	return wl.W.MintTokens(q.Quote)
}

func amountOf(v any) uint64 {
	switch t := v.(type) {
	case uint64:
		return t
	case cashu.Proofs:
		return t.Amount()
	case int:
		return uint64(t)
	}
	return 0
}

// meltCause classifies the last melt request of an operation by the mint's answer.
func meltCause(out wOutcome) string {
	cause := "no-melt-request"
	for _, r := range out.reqs {
		if r.label != ePostMelt {
			continue
		}
		var sg jSigs
		json.Unmarshal(r.resp, &sg)
		switch {
		case r.status != 200:
			cause = "melt-rejected"
		case sg.State == "UNPAID":
			cause = "payment-failed"
		case sg.State == "PENDING":
			cause = "payment-pending"
		default:
			cause = "melt-paid"
		}
	}
	return cause
}

// finishOp: digest, record, monitors.
func (h *wHist) finishOp(kind string, op S, wl *wWal, out wOutcome, random bool) {
	h.cause = meltCause(out)
	h.after(kind, wl, out, random)
	if out.crashed {
		// cut inside (or right after) a loop of DeleteProof calls: the order of the calls is the order of
		// the selected proofs, for an inactive keyset the key order of the bucket - what is left in the
		// store is not determined by the abstract history; the wallet is not compared until it is restored
		wl.blur = len(out.effs) > 0 && out.effs[len(out.effs)-1] == eDeleteProof
		if err := h.w.reopen(wl); err != nil {
			h.violate("wallet-cannot-be-reopened-after-crash err="+strings.TrimSpace(shortErr(err)),
				fmt.Sprintf("operation %s cut before effect (%v done): LoadWallet on the same directory fails: %v", kind, out.effs, err), nil)
			h.stop = true
		}
	}
	h.record(op, classOf(out), amountOf(out.val), out)
	h.w.stats["op="+kind]++
	if out.err != nil {
		h.w.stats["err="+kind]++
		h.w.stats["errmsg="+kind+": "+shortErr(out.err)]++
	}
	h.checkC17(kind)
}

// shortErr: the message without its numbers and identifiers (for the input-distribution statistics).
func shortErr(err error) string {
	var b strings.Builder
	for _, f := range strings.Fields(err.Error()) {
		digits := 0
		for _, c := range f {
			if c >= '0' && c <= '9' {
				digits++
			}
		}
		if digits > 0 || len(f) > 24 {
			b.WriteString("# ")
		} else {
			b.WriteString(f + " ")
		}
	}
	s := b.String()
	if len(s) > 90 {
		s = s[:90]
	}
	return s
}

func (h *wHist) newToken(m *wMint, ps cashu.Proofs, from *wWal, kind, to int, sigall bool, preimage string, dleq bool) *wToken {
	t := &wToken{h: len(h.w.tokens), m: m, from: from, kind: kind, to: to, sigall: sigall, preimage: preimage, dleq: dleq}
	t.proofs = make(cashu.Proofs, len(ps))
	copy(t.proofs, ps)
	h.w.tokens = append(h.w.tokens, t)
	h.learnProofs(ps, m)
	return t
}

func (h *wHist) sendBody(wl *wWal, m *wMint, kind, to int, sigall bool, preimage string, dleq bool, f func() (cashu.Proofs, error)) func() (any, error) {
	return func() (any, error) {
		ps, err := f()
		if err != nil {
			return uint64(0), err
		}
		h.newToken(m, ps, wl, kind, to, sigall, preimage, dleq)
		return ps.Amount(), nil
	}
}

func (h *wHist) OpSend(wi, mi int, amount uint64, fees, dleq bool, crashAt int) {
	wl, m := h.wal(wi), h.w.mints[mi]
	op := L(A(oSend), A(int64(wi)), A(int64(mi)), AU(amount), AB(fees), AB(dleq))
	body := h.sendBody(wl, m, 0, -1, false, "", dleq, func() (cashu.Proofs, error) { return wl.W.Send(amount, m.url, fees) })
	h.runMaybeCrash("send", op, wl, crashAt, body, false)
}

func (h *wHist) runMaybeCrash(kind string, op S, wl *wWal, crashAt int, body func() (any, error), random bool) {
	if crashAt > 0 {
		op = L(A(oCrash), A(int64(crashAt)), op)
	}
	out := h.w.run(wl, crashAt, body)
	if crashAt > 0 {
		if out.crashed {
			h.lastCrash = fmt.Sprintf("%s before effect %d (%v done)", kind, crashAt, out.effs)
			h.w.stats[fmt.Sprintf("crash:%s@%d", kind, crashAt)]++
		} else {
			h.w.stats["crash-not-reached:"+kind]++
		}
	}
	h.finishOp(kind, op, wl, out, random)
}

func (h *wHist) OpSendP2PK(wi, mi int, amount uint64, fees bool, to int, sigall bool, crashAt int) {
	wl, m := h.wal(wi), h.w.mints[mi]
	op := L(A(oSendP2PK), A(int64(wi)), A(int64(mi)), AU(amount), AB(fees), A(int64(to)), AB(sigall))
	var tags *nut11.P2PKTags
	if sigall {
		tags = &nut11.P2PKTags{Sigflag: nut11.SIGALL}
	}
	pk := h.wal(to).W.GetReceivePubkey()
	body := h.sendBody(wl, m, 1, to, sigall, "", true, func() (cashu.Proofs, error) { return wl.W.SendToPubkey(amount, m.url, pk, tags, fees) })
	h.runMaybeCrash("send-p2pk", op, wl, crashAt, body, true)
}

func (h *wHist) OpSendHTLC(wi, mi int, amount uint64, fees bool, to int, withSig, sigall bool, crashAt int) {
	wl, m := h.wal(wi), h.w.mints[mi]
	op := L(A(oSendHTLC), A(int64(wi)), A(int64(mi)), AU(amount), AB(fees), A(int64(to)), AB(withSig), AB(sigall))
	pre := randHex(h.w.rng, 32)
	var tags *nut11.P2PKTags
	if withSig || sigall {
		tags = &nut11.P2PKTags{NSigs: 1, Pubkeys: []*btcec.PublicKey{h.wal(to).W.GetReceivePubkey()}}
		if sigall {
			tags.Sigflag = nut11.SIGALL
			if h.htlcNoNSigs == 1 || (h.htlcNoNSigs == 0 && h.w.rng.Intn(2) == 0) {
				// no n_sigs tag: the inputs need the preimage only, the outputs still one signature of a listed key
				tags.NSigs = 0
			}
		}
	}
	body := h.sendBody(wl, m, 2, to, sigall, pre, true, func() (cashu.Proofs, error) { return wl.W.HTLCLockedProofs(amount, m.url, pre, tags, fees) })
	h.runMaybeCrash("send-htlc", op, wl, crashAt, body, true)
}

func (h *wHist) tokenOf(t *wToken) cashu.Token {
	ps := make(cashu.Proofs, len(t.proofs))
	copy(ps, t.proofs)
	tok, err := cashu.NewTokenV4(ps, t.m.url, cashu.Sat, t.dleq)
	must(err)
	return tok
}

func (h *wHist) OpReceive(wi, ti int, trusted bool, crashAt int) {
	wl, t := h.wal(wi), h.w.tokens[ti]
	op := L(A(oReceive), A(int64(wi)), A(int64(ti)), AB(trusted))
	body := func() (any, error) {
		a, err := wl.W.Receive(h.tokenOf(t), trusted)
		if err == nil {
			t.redeemed = true
			if !trusted && !wl.trusts(t.m) {
				wl.trusted = append(wl.trusted, t.m)
			}
		}
		return a, err
	}
	h.runMaybeCrash("receive", op, wl, crashAt, body, false)
	h.noteRedeemed(t)
}

// noteRedeemed: a token is redeemed when its proofs are spent at the mint (also after a cut receive).
func (h *wHist) noteRedeemed(t *wToken) {
	ys := make([]string, len(t.proofs))
	for i, p := range t.proofs {
		ys[i] = Yhex(p.Secret)
	}
	st := t.m.states(ys)
	for _, y := range ys {
		if st[y] == nut07.Spent {
			t.redeemed = true
		}
	}
}

func (h *wHist) OpRecvHTLC(wi, ti int, crashAt int) {
	wl, t := h.wal(wi), h.w.tokens[ti]
	op := L(A(oRecvHTLC), A(int64(wi)), A(int64(ti)))
	body := func() (any, error) {
		a, err := wl.W.ReceiveHTLC(h.tokenOf(t), t.preimage)
		if err != nil && !t.redeemed && (t.to == wi || t.to < 0) && wl.trusts(t.m) && crashAt == 0 &&
			(strings.Contains(err.Error(), "signature") || strings.Contains(err.Error(), "preimage") || strings.Contains(err.Error(), "witness")) {
			// C13: the witness the library's own helpers produce for the rightful receiver is always accepted
			h.violate("helper-witness-rejected op=receive-htlc sigall="+fmt.Sprint(t.sigall), fmt.Sprintf("ReceiveHTLC by the wallet the lock is for, with the right preimage, was refused: %v", err), nil)
		}
		if err == nil {
			t.redeemed = true
			if !wl.trusts(t.m) {
				wl.trusted = append(wl.trusted, t.m)
			}
		}
		return a, err
	}
	h.runMaybeCrash("receive-htlc", op, wl, crashAt, body, false)
	h.noteRedeemed(t)
}

func (h *wHist) OpMelt(wi, mi int, sat uint64, outcome int, crashAt int) {
	wl, m := h.wal(wi), h.w.mints[mi]
	op := L(A(oMelt), A(int64(wi)), A(int64(mi)), AU(sat), A(int64(outcome)))
	h.w.nextOutcome = outcome
	h.lastOutcome = outcome
	body := func() (any, error) {
		req, hash := ExternalInvoice(sat * 1000)
		q, err := wl.W.RequestMeltQuote(req, m.url)
		if err != nil {
			return uint64(9), err
		}
		mq := &wMeltQ{id: q.Quote, m: m, hash: hash, amount: q.Amount}
		wl.meltQ = append(wl.meltQ, mq)
		h.melts = append(h.melts, &wMeltRef{wl, mq, wl.gen})
		res, err := wl.W.Melt(q.Quote)
		if err != nil {
			return uint64(9), err
		}
		mq.state = meltStateN(res.State)
		return uint64(mq.state), nil
	}
	h.runMaybeCrash("melt", op, wl, crashAt, body, false)
	h.w.nextOutcome = 0
}

func (h *wHist) OpResolve(qi int, how int) {
	ref := h.melts[qi]
	op := L(A(oResolve), A(int64(qi)), A(int64(how)))
	h.lastOutcome = how
	if p := h.w.pay[ref.q.hash]; p != nil && p.status == 3 {
		if how == 1 || how == 4 {
			p.status = 1
			ref.q.m.ln.settle(p.hash)
		} else {
			p.status = 2
		}
	}
	if how > 2 {
		// at the backend only: the wallet is not told (it finds out by a later poll, or by Melt on the same quote)
		out := h.w.run(ref.wl, 0, func() (any, error) {
			ref.q.m.tm.M.GetMeltQuoteState(context.Background(), ref.q.id) // somebody polls the quote at the mint: the mint adopts the outcome
			return uint64(0), nil
		})
		h.finishOp("melt-resolve", op, ref.wl, out, false)
		return
	}
	out := h.w.run(ref.wl, 0, func() (any, error) {
		res, err := ref.wl.W.CheckMeltQuoteState(ref.q.id)
		if err != nil {
			return uint64(9), err
		}
		ref.q.state = meltStateN(res.State)
		return uint64(ref.q.state), nil
	})
	h.finishOp("melt-resolve", op, ref.wl, out, false)
}

func (h *wHist) OpMeltAgain(qi int) {
	ref := h.melts[qi]
	op := L(A(oMeltAgain), A(int64(qi)))
	h.w.nextOutcome = 0
	out := h.w.run(ref.wl, 0, func() (any, error) {
		res, err := ref.wl.W.Melt(ref.q.id)
		if err != nil {
			return uint64(9), err
		}
		ref.q.state = meltStateN(res.State)
		return uint64(ref.q.state), nil
	})
	h.finishOp("melt-again", op, ref.wl, out, false)
}

func (h *wHist) OpRemove(wi int) {
	wl := h.wal(wi)
	out := h.w.run(wl, 0, func() (any, error) { return uint64(0), wl.W.RemoveSpentProofs() })
	h.finishOp("remove-spent", L(A(oRemove), A(int64(wi))), wl, out, false)
}

func (h *wHist) OpReclaim(wi int, crashAt int) {
	wl := h.wal(wi)
	body := func() (any, error) {
		_, err := wl.W.ReclaimUnspentProofs()
		return uint64(0), err
	}
	h.runMaybeCrash("reclaim", L(A(oReclaim), A(int64(wi))), wl, crashAt, body, false)
	for _, t := range h.w.tokens {
		if !t.redeemed {
			h.noteRedeemed(t)
		}
	}
}

func (h *wHist) OpMintSwap(wi, from, to int, amount uint64, outcome int) {
	wl := h.wal(wi)
	op := L(A(oMintSwap), A(int64(wi)), A(int64(from)), A(int64(to)), AU(amount), A(int64(outcome)))
	h.w.nextOutcome = outcome
	h.lastOutcome = outcome
	out := h.w.run(wl, 0, func() (any, error) { return wl.W.MintSwap(amount, h.w.mints[from].url, h.w.mints[to].url) })
	h.w.nextOutcome = 0
	h.finishOp("mintswap", op, wl, out, false)
}

func (h *wHist) OpRotate(mi int, fee uint) {
	h.w.mints[mi].rotate(fee)
	h.w.cur = nil
	h.record(L(A(oRotate), A(int64(mi)), AU(uint64(fee))), 0, 0, wOutcome{})
	h.w.stats["op=rotate"]++
}

func (h *wHist) OpAddMint(wi, mi int) {
	wl, m := h.wal(wi), h.w.mints[mi]
	out := h.w.run(wl, 0, func() (any, error) {
		_, err := wl.W.AddMint(m.url)
		if err == nil && !wl.trusts(m) {
			wl.trusted = append(wl.trusted, m)
		}
		return uint64(0), err
	})
	h.finishOp("addmint", L(A(oAddMint), A(int64(wi)), A(int64(mi))), wl, out, false)
}

// expectedRestore: mint-side truth for a seed: value of its signed outputs that are UNSPENT or PENDING.
func (h *wHist) expectedRestore(wl *wWal) (uint64, int) {
	w := h.w
	by := map[*wMint][]*wOutput{}
	for _, o := range w.outputs {
		if o.seed == wl.seed && wl.trusts(o.m) {
			by[o.m] = append(by[o.m], o)
		}
	}
	var total uint64
	n := 0
	for m, os := range by {
		ys := make([]string, len(os))
		for i, o := range os {
			ys[i] = Yhex(o.secret)
		}
		st := m.states(ys)
		for i, o := range os {
			if st[ys[i]] != nut07.Spent {
				total += o.amount
				n++
			}
		}
	}
	return total, n
}

// syncTrusted: the mints the wallet trusts, as the wallet itself reports them (an operation that failed
// or was cut may have added a mint), in index order.
func (h *wHist) syncTrusted(wl *wWal) {
	if wl.W == nil {
		return
	}
	known := map[string]bool{}
	for _, u := range wl.W.TrustedMints() {
		known[u] = true
	}
	wl.trusted = nil
	for _, m := range h.w.mints {
		if known[m.url] {
			wl.trusted = append(wl.trusted, m)
		}
	}
}

func (h *wHist) restoreInto(wl *wWal) (string, wOutcome) {
	h.syncTrusted(wl)
	dir, err := os.MkdirTemp(h.w.dir, "restored")
	must(err)
	must(os.Remove(dir))
	urls := []string{}
	for _, m := range wl.trusted {
		urls = append(urls, m.url)
	}
	out := h.w.run(wl, 0, func() (any, error) { return wallet.Restore(dir, wl.mnemonic, urls) })
	return dir, out
}

// OpRestore: back up (mnemonic), restore into an empty directory, go on with the restored wallet.
func (h *wHist) OpRestore(wi int) {
	wl := h.wal(wi)
	h.syncTrusted(wl)
	want, nOut := h.expectedRestore(wl)
	dir, out := h.restoreInto(wl)
	h.after("restore", wl, out, false)
	class, amount := classOf(out), amountOf(out.val)
	if out.err == nil && !out.crashed {
		wl.store.inner.Close()
		wl.W = nil
		wl.dir = dir
		which := restoreLabel(wl)
		wl.gen++
		wl.cut = false
		wl.blur = false
		// the restored wallet holds as spendable what the backed-up wallet had handed out in plain
		// tokens that are not redeemed yet: from here on only one of the two may spend them. The
		// harness lets the restored wallet have them (the tokens are never presented again), so that
		// the history does not depend on which of two equal proofs a selection picks.
		for _, t := range h.w.tokens {
			if t.from == wl && t.kind == 0 {
				t.redeemed = true
			}
		}
		h.restores[wi]++
		if err := h.w.reopen(wl); err != nil {
			h.violate("restored-wallet-cannot-be-opened", err.Error(), nil)
			h.stop = true
			class = 1
		} else {
			got := wl.W.GetBalance() + wl.W.PendingBalance()
			h.checkRestored(wl, want, got, nOut, which)
		}
	}
	h.record(L(A(oRestore), A(int64(wi))), class, amount, out)
	h.w.stats["op=restore"]++
	h.checkC17("restore")
}

func (h *wHist) checkRestored(wl *wWal, want, got uint64, nOut int, which string) {
	if h.prop != "C19" {
		return
	}
	ctx := ""
	if h.lastCrash != "" {
		ctx = " (last cut: " + h.lastCrash + ")"
	}
	if got < want {
		h.violate("restore-misses-outputs wallet="+which,
			fmt.Sprintf("wallet %d: %d sat in %d outputs of this seed are unspent or pending at the mints, the restored wallet holds %d%s", wl.idx, want, nOut, got, ctx), nil)
	} else if got > want {
		h.violate("restore-holds-more-than-mint wallet="+which,
			fmt.Sprintf("wallet %d: mint-side %d, restored %d%s", wl.idx, want, got, ctx), nil)
	}
}

// restoreLabel: was the wallet that is being backed up itself created by a restore?
func restoreLabel(wl *wWal) string {
	if wl.gen == 0 {
		return "original"
	}
	return "restored-before"
}

// OpCheck: restore into an empty directory, compare with the mint-side truth, throw the copy away.
func (h *wHist) OpCheck(wi int) {
	wl := h.wal(wi)
	h.syncTrusted(wl)
	want, nOut := h.expectedRestore(wl)
	dir, out := h.restoreInto(wl)
	h.after("restore-check", wl, out, false)
	var got uint64
	class := classOf(out)
	if out.err == nil {
		W, err := wallet.LoadWallet(wallet.Config{WalletPath: dir, CurrentMintURL: wl.home.url})
		if err != nil {
			h.violate("restored-wallet-cannot-be-opened", err.Error(), nil)
			class = 1
		} else {
			got = W.GetBalance() + W.PendingBalance()
			W.Shutdown()
			h.checkRestored(wl, want, got, nOut, restoreLabel(wl))
		}
	}
	os.RemoveAll(dir)
	h.scanRequests("restore-check")
	h.record(L(A(oCheck), A(int64(wi))), class, got, out)
	h.w.stats["op=restore-check"]++
}

// ---------------- helpers for the generators ----------------

func (h *wHist) balanceAt(wl *wWal, m *wMint) uint64 {
	if wl.W == nil {
		return 0
	}
	return wl.W.GetBalanceByMints()[m.url]
}

func (h *wHist) openTokens(filter func(*wToken) bool) []int {
	var out []int
	for _, t := range h.w.tokens {
		if !t.redeemed && filter(t) {
			out = append(out, t.h)
		}
	}
	return out
}

func (h *wHist) pendingMints(wl *wWal) int {
	seen := map[*wMint]bool{}
	for _, p := range wl.store.inner.GetPendingProofs() {
		if m := h.mintOfKeyset(p.Id); m != nil {
			seen[m] = true
		}
	}
	return len(seen)
}

func pick[T any](rng *rand.Rand, xs []T) T { return xs[rng.Intn(len(xs))] }

var _ = hex.EncodeToString
var _ = sort.Strings
var _ = nut05.Paid
var _ = nut10.P2PK
var _ = time.Now
