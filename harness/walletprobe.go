package main

// Restore probes (C19): two situations the wallet histories cannot produce, because they need a party that is not one of the
// modelled wallets or a mint that rotated under a fee - judged by harness-side ground truth only (no model comparison):
//   (a) a payee redeems the payer's token at the mint with a witness attached to its (plain) proofs; the payer then restores
//       from the seed: everything of the seed that is unspent at the mint must come back;
//   (b) a wallet restored from the seed on a fee-charging mint that has rotated must be able to spend what it restored.

import (
	"fmt"
	"math/rand"
	"os"

	decodepay "github.com/nbd-wtf/ln-decodepay"

	"github.com/elnosh/gonuts/cashu"
	"github.com/elnosh/gonuts/wallet"
)

func selMintInto(env *selEnv, w *wallet.Wallet, amount uint64) error {
	q, err := w.RequestMint(amount, env.url)
	if err != nil {
		return err
	}
	bolt, err := decodepay.Decodepay(q.Request)
	if err != nil {
		return err
	}
	env.tm.LN.Settle(bolt.PaymentHash)
	_, err = w.MintTokens(q.Quote)
	return err
}

func wRestoreProbes(sink *Sink, rng *rand.Rand, scratch string) {
	// (a) witness planted by the payee
	func() {
		env := newSelEnv(scratch, rng, [3]uint{0, 0, 0}, false)
		defer env.Close()
		if err := selMintInto(env, env.sender, 64); err != nil {
			sink.Note("restore probe (a): could not mint: " + err.Error())
			return
		}
		sent, err := env.sender.Send(5, env.url, false)
		if err != nil || len(sent) == 0 {
			sink.Note(fmt.Sprintf("restore probe (a): could not send: %v", err))
			return
		}
		// the payee redeems directly, with a witness on every proof (the mint stores whatever witness an input carries)
		var ins cashu.Proofs
		for _, p := range sent {
			p.Witness = "thanks!"
			p.DLEQ = nil
			ins = append(ins, p)
		}
		var outs cashu.BlindedMessages
		for _, a := range cashu.AmountSplit(ins.Amount()) {
			bm, _ := Blind(rng, randHex(rng, 32), a, env.tm.ActiveId())
			outs = append(outs, bm)
		}
		if _, err := env.tm.M.Swap(ins, outs); err != nil {
			sink.Note("restore probe (a): payee swap refused: " + err.Error())
			return
		}
		mn := env.sender.Mnemonic()
		dir, _ := os.MkdirTemp(scratch, "c19probe")
		defer os.RemoveAll(dir)
		got, err := wallet.Restore(dir, mn, []string{env.url})
		sink.Stat("restore-probe:witness-on-spent-proof")
		if err != nil || got != 59 {
			sink.Violate("restore-misses-outputs cause=witness-on-spent-proof", fmt.Sprintf("the seed has 59 sat unspent at the mint (64 minted, 5 sent and redeemed by the payee with a witness attached); Restore returned %d (%v)", got, err),
				"mint 64; send 5; payee swaps the 5 with witness \"thanks!\"; restore", nil)
		}
	}()
	// (c) the same mint under a second URL spelling: the keyset is saved once more, with counter 0; the counter the wallet
	// derives its next outputs from must still be the one it has reached
	func() {
		env := newSelEnv(scratch, rng, [3]uint{0, 0, 0}, false)
		defer env.Close()
		if err := selMintInto(env, env.sender, 64); err != nil {
			sink.Note("url probe: could not mint: " + err.Error())
			return
		}
		alias := "http://c18-mint.verif:3339" // served by the same in-process mint; sorts after the first URL
		if _, err := env.sender.AddMint(alias); err != nil {
			sink.Note("url probe: AddMint refused: " + err.Error())
			return
		}
		sink.Stat("url-probe:second-spelling-of-a-known-mint")
		if err := selMintInto(env, env.sender, 8); err != nil {
			sink.Violate("counter-reset-by-second-url-of-a-mint", fmt.Sprintf("after AddMint of a second URL of the wallet's own mint the next mint request is refused: %v", err),
				"mint 64; AddMint(second URL of the same mint); mint 8", nil)
		}
	}()
	// (b) restored wallet on a rotated fee-charging mint
	func() {
		env := newSelEnv(scratch, rng, [3]uint{100, 100, 100}, false)
		defer env.Close()
		// the sender's proofs must be on a keyset that is inactive by the time of the restore: mint, then rotate
		if err := selMintInto(env, env.sender, 64); err != nil {
			sink.Note("restore probe (b): could not mint: " + err.Error())
			return
		}
		if _, err := env.tm.M.RotateKeyset(100); err != nil {
			sink.Note("restore probe (b): rotation failed: " + err.Error())
			return
		}
		env.tm.deriveKeysets()
		mn := env.sender.Mnemonic()
		dir, _ := os.MkdirTemp(scratch, "c19probe")
		defer os.RemoveAll(dir)
		got, err := wallet.Restore(dir, mn, []string{env.url})
		if err != nil || got != 64 {
			sink.Violate("restore-misses-outputs cause=rotated-fee-mint", fmt.Sprintf("Restore returned %d (%v), 64 sat are unspent", got, err), "mint 64 at 100 ppk; rotate; restore", nil)
			return
		}
		rw, err := wallet.LoadWallet(wallet.Config{WalletPath: dir, CurrentMintURL: env.url})
		if err != nil {
			sink.Violate("restored-wallet-cannot-be-opened", err.Error(), "mint 64 at 100 ppk; rotate; restore; load", nil)
			return
		}
		defer rw.Shutdown()
		sink.Stat("restore-probe:spend-after-restore-on-rotated-fee-mint")
		// a melt of 20 sat: the inputs are proofs of the (now inactive) keyset, which charges 100 ppk per input
		req, _ := ExternalInvoice(20000)
		mq, err := rw.RequestMeltQuote(req, env.url)
		if err != nil {
			sink.Note("restore probe (b): no melt quote: " + err.Error())
			return
		}
		if _, err := rw.Melt(mq.Quote); err != nil {
			sink.Violate("restored-wallet-cannot-spend cause=inactive-keyset-fee", fmt.Sprintf("a wallet restored from the seed (64 sat on a keyset the mint has rotated out, 100 ppk) cannot melt 20 sat: %v", err),
				"mint 64 at 100 ppk; rotate; restore; melt 20", nil)
		}
	}()
}
