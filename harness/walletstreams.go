package main

// Generators of the three wallet streams.

import (
	"math/rand"
	"os"
	"strconv"
	"time"
)

func init() {
	register("c08-hist", "C08", func(s *Sink, r *rand.Rand, tier, scratch string) { wStream(s, r, tier, scratch, "C08") })
	register("c17-hist", "C17", func(s *Sink, r *rand.Rand, tier, scratch string) { wStream(s, r, tier, scratch, "C17") })
	register("c19-hist", "C19", func(s *Sink, r *rand.Rand, tier, scratch string) { wStream(s, r, tier, scratch, "C19") })
	register("c13-wallet", "C13", wHTLCStream)
}

var wFees = []uint{0, 100, 1000}

type wGen struct {
	h        *wHist
	rng      *rand.Rand
	prop     string
	crash    bool // crash cuts allowed
	restore  bool
	rotated  map[int]bool
	maxCrash int
}

func randCfg(rng *rand.Rand, nm, nw int) wCfg {
	c := wCfg{}
	for i := 0; i < nm; i++ {
		c.fees = append(c.fees, wFees[rng.Intn(3)])
		c.feePct = append(c.feePct, uint64(rng.Intn(2)))
	}
	for i := 0; i < nw; i++ {
		if i < nm {
			c.homes = append(c.homes, i)
		} else {
			c.homes = append(c.homes, rng.Intn(nm))
		}
	}
	return c
}

func (g *wGen) amount(max uint64) uint64 {
	if max == 0 {
		return 1
	}
	switch g.rng.Intn(4) {
	case 0:
		return 1 + uint64(g.rng.Intn(8))
	case 1:
		a := uint64(1) << uint(g.rng.Intn(8))
		if a > max {
			return max
		}
		return a
	}
	return 1 + uint64(g.rng.Int63n(int64(max)))
}

func (g *wGen) cut() int {
	if !g.crash || g.rng.Intn(3) != 0 {
		return 0
	}
	return 1 + g.rng.Intn(g.maxCrash)
}

// step performs one random operation that is possible in the current state.
func (g *wGen) step() {
	h, rng := g.h, g.rng
	w := h.w
	wi := rng.Intn(len(w.wallets))
	wl := h.wal(wi)
	if wl.W == nil {
		return
	}
	if wl.cut {
		// after a cut the store can hold a proof twice or hold spent proofs next to unspent ones of the
		// same amount: what the wallet does next depends on which of two equal proofs a selection picks.
		// The history goes on with this wallet only through a restore (C19's question about cuts).
		if rng.Intn(2) == 0 {
			h.OpCheck(wi)
		} else {
			h.OpRestore(wi)
		}
		return
	}
	h.syncTrusted(wl)
	m := wl.home
	if len(wl.trusted) > 1 && rng.Intn(3) == 0 {
		m = pick(rng, wl.trusted)
	}
	bal := h.balanceAt(wl, m)
	type cand struct {
		wt int
		f  func()
	}
	var cs []cand
	add := func(wt int, f func()) { cs = append(cs, cand{wt, f}) }

	mintW := 6
	if bal < 16 {
		mintW = 30
	}
	add(mintW, func() {
		a := []uint64{1, 3, 8, 21, 64, 100, 250, 1000, 1023, 4000}[rng.Intn(10)]
		if rng.Intn(3) == 0 {
			a = 1 + uint64(rng.Intn(300))
		}
		h.OpMint(wi, m.idx, a, rng.Intn(12) != 0, g.cut())
	})
	if bal > 0 {
		add(14, func() {
			a := g.amount(bal)
			if rng.Intn(15) == 0 {
				a = bal + 1 + uint64(rng.Intn(5))
			}
			// restored proofs carry no DLEQ; which of two equal proofs is picked is arbitrary: tokens of
			// restored wallets are made without DLEQ so that the history does not depend on the tie-break
			h.OpSend(wi, m.idx, a, rng.Intn(2) == 0, rng.Intn(3) != 0 && wl.gen == 0, g.cut())
		})
		add(4, func() {
			to := rng.Intn(len(w.wallets))
			h.OpSendP2PK(wi, m.idx, g.amount(bal), rng.Intn(2) == 0, to, rng.Intn(3) == 0, g.cut())
		})
		add(3, func() {
			to := rng.Intn(len(w.wallets))
			sigall := rng.Intn(4) == 0
			h.OpSendHTLC(wi, m.idx, g.amount(bal), rng.Intn(2) == 0, to, rng.Intn(2) == 0, sigall, g.cut())
		})
	}
	if bal >= 4 {
		add(7, func() {
			a := g.amount(bal * 9 / 10)
			outcome := []int{0, 0, 0, 1, 1, 2}[rng.Intn(6)]
			h.OpMelt(wi, m.idx, a, outcome, g.cut())
		})
	}
	// tokens this wallet can take
	plain := h.openTokens(func(t *wToken) bool { return t.kind == 0 || (t.kind == 1 && t.to == wi) })
	if len(plain) > 0 {
		add(16, func() {
			t := w.tokens[pick(rng, plain)]
			trusted := t.m != wl.home && rng.Intn(2) == 0
			h.OpReceive(wi, t.h, trusted, g.cut())
		})
	}
	htlc := h.openTokens(func(t *wToken) bool { return t.kind == 2 && t.to == wi })
	if len(htlc) > 0 {
		add(10, func() { h.OpRecvHTLC(wi, pick(rng, htlc), g.cut()) })
	}
	var pend []int
	for i, ref := range h.melts {
		if ref.q.state == 1 && ref.wl.W != nil && !ref.wl.cut && ref.gen == ref.wl.gen {
			pend = append(pend, i)
		}
	}
	if len(pend) > 0 {
		add(8, func() { h.OpResolve(pick(rng, pend), 1+rng.Intn(4)) })
		add(2, func() { h.OpMeltAgain(pick(rng, pend)) })
	}
	if wl.W.PendingBalance() > 0 {
		add(5, func() { h.OpRemove(wi) })
		// ReclaimUnspentProofs stops at the first mint whose swap fails and visits the mints in Go map
		// order: only generated when all pending proofs are of one mint
		if h.pendingMints(wl) == 1 {
			add(5, func() { h.OpReclaim(wi, g.cut()) })
		}
	}
	if len(w.mints) > 1 {
		other := w.mints[1-m.idx]
		if !wl.trusts(other) {
			add(3, func() { h.OpAddMint(wi, other.idx) })
		} else if bal >= 20 {
			add(6, func() {
				a := 10 + uint64(rng.Int63n(int64(bal-9)))
				h.OpMintSwap(wi, m.idx, other.idx, a, []int{0, 0, 1, 2}[rng.Intn(4)])
			})
		}
	}
	for _, mm := range w.mints {
		if !g.rotated[mm.idx] && h.opn > 4 {
			mm := mm
			add(2, func() {
				g.rotated[mm.idx] = true
				h.OpRotate(mm.idx, wFees[rng.Intn(3)])
			})
		}
	}
	if g.restore {
		add(3, func() { h.OpRestore(wi) })
		if g.prop == "C19" {
			add(3, func() { h.OpCheck(wi) })
		}
	}
	total := 0
	for _, c := range cs {
		total += c.wt
	}
	x := rng.Intn(total)
	for _, c := range cs {
		if x < c.wt {
			c.f()
			return
		}
		x -= c.wt
	}
}

func wStream(sink *Sink, rng *rand.Rand, tier, scratch, prop string) {
	start := time.Now()
	budget := 75 * time.Second
	if tier == "thorough" {
		budget = 9 * time.Minute
	}
	if v := os.Getenv("VERIF_WALLET_BUDGET_S"); v != "" {
		if n, err := strconv.Atoi(v); err == nil {
			budget = time.Duration(n) * time.Second
		}
	}
	deadline := start.Add(budget)
	n := 0
	if prop == "C19" {
		wRestoreProbes(sink, rng, scratch)
	}
	// fixed scenarios first (each is one history)
	for _, sc := range wScenarios(prop, tier, rng) {
		// the fixed scenarios may use at most 60% of the budget
		if time.Since(start) > budget*6/10 {
			sink.Note("not all fixed scenarios were run within the budget")
			break
		}
		h := sc(sink, rng, scratch)
		h.finish()
		n++
	}
	for time.Now().Before(deadline) {
		nm := 1 + rng.Intn(2)
		nw := 2 + rng.Intn(2)
		h := newWHist(sink, rng, scratch, prop, randCfg(rng, nm, nw))
		g := &wGen{h: h, rng: rng, prop: prop, rotated: map[int]bool{}, maxCrash: 16}
		g.crash = prop == "C19" && rng.Intn(2) == 0
		// a restored wallet holds as spendable what the backed-up wallet had handed out in tokens that
		// are not redeemed yet: restore is not one of the operations of C17's quantifier
		g.restore = prop != "C17"
		ops := 12 + rng.Intn(30)
		for i := 0; i < ops && !h.stop && time.Now().Before(deadline); i++ {
			g.step()
		}
		if prop == "C19" && !h.stop {
			for wi := range h.w.wallets {
				if h.wal(wi).W != nil {
					h.OpCheck(wi)
				}
			}
		}
		h.nontrivial = true
		h.finish()
		n++
	}
	rule := "a history counts as non-trivial if it has at least one value-moving wallet operation"
	sink.Close(rule, false, start)
}

// ---------------- fixed scenarios ----------------

type wScenario func(sink *Sink, rng *rand.Rand, scratch string) *wHist

func wScenarios(prop, tier string, rng *rand.Rand) []wScenario {
	var out []wScenario
	// the mint rotates while the wallet is running and the first thing the wallet does afterwards is a send that needs a swap
	// (the outputs of that swap are on the new keyset and must use - and advance - the new keyset's counter)
	for _, fee := range []uint{0, 100} {
		fee := fee
		out = append(out, func(sink *Sink, rng *rand.Rand, scratch string) *wHist {
			h := newWHist(sink, rng, scratch, prop, wCfg{fees: []uint{fee}, feePct: []uint64{1}, homes: []int{0, 0}})
			h.nontrivial = true
			h.OpMint(0, 0, 64, true, 0)
			// hand out every 1 sat proof, so that the next send of 1 sat has to split a larger proof
			ones := 0
			for _, p := range h.wal(0).store.inner.GetProofs() {
				if p.Amount == 1 {
					ones++
				}
			}
			for i := 0; i < ones; i++ {
				h.OpSend(0, 0, 1, false, true, 0)
			}
			h.OpRotate(0, fee)
			h.OpSend(0, 0, 1, false, true, 0)
			h.OpReceive(1, len(h.w.tokens)-1, false, 0)
			h.OpMint(0, 0, 8, true, 0)
			h.OpMint(0, 0, 8, true, 0)
			h.OpMint(0, 0, 8, true, 0)
			h.OpSend(0, 0, 5, false, true, 0)
			h.OpRestore(0)
			if prop == "C19" {
				h.OpCheck(0)
			}
			return h
		})
	}
	for _, fee := range wFees {
		fee := fee
		// mint, send that needs a swap, receive, melt, reclaim: the paths of C08's quantifier in one history
		out = append(out, func(sink *Sink, rng *rand.Rand, scratch string) *wHist {
			h := newWHist(sink, rng, scratch, prop, wCfg{fees: []uint{fee, 0}, feePct: []uint64{1, 1}, homes: []int{0, 0, 1}})
			h.nontrivial = true
			h.OpMint(0, 0, 1000, true, 0)
			h.OpSend(0, 0, 300, false, true, 0)
			h.OpReceive(1, 0, false, 0)
			h.OpSend(0, 0, 77, true, false, 0)
			h.OpReceive(2, 1, true, 0) // untrusted mint: swap to trusted through Lightning
			h.OpSendP2PK(0, 0, 50, false, 1, false, 0)
			h.OpReceive(1, 2, false, 0)
			h.OpSendP2PK(0, 0, 40, true, 1, true, 0)
			h.OpReceive(1, 3, false, 0)
			h.OpSendHTLC(0, 0, 30, false, 1, true, false, 0)
			h.OpRecvHTLC(1, 4, 0)
			h.OpMelt(0, 0, 100, 0, 0)
			h.OpMelt(0, 0, 50, 1, 0)
			h.OpMelt(0, 0, 60, 2, 0)
			h.OpResolve(len(h.melts)-1, 1)
			// a melt left pending whose payment fails behind the wallet's back, retried on the same quote (then paid)
			h.OpMelt(0, 0, 16, 2, 0)
			h.OpResolve(len(h.melts)-1, 3)
			h.OpMeltAgain(len(h.melts) - 1)
			h.OpMelt(0, 0, 8, 2, 0)
			h.OpResolve(len(h.melts)-1, 4)
			h.OpMeltAgain(len(h.melts) - 1)
			h.OpSend(0, 0, 20, false, true, 0)
			h.OpReclaim(0, 0)
			h.OpSend(1, 0, 100, false, true, 0)
			h.OpReceive(0, len(h.w.tokens)-1, false, 0)
			h.OpRemove(1)
			h.OpRotate(0, wFees[(int(fee)/100+1)%3])
			h.OpMint(0, 0, 200, true, 0)
			h.OpSend(0, 0, 150, true, true, 0)
			h.OpReceive(1, len(h.w.tokens)-1, false, 0)
			h.OpAddMint(0, 1)
			h.OpMintSwap(0, 0, 1, 100, 0)
			h.OpRestore(0)
			h.OpSend(0, 0, 33, false, true, 0)
			h.OpReceive(1, len(h.w.tokens)-1, false, 0)
			if prop == "C19" {
				h.OpCheck(0)
				h.OpCheck(1)
			}
			return h
		})
	}
	// everything a seed ever had signed is spent: restore, continue, restore again (the counter must still move past the spent outputs)
	out = append(out, func(sink *Sink, rng *rand.Rand, scratch string) *wHist {
		h := newWHist(sink, rng, scratch, prop, wCfg{fees: []uint{0}, feePct: []uint64{1}, homes: []int{0, 0}})
		h.nontrivial = true
		h.OpMint(0, 0, 8, true, 0)
		h.OpSend(0, 0, 8, false, true, 0)
		h.OpReceive(1, 0, false, 0)
		h.OpRestore(0)
		h.OpMint(0, 0, 8, true, 0)
		h.OpMint(0, 0, 8, true, 0)
		h.OpRestore(0)
		if prop == "C19" {
			h.OpCheck(0)
		}
		return h
	})
	// MintSwap for every Lightning outcome (C17)
	for _, outcome := range []int{0, 1, 2} {
		outcome := outcome
		out = append(out, func(sink *Sink, rng *rand.Rand, scratch string) *wHist {
			h := newWHist(sink, rng, scratch, prop, wCfg{fees: []uint{0, 0}, feePct: []uint64{1, 1}, homes: []int{0, 1}})
			h.nontrivial = true
			h.OpMint(0, 0, 1000, true, 0)
			h.OpAddMint(0, 1)
			h.OpMintSwap(0, 0, 1, 500, outcome)
			if prop == "C19" {
				h.OpCheck(0)
			}
			return h
		})
	}
	// SIG_ALL token from an untrusted mint, swapped to the trusted mint
	out = append(out, func(sink *Sink, rng *rand.Rand, scratch string) *wHist {
		h := newWHist(sink, rng, scratch, prop, wCfg{fees: []uint{0, 0}, feePct: []uint64{1, 1}, homes: []int{0, 1}})
		h.nontrivial = true
		h.OpMint(0, 0, 1000, true, 0)
		h.OpMint(1, 1, 64, true, 0)
		h.OpAddMint(1, 0)
		h.OpSendP2PK(0, 0, 200, false, 1, true, 0)
		h.OpReceive(1, 0, true, 0)
		h.OpMint(1, 0, 8, true, 0)
		if prop == "C19" {
			h.OpCheck(1)
		}
		return h
	})
	// two SIG_ALL tokens from a mint the receiver does not trust, both swapped to the trusted mint:
	// the intermediate swap at the untrusted mint derives its outputs from a counter the wallet does not store
	out = append(out, func(sink *Sink, rng *rand.Rand, scratch string) *wHist {
		h := newWHist(sink, rng, scratch, prop, wCfg{fees: []uint{0, 0}, feePct: []uint64{1, 1}, homes: []int{0, 1}})
		h.nontrivial = true
		h.OpMint(0, 0, 1000, true, 0)
		h.OpSendP2PK(0, 0, 200, false, 1, true, 0)
		h.OpSendP2PK(0, 0, 100, false, 1, true, 0)
		h.OpReceive(1, 0, true, 0)
		h.OpReceive(1, 1, true, 0)
		return h
	})
	if prop == "C19" {
		// a wallet process cut between the two SaveKeyset calls with which getActiveKeyset records a rotation
		out = append(out, func(sink *Sink, rng *rand.Rand, scratch string) *wHist {
			h := newWHist(sink, rng, scratch, prop, wCfg{fees: []uint{0}, feePct: []uint64{1}, homes: []int{0}})
			h.nontrivial = true
			h.OpMint(0, 0, 100, true, 0)
			h.OpRotate(0, 100)
			h.OpMint(0, 0, 50, true, 5)
			return h
		})
		// more than 300 outputs on one keyset; restore; continue; restore again
		sizes := []int{250}
		if tier == "thorough" {
			sizes = []int{120, 250, 320}
		}
		for _, n := range sizes {
			n := n
			out = append(out, func(sink *Sink, rng *rand.Rand, scratch string) *wHist {
				h := newWHist(sink, rng, scratch, prop, wCfg{fees: []uint{0}, feePct: []uint64{0}, homes: []int{0, 0}})
				h.nontrivial = true
				for i := 0; i < n; i++ {
					h.OpMint(0, 0, 1, true, 0)
				}
				h.OpRestore(0)
				for i := 0; i < 5; i++ {
					h.OpMint(0, 0, 1, true, 0)
				}
				h.OpSend(0, 0, 3, false, true, 0)
				h.OpReceive(1, 0, false, 0)
				h.OpRestore(0)
				h.OpMint(0, 0, 2, true, 0)
				h.OpCheck(0)
				return h
			})
		}
		// crash cuts of mint / send / receive / melt at every effect position
		cutOps := 4
		maxK := 12
		if tier == "thorough" {
			maxK = 22
		}
		for opk := 0; opk < cutOps; opk++ {
			for k := 1; k <= maxK; k++ {
				opk, k := opk, k
				// quick tier: half of the (operation, position) pairs, chosen by the seed
				if tier != "thorough" && rng.Intn(2) == 0 {
					continue
				}
				out = append(out, func(sink *Sink, rng *rand.Rand, scratch string) *wHist {
					fee := wFees[(opk+k)%3]
					h := newWHist(sink, rng, scratch, prop, wCfg{fees: []uint{fee}, feePct: []uint64{1}, homes: []int{0, 0}})
					h.nontrivial = true
					h.OpMint(0, 0, 500, true, 0)
					h.OpMint(1, 0, 300, true, 0)
					h.OpSend(1, 0, 100, true, true, 0)
					switch opk {
					case 0:
						h.OpMint(0, 0, 77, true, k)
					case 1:
						h.OpSend(0, 0, 123, k%2 == 0, true, k)
					case 2:
						h.OpReceive(0, 0, false, k)
					case 3:
						h.OpMelt(0, 0, 90, []int{0, 1, 2}[k%3], k)
					}
					h.OpCheck(0)
					// restore, and go on with the restored wallet
					h.OpRestore(0)
					h.OpMint(0, 0, 9, true, 0)
					h.OpSend(0, 0, 5, false, false, 0)
					h.OpReceive(1, len(h.w.tokens)-1, false, 0)
					h.OpCheck(0)
					return h
				})
			}
		}
	}
	return out
}

// c13-wallet: HTLC locks made and redeemed through the wallet (HTLCLockedProofs / ReceiveHTLC, i.e. the library's own witness
// helpers as the wallet uses them): every lock shape the wallet can make, redeemed by the wallet it is for.
func wHTLCStream(sink *Sink, rng *rand.Rand, tier, scratch string) {
	start := time.Now()
	for _, fee := range wFees {
		for _, noNSigs := range []int{1, 2} {
			h := newWHist(sink, rng, scratch, "C17", wCfg{fees: []uint{fee}, feePct: []uint64{1}, homes: []int{0, 0}})
			h.htlcNoNSigs = noNSigs
			h.nontrivial = true
			h.OpMint(0, 0, 400, true, 0)
			for _, c := range [][2]bool{{false, false}, {true, false}, {false, true}, {true, true}} {
				for _, fees := range []bool{false, true} {
					h.OpSendHTLC(0, 0, 20, fees, 1, c[0], c[1], 0)
					h.OpRecvHTLC(1, len(h.w.tokens)-1, 0)
				}
			}
			h.finish()
		}
	}
	sink.Close("HTLC-locked sends of one wallet redeemed by the wallet they are for: with/without a signature requirement, with/without SIG_ALL, SIG_ALL with and without an n_sigs tag, at input fees 0/100/1000 ppk; non-trivial = every case", true, start)
}
