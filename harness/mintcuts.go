package main

// Streams that enumerate instead of sampling:
//   c07-cuts   : every operation kind x Lightning outcome x every crash position and every injected storage
//                error, followed by restart and adversarial follow-ups (C07)
//   c05-scripts: every script of backend answers up to a length, resolved through melt, poll and state check (C05)
//   c04-mut    : every single-field mutation of valid proofs, presented to Swap and Melt (C04)

import (
	"sort"
	"fmt"
	"math/rand"
	"strings"
	"time"

	"github.com/elnosh/gonuts/cashu"
	"github.com/elnosh/gonuts/cashu/nuts/nut05"
)

// ---------------------------------------------------------------- store-based views (independent of the harness's counters)

type dbView struct {
	issued, redeemed, pending uint64
}

func (h *Hist) view() dbView {
	var v dbView
	iss, _ := h.wdb.inner.GetIssuedEcash()
	red, _ := h.wdb.inner.GetRedeemedEcash()
	for _, x := range iss {
		v.issued += x
	}
	for _, x := range red {
		v.redeemed += x
	}
	var ys []string
	for _, sh := range h.order {
		ys = append(ys, Yhex(h.secrets[sh].secret))
	}
	if len(ys) > 0 {
		pend, _ := h.wdb.inner.GetPendingProofs(ys)
		for _, p := range pend {
			v.pending += p.Amount
		}
	}
	return v
}

func (h *Hist) isSpent(s *hSecret) bool {
	r, _ := h.wdb.inner.GetProofsUsed([]string{Yhex(s.secret)})
	return len(r) > 0
}

func (h *Hist) isPending(s *hSecret) bool {
	r, _ := h.wdb.inner.GetPendingProofs([]string{Yhex(s.secret)})
	return len(r) > 0
}

func (h *Hist) allSigned(outs []outSpec) bool {
	for _, o := range outs {
		if _, err := h.wdb.inner.GetBlindSignature(o.b.bm.B_); err != nil {
			return false
		}
	}
	return len(outs) > 0
}

// what the backend has been, or may still be, made to pay: every pay call whose payment was not definitively refused
func (h *Hist) lnOutflowWorst() uint64 {
	var tot uint64
	for _, c := range h.tm.LN.PayCalls {
		if h.tm.LN.refused[c.Hash] {
			continue
		}
		tot += (c.AmountMsat+999)/1000 + c.MaxFee
	}
	return tot
}

// C07 safety / C02: value outstanding + Lightning outflow never exceeds inflow, recomputed from the store
func (h *Hist) storeConservation(tag string) {
	if h.dead {
		return
	}
	v := h.view()
	out := h.lnOutflowWorst()
	if v.issued+out > h.extIn+v.redeemed+v.pending {
		h.sink.Violate("inflation"+tag+h.sigSuffix, fmt.Sprintf("store: issued %d + Lightning outflow (worst case) %d > received over Lightning %d + redeemed %d + locked %d",
			v.issued, out, h.extIn, v.redeemed, v.pending), LL(h.items).String(), nil)
	}
}

// ---------------------------------------------------------------- scenarios

type scenario struct {
	name  string
	family string
	setup func(h *Hist) (target func(m mode), follow func(), judge func(kind, at string))
}

func secsOf(ins []inSpec) []*hSecret {
	var l []*hSecret
	for _, i := range ins {
		l = append(l, i.sec)
	}
	return l
}

func bsOf(outs []outSpec) []*hB {
	var l []*hB
	for _, o := range outs {
		l = append(l, o.b)
	}
	return l
}

func (h *Hist) markUncertain(ins []inSpec) {
	for _, i := range ins {
		i.sec.uncertain = true
	}
}

func (h *Hist) fundAmount(amount uint64) *hMintQ {
	q := h.OpMintQuote(mode{}, amount, false, false, true)
	if q == nil {
		return nil
	}
	h.EnvSettle(q)
	h.OpMint(mode{}, q, h.freshOutputs(cashu.AmountSplit(amount)), 0, false)
	return q
}

func (h *Hist) honestIns(n int) []inSpec {
	var ins []inSpec
	for _, s := range h.spendable() {
		if len(ins) < n {
			ins = append(ins, h.honest(s))
		}
	}
	return ins
}

func stranded(h *Hist, sc, kind, at, what string) {
	h.sink.Violate(fmt.Sprintf("stranded:%s:%s-at:%s:%s", sc, kind, at, what),
		"after the cut (and restart) and every follow-up the client neither still owns its inputs / paid quote nor can obtain its outputs",
		LL(h.items).String(), nil)
}

func scSwap(fee uint) scenario {
	return scenario{name: fmt.Sprintf("swap-fee%d", fee), family: "swap", setup: func(h *Hist) (func(mode), func(), func(string, string)) {
		h.fundAmount(13)
		ins := h.honestIns(2)
		outs := h.honestSwapOutputs(ins)
		target := func(m mode) { h.markUncertain(ins); h.OpSwap(m, ins, outs) }
		follow := func() {
			h.OpCheck(mode{}, secsOf(ins), 0)
			h.OpRestore(mode{}, bsOf(outs), 0)
			h.OpSwap(mode{}, ins, outs)                      // the client retries the identical request
			h.OpSwap(mode{}, ins, h.honestSwapOutputs(ins))  // ... and with fresh outputs
			h.OpRestore(mode{}, bsOf(outs), 0)
			h.OpCheck(mode{}, secsOf(ins), 0)
			h.OpBalance(mode{})
		}
		judge := func(kind, at string) {
			spent := true
			for _, i := range ins {
				spent = spent && h.isSpent(i.sec)
			}
			// the inputs are gone: then the outputs of the request (first attempt or identical retry) must be obtainable
			if spent && !h.allSigned(outs) {
				stranded(h, "swap", kind, at, "inputs-spent-outputs-never-signed")
			}
		}
		return target, follow, judge
	}}
}

func scMint(lazy bool) scenario {
	name := "mint-paid"
	if lazy {
		name = "mint-settled-unpolled"
	}
	return scenario{name: name, family: "mint", setup: func(h *Hist) (func(mode), func(), func(string, string)) {
		q := h.OpMintQuote(mode{}, 21, false, false, true)
		h.EnvSettle(q)
		if !lazy {
			h.OpMintState(mode{}, q, false)
		}
		outs := h.freshOutputs(cashu.AmountSplit(21))
		target := func(m mode) { h.OpMint(m, q, outs, 0, false) }
		var retry []outSpec
		follow := func() {
			h.OpMintState(mode{}, q, false)
			h.OpRestore(mode{}, bsOf(outs), 0)
			h.OpMint(mode{}, q, outs, 0, false)
			retry = h.freshOutputs(cashu.AmountSplit(21))
			h.OpMint(mode{}, q, retry, 0, false)
			h.OpMint(mode{}, q, h.freshOutputs(cashu.AmountSplit(21)), 0, false) // a third attempt must never add value
			h.OpRestore(mode{}, bsOf(outs), 0)
			h.OpMintState(mode{}, q, false)
			h.OpBalance(mode{})
		}
		judge := func(kind, at string) {
			if !h.allSigned(outs) && !h.allSigned(retry) {
				stranded(h, "mint", kind, at, "invoice-paid-no-signatures-obtainable")
			}
			v := h.view()
			if v.issued > 21 {
				h.sink.Violate("issued-more-than-paid", fmt.Sprintf("one payment of 21 sat, %d sat of signatures stored", v.issued), LL(h.items).String(), nil)
			}
		}
		return target, follow, judge
	}}
}

// pay: scripted answer of the pay call; look: scripted answers of the lookups that follow (inside the melt and in the follow-up polls)
func scMelt(pay int, look []int, internal bool) scenario {
	name := fmt.Sprintf("melt-pay%d-look%v", pay, look)
	if internal {
		name = "melt-internal"
	}
	return scenario{name: name, family: map[bool]string{false: "melt", true: "melt-internal"}[internal], setup: func(h *Hist) (func(mode), func(), func(string, string)) {
		h.fundAmount(64)
		var q *hMeltQ
		var own *hMintQ
		if internal {
			own = h.OpMintQuote(mode{}, 32, false, false, true)
			q = h.OpMeltQuote(mode{}, 0, own, 0, true, true, nil)
		} else {
			q = h.OpMeltQuote(mode{}, 32000, nil, 0, true, true, nil)
			h.ScriptPay(q, pay, 7)
			for _, k := range look {
				h.ScriptLook(q, k, 8)
			}
		}
		ins := h.honestIns(1)
		target := func(m mode) {
			h.markUncertain(ins)
			q.inputs = nil
			for _, i := range ins {
				q.inputs = append(q.inputs, i.sec.h)
			}
			h.OpMelt(m, q, ins, false)
		}
		follow := func() {
			h.OpCheck(mode{}, secsOf(ins), 0)
			h.OpMeltState(mode{}, q, false)
			h.OpMelt(mode{}, q, ins, false)
			h.OpSwap(mode{}, ins, h.honestSwapOutputs(ins))
			h.OpMeltState(mode{}, q, false)
			h.OpCheck(mode{}, secsOf(ins), 0)
			if own != nil {
				h.OpMintState(mode{}, own, false)
				h.OpMint(mode{}, own, h.freshOutputs(cashu.AmountSplit(32)), 0, false)
			}
			h.OpBalance(mode{})
		}
		judge := func(kind, at string) {
			lq, err := h.wdb.inner.GetMeltQuote(q.id)
			if err != nil {
				return
			}
			locked := false
			for _, i := range ins {
				locked = locked || h.isPending(i.sec)
			}
			if locked && lq.State != nut05.Pending {
				stranded(h, "melt", kind, at, "inputs-locked-quote-not-pending")
			}
			paidLN := false
			for _, c := range h.tm.LN.PayCalls {
				if c.Hash == q.hash && h.tm.LN.succeeded[c.Hash] {
					paidLN = true
				}
			}
			if paidLN && lq.State == nut05.Unpaid {
				stranded(h, "melt", kind, at, "invoice-paid-quote-unpaid")
			}
			if internal && own != nil {
				mq, err := h.wdb.inner.GetMintQuote(own.id)
				spent := h.isSpent(ins[0].sec)
				if err == nil && spent && mintStateNum(mq.State) == 0 && len(h.tm.LN.PayCalls) == 0 {
					stranded(h, "melt-internal", kind, at, "inputs-spent-own-invoice-unpaid")
				}
			}
		}
		return target, follow, judge
	}}
}

// a melt left PENDING, resolved later by a poll (via: 0 quote poll, 1 state check) whose lookup answers with kind
func scResolve(kind int, via int) scenario {
	return scenario{name: fmt.Sprintf("resolve-look%d-via%d", kind, via), family: "resolve", setup: func(h *Hist) (func(mode), func(), func(string, string)) {
		h.fundAmount(64)
		q := h.OpMeltQuote(mode{}, 16000, nil, 0, true, true, nil)
		h.ScriptPay(q, 2, 0)
		ins := h.honestIns(1)
		h.OpMelt(mode{}, q, ins, false)
		h.ScriptLook(q, kind, 9)
		h.ScriptLook(q, kind, 9)
		h.ScriptLook(q, kind, 9)
		target := func(m mode) {
			h.markUncertain(ins)
			if via == 0 {
				h.OpMeltState(m, q, false)
			} else {
				h.OpCheck(m, secsOf(ins), 0)
			}
		}
		follow := func() {
			h.OpMeltState(mode{}, q, false)
			h.OpCheck(mode{}, secsOf(ins), 0)
			h.OpSwap(mode{}, ins, h.honestSwapOutputs(ins))
			h.OpMeltState(mode{}, q, false)
			h.OpBalance(mode{})
		}
		judge := func(kindS, at string) {
			lq, err := h.wdb.inner.GetMeltQuote(q.id)
			if err != nil {
				return
			}
			if h.isPending(ins[0].sec) && lq.State != nut05.Pending {
				stranded(h, "resolve", kindS, at, "inputs-locked-quote-not-pending")
			}
			if kind == 0 && lq.State == nut05.Paid && !h.isSpent(ins[0].sec) {
				stranded(h, "resolve", kindS, at, "quote-paid-inputs-not-spent")
			}
		}
		return target, follow, judge
	}}
}

func scRotate() scenario {
	return scenario{name: "rotate", family: "rotate", setup: func(h *Hist) (func(mode), func(), func(string, string)) {
		h.fundAmount(8)
		target := func(m mode) { h.OpRotate(m, 100) }
		follow := func() {
			if h.dead {
				return
			}
			ins := h.honestIns(1)
			h.OpSwap(mode{}, ins, h.honestSwapOutputs(ins))
			h.fundAmount(4)
			h.OpBalance(mode{})
		}
		judge := func(kind, at string) {
			if h.dead {
				h.sink.Violate(fmt.Sprintf("mint-cannot-start:rotate:%s-at:%s", kind, at),
					"after the cut the mint does not load again from its data directory", LL(h.items).String(), nil)
			}
		}
		return target, follow, judge
	}}
}

func scQuotes() scenario {
	return scenario{name: "quotes", family: "mintquote", setup: func(h *Hist) (func(mode), func(), func(string, string)) {
		h.fundAmount(8)
		var mq *hMintQ
		target := func(m mode) { mq = h.OpMintQuote(m, 5, false, false, true) }
		follow := func() {
			if mq != nil {
				h.EnvSettle(mq)
				h.OpMintState(mode{}, mq, false)
				h.OpMint(mode{}, mq, h.freshOutputs(cashu.AmountSplit(5)), 0, false)
			}
			h.OpMeltQuote(mode{}, 3000, nil, 0, true, true, nil)
			h.OpBalance(mode{})
		}
		return target, follow, func(string, string) {}
	}}
}

func scMeltQuote() scenario {
	return scenario{name: "meltquote", family: "meltquote", setup: func(h *Hist) (func(mode), func(), func(string, string)) {
		h.fundAmount(8)
		var q *hMeltQ
		target := func(m mode) { q = h.OpMeltQuote(m, 3000, nil, 0, true, true, nil) }
		follow := func() {
			if q != nil {
				h.OpMelt(mode{}, q, h.honestIns(2), false)
				h.OpMeltState(mode{}, q, false)
			}
			h.OpBalance(mode{})
		}
		return target, follow, func(string, string) {}
	}}
}

// an MPP melt quote for part of the mint's own, unpaid invoice must be refused - also when the lookup of the mint quote fails
func scMeltQuoteOwnMpp() scenario {
	return scenario{name: "meltquote-own-mpp", family: "meltquote", setup: func(h *Hist) (func(mode), func(), func(string, string)) {
		h.fundAmount(8)
		own := h.OpMintQuote(mode{}, 64, false, false, true)
		var q *hMeltQ
		target := func(m mode) {
			if own != nil {
				q = h.OpMeltQuote(m, 0, own, 2000, true, true, nil)
			}
		}
		follow := func() {
			if q != nil && own != nil {
				h.OpMelt(mode{}, q, h.honestIns(1), false)
				h.OpMeltState(mode{}, q, false)
				h.OpMintState(mode{}, own, false)
				h.OpMint(mode{}, own, h.freshOutputs(cashu.AmountSplit(64)), 0, false)
			}
			h.OpBalance(mode{})
		}
		return target, follow, func(string, string) {}
	}}
}

// requests that only read, poll a mint quote, or restart: cut and faulted like the others (Coq: CutFrames.v)
func scQuery(which string) scenario {
	return scenario{name: "query-" + which, family: "query", setup: func(h *Hist) (func(mode), func(), func(string, string)) {
		h.fundAmount(8)
		q2 := h.OpMintQuote(mode{}, 5, false, false, true)
		if q2 != nil {
			h.EnvSettle(q2)
		}
		target := func(m mode) {
			switch which {
			case "mintstate":
				if q2 != nil {
					h.OpMintState(m, q2, false)
				}
			case "watcher":
				if q2 != nil {
					h.OpWatcher(m, q2)
				}
			case "restore":
				var bs []*hB
				for _, b := range h.bs {
					if len(bs) < 3 {
						bs = append(bs, b)
					}
				}
				sort.Slice(bs, func(i, j int) bool { return bs[i].h < bs[j].h })
				h.OpRestore(m, bs, 1)
			case "balance":
				h.OpBalance(m)
			case "info":
				h.OpInfo(m)
			}
		}
		follow := func() {
			if q2 != nil {
				h.OpMintState(mode{}, q2, false)
				h.OpMint(mode{}, q2, h.freshOutputs(cashu.AmountSplit(5)), 0, false)
			}
			ins := h.honestIns(1)
			h.OpSwap(mode{}, ins, h.honestSwapOutputs(ins))
			h.OpBalance(mode{})
		}
		return target, follow, func(string, string) {}
	}}
}

func cutScenarios(tier string) []scenario {
	l := []scenario{scSwap(0), scSwap(1000), scMint(false), scMint(true),
		scMelt(0, nil, false), scMelt(2, []int{0}, false), scMelt(1, []int{1}, false), scMelt(3, []int{4}, false),
		scMelt(3, []int{2, 0}, false), scMelt(1, []int{0}, false), scMelt(0, nil, true),
		scResolve(0, 0), scResolve(1, 0), scResolve(0, 1), scResolve(1, 1), scRotate(), scQuotes(), scMeltQuote(), scMeltQuoteOwnMpp(),
		scQuery("mintstate"), scQuery("watcher"), scQuery("restore"), scQuery("balance"), scQuery("info")}
	if tier == "thorough" {
		for _, p := range []int{1, 3} {
			for _, a := range []int{0, 1, 2, 3, 4} {
				for _, b := range []int{0, 1, 4} {
					l = append(l, scMelt(p, []int{a, b}, false))
				}
			}
		}
		l = append(l, scResolve(4, 0), scResolve(4, 1), scResolve(2, 0), scResolve(3, 1))
	}
	return l
}

func streamCuts(sink *Sink, rng *rand.Rand, tier string, scratch string) {
	start := time.Now()
	seed0 := rng.Int63()
	run := func(sc scenario, kind int, k int) (n int, log []string) {
		cfg := cfgT{feePct: 2, fee0: 0}
		if strings.HasSuffix(sc.name, "fee1000") {
			cfg.fee0 = 1000
		}
		if strings.HasSuffix(sc.name, "-mpp") {
			cfg.mpp = true
		}
		h := NewHist(sink, rand.New(rand.NewSource(seed0)), scratch, cfg, 1, "C07")
		h.cuts = true
		target, follow, judge := sc.setup(h)
		kindS, at := "none", "-"
		switch kind {
		case 0:
			target(mode{})
		case 1:
			target(mode{kind: 1, crashAt: k})
			kindS = "crash"
		case 2:
			target(mode{kind: 2, faults: []int{k}})
			kindS = "fault"
		}
		log = h.lastLog
		if kind != 0 && k < len(log) {
			at = log[k]
		}
		if kind != 0 {
			h.sigSuffix = fmt.Sprintf(":%s:%s-at:%s", sc.family, kindS, at)
		}
		if kind == 1 {
			h.OpRestart(cfg.fee0, false)
		}
		if !h.dead {
			follow()
		}
		judge(kindS, at)
		h.storeConservation("")
		sink.Stat("scenario=" + sc.name)
		sink.Stat("cut=" + kindS)
		if at != "-" {
			sink.Stat("cut-at=" + at)
		}
		h.Finish(kind != 0)
		return len(log), log
	}
	for _, sc := range cutScenarios(tier) {
		n, log := run(sc, 0, 0)
		for k := 0; k < n; k++ {
			run(sc, 1, k)
			if !strings.HasPrefix(log[k], "LN.") {
				run(sc, 2, k)
			}
		}
	}
	sink.Close("every scenario (swap, mint on a polled / unpolled paid quote, melt with each scripted pay and lookup answer, internal settlement, "+
		"pending-melt resolution through poll and state check, keyset rotation, quote requests) is run once to completion and then again with the process "+
		"killed before its k-th storage/Lightning call, for every k, and with a storage error injected at its k-th storage call, for every k; each is followed by "+
		"a restart (crash) and by replays, restores, re-spends and polls; non-trivial = a cut or fault was applied; distinct by abstract history", true, start)
}

// ---------------------------------------------------------------- C05: every script of backend answers

func streamScripts(sink *Sink, rng *rand.Rand, tier string, scratch string) {
	start := time.Now()
	maxLook := 2
	if tier == "thorough" {
		maxLook = 3
	}
	payKinds := []int{0, 1, 2, 3}
	lookKinds := []int{0, 1, 2, 3, 4}
	var scripts [][]int
	var gen func(cur []int, depth int)
	gen = func(cur []int, depth int) {
		scripts = append(scripts, append([]int{}, cur...))
		if depth == maxLook {
			return
		}
		for _, k := range lookKinds {
			gen(append(cur, k), depth+1)
		}
	}
	gen(nil, 0)
	seed0 := rng.Int63()
	for _, mpp := range []bool{false, true} {
		for _, pay := range payKinds {
			for _, looks := range scripts {
				// routes: which resolver consumes each lookup after the melt: 0 quote poll, 1 state check, 2 another melt attempt
				for route := 0; route < 3; route++ {
					if len(looks) == 0 && route > 0 {
						continue
					}
					cfg := cfgT{feePct: 1, fee0: 100, mpp: mpp}
					h := NewHist(sink, rand.New(rand.NewSource(seed0)), scratch, cfg, 1, "C05")
					h.fundAmount(64)
					var part uint64
					msat := uint64(20000)
					if mpp {
						part, msat = 20000, 25000
					}
					q := h.OpMeltQuote(mode{}, msat, nil, part, true, true, nil)
					if q == nil {
						h.Finish(false)
						continue
					}
					h.ScriptPay(q, pay, 7)
					for i, k := range looks {
						h.ScriptLook(q, k, int64(8+i))
					}
					ins := h.honestIns(2)
					h.OpMelt(mode{}, q, ins, false)
					h.judgeMelt(q, ins)
					for range looks {
						switch route {
						case 0:
							h.OpMeltState(mode{}, q, false)
						case 1:
							h.OpCheck(mode{}, secsOf(ins), 0)
						default:
							h.OpMelt(mode{}, q, ins, false)
							h.OpMeltState(mode{}, q, false)
						}
						h.judgeMelt(q, ins)
					}
					// follow-up: are the inputs usable elsewhere exactly when they were released?
					h.OpSwap(mode{}, ins, h.honestSwapOutputs(ins))
					h.OpCheck(mode{}, secsOf(ins), 0)
					h.judgeMelt(q, ins)
					sink.Stat(fmt.Sprintf("pay=%d", pay))
					sink.Stat(fmt.Sprintf("lookups=%d", len(looks)))
					sink.Stat(fmt.Sprintf("route=%d", route))
					h.Finish(pay != 0 || len(looks) > 0)
				}
			}
		}
	}
	sink.Close("every script of backend answers: the pay call answering success/failed/pending/transport error, followed by every sequence of status-lookup answers "+
		"(success, failed, pending, error, not-found) up to the tier's length, resolved through quote polls, proof-state checks or repeated melt attempts, plain and MPP; "+
		"non-trivial = any answer other than an immediate success", true, start)
}

// judgeMelt evaluates the decision table of C05 against the scripted backend's own record of what it answered.
func (h *Hist) judgeMelt(q *hMeltQ, ins []inSpec) {
	lq, err := h.wdb.inner.GetMeltQuote(q.id)
	if err != nil {
		return
	}
	ln := h.tm.LN
	called := false
	for _, c := range ln.PayCalls {
		if c.Hash == q.hash {
			called = true
		}
	}
	spent, pending := true, true
	for _, i := range ins {
		spent = spent && h.isSpent(i.sec)
		pending = pending && h.isPending(i.sec)
	}
	viol := func(sig, detail string) {
		h.sink.Violate("melt-outcome:"+sig, detail, LL(h.items).String(), nil)
	}
	switch lq.State {
	case nut05.Paid:
		if !ln.succeeded[q.hash] {
			viol("paid-without-success-answer", "the quote is PAID although the backend never reported success")
		}
		if !spent {
			viol("paid-inputs-not-spent", "the quote is PAID but its inputs are not SPENT")
		}
		if lq.Preimage != ln.successPreimage[q.hash] {
			viol("wrong-preimage", "the stored preimage is not the one the backend reported")
		}
	case nut05.Pending:
		if !pending {
			viol("pending-inputs-not-locked", "the quote is PENDING but its inputs are not locked")
		}
		if !called {
			viol("pending-without-payment", "the quote is PENDING although no payment was attempted")
		}
	case nut05.Unpaid:
		if called && !ln.refused[q.hash] {
			viol("released-on-ambiguous-answer", "the quote is UNPAID and its inputs released although the backend never reported a definitive failure or not-found")
		}
		respent := false
		for _, i := range ins {
			respent = respent || i.sec.consumed > 0 // released and legitimately spent elsewhere afterwards
		}
		if spent && !respent {
			viol("unpaid-inputs-spent", "the quote is UNPAID but its inputs are SPENT")
		}
	}
	if ln.lastAnswer[q.hash] == 0 && called && lq.State != nut05.Paid && !ln.refused[q.hash] {
		viol("success-not-adopted", "the backend's last answer reported success but the quote is not PAID")
	}
}

// ---------------------------------------------------------------- C04: single-field mutations of valid proofs

func streamMutations(sink *Sink, rng *rand.Rand, tier string, scratch string) {
	start := time.Now()
	rounds := 6
	if tier == "thorough" {
		rounds = 16
	}
	for r := 0; r < rounds; r++ {
		fees := []uint{0, 100, 1000}
		cfg := cfgT{feePct: 1, fee0: fees[rng.Intn(3)]}
		h := NewHist(sink, rng, scratch, cfg, 1, "C04")
		// proofs on up to three keysets
		h.fundAmount(127)
		if rng.Intn(2) == 0 {
			h.OpRotate(mode{}, fees[rng.Intn(3)])
			h.fundAmount(85)
			if rng.Intn(2) == 0 {
				h.OpRestart(fees[rng.Intn(3)], true)
				h.fundAmount(42)
			}
		}
		denoms := []uint64{1, 2, 4, 8, 16, 32, 64, 128, 1 << 20, 1 << 59}
		// an untouched proof to accompany a mutated one: preferably one of the same keyset and denomination as the
		// proof the mutation started from (whatever the verifier remembers from the neighbour must not help)
		partner := func(of *hSecret, not *hSecret) *hSecret {
			var any *hSecret
			for _, o := range h.spendable() {
				if o == of || o == not {
					continue
				}
				if o.ks == of.ks && o.amount == of.amount {
					return o
				}
				if any == nil {
					any = o
				}
			}
			return any
		}
		try := func(i inSpec, what string) {
			h.nontrivial = true
			sink.Stat("mutation=" + what)
			// the mutated proof alone to a swap and to a melt; and together with an untouched honest one, in both orders, to a swap
			outs := h.freshOutputs([]uint64{1})
			h.OpSwap(mode{}, []inSpec{i}, outs)
			if q := h.OpMeltQuote(mode{}, 1000, nil, 0, true, true, nil); q != nil {
				h.OpMelt(mode{}, q, []inSpec{i}, false)
			}
			if o := partner(i.sec, i.cSec); o != nil {
				h.OpSwap(mode{}, []inSpec{h.honest(o), i}, h.freshOutputs([]uint64{1}))
				if o2 := partner(i.sec, i.cSec); o2 != nil {
					h.OpSwap(mode{}, []inSpec{i, h.honest(o2)}, h.freshOutputs([]uint64{1}))
				}
			}
		}
		h.fundAmount(63)
		sp := h.spendable()
		for n, s := range sp {
			if (n >= 4 && tier != "thorough") || n >= 8 {
				break
			}
			base := h.honest(s)
			// the genuine proof first passes verification in requests that do not spend it (a swap refused for its outputs,
			// a melt whose payment fails): anything remembered from those must not help a mutated copy later
			h.OpSwap(mode{}, []inSpec{base}, []outSpec{{b: h.newB(h.newSecret(), 1, h.activeHandle()), amount: 1, ks: h.activeHandle(), point: false}})
			if q := h.OpMeltQuote(mode{}, 1000, nil, 0, true, true, nil); q != nil && s.amount >= 2 {
				h.ScriptPay(q, 1, 0)
				h.ScriptLook(q, 1, 0)
				h.OpMelt(mode{}, q, []inSpec{base}, false)
			}
			// amount -> every other denomination and some non-denominations (with the original C)
			for _, d := range denoms {
				if d != s.amount {
					m := base
					m.amount = d
					try(m, "amount")
				}
			}
			for _, d := range []uint64{0, 3, s.amount + 1, (1 << 63) + 5} {
				m := base
				m.amount = d
				try(m, "amount-not-a-key")
			}
			// keyset id -> every other known keyset and an unknown one
			for ks := int64(0); ks < int64(len(h.tm.Order)); ks++ {
				if ks != s.ks {
					m := base
					m.ks = ks
					try(m, "keyset")
				}
			}
			m := base
			m.ks = -7
			try(m, "keyset-unknown")
			// C of another proof / the negated C (parity byte flipped) / another point / not a point
			for _, o := range sp {
				if o != s {
					m := base
					m.cSec, m.cKs, m.cAmt = o, o.ks, o.amount
					try(m, "C-of-another-proof")
					break
				}
			}
			// two proofs of one request with their Cs exchanged (the sum of the Cs is unchanged), to a swap and to a melt
			if o := partner(s, nil); o != nil && o.ks == s.ks && o.amount == s.amount {
				a, b := base, h.honest(o)
				a.cSec, b.cSec = o, s
				sink.Stat("mutation=Cs-exchanged")
				h.OpSwap(mode{}, []inSpec{a, b}, h.freshOutputs([]uint64{1}))
				if q := h.OpMeltQuote(mode{}, 1000, nil, 0, true, true, nil); q != nil {
					h.OpMelt(mode{}, q, []inSpec{a, b}, false)
				}
				// a neighbour of the same denomination whose claimed amount is no key of the keyset at all
				for _, d := range []uint64{1023, 1 << 60} {
					m := h.honest(o)
					m.amount = d
					sink.Stat("mutation=amount-not-a-key-after-same-denomination")
					h.OpSwap(mode{}, []inSpec{base, m}, h.freshOutputs([]uint64{1}))
					if q := h.OpMeltQuote(mode{}, 1000, nil, 0, true, true, nil); q != nil {
						h.OpMelt(mode{}, q, []inSpec{base, m}, false)
					}
				}
			}
			m = base
			m.cKind, m.cNeg = 1, true
			try(m, "C-negated")
			m = base
			m.cKind = 1
			try(m, "C-other-point")
			m = base
			m.cKind = 2
			try(m, "C-malformed")
			// secret edits: another secret under the same C, and an oversize one
			s2 := h.newSecret()
			try(inSpec{sec: s2, amount: s.amount, ks: s.ks, cKind: 1}, "secret-edited")
			s3 := h.newSecret()
			s3.secret = s.secret + strings.Repeat("x", 513)
			try(inSpec{sec: s3, amount: s.amount, ks: s.ks, cKind: 1, long: true}, "secret-oversize")
			m = base
			m.dleq = true
			h.OpSwap(mode{}, []inSpec{m}, h.honestSwapOutputs([]inSpec{m})) // attaching a DLEQ is not a mutation of validity: accepted
			sink.Stat("mutation=none(dleq attached)")
		}
		// every untouched proof is still accepted
		for _, s := range h.spendable() {
			i := h.honest(s)
			h.OpSwap(mode{}, []inSpec{i}, h.honestSwapOutputs([]inSpec{i}))
		}
		h.Finish(true)
	}
	sink.Close("for every valid proof obtained on up to three keysets: each single-field mutation (amount to every other denomination and to non-denominations, keyset id to every other / an unknown keyset, "+
		"C replaced by another point / malformed, oversize secret) is presented alone to Swap and to Melt and next to an untouched proof (before and after it) to Swap; two proofs with exchanged Cs and a non-key amount behind a proof of the same denomination likewise; then every untouched proof must still be accepted; non-trivial = at least one mutation presented", false, start)
}

func init() {
	register("c07-cuts", "C07", streamCuts)
	register("c05-scripts", "C05", streamScripts)
	register("c04-mut", "C04", streamMutations)
}
