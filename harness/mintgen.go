package main

import (
	"fmt"
	"math/rand"
	"time"

	"github.com/elnosh/gonuts/cashu"
)

// profile tunes the random history generator towards one property.
type profile struct {
	prop     string
	stream   string
	histQ    int // histories in the quick tier
	histT    int
	minOps   int
	maxOps   int
	w        map[string]int // action weights
	fees     []uint
	limits   bool
	mppProb  int // percent of histories with MPP enabled
	proj     int64
	rule     string
	pre      []func(h *Hist) // scripted preludes: the i-th one opens the i-th history of the stream (no limits configured there)
	preT     []func(h *Hist) // further preludes of the thorough tier
	preCfg   map[int]func(c *cfgT) // configuration of the i-th prelude's history (default: no limits)
}

var baseWeights = map[string]int{
	"fund": 14, "swap": 14, "swap-replay": 8, "swap-forged": 4, "swap-badout": 4, "melt": 8, "melt-replay": 4,
	"melt-internal": 2, "poll": 8, "check": 6, "restore": 3, "restart": 2, "rotate": 2, "balance": 2, "info": 1, "reconfigure": 1,
	"watcher": 2, "admin": 2, "mint-again": 3, "mint-early": 2, "mint-bad": 3, "quote-bad": 2,
}

func weightsWith(over map[string]int) map[string]int {
	w := map[string]int{}
	for k, v := range baseWeights {
		w[k] = v
	}
	for k, v := range over {
		w[k] = v
	}
	return w
}

func pickWeighted(rng *rand.Rand, w map[string]int) string {
	keys := sortedKeys(w)
	tot := 0
	for _, k := range keys {
		tot += w[k]
	}
	x := rng.Intn(tot)
	for _, k := range keys {
		x -= w[k]
		if x < 0 {
			return k
		}
	}
	return keys[0]
}

func (h *Hist) spendable() []*hSecret {
	var l []*hSecret
	for _, sh := range h.order {
		s := h.secrets[sh]
		if s.held && s.consumed == 0 && h.lockedBy(s) == nil {
			l = append(l, s)
		}
	}
	return l
}

func (h *Hist) usedOrLocked() []*hSecret {
	var l []*hSecret
	for _, sh := range h.order {
		s := h.secrets[sh]
		if s.held && (s.consumed > 0 || h.lockedBy(s) != nil) {
			l = append(l, s)
		}
	}
	return l
}

func (h *Hist) pickSome(l []*hSecret, max int) []*hSecret {
	if len(l) == 0 {
		return nil
	}
	n := 1 + h.rng.Intn(max)
	if n > len(l) {
		n = len(l)
	}
	idx := h.rng.Perm(len(l))[:n]
	var out []*hSecret
	for _, i := range idx {
		out = append(out, l[i])
	}
	return out
}

var fundAmounts = []uint64{1, 2, 3, 5, 8, 13, 21, 64, 100, 127, 255, 1000}

// fund: quote, payment, mint. Returns the quote.
func (h *Hist) actFund(pollFirst bool, withKey bool) *hMintQ {
	amount := fundAmounts[h.rng.Intn(len(fundAmounts))]
	q := h.OpMintQuote(mode{}, amount, withKey, false, true)
	if q == nil {
		return nil
	}
	h.EnvSettle(q)
	if pollFirst {
		h.OpMintState(mode{}, q, false)
	}
	outs := h.freshOutputs(cashu.AmountSplit(amount))
	sk := int64(0)
	if withKey {
		sk = 1
	}
	h.OpMint(mode{}, q, outs, sk, false)
	return q
}

func (h *Hist) honestSwapOutputs(ins []inSpec) []outSpec {
	var sum uint64
	for _, i := range ins {
		sum += i.amount
	}
	fees := h.feesFor(ins)
	if sum <= fees {
		return h.freshOutputs(nil)
	}
	return h.freshOutputs(cashu.AmountSplit(sum - fees))
}

func (h *Hist) actSwap() {
	sp := h.pickSome(h.spendable(), 3)
	if sp == nil {
		h.actFund(false, false)
		return
	}
	var ins []inSpec
	for _, s := range sp {
		ins = append(ins, h.honest(s))
	}
	h.OpSwap(mode{}, ins, h.honestSwapOutputs(ins))
}

// re-presentation of a consumed / locked secret
func (h *Hist) actSwapReplay() {
	ul := h.usedOrLocked()
	if len(ul) == 0 {
		h.actSwap()
		return
	}
	s := ul[h.rng.Intn(len(ul))]
	i := h.honest(s)
	kind := h.rng.Intn(7)
	switch kind {
	case 1:
		i.wit = h.fresh()
	case 2:
		i.dleq = true
	case 3: // other denomination, C unchanged
		i.amount = []uint64{1, 2, 4, 8, 16}[h.rng.Intn(5)]
	case 4: // other keyset id
		i.ks = int64(h.rng.Intn(len(h.tm.Order)))
	}
	ins := []inSpec{i}
	if kind == 5 { // alongside fresh honest ones
		for _, f := range h.pickSome(h.spendable(), 2) {
			ins = append(ins, h.honest(f))
		}
		h.rng.Shuffle(len(ins), func(a, b int) { ins[a], ins[b] = ins[b], ins[a] })
	}
	h.stats[fmt.Sprintf("replay-kind=%d", kind)]++
	h.nontrivial = true
	h.OpSwap(mode{}, ins, h.honestSwapOutputs(ins))
}

// duplicate inside one request (of a still spendable secret)
func (h *Hist) actSwapDup() {
	sp := h.spendable()
	if len(sp) == 0 {
		return
	}
	s := sp[h.rng.Intn(len(sp))]
	a, b := h.honest(s), h.honest(s)
	switch h.rng.Intn(3) {
	case 1:
		b.wit = h.fresh()
	case 2:
		b.dleq = true
	}
	ins := []inSpec{a, b}
	h.nontrivial = true
	h.stats["replay-kind=dup"]++
	h.OpSwap(mode{}, ins, h.freshOutputs(cashu.AmountSplit(s.amount)))
}

func (h *Hist) actSwapForged() {
	sp := h.spendable()
	var i inSpec
	if len(sp) > 0 && h.rng.Intn(4) != 0 {
		i = h.honest(sp[h.rng.Intn(len(sp))])
	} else {
		s := h.newSecret()
		i = inSpec{sec: s, amount: 4, ks: h.activeHandle(), cKind: 1}
	}
	switch h.rng.Intn(8) {
	case 0:
		i.cKind = 1
	case 1:
		i.cKind = 2
	case 2:
		i.amount = []uint64{1, 2, 4, 8, 16, 32}[h.rng.Intn(6)]
	case 3:
		i.amount = []uint64{3, 5, 7, 0, 1 << 60, 1<<63 + 1}[h.rng.Intn(6)]
	case 4:
		i.ks = -int64(1 + h.rng.Intn(6))
	case 5:
		if len(h.tm.Order) > 1 {
			i.ks = (i.ks + 1) % int64(len(h.tm.Order))
		} else {
			i.cKind = 1
		}
	case 6:
		// the C of another proof
		if len(sp) > 1 {
			o := sp[h.rng.Intn(len(sp))]
			if o != i.sec {
				i = inSpec{sec: i.sec, amount: i.amount, ks: i.ks, cKind: 1}
			}
		} else {
			i.cKind = 1
		}
	case 7:
		i.cKind = 1
	}
	h.nontrivial = true
	h.OpSwap(mode{}, []inSpec{i}, h.honestSwapOutputs([]inSpec{i}))
}

func (h *Hist) actSwapBadOut() {
	sp := h.pickSome(h.spendable(), 2)
	if sp == nil {
		return
	}
	var ins []inSpec
	var sum uint64
	for _, s := range sp {
		ins = append(ins, h.honest(s))
		sum += s.amount
	}
	outs := h.honestSwapOutputs(ins)
	switch h.rng.Intn(11) {
	case 0: // outputs exceed inputs
		outs = h.freshOutputs(cashu.AmountSplit(sum + 1))
	case 1: // overflowing amounts
		outs = h.freshOutputs([]uint64{1 << 63, 1 << 63, sum})
	case 2: // the same B_ twice (different amounts)
		if len(outs) > 0 {
			d := outs[0]
			d.amount = d.amount * 2
			outs = append(outs, d)
		}
	case 3: // a B_ the mint signed before
		for _, b := range h.bs {
			if b.signed {
				outs = []outSpec{{b: b, amount: sum, ks: h.activeHandle(), point: true}}
				break
			}
		}
	case 4: // inactive or unknown keyset, at any position among the outputs
		if len(outs) > 0 {
			k := h.rng.Intn(len(outs))
			if len(h.tm.Order) > 1 && h.rng.Intn(3) != 0 {
				outs[k].ks = (h.activeHandle() + 1 + int64(h.rng.Intn(len(h.tm.Order)-1))) % int64(len(h.tm.Order))
			} else {
				outs[k].ks = []int64{-2, -4, -5, -6}[h.rng.Intn(4)]
			}
		}
	case 5: // amount that is not a key
		if len(outs) > 0 {
			outs[h.rng.Intn(len(outs))].amount = 3
		}
	case 6: // B_ not a point
		if len(outs) > 0 {
			outs[h.rng.Intn(len(outs))].point = false
		}
	case 7: // no outputs at all
		outs = nil
	case 8: // valid denominations whose sum is just below 2^64: adding the input fees to it wraps around
		k := uint64(1)
		if f := h.feesFor(ins); f > 0 {
			k = []uint64{1, f, f + 1}[h.rng.Intn(3)]
		}
		outs = h.freshOutputs(belowTwo64(k))
	case 10: // outputs worth exactly the inputs: the input fee is not paid
		if h.feesFor(ins) > 0 {
			outs = h.freshOutputs(cashu.AmountSplit(sum))
		}
	case 9: // an output spelled a second time in upper-case hex: another string for the same point (the inputs pay for both)
		if len(outs) > 0 {
			small := outs[0]
			for _, o := range outs {
				if o.amount < small.amount {
					small = o
				}
			}
			if fees := h.feesFor(ins); sum >= fees && 2*small.amount <= sum-fees {
				t := small
				t.b = h.twinB(small.b)
				outs = []outSpec{small, t}
			}
		}
	}
	h.OpSwap(mode{}, ins, outs)
}

// belowTwo64 returns keyset denominations (powers of two up to 2^59) that sum to 2^64 - k, for 1 <= k <= 2^59.
func belowTwo64(k uint64) []uint64 {
	var l []uint64
	for i := 0; i < 31; i++ {
		l = append(l, 1<<59)
	}
	return append(l, cashu.AmountSplit((1<<59)-k)...)
}

// overTwo64 returns keyset denominations that sum to 2^64 + r.
func overTwo64(r uint64) []uint64 {
	var l []uint64
	for i := 0; i < 32; i++ {
		l = append(l, 1<<59)
	}
	if r > 0 {
		l = append(l, cashu.AmountSplit(r)...)
	}
	return l
}

// actMelt: quote for an external invoice and melt with scripted Lightning answers
func (h *Hist) actMelt(script bool) *hMeltQ {
	sp := h.spendable()
	if len(sp) == 0 {
		h.actFund(false, false)
		sp = h.spendable()
		if len(sp) == 0 {
			return nil
		}
	}
	// choose inputs first, then an invoice they can pay
	ins0 := h.pickSome(sp, 3)
	var ins []inSpec
	var sum uint64
	withWitness := h.rng.Intn(3) == 0
	for _, s := range ins0 {
		i := h.honest(s)
		if withWitness {
			// the witness a proof is melted with is what state checks report while it is locked and after it is spent
			i.wit = h.fresh()
		}
		ins = append(ins, i)
		sum += s.amount
	}
	fees := h.feesFor(ins)
	var want uint64 = 1
	if sum > fees+2 {
		want = (sum - fees) * 100 / (100 + h.cfg.feePct + 1)
		if want == 0 {
			want = 1
		}
	}
	msat := want * 1000
	if h.rng.Intn(4) == 0 && want > 1 {
		msat = want*1000 - uint64(1+h.rng.Intn(999)) // sub-sat precision
	}
	var part uint64
	if h.cfg.mpp && h.rng.Intn(3) == 0 {
		part = msat
		msat = msat + uint64(1000*(1+h.rng.Intn(5)))
	}
	if h.rng.Intn(12) == 0 {
		// over-ambitious: inputs will not be enough
		msat = (sum + 5) * 1000
		part = 0
	}
	q := h.OpMeltQuote(mode{}, msat, nil, part, true, true, nil)
	if q == nil {
		return nil
	}
	if script {
		h.scriptFor(q)
	}
	if f := h.between; f != nil {
		// the operator reconfigures the mint between the quote and the melt: the quote stays what it was
		h.between = nil
		f()
	}
	h.OpMelt(mode{}, q, ins, false)
	return q
}

// scriptFor scripts the backend's answers for q: pay answer, then lookups
func (h *Hist) scriptFor(q *hMeltQ) {
	kinds := []int{0, 0, 1, 2, 2, 3}
	k := kinds[h.rng.Intn(len(kinds))]
	h.ScriptPay(q, k, h.fresh())
	n := h.rng.Intn(4)
	for i := 0; i < n; i++ {
		lk := []int{0, 1, 2, 3, 4}[h.rng.Intn(5)]
		h.ScriptLook(q, lk, h.fresh())
	}
}

func (h *Hist) actMeltReplay() {
	ul := h.usedOrLocked()
	var lqs []*hMeltQ
	for _, qh := range sortedInt64(keysOf(h.lq)) {
		lqs = append(lqs, h.lq[qh])
	}
	switch h.rng.Intn(4) {
	case 0: // used or locked input against a fresh quote
		if len(ul) == 0 {
			return
		}
		s := ul[h.rng.Intn(len(ul))]
		q := h.OpMeltQuote(mode{}, 1000, nil, 0, true, true, nil)
		if q != nil {
			h.nontrivial = true
			h.OpMelt(mode{}, q, []inSpec{h.honest(s)}, false)
		}
	case 1: // melt again on an existing quote (paid / pending / unpaid)
		if len(lqs) == 0 {
			return
		}
		q := lqs[h.rng.Intn(len(lqs))]
		sp := h.pickSome(h.spendable(), 2)
		var ins []inSpec
		for _, s := range sp {
			ins = append(ins, h.honest(s))
		}
		h.OpMelt(mode{}, q, ins, false)
	case 2: // a second quote for the same invoice
		if len(lqs) == 0 {
			return
		}
		h.OpMeltQuote(mode{}, 0, nil, 0, true, true, lqs[h.rng.Intn(len(lqs))])
	case 3: // unknown quote
		sp := h.pickSome(h.spendable(), 1)
		var ins []inSpec
		for _, s := range sp {
			ins = append(ins, h.honest(s))
		}
		h.OpMelt(mode{}, &hMeltQ{}, ins, true)
	}
}

func (h *Hist) actMeltInternal() {
	// a mint quote of this mint paid by melting ecash of this mint: a fresh quote, or one that already exists
	// in whatever state it is in (unpaid, paid, issued), with and without an MPP option
	amount := []uint64{1, 2, 4, 8, 16}[h.rng.Intn(5)]
	var mq *hMintQ
	if keys := sortedInt64(keysOf(h.mq)); len(keys) > 0 && h.rng.Intn(3) == 0 {
		mq = h.mq[keys[h.rng.Intn(len(keys))]]
		amount = mq.amount
	} else {
		mq = h.OpMintQuote(mode{}, amount, false, false, true)
		if mq != nil && h.rng.Intn(4) == 0 {
			// paid from outside (and possibly issued) before anybody melts into it
			h.EnvSettle(mq)
			h.OpMintState(mode{}, mq, false)
			if h.rng.Intn(2) == 0 {
				h.OpMint(mode{}, mq, h.freshOutputs(cashu.AmountSplit(amount)), 0, false)
			}
		}
	}
	if mq == nil {
		return
	}
	var part uint64
	if h.cfg.mpp && h.rng.Intn(2) == 0 && amount > 1 {
		part = 1000 * uint64(1+h.rng.Intn(int(amount-1)))
	}
	var forgedMsat uint64
	if h.rng.Intn(4) == 0 {
		// somebody else's invoice with the payment hash of the mint's own invoice, of a smaller, equal or larger amount
		forgedMsat = 1000 * uint64(1+h.rng.Intn(int(amount)+2))
		if h.rng.Intn(3) == 0 {
			forgedMsat = 1000
		}
	}
	lq := h.OpMeltQuote(mode{}, forgedMsat, mq, part, true, true, nil)
	if lq == nil {
		return
	}
	if lq.forged {
		amount = lq.amount + lq.fee
		if h.rng.Intn(2) == 0 {
			h.ScriptPay(lq, 0, h.fresh())
		}
	}
	sp := h.spendable()
	var ins []inSpec
	var sum uint64
	for _, s := range sp {
		if sum >= amount+h.feesFor(ins)+1 {
			break
		}
		ins = append(ins, h.honest(s))
		sum += s.amount
	}
	h.nontrivial = true
	h.OpMelt(mode{}, lq, ins, false)
	if h.rng.Intn(2) == 0 {
		h.OpMint(mode{}, mq, h.freshOutputs(cashu.AmountSplit(amount)), 0, false)
	}
}

func (h *Hist) actPoll() {
	var lqs []*hMeltQ
	for _, qh := range sortedInt64(keysOf(h.lq)) {
		lqs = append(lqs, h.lq[qh])
	}
	var mqs []*hMintQ
	for _, qh := range sortedInt64(keysOf(h.mq)) {
		mqs = append(mqs, h.mq[qh])
	}
	switch {
	case len(lqs) > 0 && h.rng.Intn(3) != 0:
		q := lqs[h.rng.Intn(len(lqs))]
		if h.rng.Intn(3) == 0 {
			h.ScriptLook(q, []int{0, 1, 2, 3, 4}[h.rng.Intn(5)], h.fresh())
		}
		h.OpMeltState(mode{}, q, h.rng.Intn(15) == 0)
	case len(mqs) > 0:
		h.OpMintState(mode{}, mqs[h.rng.Intn(len(mqs))], h.rng.Intn(15) == 0)
	}
}

func (h *Hist) actCheck() {
	var all []*hSecret
	for _, sh := range h.order {
		all = append(all, h.secrets[sh])
	}
	secs := h.pickSome(all, 6)
	// at most one still-locked quote per query: Go visits pending quotes in map order
	seen := map[*hMeltQ]bool{}
	var keep []*hSecret
	for _, s := range secs {
		if q := h.lockedBy(s); q != nil {
			if len(seen) > 0 && !seen[q] {
				continue
			}
			seen[q] = true
		}
		keep = append(keep, s)
	}
	if len(keep) > 1 && h.rng.Intn(4) == 0 {
		keep = append(keep, keep[0]) // repeated Y
	}
	h.OpCheck(mode{}, keep, h.rng.Intn(3))
}

func (h *Hist) actRestore() {
	var all []*hB
	for _, bh := range sortedInt64(keysOf(h.bs)) {
		all = append(all, h.bs[bh])
	}
	var pick []*hB
	for _, b := range all {
		if h.rng.Intn(4) == 0 && len(pick) < 8 {
			pick = append(pick, b)
		}
	}
	h.rng.Shuffle(len(pick), func(a, b int) { pick[a], pick[b] = pick[b], pick[a] })
	if len(pick) > 0 && h.rng.Intn(4) == 0 {
		pick = append(pick, pick[0])
	}
	h.OpRestore(mode{}, pick, h.rng.Intn(3))
}

func (h *Hist) actMintAgain() {
	var mqs []*hMintQ
	for _, qh := range sortedInt64(keysOf(h.mq)) {
		mqs = append(mqs, h.mq[qh])
	}
	if len(mqs) == 0 {
		return
	}
	q := mqs[h.rng.Intn(len(mqs))]
	sk := int64(0)
	if q.key != nil {
		sk = []int64{1, 1, 0, 2}[h.rng.Intn(4)]
	}
	h.nontrivial = true
	h.OpMint(mode{}, q, h.freshOutputs(cashu.AmountSplit(q.amount)), sk, false)
}

func (h *Hist) actMintEarly() {
	amount := fundAmounts[h.rng.Intn(len(fundAmounts))]
	q := h.OpMintQuote(mode{}, amount, h.rng.Intn(3) == 0, false, true)
	if q == nil {
		return
	}
	sk := int64(0)
	if q.key != nil {
		sk = 1
	}
	h.OpMint(mode{}, q, h.freshOutputs(cashu.AmountSplit(amount)), sk, false) // not paid yet
	if h.rng.Intn(2) == 0 {
		h.EnvSettle(q)
		if h.rng.Intn(2) == 0 {
			h.OpWatcher(mode{}, q)
		}
		h.OpMint(mode{}, q, h.freshOutputs(cashu.AmountSplit(amount)), sk, false)
	}
}

func (h *Hist) actMintBad() {
	amount := fundAmounts[h.rng.Intn(len(fundAmounts))]
	withKey := h.rng.Intn(2) == 0
	q := h.OpMintQuote(mode{}, amount, withKey, false, true)
	if q == nil {
		return
	}
	h.EnvSettle(q)
	outs := h.freshOutputs(cashu.AmountSplit(amount))
	sk := int64(0)
	if withKey {
		sk = 1
	}
	switch h.rng.Intn(10) {
	case 0:
		outs = h.freshOutputs(cashu.AmountSplit(amount + 1))
	case 1:
		outs = h.freshOutputs([]uint64{1 << 63, 1 << 63})
	case 2:
		if len(outs) > 0 {
			d := outs[0]
			outs = append(outs, d)
		}
	case 3: // unknown or inactive keyset, at any position
		if len(outs) > 0 {
			k := h.rng.Intn(len(outs))
			if len(h.tm.Order) > 1 && h.rng.Intn(2) == 0 {
				outs[k].ks = (h.activeHandle() + 1 + int64(h.rng.Intn(len(h.tm.Order)-1))) % int64(len(h.tm.Order))
			} else {
				outs[k].ks = []int64{-1, -4, -5}[h.rng.Intn(3)]
			}
		}
	case 4:
		if len(outs) > 0 {
			outs[h.rng.Intn(len(outs))].point = false
		}
	case 5:
		outs = nil
	case 6:
		sk = 2
	case 7:
		sk = 0
	case 8:
		for _, b := range h.bs {
			if b.signed {
				outs = []outSpec{{b: b, amount: 1, ks: h.activeHandle(), point: true}}
				break
			}
		}
	case 9: // valid denominations whose true sum is 2^64 + r: the uint64 sum wraps to r <= the quoted amount
		outs = h.freshOutputs(overTwo64([]uint64{0, 1, amount}[h.rng.Intn(3)]))
	}
	h.nontrivial = true
	h.OpMint(mode{}, q, outs, sk, false)
	// a corrected request must still work
	good := h.freshOutputs(cashu.AmountSplit(amount))
	gs := int64(0)
	if withKey {
		gs = 1
	}
	h.OpMint(mode{}, q, good, gs, false)
}

func (h *Hist) actQuoteBad() {
	switch h.rng.Intn(7) {
	case 0:
		h.OpMintQuote(mode{}, 10, false, false, false)
	case 1:
		h.OpMintQuote(mode{}, 10, false, true, true)
	case 2:
		h.OpMintQuote(mode{}, []uint64{1 << 63, 1<<64 - 8001, 1<<63 - 1}[h.rng.Intn(3)], false, false, true)
	case 3:
		h.OpMeltQuote(mode{}, 5000, nil, 0, false, true, nil)
	case 4:
		h.OpMeltQuote(mode{}, 5000, nil, 0, true, false, nil)
	case 5:
		h.OpMeltQuote(mode{}, 5000, nil, 7000, true, true, nil) // mpp part >= invoice (or mpp disabled)
	case 6:
		// an invoice for 2^64-16 (or -1016) msat: as an int64 its amount is negative, rounded up to sat as a uint64 it is 0
		msat := []uint64{18446744073709551600, 18446744073709550600}[h.rng.Intn(2)]
		if q := h.OpMeltQuote(mode{}, msat, nil, 0, true, true, nil); q != nil {
			if sp := h.spendable(); len(sp) > 0 {
				h.OpMelt(mode{}, q, []inSpec{h.honest(sp[0])}, false)
			}
		}
	}
}

func (h *Hist) actWatcher() {
	var mqs []*hMintQ
	for _, qh := range sortedInt64(keysOf(h.mq)) {
		if h.mq[qh].settled {
			mqs = append(mqs, h.mq[qh])
		}
	}
	if len(mqs) == 0 {
		return
	}
	h.nontrivial = true
	h.OpWatcher(mode{}, mqs[h.rng.Intn(len(mqs))])
}

// actOvershoot: several quotes are requested while each still fits the balance limit, then all are paid and minted
// (the limit is checked when a quote is requested, not when it is minted), then more quotes are requested
func (h *Hist) actOvershoot() {
	amounts := []uint64{9, 40, 64, 90, 100}
	var qs []*hMintQ
	n := 2 + h.rng.Intn(2)
	for i := 0; i < n; i++ {
		if q := h.OpMintQuote(mode{}, amounts[h.rng.Intn(len(amounts))], false, false, true); q != nil {
			qs = append(qs, q)
		}
	}
	for _, q := range qs {
		h.EnvSettle(q)
		h.OpMint(mode{}, q, h.freshOutputs(cashu.AmountSplit(q.amount)), 0, false)
	}
	h.nontrivial = true
	h.OpBalance(mode{})
	h.OpInfo(mode{})
	h.OpMintQuote(mode{}, amounts[h.rng.Intn(len(amounts))], false, false, true)
	h.OpMintQuote(mode{}, 1, false, false, true)
}

// actHugeTotals: two quotes of 2^62 sat each are paid and minted (8 outputs of 2^59): the keyset's issued total reaches 2^63, more
// than the SUM of the balance view can hold; then the balance is asked for in every way
func (h *Hist) actHugeTotals() {
	if h.cfg.maxMint != 0 {
		return
	}
	for i := 0; i < 2; i++ {
		// 2^54 sat is the largest power of two an invoice can carry (amount*1000 must fit 64 bits)
		q := h.OpMintQuote(mode{}, 1<<54, false, false, true)
		if q == nil {
			return
		}
		h.EnvSettle(q)
		h.OpMint(mode{}, q, h.freshOutputs([]uint64{1 << 53, 1 << 52, 1 << 52}), 0, false)
		h.OpBalance(mode{})
	}
	h.nontrivial = true
	h.OpInfo(mode{})
	h.OpAdmin(adminReq{method: "total_balance"})
	h.OpAdmin(adminReq{method: "issued_ecash"})
	h.OpMintQuote(mode{}, 1, false, false, true)
}

// actInfoCycle: info is polled, value leaves through a melt, info is polled again
func (h *Hist) actInfoCycle() {
	h.OpInfo(mode{})
	h.OpBalance(mode{})
	h.actMelt(false)
	h.OpInfo(mode{})
	h.OpMintQuote(mode{}, 1, false, false, true)
}

// actAdmin: one request to the admin RPC: the balance views (all keysets, one known or unknown keyset), the keyset list,
// a rotation with a well-formed fee or with text that is no fee or does not fit, a method that does not exist
func (h *Hist) actAdmin(fees []uint) {
	ks := func() *int64 {
		switch h.rng.Intn(3) {
		case 0:
			return nil
		case 1:
			v := int64(-7)
			return &v
		}
		v := int64(h.rng.Intn(len(h.tm.Order)))
		return &v
	}
	switch h.rng.Intn(8) {
	case 0:
		h.OpAdmin(adminReq{method: "issued_ecash", ks: ks()})
	case 1:
		h.OpAdmin(adminReq{method: "redeemed_ecash", ks: ks()})
	case 2:
		h.OpAdmin(adminReq{method: "total_balance"})
	case 3:
		h.OpAdmin(adminReq{method: "list_keysets"})
	case 4:
		f := fmt.Sprint(fees[h.rng.Intn(len(fees))])
		h.OpAdmin(adminReq{method: "rotate_keyset", fee: &f})
	case 5:
		f := []string{"-1", "abc", "", "1.5", "1e3", "007", "+7", "9223372036854775807", "9223372036854775808", "18446744073709551615", "18446744073709551616", "-9223372036854775809"}[h.rng.Intn(12)]
		h.OpAdmin(adminReq{method: "rotate_keyset", fee: &f})
	case 6:
		h.OpAdmin(adminReq{method: "rotate_keyset"})
	case 7:
		h.OpAdmin(adminReq{method: "shutdown"})
	}
	h.nontrivial = true
}

func (h *Hist) act(name string, fees []uint) {
	switch name {
	case "overshoot":
		if h.rng.Intn(4) == 0 {
			h.actHugeTotals()
		} else {
			h.actOvershoot()
		}
	case "info-cycle":
		h.actInfoCycle()
	case "fund":
		h.actFund(h.rng.Intn(2) == 0, h.rng.Intn(4) == 0)
	case "swap":
		h.actSwap()
	case "swap-replay":
		if h.rng.Intn(4) == 0 {
			h.actSwapDup()
		} else {
			h.actSwapReplay()
		}
	case "swap-forged":
		h.actSwapForged()
	case "swap-badout":
		h.actSwapBadOut()
	case "melt":
		h.actMelt(h.rng.Intn(3) != 0)
	case "melt-replay":
		h.actMeltReplay()
	case "melt-internal":
		h.actMeltInternal()
	case "poll":
		h.actPoll()
	case "check":
		h.actCheck()
	case "restore":
		h.actRestore()
	case "restart":
		h.OpRestart(fees[h.rng.Intn(len(fees))], h.rng.Intn(3) == 0)
	case "reconfigure":
		c := h.cfg
		switch h.rng.Intn(5) {
		case 4: // a melt whose quote was given under the old configuration
			c.mpp = !c.mpp
			if h.rng.Intn(2) == 0 {
				c.maxMelt = []uint64{0, 5, 20}[h.rng.Intn(3)]
			}
			h.between = func() { h.Reconfigure(c) }
			h.actMelt(h.rng.Intn(2) == 0)
			if h.between == nil {
				return
			}
			h.between = nil
		case 0:
			c.mpp = !c.mpp
		case 1:
			c.maxMint, c.maxMelt = []uint64{0, 8, 21, 100}[h.rng.Intn(4)], []uint64{0, 5, 20, 64}[h.rng.Intn(4)]
		case 2:
			c.maxBalance = []uint64{0, 50, 128, 1000}[h.rng.Intn(4)]
		case 3:
			c.mpp, c.maxMint, c.maxMelt, c.maxBalance = false, 0, 0, 0
		}
		h.Reconfigure(c)
	case "rotate":
		if h.proj != 0 && h.rng.Intn(12) == 0 {
			// a fee the keysets table cannot hold (only a library user can ask for it: the admin RPC stops at 2^63-1)
			h.OpRotate(mode{}, []uint{1 << 63, ^uint(0)}[h.rng.Intn(2)])
			h.OpRestart(fees[h.rng.Intn(len(fees))], false)
			return
		}
		h.OpRotate(mode{}, fees[h.rng.Intn(len(fees))])
	case "admin":
		h.actAdmin(fees)
	case "balance":
		h.OpBalance(mode{})
	case "info":
		h.OpInfo(mode{})
	case "watcher":
		h.actWatcher()
	case "mint-again":
		h.actMintAgain()
	case "mint-early":
		h.actMintEarly()
	case "mint-bad":
		h.actMintBad()
	case "quote-bad":
		h.actQuoteBad()
	}
}

func histStream(p profile) streamFn {
	return func(sink *Sink, rng *rand.Rand, tier string, scratch string) {
		start := time.Now()
		n := p.histQ
		if tier == "thorough" {
			n = p.histT
		} else if tier == "widen" {
			n = p.histQ * 4
		}
		if p.prop == "C02" {
			clnProbe(sink)
		}
		pre := p.pre
		if tier == "thorough" {
			pre = append(append([]func(*Hist){}, p.pre...), p.preT...)
		}
		for i := 0; i < n; i++ {
			cfg := cfgT{feePct: []uint64{0, 1, 1, 2, 5}[rng.Intn(5)], fee0: p.fees[rng.Intn(len(p.fees))]}
			if rng.Intn(100) < p.mppProb {
				cfg.mpp = true
			}
			if p.limits {
				switch rng.Intn(4) {
				case 0:
					cfg.maxBalance = []uint64{50, 100, 128, 1000}[rng.Intn(4)]
				case 1:
					cfg.maxMint = []uint64{8, 21, 100}[rng.Intn(3)]
					cfg.maxMelt = []uint64{5, 20, 64}[rng.Intn(3)]
				case 2:
					cfg.maxBalance, cfg.maxMint, cfg.maxMelt = 127, 64, 16
				}
			}
			if i < len(pre) {
				cfg.maxBalance, cfg.maxMint, cfg.maxMelt = 0, 0, 0
				if f := p.preCfg[i]; f != nil {
					f(&cfg)
				}
			}
			h := NewHist(sink, rng, scratch, cfg, p.proj, p.prop)
			h.actFund(false, false)
			if i < len(pre) {
				pre[i](h)
			}
			ops := p.minOps + rng.Intn(p.maxOps-p.minOps+1)
			for j := 0; j < ops; j++ {
				h.act(pickWeighted(rng, p.w), p.fees)
			}
			h.Finish(h.nontrivial)
		}
		sink.Close(p.rule, false, start)
	}
}

// a melt that stays pending and is settled later by a poll; then the per-keyset views and the balance (C16, C05)
func preLateSettle(h *Hist) {
	h.fundAmount(64)
	q := h.OpMeltQuote(mode{}, 16000, nil, 0, true, true, nil)
	if q == nil {
		return
	}
	h.ScriptPay(q, 2, 0)
	var ins []inSpec
	for _, s := range h.spendable() {
		if s.amount >= 32 && len(ins) == 0 {
			ins = append(ins, h.honest(s))
		}
	}
	if len(ins) == 0 {
		return
	}
	h.OpMelt(mode{}, q, ins, false)
	h.ScriptLook(q, 0, 9)
	h.OpMeltState(mode{}, q, false)
	h.OpAdmin(adminReq{method: "redeemed_ecash"})
	for k := range h.tm.Order {
		v := int64(k)
		h.OpAdmin(adminReq{method: "redeemed_ecash", ks: &v})
	}
	h.OpAdmin(adminReq{method: "issued_ecash"})
	h.OpAdmin(adminReq{method: "total_balance"})
	h.OpBalance(mode{})
	h.nontrivial = true
}

// the melt limit applies to every melt quote, also to one for the mint's own invoice (C16); history configured with max melt 16
func preInternalOverLimit(h *Hist) {
	own := h.OpMintQuote(mode{}, 64, false, false, true)
	if own == nil {
		return
	}
	h.OpMeltQuote(mode{}, 0, own, 0, true, true, nil)     // own invoice, 64 sat: over the limit
	h.OpMeltQuote(mode{}, 64000, nil, 0, true, true, nil) // foreign invoice, 64 sat: over the limit
	h.OpMeltQuote(mode{}, 17000, nil, 0, true, true, nil) // one sat over
	h.OpMeltQuote(mode{}, 16000, nil, 0, true, true, nil) // at the limit: granted
	if own2 := h.OpMintQuote(mode{}, 16, false, false, true); own2 != nil {
		h.OpMeltQuote(mode{}, 0, own2, 0, true, true, nil) // own invoice at the limit: granted
	}
	h.OpInfo(mode{})
	h.nontrivial = true
}

// totals beyond 2^53 (where a double stops counting in ones): the views, the balance and the info flag stay exact (C16)
func preLargeTotals(h *Hist) {
	q := h.OpMintQuote(mode{}, 1<<53+1, false, false, true)
	if q == nil {
		return
	}
	h.EnvSettle(q)
	h.OpMint(mode{}, q, h.freshOutputs([]uint64{1 << 53, 1}), 0, false)
	views := func() {
		h.OpBalance(mode{})
		h.OpInfo(mode{})
		h.OpAdmin(adminReq{method: "issued_ecash"})
		h.OpAdmin(adminReq{method: "redeemed_ecash"})
		h.OpAdmin(adminReq{method: "total_balance"})
	}
	views()
	var ins []inSpec
	for _, s := range h.spendable() {
		if s.amount == 1<<53 || (s.amount == 1 && len(ins) < 2) {
			ins = append(ins, h.honest(s))
		}
	}
	h.OpSwap(mode{}, ins, h.honestSwapOutputs(ins))
	views()
	h.nontrivial = true
}

// 512 quotes of 2^54 sat (the largest power of two an invoice can carry): the per-keyset total reaches 2^63, where SQLite's SUM
// raises "integer overflow" - the views, the balance and every reader of them must report the error, not a number (C16)
func preOverflowTotals(h *Hist) {
	for i := 0; i < 512; i++ {
		q := h.OpMintQuote(mode{}, 1<<54, false, false, true)
		if q == nil {
			return
		}
		h.EnvSettle(q)
		h.OpMint(mode{}, q, h.freshOutputs([]uint64{1 << 54}), 0, false)
		if i == 255 || i >= 510 {
			h.OpBalance(mode{})
			h.OpInfo(mode{})
			h.OpAdmin(adminReq{method: "issued_ecash"})
			h.OpAdmin(adminReq{method: "total_balance"})
		}
	}
	h.OpMintQuote(mode{}, 1, false, false, true)
	h.nontrivial = true
}

// after a rotation: outputs that mix keysets (first on the active one, the rest on the old one) in a mint and in a swap (C09)
func preMixedKeysetOutputs(h *Hist) {
	h.fundAmount(31)
	old := h.activeHandle()
	h.OpRotate(mode{}, 100)
	act := h.activeHandle()
	if act == old {
		return
	}
	if q := h.OpMintQuote(mode{}, 7, false, false, true); q != nil {
		h.EnvSettle(q)
		outs := []outSpec{{b: h.newB(h.newSecret(), 1, act), amount: 1, ks: act, point: true},
			{b: h.newB(h.newSecret(), 2, old), amount: 2, ks: old, point: true}, {b: h.newB(h.newSecret(), 4, old), amount: 4, ks: old, point: true}}
		h.OpMint(mode{}, q, outs, 0, false)
		h.OpMint(mode{}, q, h.freshOutputs(cashu.AmountSplit(7)), 0, false)
	}
	var ins []inSpec
	var sum uint64
	for _, s := range h.spendable() {
		if s.ks == old && len(ins) < 2 {
			ins = append(ins, h.honest(s))
			sum += s.amount
		}
	}
	if due := h.feesFor(ins); len(ins) > 0 && sum > due+1 {
		var outs []outSpec
		for k, a := range cashu.AmountSplit(sum - due) {
			ks := old
			if k == 0 {
				ks = act
			}
			outs = append(outs, outSpec{b: h.newB(h.newSecret(), a, ks), amount: a, ks: ks, point: true})
		}
		h.OpSwap(mode{}, ins, outs)
		h.OpSwap(mode{}, ins, h.honestSwapOutputs(ins))
	}
	h.nontrivial = true
}

func init() {
	register("c01-hist", "C01", histStream(profile{prop: "C01", histQ: 150, histT: 2500, minOps: 8, maxOps: 30, proj: 1,
		fees: []uint{0, 0, 100, 1000}, mppProb: 10,
		w: weightsWith(map[string]int{"swap-replay": 20, "melt-replay": 10, "melt": 12, "check": 10, "restart": 3}),
		rule: "random mint/swap/melt/check histories with re-presentations of consumed and locked secrets (same request, later request, changed witness/DLEQ/amount/keyset, other melt quote, while PENDING, after restart); non-trivial = at least one re-presentation attempted; distinct by abstract history"}))
	register("c02-hist", "C02", histStream(profile{prop: "C02", histQ: 150, histT: 2500, minOps: 8, maxOps: 30, proj: 1,
		fees: []uint{0, 1, 100, 999, 1000, 2500}, mppProb: 40,
		w: weightsWith(map[string]int{"swap": 18, "swap-badout": 10, "swap-forged": 8, "melt": 16, "melt-internal": 6, "rotate": 4, "mint-bad": 5, "swap-replay": 3, "check": 2, "restore": 1, "reconfigure": 4}),
		rule: "random histories of honest and adversarial requests (outputs > inputs, overflowing amounts, amounts that are not keys, mixed keysets with input_fee_ppk in {0,1,100,999,1000,2500}, internal mint<->melt settlement, MPP, sub-sat invoices) against a backend that is charged the full fee limit; non-trivial = an adversarial amount/fee request or an internal settlement occurred"}))
	register("c03-hist", "C03", histStream(profile{prop: "C03", histQ: 150, histT: 2500, minOps: 8, maxOps: 26, proj: 1,
		fees: []uint{0, 100}, mppProb: 0,
		w: weightsWith(map[string]int{"fund": 16, "mint-again": 14, "mint-early": 10, "mint-bad": 10, "watcher": 10, "poll": 10, "melt-internal": 5, "swap": 4, "swap-replay": 1, "melt": 3, "restart": 3}),
		rule: "sequential histories over several mint quotes: polls, premature/duplicate/oversized mint requests, NUT-20 signature tamperings (wrong key, other quote id, reordered/added output, garbage), late invoice notifications, internal settlement, restarts; non-trivial = a repeated/premature/tampered mint request or a late notification occurred"}))
	register("c05-hist", "C05", histStream(profile{prop: "C05", histQ: 150, histT: 2500, minOps: 8, maxOps: 26, proj: 1,
		fees: []uint{0, 100}, mppProb: 30,
		w: weightsWith(map[string]int{"melt": 30, "poll": 22, "check": 14, "melt-replay": 8, "swap-replay": 8, "restart": 3, "swap": 8}),
		pre: []func(*Hist){preLateSettle},
		rule: "random histories in which melts meet scripted backend answers (pay: success/pending/failed/error; lookups: success/failed/pending/error/not-found) resolved through melt, quote polls and state checks; non-trivial = at least one scripted non-success answer"}))
	register("c06-hist", "C06", histStream(profile{prop: "C06", histQ: 150, histT: 2500, minOps: 8, maxOps: 30, proj: 0,
		fees: []uint{0, 100, 1000}, mppProb: 30, limits: true,
		w: weightsWith(map[string]int{"swap-badout": 14, "swap-forged": 12, "mint-bad": 12, "quote-bad": 10, "melt-replay": 8, "swap-replay": 8, "mint-early": 6}),
		rule: "random histories with semantically invalid requests at every state (bad amounts, duplicate/already signed/foreign-keyset outputs, forged/oversized/unknown-keyset inputs, wrong units, undecodable invoices, unknown quotes, limits), each followed by corrected requests; rejection causes are compared; non-trivial = at least one invalid request"}))
	register("c09-hist", "C09", histStream(profile{prop: "C09", histQ: 100, histT: 1500, minOps: 8, maxOps: 26, proj: 1,
		fees: []uint{0, 100, 250, 1000, 2500}, mppProb: 0,
		w: weightsWith(map[string]int{"restart": 14, "rotate": 12, "admin": 10, "swap": 16, "fund": 14, "melt": 8, "swap-forged": 6, "swap-badout": 6}),
		pre: []func(*Hist){preMixedKeysetOutputs},
		rule: "histories of restarts with and without rotation and runtime rotations with varying input_fee_ppk, interleaved with mint/swap/melt traffic on old and new keysets; non-trivial = at least one rotation"}))
	register("c15-hist", "C15", histStream(profile{prop: "C15", histQ: 150, histT: 2500, minOps: 8, maxOps: 30, proj: 1,
		fees: []uint{0, 100}, mppProb: 10,
		w: weightsWith(map[string]int{"check": 24, "restore": 18, "melt": 14, "swap": 14, "rotate": 4, "restart": 4, "poll": 6}),
		rule: "histories of mint/swap/melt incl. failed and pending melts, rotations, restarts, with state checks and restore queries mixing known, unknown and repeated entries in random order; non-trivial = a query containing a spent or pending or signed entry"}))
	register("c16-hist", "C16", histStream(profile{prop: "C16", histQ: 150, histT: 2500, minOps: 8, maxOps: 30, proj: 1,
		fees: []uint{0, 100}, mppProb: 10, limits: true,
		w: weightsWith(map[string]int{"balance": 16, "info": 12, "quote-bad": 10, "fund": 20, "melt": 10, "swap": 10, "overshoot": 8, "info-cycle": 10, "reconfigure": 6, "admin": 14}),
		pre: []func(*Hist){preLateSettle, preLargeTotals, preInternalOverLimit}, preT: []func(*Hist){preOverflowTotals},
		preCfg: map[int]func(*cfgT){2: func(c *cfgT) { c.maxMelt = 16 }},
		rule: "histories under limit configurations (unset / small / at the boundary) with balance and info queries and quote requests near 2^63 and 2^64; non-trivial = a limit was configured"}))
}
