package main

// HTTP surface of the mint (C20, C06): histories are driven through the real handler
// (MintServer.VerifHandler) in-process with hand-built JSON text; the abstract meaning of every
// request is computed from the JSON tree that was sent (what encoding/json makes of it, and which
// handles its strings stand for), the response is read with the harness's own JSON reader.

import (
	"bytes"
	"crypto/sha256"
	"encoding/hex"
	"fmt"
	"math/rand"
	"net/http"
	"net/http/httptest"
	"sort"
	"strings"

	"github.com/btcsuite/btcd/btcec/v2"
	"github.com/btcsuite/btcd/btcec/v2/schnorr"
	"github.com/decred/dcrd/dcrec/secp256k1/v4"
	"github.com/elnosh/gonuts/crypto"
	"github.com/elnosh/gonuts/mint"
)

// routes, numbered as in coq/Http/Server.v (all_routes)
const (
	rtKeys = iota
	rtKeysets
	rtKeysId
	rtMintQuote
	rtMintQuoteState
	rtMint
	rtSwap
	rtMeltQuote
	rtMeltQuoteState
	rtMelt
	rtCheck
	rtRestore
	rtInfo
	rtWs
	rtOther
)

var routeNames = []string{"keys", "keysets", "keys-id", "mintquote", "mintstate", "mint", "swap", "meltquote", "meltstate",
	"melt", "checkstate", "restore", "info", "ws", "other"}

// body classes, numbered as d_bclass
const (
	bcEmpty = iota
	bcSyntax
	bcTrunc
	bcType
	bcOk
)

// key sets of the response shapes, by the index the model prints (coq/Props/C20.v, C20_shape_keys)
var shapeIndex = map[string]int64{
	"": 0, "#text": 1, "code,detail": 2, "signatures": 3,
	"amount,expiry,quote,request,state,unit":                              4,
	"amount,expiry,pubkey,quote,request,state,unit":                       5,
	"amount,expiry,fee_reserve,quote,request,state,unit":                  6,
	"amount,expiry,fee_reserve,payment_preimage,quote,request,state,unit": 7,
	"states": 8, "outputs,signatures": 9, "keysets:id,keys,unit": 10,
	"keysets:active,id,input_fee_ppk,unit": 11, "description,name,nuts,pubkey,time,version": 12, "#panic": 13,
}

// the NUT state strings, numbered as the model numbers the states (coq/Props/C20.v, C20_state_strings_roundtrip)
var mintStateNo = map[string]int64{"UNPAID": 0, "PAID": 1, "PENDING": 2, "ISSUED": 3}
var meltStateNo = map[string]int64{"UNPAID": 0, "PENDING": 1, "PAID": 2}
var proofStateNo = map[string]int64{"UNSPENT": 0, "PENDING": 1, "SPENT": 2}

func stateNo(tbl map[string]int64, st string) int64 {
	if n, ok := tbl[st]; ok {
		return n
	}
	return 99
}

const genericDetail = "mint is currently unable to process request"
const payFailDetail = "unable to send payment"

type aIn struct {
	sec    *hSecret
	amount uint64
	ks     int64
	c      S
	wit    int64
	long   bool
	cond   bool // the NUT-10/11 evaluation of (secret, witness) passes
}

type aOut struct {
	b      *hB
	amount uint64
	ks     int64
	wit    int64
	point  bool
}

func (a aIn) S() S {
	return L(A(a.sec.h), AU(a.amount), A(a.ks), a.c, A(a.wit), AB(a.long), AB(a.cond), A(0))
}
func (a aOut) S() S {
	return L(A(a.b.h), AU(a.amount), A(a.ks), A(a.wit), AB(a.point), A(a.b.secret))
}

// absReq is the abstract meaning of a request body for one route.
type absReq struct {
	route          int
	bclass         int
	op             S // abstract operation (bcOk)
	hasOp          bool
	ins            []aIn
	outs           []aOut
	quote          int64 // handle of the quote named in the request (-5 unknown)
	newid, newhash int64
	// mint quote
	amount uint64
	pk     int64
	pubkey string
	// melt quote
	inv     *invInfo
	reqStr  string
	mppPart uint64
	ys      []int64
}

type invInfo struct {
	reqH, hashH int64
	req, hash   string
	msat        uint64
	own         *hMintQ
}

type sigInfo struct {
	pub string
	msg string
}

// HS is a history driven through the HTTP handler.
type HS struct {
	*Hist
	ms      *mint.MintServer
	handler http.Handler
	hitems  []S
	hobs    []S
	synced  int
	nreq    int
	// interning of the strings that occur in requests and responses
	secIdx   map[string]*hSecret
	secSeen  int
	yIdx     map[string]*hSecret
	ySeen    int
	cIdx     map[string]*hSecret
	bIdx     map[string]*hB
	pkIdx    map[string]int64
	invIdx   map[string]*invInfo
	sigIdx   map[string]sigInfo
	mqKeys   map[int64]*btcec.PrivateKey
	stream   string
	lastNorm string
	cached   []*exchange       // successful requests on the cached routes (for the replay probes)
	okResp   map[string][]byte // NUT-19 as the harness understands it: (method, URL, body) of every request on a cached route answered 200 since the last restart -> the bytes of the answer
}

func NewHS(sink *Sink, rng *rand.Rand, scratch string, cfg cfgT, proj int64, prop, stream string) *HS {
	s := &HS{Hist: NewHist(sink, rng, scratch, cfg, proj, prop), stream: stream,
		secIdx: map[string]*hSecret{}, yIdx: map[string]*hSecret{}, cIdx: map[string]*hSecret{}, bIdx: map[string]*hB{},
		pkIdx: map[string]int64{}, invIdx: map[string]*invInfo{}, sigIdx: map[string]sigInfo{}, mqKeys: map[int64]*btcec.PrivateKey{}}
	s.newServer()
	s.sync()
	return s
}

func (s *HS) newServer() {
	s.okResp = map[string][]byte{}
	s.ms = mint.SetupMintServer(s.tm.M, mint.ServerConfig{Port: 0})
	s.handler = s.ms.VerifHandler()
}

// sync moves the items the embedded Hist recorded (environment steps, restart, rotation: not HTTP) into this history.
func (s *HS) sync() {
	for ; s.synced < len(s.items); s.synced++ {
		it := s.items[s.synced]
		var conv S
		switch it.items[0].z {
		case "0":
			conv = L(A(1), it.items[1], L())
		case "2":
			conv = L(A(1), it.items[1], it.items[2])
		default:
			panic("http history: crash items are not supported")
		}
		s.hitems = append(s.hitems, conv)
		o := s.obs[s.synced]
		if len(o.items) > 2 {
			o = L(o.items[0], o.items[1]) // the HTTP case family compares result and snapshot of a direct operation, not its call log
		}
		s.hobs = append(s.hobs, o)
	}
}

func (s *HS) direct(f func()) {
	s.lastSnap = "" // the embedded engine's before/after monitor does not see the HTTP requests in between
	f()
	s.sync()
	s.lastNorm = s.snapshotN(true).String()
}

func (s *HS) Restart(fee uint, rotate bool) {
	s.direct(func() { s.OpRestart(fee, rotate) })
	s.newServer()
}

func (s *HS) Rotate(fee uint) { s.direct(func() { s.OpRotate(mode{}, fee) }) }

func (s *HS) Settle(q *hMintQ) { s.direct(func() { s.EnvSettle(q) }) }

func (s *HS) EnvInvErr(b bool) {
	s.direct(func() {
		s.tm.LN.InvoiceStatusErr = b
		s.lnFaulty = b || s.tm.LN.CreateInvoiceErr
		s.env(L(A(23), AB(b)))
	})
}

func (s *HS) EnvCreateErr(b bool) {
	s.direct(func() {
		s.tm.LN.CreateInvoiceErr = b
		s.lnFaulty = b || s.tm.LN.InvoiceStatusErr
		s.env(L(A(24), AB(b)))
	})
}

func (s *HS) FinishHTTP(nontrivial bool) {
	s.sync()
	c := L(A(6), L(s.cfg.S(), A(s.proj), LL(s.hitems)))
	s.sink.Add(c, LL(s.hobs), nontrivial)
	for k, v := range s.stats {
		s.sink.StatN(k, v)
	}
	s.sink.StatN("requests", s.nreq)
	s.tm.Close()
}

// ---------------- interning ----------------

func (s *HS) internSecret(str string) *hSecret {
	for ; s.secSeen < len(s.order); s.secSeen++ {
		x := s.secrets[s.order[s.secSeen]]
		if _, ok := s.secIdx[x.secret]; !ok {
			s.secIdx[x.secret] = x
		}
	}
	if x, ok := s.secIdx[str]; ok {
		return x
	}
	// a secret the harness never blinded: it cannot carry a genuine signature, so it never reaches the store
	x := &hSecret{h: s.fresh(), secret: str}
	s.secIdx[str] = x
	return x
}

func (s *HS) internY(y string) int64 {
	for ; s.ySeen < len(s.order); s.ySeen++ {
		x := s.secrets[s.order[s.ySeen]]
		s.yIdx[Yhex(x.secret)] = x
	}
	// the state belongs to the point, however it is spelled (upper case, uncompressed): one handle per point
	if b, err := hex.DecodeString(y); err == nil {
		if pk, err := secp256k1.ParsePubKey(b); err == nil {
			y = hex.EncodeToString(pk.SerializeCompressed())
		}
	}
	if x, ok := s.yIdx[y]; ok {
		return x.h
	}
	x := &hSecret{h: s.fresh()}
	s.yIdx[y] = x
	return x.h
}

func isPointHex(str string) bool {
	b, err := hex.DecodeString(str)
	if err != nil {
		return false
	}
	_, err = secp256k1.ParsePubKey(b)
	return err == nil
}

func (s *HS) internB(str string) *hB {
	for _, b := range s.bs {
		if _, ok := s.bIdx[b.bm.B_]; !ok {
			s.bIdx[b.bm.B_] = b
		}
	}
	if b, ok := s.bIdx[str]; ok {
		return b
	}
	b := &hB{h: s.fresh(), secret: s.fresh()}
	b.bm.B_ = str
	s.bIdx[str] = b
	if isPointHex(str) {
		s.bs[b.h] = b // it can be signed, so the snapshot must look it up
	}
	return b
}

func (s *HS) cterm(str string) S {
	if x, ok := s.cIdx[str]; ok && str != "" {
		return L(A(0), A(x.ks), AU(x.amount), A(x.h))
	}
	if isPointHex(str) {
		return L(A(1), A(7))
	}
	return L(A(2))
}

func (s *HS) internPk(str string) int64 {
	if str == "" {
		return 0
	}
	if h, ok := s.pkIdx[str]; ok {
		return h
	}
	h := int64(-1)
	if isPointHex(str) {
		h = s.fresh()
	}
	s.pkIdx[str] = h
	return h
}

func (s *HS) mqByID(id string) *hMintQ {
	for _, q := range s.mq {
		if q.id == id {
			return q
		}
	}
	return nil
}

func (s *HS) lqByID(id string) *hMeltQ {
	for _, q := range s.lq {
		if q.id == id {
			return q
		}
	}
	return nil
}

// ---------------- abstraction of request bodies ----------------

func (s *HS) absProof(r *jread, v *jv) aIn {
	o := r.obj(v)
	secret := r.str(o.get("secret"))
	a := aIn{sec: s.internSecret(secret), amount: r.u64(o.get("amount")), ks: s.ksHandle(r.str(o.get("id"))),
		c: s.cterm(r.str(o.get("C"))), wit: s.witHandle(r.str(o.get("witness"))), long: len(secret) > 512}
	// the only spending conditions the generators produce are P2PK locks that nobody signs for
	a.cond = !strings.HasPrefix(secret, `["P2PK"`)
	if d := r.obj(o.get("dleq")); d != nil {
		r.str(d.get("e"))
		r.str(d.get("s"))
		r.str(d.get("r"))
	}
	return a
}

func (s *HS) absOut(r *jread, v *jv) aOut {
	o := r.obj(v)
	B := r.str(o.get("B_"))
	return aOut{b: s.internB(B), amount: r.u64(o.get("amount")), ks: s.ksHandle(r.str(o.get("id"))),
		wit: s.witHandle(r.str(o.get("witness"))), point: isPointHex(B)}
}

func insS(l []aIn) S {
	var x []S
	for _, a := range l {
		x = append(x, a.S())
	}
	return LL(x)
}

func outsS(l []aOut) S {
	var x []S
	for _, a := range l {
		x = append(x, a.S())
	}
	return LL(x)
}

// abstract computes what the handler of route makes of the body text.
func (s *HS) abstract(route int, body []byte, kind int) *absReq {
	ab := &absReq{route: route, bclass: kind, quote: -5}
	if kind != bcOk {
		return ab
	}
	t, err := parseJSON(body)
	if err != nil {
		panic("harness: a body declared well-formed does not parse: " + string(body[:min(len(body), 200)]))
	}
	r := &jread{}
	root := r.obj(t)
	switch route {
	case rtSwap:
		for _, x := range r.arr(root.get("inputs")) {
			ab.ins = append(ab.ins, s.absProof(r, x))
		}
		for _, x := range r.arr(root.get("outputs")) {
			ab.outs = append(ab.outs, s.absOut(r, x))
		}
		ab.op = L(A(4), insS(ab.ins), outsS(ab.outs), A(1))
	case rtMint:
		qs := r.str(root.get("quote"))
		var q *hMintQ
		if q = s.mqByID(qs); q != nil {
			ab.quote = q.h
		}
		msg := qs
		for _, x := range r.arr(root.get("outputs")) {
			o := s.absOut(r, x)
			ab.outs = append(ab.outs, o)
			msg += o.b.bm.B_
		}
		sg := r.str(root.get("signature"))
		sk := int64(0)
		if sg != "" {
			sk = 2
			if si, ok := s.sigIdx[sg]; ok && q != nil && q.key != nil && si.msg == msg &&
				si.pub == hex.EncodeToString(q.key.PubKey().SerializeCompressed()) {
				sk = 1
			}
		}
		ab.op = L(A(3), A(ab.quote), outsS(ab.outs), A(sk))
	case rtMintQuote:
		ab.amount = r.u64(root.get("amount"))
		unit := r.str(root.get("unit"))
		ab.pubkey = r.str(root.get("pubkey"))
		ab.pk = s.internPk(ab.pubkey)
		ab.newid, ab.newhash = s.fresh(), s.fresh()
		ab.op = L(A(1), AB(unit == "sat"), AU(ab.amount), A(ab.pk), A(ab.newid), A(ab.newhash))
	case rtMeltQuote:
		ab.reqStr = r.str(root.get("request"))
		unit := r.str(root.get("unit"))
		mpp := L()
		if opts := r.obj(root.get("options")); opts != nil {
			for i, k := range opts.keys {
				mo := r.obj(opts.a[i])
				amt := r.u64(mo.get("amount"))
				if k == "mpp" {
					mpp = L(AU(amt))
					ab.mppPart = amt
				}
			}
		}
		ab.newid = s.fresh()
		if inv, ok := s.invIdx[ab.reqStr]; ok {
			ab.inv = inv
			ab.op = L(A(5), AB(unit == "sat"), A(1), A(inv.reqH), A(inv.hashH), AU(inv.msat), mpp, A(ab.newid))
		} else {
			ab.op = L(A(5), AB(unit == "sat"), A(0), A(-1), A(-1), A(0), mpp, A(ab.newid))
		}
	case rtMelt:
		qs := r.str(root.get("quote"))
		if q := s.lqByID(qs); q != nil {
			ab.quote = q.h
		}
		for _, x := range r.arr(root.get("inputs")) {
			ab.ins = append(ab.ins, s.absProof(r, x))
		}
		for _, x := range r.arr(root.get("outputs")) {
			s.absOut(r, x) // decoded (type errors count) and ignored by the mint
		}
		ab.op = L(A(7), A(ab.quote), insS(ab.ins))
	case rtCheck:
		var ys []S
		badY := false
		for _, x := range r.arr(root.get("Ys")) {
			if !isPointHex(r.str(x)) {
				badY = true
			}
			h := s.internY(r.str(x))
			ab.ys = append(ab.ys, h)
			ys = append(ys, A(h))
		}
		ab.op = L(A(8), LL(ys))
		if badY {
			// a Y that is not a point is answered like a field of the wrong type: 400, code 10000, a text of its own
			r.typeErr = true
		}
	case rtRestore:
		var bsS []S
		for _, x := range r.arr(root.get("outputs")) {
			o := s.absOut(r, x)
			ab.outs = append(ab.outs, o)
			bsS = append(bsS, A(o.b.h))
		}
		ab.op = L(A(9), LL(bsS))
	}
	ab.hasOp = true
	if r.typeErr {
		ab.bclass = bcType
		ab.hasOp = false
	}
	return ab
}

// ---------------- sending ----------------

type httpRes struct {
	status int
	body   []byte
	panicV any
}

type reqSpec struct {
	method  string
	route   int
	target  string // request target (path and query)
	pmOK    bool
	ctype   string // "" none
	body    []byte
	hasBody bool
	semBody []byte // the first JSON value of body when more follows it (what the decoder reads); nil: body
	kind    int    // body class as the harness built it (bcOk: to be refined by abstract)
	stateOp S      // for the quote-state routes: the operation the path stands for
	arg     int64  // keys/{id}
	faults  []int
	label   string // mutation / probe label (statistics, monitor signatures)
	replay  bool   // a byte-identical replay of a request that was answered 200: the wallet learns nothing new from it
}

func methNum(m string) int64 {
	switch m {
	case "GET":
		return 0
	case "POST":
		return 1
	case "OPTIONS":
		return 2
	}
	return 3
}

func keyBytes(b []byte) S {
	if len(b) <= 4096 {
		return bytesS(b)
	}
	// large bodies are identified by their SHA-256 (256 is not a byte: no clash with a real body)
	d := sha256.Sum256(b)
	return LL(append([]S{A(256)}, bytesS(d[:]).items...))
}

type exchange struct {
	spec        reqSpec
	ab          *absReq
	res         httpRes
	tree        *jv // parsed response body (nil: not JSON)
	status      int
	code        int64
	detail      string
	before      string // normalised snapshot before
	after       string
	cachedRoute bool
	isReplay    bool   // the same method, URL and body bytes were answered 200 on this cached route before
	stored      []byte // the bytes of that answer
	obsHead     []S
}

func ctypeOK(ct string) bool {
	if ct == "" {
		return true
	}
	return strings.ToLower(strings.Split(ct, ";")[0]) == "application/json"
}

// do sends one request through the real handler and records the abstract request and the observation.
func (s *HS) do(sp reqSpec) *exchange {
	s.sync()
	var ab *absReq
	switch sp.route {
	case rtMintQuote, rtMint, rtSwap, rtMeltQuote, rtMelt, rtCheck, rtRestore:
		sem := sp.body
		if sp.semBody != nil {
			sem = sp.semBody
		}
		ab = s.abstract(sp.route, sem, sp.kind)
	default:
		ab = &absReq{route: sp.route, bclass: sp.kind, quote: -5}
		if sp.route == rtMintQuoteState || sp.route == rtMeltQuoteState {
			ab.op, ab.hasOp = sp.stateOp, true
		}
	}
	var rd *bytes.Reader
	var req *http.Request
	if sp.hasBody {
		rd = bytes.NewReader(sp.body)
		req = httptest.NewRequest(sp.method, sp.target, rd)
	} else {
		req = httptest.NewRequest(sp.method, sp.target, nil)
	}
	if sp.ctype != "" {
		req.Header.Set("Content-Type", sp.ctype)
	}
	url := req.URL.String()
	faults := map[int]bool{}
	var fS []S
	for _, p := range sp.faults {
		faults[p] = true
		fS = append(fS, A(int64(p)))
	}
	nInv := len(s.tm.LN.created)
	ex := &exchange{spec: sp, ab: ab, before: s.lastNorm}
	ex.cachedRoute = ((sp.route == rtMint && sp.pmOK) || sp.route == rtSwap) && sp.method == "POST"
	ckey := sp.method + "\x00" + url + "\x00" + string(sp.body)
	if prev, ok := s.okResp[ckey]; ok && ex.cachedRoute && ctypeOK(sp.ctype) {
		ex.isReplay, ex.stored = true, prev
		ex.spec.replay = true
	}
	out := s.wdb.runOp(-1, faults, func() (any, error) {
		rec := httptest.NewRecorder()
		s.handler.ServeHTTP(rec, req)
		return httpRes{status: rec.Code, body: rec.Body.Bytes()}, nil
	})
	if out.panicV != nil {
		ex.res = httpRes{panicV: out.panicV}
	} else {
		ex.res = out.val.(httpRes)
	}
	s.nreq++
	// abstract request
	opS := L()
	if ab.hasOp {
		opS = L(ab.op)
	}
	var mb, ub, bb S = L(), L(), L()
	if sp.route == rtMint || sp.route == rtSwap {
		mb, ub, bb = bytesS([]byte(sp.method)), bytesS([]byte(url)), keyBytes(sp.body)
	}
	item := L(A(0), A(methNum(sp.method)), A(int64(sp.route)), AB(sp.pmOK), AB(ctypeOK(sp.ctype)), A(int64(ab.bclass)), opS,
		A(sp.arg), mb, ub, bb, A(int64(len(sp.body))), LL(fS))
	s.learn(ex, nInv)
	s.observe(ex)
	if ex.cachedRoute && !ex.isReplay && ex.status == 200 && len(sp.body) < 2*1024*1024 {
		s.okResp[ckey] = ex.res.body
	}
	snap := s.snapshot()
	ex.after = s.snapshotN(true).String()
	s.lastNorm = ex.after
	s.hitems = append(s.hitems, item)
	if s.proj == 0 {
		s.hobs = append(s.hobs, L(LL(ex.obsHead), snap))
	} else {
		s.hobs = append(s.hobs, L(L(A(int64(ex.status/100))), snap))
	}
	s.stats["route="+routeNames[sp.route]]++
	s.stats[fmt.Sprintf("status=%d", ex.status)]++
	if ex.status == 400 {
		s.stats[fmt.Sprintf("code=%d", ex.code)]++
	}
	s.monitors(ex)
	return ex
}

// ---------------- reading the response ----------------

func num(v *jv) (uint64, bool) {
	if v == nil || v.k != '#' {
		return 0, false
	}
	var u uint64
	if _, err := fmt.Sscanf(v.s, "%d", &u); err != nil || fmt.Sprint(u) != v.s {
		return 0, false
	}
	return u, true
}

func strv(v *jv) (string, bool) {
	if v == nil || v.k != 's' {
		return "", false
	}
	return v.s, true
}

func isHexLen(sv string, n int) bool {
	if len(sv) != n || strings.ToLower(sv) != sv {
		return false
	}
	_, err := hex.DecodeString(sv)
	return err == nil
}

func keysEq(v *jv, want ...string) bool {
	if v == nil || v.k != 'o' {
		return false
	}
	return strings.Join(v.sortedKeys(), ",") == strings.Join(want, ",")
}

func (s *HS) shapeViol(ex *exchange, what string) {
	s.sink.Violate("http-response-shape:"+routeNames[ex.spec.route]+":"+what,
		fmt.Sprintf("%s %s answered %d with body %.300s", ex.spec.method, ex.spec.target, ex.status, string(ex.res.body)),
		LL(s.hitems).String(), map[string]any{"request_body": trunc(string(ex.spec.body), 2000)})
}

func trunc(x string, n int) string {
	if len(x) > n {
		return x[:n] + "..."
	}
	return x
}

// sigList reads a `signatures` array; handles of the B_s come from the request's outputs by position (or from echoed outputs).
func (s *HS) sigList(ex *exchange, v *jv, bh func(i int) int64) S {
	var l []S
	if v != nil && v.k == 'a' {
		for i, sg := range v.a {
			amt, ok1 := num(sg.get("amount"))
			id, ok2 := strv(sg.get("id"))
			c, ok3 := strv(sg.get("C_"))
			d := sg.get("dleq")
			e, ok4 := strv(d.get("e"))
			sv, ok5 := strv(d.get("s"))
			if !(ok1 && ok2 && ok3 && ok4 && ok5) || !keysEq(sg, "C_", "amount", "dleq", "id") || !keysEq(d, "e", "s") {
				s.shapeViol(ex, "signature-members")
			} else if !isPointHex(c) || !isHexLen(c, 66) || !isHexLen(e, 64) || !isHexLen(sv, 64) {
				s.shapeViol(ex, "signature-hex")
			}
			l = append(l, L(A(bh(i)), AU(amt), A(s.ksHandle(id))))
		}
	} else if v == nil || v.k != 'n' {
		s.shapeViol(ex, "signatures-not-a-list")
	}
	return L(A(1), LL(l))
}

func (s *HS) observe(ex *exchange) {
	res := ex.res
	if res.panicV != nil {
		ex.status = 0
		ex.obsHead = []S{A(0), A(0), A(0), A(13), L()}
		return
	}
	ex.status = res.status
	shape := ""
	content := L()
	dclass := int64(0)
	code := int64(0)
	if len(res.body) > 0 {
		t, err := parseJSON(res.body)
		if err != nil || t.k != 'o' {
			shape = "#text"
		} else {
			ex.tree = t
			shape = strings.Join(t.sortedKeys(), ",")
		}
	}
	t := ex.tree
	if t != nil && res.status != 200 {
		if c, ok := num(t.get("code")); ok {
			code = int64(c)
		}
		ex.detail, _ = strv(t.get("detail"))
		switch ex.detail {
		case genericDetail:
			dclass = 1
		case payFailDetail:
			dclass = 2
		default:
			dclass = 3
		}
	}
	ex.code = code
	if t != nil && res.status == 200 {
		switch ex.spec.route {
		case rtSwap, rtMint:
			content = s.sigList(ex, t.get("signatures"), func(i int) int64 {
				if i < len(ex.ab.outs) {
					return ex.ab.outs[i].b.h
				}
				return -1
			})
		case rtRestore:
			outs := t.get("outputs")
			content = s.sigList(ex, t.get("signatures"), func(i int) int64 {
				if outs != nil && outs.k == 'a' && i < len(outs.a) {
					if B, ok := strv(outs.a[i].get("B_")); ok {
						if b, ok := s.bIdx[B]; ok {
							return b.h
						}
					}
				}
				return -1
			})
			sg := t.get("signatures")
			if outs == nil || sg == nil || outs.k != 'a' || sg.k != 'a' || len(outs.a) != len(sg.a) {
				s.shapeViol(ex, "restore-lists")
			}
		case rtMintQuote, rtMintQuoteState:
			qid, _ := strv(t.get("quote"))
			amt, ok1 := num(t.get("amount"))
			st, ok2 := strv(t.get("state"))
			unit, _ := strv(t.get("unit"))
			_, ok3 := num(t.get("expiry"))
			reqs, ok4 := strv(t.get("request"))
			pks, _ := strv(t.get("pubkey"))
			qh := ex.ab.newid
			if ex.spec.route == rtMintQuoteState {
				qh = -5
				if q := s.mqByID(qid); q != nil {
					qh = q.h
					if q.req != reqs {
						s.shapeViol(ex, "request-differs")
					}
				}
			}
			if !(ok1 && ok2 && ok3 && ok4) || unit != "sat" || qid == "" {
				s.shapeViol(ex, "quote-members")
			}
			if _, known := mintStateNo[st]; !known {
				s.shapeViol(ex, "state-string")
			}
			content = L(A(2), A(qh), AU(amt), A(stateNo(mintStateNo, st)), A(s.internPk(pks)))
		case rtMeltQuote, rtMeltQuoteState, rtMelt:
			qid, _ := strv(t.get("quote"))
			amt, ok1 := num(t.get("amount"))
			fee, ok2 := num(t.get("fee_reserve"))
			st, ok3 := strv(t.get("state"))
			unit, _ := strv(t.get("unit"))
			_, ok4 := num(t.get("expiry"))
			_, ok5 := strv(t.get("request"))
			pre, _ := strv(t.get("payment_preimage"))
			qh := ex.ab.newid
			if ex.spec.route != rtMeltQuote {
				qh = -5
				if q := s.lqByID(qid); q != nil {
					qh = q.h
				}
			}
			if !(ok1 && ok2 && ok3 && ok4 && ok5) || unit != "sat" || qid == "" {
				s.shapeViol(ex, "quote-members")
			}
			if _, known := meltStateNo[st]; !known {
				s.shapeViol(ex, "state-string")
			}
			content = L(A(3), A(qh), AU(amt), AU(fee), A(stateNo(meltStateNo, st)), A(s.preHandle(pre)))
		case rtCheck:
			var l []S
			sts := t.get("states")
			if sts != nil && sts.k == 'a' {
				for _, e := range sts.a {
					y, ok1 := strv(e.get("Y"))
					st, ok2 := strv(e.get("state"))
					w, _ := strv(e.get("witness"))
					if !ok1 || !ok2 || !(keysEq(e, "Y", "state") || keysEq(e, "Y", "state", "witness")) {
						s.shapeViol(ex, "state-members")
					}
					if _, known := proofStateNo[st]; !known {
						s.shapeViol(ex, "state-string")
					}
					l = append(l, L(A(s.internY(y)), A(stateNo(proofStateNo, st)), A(s.witHandle(w))))
				}
			} else {
				s.shapeViol(ex, "states-not-a-list")
			}
			content = L(A(4), LL(l))
		case rtKeys, rtKeysId:
			var ids []S
			ksl := t.get("keysets")
			if ksl != nil && ksl.k == 'a' {
				for i, k := range ksl.a {
					id, _ := strv(k.get("id"))
					unit, _ := strv(k.get("unit"))
					ids = append(ids, A(s.ksHandle(id)))
					if i == 0 {
						shape += ":" + strings.Join(k.sortedKeys(), ",")
					}
					keys := k.get("keys")
					own := s.tm.Keysets[id] // the keyset as the harness derives it from the seed
					if unit != "sat" || keys == nil || keys.k != 'o' || own == nil || len(keys.keys) != len(own.Keys) {
						s.shapeViol(ex, "keyset-members")
						continue
					}
					prev := uint64(0)
					for j, a := range keys.keys {
						var u uint64
						if _, err := fmt.Sscanf(a, "%d", &u); err != nil || fmt.Sprint(u) != a || (j > 0 && u <= prev) {
							s.shapeViol(ex, "keys-not-sorted")
							break
						}
						prev = u
						pv, ok := strv(keys.a[j])
						if !ok || !isHexLen(pv, 66) || !isPointHex(pv) {
							s.shapeViol(ex, "keys-hex")
							break
						}
						if ks := s.tm.Keysets[id]; ks != nil {
							if kp, ok := ks.Keys[u]; !ok || hex.EncodeToString(kp.PublicKey.SerializeCompressed()) != pv {
								s.shapeViol(ex, "keys-wrong-key")
								break
							}
						}
					}
				}
			}
			content = L(A(10), LL(ids))
		case rtKeysets:
			type row struct {
				h      int64
				fee    uint64
				active bool
			}
			var rows []row
			ksl := t.get("keysets")
			if ksl != nil && ksl.k == 'a' {
				for i, k := range ksl.a {
					id, _ := strv(k.get("id"))
					fee, _ := num(k.get("input_fee_ppk"))
					act := k.get("active")
					unit, _ := strv(k.get("unit"))
					if i == 0 {
						shape += ":" + strings.Join(k.sortedKeys(), ",")
					}
					if act == nil || (act.k != 't' && act.k != 'f') || unit != "sat" {
						s.shapeViol(ex, "keyset-members")
						continue
					}
					rows = append(rows, row{s.ksHandle(id), fee, act.k == 't'})
				}
			}
			sort.Slice(rows, func(i, j int) bool { return rows[i].h < rows[j].h })
			var l []S
			for _, r := range rows {
				l = append(l, L(A(r.h), AU(r.fee), AB(r.active)))
			}
			content = L(A(11), LL(l))
		case rtInfo:
			dis := t.get("nuts").get("4").get("disabled")
			if dis == nil || (dis.k != 't' && dis.k != 'f') {
				s.shapeViol(ex, "info-nut04")
				content = L(A(7), A(0))
			} else {
				content = L(A(7), AB(dis.k == 't'))
			}
			if pk, ok := strv(t.get("pubkey")); !ok || !isHexLen(pk, 66) || !isPointHex(pk) {
				s.shapeViol(ex, "info-pubkey")
			}
		}
	}
	si, known := shapeIndex[shape]
	if !known {
		si = 99
		s.sink.Violate("http-response-shape:"+routeNames[ex.spec.route]+":unknown-key-set",
			fmt.Sprintf("%s %s answered %d with top-level keys {%s}: %.300s", ex.spec.method, ex.spec.target, ex.status, shape, string(res.body)),
			LL(s.hitems).String(), nil)
	}
	ex.obsHead = []S{A(int64(res.status)), A(code), A(dclass), A(si), content}
}

// ---------------- bookkeeping: what the wallet side learns from the exchange ----------------

func (s *HS) learn(ex *exchange, nInv int) {
	ab := ex.ab
	ok := ex.res.panicV == nil && ex.res.status == 200
	var t *jv
	if ok {
		t, _ = parseJSON(ex.res.body)
	}
	switch ex.spec.route {
	case rtMintQuote:
		// learn the quote from the store even when the response was lost (injected error after the insert)
		if len(s.tm.LN.created) > nInv {
			hash := s.tm.LN.created[len(s.tm.LN.created)-1]
			q := &hMintQ{h: ab.newid, hashH: ab.newhash, amount: ab.amount, hash: hash}
			if mq, err := s.wdb.inner.GetMintQuoteByPaymentHash(hash); err == nil {
				q.id, q.req = mq.Id, mq.PaymentRequest
				if k, ok := s.mqKeys[ab.pk]; ok {
					q.key = k
				}
				s.mq[q.h] = q
				s.invIdx[q.req] = &invInfo{reqH: q.hashH, hashH: q.hashH, req: q.req, hash: hash, msat: q.amount * 1000, own: q}
			}
		}
	case rtMeltQuote:
		if ab.inv != nil && ab.hasOp {
			if lq, err := s.wdb.inner.GetMeltQuoteByPaymentRequest(ab.reqStr); err == nil && lq != nil && s.lqByID(lq.Id) == nil {
				q := &hMeltQ{h: ab.newid, reqH: ab.inv.reqH, hashH: ab.inv.hashH, id: lq.Id, req: ab.reqStr, hash: ab.inv.hash,
					amount: lq.Amount, fee: lq.FeeReserve, msat: ab.inv.msat, internal: ab.inv.own != nil, mpp: lq.IsMpp}
				s.lq[q.h] = q
			}
		}
	case rtSwap, rtMint:
		if ok && t != nil && !ex.spec.replay {
			s.adoptJSON(ab.outs, t.get("signatures"))
			if ex.spec.route == rtSwap {
				s.spend(ab.ins, "swap", ex)
			}
		}
	case rtMelt:
		if q := s.lq[ab.quote]; q != nil && ok && t != nil {
			st, _ := strv(t.get("state"))
			if st == "PAID" || st == "PENDING" {
				q.inputs = nil
				for _, i := range ab.ins {
					q.inputs = append(q.inputs, i.sec.h)
					if _, reg := s.secrets[i.sec.h]; !reg {
						s.secrets[i.sec.h] = i.sec // cannot happen for a forged input; keeps the tables total
					}
				}
			}
		}
	}
	if !s.dead {
		s.learnMelts(L(A(int64(ex.spec.route))))
	}
}

func (s *HS) spend(ins []aIn, what string, ex *exchange) {
	for _, i := range ins {
		i.sec.consumed++
		if i.sec.consumed > 1 {
			s.sink.Violate("double-spend:http-"+what, fmt.Sprintf("secret %d was accepted as an input by %d successful requests (%s %s, %s)", i.sec.h, i.sec.consumed, ex.spec.method, ex.spec.target, ex.spec.label),
				LL(s.hitems).String(), nil)
		}
	}
}

func (s *HS) adoptJSON(outs []aOut, sigs *jv) {
	if sigs == nil || sigs.k != 'a' {
		return
	}
	for i, sg := range sigs.a {
		if i >= len(outs) {
			break
		}
		b := outs[i].b
		amt, _ := num(sg.get("amount"))
		id, _ := strv(sg.get("id"))
		cs, _ := strv(sg.get("C_"))
		b.signed, b.sigAmount, b.sigKs = true, amt, s.ksHandle(id)
		ks := s.tm.Keysets[id]
		if ks == nil || b.r == nil || !outs[i].point {
			continue
		}
		kp, ok := ks.Keys[amt]
		if !ok {
			continue
		}
		cb, _ := hex.DecodeString(cs)
		Cp, err := secp256k1.ParsePubKey(cb)
		if err != nil {
			continue
		}
		C := crypto.UnblindSignature(Cp, b.r, kp.PublicKey)
		if x := s.secrets[b.secret]; x != nil && !x.held {
			x.held, x.amount, x.ks, x.C = true, amt, s.ksHandle(id), hex.EncodeToString(C.SerializeCompressed())
			s.cIdx[x.C] = x
			// the wallet checks what it was given: the unblinded signature must verify under the mint's key
			if !crypto.Verify(x.secret, kp.PrivateKey, C) {
				s.sink.Violate("http-signature-invalid", "a returned blind signature does not unblind to a valid signature", LL(s.hitems).String(), nil)
			}
		}
	}
}

// ---------------- monitors common to both streams ----------------

func (s *HS) monitors(ex *exchange) {
	rn := routeNames[ex.spec.route]
	lab := ex.spec.label
	if ex.res.panicV != nil {
		s.sink.Violate("handler-panic:"+rn, fmt.Sprintf("%s %s (%s): %v", ex.spec.method, ex.spec.target, lab, ex.res.panicV),
			LL(s.hitems).String(), map[string]any{"request_body": trunc(string(ex.spec.body), 4000)})
		return
	}
	// a request that is not answered 200 changes nothing (no fault injected; lazily recorded payments excepted)
	if ex.status != 200 && len(ex.spec.faults) == 0 && !s.lnFaulty && ex.before != "" && ex.before != ex.after {
		s.sink.Violate("rejected-request-changed-state:"+rn+":"+lab,
			fmt.Sprintf("%s %s answered %d %.200s and changed the observable state", ex.spec.method, ex.spec.target, ex.status, string(ex.res.body)),
			LL(s.hitems).String(), map[string]any{"before": ex.before, "after": ex.after, "request_body": trunc(string(ex.spec.body), 4000)})
	}
	// NUT-19: a byte-identical replay of a request answered 200 gets the stored bytes and nothing is executed;
	// no other request is answered from the cache (an executed swap or mint that is answered 200 changes the state)
	if ex.isReplay {
		if ex.status != 200 || !bytes.Equal(ex.res.body, ex.stored) {
			s.sink.Violate("cache-replay-differs:"+rn, fmt.Sprintf("byte-identical replay answered %d %.200s; the original was answered %.200s", ex.status, string(ex.res.body), string(ex.stored)),
				LL(s.hitems).String(), nil)
		}
		if ex.before != ex.after {
			s.sink.Violate("cache-replay-changed-state:"+rn, "a byte-identical replay changed the observable state", LL(s.hitems).String(),
				map[string]any{"before": ex.before, "after": ex.after})
		}
	} else if ex.cachedRoute && ex.status == 200 && ex.before != "" && ex.before == ex.after {
		s.sink.Violate("answered-from-cache-without-identical-earlier-request:"+rn+":"+lab,
			fmt.Sprintf("%s %s was answered 200 %.200s without being executed, and no earlier request had the same method, URL and body", ex.spec.method, ex.spec.target, string(ex.res.body)),
			LL(s.hitems).String(), map[string]any{"request_body": trunc(string(ex.spec.body), 3000)})
	}
	switch ex.status {
	case 200:
		if ex.tree != nil && (ex.tree.get("code") != nil || ex.tree.get("detail") != nil) {
			s.sink.Violate("http-200-with-error-body:"+rn, string(ex.res.body), LL(s.hitems).String(), nil)
		}
	case 400:
		if ex.spec.route != rtWs && !keysEq(ex.tree, "code", "detail") {
			s.sink.Violate("http-400-body-not-detail-code:"+rn,
				fmt.Sprintf("%s %s (%s) answered 400 with body %.300s", ex.spec.method, ex.spec.target, lab, string(ex.res.body)),
				LL(s.hitems).String(), map[string]any{"request_body": trunc(string(ex.spec.body), 4000)})
		}
		if ex.code == 1 || ex.code == 2 {
			s.sink.Violate("internal-code-in-response:"+rn, fmt.Sprintf("code %d, detail %q", ex.code, ex.detail), LL(s.hitems).String(), nil)
		}
		low := strings.ToLower(ex.detail)
		for _, leak := range []string{"injected storage error", "scripted:", "sql", "sqlite", "database", " db"} {
			if strings.Contains(low, leak) {
				s.sink.Violate("internal-detail-in-response:"+rn, fmt.Sprintf("code %d, detail %q", ex.code, ex.detail), LL(s.hitems).String(), nil)
				break
			}
		}
	case 404, 405:
	default:
		s.sink.Violate(fmt.Sprintf("http-unexpected-status:%s:%d", rn, ex.status),
			fmt.Sprintf("%s %s (%s) body %.300s", ex.spec.method, ex.spec.target, lab, string(ex.res.body)), LL(s.hitems).String(), nil)
	}
}

// ---------------- building requests ----------------

func proofTree(amount uint64, id, secret, C, witness string, dleq bool) *jv {
	var w, d *jv
	if witness != "" {
		w = jS(witness)
	}
	if dleq {
		d = jO("e", jS("00"), "s", jS("00"))
	}
	return jO("amount", jN(amount), "id", jS(id), "secret", jS(secret), "C", jS(C), "witness", w, "dleq", d)
}

func (s *HS) inTrees(ins []inSpec) *jv {
	a := jA()
	for _, i := range ins {
		p := s.inputProof(i) // the concrete strings the engine chose for this abstract input
		a.a = append(a.a, proofTree(p.Amount, p.Id, p.Secret, p.C, p.Witness, p.DLEQ != nil))
	}
	return a
}

func (s *HS) outTrees(outs []outSpec) *jv {
	a := jA()
	for _, o := range outs {
		bm := s.outputBM(o)
		a.a = append(a.a, jO("amount", jN(bm.Amount), "B_", jS(bm.B_), "id", jS(bm.Id)))
	}
	return a
}

func post(route int, target string, t *jv, label string) reqSpec {
	return reqSpec{method: "POST", route: route, target: target, pmOK: true, ctype: "application/json",
		body: []byte(t.String()), hasBody: true, kind: bcOk, label: label}
}

func (s *HS) swapReq(ins []inSpec, outs []outSpec) reqSpec {
	return post(rtSwap, "/v1/swap", jO("inputs", s.inTrees(ins), "outputs", s.outTrees(outs)), "valid")
}

// signQuote: the harness's own NUT-20 signature: Schnorr over SHA-256(quote id || B_0 || B_1 ...)
func (s *HS) signQuote(key *btcec.PrivateKey, quote string, outs *jv) string {
	msg := quote
	for _, o := range outs.a {
		B, _ := strv(o.get("B_"))
		msg += B
	}
	h := sha256.Sum256([]byte(msg))
	sg, err := schnorr.Sign(key, h[:])
	must(err)
	sh := hex.EncodeToString(sg.Serialize())
	s.sigIdx[sh] = sigInfo{pub: hex.EncodeToString(key.PubKey().SerializeCompressed()), msg: msg}
	return sh
}

// sigKind: 0 none, 1 valid, 2 by another key, 3 garbage
func (s *HS) mintReq(q *hMintQ, outs []outSpec, sigKind int) reqSpec {
	ot := s.outTrees(outs)
	var sg *jv
	switch sigKind {
	case 1:
		if q.key != nil {
			sg = jS(s.signQuote(q.key, q.id, ot))
		}
	case 2:
		kb := make([]byte, 32)
		s.rng.Read(kb)
		other, _ := btcec.PrivKeyFromBytes(kb)
		sg = jS(s.signQuote(other, q.id, ot))
	case 3:
		sg = jS([]string{"nothex", strings.Repeat("ab", 64)}[s.rng.Intn(2)])
	}
	return post(rtMint, "/v1/mint/bolt11", jO("quote", jS(q.id), "outputs", ot, "signature", sg), "valid")
}

func (s *HS) mintQuoteReq(amount uint64, unit string, withKey, badKey bool) reqSpec {
	var pk *jv
	if withKey {
		kb := make([]byte, 32)
		s.rng.Read(kb)
		key, _ := btcec.PrivKeyFromBytes(kb)
		ph := hex.EncodeToString(key.PubKey().SerializeCompressed())
		s.mqKeys[s.internPk(ph)] = key
		pk = jS(ph)
	}
	if badKey {
		pk = jS("02zz")
	}
	return post(rtMintQuote, "/v1/mint/quote/bolt11", jO("amount", jN(amount), "unit", jS(unit), "pubkey", pk), "valid")
}

func (s *HS) newInvoice(msat uint64) *invInfo {
	req, hash := ExternalInvoice(msat)
	h := s.fresh()
	inv := &invInfo{reqH: h, hashH: h, req: req, hash: hash, msat: msat}
	s.invIdx[req] = inv
	return inv
}

func (s *HS) meltQuoteReq(req, unit string, mppPart uint64) reqSpec {
	var opts *jv
	if mppPart > 0 {
		opts = jO("mpp", jO("amount", jN(mppPart)))
	}
	return post(rtMeltQuote, "/v1/melt/quote/bolt11", jO("request", jS(req), "unit", jS(unit), "options", opts), "valid")
}

func (s *HS) meltReq(quoteID string, ins []inSpec) reqSpec {
	return post(rtMelt, "/v1/melt/bolt11", jO("quote", jS(quoteID), "inputs", s.inTrees(ins)), "valid")
}

func (s *HS) checkReq(ys []string) reqSpec {
	a := jA()
	for _, y := range ys {
		a.a = append(a.a, jS(y))
	}
	return post(rtCheck, "/v1/checkstate", jO("Ys", a), "valid")
}

func (s *HS) restoreReq(bs []*hB) reqSpec {
	a := jA()
	for _, b := range bs {
		a.a = append(a.a, jO("amount", jN(0), "B_", jS(b.bm.B_), "id", jS(b.bm.Id)))
	}
	return post(rtRestore, "/v1/restore", jO("outputs", a), "valid")
}

func get(route int, target string) reqSpec {
	return reqSpec{method: "GET", route: route, target: target, pmOK: true, kind: bcEmpty, label: "get"}
}

func (s *HS) mintStateReq(q *hMintQ, unknown bool) reqSpec {
	id, hd := q.id, q.h
	if unknown {
		id, hd = "nosuchquote", -5
	}
	r := get(rtMintQuoteState, "/v1/mint/quote/bolt11/"+id)
	r.stateOp = L(A(2), A(hd))
	return r
}

func (s *HS) meltStateReq(q *hMeltQ, unknown bool) reqSpec {
	id, hd := q.id, q.h
	if unknown {
		id, hd = "nosuchquote", -5
	}
	r := get(rtMeltQuoteState, "/v1/melt/quote/bolt11/"+id)
	r.stateOp = L(A(6), A(hd))
	return r
}

func min(a, b int) int {
	if a < b {
		return a
	}
	return b
}
