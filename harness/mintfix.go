package main

import (
	"context"
	"crypto/sha256"
	"encoding/hex"
	"errors"
	"fmt"
	"math/rand"
	"os"
	"path/filepath"
	"sort"
	"sync"
	"time"

	"github.com/btcsuite/btcd/btcutil/hdkeychain"
	"github.com/btcsuite/btcd/chaincfg"
	"github.com/decred/dcrd/dcrec/secp256k1/v4"
	"github.com/elnosh/gonuts/cashu"
	"github.com/elnosh/gonuts/crypto"
	"github.com/elnosh/gonuts/mint"
	"github.com/elnosh/gonuts/mint/lightning"
	"github.com/elnosh/gonuts/mint/storage/sqlite"
	decodepay "github.com/nbd-wtf/ln-decodepay"
)

// ---------------- scripted Lightning backend ----------------

type lnInvoice struct {
	req, hash, preimage string
	amount              uint64
	settled             bool
	notify              chan struct{}
}

// PayAnswer is one scripted answer of the backend to a pay call or a status lookup.
// Kind: 0 succeeded, 1 failed, 2 pending, 3 error (transport), 4 not found (lookup only)
type PayAnswer struct {
	Kind     int
	Preimage string
}

type PayCall struct {
	Request    string
	Hash       string
	MaxFee     uint64
	AmountMsat uint64 // invoice msat for SendPayment, partial msat for PayPartialAmount
	Partial    bool
}

type LN struct {
	mu        sync.Mutex
	invoices  map[string]*lnInvoice // by hash
	byReq     map[string]*lnInvoice
	PayScript  map[string][]PayAnswer // by payment hash; consumed by SendPayment / PayPartialAmount; default: succeeded, preimage "pre1"
	LookScript map[string][]PayAnswer // by payment hash; consumed by OutgoingPaymentStatus; default: error
	fireNow    string                 // payment hash whose next subscription delivers the settled invoice at once
	created    []string               // payment hashes of the invoices created, in order
	subCount   map[string]int         // subscriptions opened so far, by payment hash
	InvoiceStatusErr bool
	CreateInvoiceErr bool
	PayCalls  []PayCall
	// ground truth of what the backend answered, per payment hash (used by the monitors only)
	succeeded       map[string]bool   // some answer reported success
	successPreimage map[string]string // ... with this preimage (first one)
	refused         map[string]bool   // some answer reported failed or not-found
	lastAnswer      map[string]int    // kind of the last answer given
	LookCalls int
	FeeFn     func(uint64) uint64
	rng       *rand.Rand
	Hook      func(op string) // called at the start of every backend call (schedules / crash points)
}

func NewLN(rng *rand.Rand) *LN {
	return &LN{invoices: map[string]*lnInvoice{}, byReq: map[string]*lnInvoice{}, rng: rng,
		PayScript: map[string][]PayAnswer{}, LookScript: map[string][]PayAnswer{},
		subCount: map[string]int{}, succeeded: map[string]bool{}, successPreimage: map[string]string{}, refused: map[string]bool{}, lastAnswer: map[string]int{},
		FeeFn: func(a uint64) uint64 { return (a + 99) / 100 }}
}

func (l *LN) hook(op string) {
	if l.Hook != nil {
		l.Hook(op)
	}
}

func (l *LN) ConnectionStatus() error { return nil }

func (l *LN) CreateInvoice(amount uint64) (lightning.Invoice, error) {
	l.hook("LN.CreateInvoice")
	l.mu.Lock()
	defer l.mu.Unlock()
	if l.CreateInvoiceErr {
		return lightning.Invoice{}, errors.New("scripted: cannot create invoice")
	}
	if amount > ^uint64(0)/1000 {
		// a node does not make an invoice whose amount in millisatoshi does not fit 64 bits
		return lightning.Invoice{}, errors.New("scripted: amount too large for an invoice")
	}
	req, preimage, hash, err := lightning.CreateFakeInvoice(amount, false)
	if err != nil {
		return lightning.Invoice{}, err
	}
	inv := &lnInvoice{req: req, hash: hash, preimage: preimage, amount: amount, notify: make(chan struct{})}
	l.invoices[hash] = inv
	l.byReq[req] = inv
	l.created = append(l.created, hash)
	return lightning.Invoice{PaymentRequest: req, PaymentHash: hash, Amount: amount, Expiry: lightning.InvoiceExpiryTime}, nil
}

// ExternalInvoice creates an invoice that is NOT one of the mint's own (to be paid by a melt).
func ExternalInvoice(msat uint64) (req, hash string) {
	// CreateFakeInvoice takes sat; build msat-precision invoices through the same encoder
	r, _, h, err := createFakeInvoiceMsat(msat)
	must(err)
	return r, h
}

func (l *LN) Settle(hash string) {
	l.mu.Lock()
	defer l.mu.Unlock()
	if inv, ok := l.invoices[hash]; ok && !inv.settled {
		inv.settled = true
	}
}

// Notify lets the invoice subscription of hash deliver its (settled) update.
func (l *LN) Notify(hash string) {
	l.mu.Lock()
	defer l.mu.Unlock()
	if inv, ok := l.invoices[hash]; ok {
		select {
		case <-inv.notify:
		default:
			close(inv.notify)
		}
	}
}

func (l *LN) InvoiceStatus(hash string) (lightning.Invoice, error) {
	l.hook("LN.InvoiceStatus")
	l.mu.Lock()
	defer l.mu.Unlock()
	if l.InvoiceStatusErr {
		return lightning.Invoice{}, errors.New("scripted: invoice status error")
	}
	inv, ok := l.invoices[hash]
	if !ok {
		return lightning.Invoice{}, errors.New("invoice does not exist")
	}
	out := lightning.Invoice{PaymentRequest: inv.req, PaymentHash: inv.hash, Settled: inv.settled, Amount: inv.amount}
	if inv.settled {
		out.Preimage = inv.preimage
	}
	// an internal settlement reads the preimage from here as well
	out.Preimage = inv.preimage
	return out, nil
}

func (l *LN) nextPay(hash string) PayAnswer {
	sc := l.PayScript[hash]
	if len(sc) == 0 {
		return PayAnswer{Kind: 0, Preimage: "pre1"}
	}
	l.PayScript[hash] = sc[1:]
	return sc[0]
}

func (l *LN) record(hash string, a PayAnswer) PayAnswer {
	l.lastAnswer[hash] = a.Kind
	switch a.Kind {
	case 0:
		if !l.succeeded[hash] {
			l.succeeded[hash] = true
			l.successPreimage[hash] = a.Preimage
		}
	case 1, 4:
		l.refused[hash] = true
	}
	return a
}

func answerToStatus(a PayAnswer) (lightning.PaymentStatus, error) {
	switch a.Kind {
	case 0:
		return lightning.PaymentStatus{Preimage: a.Preimage, PaymentStatus: lightning.Succeeded}, nil
	case 1:
		return lightning.PaymentStatus{PaymentStatus: lightning.Failed, PaymentFailureReason: "scripted failure"}, nil
	case 2:
		return lightning.PaymentStatus{PaymentStatus: lightning.Pending}, nil
	case 4:
		return lightning.PaymentStatus{PaymentStatus: lightning.Failed}, lightning.OutgoingPaymentNotFound
	default:
		return lightning.PaymentStatus{}, errors.New("scripted: transport error")
	}
}

func (l *LN) SendPayment(ctx context.Context, request string, maxFee uint64) (lightning.PaymentStatus, error) {
	l.hook("LN.SendPayment")
	l.mu.Lock()
	defer l.mu.Unlock()
	bolt, err := decodepay.Decodepay(request)
	if err != nil {
		return lightning.PaymentStatus{}, err
	}
	l.PayCalls = append(l.PayCalls, PayCall{Request: request, Hash: bolt.PaymentHash, MaxFee: maxFee, AmountMsat: uint64(bolt.MSatoshi)})
	return answerToStatus(l.record(bolt.PaymentHash, l.nextPay(bolt.PaymentHash)))
}

func (l *LN) PayPartialAmount(ctx context.Context, request string, amountMsat, maxFee uint64) (lightning.PaymentStatus, error) {
	l.hook("LN.PayPartialAmount")
	l.mu.Lock()
	defer l.mu.Unlock()
	bolt, err := decodepay.Decodepay(request)
	if err != nil {
		return lightning.PaymentStatus{}, err
	}
	l.PayCalls = append(l.PayCalls, PayCall{Request: request, Hash: bolt.PaymentHash, MaxFee: maxFee, AmountMsat: amountMsat, Partial: true})
	return answerToStatus(l.record(bolt.PaymentHash, l.nextPay(bolt.PaymentHash)))
}

func (l *LN) OutgoingPaymentStatus(ctx context.Context, hash string) (lightning.PaymentStatus, error) {
	l.hook("LN.OutgoingPaymentStatus")
	l.mu.Lock()
	defer l.mu.Unlock()
	l.LookCalls++
	sc := l.LookScript[hash]
	if len(sc) == 0 {
		l.record(hash, PayAnswer{Kind: 3})
		return lightning.PaymentStatus{}, errors.New("scripted: lookup error")
	}
	l.LookScript[hash] = sc[1:]
	return answerToStatus(l.record(hash, sc[0]))
}

func (l *LN) FeeReserve(amount uint64) uint64 { return l.FeeFn(amount) }

type lnSub struct {
	ctx  context.Context
	l    *LN
	inv  *lnInvoice
	fire bool
}

func (s *lnSub) Recv() (lightning.Invoice, error) {
	if s.inv == nil {
		return lightning.Invoice{}, errors.New("invoice does not exist")
	}
	if s.fire {
		s.l.mu.Lock()
		defer s.l.mu.Unlock()
		return lightning.Invoice{PaymentRequest: s.inv.req, PaymentHash: s.inv.hash, Settled: true,
			Preimage: s.inv.preimage, Amount: s.inv.amount}, nil
	}
	select {
	case <-s.ctx.Done():
		return lightning.Invoice{}, s.ctx.Err()
	case <-s.inv.notify:
		s.l.mu.Lock()
		defer s.l.mu.Unlock()
		return lightning.Invoice{PaymentRequest: s.inv.req, PaymentHash: s.inv.hash, Settled: s.inv.settled,
			Preimage: s.inv.preimage, Amount: s.inv.amount}, nil
	}
}

func (l *LN) SubscribeInvoice(ctx context.Context, paymentHash string) (lightning.InvoiceSubscriptionClient, error) {
	l.mu.Lock()
	defer l.mu.Unlock()
	l.subCount[paymentHash]++
	return &lnSub{ctx: ctx, l: l, inv: l.invoices[paymentHash], fire: l.fireNow != "" && l.fireNow == paymentHash}, nil
}

// ---------------- mint fixture ----------------

type TM struct {
	Dir     string
	M       *mint.Mint
	LN      *LN
	Cfg     mint.Config
	Seed    []byte
	Keysets map[string]*crypto.MintKeyset // derived by the harness from the seed (private keys included)
	Order   []string                      // keyset ids by derivation index
}

var fixedSeed = func() []byte {
	h := sha256.Sum256([]byte("verif harness mint seed"))
	return h[:]
}()

// NewTM creates a mint on a fresh directory with a known seed.
func NewTM(scratch string, rng *rand.Rand, cfgmod func(*mint.Config)) *TM {
	dir, err := os.MkdirTemp(scratch, "mint")
	must(err)
	db, err := sqlite.InitSQLite(dir)
	must(err)
	must(db.SaveSeed(fixedSeed))
	must(db.Close())
	tm := &TM{Dir: dir, LN: NewLN(rng), Seed: fixedSeed}
	tm.Cfg = mint.Config{MintPath: dir, LogLevel: mint.Disable, LightningClient: tm.LN}
	if cfgmod != nil {
		cfgmod(&tm.Cfg)
	}
	tm.Load()
	return tm
}

// Load (re)starts the mint on its directory.
func (tm *TM) Load() {
	m, err := mint.LoadMint(tm.Cfg)
	if err != nil {
		panic(fmt.Sprintf("LoadMint: %v", err))
	}
	tm.M = m
	tm.deriveKeysets()
}

func (tm *TM) Restart() {
	tm.M.Shutdown()
	tm.Load()
}

func (tm *TM) Close() {
	if tm.M != nil {
		tm.M.Shutdown()
	}
	os.RemoveAll(tm.Dir)
}

func (tm *TM) deriveKeysets() {
	master, err := hdkeychain.NewMaster(tm.Seed, &chaincfg.MainNetParams)
	must(err)
	list := tm.M.ListKeysets().Keysets
	tm.Keysets = map[string]*crypto.MintKeyset{}
	want := map[string]bool{}
	for _, k := range list {
		want[k.Id] = true
	}
	tm.Order = nil
	for idx := uint32(0); idx < uint32(len(list))+4 && len(tm.Keysets) < len(list); idx++ {
		ks, err := crypto.GenerateKeyset(master, idx, 0, false)
		must(err)
		if want[ks.Id] {
			tm.Keysets[ks.Id] = ks
			tm.Order = append(tm.Order, ks.Id)
		}
	}
	for _, k := range list {
		if ks, ok := tm.Keysets[k.Id]; ok {
			ks.Active = k.Active
			ks.InputFeePpk = k.InputFeePpk
		}
	}
}

func (tm *TM) ActiveId() string {
	return tm.M.GetActiveKeyset().Id
}

// SignDirect makes a valid proof for (secret, amount) on keyset id with the mint's own key,
// without going through the mint (no blind signature is recorded).
func (tm *TM) SignDirect(secret string, amount uint64, id string) cashu.Proof {
	ks := tm.Keysets[id]
	kp, ok := ks.Keys[amount]
	if !ok {
		panic("no key for amount")
	}
	Y, err := crypto.HashToCurve([]byte(secret))
	must(err)
	C := crypto.SignBlindedMessage(Y, kp.PrivateKey)
	return cashu.Proof{Amount: amount, Id: id, Secret: secret, C: hex.EncodeToString(C.SerializeCompressed())}
}

func randHex(rng *rand.Rand, n int) string {
	b := make([]byte, n)
	rng.Read(b)
	return hex.EncodeToString(b)
}

// Blind returns a blinded message for secret with a random blinding factor.
func Blind(rng *rand.Rand, secret string, amount uint64, id string) (cashu.BlindedMessage, *secp256k1.PrivateKey) {
	rb := make([]byte, 32)
	rng.Read(rb)
	r := secp256k1.PrivKeyFromBytes(rb)
	B_, _, err := crypto.BlindMessage(secret, r)
	must(err)
	return cashu.NewBlindedMessage(id, amount, B_), r
}

func Yhex(secret string) string {
	Y, err := crypto.HashToCurve([]byte(secret))
	must(err)
	return hex.EncodeToString(Y.SerializeCompressed())
}

func sortedKeys[V any](m map[string]V) []string {
	ks := make([]string, 0, len(m))
	for k := range m {
		ks = append(ks, k)
	}
	sort.Strings(ks)
	return ks
}

var _ = filepath.Join

// WaitSubscribed waits until the mint's own background watcher for the invoice has opened its subscription.
// (RequestMintQuote starts it in a goroutine; it must not pick up a later "deliver at once" instruction that is
// meant for a watcher run the harness schedules explicitly.)
func (l *LN) WaitSubscribed(hash string) {
	for i := 0; i < 2000; i++ {
		l.mu.Lock()
		n := l.subCount[hash]
		l.mu.Unlock()
		if n > 0 {
			return
		}
		time.Sleep(time.Millisecond)
	}
}
