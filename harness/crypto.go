package main

// C10 / C11 / C09 (key derivation part) — bit-level crypto streams.
//
// Every case is `(4 <case>)` for Crypto/CryptoCodec.v run_crypto; the observation is what the real
// gonuts / dcrd / hdkeychain code returned.  The Coq side is the spec-shaped model proved equal to
// the declarative specs (Props/C11.v) resp. the secp256k1 instance of the abstract BDHKE/DLEQ
// definitions of Props/C10.v (Crypto/BDHKEsecp.v).
//
//   c11-h2c       crypto.HashToCurve                                   vs case 1
//   c11-keysetid  crypto.DeriveKeysetId                                vs case 2
//   c11-nut13     hdkeychain.NewMaster + nut13.DeriveKeysetPath/DeriveSecret/DeriveBlindingFactor vs case 3
//   c11-prims     sha256, sha512, hmac-sha512, k*G, ParsePubKey, BIP32 chains (hdkeychain vs the
//                 hdkeychain-shaped AND the BIP32-text-shaped model), k*P with unreduced k,
//                 PrivKeyFromBytes                                     vs cases 5..13, 29
//   c09-keygen    crypto.GenerateKeyset: 60 private/public keys + id   vs case 4
//   c10-bdhke     crypto.BlindMessage/SignBlindedMessage/UnblindSignature/Verify/HashE/
//                 GenerateDLEQ/VerifyDLEQ, nut12.VerifyProofDLEQ/VerifyBlindSignatureDLEQ,
//                 single-field tamperings                              vs cases 20..29

import (
	"sync/atomic"
	"sync"
	"bytes"
	"crypto/hmac"
	"crypto/sha256"
	"crypto/sha512"
	"encoding/binary"
	"encoding/hex"
	"fmt"
	"math/big"
	"math/rand"
	"sort"
	"strings"
	"time"

	"github.com/btcsuite/btcd/btcutil/hdkeychain"
	"github.com/btcsuite/btcd/chaincfg"
	"github.com/decred/dcrd/dcrec/secp256k1/v4"
	"github.com/elnosh/gonuts/cashu"
	"github.com/elnosh/gonuts/cashu/nuts/nut12"
	"github.com/elnosh/gonuts/cashu/nuts/nut13"
	"github.com/elnosh/gonuts/crypto"
	"github.com/tyler-smith/go-bip39"
)

const cryFamily = 4

func cryCase(items ...S) S { return L(A(cryFamily), L(items...)) }

var (
	cryN, _  = new(big.Int).SetString("FFFFFFFFFFFFFFFFFFFFFFFFFFFFFFFEBAAEDCE6AF48A03BBFD25E8CD0364141", 16)
	cryP, _  = new(big.Int).SetString("FFFFFFFFFFFFFFFFFFFFFFFFFFFFFFFFFFFFFFFFFFFFFFFFFFFFFFFEFFFFFC2F", 16)
	cryPanic = L(A(-1)) // the code under test panicked where the model has no panic outcome
)

func cryBig(b *big.Int) S { return AS(b.String()) }

func cryRandBytes(rng *rand.Rand, n int) []byte {
	b := make([]byte, n)
	for i := range b {
		b[i] = byte(rng.Intn(256))
	}
	return b
}

// a uniformly random scalar in [1, n-1]
func cryRandScalar(rng *rand.Rand) *big.Int {
	for {
		k := new(big.Int).SetBytes(cryRandBytes(rng, 32))
		if k.Sign() > 0 && k.Cmp(cryN) < 0 {
			return k
		}
	}
}

func cryBytes32(k *big.Int) []byte {
	b := make([]byte, 32)
	k.FillBytes(b)
	return b
}

func cryPriv(k *big.Int) *secp256k1.PrivateKey { return secp256k1.PrivKeyFromBytes(cryBytes32(k)) }

func cryRandPoint(rng *rand.Rand) *secp256k1.PublicKey { return cryPriv(cryRandScalar(rng)).PubKey() }

func cryHex(s string) []byte {
	b, err := hex.DecodeString(s)
	must(err)
	return b
}

func cryLenBucket(n int) string {
	switch {
	case n == 0:
		return "0"
	case n == 1:
		return "1"
	case n < 32:
		return "2-31"
	case n == 32:
		return "32"
	case n < 64:
		return "33-63"
	case n == 64:
		return "64"
	case n < 512:
		return "65-511"
	case n == 512:
		return "512"
	}
	return ">512"
}

// ---------------------------------------------------------------------------------------------
// c11-h2c
// ---------------------------------------------------------------------------------------------

func crySafeH2C(msg []byte) (pk *secp256k1.PublicKey, err error, pan any) {
	defer func() {
		if r := recover(); r != nil {
			pan = r
		}
	}()
	pk, err = crypto.HashToCurve(msg)
	return
}

// NUT-00 written independently: the least counter (uint32 LE, below 2^16) for which
// 02 || SHA256(SHA256(domain || msg) || counter) is a compressed point.  Returns the point
// bytes and the counter, or (nil, -1).
func cryRefH2C(msg []byte) ([]byte, int) {
	h := sha256.New()
	h.Write([]byte("Secp256k1_HashToCurve_Cashu_"))
	h.Write(msg)
	msgHash := h.Sum(nil)
	for c := 0; c < 1<<16; c++ {
		var cb [4]byte
		cb[0], cb[1], cb[2], cb[3] = byte(c), byte(c>>8), byte(c>>16), byte(c>>24)
		d := sha256.Sum256(append(append([]byte{}, msgHash...), cb[:]...))
		cand := append([]byte{2}, d[:]...)
		// x is a valid abscissa iff x < p and x^3+7 is a square mod p
		x := new(big.Int).SetBytes(d[:])
		if x.Cmp(cryP) >= 0 {
			continue
		}
		y2 := new(big.Int).Exp(x, big.NewInt(3), cryP)
		y2.Add(y2, big.NewInt(7)).Mod(y2, cryP)
		if y2.Sign() == 0 || big.Jacobi(y2, cryP) == 1 {
			return cand, c
		}
	}
	return nil, -1
}

func cryH2CCase(sink *Sink, msg []byte, kind string) int {
	c := cryCase(A(1), bytesS(msg))
	pk, err, pan := crySafeH2C(msg)
	ref, iters := cryRefH2C(msg)
	var obs S
	switch {
	case pan != nil:
		obs = cryPanic
		sink.Violate("c11-h2c-panic", fmt.Sprint(pan), c.String(), hex.EncodeToString(msg))
	case err != nil:
		obs = L(A(0))
		if ref != nil {
			sink.Violate("c11-h2c-error-but-point-exists", err.Error(), c.String(), hex.EncodeToString(msg))
		}
	default:
		out := pk.SerializeCompressed()
		obs = L(A(1), bytesS(out))
		if !bytes.Equal(out, ref) {
			sink.Violate("c11-h2c-not-least-counter", fmt.Sprintf("got %x, NUT-00 reference (counter %d) %x", out, iters, ref),
				c.String(), hex.EncodeToString(msg))
		}
		if !pk.IsOnCurve() {
			sink.Violate("c11-h2c-off-curve", fmt.Sprintf("%x", out), c.String(), hex.EncodeToString(msg))
		}
	}
	sink.Add(c, obs, iters >= 1)
	sink.Stat("kind=" + kind)
	sink.Stat("len=" + cryLenBucket(len(msg)))
	if iters >= 4 {
		sink.Stat("failed-counters>=4")
	} else {
		sink.Stat(fmt.Sprintf("failed-counters=%d", iters))
	}
	return iters
}

func streamC11H2C(sink *Sink, rng *rand.Rand, tier string, scratch string) {
	start := time.Now()
	n := 8000
	if tier == "thorough" {
		n = 80000
	}
	// the repository's vectors (crypto/bdhke_test.go) and the third NUT-00 vector
	for _, m := range []string{
		"0000000000000000000000000000000000000000000000000000000000000000",
		"0000000000000000000000000000000000000000000000000000000000000001",
		"0000000000000000000000000000000000000000000000000000000000000002"} {
		cryH2CCase(sink, cryHex(m), "vector")
	}
	cryH2CCase(sink, []byte("test_message"), "vector")
	cryH2CCase(sink, nil, "edge")
	for b := 0; b < 256; b++ {
		cryH2CCase(sink, []byte{byte(b)}, "one-byte")
	}
	// messages that need many iterations: search
	want := 40
	if tier == "thorough" {
		want = 400
	}
	found := 0
	for tries := 0; found < want && tries < 200000; tries++ {
		m := cryRandBytes(rng, []int{1, 8, 32, 64}[rng.Intn(4)])
		if _, it := cryRefH2C(m); it >= 4 {
			cryH2CCase(sink, m, "searched-many-iterations")
			found++
		}
	}
	for i := 0; i < n; i++ {
		var m []byte
		switch rng.Intn(8) {
		case 0:
			m = cryRandBytes(rng, 32)
		case 1:
			m = []byte(hex.EncodeToString(cryRandBytes(rng, 32))) // the usual secret: 64 hex characters
		case 2:
			m = cryRandBytes(rng, 512)
		case 3:
			m = cryRandBytes(rng, rng.Intn(8))
		case 4:
			m = cryRandBytes(rng, 55+rng.Intn(12)) // around the SHA-256 padding boundary (28 + len)
		case 5:
			m = cryRandBytes(rng, 20+rng.Intn(20))
		case 6:
			m = bytes.Repeat([]byte{byte(rng.Intn(256))}, rng.Intn(200))
		default:
			m = cryRandBytes(rng, rng.Intn(1200))
		}
		cryH2CCase(sink, m, "random")
	}
	sink.Close("message for which at least one counter fails before a point is found", false, start)
}

// ---------------------------------------------------------------------------------------------
// c11-keysetid
// ---------------------------------------------------------------------------------------------

type cryKey struct {
	amount uint64
	pk     *secp256k1.PublicKey
}

func crySafeKeysetId(ks crypto.PublicKeys) (id string, pan any) {
	defer func() {
		if r := recover(); r != nil {
			pan = r
		}
	}()
	id = crypto.DeriveKeysetId(ks)
	return
}

// NUT-02 written independently: ascending numeric amounts, concatenation, SHA-256, "00"+14 hex digits
func cryRefKeysetId(keys []cryKey) string {
	amounts := make([]*big.Int, len(keys))
	byAmount := map[string][]byte{}
	for i, k := range keys {
		amounts[i] = new(big.Int).SetUint64(k.amount)
		byAmount[amounts[i].String()] = k.pk.SerializeCompressed()
	}
	sort.Slice(amounts, func(i, j int) bool { return amounts[i].Cmp(amounts[j]) < 0 })
	h := sha256.New()
	for _, a := range amounts {
		h.Write(byAmount[a.String()])
	}
	return "00" + hex.EncodeToString(h.Sum(nil))[:14]
}

func cryKeysetIdCase(sink *Sink, keys []cryKey, kind string) {
	items := make([]S, len(keys))
	m := crypto.PublicKeys{}
	dec := make([]string, len(keys))
	for i, k := range keys {
		items[i] = L(AU(k.amount), bytesS(k.pk.SerializeCompressed()))
		m[k.amount] = k.pk
		dec[i] = fmt.Sprint(k.amount)
	}
	c := cryCase(A(2), LL(items))
	id, pan := crySafeKeysetId(m)
	if pan != nil {
		sink.Violate("c11-keysetid-panic", fmt.Sprint(pan), c.String(), nil)
		sink.Add(c, cryPanic, true)
		return
	}
	if ref := cryRefKeysetId(keys); ref != id {
		sink.Violate("c11-keysetid-differs-from-nut02", fmt.Sprintf("got %s, NUT-02 reference %s", id, ref), c.String(), nil)
	}
	// does the numeric order differ from the lexical order of the decimal amounts?
	lex := append([]string{}, dec...)
	sort.Strings(lex)
	num := append([]cryKey{}, keys...)
	sort.Slice(num, func(i, j int) bool { return num[i].amount < num[j].amount })
	differs := false
	for i := range num {
		if fmt.Sprint(num[i].amount) != lex[i] {
			differs = true
		}
	}
	sink.Add(c, bytesS([]byte(id)), differs)
	sink.Stat("kind=" + kind)
	sink.Stat(fmt.Sprintf("numeric-vs-lexical-differ=%v", differs))
	switch {
	case len(keys) == 1:
		sink.Stat("keys=1")
	case len(keys) <= 8:
		sink.Stat("keys=2-8")
	case len(keys) < 64:
		sink.Stat("keys=9-63")
	default:
		sink.Stat("keys=64")
	}
}

func cryParsePoint(h string) *secp256k1.PublicKey {
	pk, err := secp256k1.ParsePubKey(cryHex(h))
	must(err)
	return pk
}

func streamC11KeysetId(sink *Sink, rng *rand.Rand, tier string, scratch string) {
	start := time.Now()
	n := 3000
	if tier == "thorough" {
		n = 30000
	}
	// crypto/keyset_test.go TestDeriveKeysetId
	v1 := []cryKey{
		{1, cryParsePoint("03a40f20667ed53513075dc51e715ff2046cad64eb68960632269ba7f0210e38bc")},
		{2, cryParsePoint("03fd4ce5a16b65576145949e6f99f445f8249fee17c606b688b504a849cdc452de")},
		{4, cryParsePoint("02648eccfa4c026960966276fa5a4cae46ce0fd432211a4f449bf84f13aa5f8303")},
		{8, cryParsePoint("02fdfd6796bfeac490cbee12f778f867f0a2c68f6508d17c649759ea0dc3547528")},
	}
	cryKeysetIdCase(sink, v1, "vector")
	v2 := make([]cryKey, len(cryKeysetVector2))
	for i, h := range cryKeysetVector2 {
		v2[i] = cryKey{uint64(1) << uint(i), cryParsePoint(h)}
	}
	cryKeysetIdCase(sink, v2, "vector")
	pool := make([]*secp256k1.PublicKey, 256)
	for i := range pool {
		pool[i] = cryRandPoint(rng)
	}
	for i := 0; i < n; i++ {
		cnt := 1 + rng.Intn(64)
		if rng.Intn(6) == 0 {
			cnt = 64
		}
		seen := map[uint64]bool{}
		keys := []cryKey{}
		for len(keys) < cnt {
			var a uint64
			switch rng.Intn(7) {
			case 0:
				a = uint64(rng.Intn(120)) // small: 9 < 10 < 100 numerically, "10" < "100" < "9" lexically
			case 1:
				a = uint64(1) << uint(rng.Intn(64))
			case 2:
				a = (uint64(1) << uint(rng.Intn(64))) + uint64(rng.Intn(3)) - 1
			case 3:
				a = rng.Uint64() // often above 2^63
			case 4:
				a = uint64(rng.Intn(1000000))
			case 5:
				a = ^uint64(0) - uint64(rng.Intn(3))
			default:
				a = uint64(3) * uint64(rng.Intn(1<<30))
			}
			if seen[a] {
				continue
			}
			seen[a] = true
			keys = append(keys, cryKey{a, pool[rng.Intn(len(pool))]})
		}
		cryKeysetIdCase(sink, keys, "random")
	}
	sink.Close("key set whose ascending numeric order differs from the lexical order of the decimal amounts", false, start)
}

// crypto/keyset_test.go TestDeriveKeysetId, second vector: key of amount 2^i at index i
var cryKeysetVector2 = []string{
	"03ba786a2c0745f8c30e490288acd7a72dd53d65afd292ddefa326a4a3fa14c566",
	"03361cd8bd1329fea797a6add1cf1990ffcf2270ceb9fc81eeee0e8e9c1bd0cdf5",
	"036e378bcf78738ddf68859293c69778035740e41138ab183c94f8fee7572214c7",
	"03909d73beaf28edfb283dbeb8da321afd40651e8902fcf5454ecc7d69788626c0",
	"028a36f0e6638ea7466665fe174d958212723019ec08f9ce6898d897f88e68aa5d",
	"03a97a40e146adee2687ac60c2ba2586a90f970de92a9d0e6cae5a4b9965f54612",
	"03ce86f0c197aab181ddba0cfc5c5576e11dfd5164d9f3d4a3fc3ffbbf2e069664",
	"0284f2c06d938a6f78794814c687560a0aabab19fe5e6f30ede38e113b132a3cb9",
	"03b99f475b68e5b4c0ba809cdecaae64eade2d9787aa123206f91cd61f76c01459",
	"03d4db82ea19a44d35274de51f78af0a710925fe7d9e03620b84e3e9976e3ac2eb",
	"031fbd4ba801870871d46cf62228a1b748905ebc07d3b210daf48de229e683f2dc",
	"0276cedb9a3b160db6a158ad4e468d2437f021293204b3cd4bf6247970d8aff54b",
	"02fc6b89b403ee9eb8a7ed457cd3973638080d6e04ca8af7307c965c166b555ea2",
	"0320265583e916d3a305f0d2687fcf2cd4e3cd03a16ea8261fda309c3ec5721e21",
	"036e41de58fdff3cb1d8d713f48c63bc61fa3b3e1631495a444d178363c0d2ed50",
	"0365438f613f19696264300b069d1dad93f0c60a37536b72a8ab7c7366a5ee6c04",
	"02408426cfb6fc86341bac79624ba8708a4376b2d92debdf4134813f866eb57a8d",
	"031063e9f11c94dc778c473e968966eac0e70b7145213fbaff5f7a007e71c65f41",
	"02f2a3e808f9cd168ec71b7f328258d0c1dda250659c1aced14c7f5cf05aab4328",
	"038ac10de9f1ff9395903bb73077e94dbf91e9ef98fd77d9a2debc5f74c575bc86",
	"0203eaee4db749b0fc7c49870d082024b2c31d889f9bc3b32473d4f1dfa3625788",
	"033cdb9d36e1e82ae652b7b6a08e0204569ec7ff9ebf85d80a02786dc7fe00b04c",
	"02c8b73f4e3a470ae05e5f2fe39984d41e9f6ae7be9f3b09c9ac31292e403ac512",
	"025bbe0cfce8a1f4fbd7f3a0d4a09cb6badd73ef61829dc827aa8a98c270bc25b0",
	"037eec3d1651a30a90182d9287a5c51386fe35d4a96839cf7969c6e2a03db1fc21",
	"03280576b81a04e6abd7197f305506476f5751356b7643988495ca5c3e14e5c262",
	"03268bfb05be1dbb33ab6e7e00e438373ca2c9b9abc018fdb452d0e1a0935e10d3",
	"02573b68784ceba9617bbcc7c9487836d296aa7c628c3199173a841e7a19798020",
	"0234076b6e70f7fbf755d2227ecc8d8169d662518ee3a1401f729e2a12ccb2b276",
	"03015bd88961e2a466a2163bd4248d1d2b42c7c58a157e594785e7eb34d880efc9",
	"02c9b076d08f9020ebee49ac8ba2610b404d4e553a4f800150ceb539e9421aaeee",
	"034d592f4c366afddc919a509600af81b489a03caf4f7517c2b3f4f2b558f9a41a",
	"037c09ecb66da082981e4cbdb1ac65c0eb631fc75d85bed13efb2c6364148879b5",
	"02b4ebb0dda3b9ad83b39e2e31024b777cc0ac205a96b9a6cfab3edea2912ed1b3",
	"026cc4dacdced45e63f6e4f62edbc5779ccd802e7fabb82d5123db879b636176e9",
	"02b2cee01b7d8e90180254459b8f09bbea9aad34c3a2fd98c85517ecfc9805af75",
	"037a0c0d564540fc574b8bfa0253cca987b75466e44b295ed59f6f8bd41aace754",
	"021df6585cae9b9ca431318a713fd73dbb76b3ef5667957e8633bca8aaa7214fb6",
	"02b8f53dde126f8c85fa5bb6061c0be5aca90984ce9b902966941caf963648d53a",
	"029cc8af2840d59f1d8761779b2496623c82c64be8e15f9ab577c657c6dd453785",
	"03e446fdb84fad492ff3a25fc1046fb9a93a5b262ebcd0151caa442ea28959a38a",
	"02d6b25bd4ab599dd0818c55f75702fde603c93f259222001246569018842d3258",
	"03397b522bb4e156ec3952d3f048e5a986c20a00718e5e52cd5718466bf494156a",
	"02d1fb9e78262b5d7d74028073075b80bb5ab281edcfc3191061962c1346340f1e",
	"030d3f2ad7a4ca115712ff7f140434f802b19a4c9b2dd1c76f3e8e80c05c6a9310",
	"03e325b691f292e1dfb151c3fb7cad440b225795583c32e24e10635a80e4221c06",
	"03bee8f64d88de3dee21d61f89efa32933da51152ddbd67466bef815e9f93f8fd1",
	"0327244c9019a4892e1f04ba3bf95fe43b327479e2d57c25979446cc508cd379ed",
	"02fb58522cd662f2f8b042f8161caae6e45de98283f74d4e99f19b0ea85e08a56d",
	"02adde4b466a9d7e59386b6a701a39717c53f30c4810613c1b55e6b6da43b7bc9a",
	"038eeda11f78ce05c774f30e393cda075192b890d68590813ff46362548528dca9",
	"02ec13e0058b196db80f7079d329333b330dc30c000dbdd7397cbbc5a37a664c4f",
	"02d2d162db63675bd04f7d56df04508840f41e2ad87312a3c93041b494efe80a73",
	"0356969d6aef2bb40121dbd07c68b6102339f4ea8e674a9008bb69506795998f49",
	"02f4e667567ebb9f4e6e180a4113bb071c48855f657766bb5e9c776a880335d1d6",
	"0385b4fe35e41703d7a657d957c67bb536629de57b7e6ee6fe2130728ef0fc90b0",
	"02b2bc1968a6fddbcc78fb9903940524824b5f5bed329c6ad48a19b56068c144fd",
	"02e0dbb24f1d288a693e8a49bc14264d1276be16972131520cf9e055ae92fba19a",
	"03efe75c106f931a525dc2d653ebedddc413a2c7d8cb9da410893ae7d2fa7d19cc",
	"02c7ec2bd9508a7fc03f73c7565dc600b30fd86f3d305f8f139c45c404a52d958a",
	"035a6679c6b25e68ff4e29d1c7ef87f21e0a8fc574f6a08c1aa45ff352c1d59f06",
	"033cdc225962c052d485f7cfbf55a5b2367d200fe1fe4373a347deb4cc99e9a099",
	"024a4b806cf413d14b294719090a9da36ba75209c7657135ad09bc65328fba9e6f",
	"0377a6fe114e291a8d8e991627c38001c8305b23b9e98b1c7b1893f5cd0dda6cad",
}

// ---------------------------------------------------------------------------------------------
// reference BIP32 / NUT-13 (math/big + crypto/hmac), used by the monitors
// ---------------------------------------------------------------------------------------------

type cryRefKey struct {
	k     *big.Int
	chain []byte
}

func cryRefMaster(seed []byte) *cryRefKey {
	if len(seed) < 16 || len(seed) > 64 {
		return nil
	}
	mac := hmac.New(sha512.New, []byte("Bitcoin seed"))
	mac.Write(seed)
	I := mac.Sum(nil)
	k := new(big.Int).SetBytes(I[:32])
	if k.Sign() == 0 || k.Cmp(cryN) >= 0 {
		return nil
	}
	return &cryRefKey{k, I[32:]}
}

// CKDpriv of BIP32
func cryRefCKD(par *cryRefKey, i uint32) *cryRefKey {
	var data []byte
	if i >= 0x80000000 {
		data = append([]byte{0}, cryBytes32(par.k)...)
	} else {
		data = cryPriv(par.k).PubKey().SerializeCompressed()
	}
	var ib [4]byte
	binary.BigEndian.PutUint32(ib[:], i)
	data = append(data, ib[:]...)
	mac := hmac.New(sha512.New, par.chain)
	mac.Write(data)
	I := mac.Sum(nil)
	il := new(big.Int).SetBytes(I[:32])
	if il.Cmp(cryN) >= 0 {
		return nil
	}
	ki := new(big.Int).Add(il, par.k)
	ki.Mod(ki, cryN)
	if ki.Sign() == 0 {
		return nil
	}
	return &cryRefKey{ki, I[32:]}
}

func cryRefPath(k *cryRefKey, path []uint32) *cryRefKey {
	for _, i := range path {
		if k == nil {
			return nil
		}
		k = cryRefCKD(k, i)
	}
	return k
}

// NUT-13: m/129372'/0'/(int(id) mod 2^31-1)'/counter'/{0,1}; id = 8 bytes, counter < 2^31
func cryRefNut13(seed, id []byte, counter uint32) (secret string, r []byte, ok bool) {
	m := cryRefMaster(seed)
	if m == nil {
		return "", nil, false
	}
	idInt := new(big.Int).SetBytes(id)
	idInt.Mod(idInt, big.NewInt(2147483647))
	h := uint32(0x80000000)
	base := []uint32{h + 129372, h, h + uint32(idInt.Uint64()), h + counter}
	ks := cryRefPath(m, append(append([]uint32{}, base...), 0))
	kr := cryRefPath(m, append(append([]uint32{}, base...), 1))
	if ks == nil || kr == nil {
		return "", nil, false
	}
	return hex.EncodeToString(cryBytes32(ks.k)), cryBytes32(kr.k), true
}

// ---------------------------------------------------------------------------------------------
// c11-nut13
// ---------------------------------------------------------------------------------------------

type cryNut13Res struct {
	outcome int // 1 ok, 0 error, 2 panic
	secret  string
	r       []byte
	detail  string
}

func cryRealNut13(seed []byte, id string, counter uint32) (res cryNut13Res) {
	defer func() {
		if p := recover(); p != nil {
			res = cryNut13Res{outcome: 2, detail: fmt.Sprint(p)}
		}
	}()
	master, err := hdkeychain.NewMaster(seed, &chaincfg.MainNetParams)
	if err != nil {
		return cryNut13Res{outcome: 0, detail: err.Error()}
	}
	kp, err := nut13.DeriveKeysetPath(master, id)
	if err != nil {
		return cryNut13Res{outcome: 0, detail: err.Error()}
	}
	secret, err := nut13.DeriveSecret(kp, counter)
	if err != nil {
		return cryNut13Res{outcome: 0, detail: err.Error()}
	}
	rk, err := nut13.DeriveBlindingFactor(kp, counter)
	if err != nil {
		return cryNut13Res{outcome: 0, detail: err.Error()}
	}
	return cryNut13Res{outcome: 1, secret: secret, r: rk.Serialize()}
}

func cryNut13Case(sink *Sink, seed []byte, id string, counter uint32, kind string) {
	c := cryCase(A(3), bytesS(seed), bytesS([]byte(id)), AU(uint64(counter)))
	res := cryRealNut13(seed, id, counter)
	var obs S
	switch res.outcome {
	case 1:
		obs = L(A(1), bytesS([]byte(res.secret)), bytesS(res.r))
	case 0:
		obs = L(A(0))
	default:
		obs = L(A(2))
	}
	idBytes, herr := hex.DecodeString(id)
	inSpec := herr == nil && len(idBytes) == 8 && counter < 1<<31
	if inSpec {
		secret, r, ok := cryRefNut13(seed, idBytes, counter)
		switch {
		case ok && (res.outcome != 1 || res.secret != secret || !bytes.Equal(res.r, r)):
			sink.Violate("c11-nut13-differs-from-reference",
				fmt.Sprintf("got outcome %d secret %s r %x (%s); NUT-13/BIP32 reference secret %s r %x", res.outcome, res.secret, res.r, res.detail, secret, r),
				c.String(), map[string]any{"seed": hex.EncodeToString(seed), "id": id, "counter": counter})
		case !ok && res.outcome == 1:
			sink.Violate("c11-nut13-value-where-reference-invalid", fmt.Sprintf("secret %s", res.secret), c.String(), nil)
		}
	}
	sink.Add(c, obs, inSpec && res.outcome == 1)
	sink.Stat("kind=" + kind)
	sink.Stat(fmt.Sprintf("outcome=%d", res.outcome))
	switch {
	case counter == 0:
		sink.Stat("counter=0")
	case counter == 1:
		sink.Stat("counter=1")
	case counter == 1<<31-1:
		sink.Stat("counter=2^31-1")
	case counter >= 1<<31:
		sink.Stat("counter>=2^31 (outside NUT-13)")
	default:
		sink.Stat("counter=other")
	}
	if herr == nil && len(idBytes) >= 1 && idBytes[0] >= 0x80 {
		sink.Stat("id-high-bit-set")
	}
	if herr == nil && len(idBytes) == 8 && new(big.Int).SetBytes(idBytes).Cmp(big.NewInt(2147483647)) >= 0 {
		sink.Stat("id>=2^31-1 (reduction matters)")
	}
}

func cryRandSeed(rng *rand.Rand) []byte {
	switch rng.Intn(10) {
	case 0:
		return cryRandBytes(rng, 16)
	case 1:
		return cryRandBytes(rng, 64)
	case 2:
		return cryRandBytes(rng, 16+rng.Intn(49))
	default:
		return cryRandBytes(rng, 32)
	}
}

func cryRandCounter(rng *rand.Rand) uint32 {
	switch rng.Intn(6) {
	case 0:
		return 0
	case 1:
		return 1
	case 2:
		return 1<<31 - 1
	case 3:
		return uint32(rng.Intn(1000))
	default:
		return uint32(rng.Int63n(1 << 31))
	}
}

func streamC11Nut13(sink *Sink, rng *rand.Rand, tier string, scratch string) {
	start := time.Now()
	n := 900
	if tier == "thorough" {
		n = 9000
	}
	// cashu/nuts/nut13/nut13_test.go TestSecretDerivation
	tseed := bip39.NewSeed("half depart obvious quality work element tank gorilla view sugar picture humble", "")
	for ctr := uint32(0); ctr < 5; ctr++ {
		cryNut13Case(sink, tseed, "009a1f293253e41e", ctr, "vector")
	}
	// outside the specified domain: the model mirrors the Go text
	cryNut13Case(sink, tseed, "009a1f293253e4", 0, "short-id")            // 7 bytes: index out of range
	cryNut13Case(sink, tseed, "", 0, "short-id")                          // 0 bytes
	cryNut13Case(sink, tseed, "009a1f293253e41", 0, "bad-hex")            // odd length
	cryNut13Case(sink, tseed, "009a1f293253e4zz", 0, "bad-hex")           //
	cryNut13Case(sink, tseed, "009A1F293253E41E", 0, "upper-case-id")     // same bytes
	cryNut13Case(sink, tseed, "009a1f293253e41e77", 0, "long-id")         // only the first 8 bytes are used
	cryNut13Case(sink, tseed, "009a1f293253e41e", 1<<31, "counter>=2^31") // wraps to a non-hardened child 0
	cryNut13Case(sink, tseed, "009a1f293253e41e", 1<<32-1, "counter>=2^31")
	cryNut13Case(sink, cryRandBytes(rng, 15), "009a1f293253e41e", 0, "bad-seed-length")
	cryNut13Case(sink, cryRandBytes(rng, 65), "009a1f293253e41e", 0, "bad-seed-length")
	for _, id := range []string{"ffffffffffffffff", "8000000000000000", "000000007fffffff", "000000007ffffffe", "0000000080000000",
		"00000000fffffffe", "0000000000000000", "7fffffff7fffffff"} {
		for _, ctr := range []uint32{0, 1, 1<<31 - 1} {
			cryNut13Case(sink, tseed, id, ctr, "edge-id")
		}
	}
	for i := 0; i < n; i++ {
		seed := cryRandSeed(rng)
		idb := cryRandBytes(rng, 8)
		switch rng.Intn(4) {
		case 0:
			idb[0] = 0 // version-00 ids as gonuts derives them
		case 1:
			idb[0] |= 0x80
		}
		id := hex.EncodeToString(idb)
		kind := "random"
		switch rng.Intn(30) {
		case 0:
			id = strings.ToUpper(id)
			kind = "upper-case-id"
		case 1:
			id = id[:2*rng.Intn(8)]
			kind = "short-id"
		case 2:
			id = id + hex.EncodeToString(cryRandBytes(rng, 1+rng.Intn(4)))
			kind = "long-id"
		case 3:
			b := []byte(id)
			b[rng.Intn(len(b))] = "gz -_"[rng.Intn(5)]
			id = string(b)
			kind = "bad-hex"
		}
		ctr := cryRandCounter(rng)
		if rng.Intn(40) == 0 {
			ctr = 1<<31 + uint32(rng.Int63n(1<<31))
			kind = "counter>=2^31"
		}
		cryNut13Case(sink, seed, id, ctr, kind)
	}
	sink.Close("valid seed, 8-byte id, counter < 2^31: a secret and a blinding factor are derived", false, start)
}

// ---------------------------------------------------------------------------------------------
// c11-prims
// ---------------------------------------------------------------------------------------------

func cryHdObs(k *hdkeychain.ExtendedKey) S {
	priv, err := k.ECPrivKey()
	if err != nil {
		return L(A(0))
	}
	pub, err := k.ECPubKey()
	if err != nil {
		return L(A(0))
	}
	return L(A(1), bytesS(priv.Serialize()), bytesS(k.ChainCode()), bytesS(pub.SerializeCompressed()))
}

func cryRealChain(seed []byte, path []uint32) (obs S) {
	defer func() {
		if p := recover(); p != nil {
			obs = cryPanic
		}
	}()
	k, err := hdkeychain.NewMaster(seed, &chaincfg.MainNetParams)
	if err != nil {
		return L(A(0))
	}
	for _, i := range path {
		k, err = k.Derive(i)
		if err != nil {
			return L(A(0))
		}
	}
	return cryHdObs(k)
}

func cryChainCase(sink *Sink, seed []byte, path []uint32, kind string) {
	items := make([]S, len(path))
	hardened, plain := 0, 0
	for i, p := range path {
		items[i] = AU(uint64(p))
		if p >= 1<<31 {
			hardened++
		} else {
			plain++
		}
	}
	obs := cryRealChain(seed, path)
	// reference
	if ref := cryRefPath(cryRefMaster(seed), path); ref != nil {
		want := L(A(1), bytesS(cryBytes32(ref.k)), bytesS(ref.chain), bytesS(cryPriv(ref.k).PubKey().SerializeCompressed()))
		if want.String() != obs.String() {
			sink.Violate("c11-bip32-differs-from-reference", "hdkeychain "+obs.String()+" reference "+want.String(),
				fmt.Sprintf("seed %x path %v", seed, path), nil)
		}
	}
	// the hdkeychain-shaped model and the BIP32-text-shaped model, both against hdkeychain
	sink.Add(cryCase(A(10), bytesS(seed), LL(items)), obs, plain > 0)
	sink.Add(cryCase(A(12), bytesS(seed), LL(items)), obs, plain > 0)
	sink.Stat("bip32:" + kind)
	sink.StatN("bip32-hardened-steps", hardened)
	sink.StatN("bip32-plain-steps", plain)
}

func cryParseObs(b []byte) (obs S) {
	defer func() {
		if p := recover(); p != nil {
			obs = cryPanic
		}
	}()
	pk, err := secp256k1.ParsePubKey(b)
	if err != nil {
		return L(A(0))
	}
	return L(A(1), cryBig(pk.X()), cryBig(pk.Y()))
}

// k*P through dcrd (k reduced modulo n, as every Go scalar is)
func cryMulObs(k *big.Int, P *secp256k1.PublicKey) S {
	var s secp256k1.ModNScalar
	s.SetByteSlice(cryBytes32(new(big.Int).Mod(k, cryN)))
	var p, r secp256k1.JacobianPoint
	P.AsJacobian(&p)
	secp256k1.ScalarMultNonConst(&s, &p, &r)
	r.ToAffine()
	if r.X.IsZero() && r.Y.IsZero() {
		return L(A(0))
	}
	return L(A(1), bytesS(secp256k1.NewPublicKey(&r.X, &r.Y).SerializeCompressed()))
}

func streamC11Prims(sink *Sink, rng *rand.Rand, tier string, scratch string) {
	start := time.Now()
	scale := 3
	if tier == "thorough" {
		scale = 30
	}
	// --- hashes
	lens := []int{0, 1, 2, 54, 55, 56, 57, 63, 64, 65, 110, 111, 112, 113, 119, 120, 127, 128, 129, 183, 184, 239, 240, 255, 256, 257, 1000}
	for rep := 0; rep < 2*scale; rep++ {
		for _, l := range lens {
			m := cryRandBytes(rng, l)
			d := sha256.Sum256(m)
			sink.Add(cryCase(A(5), bytesS(m)), bytesS(d[:]), l > 55)
			d5 := sha512.Sum512(m)
			sink.Add(cryCase(A(7), bytesS(m)), bytesS(d5[:]), l > 111)
			sink.Stat("sha256")
			sink.Stat("sha512")
		}
	}
	for i := 0; i < 60*scale; i++ {
		key := cryRandBytes(rng, []int{0, 1, 32, 64, 127, 128, 129, 200}[rng.Intn(8)])
		m := cryRandBytes(rng, rng.Intn(300))
		mac := hmac.New(sha512.New, key)
		mac.Write(m)
		sink.Add(cryCase(A(6), bytesS(key), bytesS(m)), bytesS(mac.Sum(nil)), len(key) > 128)
		sink.Stat("hmac-sha512")
	}
	// --- k*G
	nm1 := new(big.Int).Sub(cryN, big.NewInt(1))
	ks := []*big.Int{big.NewInt(1), big.NewInt(2), big.NewInt(3), nm1, new(big.Int).Sub(cryN, big.NewInt(2)),
		new(big.Int).Rsh(cryN, 1), new(big.Int).Lsh(big.NewInt(1), 255)}
	for i := 0; i < 60*scale; i++ {
		ks = append(ks, cryRandScalar(rng))
	}
	for _, k := range ks {
		sink.Add(cryCase(A(8), cryBig(k)), bytesS(cryPriv(k).PubKey().SerializeCompressed()), true)
		sink.Stat("k*G")
	}
	// --- k*P with k not reduced: n*P is infinity, (n+k)*P = k*P
	two256m1 := new(big.Int).Sub(new(big.Int).Lsh(big.NewInt(1), 256), big.NewInt(1))
	G := cryPriv(big.NewInt(1)).PubKey()
	type kp struct {
		k *big.Int
		P *secp256k1.PublicKey
	}
	kps := []kp{{cryN, G}, {nm1, G}, {big.NewInt(0), G}, {new(big.Int).Add(cryN, big.NewInt(1)), G}, {two256m1, G},
		{new(big.Int).Lsh(cryN, 1), G}, {new(big.Int).Mul(cryN, big.NewInt(3)), G}}
	for i := 0; i < 8*scale; i++ {
		P := cryRandPoint(rng)
		kps = append(kps, kp{cryN, P}, kp{nm1, P}, kp{new(big.Int).Add(cryN, cryRandScalar(rng)), P}, kp{two256m1, P})
	}
	for i := 0; i < 60*scale; i++ {
		kps = append(kps, kp{cryRandScalar(rng), cryRandPoint(rng)})
	}
	for i, x := range kps {
		sink.Add(cryCase(A(11), cryBig(x.k), bytesS(x.P.SerializeCompressed())), cryMulObs(x.k, x.P), x.k.Cmp(cryN) >= 0)
		if i < 12 || i%4 == 0 { // the affine textbook version of the model (six times slower) on a part of the cases
			sink.Add(cryCase(A(13), cryBig(x.k), bytesS(x.P.SerializeCompressed())), cryMulObs(x.k, x.P), x.k.Cmp(cryN) >= 0)
			sink.Stat("k*P affine model")
		}
		if x.k.Cmp(cryN) >= 0 {
			sink.Stat("k*P, k>=n")
		} else {
			sink.Stat("k*P, k<n")
		}
	}
	// --- ParsePubKey
	parse := func(b []byte, kind string) {
		obs := cryParseObs(b)
		sink.Add(cryCase(A(9), bytesS(b)), obs, len(obs.items) == 3)
		sink.Stat("parse:" + kind)
	}
	parse(nil, "empty")
	parse(append([]byte{2}, make([]byte, 32)...), "x=0")
	parse(append([]byte{2}, cryBytes32(cryP)...), "x=p")
	parse(append([]byte{3}, cryBytes32(new(big.Int).Add(cryP, big.NewInt(1)))...), "x=p+1")
	parse(append([]byte{2}, cryBytes32(new(big.Int).Sub(cryP, big.NewInt(1)))...), "x=p-1")
	parse(make([]byte, 65), "zero65")
	for i := 0; i < 40*scale; i++ {
		P := cryRandPoint(rng)
		comp, unc := P.SerializeCompressed(), P.SerializeUncompressed()
		parse(comp, "compressed")
		parse(unc, "uncompressed")
		hy := append([]byte{}, unc...)
		hy[0] = 6 + unc[64]&1
		parse(hy, "hybrid-right-parity")
		hy2 := append([]byte{}, unc...)
		hy2[0] = 7 - unc[64]&1
		parse(hy2, "hybrid-wrong-parity")
		bad := append([]byte{}, unc...)
		bad[33+rng.Intn(32)] ^= 1 << uint(rng.Intn(8))
		parse(bad, "uncompressed-off-curve")
		fl := append([]byte{}, comp...)
		fl[0] ^= 1
		parse(fl, "compressed-other-parity")
		pf := append([]byte{}, comp...)
		pf[0] = byte(rng.Intn(256))
		parse(pf, "compressed-random-prefix")
		parse(append([]byte{byte(2 + rng.Intn(2))}, cryRandBytes(rng, 32)...), "random-x")
		parse(comp[:rng.Intn(33)], "truncated")
		parse(append(append([]byte{}, comp...), 0), "34-bytes")
		parse(append([]byte{byte(rng.Intn(8))}, cryRandBytes(rng, 64)...), "random-65")
	}
	// --- PrivKeyFromBytes
	scal := func(b []byte, kind string) {
		sink.Add(cryCase(A(29), bytesS(b)), L(bytesS(secp256k1.PrivKeyFromBytes(b).Serialize())), len(b) != 32)
		sink.Stat("scalar:" + kind)
	}
	scal(nil, "empty")
	scal(cryBytes32(cryN), "n")
	scal(cryBytes32(new(big.Int).Add(cryN, big.NewInt(1))), "n+1")
	scal(cryBytes32(two256m1), "2^256-1")
	scal(append(cryBytes32(big.NewInt(7)), 0xff, 0xff), "trailing-bytes")
	for i := 0; i < 30*scale; i++ {
		scal(cryRandBytes(rng, 32), "32")
		scal(cryRandBytes(rng, rng.Intn(32)), "short")
		scal(cryRandBytes(rng, 33+rng.Intn(40)), "long")
		scal(append(bytes.Repeat([]byte{0xff}, 16), cryRandBytes(rng, 16)...), ">=n")
	}
	// --- BIP32 chains: test vector 1 of the BIP, then random seeds and paths
	h := uint32(0x80000000)
	tv1 := cryHex("000102030405060708090a0b0c0d0e0f")
	for _, p := range [][]uint32{{}, {h}, {h, 1}, {h, 1, h + 2}, {h, 1, h + 2, 2}, {h, 1, h + 2, 2, 1000000000}} {
		cryChainCase(sink, tv1, p, "bip-test-vector-1")
	}
	tv2 := cryHex("fffcf9f6f3f0edeae7e4e1dedbd8d5d2cfccc9c6c3c0bdbab7b4b1aeaba8a5a29f9c999693908d8a8784817e7b7875726f6c696663605d5a5754514e4b484542")
	for _, p := range [][]uint32{{}, {0}, {0, h + 2147483647}, {0, h + 2147483647, 1}, {0, h + 2147483647, 1, h + 2147483646}, {0, h + 2147483647, 1, h + 2147483646, 2}} {
		cryChainCase(sink, tv2, p, "bip-test-vector-2")
	}
	// test vector 3 (leading zeros in the private key are retained)
	tv3 := cryHex("4b381541583be4423346c643850da4b320e46a87ae3d2a4e6da11eba819cd4acba45d239319ac14f863b8d5ab5a0d0c64d2e8a1e7d1457df2e5a3c51c73235be")
	cryChainCase(sink, tv3, []uint32{}, "bip-test-vector-3")
	cryChainCase(sink, tv3, []uint32{h}, "bip-test-vector-3")
	cryChainCase(sink, cryRandBytes(rng, 15), []uint32{h}, "bad-seed-length")
	cryChainCase(sink, cryRandBytes(rng, 65), []uint32{h}, "bad-seed-length")
	for i := 0; i < 90*scale; i++ {
		seed := cryRandSeed(rng)
		path := make([]uint32, rng.Intn(6))
		for j := range path {
			switch rng.Intn(6) {
			case 0:
				path[j] = []uint32{0, 1, 1<<31 - 1, 1 << 31, 1<<32 - 1}[rng.Intn(5)]
			case 1, 2:
				path[j] = uint32(rng.Int63n(1 << 31))
			default:
				path[j] = h + uint32(rng.Int63n(1<<31))
			}
		}
		cryChainCase(sink, seed, path, "random")
	}
	sink.Close("hash input longer than one block / scalar >= n / point that parses / chain with a non-hardened step", false, start)
}

// ---------------------------------------------------------------------------------------------
// c09-keygen
// ---------------------------------------------------------------------------------------------

func cryRealKeyset(seed []byte, index uint32, fee uint) (ks *crypto.MintKeyset, outcome int, detail string) {
	defer func() {
		if p := recover(); p != nil {
			ks, outcome, detail = nil, 2, fmt.Sprint(p)
		}
	}()
	master, err := hdkeychain.NewMaster(seed, &chaincfg.MainNetParams)
	if err != nil {
		return nil, 0, err.Error()
	}
	k, err := crypto.GenerateKeyset(master, index, fee, true)
	if err != nil {
		return nil, 0, err.Error()
	}
	return k, 1, ""
}

func cryKeygenCase(sink *Sink, rng *rand.Rand, seed []byte, index uint32, kind string) {
	c := cryCase(A(4), bytesS(seed), AU(uint64(index)))
	fee := uint(rng.Intn(2000))
	ks, outcome, detail := cryRealKeyset(seed, index, fee)
	var obs S
	switch outcome {
	case 0:
		obs = L(A(0))
	case 2:
		obs = cryPanic
		sink.Violate("c09-keygen-panic", detail, c.String(), nil)
	default:
		amounts := make([]uint64, 0, len(ks.Keys))
		for a := range ks.Keys {
			amounts = append(amounts, a)
		}
		sort.Slice(amounts, func(i, j int) bool { return amounts[i] < amounts[j] })
		items := make([]S, len(amounts))
		pks := crypto.PublicKeys{}
		for i, a := range amounts {
			kp := ks.Keys[a]
			items[i] = L(AU(a), bytesS(kp.PrivateKey.Serialize()), bytesS(kp.PublicKey.SerializeCompressed()))
			pks[a] = kp.PublicKey
			if !kp.PrivateKey.PubKey().IsEqual(kp.PublicKey) {
				sink.Violate("c09-keygen-public-key-mismatch", fmt.Sprintf("amount %d", a), c.String(), nil)
			}
			if i >= 64 || a != uint64(1)<<uint(i) {
				sink.Violate("c09-keygen-amounts-not-powers-of-two", fmt.Sprintf("position %d amount %d", i, a), c.String(), nil)
			}
		}
		if len(amounts) != crypto.MAX_ORDER {
			sink.Violate("c09-keygen-key-count", fmt.Sprint(len(amounts)), c.String(), nil)
		}
		if id := crypto.DeriveKeysetId(pks); id != ks.Id {
			sink.Violate("c09-keygen-id-not-nut02", ks.Id+" vs "+id, c.String(), nil)
		}
		if ks.InputFeePpk != fee || ks.DerivationPathIdx != index || !ks.Active || ks.Unit != cashu.Sat.String() {
			sink.Violate("c09-keygen-fields", fmt.Sprintf("%+v", []any{ks.InputFeePpk, ks.DerivationPathIdx, ks.Active, ks.Unit}), c.String(), nil)
		}
		// a pure function of (seed, index): a second derivation, with another fee, gives the same keys and id
		ks2, o2, _ := cryRealKeyset(seed, index, fee+1)
		if o2 != 1 || ks2.Id != ks.Id {
			sink.Violate("c09-keygen-not-deterministic", "", c.String(), nil)
		} else {
			for a, kp := range ks.Keys {
				if !bytes.Equal(ks2.Keys[a].PrivateKey.Serialize(), kp.PrivateKey.Serialize()) {
					sink.Violate("c09-keygen-not-deterministic", fmt.Sprintf("amount %d", a), c.String(), nil)
				}
			}
		}
		obs = L(A(1), LL(items), bytesS([]byte(ks.Id)))
	}
	sink.Add(c, obs, outcome == 1)
	sink.Stat("kind=" + kind)
	sink.Stat(fmt.Sprintf("outcome=%d", outcome))
	if index <= 5 {
		sink.Stat(fmt.Sprintf("index=%d", index))
	} else {
		sink.Stat("index>5")
	}
}

func streamC09Keygen(sink *Sink, rng *rand.Rand, tier string, scratch string) {
	start := time.Now()
	seeds := 14
	if tier == "thorough" {
		seeds = 140
	}
	for s := 0; s < seeds; s++ {
		seed := cryRandBytes(rng, 32) // the mint stores a 32-byte seed
		if s%4 == 3 {
			seed = cryRandSeed(rng)
		}
		for index := uint32(0); index <= 5; index++ {
			cryKeygenCase(sink, rng, seed, index, "random-seed")
		}
	}
	seed := cryRandBytes(rng, 32)
	cryKeygenCase(sink, rng, seed, 1<<31-1, "edge-index")
	cryKeygenCase(sink, rng, seed, 1<<31, "edge-index") // HardenedKeyStart + index wraps: non-hardened child 0
	cryKeygenCase(sink, rng, cryRandBytes(rng, 15), 0, "bad-seed-length")
	sink.Close("keyset derived: 60 key pairs and the id", false, start)
}

// ---------------------------------------------------------------------------------------------
// c10-bdhke
// ---------------------------------------------------------------------------------------------

// runs f under recover; a panic becomes the observation (-1)
func crySafe(f func() S) (obs S, pan any) {
	defer func() {
		if p := recover(); p != nil {
			obs, pan = cryPanic, p
		}
	}()
	return f(), nil
}

func cryPointS(p *secp256k1.PublicKey) S   { return bytesS(p.SerializeCompressed()) }
func cryScalarS(k *secp256k1.PrivateKey) S { return bytesS(k.Serialize()) }
func cryHexStrS(b []byte) S                { return bytesS([]byte(hex.EncodeToString(b))) }

// GenerateDLEQ of crypto/bdhke.go with its random r replaced by the given nonce (the real
// function draws r internally); HashE is the real crypto.HashE.
func cryGenDLEQWithNonce(a *secp256k1.PrivateKey, B_, C_ *secp256k1.PublicKey, nonce *secp256k1.PrivateKey) (*secp256k1.PrivateKey, *secp256k1.PrivateKey) {
	var bp, r2 secp256k1.JacobianPoint
	B_.AsJacobian(&bp)
	secp256k1.ScalarMultNonConst(&nonce.Key, &bp, &r2)
	r2.ToAffine()
	R1 := nonce.PubKey()
	R2 := secp256k1.NewPublicKey(&r2.X, &r2.Y)
	ebytes := crypto.HashE([]*secp256k1.PublicKey{R1, R2, a.PubKey(), C_})
	e := secp256k1.PrivKeyFromBytes(ebytes[:])
	var ea, sc secp256k1.ModNScalar
	ea.Mul2(&e.Key, &a.Key)
	sc.Add2(&nonce.Key, &ea)
	return secp256k1.PrivKeyFromBytes(ebytes[:]), secp256k1.NewPrivateKey(&sc)
}

type cryC10 struct {
	sink *Sink
	rng  *rand.Rand
}

func (w *cryC10) add(c S, f func() S, nontrivial bool, stat string) S {
	obs, pan := crySafe(f)
	if pan != nil {
		w.sink.Violate("c10-panic:"+stat, fmt.Sprint(pan), c.String(), nil)
	}
	w.sink.Add(c, obs, nontrivial)
	w.sink.Stat(stat)
	return obs
}

func cryIsTrue(s S) bool  { return s.String() == "(1)" }
func cryIsFalse(s S) bool { return s.String() == "(0)" }

// blind -> sign -> unblind -> verify; returns what Go computed
func (w *cryC10) light(secret string, rb, kb []byte, kind string) (B_, C_, C *secp256k1.PublicKey, r, k *secp256k1.PrivateKey, ok bool) {
	sink := w.sink
	r = secp256k1.PrivKeyFromBytes(rb)
	k = secp256k1.PrivKeyFromBytes(kb)
	K := k.PubKey()
	c20 := cryCase(A(20), bytesS([]byte(secret)), bytesS(rb))
	w.add(c20, func() S {
		b, _, err := crypto.BlindMessage(secret, r)
		if err != nil {
			return L(A(0))
		}
		B_ = b
		return L(A(1), cryPointS(b))
	}, true, "BlindMessage")
	if B_ == nil {
		return
	}
	if _, err := secp256k1.ParsePubKey(B_.SerializeCompressed()); err != nil {
		return // B_ is the point at infinity (r.G = -Y): cannot be handed on
	}
	c21 := cryCase(A(21), cryPointS(B_), bytesS(kb))
	w.add(c21, func() S { C_ = crypto.SignBlindedMessage(B_, k); return L(cryPointS(C_)) }, true, "SignBlindedMessage")
	if C_ == nil {
		return
	}
	if _, err := secp256k1.ParsePubKey(C_.SerializeCompressed()); err != nil {
		sink.Stat("signature-is-infinity")
		return
	}
	if _, err := secp256k1.ParsePubKey(K.SerializeCompressed()); err != nil {
		return
	}
	c22 := cryCase(A(22), cryPointS(C_), bytesS(rb), cryPointS(K))
	w.add(c22, func() S { C = crypto.UnblindSignature(C_, r, K); return L(cryPointS(C)) }, true, "UnblindSignature")
	if C == nil {
		return
	}
	if _, err := secp256k1.ParsePubKey(C.SerializeCompressed()); err != nil {
		return
	}
	c23 := cryCase(A(23), bytesS([]byte(secret)), bytesS(kb), cryPointS(C))
	v := w.add(c23, func() S { return L(AB(crypto.Verify(secret, k, C))) }, true, "Verify")
	if !cryIsTrue(v) {
		sink.Violate("c10-unblinded-signature-does-not-verify", "Verify(secret, k, Unblind(Sign(Blind(secret, r), k), r, kG)) = "+v.String(),
			c23.String(), map[string]any{"secret": hex.EncodeToString([]byte(secret)), "r": hex.EncodeToString(rb), "k": hex.EncodeToString(kb)})
	}
	// C = k * hash_to_curve(secret), computed independently of UnblindSignature
	if Y, err := crypto.HashToCurve([]byte(secret)); err == nil {
		want := cryMulObs(new(big.Int).SetBytes(k.Serialize()), Y)
		if got := L(A(1), cryPointS(C)); got.String() != want.String() {
			sink.Violate("c10-unblinded-signature-is-not-kY", got.String()+" vs "+want.String(), c22.String(), nil)
		}
	}
	sink.Stat("scenario:" + kind)
	sink.Stat("secret-len=" + cryLenBucket(len(secret)))
	ok = true
	return
}

func (w *cryC10) otherPoint(not ...*secp256k1.PublicKey) *secp256k1.PublicKey {
	for {
		p := cryRandPoint(w.rng)
		same := false
		for _, q := range not {
			if q.IsEqual(p) {
				same = true
			}
		}
		if !same {
			return p
		}
	}
}

func cryAddOne(k *secp256k1.PrivateKey) *secp256k1.PrivateKey {
	var one, s secp256k1.ModNScalar
	one.SetInt(1)
	s.Add2(&k.Key, &one)
	return secp256k1.NewPrivateKey(&s)
}

func (w *cryC10) full(secret string, rb, kb, nb []byte, kind string) {
	sink, rng := w.sink, w.rng
	B_, C_, C, r, k, ok := w.light(secret, rb, kb, kind)
	if !ok {
		return
	}
	K := k.PubKey()
	replay := map[string]any{"secret": hex.EncodeToString([]byte(secret)), "r": hex.EncodeToString(rb), "k": hex.EncodeToString(kb), "nonce": hex.EncodeToString(nb)}

	// independent of the blinding factor
	r2 := cryPriv(cryRandScalar(rng))
	if b2, _, err := crypto.BlindMessage(secret, r2); err == nil {
		if c2 := crypto.UnblindSignature(crypto.SignBlindedMessage(b2, k), r2, K); !c2.IsEqual(C) {
			sink.Violate("c10-unblinded-signature-depends-on-r", fmt.Sprintf("%x vs %x", C.SerializeCompressed(), c2.SerializeCompressed()), "", replay)
		}
	}
	// other key, other secret, other point: must not verify
	neg := func(what string, sec string, kk *secp256k1.PrivateKey, cc *secp256k1.PublicKey) {
		c := cryCase(A(23), bytesS([]byte(sec)), cryScalarS(kk), cryPointS(cc))
		v := w.add(c, func() S { return L(AB(crypto.Verify(sec, kk, cc))) }, true, "Verify-"+what)
		if !cryIsFalse(v) {
			sink.Violate("c10-verify-accepts-"+what, v.String(), c.String(), replay)
		}
	}
	neg("other-key", secret, cryAddOne(k), C)
	neg("other-secret", secret+"x", k, C)
	neg("other-point", secret, k, w.otherPoint(C))

	// HashE
	R1, R2 := cryRandPoint(rng), cryRandPoint(rng)
	for _, pts := range [][]*secp256k1.PublicKey{{R1, R2, K, C_}, {}, {C}, {C, C}, {R1, R2, K, C_, B_}} {
		items := make([]S, len(pts))
		for i, p := range pts {
			items[i] = cryPointS(p)
		}
		pp := pts
		w.add(cryCase(A(24), LL(items)), func() S { h := crypto.HashE(pp); return L(bytesS(h[:])) }, len(pts) == 4, "HashE")
	}

	// the mint's proof (internal randomness), checked by both verifiers
	var e, s *secp256k1.PrivateKey
	if _, pan := crySafe(func() S { e, s = crypto.GenerateDLEQ(k, B_, C_); return L() }); pan != nil || e == nil {
		sink.Violate("c10-panic:GenerateDLEQ", fmt.Sprint(pan), "", replay)
		return
	}
	verify := func(stat string, e, s *secp256k1.PrivateKey, A, B_, C_ *secp256k1.PublicKey) (S, S) {
		c := cryCase(A_(25), cryScalarS(e), cryScalarS(s), cryPointS(A), cryPointS(B_), cryPointS(C_))
		return c, w.add(c, func() S { return L(AB(crypto.VerifyDLEQ(e, s, A, B_, C_))) }, true, stat)
	}
	if c, v := verify("VerifyDLEQ(GenerateDLEQ)", e, s, K, B_, C_); !cryIsTrue(v) {
		sink.Violate("c10-mint-dleq-rejected", v.String(), c.String(), replay)
	}
	// the same with a chosen nonce: bit for bit against the model's dleq_gen, and accepted by Go
	nonce := secp256k1.PrivKeyFromBytes(nb)
	en, sn := cryGenDLEQWithNonce(k, B_, C_, nonce)
	w.add(cryCase(A(26), bytesS(kb), cryPointS(B_), cryPointS(C_), bytesS(nb)),
		func() S { return L(cryScalarS(en), cryScalarS(sn)) }, true, "GenerateDLEQ(nonce)")
	if c, v := verify("VerifyDLEQ(nonce proof)", en, sn, K, B_, C_); !cryIsTrue(v) {
		sink.Violate("c10-dleq-with-chosen-nonce-rejected", v.String(), c.String(), replay)
	}
	// single-field tamperings of (e, s, A, B_, C_)
	tam := func(field string, e, s *secp256k1.PrivateKey, A, B_, C_ *secp256k1.PublicKey) {
		if c, v := verify("VerifyDLEQ-tampered-"+field, e, s, A, B_, C_); !cryIsFalse(v) {
			sink.Violate("c10-tampered-dleq-accepted:"+field, v.String(), c.String(), replay)
		}
	}
	tam("e", cryAddOne(e), s, K, B_, C_)
	tam("s", e, cryAddOne(s), K, B_, C_)
	tam("A", e, s, w.otherPoint(K), B_, C_)
	tam("B_", e, s, K, w.otherPoint(B_), C_)
	tam("C_", e, s, K, B_, w.otherPoint(C_))
	// a signature made with another key than the published one, with that key's own proof
	kbad := cryAddOne(k)
	if kbad.Key.IsZero() { // k = n-1: take another non-zero key (0 signs to the point at infinity)
		kbad = cryAddOne(kbad)
	}
	cbad := crypto.SignBlindedMessage(B_, kbad)
	ebad, sbad := cryGenDLEQWithNonce(kbad, B_, cbad, nonce)
	tam("signed-with-other-key", ebad, sbad, K, B_, cbad)

	// nut12, blind signature side
	eh, sh := hex.EncodeToString(e.Serialize()), hex.EncodeToString(s.Serialize())
	bh, ch := hex.EncodeToString(B_.SerializeCompressed()), hex.EncodeToString(C_.SerializeCompressed())
	blindSig := func(stat string, E, S_, R string, A *secp256k1.PublicKey, bs, cs string, want int) {
		c := cryCase(A_(28), bytesS([]byte(E)), bytesS([]byte(S_)), bytesS([]byte(R)), cryPointS(A), bytesS([]byte(bs)), bytesS([]byte(cs)))
		v := w.add(c, func() S {
			return L(AB(nut12.VerifyBlindSignatureDLEQ(cashu.DLEQProof{E: E, S: S_, R: R}, A, bs, cs)))
		}, true, "nut12.VerifyBlindSignatureDLEQ-"+stat)
		if want == 1 && !cryIsTrue(v) {
			sink.Violate("c10-nut12-blind-signature-dleq-rejected:"+stat, v.String(), c.String(), replay)
		}
		if want == 0 && !cryIsFalse(v) {
			sink.Violate("c10-nut12-tampered-blind-signature-dleq-accepted:"+stat, v.String(), c.String(), replay)
		}
	}
	blindSig("honest", eh, sh, "", K, bh, ch, 1)
	blindSig("upper-case-hex", strings.ToUpper(eh), strings.ToUpper(sh), "", K, strings.ToUpper(bh), ch, 1)
	blindSig("uncompressed-points", eh, sh, "", K, hex.EncodeToString(B_.SerializeUncompressed()), hex.EncodeToString(C_.SerializeUncompressed()), 1)
	blindSig("e-with-trailing-bytes", eh+"ffff", sh, "", K, bh, ch, -1) // PrivKeyFromBytes reads 32 bytes: documented malleability
	blindSig("bad-r-hex", eh, sh, "zz", K, bh, ch, 0)                   // ParseDLEQ parses R although it is not used
	blindSig("e-odd-hex", eh[:63], sh, "", K, bh, ch, 0)
	blindSig("B_-not-a-point", eh, sh, "", K, "02"+strings.Repeat("00", 32), ch, 0)
	blindSig("C_-truncated", eh, sh, "", K, bh, ch[:64], 0)
	blindSig("tampered-s", eh, hex.EncodeToString(cryAddOne(s).Serialize()), "", K, bh, ch, 0)
	blindSig("tampered-A", eh, sh, "", w.otherPoint(K), bh, ch, 0)

	// nut12, token side: the wallet attaches r
	rh := hex.EncodeToString(r.Serialize())
	Ch := hex.EncodeToString(C.SerializeCompressed())
	proofDLEQ := func(stat string, d *cashu.DLEQProof, sec, cs string, A *secp256k1.PublicKey, want int) {
		ds := L()
		if d != nil {
			ds = L(bytesS([]byte(d.E)), bytesS([]byte(d.S)), bytesS([]byte(d.R)))
		}
		c := cryCase(A_(27), ds, bytesS([]byte(sec)), bytesS([]byte(cs)), cryPointS(A))
		obs, pan := crySafe(func() S {
			return L(AB(nut12.VerifyProofDLEQ(cashu.Proof{Amount: 1, Id: "00", Secret: sec, C: cs, DLEQ: d}, A)))
		})
		if pan != nil {
			obs = L(A_(2))
		}
		sink.Add(c, obs, true)
		sink.Stat("nut12.VerifyProofDLEQ-" + stat)
		if want == 1 && !cryIsTrue(obs) {
			sink.Violate("c10-nut12-proof-dleq-rejected:"+stat, obs.String(), c.String(), replay)
		}
		if want == 0 && !cryIsFalse(obs) {
			sink.Violate("c10-nut12-tampered-proof-dleq-accepted:"+stat, obs.String(), c.String(), replay)
		}
	}
	D := func(E, S_, R string) *cashu.DLEQProof { return &cashu.DLEQProof{E: E, S: S_, R: R} }
	proofDLEQ("honest", D(eh, sh, rh), secret, Ch, K, 1)
	proofDLEQ("nonce-proof", D(hex.EncodeToString(en.Serialize()), hex.EncodeToString(sn.Serialize()), rh), secret, Ch, K, 1)
	proofDLEQ("C-uncompressed", D(eh, sh, rh), secret, hex.EncodeToString(C.SerializeUncompressed()), K, 1)
	proofDLEQ("tampered-e", D(hex.EncodeToString(cryAddOne(e).Serialize()), sh, rh), secret, Ch, K, 0)
	proofDLEQ("tampered-s", D(eh, hex.EncodeToString(cryAddOne(s).Serialize()), rh), secret, Ch, K, 0)
	proofDLEQ("tampered-r", D(eh, sh, hex.EncodeToString(cryAddOne(r).Serialize())), secret, Ch, K, 0)
	proofDLEQ("tampered-A", D(eh, sh, rh), secret, Ch, w.otherPoint(K), 0)
	proofDLEQ("tampered-C", D(eh, sh, rh), secret, hex.EncodeToString(w.otherPoint(C).SerializeCompressed()), K, 0)
	proofDLEQ("tampered-secret", D(eh, sh, rh), secret+"x", Ch, K, 0)

	// the batch verifier the wallet uses on received tokens: the keyset's key for the proof's amount decides, whatever
	// keyset id the proof is labelled with (the label is not authenticated); checked on the Go result only
	for _, lbl := range []string{"00aa", "00bb-another-keyset-id"} {
		ks := crypto.WalletKeyset{Id: "00aa", PublicKeys: map[uint64]*secp256k1.PublicKey{1: K}}
		rogue := crypto.WalletKeyset{Id: "00aa", PublicKeys: map[uint64]*secp256k1.PublicKey{1: w.otherPoint(K)}}
		good := cashu.Proofs{{Amount: 1, Id: lbl, Secret: secret, C: Ch, DLEQ: D(eh, sh, rh)}}
		bad := cashu.Proofs{{Amount: 1, Id: lbl, Secret: secret, C: Ch, DLEQ: D(eh, hex.EncodeToString(cryAddOne(s).Serialize()), rh)}}
		batch := func(ps cashu.Proofs, k crypto.WalletKeyset) (ok bool) {
			defer func() {
				if recover() != nil {
					ok = false
				}
			}()
			return nut12.VerifyProofsDLEQ(ps, k)
		}
		sink.Stat("nut12.VerifyProofsDLEQ-label-" + lbl)
		if !batch(good, ks) {
			sink.Violate("c10-nut12-batch-honest-rejected:label="+lbl, "VerifyProofsDLEQ refused an honest proof", "", replay)
		}
		if batch(bad, ks) {
			sink.Violate("c10-nut12-batch-tampered-accepted:label="+lbl, "VerifyProofsDLEQ accepted a proof whose DLEQ s was changed", "", replay)
		}
		if batch(good, rogue) {
			sink.Violate("c10-nut12-batch-wrong-key-accepted:label="+lbl, "VerifyProofsDLEQ accepted a proof against a keyset that publishes another key", "", replay)
		}
	}
	proofDLEQ("no-r", D(eh, sh, ""), secret, Ch, K, 0)
	proofDLEQ("C-not-hex", D(eh, sh, rh), secret, Ch[:65], K, 0)
	proofDLEQ("r-with-trailing-bytes", D(eh, sh, rh+"00"), secret, Ch, K, -1) // documented malleability
	if rng.Intn(4) == 0 {
		proofDLEQ("dleq-nil", nil, secret, Ch, K, -1) // exported function dereferences proof.DLEQ: panic (2)
	}
}

func A_(v int64) S { return A(v) }

func cryRandSecret(rng *rand.Rand) string {
	switch rng.Intn(8) {
	case 0:
		return ""
	case 1:
		return string(cryRandBytes(rng, 1))
	case 2:
		return string(cryRandBytes(rng, 32))
	case 3:
		return string(cryRandBytes(rng, 512))
	case 4, 5:
		return hex.EncodeToString(cryRandBytes(rng, 32)) // what the wallet generates
	case 6:
		return `["P2PK",{"nonce":"` + hex.EncodeToString(cryRandBytes(rng, 16)) + `","data":"` + hex.EncodeToString(cryRandPoint(rng).SerializeCompressed()) + `"}]`
	}
	return string(cryRandBytes(rng, rng.Intn(200)))
}

func cryEdgeScalarBytes(rng *rand.Rand) []byte {
	nm1 := new(big.Int).Sub(cryN, big.NewInt(1))
	switch rng.Intn(8) {
	case 0:
		return cryBytes32(big.NewInt(1))
	case 1:
		return cryBytes32(nm1)
	case 2:
		return cryBytes32(big.NewInt(2))
	case 3:
		return cryBytes32(new(big.Int).Sub(cryN, big.NewInt(2)))
	}
	return cryBytes32(cryRandScalar(rng))
}

func streamC10Bdhke(sink *Sink, rng *rand.Rand, tier string, scratch string) {
	start := time.Now()
	nFull, nKeysets := 60, 2
	if tier == "thorough" {
		nFull, nKeysets = 700, 12
	}
	w := &cryC10{sink, rng}
	one := cryBytes32(big.NewInt(1))
	two := cryBytes32(big.NewInt(2))
	nm1 := cryBytes32(new(big.Int).Sub(cryN, big.NewInt(1)))

	// completeness does not depend on who else is signing: the mint signs outside any lock, so several goroutines sign, prove and
	// verify at once; every honest proof must verify (a search for a failing schedule, not a proof: the theorems are about one call)
	{
		workers, rounds := 8, 150
		if tier == "thorough" {
			rounds = 1500
		}
		var bad int64
		var firstBad atomic.Value
		var wg sync.WaitGroup
		for g := 0; g < workers; g++ {
			wg.Add(1)
			go func(g int) {
				defer wg.Done()
				for i := 0; i < rounds; i++ {
					kb := sha256.Sum256([]byte(fmt.Sprintf("conc-k-%d-%d", g, i)))
					k := secp256k1.PrivKeyFromBytes(kb[:])
					B_, _, err := crypto.BlindMessage(fmt.Sprintf("conc-secret-%d-%d", g, i), k)
					if err != nil {
						continue
					}
					C_ := crypto.SignBlindedMessage(B_, k)
					e, sc := crypto.GenerateDLEQ(k, B_, C_)
					if !crypto.VerifyDLEQ(e, sc, k.PubKey(), B_, C_) {
						if atomic.AddInt64(&bad, 1) == 1 {
							firstBad.Store(fmt.Sprintf("worker %d round %d", g, i))
						}
					}
				}
			}(g)
		}
		wg.Wait()
		sink.StatN("concurrent DLEQ generate+verify rounds", workers*rounds)
		if bad > 0 {
			sink.Violate("c10-dleq-rejected-under-concurrency", fmt.Sprintf("%d of %d honest DLEQ proofs generated and verified by %d goroutines at once were rejected (first: %v)", bad, workers*rounds, workers, firstBad.Load()),
				"concurrent GenerateDLEQ/VerifyDLEQ", nil)
		}
	}

	// crypto/bdhke_test.go: TestBlindMessage / TestSignBlindedMessage / TestVerify
	w.full("test_message", one, one, two, "vector")
	w.full("test_message", two, one, one, "vector")
	// TestUnblindSignature
	for _, v := range [][3]string{
		{"02a9acc1e48c25eeeb9289b5031cc57da9fe72f3fe2861d264bdc074209b107ba2", "020000000000000000000000000000000000000000000000000000000000000001", "03c724d7e6a5443b39ac8acf11f40420adc4f99a02e7cc1b57703d9391f6d129cd"},
		{"025cc16fe33b953e2ace39653efb3e7a7049711ae1d8a2f7a9108753f1cdea742b", "020000000000000000000000000000000000000000000000000000000000000001", "0271bf0d702dbad86cbe0af3ab2bfba70a0338f22728e412d88a830ed0580b9de4"}} {
		C_, K := cryParsePoint(v[0]), cryParsePoint(v[1])
		r := secp256k1.PrivKeyFromBytes(one)
		c := cryCase(A(22), cryPointS(C_), bytesS(one), cryPointS(K))
		obs := w.add(c, func() S { return L(cryPointS(crypto.UnblindSignature(C_, r, K))) }, true, "UnblindSignature")
		if obs.String() != L(bytesS(cryHex(v[2]))).String() {
			sink.Violate("c10-unblind-vector", obs.String(), c.String(), nil)
		}
	}
	// TestHashE
	{
		p1 := cryParsePoint("020000000000000000000000000000000000000000000000000000000000000001")
		c_ := cryParsePoint("02a9acc1e48c25eeeb9289b5031cc57da9fe72f3fe2861d264bdc074209b107ba2")
		pts := []*secp256k1.PublicKey{p1, p1, p1, c_}
		c := cryCase(A(24), L(cryPointS(p1), cryPointS(p1), cryPointS(p1), cryPointS(c_)))
		obs := w.add(c, func() S { h := crypto.HashE(pts); return L(bytesS(h[:])) }, true, "HashE")
		if obs.String() != L(bytesS(cryHex("a4dc034b74338c28c6bc3ea49731f2a24440fc7c4affc08b31a93fc9fbe6401e"))).String() {
			sink.Violate("c10-hashe-vector", obs.String(), c.String(), nil)
		}
	}
	// TestVerifyDLEQ / nut12 TestVerifyBlindSiagnatureDLEQ / TestVerifyProofDLEQ
	{
		e := cryHex("9818e061ee51d5c8edc3342369a554998ff7b4381c8652d724cdf46429be73d9")
		s := cryHex("9818e061ee51d5c8edc3342369a554998ff7b4381c8652d724cdf46429be73da")
		G := cryParsePoint("0279be667ef9dcbbac55a06295ce870b07029bfcdb2dce28d959f2815b16f81798")
		bc := "02a9acc1e48c25eeeb9289b5031cc57da9fe72f3fe2861d264bdc074209b107ba2"
		P := cryParsePoint(bc)
		c := cryCase(A(25), bytesS(e), bytesS(s), cryPointS(G), cryPointS(P), cryPointS(P))
		if v := w.add(c, func() S {
			return L(AB(crypto.VerifyDLEQ(secp256k1.PrivKeyFromBytes(e), secp256k1.PrivKeyFromBytes(s), G, P, P)))
		}, true, "VerifyDLEQ-vector"); !cryIsTrue(v) {
			sink.Violate("c10-verifydleq-vector", v.String(), c.String(), nil)
		}
		c = cryCase(A(28), cryHexStrS(e), cryHexStrS(s), bytesS(nil), cryPointS(G), bytesS([]byte(bc)), bytesS([]byte(bc)))
		if v := w.add(c, func() S {
			return L(AB(nut12.VerifyBlindSignatureDLEQ(cashu.DLEQProof{E: hex.EncodeToString(e), S: hex.EncodeToString(s)}, G, bc, bc)))
		}, true, "nut12.VerifyBlindSignatureDLEQ-vector"); !cryIsTrue(v) {
			sink.Violate("c10-nut12-blind-vector", v.String(), c.String(), nil)
		}
		d := &cashu.DLEQProof{
			E: "b31e58ac6527f34975ffab13e70a48b6d2b0d35abc4b03f0151f09ee1a9763d4",
			S: "8fbae004c59e754d71df67e392b6ae4e29293113ddc2ec86592a0431d16306d8",
			R: "a6d13fcd7a18442e6076f5e1e7c887ad5de40a019824bdfa9fe740d302e8d861"}
		sec := "daf4dd00a2b68a0858a80450f52c8a7d2ccf87d375e43e216e0c571f089f63e9"
		Cs := "024369d2d22a80ecf78f3937da9d5f30c1b9f74f0c32684d583cca0fa6a61cdcfc"
		c = cryCase(A(27), L(bytesS([]byte(d.E)), bytesS([]byte(d.S)), bytesS([]byte(d.R))), bytesS([]byte(sec)), bytesS([]byte(Cs)), cryPointS(G))
		if v := w.add(c, func() S {
			return L(AB(nut12.VerifyProofDLEQ(cashu.Proof{Amount: 1, Id: "00882760bfa2eb41", Secret: sec, C: Cs, DLEQ: d}, G)))
		}, true, "nut12.VerifyProofDLEQ-vector"); !cryIsTrue(v) {
			sink.Violate("c10-nut12-proof-vector", v.String(), c.String(), nil)
		}
	}
	// degenerate scalars: k = 0 signs to the point at infinity (serialised 02 00..00), r = 0 does not blind
	{
		zero := make([]byte, 32)
		B_, _, _ := crypto.BlindMessage("s", secp256k1.PrivKeyFromBytes(one))
		w.add(cryCase(A(21), cryPointS(B_), bytesS(zero)), func() S {
			return L(cryPointS(crypto.SignBlindedMessage(B_, secp256k1.PrivKeyFromBytes(zero))))
		}, true, "SignBlindedMessage-k=0")
		w.add(cryCase(A(21), cryPointS(B_), bytesS(cryBytes32(cryN))), func() S {
			return L(cryPointS(crypto.SignBlindedMessage(B_, secp256k1.PrivKeyFromBytes(cryBytes32(cryN)))))
		}, true, "SignBlindedMessage-k=n")
		w.light("s", zero, two, "r=0")
		w.light("s", nil, two, "r=empty-bytes")
		w.light("s", append(cryBytes32(big.NewInt(5)), 1, 2, 3), two, "r-with-trailing-bytes")
		w.light("s", cryBytes32(new(big.Int).Add(cryN, big.NewInt(5))), two, "r=n+5")
	}
	// edge scalars in every position
	for _, rb := range [][]byte{one, nm1} {
		for _, kb := range [][]byte{one, nm1} {
			w.full(cryRandSecret(rng), rb, kb, [][]byte{one, nm1}[rng.Intn(2)], "edge-scalars")
		}
	}
	for _, sec := range []string{"", "\x00", string(cryRandBytes(rng, 32)), string(cryRandBytes(rng, 512))} {
		w.full(sec, cryEdgeScalarBytes(rng), cryEdgeScalarBytes(rng), cryBytes32(cryRandScalar(rng)), "secret-lengths")
	}
	// all 60 keys of freshly derived keysets
	for ki := 0; ki < nKeysets; ki++ {
		ks, outcome, _ := cryRealKeyset(cryRandBytes(rng, 32), uint32(ki), 0)
		if outcome != 1 {
			continue
		}
		amounts := make([]uint64, 0, len(ks.Keys))
		for a := range ks.Keys {
			amounts = append(amounts, a)
		}
		sort.Slice(amounts, func(i, j int) bool { return amounts[i] < amounts[j] })
		for i, a := range amounts {
			kb := ks.Keys[a].PrivateKey.Serialize()
			if i%20 == 7 {
				w.full(cryRandSecret(rng), cryBytes32(cryRandScalar(rng)), kb, cryBytes32(cryRandScalar(rng)), "keyset-key")
			} else {
				w.light(cryRandSecret(rng), cryBytes32(cryRandScalar(rng)), kb, "keyset-key")
			}
		}
	}
	for i := 0; i < nFull; i++ {
		w.full(cryRandSecret(rng), cryEdgeScalarBytes(rng), cryBytes32(cryRandScalar(rng)), cryBytes32(cryRandScalar(rng)), "random")
	}
	sink.Close("every case (each drives at least one scalar multiplication or hash on both sides)", false, start)
}

func init() {
	register("c11-h2c", "C11", streamC11H2C)
	register("c11-keysetid", "C11", streamC11KeysetId)
	register("c11-nut13", "C11", streamC11Nut13)
	register("c11-prims", "C11", streamC11Prims)
	register("c09-keygen", "C09", streamC09Keygen)
	register("c10-bdhke", "C10", streamC10Bdhke)
}
